/-
C08 — Protected calls succeed exactly when the access rule is satisfied.

Property theorems only.
  Model   : RadixModel/Model/Auth.lean   (transcription of authorization.rs / auth_module.rs)
  Meaning : RadixModel/Lemmas/Auth.lean  (`SatRule`, `Matches`, `HasAmount`, `visible`, `WellTyped`)

Reading guide.
* `visible z` is the documented zone walk of the frame whose auth zone is `z`: its local implicit
  badges (package of the direct caller, global caller), then the global caller's zone with its
  parents, then the direct caller's zone with its parents — never `z`'s own proofs.
* `SatRule z r` is the denotational meaning of an `AccessRule`: `require x` = some visible zone
  holds an implicit non-fungible / simulated resource / proof for `x`; `amountOf a r` = some
  *single* visible proof of `r` has amount ≥ a; `countOf n xs` = at least n *entries* of `xs`
  are matched; `allOf`, `anyOf` and the composite `AllOf` / `AnyOf` pointwise.
* The evaluation has exactly one error of its own: asking a *fungible* proof for its non-fungible
  ids (`WellTyped` excludes it). All theorems about granted / refused calls hold without it.
-/
import RadixModel.Model.Auth
import RadixModel.Lemmas.Auth
import RadixModel.Lemmas.AuthMono
import RadixModel.Generated.C08

namespace Radix.Auth

/-! ## verify ⇔ Sat -/

/-- Whenever the evaluation of a rule answers, the answer is the meaning of the rule
    (no hypothesis on zones, proofs or the rule). -/
theorem verify_sound_complete (z : Zone) (r : Rule) (b : Bool)
    (h : checkAccessRule z r = .ok b) : b = true ↔ SatRule z r := by
  cases r with
  | allowAll => simp only [checkAccessRule, Except.ok.injEq] at h; subst h; simp [SatRule]
  | denyAll => simp only [checkAccessRule, Except.ok.injEq] at h; subst h; simp [SatRule]
  | prot c => exact verifyComp_ok z c b h

/-- A well-typed rule always gets an answer. -/
theorem verify_total (z : Zone) (r : Rule) (hwt : WellTyped z r) : ∃ b, checkAccessRule z r = .ok b := by
  cases r with
  | allowAll => exact ⟨_, rfl⟩
  | denyAll => exact ⟨_, rfl⟩
  | prot c => exact verifyComp_total z c hwt

/-- **verify_iff_sat.** For a well-typed rule the check authorises iff the rule is satisfied by
    what is visible to the caller, and refuses iff it is not. -/
theorem verify_iff_sat (z : Zone) (r : Rule) (hwt : WellTyped z r) :
    (checkAccessRule z r = .ok true ↔ SatRule z r) ∧ (checkAccessRule z r = .ok false ↔ ¬ SatRule z r) := by
  obtain ⟨b, hb⟩ := verify_total z r hwt
  have h := verify_sound_complete z r b hb
  cases b with
  | true => simp [hb, h.mp rfl]
  | false =>
    have : ¬ SatRule z r := fun hs => by simpa using h.mpr hs
    simp [hb, this]

/-- The evaluation can fail only on an ill-typed rule (a non-fungible requirement naming a
    resource of which a fungible proof is visible). -/
theorem error_only_if_ill_typed (z : Zone) (r : Rule) (e : Err)
    (h : checkAccessRule z r = .error e) : ¬ WellTyped z r := by
  intro hwt
  obtain ⟨b, hb⟩ := verify_total z r hwt
  rw [hb] at h; cases h

/-! Non-vacuity: a well-typed situation with a non-trivial rule, on both sides. -/

/-- manifest zone: an implicit signature badge, a fungible proof of 3 units and a non-fungible proof -/
def exTx : Zone :=
  .mk [⟨10, true, 3, []⟩, ⟨20, false, 2, [4, 5]⟩] [] [⟨2, 0⟩] none none none
/-- zone of a method called by the manifest (`createAuthZone` of a function actor, global call) -/
def exCallee : Zone := createAuthZone (.function 0 1 exTx) true [] []
def exRule : Rule :=
  .prot (.allOf [.basic (.require (.nf ⟨2, 0⟩)), .anyOf [.basic (.amountOf 5 10), .basic (.countOf 2 [.res 10, .nf ⟨20, 5⟩, .res 11])]])

example : WellTyped exCallee exRule := by
  intro x hx v hv
  simp [exRule, Rule.rons, Comp.rons, Comp.ronsList, Basic.rons] at hx
  simp [exCallee, createAuthZone, visible, localImplicit, Zone.pkg, Zone.gc, Zone.parent, exTx,
    chain_none, PKG_BADGE, GC_BADGE, FRAME_OWNED_MARKER] at hv
  rcases hx with rfl | rfl | rfl | rfl <;> rcases hv with rfl | rfl <;> simp [View.TypedFor]
example : checkAccessRule exCallee exRule = .ok true := by decide
example : checkAccessRule exCallee (.prot (.basic (.amountOf 5 10))) = .ok false := by decide

/-! ## Roles: explicit entry, owner fallback, SELF -/

/-- meaning of a role list: some listed role's rule is satisfied -/
def RoleListSat (z : Zone) (ra : RoleAssignment) (addr : Nat) (keys : List RoleKey) : Prop :=
  ∃ k ∈ keys, SatRule z (resolveRole ra addr k)

theorem roleList_sound_complete (z : Zone) (ra : RoleAssignment) (addr : Nat) :
    ∀ (keys : List RoleKey) (b : Bool), checkRoleList z ra addr keys = .ok b →
      (b = true ↔ RoleListSat z ra addr keys)
  | [], b, h => by
    simp only [checkRoleList, Except.ok.injEq] at h
    subst h; simp [RoleListSat]
  | k :: ks, b, h => by
    simp only [checkRoleList] at h
    cases hm : checkAccessRule z (resolveRole ra addr k) with
    | error e => simp [hm] at h
    | ok b0 =>
      have h0 := verify_sound_complete z _ b0 hm
      cases b0 with
      | true =>
        simp only [hm, Except.ok.injEq] at h
        subst h
        simp only [true_iff]
        exact ⟨k, List.mem_cons_self, h0.mp rfl⟩
      | false =>
        simp only [hm] at h
        rw [roleList_sound_complete z ra addr ks b h]
        have hn : ¬ SatRule z (resolveRole ra addr k) := fun hs => by simpa using h0.mpr hs
        simp [RoleListSat, hn]

theorem roleList_total (z : Zone) (ra : RoleAssignment) (addr : Nat) :
    ∀ (keys : List RoleKey), (∀ k ∈ keys, WellTyped z (resolveRole ra addr k)) →
      ∃ b, checkRoleList z ra addr keys = .ok b
  | [], _ => ⟨_, rfl⟩
  | k :: ks, h => by
    simp only [checkRoleList]
    obtain ⟨b0, hb0⟩ := verify_total z _ (h k List.mem_cons_self)
    rw [hb0]
    cases b0 with
    | true => exact ⟨_, rfl⟩
    | false => exact roleList_total z ra addr ks (fun k' hk' => h k' (List.mem_cons_of_mem _ hk'))

/-- **role_fallback.** A role without an entry is decided by the owner rule … -/
theorem role_fallback (ra : RoleAssignment) (addr : Nat) (k : RoleKey)
    (hk : k ≠ .self) (hnone : ra.roles k = none) : resolveRole ra addr k = ra.owner := by
  simp [resolveRole, hk, hnone]

/-- … so a method protected by such a role is authorised iff the *owner* rule is satisfied. -/
theorem role_fallback_check (z : Zone) (ra : RoleAssignment) (addr : Nat) (k : RoleKey) (b : Bool)
    (hk : k ≠ .self) (hnone : ra.roles k = none)
    (h : checkRoleList z ra addr [k] = .ok b) : b = true ↔ SatRule z ra.owner := by
  have := roleList_sound_complete z ra addr [k] b h
  simpa [RoleListSat, role_fallback ra addr k hk hnone] using this

/-- A role with an entry is decided by that entry, whatever the owner rule is. -/
theorem role_explicit (ra : RoleAssignment) (addr : Nat) (k : RoleKey) (r : Rule)
    (hk : k ≠ .self) (hsome : ra.roles k = some r) : resolveRole ra addr k = r := by
  simp [resolveRole, hk, hsome]

/-- The SELF role is "the global caller is the object itself", whatever is stored. -/
theorem self_role (z : Zone) (ra : RoleAssignment) (addr : Nat) :
    SatRule z (resolveRole ra addr .self) ↔ Matches z (.nf ⟨GC_BADGE, addr⟩) := by
  simp [resolveRole, SatRule, SatComp, SatBasic]

example : (⟨fun _ => none, .denyAll⟩ : RoleAssignment).roles (.named 3) = none ∧ RoleKey.named 3 ≠ .self := by
  simp

/-! ## The permission check as a whole (`check_permission`) -/

def PermSat (z : Zone) : Permission → Prop
  | .allowAll => True
  | .accessRule r => SatRule z r
  | .roleList ra addr keys => RoleListSat z ra addr keys

def PermTyped (z : Zone) : Permission → Prop
  | .allowAll => True
  | .accessRule r => WellTyped z r
  | .roleList ra addr keys => ∀ k ∈ keys, WellTyped z (resolveRole ra addr k)

/-- **Never granted without the rule being satisfied**, and never refused with `Unauthorized`
    while it is satisfied — unconditionally. -/
theorem checkPermission_sound (z : Zone) (p : Permission) :
    (checkPermission z p = .authorized → PermSat z p) ∧
    (checkPermission z p = .unauthorized → ¬ PermSat z p) := by
  cases p with
  | allowAll => simp [checkPermission, PermSat]
  | accessRule r =>
    simp only [checkPermission, PermSat]
    cases h : checkAccessRule z r with
    | error e => simp
    | ok b =>
      have := verify_sound_complete z r b h
      cases b with
      | true => simp [this.mp rfl]
      | false => simp; exact fun hs => by simpa using this.mpr hs
  | roleList ra addr keys =>
    simp only [checkPermission, PermSat]
    cases h : checkRoleList z ra addr keys with
    | error e => simp
    | ok b =>
      have := roleList_sound_complete z ra addr keys b h
      cases b with
      | true => simp [this.mp rfl]
      | false => simp; exact fun hs => by simpa using this.mpr hs

/-- **The property.** For well-typed rules the protected call passes authorization iff the
    applicable rule (access rule, or some role of the role list after SELF / owner-fallback
    resolution) is satisfied by what is visible to the caller; otherwise it is `Unauthorized`. -/
theorem checkPermission_iff (z : Zone) (p : Permission) (ht : PermTyped z p) :
    (checkPermission z p = .authorized ↔ PermSat z p) ∧
    (checkPermission z p = .unauthorized ↔ ¬ PermSat z p) := by
  have hs := checkPermission_sound z p
  have hne : ∀ e, checkPermission z p ≠ .error e := by
    intro e
    cases p with
    | allowAll => simp [checkPermission]
    | accessRule r =>
      obtain ⟨b, hb⟩ := verify_total z r ht
      simp only [checkPermission, hb]
      cases b <;> simp
    | roleList ra addr keys =>
      obtain ⟨b, hb⟩ := roleList_total z ra addr keys ht
      simp only [checkPermission, hb]
      cases b <;> simp
  cases hc : checkPermission z p with
  | authorized => simp [hs.1 hc]
  | unauthorized => simp [hs.2 hc]
  | error e => exact absurd hc (hne e)

example : PermTyped exCallee (.roleList ⟨fun _ => none, exRule⟩ 7 [.named 0]) := by
  intro k hk
  simp only [List.mem_singleton] at hk
  subst hk
  intro x hx v hv
  simp [resolveRole, exRule, Rule.rons, Comp.rons, Comp.ronsList, Basic.rons] at hx
  simp [exCallee, createAuthZone, visible, localImplicit, Zone.pkg, Zone.gc, Zone.parent, exTx,
    chain_none, PKG_BADGE, GC_BADGE, FRAME_OWNED_MARKER] at hv
  rcases hx with rfl | rfl | rfl | rfl <;> rcases hv with rfl | rfl <;> simp [View.TypedFor]

/-! ## What is visible: structure of the walk -/

/-- **A frame's own proofs never authorise the frame itself**: pushing a proof onto the callee's
    own auth zone changes neither what it sees nor any verdict about it. -/
theorem own_proofs_irrelevant (z : Zone) (p : Proof) (r : Rule) :
    visible (z.push p) = visible z ∧ (SatRule (z.push p) r ↔ SatRule z r) := by
  have hv : visible (z.push p) = visible z := by
    cases z with
    | mk ps s i k g pa => simp [Zone.push, visible, localImplicit, Zone.pkg, Zone.gc, Zone.parent]
  exact ⟨hv, satRule_congr hv r⟩

/-- **Monotonicity**: presenting more (proofs, implicit badges, simulated resources) never turns
    a satisfied rule into an unsatisfied one. There is no negative requirement. -/
theorem sat_mono {z z' : Zone} (h : Covers z z') (r : Rule) (hs : SatRule z r) : SatRule z' r := by
  cases r with
  | allowAll => trivial
  | denyAll => exact hs
  | prot c => exact satComp_mono h c hs

/-! ### What `create_auth_zone` makes visible -/

/-- A call from a function actor (e.g. the transaction processor) to a global object or function
    sees: the caller's package badge, the caller blueprint's global-caller badge, and the caller's
    zone with its parents — and nothing else. -/
theorem visible_of_global_call_from_function (pkg bp : Nat) (cz : Zone) (s : List Nat) (i : List NfId) :
    visible (createAuthZone (.function pkg bp cz) true s i)
      = ⟨[], [], ⟨PKG_BADGE, pkg⟩ :: (if bp = FRAME_OWNED_MARKER then [] else [⟨GC_BADGE, bp⟩])⟩ :: cz.chain := by
  simp [createAuthZone, visible, localImplicit, Zone.pkg, Zone.gc, Zone.parent]

/-- non-vacuity of `Covers`: one more proof in the manifest zone covers the old situation -/
example : Covers exCallee (createAuthZone (.function 0 1 (exTx.push ⟨11, true, 7, []⟩)) true [] []) := by
  intro v hv
  simp only [exCallee, visible_of_global_call_from_function, exTx, chain_none, Zone.push, List.mem_cons,
    List.not_mem_nil, or_false] at hv ⊢
  rcases hv with rfl | rfl
  · exact ⟨_, Or.inl rfl, ⟨fun _ h => h, fun _ h => h, fun _ h => h⟩⟩
  · exact ⟨_, Or.inr rfl, ⟨fun q hq => List.mem_append_left _ hq, fun _ h => h, fun _ h => h⟩⟩

/-- Consequently, with an additional proof in the manifest's auth zone, every well-typed call that
    was authorised is still authorised. -/
theorem extra_manifest_proof_keeps_authorization (tz : Zone) (pkg bp : Nat) (p : Proof) (r : Rule)
    (hwt : WellTyped (createAuthZone (.function pkg bp (tz.push p)) true [] []) r)
    (h : checkAccessRule (createAuthZone (.function pkg bp tz) true [] []) r = .ok true) :
    checkAccessRule (createAuthZone (.function pkg bp (tz.push p)) true [] []) r = .ok true := by
  have hs := (verify_sound_complete _ r true h).mp rfl
  refine ((verify_iff_sat _ r hwt).1).mpr (sat_mono ?_ r hs)
  intro v hv
  rw [visible_of_global_call_from_function] at hv ⊢
  obtain ⟨hd, tl, h1, h2⟩ := chain_push tz p
  rw [h1] at hv
  rw [h2]
  simp only [List.mem_cons] at hv ⊢
  rcases hv with rfl | rfl | hv
  · exact ⟨_, Or.inl rfl, ⟨fun _ h => h, fun _ h => h, fun _ h => h⟩⟩
  · exact ⟨_, Or.inr (Or.inl rfl), ⟨fun q hq => by simp [hq], fun _ h => h, fun _ h => h⟩⟩
  · exact ⟨v, Or.inr (Or.inr hv), ⟨fun _ h => h, fun _ h => h, fun _ h => h⟩⟩

/-- A call from a method of a global(-rooted) object to one of its *owned* objects (no global
    context change) keeps the global caller of the calling frame and adds the calling frame's zone
    chain: the callee sees its caller's package badge, the *inherited* global-caller badge, the
    inherited global caller's zones and the caller's own zones. -/
theorem visible_of_internal_call (pkg addr gcId : Nat) (leaf cz0 : Zone) (ps : List Proof) (sr : List Nat)
    (im : List NfId) (k : Option Nat) (pa : Option Zone) (hcz : cz0 = .mk ps sr im k (some (gcId, leaf)) pa)
    (hg : gcId ≠ FRAME_OWNED_MARKER) :
    visible (createAuthZone (.method pkg (.global addr) cz0) false [] [])
      = ⟨[], [], [⟨PKG_BADGE, pkg⟩, ⟨GC_BADGE, gcId⟩]⟩ :: (leaf.chain ++ cz0.chain) := by
  subst hcz
  simp [createAuthZone, copyGlobalCaller, visible, localImplicit, Zone.pkg, Zone.gc, Zone.parent, hg]

/-- A frame-owned caller never confers a global-caller badge (the marker is filtered out). -/
theorem frame_owned_no_global_caller_badge (pkg : Nat) (cz : Zone) (ctx : Bool) (s : List Nat) (i : List NfId)
    (c : Nat) : (⟨GC_BADGE, c⟩ : NfId) ∉ localImplicit (createAuthZone (.method pkg .frameOwned cz) ctx s i) := by
  cases cz with
  | mk ps sr im k g pa =>
    cases g <;>
      simp [createAuthZone, copyGlobalCaller, localImplicit, Zone.pkg, Zone.gc, PKG_BADGE, GC_BADGE,
        FRAME_OWNED_MARKER]

/-- Directly accessed / internally referenced callers have no global caller at all, and a global
    context change cuts the parent chain: the callee sees only the caller's package badge. -/
theorem visible_of_direct_access_caller (pkg : Nat) (cz : Zone) (s : List Nat) (i : List NfId) :
    visible (createAuthZone (.method pkg .directlyAccessed cz) true s i) = [⟨[], [], [⟨PKG_BADGE, pkg⟩]⟩] := by
  simp [createAuthZone, visible, localImplicit, Zone.pkg, Zone.gc, Zone.parent]

/-! ## count-of, amount-of -/

theorem countOf_zero (z : Zone) (xs : List RoN) : SatBasic z (.countOf 0 xs) :=
  atLeast_zero _ _

/-- count-of 1 is any-of -/
theorem countOf_one_iff_anyOf (z : Zone) (xs : List RoN) :
    SatBasic z (.countOf 1 xs) ↔ SatBasic z (.anyOf xs) := by
  simp only [SatBasic]
  constructor
  · rintro ⟨ys, hs, hl, hp⟩
    match ys, hl with
    | [y], _ => exact ⟨y, hs.subset List.mem_cons_self, hp y List.mem_cons_self⟩
  · rintro ⟨x, hx, hm⟩
    exact ⟨[x], List.singleton_sublist.mpr hx, rfl, by simpa using hm⟩

/-- count-of (number of entries) is all-of -/
theorem countOf_length_iff_allOf (z : Zone) (xs : List RoN) :
    SatBasic z (.countOf xs.length xs) ↔ SatBasic z (.allOf xs) := by
  simp only [SatBasic]
  constructor
  · rintro ⟨ys, hs, hl, hp⟩
    have : ys = xs := hs.eq_of_length hl
    subst this; exact hp
  · intro h
    exact ⟨xs, List.Sublist.refl _, rfl, h⟩

/-- more than the number of entries can never be met -/
theorem countOf_too_many (z : Zone) (n : Nat) (xs : List RoN) (h : xs.length < n) :
    ¬ SatBasic z (.countOf n xs) := by
  rintro ⟨ys, hs, hl, _⟩
  have := hs.length_le
  omega

/-- amount-of looks at single proofs: two proofs of 3 do not make 5 (the engine's `TODO`) -/
example :
    let tx : Zone := .mk [⟨10, true, 3, []⟩, ⟨10, true, 3, []⟩] [] [] none none none
    checkAccessRule (createAuthZone (.function 0 1 tx) true [] []) (.prot (.basic (.amountOf 5 10))) = .ok false := by
  decide

/-- a `require(resource)` is met by proofs only — not by an implicit badge or a simulated resource
    of that resource (those serve non-fungible requirements) -/
example :
    let tx : Zone := .mk [] [2] [⟨2, 0⟩] none none none
    let z := createAuthZone (.function 0 1 tx) true [] []
    checkAccessRule z (.prot (.basic (.require (.res 2)))) = .ok false ∧
    checkAccessRule z (.prot (.basic (.require (.nf ⟨2, 7⟩)))) = .ok true := by
  decide

/-! ## Validation limits on stored rules (`verify_access_rule`) -/

/-- **Limits.** A rule is accepted for storage by `verify_access_rule` iff no node lies deeper
    than the depth limit and the rule has at most the permitted number of nodes. -/
theorem verifyAccessRule_ok_iff (d n : Nat) (c : Comp) :
    verifyAccessRule d n (.prot c) = .ok () ↔ c.maxDepth 0 ≤ d ∧ c.nodes ≤ n := by
  simp only [verifyAccessRule]
  constructor
  · intro h
    cases hv : visitComp d n 0 0 c with
    | error e => simp [hv] at h
    | ok c' =>
      have := visitComp_ok d n c 0 0 c' hv
      omega
  · rintro ⟨h1, h2⟩
    rw [visitComp_complete d n c 0 0 h1 (by omega)]

/-- With the limits of the current tree, every stored rule has its nodes within depth
    `MAX_ACCESS_RULE_DEPTH` — which bounds the native recursion of `verify_auth_rule` — and at most
    `MAX_COMPOSITE_REQUIREMENTS` nodes. -/
theorem stored_rule_bounds (c : Comp)
    (h : ruleWithinLimits Radix.Generated.C08.MAX_ACCESS_RULE_DEPTH Radix.Generated.C08.MAX_COMPOSITE_REQUIREMENTS (.prot c) = true) :
    c.maxDepth 0 ≤ Radix.Generated.C08.MAX_ACCESS_RULE_DEPTH ∧ c.nodes ≤ Radix.Generated.C08.MAX_COMPOSITE_REQUIREMENTS := by
  unfold ruleWithinLimits at h
  cases hv : verifyAccessRule Radix.Generated.C08.MAX_ACCESS_RULE_DEPTH Radix.Generated.C08.MAX_COMPOSITE_REQUIREMENTS (.prot c) with
  | error e => simp [hv] at h
  | ok u => exact (verifyAccessRule_ok_iff _ _ c).mp hv

/-- … and every single-requirement rule can be stored (needs both limits ≥ 1 / ≥ 0: re-decided on
    the regenerated constants). -/
theorem basic_rules_storable (b : Basic) :
    ruleWithinLimits Radix.Generated.C08.MAX_ACCESS_RULE_DEPTH Radix.Generated.C08.MAX_COMPOSITE_REQUIREMENTS (.prot (.basic b)) = true := by
  have : verifyAccessRule Radix.Generated.C08.MAX_ACCESS_RULE_DEPTH Radix.Generated.C08.MAX_COMPOSITE_REQUIREMENTS (.prot (.basic b)) = .ok () := by
    rw [verifyAccessRule_ok_iff]
    unfold Comp.maxDepth Comp.nodes
    decide
  simp [ruleWithinLimits, this]

example : ruleWithinLimits 8 64 exRule = true := by decide

end Radix.Auth
