/-
C40 — Access controller changes need two roles or an elapsed timer.

Property theorems only. Model: `RadixModel/Model/AccessController.lean` (transcribes
`access_controller/v2/state_machine.rs` + `blueprint.rs`); the method → role table is
`RadixModel/Generated/C40.lean`, regenerated on every check from the `methods { … }` block of
`access_controller/v2/package.rs`; the facts the property needs from it are re-decided here
(`table_ok`), so a removed role restriction breaks `effect_needs_two_roles_or_timer`.

Histories: `run c0 ks` is the log of the call sequence `ks` on a freshly created controller `c0`
(every call with the badges presented, the clock minute, the state it ran in and its result);
`final c0 ks` the controller after it. All theorems quantify over every `c0` in the default state,
every history `ks` and every next call `k` — i.e. over every position of every history.

Reading of the statement (see the report): `timed_confirm_recovery` is `Public` in the table of the
unchanged tree; the timer branch therefore says "the recovery role's own timed proposal, not
cancelled / stopped / superseded, and the delay has elapsed" and does not constrain who sends the
confirming call.
-/
import RadixModel.Model.AccessController
import RadixModel.Lemmas.AccessController

namespace Radix.AC
open Radix.Generated.C40

/-! ## What the property needs from the generated table -/

/-- the entry of method number `code` is a role list contained in `allowed` -/
def onlyRolesCode (code : Nat) (allowed : List Nat) : Bool :=
  match methodTable.lookup code with
  | some (some cs) => cs.all (fun k => allowed.contains k)
  | _ => false

/-- proposer methods belong to the proposer role alone; quick-confirm methods exclude the proposer -/
def tableOK : Bool :=
  onlyRolesCode 1 [0] && onlyRolesCode 3 [0] &&          -- initiate_* as primary: primary only
  onlyRolesCode 2 [1] && onlyRolesCode 4 [1] &&          -- initiate_* as recovery: recovery only
  onlyRolesCode 5 [1, 2] && onlyRolesCode 7 [1, 2] &&    -- quick-confirm primary's: recovery/confirmation
  onlyRolesCode 6 [0, 2] && onlyRolesCode 8 [0, 2]       -- quick-confirm recovery's: primary/confirmation

/-- Re-decided against the table generated from the current source on every run. -/
theorem table_ok : tableOK = true := by decide

/-- The table parsed from the source text is the table the compiled package definition carries. -/
theorem table_source_eq_compiled :
    ∀ code, code < 21 → methodTable.lookup code = compiledTable.lookup code := by decide

/-- `create_proof` is reserved to the primary role. -/
theorem table_create_proof : onlyRolesCode 0 [0] = true := by decide

/-- `lock_primary_role` / `unlock_primary_role` are not available to the primary role. -/
theorem table_lock_unlock : (onlyRolesCode 14 [1, 2] && onlyRolesCode 15 [1, 2]) = true := by decide

private theorem only_access {m : Method} {allowed : List Nat} (h : onlyRolesCode m.code allowed = true) :
    ∃ cs, accessOf m = some (some cs) ∧ ∀ k ∈ cs, k ∈ allowed := by
  unfold onlyRolesCode at h
  unfold accessOf
  split at h
  · rename_i cs hcs
    refine ⟨cs, hcs, ?_⟩
    intro k hk
    rw [List.all_eq_true] at h
    simpa using h k hk
  · cases h

/-- the caller of `k` satisfies the rule of role `r` in force in controller state `c` -/
def Holds (c : Ctl) (k : Call) (r : Role) : Prop := (c.roles.get r).sat k.held = true

private theorem ok_role {c : Ctl} {k : Call} {r : Ctl × Effect} {allowed : List Nat}
    (h : onlyRolesCode k.m.code allowed = true) (hs : stepCall c k = .ok r) :
    ∃ role, allowedFor k.m role ∧ Holds c k role ∧ ∃ n ∈ allowed, Role.ofCode n = some role := by
  obtain ⟨cs, hcs, hall⟩ := only_access h
  obtain ⟨role, hal, hsat⟩ := step_ok_role hcs hs
  refine ⟨role, hal, hsat, ?_⟩
  obtain ⟨cs', n, hcs', hn, hr⟩ := hal
  rw [hcs] at hcs'
  simp only [Option.some.injEq] at hcs'
  subst hcs'
  exact ⟨n, hall n hn, hr⟩

/-! ## Histories: "initiated by role A and still pending" -/

/-- The log contains a successful call of `init` made by a holder of role `A` (under the rules in force
at that moment), and no later call in the log succeeded with a method satisfying `undo`. -/
def StillPending (log : List Entry) (init : Method) (A : Role) (undo : Method → Bool) : Prop :=
  ∃ pre ini mid, log = pre ++ ini :: mid ∧ ini.ok = true ∧ ini.call.m = init ∧
    Holds ini.before ini.call A ∧ ∀ x ∈ mid, x.ok = true → undo x.call.m = false

/-- confirmations (which reset the whole state), the proposer's cancel, or a re-initiation -/
def undoPrimRec (m : Method) : Bool :=
  isConfirm m || m == .cancelPrimaryRec || (match m with | .initRecPrimary _ => true | _ => false)
def undoRecRec (m : Method) : Bool :=
  isConfirm m || m == .cancelRecoveryRec || (match m with | .initRecRecovery _ => true | _ => false)
/-- for the timer additionally `stop_timed_recovery` -/
def undoTimer (m : Method) : Bool :=
  undoRecRec m || (match m with | .stopTimed _ => true | _ => false)
def undoPrimWd (m : Method) : Bool := isConfirm m || m == .cancelPrimaryWd || m == .initWdPrimary
def undoRecWd (m : Method) : Bool := isConfirm m || m == .cancelRecoveryWd || m == .initWdRecovery

/-- The recovery role's timed proposal `p` is pending with its timer running, and at clock minute
`now` the controller's delay `d` has elapsed since the initiating call (`min … i32Max`: the
consensus manager saturates instants beyond the i32 minute range, A.D. 5700). -/
def TimerElapsed (log : List Entry) (p : Proposal) (d : Nat) (now : Int) : Prop :=
  ∃ pre ini mid, log = pre ++ ini :: mid ∧ ini.ok = true ∧ ini.call.m = .initRecRecovery p ∧
    Holds ini.before ini.call .recovery ∧ (∀ x ∈ mid, x.ok = true → undoTimer x.call.m = false) ∧
    min (ini.call.now + Int.ofNat d) i32Max ≤ now

private theorem pending_to_still {α : Type} {opens : Ctl → Call → Option α} {closes : Method → Bool}
    {v : α} {c0 : Ctl} {ks : List Call} {init : Method} {A : Role} {undo : Method → Bool} {code : Nat}
    (hp : Pending opens closes v (run c0 ks))
    (hinit : ∀ c k, opens c k = some v → k.m = init)
    (hcode : init.code = code) (htab : onlyRolesCode code [A.code] = true)
    (hundo : ∀ c k, closes k.m = false → opens c k = none → undo k.m = false) :
    StillPending (run c0 ks) init A undo := by
  obtain ⟨pre, ini, mid, hl, h1, h2, _, h4⟩ := hp
  have hm := hinit _ _ h2
  refine ⟨pre, ini, mid, hl, h1, hm, ?_, ?_⟩
  · have hmem : ini ∈ run c0 ks := by rw [hl]; simp
    have hres := run_entry_sound c0 ks ini hmem
    cases hr : ini.result with
    | error e => simp [Entry.ok, hr] at h1
    | ok r =>
      rw [hr] at hres
      have hcode' : onlyRolesCode ini.call.m.code [A.code] = true := by
        rw [hm, hcode]; exact htab
      obtain ⟨role, _, hh, n, hn, hrn⟩ := ok_role hcode' hres.symm
      simp only [List.mem_singleton] at hn
      subst hn
      cases A <;> simp [Role.ofCode, Role.code] at hrn <;> subst hrn <;> exact hh
  · intro x hx hok
    obtain ⟨a, b⟩ := h4 x hx hok
    exact hundo _ _ a b

private theorem tabs :
    onlyRolesCode 1 [0] = true ∧ onlyRolesCode 3 [0] = true ∧ onlyRolesCode 2 [1] = true ∧
    onlyRolesCode 4 [1] = true ∧ onlyRolesCode 5 [1, 2] = true ∧ onlyRolesCode 7 [1, 2] = true ∧
    onlyRolesCode 6 [0, 2] = true ∧ onlyRolesCode 8 [0, 2] = true := by
  have h := table_ok
  unfold tableOK at h
  simp only [Bool.and_eq_true] at h
  obtain ⟨⟨⟨⟨⟨⟨⟨a, b⟩, c⟩, d⟩, e⟩, f⟩, g⟩, i⟩ := h
  exact ⟨a, b, c, d, e, f, g, i⟩

/-- a confirming caller holds a role of the method's list that differs from the proposer `A` -/
private theorem other_role {c : Ctl} {k : Call} {r : Ctl × Effect} {allowed : List Nat} {A : Role}
    (h : onlyRolesCode k.m.code allowed = true) (hs : stepCall c k = .ok r)
    (hA : ∀ n ∈ allowed, Role.ofCode n ≠ some A) :
    ∃ B, B ≠ A ∧ allowedFor k.m B ∧ Holds c k B := by
  obtain ⟨role, hal, hh, n, hn, hr⟩ := ok_role h hs
  refine ⟨role, ?_, hal, hh⟩
  intro heq
  subst heq
  exact hA n hn hr

/-! ## Time -/

theorem instantToMinuteSat_minutes (a : Int) :
    instantToMinuteSat (a * 60) =
      if inI64 (a * 60 * 1000) then
        (if i32Min ≤ a ∧ a ≤ i32Max then a else if a * 60 < 0 then i32Min else i32Max)
      else if a * 60 < 0 then i32Min else i32Max := by
  unfold instantToMinuteSat
  have h : (a * 60 * 1000).tdiv 60000 = a := by
    have : a * 60 * 1000 = a * 60000 := by omega
    rw [this]
    exact Int.mul_tdiv_cancel a (by decide)
  simp only [h]

/-- the real comparison implies the arithmetic one (up to the i32 saturation) -/
theorem elapsed_spec (now a : Int) (h : timeElapsed now (a * 60) = true) : min a i32Max ≤ now := by
  unfold timeElapsed at h
  rw [instantToMinuteSat_minutes] at h
  simp only [decide_eq_true_eq] at h
  unfold inI64 i64Min i64Max at h
  unfold i32Min i32Max at h
  unfold i32Max
  simp only [Bool.and_eq_true, decide_eq_true_eq] at h
  (repeat' split at h) <;> omega

/-- and conversely, for clocks and deadlines inside the i32 minute range the comparison is exact -/
theorem elapsed_exact (now a : Int) (ha : i32Min ≤ a ∧ a ≤ i32Max) :
    timeElapsed now (a * 60) = decide (a ≤ now) := by
  unfold timeElapsed
  rw [instantToMinuteSat_minutes]
  unfold inI64 i64Min i64Max
  unfold i32Min i32Max at *
  have h1 : (decide (-9223372036854775808 ≤ a * 60 * 1000) && decide (a * 60 * 1000 ≤ 9223372036854775807)) = true := by
    simp only [Bool.and_eq_true, decide_eq_true_eq]; omega
  simp only [h1, if_true, ha, and_self]
  by_cases h : a ≤ now
  · simp [h]; try omega
  · simp [h]; try omega

/-! ## The property -/

/-- which effect a successful step can have, by method; and what the state looked like -/
private theorem replaced_cases {c : Ctl} {k : Call} {c' : Ctl} {rs : RuleSet}
    (h : stepCall c k = .ok (c', .ruleSetReplaced rs)) :
    ∃ p, p.ruleSet = rs ∧ c'.roles = rs ∧ c'.st = St.default ∧ c'.hasAsset = c.hasAsset ∧
      ((k.m = .qcPrimaryRec p ∧ valPrimRec c = some p) ∨
       (k.m = .qcRecoveryRec p ∧ valRecRec c = some p) ∨
       (k.m = .timedConfirm p ∧ ∃ t, valTimer c = some (p, t) ∧ timeElapsed k.now t = true)) := by
  have ht := step_ok_transition h
  obtain ⟨held, now, m⟩ := k
  simp only at ht ⊢
  cases m <;> simp only [transition] at ht <;>
    (repeat' split at ht) <;>
    first
    | (cases ht; done)
    | (simp only [Except.ok.injEq, Prod.mk.injEq, Ctl.withSt, Ctl.recovered, Ctl.withdrawn] at ht
       obtain ⟨hc1, hc2⟩ := ht
       first
       | (cases hc2; done)
       | (simp only [Effect.ruleSetReplaced.injEq] at hc2
          subst hc1; subst hc2
          refine ⟨_, rfl, rfl, rfl, rfl, ?_⟩
          simp_all [valPrimRec, valRecRec, valTimer]))

private theorem withdrawn_cases {c : Ctl} {k : Call} {c' : Ctl}
    (h : stepCall c k = .ok (c', .assetWithdrawn)) :
    c'.roles = RuleSet.lockedAll ∧ c'.st = St.default ∧ c'.hasAsset = false ∧
      ((k.m = .qcPrimaryWd ∧ valPrimWd c = some ()) ∨ (k.m = .qcRecoveryWd ∧ valRecWd c = some ())) := by
  have ht := step_ok_transition h
  obtain ⟨held, now, m⟩ := k
  simp only at ht ⊢
  cases m <;> simp only [transition] at ht <;>
    (repeat' split at ht) <;>
    first
    | (cases ht; done)
    | (simp only [Except.ok.injEq, Prod.mk.injEq, Ctl.withSt, Ctl.recovered, Ctl.withdrawn] at ht
       obtain ⟨hc1, hc2⟩ := ht
       first
       | (cases hc2; done)
       | (subst hc1
          simp_all [valPrimWd, valRecWd]))

/-- **C40, first half (rule sets).** Whenever a call replaces the controller's primary / recovery /
confirmation rules by `rs` — at any position of any history on a freshly created controller — then
`rs` is exactly the rule set of a proposal `p` passed to that call, and either

* it is `quick_confirm_primary_role_recovery_proposal p`, the history contains a successful
  `initiate_recovery_as_primary p` by a holder of the primary role that no later successful call
  cancelled, superseded or reset, and the confirming caller holds a role `B ≠ primary` listed for
  the method; or
* the same with primary/recovery exchanged; or
* it is `timed_confirm_recovery p`, the controller has a timed-recovery delay `d`, and the history
  contains a successful `initiate_recovery_as_recovery p` by a holder of the recovery role, not
  since cancelled, stopped, superseded or reset, made at least `d` minutes earlier. -/
theorem effect_needs_two_roles_or_timer (c0 : Ctl) (h0 : c0.st = St.default) (ks : List Call)
    (k : Call) (c' : Ctl) (rs : RuleSet)
    (hstep : stepCall (final c0 ks) k = .ok (c', .ruleSetReplaced rs)) :
    ∃ p, p.ruleSet = rs ∧ c'.roles = rs ∧
      ((k.m = .qcPrimaryRec p ∧ StillPending (run c0 ks) (.initRecPrimary p) .primary undoPrimRec ∧
          ∃ B, B ≠ .primary ∧ allowedFor k.m B ∧ Holds (final c0 ks) k B) ∨
       (k.m = .qcRecoveryRec p ∧ StillPending (run c0 ks) (.initRecRecovery p) .recovery undoRecRec ∧
          ∃ B, B ≠ .recovery ∧ allowedFor k.m B ∧ Holds (final c0 ks) k B) ∨
       (k.m = .timedConfirm p ∧ ∃ d, c0.delay = some d ∧ TimerElapsed (run c0 ks) p d k.now)) := by
  obtain ⟨t1, t3, t2, t4, t5, t7, t6, t8⟩ := tabs
  obtain ⟨p, hp, hroles, _, _, hcase⟩ := replaced_cases hstep
  refine ⟨p, hp, hroles, ?_⟩
  rcases hcase with ⟨hm, hv⟩ | ⟨hm, hv⟩ | ⟨hm, t, hv, hel⟩
  · left
    refine ⟨hm, ?_, ?_⟩
    · have hpend := pending_of_law valPrimRec opensPrimRec closesPrimRec law_primRec c0 (by simp [valPrimRec, h0, St.default]) ks p hv
      refine pending_to_still (A := .primary) hpend ?_ rfl t1 ?_
      · intro c k h; unfold opensPrimRec at h; split at h <;> simp_all
      · intro c k a b
        unfold closesPrimRec at a; unfold opensPrimRec at b; unfold undoPrimRec
        cases hk : k.m <;> simp_all
    · exact other_role (allowed := [1, 2]) (by rw [hm]; exact t5) hstep (by decide)
  · right; left
    refine ⟨hm, ?_, ?_⟩
    · have hpend := pending_of_law valRecRec opensRecRec closesRecRec law_recRec c0 (by simp [valRecRec, h0, St.default]) ks p hv
      refine pending_to_still (A := .recovery) hpend ?_ rfl t2 ?_
      · intro c k h; unfold opensRecRec at h; split at h <;> simp_all
      · intro c k a b
        unfold closesRecRec at a; unfold opensRecRec at b; unfold undoRecRec
        cases hk : k.m <;> simp_all
    · exact other_role (allowed := [0, 2]) (by rw [hm]; exact t6) hstep (by decide)
  · right; right
    refine ⟨hm, ?_⟩
    have hpend := pending_of_law valTimer opensTimer closesTimer law_timer c0 (by simp [valTimer, h0, St.default]) ks (p, t) hv
    obtain ⟨pre, ini, mid, hl, h1, h2, h3, h4⟩ := hpend
    have hmem : ini ∈ run c0 ks := by rw [hl]; simp
    have hdel := run_before_delay c0 ks ini hmem
    -- decode what opened the timer slot
    unfold opensTimer at h2
    split at h2
    · rename_i p' hm'
      split at h2
      · rename_i d hd
        simp only [Option.some.injEq, Prod.mk.injEq] at h2
        obtain ⟨hpp, ht⟩ := h2
        subst hpp
        refine ⟨d, by rw [← hdel]; exact hd, pre, ini, mid, hl, h1, hm', ?_, ?_, ?_⟩
        · -- the initiating caller held the recovery role
          have hres := run_entry_sound c0 ks ini hmem
          cases hr : ini.result with
          | error e => simp [Entry.ok, hr] at h1
          | ok r =>
            rw [hr] at hres
            obtain ⟨role, _, hh, n, hn, hrn⟩ := ok_role (allowed := [1]) (by rw [hm']; exact t2) hres.symm
            simp only [List.mem_singleton] at hn
            subst hn
            simp [Role.ofCode] at hrn
            subst hrn
            exact hh
        · intro x hx hok
          obtain ⟨a, b⟩ := h4 x hx hok
          unfold closesTimer at a; unfold opensTimer at b; unfold undoTimer undoRecRec
          cases hk : x.call.m <;> simp_all
          · cases hd' : x.before.delay <;> simp_all
            have := run_before_delay c0 ks x (by rw [hl]; simp [hx])
            simp_all
        · have : t = (ini.call.now + Int.ofNat d) * 60 := by
            rw [← ht]; unfold currentInstant; omega
          rw [this] at hel
          exact elapsed_spec _ _ hel
      · cases h2
    · cases h2

/-- **C40, first half (controlled asset).** Whenever the controlled asset leaves the vault, the call is
a quick-confirm of a badge-withdraw attempt that a holder of the proposer role initiated earlier in
the history and nothing since cancelled or reset, made by a holder of a *different* role listed
for the method. (There is no timed path for withdrawals.) -/
theorem withdraw_needs_two_roles (c0 : Ctl) (h0 : c0.st = St.default) (ks : List Call)
    (k : Call) (c' : Ctl)
    (hstep : stepCall (final c0 ks) k = .ok (c', .assetWithdrawn)) :
    c'.hasAsset = false ∧
      ((k.m = .qcPrimaryWd ∧ StillPending (run c0 ks) .initWdPrimary .primary undoPrimWd ∧
          ∃ B, B ≠ .primary ∧ allowedFor k.m B ∧ Holds (final c0 ks) k B) ∨
       (k.m = .qcRecoveryWd ∧ StillPending (run c0 ks) .initWdRecovery .recovery undoRecWd ∧
          ∃ B, B ≠ .recovery ∧ allowedFor k.m B ∧ Holds (final c0 ks) k B)) := by
  obtain ⟨t1, t3, t2, t4, t5, t7, t6, t8⟩ := tabs
  obtain ⟨_, _, hasset, hcase⟩ := withdrawn_cases hstep
  refine ⟨hasset, ?_⟩
  rcases hcase with ⟨hm, hv⟩ | ⟨hm, hv⟩
  · left
    refine ⟨hm, ?_, ?_⟩
    · have hpend := pending_of_law valPrimWd opensPrimWd closesPrimWd law_primWd c0 (by simp [valPrimWd, h0, St.default]) ks () hv
      refine pending_to_still (A := .primary) hpend ?_ rfl t3 ?_
      · intro c k h; unfold opensPrimWd at h; split at h <;> simp_all
      · intro c k a b
        unfold closesPrimWd at a; unfold opensPrimWd at b; unfold undoPrimWd
        cases hk : k.m <;> simp_all
    · exact other_role (allowed := [1, 2]) (by rw [hm]; exact t7) hstep (by decide)
  · right
    refine ⟨hm, ?_, ?_⟩
    · have hpend := pending_of_law valRecWd opensRecWd closesRecWd law_recWd c0 (by simp [valRecWd, h0, St.default]) ks () hv
      refine pending_to_still (A := .recovery) hpend ?_ rfl t4 ?_
      · intro c k h; unfold opensRecWd at h; split at h <;> simp_all
      · intro c k a b
        unfold closesRecWd at a; unfold opensRecWd at b; unfold undoRecWd
        cases hk : k.m <;> simp_all
    · exact other_role (allowed := [0, 2]) (by rw [hm]; exact t8) hstep (by decide)

/-- The role assignment and the vault change **only** through the two effects above: any successful
call that changes the rules or removes the asset reports `ruleSetReplaced` / `assetWithdrawn`
(so the two theorems above cover every change), and a failed call changes nothing. -/
theorem changes_only_by_confirmation (c : Ctl) (k : Call) (c' : Ctl) (eff : Effect)
    (h : stepCall c k = .ok (c', eff)) :
    (c'.roles ≠ c.roles → (eff = .ruleSetReplaced c'.roles ∨ eff = .assetWithdrawn)) ∧
    (c'.hasAsset ≠ c.hasAsset → eff = .assetWithdrawn) := by
  have ht := step_ok_transition h
  obtain ⟨held, now, m⟩ := k
  simp only at ht
  cases m <;> simp only [transition] at ht <;>
    (repeat' split at ht) <;>
    first
    | (cases ht; done)
    | (simp only [Except.ok.injEq, Prod.mk.injEq, Ctl.withSt, Ctl.recovered, Ctl.withdrawn] at ht
       obtain ⟨hc1, hc2⟩ := ht
       subst hc1; subst hc2
       simp)

/-- After every confirmation the whole state tuple is back to the default (primary unlocked, no
pending proposal or withdraw attempt of either role). -/
theorem state_reset_after_confirm (c : Ctl) (k : Call) (c' : Ctl) (eff : Effect)
    (h : stepCall c k = .ok (c', eff)) (he : (∃ rs, eff = .ruleSetReplaced rs) ∨ eff = .assetWithdrawn) :
    c'.st = St.default := by
  rcases he with ⟨rs, rfl⟩ | rfl
  · obtain ⟨_, _, _, hst, _⟩ := replaced_cases h; exact hst
  · exact (withdrawn_cases h).2.1

/-- **C40, second half.** While the primary role is locked no call creates a proof of the
controlled asset — whatever badges the caller presents and whatever the time. -/
theorem locked_primary_no_proof (c : Ctl) (k : Call) (c' : Ctl) (eff : Effect)
    (hl : c.st.locked = true) (h : stepCall c k = .ok (c', eff)) : eff ≠ .proofCreated := by
  have ht := step_ok_transition h
  obtain ⟨held, now, m⟩ := k
  simp only at ht
  cases m <;> simp only [transition] at ht <;>
    (repeat' split at ht) <;>
    first
    | (cases ht; done)
    | (simp only [Except.ok.injEq, Prod.mk.injEq, Ctl.withSt, Ctl.recovered, Ctl.withdrawn] at ht
       obtain ⟨hc1, hc2⟩ := ht
       subst hc2
       simp_all)

/-- History form: after a successful `lock_primary_role` that no later successful call undid
(`unlock_primary_role` or a confirmation, which resets the state), `create_proof` fails and no other
method creates a proof. -/
theorem locked_primary_no_proof_history (c0 : Ctl) (ks : List Call) (k : Call) (c' : Ctl) (eff : Effect)
    (hlock : ∃ pre lk mid, run c0 ks = pre ++ lk :: mid ∧ lk.ok = true ∧ lk.call.m = .lockPrimary ∧
      ∀ x ∈ mid, x.ok = true → closesLock x.call.m = false)
    (h : stepCall (final c0 ks) k = .ok (c', eff)) : eff ≠ .proofCreated := by
  obtain ⟨pre, lk, mid, hl, h1, h2, h3⟩ := hlock
  have hv := isSome_of_opened valLock opensLock closesLock law_lock c0 ks
    ⟨pre, lk, mid, hl, h1, by simp [opensLock, h2], by simp [closesLock, isConfirm, h2], h3⟩
  have hlk : (final c0 ks).st.locked = true := by
    unfold valLock at hv
    by_cases hb : (final c0 ks).st.locked = true
    · exact hb
    · simp [hb] at hv
  exact locked_primary_no_proof _ k c' eff hlk h

/-- A created proof always comes from `create_proof` called by a holder of the primary role on an
unlocked controller. -/
theorem proof_only_by_unlocked_primary (c : Ctl) (k : Call) (c' : Ctl)
    (h : stepCall c k = .ok (c', .proofCreated)) :
    k.m = .createProof ∧ c.st.locked = false ∧ Holds c k .primary ∧ c' = c := by
  have ht := step_ok_transition h
  have hm : k.m = .createProof ∧ c.st.locked = false ∧ c' = c := by
    obtain ⟨held, now, m⟩ := k
    simp only at ht ⊢
    cases m <;> simp only [transition] at ht <;>
      (repeat' split at ht) <;>
      first
      | (cases ht; done)
      | (simp only [Except.ok.injEq, Prod.mk.injEq, Ctl.withSt, Ctl.recovered, Ctl.withdrawn] at ht
         obtain ⟨hc1, hc2⟩ := ht
         first
         | (cases hc2; done)
         | (subst hc1; simp_all))
  refine ⟨hm.1, hm.2.1, ?_, hm.2.2⟩
  obtain ⟨role, _, hh, n, hn, hrn⟩ := ok_role (allowed := [0]) (by rw [hm.1]; exact table_create_proof) h
  simp only [List.mem_singleton] at hn
  subst hn
  simp [Role.ofCode] at hrn
  subst hrn
  exact hh

/-! ## Non-vacuity: concrete histories in which the hypotheses hold and the effects happen -/

section Examples

private def rs0 : RuleSet := ⟨.require 0, .require 1, .require 2⟩
private def rsNew : RuleSet := ⟨.require 3, .require 1, .anyOf [2, 3]⟩
private def prop1 : Proposal := ⟨rsNew, some 5⟩
private def ctl0 : Ctl := create rs0 (some 10)

private def isReplaced : Except Err (Ctl × Effect) → Bool
  | .ok (_, .ruleSetReplaced _) => true
  | _ => false
private def isWithdrawn : Except Err (Ctl × Effect) → Bool
  | .ok (_, .assetWithdrawn) => true
  | _ => false
private def isProof : Except Err (Ctl × Effect) → Bool
  | .ok (_, .proofCreated) => true
  | _ => false
private def isErr (e : Err) : Except Err (Ctl × Effect) → Bool
  | .error e' => e == e'
  | _ => false

-- primary proposes, confirmation confirms: the rule set is replaced (hypotheses of
-- `effect_needs_two_roles_or_timer` are satisfiable through the two-role branch)
example : isReplaced (stepCall (final ctl0 [⟨[0], 100, .initRecPrimary prop1⟩])
    ⟨[2], 100, .qcPrimaryRec prop1⟩) = true := by decide
-- … but the proposer itself cannot confirm
example : isErr .unauthorized (stepCall (final ctl0 [⟨[0], 100, .initRecPrimary prop1⟩])
    ⟨[0], 100, .qcPrimaryRec prop1⟩) = true := by decide
-- timer branch: recovery proposes at minute 100 with delay 10; confirm at 109 fails, at 110 succeeds
-- (called with no badge at all: the method is Public in the generated table)
example : isErr .delayNotElapsed (stepCall (final ctl0 [⟨[1], 100, .initRecRecovery prop1⟩])
    ⟨[], 109, .timedConfirm prop1⟩) = true := by decide
example : isReplaced (stepCall (final ctl0 [⟨[1], 100, .initRecRecovery prop1⟩])
    ⟨[], 110, .timedConfirm prop1⟩) = true := by decide
-- a stopped timer cannot be time-confirmed any more
example : isErr .noTimedFound (stepCall (final ctl0
    [⟨[1], 100, .initRecRecovery prop1⟩, ⟨[0], 101, .stopTimed prop1⟩])
    ⟨[1], 500, .timedConfirm prop1⟩) = true := by decide
-- a different proposal is not confirmed
example : isErr .mismatch (stepCall (final ctl0 [⟨[0], 100, .initRecPrimary prop1⟩])
    ⟨[2], 100, .qcPrimaryRec ⟨rs0, none⟩⟩) = true := by decide
-- withdraw: recovery proposes, primary confirms (hypothesis of `withdraw_needs_two_roles`)
example : isWithdrawn (stepCall (final ctl0 [⟨[1], 7, .initWdRecovery⟩]) ⟨[0], 8, .qcRecoveryWd⟩) = true := by
  decide
-- cancelled attempts cannot be confirmed
example : isErr (.noWdExists .recovery) (stepCall (final ctl0
    [⟨[1], 7, .initWdRecovery⟩, ⟨[1], 7, .cancelRecoveryWd⟩]) ⟨[0], 8, .qcRecoveryWd⟩) = true := by decide
-- lock: proof before, none while locked, again after unlock (hypotheses of `locked_primary_no_proof*`)
example : isProof (stepCall ctl0 ⟨[0], 1, .createProof⟩) = true := by decide
example : (final ctl0 [⟨[1], 1, .lockPrimary⟩]).st.locked = true := by decide
example : isErr .requiresUnlocked (stepCall (final ctl0 [⟨[1], 1, .lockPrimary⟩]) ⟨[0], 1, .createProof⟩) = true := by
  decide
example : isProof (stepCall (final ctl0 [⟨[1], 1, .lockPrimary⟩, ⟨[1], 2, .unlockPrimary⟩])
    ⟨[0], 3, .createProof⟩) = true := by decide
-- the primary role cannot unlock itself
example : isErr .unauthorized (stepCall (final ctl0 [⟨[1], 1, .lockPrimary⟩]) ⟨[0], 2, .unlockPrimary⟩) = true := by
  decide

end Examples

end Radix.AC
