/-
C09 — Resources cannot vanish or be duplicated inside a transaction.

Property theorems only. Model: `RadixModel/Model/ResTx.lean` (worktop, named buckets/proofs,
end-of-transaction clean-up) over the containers of `RadixModel/Model/ResContainer.lean`.
-/
import RadixModel.Model.ResTx
import RadixModel.Lemmas.ResContainer
import RadixModel.Lemmas.ResTx

namespace Radix.Res

/-- what the worktop holds of resource `r` (0 when the resource has no bucket there) -/
def wtAmount (s : St) (r : Nat) : Int :=
  match lookup s.worktop r with
  | none => 0
  | some node => match lookup s.nodes node with
    | none => 0
    | some b => b.c.amount

/-- every worktop entry points at a live bucket node (no dangling entry) -/
def WtOk (s : St) : Prop := ∀ r node, lookup s.worktop r = some node → ∃ b, lookup s.nodes node = some b

/-- **assert_iff (amount).** `ASSERT_WORKTOP_CONTAINS r a` passes exactly when the worktop holds at
least `a` of `r`, and it changes nothing. -/
theorem assertAmt_iff (s : St) (r : Nat) (a : Int) (h : WtOk s) :
    (step s (.assertAmt r a) = .ok s ↔ a ≤ wtAmount s r) ∧
    (∀ s', step s (.assertAmt r a) = .ok s' → s' = s) := by
  unfold wtAmount
  simp only [step]
  cases hw : lookup s.worktop r with
  | none =>
    simp only
    constructor
    · constructor
      · intro hh; split at hh
        · cases hh
        · omega
      · intro hh; have : ¬ 0 < a := by omega
        simp [this]
    · intro s' hh; split at hh
      · cases hh
      · cases hh; rfl
  | some node =>
    obtain ⟨b, hb⟩ := h r node hw
    simp only [hb]
    constructor
    · constructor
      · intro hh; split at hh
        · cases hh
        · omega
      · intro hh; have : ¬ b.c.amount < a := by omega
        simp [this]
    · intro s' hh; split at hh
      · cases hh
      · cases hh; rfl

/-- **assert_iff (any).** `ASSERT_WORKTOP_CONTAINS_ANY r` passes exactly when the worktop holds a
non-zero amount of `r`. -/
theorem assertAny_iff (s : St) (r : Nat) (h : WtOk s) :
    (∃ s', step s (.assertAny r) = .ok s') ↔ wtAmount s r ≠ 0 := by
  unfold wtAmount
  simp only [step]
  cases hw : lookup s.worktop r with
  | none => simp
  | some node =>
    obtain ⟨b, hb⟩ := h r node hw
    simp only [hb]
    constructor
    · rintro ⟨s', hh⟩; split at hh
      · cases hh
      · assumption
    · intro hh; simp [hh]

example : WtOk init := by intro r node h; simp [init, lookup] at h

/-! ### conservation -/

theorem keep_fields {r : Nat} {s s' : St} (hok : NodesOk s) (h1 : s'.nodes = s.nodes) (h2 : s'.nextNode = s.nextNode)
    (h3 : s'.vaultF = s.vaultF) (h4 : s'.burnedF = s.burnedF) : Keep r s s' := by
  refine ⟨⟨by rw [h1]; exact hok.nodup, by rw [h1, h2]; exact hok.fresh⟩, ?_⟩
  simp only [tot, h1, h3, h4]

theorem vaultOut_tot {s s' : St} {r0 : Nat} {a : Int} {c : FCont} (r : Nat) (hok : NodesOk s)
    (hc : c.amount = (s.vaultF r0).amount - a)
    (h : wtPut (newNode { s with vaultF := upd s.vaultF r0 c } ⟨r0, .f { liquid := a, locked := [] }⟩).1
          (newNode { s with vaultF := upd s.vaultF r0 c } ⟨r0, .f { liquid := a, locked := [] }⟩).2 = .ok s') :
    Keep r s s' := by
  have hok0 : NodesOk { s with vaultF := upd s.vaultF r0 c } := ⟨hok.nodup, hok.fresh⟩
  obtain ⟨hn1, hn2⟩ := newNode_spec { s with vaultF := upd s.vaultF r0 c } ⟨r0, .f { liquid := a, locked := [] }⟩ r hok0
  have hk := wtPut_tot r hn1 h
  refine ⟨hk.1, ?_⟩
  rw [hk.2, hn2]
  simp only [tot, famt, FCont.amount, maxL]
  by_cases hr : r = r0
  · subst hr; simp only [upd_same, if_true]; simp only [FCont.amount] at hc; omega
  · have hr' : ¬ r0 = r := fun x => hr x.symm
    simp only [upd_other _ _ _ _ hr, hr', if_false]; omega

theorem nfOut_tot {s s' : St} {ids : List Nat} {c : NCont} (r : Nat) (hok : NodesOk s)
    (h : wtPut (newNode { s with vaultN := c } ⟨3, .n { liquid := ids, locked := [] }⟩).1
          (newNode { s with vaultN := c } ⟨3, .n { liquid := ids, locked := [] }⟩).2 = .ok s') :
    Keep r s s' := by
  have hok0 : NodesOk { s with vaultN := c } := ⟨hok.nodup, hok.fresh⟩
  obtain ⟨hn1, hn2⟩ := newNode_spec { s with vaultN := c } ⟨3, .n { liquid := ids, locked := [] }⟩ r hok0
  have hk := wtPut_tot r hn1 h
  refine ⟨hk.1, ?_⟩
  rw [hk.2, hn2]
  simp [tot, famt]

theorem takeNamed_spec {s s1 : St} {b node : Nat} (h : takeNamed s b = .ok (s1, node)) :
    s1 = { s with named := remove s.named b } := by
  unfold takeNamed at h
  cases hl : lookup s.named b with
  | none => simp [hl] at h
  | some n => simp only [hl, Except.ok.injEq, Prod.mk.injEq] at h; exact h.1.symm

theorem newEmpty_tot {s : St} (r r0 : Nat) (hok : NodesOk s) :
    Keep r s (nameBucket (newNode s ⟨r0, emptyCont r0⟩).1 (newNode s ⟨r0, emptyCont r0⟩).2) := by
  obtain ⟨hn1, hn2⟩ := newNode_spec s ⟨r0, emptyCont r0⟩ r hok
  refine ⟨⟨hn1.nodup, hn1.fresh⟩, ?_⟩
  have : famt ⟨r0, emptyCont r0⟩ r = 0 := by
    unfold famt emptyCont
    by_cases hnf : isNf r0 = true
    · simp [hnf]
    · simp [hnf, FCont.amount, maxL]
  have e : tot (nameBucket (newNode s ⟨r0, emptyCont r0⟩).1 (newNode s ⟨r0, emptyCont r0⟩).2) r
      = tot (newNode s ⟨r0, emptyCont r0⟩).1 r := rfl
  rw [e, hn2, this]; omega

/-- **conservation (one instruction).** For every instruction and every resource `r`, the fungible
total `account vault + all live buckets + burned` is the same before and after a successful
instruction: nothing is created and nothing vanishes. -/
theorem conservation_step (s s' : St) (op : Op) (r : Nat) (hok : NodesOk s) (h : step s op = .ok s') :
    Keep r s s' := by
  cases op with
  | withdraw r0 a =>
    simp only [step] at h
    by_cases hauth : (!s.authed) = true
    · simp [hauth] at h
    · have hna : (!s.authed) = false := by simpa using hauth
      simp only [hna, Bool.false_eq_true, if_false] at h
      cases ht : (s.vaultF r0).take a (div r0) .vault with
      | error e => simp [ht] at h
      | ok c => simp only [ht] at h; exact vaultOut_tot r hok (take_amount ht) h
  | recall r0 a =>
    simp only [step] at h
    cases ht : (s.vaultF r0).take a (div r0) .vault with
    | error e => simp [ht] at h
    | ok c => simp only [ht] at h; exact vaultOut_tot r hok (take_amount ht) h
  | withdrawNf ids =>
    simp only [step] at h
    by_cases hauth : (!s.authed) = true
    · simp [hauth] at h
    · have hna : (!s.authed) = false := by simpa using hauth
      simp only [hna, Bool.false_eq_true, if_false] at h
      cases hd : hasDup ids with
      | true => simp [hd] at h
      | false =>
        simp only [hd, Bool.false_eq_true, if_false] at h
        cases ht : s.vaultN.take ids .vault with
        | error e => simp [ht] at h
        | ok c => simp only [ht] at h; exact nfOut_tot r hok h
  | recallNf ids =>
    simp only [step] at h
    cases hd : hasDup ids with
    | true => simp [hd] at h
    | false =>
      simp only [hd, Bool.false_eq_true, if_false] at h
      cases ht : s.vaultN.take ids .vault with
      | error e => simp [ht] at h
      | ok c => simp only [ht] at h; exact nfOut_tot r hok h
  | vburn r0 a =>
    simp only [step] at h
    by_cases hauth : (!s.authed) = true
    · simp [hauth] at h
    · have hna : (!s.authed) = false := by simpa using hauth
      simp only [hna, Bool.false_eq_true, if_false] at h
      cases ht : (s.vaultF r0).take a (div r0) .vault with
      | error e => simp [ht] at h
      | ok c =>
        simp only [ht, Except.ok.injEq] at h; subst h
        refine ⟨⟨hok.nodup, hok.fresh⟩, ?_⟩
        have := take_amount ht
        simp only [tot]
        by_cases hr : r = r0
        · subst hr; simp only [upd_same]; omega
        · simp only [upd_other _ _ _ _ hr]
  | vburnNf ids =>
    simp only [step] at h
    by_cases hauth : (!s.authed) = true
    · simp [hauth] at h
    · have hna : (!s.authed) = false := by simpa using hauth
      simp only [hna, Bool.false_eq_true, if_false] at h
      cases hd : hasDup ids with
      | true => simp [hd] at h
      | false =>
        simp only [hd, Bool.false_eq_true, if_false] at h
        cases ht : s.vaultN.take ids .vault with
        | error e => simp [ht] at h
        | ok c => simp only [ht, Except.ok.injEq] at h; subst h; exact keep_fields hok rfl rfl rfl rfl
  | vproof r0 a =>
    simp only [step] at h
    by_cases hauth : (!s.authed) = true
    · simp [hauth] at h
    · have hna : (!s.authed) = false := by simpa using hauth
      simp only [hna, Bool.false_eq_true, if_false] at h
      cases ht : (s.vaultF r0).createProof a (div r0) .vault with
      | error e => simp [ht] at h
      | ok c =>
        simp only [ht, Except.ok.injEq] at h; subst h
        exact (vault_same_tot r hok (createProof_amount ht)).trans (keep_fields ⟨hok.nodup, hok.fresh⟩ rfl rfl rfl rfl)
  | vproofNf ids =>
    simp only [step] at h
    by_cases hauth : (!s.authed) = true
    · simp [hauth] at h
    · have hna : (!s.authed) = false := by simpa using hauth
      simp only [hna, Bool.false_eq_true, if_false] at h
      cases hd : hasDup ids with
      | true => simp [hd] at h
      | false =>
        simp only [hd, Bool.false_eq_true, if_false] at h
        cases ht : s.vaultN.createProof ids .vault with
        | error e => simp [ht] at h
        | ok c => simp only [ht, Except.ok.injEq] at h; subst h; exact keep_fields hok rfl rfl rfl rfl
  | balance r0 =>
    simp only [step, Except.ok.injEq] at h; subst h; exact keep_fields hok rfl rfl rfl rfl
  | take r0 a =>
    simp only [step] at h
    by_cases ha : a = 0
    · simp only [ha, if_true, Except.ok.injEq] at h; subst h; exact newEmpty_tot r r0 hok
    · simp only [ha, if_false] at h
      cases hw : lookup s.worktop r0 with
      | none => simp [hw] at h
      | some node =>
        simp only [hw] at h
        cases hb : lookup s.nodes node with
        | none => simp [hb] at h
        | some b =>
          simp only [hb] at h
          by_cases hlt : b.c.amount < a
          · simp [hlt] at h
          · simp only [hlt, if_false] at h
            by_cases heq : b.c.amount = a
            · simp only [heq, if_true, Except.ok.injEq] at h; subst h
              exact keep_fields hok rfl rfl rfl rfl
            · simp only [heq, if_false] at h
              cases hc : b.c with
              | f c =>
                simp only [hc] at h
                cases ht : c.take a (div b.res) .bucket with
                | error e => simp [ht] at h
                | ok c' =>
                  simp only [ht, Except.ok.injEq] at h; subst h
                  have hok1 := nodesOk_setNode node { b with c := .f c' } hok
                  obtain ⟨hn1, hn2⟩ := newNode_spec { s with nodes := setNode s.nodes node { b with c := .f c' } }
                    ⟨b.res, .f { liquid := a, locked := [] }⟩ r hok1
                  refine ⟨⟨hn1.nodup, hn1.fresh⟩, ?_⟩
                  have e : ∀ x n, tot (nameBucket x n) r = tot x r := fun _ _ => rfl
                  rw [e, hn2]
                  have h3 := sumNodes_setNode { b with c := .f c' } r hok.nodup hb
                  have ham := take_amount ht
                  simp only [tot, h3, famt, hc, FCont.amount, maxL] at ham ⊢
                  split <;> omega
              | n c =>
                simp only [hc] at h
                cases ht : c.takeAmount a with
                | error e => simp [ht] at h
                | ok p =>
                  obtain ⟨c', taken⟩ := p
                  simp only [ht, Except.ok.injEq] at h; subst h
                  have hok1 := nodesOk_setNode node { b with c := .n c' } hok
                  obtain ⟨hn1, hn2⟩ := newNode_spec { s with nodes := setNode s.nodes node { b with c := .n c' } }
                    ⟨b.res, .n { liquid := taken, locked := [] }⟩ r hok1
                  refine ⟨⟨hn1.nodup, hn1.fresh⟩, ?_⟩
                  have e : ∀ x n, tot (nameBucket x n) r = tot x r := fun _ _ => rfl
                  rw [e, hn2]
                  have h3 := sumNodes_setNode { b with c := .n c' } r hok.nodup hb
                  simp only [tot, h3, famt, hc]
                  split <;> omega
  | takeAll r0 =>
    simp only [step] at h
    cases hw : lookup s.worktop r0 with
    | some node => simp only [hw, Except.ok.injEq] at h; subst h; exact keep_fields hok rfl rfl rfl rfl
    | none => simp only [hw, Except.ok.injEq] at h; subst h; exact newEmpty_tot r r0 hok
  | takeNf ids0 =>
    simp only [step] at h
    by_cases he : ids0.eraseDups.isEmpty = true
    · simp only [he, if_true, Except.ok.injEq] at h; subst h; exact newEmpty_tot r 3 hok
    · simp only [he, Bool.false_eq_true, if_false] at h
      cases hw : lookup s.worktop 3 with
      | none => simp [hw] at h
      | some node =>
        simp only [hw] at h
        cases hb : lookup s.nodes node with
        | none => simp [hb] at h
        | some b =>
          simp only [hb] at h
          cases hc : b.c with
          | f c => simp [hc] at h
          | n c =>
            simp only [hc] at h
            by_cases hall : (!(ids0.eraseDups.all fun i => c.ids.contains i)) = true
            · rw [if_pos hall] at h; cases h
            · rw [if_neg hall] at h
              by_cases hlen : c.ids.length = ids0.eraseDups.length
              · simp only [hlen, if_true, Except.ok.injEq] at h; subst h
                exact keep_fields hok rfl rfl rfl rfl
              · simp only [hlen, if_false] at h
                cases ht : c.take ids0.eraseDups .bucket with
                | error e => simp [ht] at h
                | ok c' =>
                  simp only [ht, Except.ok.injEq] at h; subst h
                  have hok1 := nodesOk_setNode node { b with c := .n c' } hok
                  obtain ⟨hn1, hn2⟩ := newNode_spec { s with nodes := setNode s.nodes node { b with c := .n c' } }
                    ⟨b.res, .n { liquid := ids0.eraseDups, locked := [] }⟩ r hok1
                  refine ⟨⟨hn1.nodup, hn1.fresh⟩, ?_⟩
                  have e : ∀ x n, tot (nameBucket x n) r = tot x r := fun _ _ => rfl
                  rw [e, hn2]
                  have h3 := sumNodes_setNode { b with c := .n c' } r hok.nodup hb
                  simp only [tot, h3, famt, hc]
                  split <;> omega
  | ret b =>
    simp only [step] at h
    cases ht : takeNamed s b with
    | error e => simp [ht] at h
    | ok p =>
      obtain ⟨s1, node⟩ := p
      simp only [ht] at h
      have := takeNamed_spec ht; subst this
      exact (keep_fields (s' := { s with named := remove s.named b }) hok rfl rfl rfl rfl).trans
        (wtPut_tot r ⟨hok.nodup, hok.fresh⟩ h)
  | assertAny r0 =>
    simp only [step] at h
    cases hw : lookup s.worktop r0 with
    | none => simp [hw] at h
    | some node =>
      simp only [hw] at h
      cases hb : lookup s.nodes node with
      | none => simp [hb] at h
      | some b =>
        simp only [hb] at h
        by_cases h0 : b.c.amount = 0
        · simp [h0] at h
        · simp only [h0, if_false, Except.ok.injEq] at h; subst h; exact Keep.refl hok
  | assertAmt r0 a =>
    simp only [step] at h
    cases hw : lookup s.worktop r0 with
    | none =>
      simp only [hw] at h
      by_cases h0 : 0 < a
      · simp [h0] at h
      · simp only [h0, if_false, Except.ok.injEq] at h; subst h; exact Keep.refl hok
    | some node =>
      simp only [hw] at h
      cases hb : lookup s.nodes node with
      | none => simp [hb] at h
      | some b =>
        simp only [hb] at h
        by_cases h0 : b.c.amount < a
        · simp [h0] at h
        · simp only [h0, if_false, Except.ok.injEq] at h; subst h; exact Keep.refl hok
  | assertNf ids =>
    simp only [step] at h
    cases hw : lookup s.worktop 3 with
    | none =>
      simp only [hw] at h
      by_cases h0 : ids.isEmpty = true
      · simp only [h0, if_true, Except.ok.injEq] at h; subst h; exact Keep.refl hok
      · simp [h0] at h
    | some node =>
      simp only [hw] at h
      cases hb : lookup s.nodes node with
      | none => simp [hb] at h
      | some b =>
        simp only [hb] at h
        cases hc : b.c with
        | f c => simp [hc] at h
        | n c =>
          simp only [hc] at h
          by_cases h0 : (ids.all fun i => c.ids.contains i) = true
          · rw [if_pos h0] at h; simp only [Except.ok.injEq] at h; subst h; exact Keep.refl hok
          · rw [if_neg h0] at h; cases h
  | burn b =>
    simp only [step] at h
    cases ht : takeNamed s b with
    | error e => simp [ht] at h
    | ok p =>
      obtain ⟨s1, node⟩ := p
      simp only [ht] at h
      have := takeNamed_spec ht; subst this
      cases hd : dropNode { s with named := remove s.named b } node with
      | error e => simp [hd] at h
      | ok q =>
        obtain ⟨s2, bk⟩ := q
        simp only [hd] at h
        obtain ⟨h1, h2, _, _⟩ := dropNode_tot r (s := { s with named := remove s.named b }) ⟨hok.nodup, hok.fresh⟩ hd
        obtain ⟨_, hbor, _⟩ := dropNode_spec hd
        have hfo := famt_unborrowed r hbor
        have e0 : tot { s with named := remove s.named b } r = tot s r := rfl
        cases hc : bk.c with
        | f c =>
          simp only [hc, Except.ok.injEq] at h hfo; subst h
          refine ⟨⟨h1.nodup, h1.fresh⟩, ?_⟩
          rw [e0] at h2
          simp only [tot] at h2 ⊢
          by_cases hr : r = bk.res
          · subst hr; simp only [upd_same, if_true] at hfo ⊢; omega
          · have hr' : ¬ bk.res = r := fun x => hr x.symm
            simp only [upd_other _ _ _ _ hr, hr', if_false] at hfo ⊢; omega
        | n c =>
          simp only [hc, Except.ok.injEq] at h hfo; subst h
          refine ⟨⟨h1.nodup, h1.fresh⟩, ?_⟩
          rw [e0] at h2
          simp only [ite_self] at hfo
          simp only [tot] at h2 ⊢; omega
  | deposit b =>
    simp only [step] at h
    cases ht : takeNamed s b with
    | error e => simp [ht] at h
    | ok p =>
      obtain ⟨s1, node⟩ := p
      simp only [ht] at h
      have := takeNamed_spec ht; subst this
      by_cases hauth : (!s.authed) = true
      · simp [hauth] at h
      · have hna : (!s.authed) = false := by simpa using hauth
        simp only [hna, Bool.false_eq_true, if_false] at h
        exact (keep_fields (s' := { s with named := remove s.named b }) hok rfl rfl rfl rfl).trans
          (depositNodes_tot r _ ⟨hok.nodup, hok.fresh⟩ h)
  | depositAll =>
    simp only [step] at h
    by_cases hauth : (!s.authed) = true
    · simp [hauth] at h
    · have hna : (!s.authed) = false := by simpa using hauth
      simp only [hna, Bool.false_eq_true, if_false] at h
      exact (keep_fields (s' := { s with worktop := [] }) hok rfl rfl rfl rfl).trans
        (depositNodes_tot r _ ⟨hok.nodup, hok.fresh⟩ h)
  | bproof b a =>
    simp only [step] at h
    cases hn : lookup s.named b with
    | none => simp [hn] at h
    | some node =>
      simp only [hn] at h
      cases hb : lookup s.nodes node with
      | none => simp [hb] at h
      | some bk =>
        simp only [hb] at h
        cases hc : bk.c with
        | n c => simp [hc] at h
        | f c =>
          simp only [hc] at h
          cases ht : c.createProof a (div bk.res) .bucket with
          | error e => simp [ht] at h
          | ok c' =>
            simp only [ht, Except.ok.injEq] at h; subst h
            exact (setNode_same_tot r hok hb (famt_same_amount r hc (createProof_amount ht))).trans
              (keep_fields (nodesOk_setNode _ _ hok) rfl rfl rfl rfl)
  | bproofNf b ids0 =>
    simp only [step] at h
    cases hn : lookup s.named b with
    | none => simp [hn] at h
    | some node =>
      simp only [hn] at h
      cases hb : lookup s.nodes node with
      | none => simp [hb] at h
      | some bk =>
        simp only [hb] at h
        cases hc : bk.c with
        | f c => simp [hc] at h
        | n c =>
          simp only [hc] at h
          cases ht : c.createProof ids0.eraseDups .bucket with
          | error e => simp [ht] at h
          | ok c' =>
            simp only [ht, Except.ok.injEq] at h; subst h
            exact (setNode_same_tot r hok hb (famt_n c' r hc)).trans
              (keep_fields (nodesOk_setNode _ _ hok) rfl rfl rfl rfl)
  | bproofAll b =>
    simp only [step] at h
    cases hn : lookup s.named b with
    | none => simp [hn] at h
    | some node =>
      simp only [hn] at h
      cases hb : lookup s.nodes node with
      | none => simp [hb] at h
      | some bk =>
        simp only [hb] at h
        cases hc : bk.c with
        | f c =>
          simp only [hc] at h
          cases ht : c.createProof c.amount (div bk.res) .bucket with
          | error e => simp [ht] at h
          | ok c' =>
            simp only [ht, Except.ok.injEq] at h; subst h
            exact (setNode_same_tot r hok hb (famt_same_amount r hc (createProof_amount ht))).trans
              (keep_fields (nodesOk_setNode _ _ hok) rfl rfl rfl rfl)
        | n c =>
          simp only [hc] at h
          cases ht : c.createProof c.ids .bucket with
          | error e => simp [ht] at h
          | ok c' =>
            simp only [ht, Except.ok.injEq] at h; subst h
            exact (setNode_same_tot r hok hb (famt_n c' r hc)).trans
              (keep_fields (nodesOk_setNode _ _ hok) rfl rfl rfl rfl)
  | clone p =>
    simp only [step] at h
    cases hp : lookup s.proofs p with
    | none => simp [hp] at h
    | some pr =>
      simp only [hp] at h
      cases hl : lockOn s pr with
      | error e => simp [hl] at h
      | ok s1 =>
        simp only [hl, Except.ok.injEq] at h; subst h
        have hk := lockOn_tot r hok hl
        exact hk.trans (keep_fields hk.1 rfl rfl rfl rfl)
  | drop p =>
    simp only [step] at h
    cases hp : lookup s.proofs p with
    | none => simp [hp] at h
    | some pr =>
      simp only [hp] at h
      exact (keep_fields (s' := { s with proofs := remove s.proofs p }) hok rfl rfl rfl rfl).trans
        (unlockOn_tot r ⟨hok.nodup, hok.fresh⟩ h)
  | dropNamed =>
    simp only [step] at h
    exact (keep_fields (s' := { s with proofs := [] }) hok rfl rfl rfl rfl).trans
      (unlockAll_tot r _ ⟨hok.nodup, hok.fresh⟩ h)
  | dropAll =>
    simp only [step] at h
    cases hu : unlockAll { s with proofs := [] } s.proofs with
    | error e => simp [hu] at h
    | ok s1 =>
      simp only [hu, Except.ok.injEq] at h; subst h
      have hk := unlockAll_tot r _ (s := { s with proofs := [] }) ⟨hok.nodup, hok.fresh⟩ hu
      exact (keep_fields (s' := { s with proofs := [] }) hok rfl rfl rfl rfl).trans
        (hk.trans (keep_fields hk.1 rfl rfl rfl rfl))

theorem nodesOk_init : NodesOk init := ⟨by simp [init, keys], by intro k hk; simp [init, keys] at hk⟩

/-- conservation along any run of successful instructions, from any well-formed state -/
theorem conservation_run (ops : List Op) (r : Nat) : ∀ (s0 s : St), NodesOk s0 → runOps s0 ops = .ok s →
    Keep r s0 s := by
  induction ops with
  | nil => intro s0 s hok h0; simp only [runOps, Except.ok.injEq] at h0; subst h0; exact Keep.refl hok
  | cons op rest ih =>
    intro s0 s hok h0
    simp only [runOps] at h0
    cases hs : step s0 op with
    | error e => simp [hs] at h0
    | ok s1 =>
      simp only [hs] at h0
      have h1 := conservation_step s0 s1 op r hok hs
      exact h1.trans (ih s1 s h1.1 h0)

/-- **conservation (whole transaction).** After any sequence of instructions that all succeed, for
every fungible resource: `account vault + live buckets + burned` equals the account's balance at the
start of the transaction. -/
theorem conservation (ops : List Op) (s : St) (r : Nat) (h : runOps init ops = .ok s) :
    tot s r = (init.vaultF r).amount ∧ NodesOk s := by
  have hk := conservation_run ops r init s nodesOk_init h
  exact ⟨by rw [hk.2]; simp [tot, init, sumNodes], hk.1⟩

/-! ### taking never yields more than was put; use after consume; end of transaction -/

/-- **take_le_put.** A successful `TAKE_FROM_WORKTOP r a` with `a ≠ 0` needs at least `a` of `r` on
the worktop (zero-amount takes just create an empty bucket). -/
theorem take_le_put (s s' : St) (r : Nat) (a : Int) (ha : a ≠ 0) (h : step s (.take r a) = .ok s') :
    a ≤ wtAmount s r := by
  simp only [step, ha, if_false] at h
  unfold wtAmount
  cases hw : lookup s.worktop r with
  | none => simp [hw] at h
  | some node =>
    simp only [hw] at h ⊢
    cases hb : lookup s.nodes node with
    | none => simp [hb] at h
    | some b =>
      simp only [hb] at h ⊢
      by_cases hlt : b.c.amount < a
      · simp [hlt] at h
      · omega

theorem lookup_remove_self {β : Type} (l : List (Nat × β)) (k : Nat) : lookup (remove l k) k = none := by
  unfold lookup remove
  have : (l.filter (fun e => e.1 != k)).find? (fun e => e.1 == k) = none := by
    rw [List.find?_eq_none]
    intro e he
    have := (List.mem_filter.mp he).2
    simp only [bne_iff_ne, ne_eq] at this
    simp [this]
  rw [this]

/-- **use_after_consume_fails.** Once a named bucket has been consumed (returned, burned, deposited —
all go through `take_bucket`), its id is gone: returning, burning, depositing it again or creating a
proof from it fails with `BucketNotFound`. -/
theorem use_after_consume_fails (s s1 : St) (b node : Nat) (h : takeNamed s b = .ok (s1, node)) :
    step s1 (.ret b) = .error (.bucketNotFound b) ∧
    step s1 (.burn b) = .error (.bucketNotFound b) ∧
    step s1 (.deposit b) = .error (.bucketNotFound b) ∧
    (∀ a, step s1 (.bproof b a) = .error (.bucketNotFound b)) ∧
    (∀ ids, step s1 (.bproofNf b ids) = .error (.bucketNotFound b)) ∧
    step s1 (.bproofAll b) = .error (.bucketNotFound b) := by
  have := takeNamed_spec h; subst this
  have hl : lookup (remove s.named b) b = none := lookup_remove_self _ _
  refine ⟨?_, ?_, ?_, ?_, ?_, ?_⟩ <;> (try intro _) <;> simp [step, takeNamed, hl]

/-- same for proofs: a dropped proof id cannot be cloned or dropped again -/
theorem proof_use_after_drop_fails (s : St) (p : Nat) :
    step { s with proofs := remove s.proofs p } (.clone p) = .error (.proofNotFound p) ∧
    step { s with proofs := remove s.proofs p } (.drop p) = .error (.proofNotFound p) := by
  have hl : lookup (remove s.proofs p) p = none := lookup_remove_self _ _
  constructor <;> simp [step, hl]

theorem unlockOn_named {s s' : St} {p : Prf} (h : unlockOn s p = .ok s') : s'.named = s.named := by
  unfold unlockOn at h
  repeat' split at h
  all_goals (cases h <;> try rfl)

theorem unlockAll_named (ps : List (Nat × Prf)) : ∀ {s s' : St}, unlockAll s ps = .ok s' → s'.named = s.named := by
  induction ps with
  | nil => intro s s' h; simp only [unlockAll, Except.ok.injEq] at h; subst h; rfl
  | cons e rest ih =>
    intro s s' h
    obtain ⟨k, p⟩ := e
    simp only [unlockAll] at h
    cases hd : unlockOn s p with
    | error e => simp [hd] at h
    | ok s1 => simp only [hd] at h; rw [ih h, unlockOn_named hd]

theorem dropEmpty_spec {s s' : St} {node : Nat} (h : dropEmpty s node = .ok s') :
    ∃ b, lookup s.nodes node = some b ∧ b.c.borrowed = false ∧ b.c.liquidEmpty = true ∧
      s' = { s with nodes := remove s.nodes node } := by
  unfold dropEmpty at h
  cases hd : dropNode s node with
  | error e => simp [hd] at h
  | ok p =>
    obtain ⟨s1, b⟩ := p
    simp only [hd] at h
    obtain ⟨h1, h2, h3⟩ := dropNode_spec hd
    by_cases he : b.c.liquidEmpty = true
    · simp only [he, if_true, Except.ok.injEq] at h; subst h; exact ⟨b, h1, h2, he, h3⟩
    · simp [he] at h

theorem dropWorktop_named (wt : List (Nat × Nat)) : ∀ {s s' : St}, dropWorktop s wt = .ok s' → s'.named = s.named := by
  induction wt with
  | nil => intro s s' h; simp only [dropWorktop, Except.ok.injEq] at h; subst h; rfl
  | cons e rest ih =>
    intro s s' h
    obtain ⟨r0, node⟩ := e
    simp only [dropWorktop] at h
    cases hd : dropEmpty s node with
    | error e => simp [hd] at h
    | ok s1 =>
      simp only [hd] at h
      obtain ⟨b, _, _, _, rfl⟩ := dropEmpty_spec hd
      rw [ih h]

/-- **success_requires_empty.** The end-of-transaction clean-up succeeds only if no named bucket is
left (empty or not), the first bucket still on the worktop — hence, inductively, every one — is
droppable and empty, and the clean-up itself conserves every fungible total: so in a successful
transaction everything that was taken has been deposited or burned. -/
theorem success_requires_empty (s s' : St) (r : Nat) (hok : NodesOk s) (h : finish s = .ok s') :
    s.named = [] ∧ Keep r s s' ∧
    (∀ r0 node rest, s.worktop = (r0, node) :: rest →
      ∃ b, lookup s.nodes node = some b ∧ b.c.borrowed = false ∧ b.c.liquidEmpty = true) := by
  unfold finish at h
  cases hd : dropWorktop { s with worktop := [] } s.worktop with
  | error e => simp [hd] at h
  | ok s1 =>
    simp only [hd] at h
    cases hu : unlockAll { s1 with proofs := [] } s1.proofs with
    | error e => simp [hu] at h
    | ok s2 =>
      simp only [hu] at h
      by_cases hn : s2.named.isEmpty = true
      · simp only [hn, if_true, Except.ok.injEq] at h; subst h
        have e1 : s1.named = s.named := dropWorktop_named s.worktop (s := { s with worktop := [] }) hd
        have e2 : s2.named = s1.named := unlockAll_named s1.proofs (s := { s1 with proofs := [] }) hu
        have k1 := dropWorktop_tot r _ (s := { s with worktop := [] }) ⟨hok.nodup, hok.fresh⟩ hd
        have k2 := unlockAll_tot r _ (s := { s1 with proofs := [] }) ⟨k1.1.nodup, k1.1.fresh⟩ hu
        refine ⟨?_, ⟨k2.1, ?_⟩, ?_⟩
        · rw [← e1, ← e2]; exact List.isEmpty_iff.mp hn
        · rw [k2.2]; exact k1.2
        · intro r0 node rest hwt
          rw [hwt] at hd
          simp only [dropWorktop] at hd
          cases hde : dropEmpty { s with worktop := [] } node with
          | error e => simp [hde] at hd
          | ok s3 =>
            obtain ⟨b, hb1, hb2, hb3, _⟩ := dropEmpty_spec hde
            exact ⟨b, hb1, hb2, hb3⟩
      · simp [hn] at h

/-- Corollary: in a transaction that succeeds as a whole, `account + buckets + burned` is still the
starting balance after the clean-up, and no named bucket is left. -/
theorem tx_success_conserves (ops : List Op) (s : St) (r : Nat) (h : runTx ops = .ok s) :
    tot s r = (init.vaultF r).amount ∧ s.named = [] := by
  unfold runTx at h
  cases hr : runOps init ops with
  | error e => simp [hr] at h
  | ok s0 =>
    simp only [hr] at h
    cases hf : finish s0 with
    | error e => simp [hf] at h
    | ok s1 =>
      simp only [hf, Except.ok.injEq] at h; subst h
      have hc := conservation ops s0 r hr
      exact ⟨hc.1, (success_requires_empty s0 s1 r hc.2 hf).1⟩

/-! ### Non-vacuity -/

/-- the failure of a run, if any (the state contains functions, so outcomes are compared through this) -/
def errOf (x : Except Err St) : Option Err := match x with | .error e => some e | .ok _ => none

-- withdraw 10, take 4 into a named bucket, return it, deposit everything: succeeds, totals conserved
example : (runTx [.withdraw 0 (10 * unitA), .take 0 (4 * unitA), .ret 0, .depositAll]).toOption.isSome = true := by decide
-- leaving the named bucket behind fails (`OrphanedNodes`), leaving funds on the worktop fails
example : errOf (runTx [.withdraw 0 (10 * unitA), .take 0 (4 * unitA), .depositAll]) = some .orphaned := by decide
example : errOf (runTx [.withdraw 0 (10 * unitA)]) = some .dropNonEmpty := by decide
-- use after consume
example : errOf (runTx [.withdraw 0 (10 * unitA), .takeAll 0, .deposit 0, .deposit 0]) = some (.bucketNotFound 0) := by decide
-- exact-balance take moves the bucket; the assertion then sees an empty worktop
example : errOf (runTx [.withdraw 0 (10 * unitA), .take 0 (10 * unitA), .assertAny 0]) = some .worktopAssertion := by decide

end Radix.Res
