/-
C44 — Consensus time and rounds only move forward.

  "The ledger's proposer timestamp and its minute-rounded clock never decrease, rounds only advance
   within an epoch, an epoch change advances the epoch by exactly one and resets the round, and time
   comparisons made by components agree with the recorded clock."
  Quantifier: every sequence of round-change system transactions with any round numbers and timestamps.

Property theorems only.  Model: `RadixModel/Model/Consensus.lean` (transcription of `next_round`,
`check_non_decreasing_and_update_timestamps`, `should_epoch_change`, `compare_current_time`, …);
helper lemmas: `RadixModel/Lemmas/Consensus.lean`.  A history is a list of `Op`s (arbitrary round,
timestamp, gap leaders, leader, fallback flag); `run` applies them, a rejected request leaves the
state unchanged (transaction atomicity, C02; re-checked by the correspondence on every failed call).
-/
import RadixModel.Model.Consensus
import RadixModel.Lemmas.Consensus
import RadixModel.Generated.C44

namespace Radix.Consensus

/-! ## 1. The proposer (milli) timestamp never decreases -/

/-- an accepted round change records exactly the proposer's timestamp, and that timestamp is not
    smaller than the previous one -/
theorem milli_step {cfg : Config} {s s' : St} {op : Op} (h : nextRound cfg s op = .ok s') :
    s'.milli = op.ts ∧ s.milli ≤ s'.milli := by
  have a := nextRound_ok h
  exact ⟨a.milli, by rw [a.milli]; exact a.ts_ge⟩

/-- a smaller timestamp is always rejected, whatever the round / leader data -/
theorem smaller_timestamp_rejected (cfg : Config) (s : St) (op : Op) (h : op.ts < s.milli) :
    nextRound cfg s op = .error .invalidProposerTimestampUpdate := by
  unfold nextRound
  rw [checkTimestamps_smaller h]

/-- `milli_mono`: along every history the milli clock never decreases -/
theorem milli_mono (cfg : Config) (s : St) (ops : List Op) : s.milli ≤ (run cfg s ops).milli :=
  run_rel (cfg := cfg) (fun a b => a.milli ≤ b.milli) (fun _ => Int.le_refl _)
    (fun _ _ _ h1 h2 => Int.le_trans h1 h2)
    (fun _ _ _ a => by rw [a.milli]; exact a.ts_ge) ops s

/-- … between any two points of a history -/
theorem milli_mono_history (cfg : Config) (s : St) (ops₁ ops₂ : List Op) :
    (run cfg s ops₁).milli ≤ (run cfg s (ops₁ ++ ops₂)).milli := by
  rw [run_append]; exact milli_mono cfg _ ops₂

example : (run ⟨2, 5, 1000, 1⟩ ⟨2, 0, 1, 0, 1, 1, some 0, [(0, 0)]⟩
    [⟨1, 5, [], 0, false⟩, ⟨2, 3, [], 0, false⟩, ⟨2, 70000, [], 0, false⟩]).milli = 70000 := by decide

/-! ## 2. The minute-rounded clock never decreases and is the truncated milli clock -/

theorem minute_step {cfg : Config} {s s' : St} {op : Op} (h : nextRound cfg s op = .ok s') :
    s.minute ≤ s'.minute := by
  obtain ⟨m, _, hm⟩ := (nextRound_ok h).minute
  rw [hm]; split <;> omega

/-- `minute_mono`: along every history the minute clock never decreases (from ANY stored state,
    coherent or not) -/
theorem minute_mono (cfg : Config) (s : St) (ops : List Op) : s.minute ≤ (run cfg s ops).minute :=
  run_rel (cfg := cfg) (fun a b => a.minute ≤ b.minute) (fun _ => Int.le_refl _)
    (fun _ _ _ h1 h2 => Int.le_trans h1 h2)
    (fun _ _ _ a => by obtain ⟨m, _, hm⟩ := a.minute; rw [hm]; split <;> omega) ops s

theorem minute_mono_history (cfg : Config) (s : St) (ops₁ ops₂ : List Op) :
    (run cfg s ops₁).minute ≤ (run cfg s (ops₁ ++ ops₂)).minute := by
  rw [run_append]; exact minute_mono cfg _ ops₂

/-- truncating division by the minute length is monotone on all of `i64`, negative timestamps
    included (this is what makes "update only when greater" never lose a minute) -/
theorem truncated_minute_mono (a b : Int) (h : a ≤ b) : a.tdiv 60000 ≤ b.tdiv 60000 :=
  tdiv_mono a b 60000 (by decide) h

/-- the stored minute is the `i32` truncated minute of the stored milli timestamp -/
def Coherent (s : St) : Prop := milliToMinute s.milli = some s.minute

theorem coherent_step {cfg : Config} {s s' : St} {op : Op} (hc : Coherent s)
    (a : Accepted cfg s op s') : Coherent s' := by
  obtain ⟨m, hm, hmin⟩ := a.minute
  have h1 := (milliToMinute_some hc).1
  have h2 := (milliToMinute_some hm).1
  have hmono := truncated_minute_mono s.milli op.ts a.ts_ge
  have : s'.minute = m := by rw [hmin]; split <;> omega
  unfold Coherent
  rw [a.milli, this]; exact hm

theorem genesis_coherent {cfg : Config} {e : Nat} {t : Int} {l : Option Nat} {s : St}
    (h : genesis cfg e t l = .ok s) : Coherent s := by
  unfold genesis at h
  split at h
  · cases h
  · rename_i m hm
    split at h
    · cases h
    · simp only [Except.ok.injEq] at h
      subst h
      exact hm

/-- in every state reachable from genesis by any history, the minute clock is exactly the milli
    clock divided by 60000 with truncation, and fits `i32` -/
theorem minute_is_truncated_milli {cfg : Config} {e : Nat} {t : Int} {l : Option Nat} {s₀ : St}
    (h : genesis cfg e t l = .ok s₀) (ops : List Op) :
    (run cfg s₀ ops).minute = (run cfg s₀ ops).milli.tdiv 60000 ∧
      i32Min ≤ (run cfg s₀ ops).minute ∧ (run cfg s₀ ops).minute ≤ i32Max := by
  have hc : Coherent (run cfg s₀ ops) :=
    run_inv (cfg := cfg) Coherent (fun _ _ _ hs a => coherent_step hs a) ops s₀ (genesis_coherent h)
  exact milliToMinute_some hc

example : genesis ⟨1, 1, 0, 1⟩ 1 (-100000) (some 0)
    = .ok ⟨2, 0, -100000, -1, -100000, -100000, some 0, [(0, 0)]⟩ := by rfl

/-! ## 3. Rounds only advance within an epoch; an epoch change is +1 with round 0 -/

/-- `round_strictly_increases_within_epoch` (single accepted step) -/
theorem round_strictly_increases_within_epoch {cfg : Config} {s s' : St} {op : Op}
    (h : nextRound cfg s op = .ok s') (he : s'.epoch = s.epoch) :
    s.round < s'.round ∧ s'.round = op.round := by
  have a := nextRound_ok h
  rcases a.outcome with ⟨_, _, hr, _, _⟩ | ⟨_, _, he', _⟩
  · exact ⟨by rw [hr]; exact a.round_gt, hr⟩
  · omega

/-- a round number that is not larger than the current one is never accepted — not even together
    with an epoch change -/
theorem stale_round_rejected (cfg : Config) (s : St) (op : Op) (h : op.round ≤ s.round) (s' : St) :
    nextRound cfg s op ≠ .ok s' := by
  intro hok
  have := (nextRound_ok hok).round_gt
  omega

/-- `epoch_change_is_plus_one_and_round_zero`: an accepted round change either stays in the epoch
    (and then stores the given, strictly larger round and keeps the epoch start times) or moves to
    exactly the next epoch with round zero and the actual epoch start = the proposer timestamp -/
theorem epoch_change_is_plus_one_and_round_zero {cfg : Config} {s s' : St} {op : Op}
    (h : nextRound cfg s op = .ok s') :
    (s'.epoch = s.epoch ∧ s'.round = op.round ∧ s.round < s'.round ∧
        s'.effStart = s.effStart ∧ s'.actStart = s.actStart) ∨
    (s'.epoch = s.epoch + 1 ∧ s'.round = 0 ∧ s'.actStart = op.ts) := by
  have a := nextRound_ok h
  rcases a.outcome with ⟨_, he, hr, h1, h2⟩ | ⟨_, _, he, hr, hact, _⟩
  · exact Or.inl ⟨he, hr, by rw [hr]; exact a.round_gt, h1, h2⟩
  · exact Or.inr ⟨he, hr, hact⟩

/-- the epoch changes exactly when the configured criterion (max rounds reached, or min rounds
    reached and the target duration elapsed since the effective epoch start) is met -/
theorem epoch_changes_iff_criterion {cfg : Config} {s s' : St} {op : Op}
    (h : nextRound cfg s op = .ok s') :
    s'.epoch = s.epoch + 1 ↔ criterionMet cfg (epochDuration s.effStart op.ts) op.round = true := by
  have a := nextRound_ok h
  rcases a.outcome with ⟨hc, he, _⟩ | ⟨hc, _, he, _⟩
  · constructor
    · intro h'; omega
    · intro h'; rw [hc] at h'; cases h'
  · exact ⟨fun _ => hc, fun _ => he⟩

/-- an epoch never ends before `min(min_round_count, max_round_count)` rounds, and before
    `max_round_count` rounds only if the target duration has elapsed -/
theorem epoch_change_needs_rounds_or_time {cfg : Config} {s s' : St} {op : Op}
    (h : nextRound cfg s op = .ok s') (he : s'.epoch = s.epoch + 1) :
    cfg.maxRound ≤ op.round ∨
      (cfg.minRound ≤ op.round ∧ cfg.target ≤ epochDuration s.effStart op.ts) := by
  have hc := (epoch_changes_iff_criterion h).1 he
  unfold criterionMet at hc
  by_cases h1 : op.round ≥ cfg.maxRound
  · exact Or.inl h1
  · rw [if_neg h1] at hc
    by_cases h2 : op.round < cfg.minRound
    · rw [if_pos h2] at hc; cases hc
    · rw [if_neg h2] at hc
      exact Or.inr ⟨by omega, by simpa using hc⟩

/-- the epoch number never decreases along a history … -/
theorem epoch_mono (cfg : Config) (s : St) (ops : List Op) : s.epoch ≤ (run cfg s ops).epoch :=
  run_rel (cfg := cfg) (fun a b => a.epoch ≤ b.epoch) (fun _ => Nat.le_refl _)
    (fun _ _ _ h1 h2 => Nat.le_trans h1 h2)
    (fun _ _ _ a => by rcases a.outcome with ⟨_, he, _⟩ | ⟨_, _, he, _⟩ <;> omega) ops s

/-- … and grows by at most one per round-change transaction (no epoch is ever skipped) -/
theorem epoch_le_add_length (cfg : Config) (ops : List Op) :
    ∀ s : St, (run cfg s ops).epoch ≤ s.epoch + ops.length := by
  induction ops with
  | nil => intro s; simp [run_nil]
  | cons op ops ih =>
    intro s
    rw [run_cons]
    have h := ih (apply cfg s op)
    have : (apply cfg s op).epoch ≤ s.epoch + 1 := by
      rcases apply_cases cfg s op with h' | a
      · rw [h']; omega
      · rcases a.outcome with ⟨_, he, _⟩ | ⟨_, _, he, _⟩ <;> omega
    simp only [List.length_cons]; omega

/-- lexicographic order on (epoch, round) -/
def LexLe (a b : St) : Prop := a.epoch < b.epoch ∨ (a.epoch = b.epoch ∧ a.round ≤ b.round)
def LexLt (a b : St) : Prop := a.epoch < b.epoch ∨ (a.epoch = b.epoch ∧ a.round < b.round)

/-- every accepted round change strictly advances (epoch, round) -/
theorem lex_strict_step {cfg : Config} {s s' : St} {op : Op} (h : nextRound cfg s op = .ok s') :
    LexLt s s' := by
  have a := nextRound_ok h
  rcases a.outcome with ⟨_, he, hr, _⟩ | ⟨_, _, he, _⟩
  · exact Or.inr ⟨he.symm, by rw [hr]; exact a.round_gt⟩
  · exact Or.inl (by omega)

/-- (epoch, round) never moves backwards along a history -/
theorem lex_mono (cfg : Config) (s : St) (ops : List Op) : LexLe s (run cfg s ops) :=
  run_rel (cfg := cfg) LexLe (fun _ => Or.inr ⟨rfl, Nat.le_refl _⟩)
    (fun a b c h1 h2 => by unfold LexLe at *; omega)
    (fun s op s' a => by
      unfold LexLe
      rcases a.outcome with ⟨_, he, hr, _⟩ | ⟨_, _, he, _⟩
      · have := a.round_gt; omega
      · omega) ops s

/-- history form of `round_strictly_increases_within_epoch`: if a request is accepted somewhere in a
    history and the epoch at a later point is still the same, the round at that later point is
    strictly larger than before the request -/
theorem round_strictly_increases_within_epoch_history (cfg : Config) (s : St)
    (ops₁ : List Op) (op : Op) (ops₂ : List Op) (s' : St)
    (hacc : nextRound cfg (run cfg s ops₁) op = .ok s')
    (hep : (run cfg s (ops₁ ++ op :: ops₂)).epoch = (run cfg s ops₁).epoch) :
    (run cfg s ops₁).round < (run cfg s (ops₁ ++ op :: ops₂)).round := by
  have happ : apply cfg (run cfg s ops₁) op = s' := by unfold apply; rw [hacc]
  rw [run_append, run_cons, happ] at hep ⊢
  have h1 := lex_strict_step hacc
  have h2 := lex_mono cfg s' ops₂
  unfold LexLt at h1; unfold LexLe at h2
  omega

example : nextRound ⟨2, 5, 1000, 1⟩ ⟨2, 1, 5, 0, 1, 1, some 0, [(1, 0)]⟩ ⟨2, 70000, [], 0, false⟩
    = .ok ⟨3, 0, 70000, 1, 70000, 70000, some 0, [(0, 0)]⟩ := by rfl

/-! ## 4. Rounds per epoch are bounded by the configured maximum (regenerated parameters) -/

def RoundBound (cfg : Config) (s : St) : Prop := s.round = 0 ∨ s.round < cfg.maxRound

theorem roundBound_reachable {cfg : Config} {e : Nat} {t : Int} {l : Option Nat} {s₀ : St}
    (h : genesis cfg e t l = .ok s₀) (ops : List Op) : RoundBound cfg (run cfg s₀ ops) := by
  have h0 : RoundBound cfg s₀ := by
    unfold genesis at h
    split at h
    · cases h
    · split at h
      · cases h
      · simp only [Except.ok.injEq] at h
        subst h; exact Or.inl rfl
  refine run_inv (cfg := cfg) (RoundBound cfg) ?_ ops s₀ h0
  intro s op s' _ a
  rcases a.outcome with ⟨hc, _, hr, _⟩ | ⟨_, _, _, hr, _⟩
  · right
    unfold criterionMet at hc
    by_cases h1 : op.round ≥ cfg.maxRound
    · rw [if_pos h1] at hc; cases hc
    · omega
  · exact Or.inl hr

/-- the private unit constants of consensus_manager.rs, as read from the current source text -/
theorem units_match_source :
    Generated.C44.MILLIS_IN_SECOND = 1000 ∧ Generated.C44.SECONDS_IN_MINUTE = 60 ∧
      Generated.C44.MILLIS_IN_MINUTE = 60000 := by decide

/-- the epoch-change conditions shipped in the code (test default, mainnet genesis) are well-formed -/
theorem shipped_conditions_wellformed :
    Generated.C44.TEST_MIN_ROUND ≤ Generated.C44.TEST_MAX_ROUND ∧
    Generated.C44.MAINNET_MIN_ROUND ≤ Generated.C44.MAINNET_MAX_ROUND ∧
    0 < Generated.C44.TEST_MAX_ROUND ∧ 0 < Generated.C44.MAINNET_MAX_ROUND ∧
    Generated.C44.MAINNET_TARGET ≤ u64Max := by decide

/-- under the mainnet-genesis condition the stored round is always below `max_round_count` -/
theorem mainnet_round_bound {cfg : Config} (hm : cfg.maxRound = Generated.C44.MAINNET_MAX_ROUND)
    {e : Nat} {t : Int} {l : Option Nat} {s₀ : St} (h : genesis cfg e t l = .ok s₀) (ops : List Op) :
    (run cfg s₀ ops).round < Generated.C44.MAINNET_MAX_ROUND := by
  have hpos : 0 < Generated.C44.MAINNET_MAX_ROUND := shipped_conditions_wellformed.2.2.2.1
  rcases roundBound_reachable h ops with h0 | h1
  · omega
  · omega

/-! ## 5. Clock reads agree with the recorded clock -/

def clampI32 (x : Int) : Int := if x < i32Min then i32Min else if x > i32Max then i32Max else x

/-- how `compare_current_time` reads the caller's instant at a precision (in seconds) -/
def normalizeInstant : Precision → Int → Int
  | .minute, i => clampI32 (i.tdiv 60) * 60
  | .second, i => i

private theorem tdiv_scale (i : Int) : (i * 1000).tdiv 60000 = i.tdiv 60 := by
  by_cases h : 0 ≤ i
  · rw [tdiv_of_nonneg _ _ (by omega), tdiv_of_nonneg _ _ h]; omega
  · rw [tdiv_of_neg _ _ (by omega), tdiv_of_neg _ _ (by omega)]; omega

private theorem tdiv60_bounds (i : Int) :
    (0 ≤ i → i.tdiv 60 = i / 60) ∧ (i < 0 → i.tdiv 60 = -((-i) / 60)) :=
  ⟨fun h => tdiv_of_nonneg _ _ h, fun h => tdiv_of_neg _ _ h⟩

/-- the overflow handling of `compare_current_time` (checked_mul, i32::try_from, then MIN/MAX by
    sign) is exactly clamping the truncated minute of the instant to `i32` -/
theorem otherEpochMinute_eq_clamp (i : Int) : otherEpochMinute i = clampI32 (i.tdiv 60) := by
  obtain ⟨hp, hn⟩ := tdiv60_bounds i
  unfold otherEpochMinute clampI32
  simp only
  by_cases hr : inI64 (i * 1000) = true
  · rw [if_pos hr]
    simp only [inI64, decide_eq_true_eq] at hr
    have e3 : i64Min = -9223372036854775808 := rfl
    have e4 : i64Max = 9223372036854775807 := rfl
    by_cases hm : i32Min ≤ (i * 1000).tdiv 60000 ∧ (i * 1000).tdiv 60000 ≤ i32Max
    · rw [milliToMinute_of_range hm.1 hm.2]
      simp only
      rw [tdiv_scale] at hm ⊢
      rw [if_neg (by omega), if_neg (by omega)]
    · have hnone : milliToMinute (i * 1000) = none := by
        unfold milliToMinute
        simp only
        have : ¬ (inI32 ((i * 1000).tdiv 60000) = true) := by
          simp only [inI32, decide_eq_true_eq]; exact hm
        rw [if_neg this]
      rw [hnone]
      simp only
      rw [tdiv_scale] at hm
      have e1 : i32Min = -2147483648 := rfl
      have e2 : i32Max = 2147483647 := rfl
      by_cases hneg : i < 0
      · have := hn hneg
        rw [if_pos hneg]
        rw [if_pos (by omega)]
      · have := hp (by omega)
        rw [if_neg hneg]
        rw [if_neg (by omega), if_pos (by omega)]
  · rw [if_neg hr]
    simp only [inI64, decide_eq_true_eq] at hr
    have e3 : i64Min = -9223372036854775808 := rfl
    have e4 : i64Max = 9223372036854775807 := rfl
    have e1 : i32Min = -2147483648 := rfl
    have e2 : i32Max = 2147483647 := rfl
    by_cases hneg : i < 0
    · have := hn hneg
      rw [if_pos hneg, if_pos (by omega)]
    · have := hp (by omega)
      rw [if_neg hneg, if_neg (by omega), if_pos (by omega)]

private theorem eval_scale (op : CmpOp) (a b : Int) : op.eval (a * 60) (b * 60) = op.eval a b := by
  cases op <;> simp only [CmpOp.eval, decide_eq_decide] <;> omega

/-- `compare_agrees_with_recorded_clock`: the boolean returned by `compare_current_time` is the
    requested comparison between what `get_current_time` returns at that precision (the recorded
    clock) and the caller's instant read at that precision — including the `i32` saturation branch
    (instants beyond the minute range compare like the nearest representable minute) -/
theorem compare_agrees_with_recorded_clock (s : St) (i : Int) (p : Precision) (op : CmpOp) :
    compareCurrentTime s i p op = op.eval (getCurrentTime s p) (normalizeInstant p i) := by
  cases p
  · simp only [compareCurrentTime, getCurrentTime, normalizeInstant, minuteToInstant,
      otherEpochMinute_eq_clamp]
  · rfl

/-- at minute precision the comparison is a comparison of whole minutes -/
theorem compare_minute_is_minute_comparison (s : St) (i : Int) (op : CmpOp) :
    compareCurrentTime s i .minute op = op.eval s.minute (clampI32 (i.tdiv 60)) := by
  simp only [compareCurrentTime, minuteToInstant, otherEpochMinute_eq_clamp, eval_scale]

/-- in every state reachable from genesis, a minute-precision comparison compares the truncated
    minute of the recorded proposer timestamp with the (clamped) truncated minute of the instant,
    and a second-precision comparison compares its truncated second with the instant -/
theorem compare_reachable {cfg : Config} {e : Nat} {t : Int} {l : Option Nat} {s₀ : St}
    (h : genesis cfg e t l = .ok s₀) (ops : List Op) (i : Int) (op : CmpOp) :
    compareCurrentTime (run cfg s₀ ops) i .minute op
        = op.eval ((run cfg s₀ ops).milli.tdiv 60000) (clampI32 (i.tdiv 60)) ∧
    compareCurrentTime (run cfg s₀ ops) i .second op
        = op.eval ((run cfg s₀ ops).milli.tdiv 1000) i := by
  refine ⟨?_, rfl⟩
  rw [compare_minute_is_minute_comparison, (minute_is_truncated_milli h ops).1]

/-- the clock agrees with itself: comparing the current time with what `get_current_time` just
    returned says "equal" (needs the stored minute to be an `i32`, as in every reachable state) -/
theorem clock_self_consistent (s : St) (p : Precision)
    (hr : i32Min ≤ s.minute ∧ s.minute ≤ i32Max) :
    compareCurrentTime s (getCurrentTime s p) p .eq = true := by
  cases p
  · have key : clampI32 ((s.minute * 60).tdiv 60) = s.minute := by
      obtain ⟨hp, hn⟩ := tdiv60_bounds (s.minute * 60)
      unfold clampI32
      have e1 : i32Min = -2147483648 := rfl
      have e2 : i32Max = 2147483647 := rfl
      by_cases h0 : 0 ≤ s.minute
      · have := hp (by omega)
        rw [if_neg (by omega), if_neg (by omega)]; omega
      · have := hn (by omega)
        rw [if_neg (by omega), if_neg (by omega)]; omega
    rw [compare_minute_is_minute_comparison]
    simp only [getCurrentTime, minuteToInstant]
    rw [key]
    simp [CmpOp.eval]
  · simp [compareCurrentTime, getCurrentTime, CmpOp.eval]

/-- the two precisions of the recorded clock are less than a minute apart in every reachable state
    (minute clock = second clock truncated toward zero to a whole minute) -/
theorem minute_clock_within_a_minute_of_second_clock {cfg : Config} {e : Nat} {t : Int}
    {l : Option Nat} {s₀ : St} (h : genesis cfg e t l = .ok s₀) (ops : List Op) :
    let s := run cfg s₀ ops
    (0 ≤ s.milli → getCurrentTime s .minute ≤ getCurrentTime s .second ∧
        getCurrentTime s .second < getCurrentTime s .minute + 60) ∧
    (s.milli < 0 → getCurrentTime s .second ≤ getCurrentTime s .minute ∧
        getCurrentTime s .minute - 60 < getCurrentTime s .second) := by
  intro s
  have hm := (minute_is_truncated_milli h ops).1
  simp only [getCurrentTime, minuteToInstant, milliToInstant]
  change s.minute = s.milli.tdiv 60000 at hm
  constructor
  · intro h0
    rw [hm, tdiv_of_nonneg _ _ h0, tdiv_of_nonneg _ _ h0]; omega
  · intro h0
    rw [hm, tdiv_of_neg _ _ h0, tdiv_of_neg _ _ h0]; omega

/-- consequence for components (timers): once "the current time is at or after `i`" has been
    answered `true`, it is answered `true` at every later point of every history — at both
    precisions, from any stored state -/
theorem elapsed_stays_elapsed (cfg : Config) (s : St) (ops₁ ops₂ : List Op) (i : Int) (p : Precision)
    (op : CmpOp) (hop : op = .gte ∨ op = .gt)
    (h : compareCurrentTime (run cfg s ops₁) i p op = true) :
    compareCurrentTime (run cfg s (ops₁ ++ ops₂)) i p op = true := by
  have hmil := milli_mono_history cfg s ops₁ ops₂
  have hmin := minute_mono_history cfg s ops₁ ops₂
  have hsec := tdiv_mono _ _ 1000 (by decide) hmil
  cases p
  · rw [compare_minute_is_minute_comparison] at h ⊢
    rcases hop with rfl | rfl <;> simp only [CmpOp.eval, decide_eq_true_eq] at h ⊢ <;> omega
  · simp only [compareCurrentTime, milliToInstant] at h ⊢
    rcases hop with rfl | rfl <;> simp only [CmpOp.eval, decide_eq_true_eq] at h ⊢ <;> omega

/-- … and dually "the current time is before `i`" can only switch from `true` to `false` -/
theorem not_yet_never_returns (cfg : Config) (s : St) (ops₁ ops₂ : List Op) (i : Int) (p : Precision)
    (op : CmpOp) (hop : op = .lt ∨ op = .lte)
    (h : compareCurrentTime (run cfg s ops₁) i p op = false) :
    compareCurrentTime (run cfg s (ops₁ ++ ops₂)) i p op = false := by
  have hmil := milli_mono_history cfg s ops₁ ops₂
  have hmin := minute_mono_history cfg s ops₁ ops₂
  have hsec := tdiv_mono _ _ 1000 (by decide) hmil
  cases p
  · rw [compare_minute_is_minute_comparison] at h ⊢
    rcases hop with rfl | rfl <;> simp only [CmpOp.eval, decide_eq_false_iff_not] at h ⊢ <;> omega
  · simp only [compareCurrentTime, milliToInstant] at h ⊢
    rcases hop with rfl | rfl <;> simp only [CmpOp.eval, decide_eq_false_iff_not] at h ⊢ <;> omega

example : compareCurrentTime ⟨2, 0, 70000, 1, 1, 1, some 0, []⟩ 9223372036854775807 .minute .lt = true := by
  decide

/-! ## 6. No hidden panic in the epoch-change computation -/

/-- the three `.expect("Overflow")` of `is_actual_duration_close_to_target` can never fire for
    `u64` inputs -/
theorem closeToTarget_never_panics (cfg : Config) (actual : Nat)
    (ha : actual ≤ u64Max) (ht : cfg.target ≤ u64Max) : closeToTarget cfg actual ≠ none := by
  unfold closeToTarget
  simp only [u64Max] at ha ht
  split
  · simp
  · rename_i hge
    simp only [Decidable.not_not] at hge
    have h1 : inI192 (decOne * (actual : Int)) = true := by
      simp only [inI192, decide_eq_true_eq]; simp only [decOne, i192Bound]; omega
    have h2 : inI192 (decOne * (cfg.target : Int)) = true := by
      simp only [inI192, decide_eq_true_eq]; simp only [decOne, i192Bound]; omega
    have h3 : inI192 (decOne * (actual : Int) - decOne * (cfg.target : Int)) = true := by
      simp only [inI192, decide_eq_true_eq]; simp only [decOne, i192Bound]; omega
    have h4 : inI256 (decOne * (decOne * (actual : Int) - decOne * (cfg.target : Int))) = true := by
      simp only [inI256, decide_eq_true_eq]; simp only [decOne, i256Bound]; omega
    have h5 : inI192 ((decOne * (decOne * (actual : Int) - decOne * (cfg.target : Int))).tdiv
        (decOne * (cfg.target : Int))) = true := by
      have hb := Int.natAbs_tdiv_le_natAbs
        (decOne * (decOne * (actual : Int) - decOne * (cfg.target : Int))) (decOne * (cfg.target : Int))
      simp only [inI192, decide_eq_true_eq]
      simp only [decOne, i192Bound] at hb ⊢
      omega
    simp only [h1, h2, h3, h4, h5, and_self, not_true_eq_false, if_false]
    simp

/-- what "close to target" means in the code: at most 10 % (plus one atto of the quotient) ABOVE the
    target — a one-sided test: every shorter epoch (ended by `max_round_count`) also counts as close -/
theorem closeToTarget_spec (cfg : Config) (actual : Nat)
    (ha : actual ≤ u64Max) (ht : cfg.target ≤ u64Max) (h1000 : actual ≥ 1000 ∧ cfg.target ≥ 1000) :
    closeToTarget cfg actual = some (decide
      (1000000000000000000 * ((actual : Int) - (cfg.target : Int))
        < 100000000000000001 * (cfg.target : Int))) := by
  unfold closeToTarget
  simp only [u64Max] at ha ht
  rw [if_neg (by simpa using h1000)]
  have h1 : inI192 (decOne * (actual : Int)) = true := by
    simp only [inI192, decide_eq_true_eq]; simp only [decOne, i192Bound]; omega
  have h2 : inI192 (decOne * (cfg.target : Int)) = true := by
    simp only [inI192, decide_eq_true_eq]; simp only [decOne, i192Bound]; omega
  have h3 : inI192 (decOne * (actual : Int) - decOne * (cfg.target : Int)) = true := by
    simp only [inI192, decide_eq_true_eq]; simp only [decOne, i192Bound]; omega
  have h4 : inI256 (decOne * (decOne * (actual : Int) - decOne * (cfg.target : Int))) = true := by
    simp only [inI256, decide_eq_true_eq]; simp only [decOne, i256Bound]; omega
  have h5 : inI192 ((decOne * (decOne * (actual : Int) - decOne * (cfg.target : Int))).tdiv
      (decOne * (cfg.target : Int))) = true := by
    have hb := Int.natAbs_tdiv_le_natAbs
      (decOne * (decOne * (actual : Int) - decOne * (cfg.target : Int))) (decOne * (cfg.target : Int))
    simp only [inI192, decide_eq_true_eq]
    simp only [decOne, i192Bound] at hb ⊢
    omega
  simp only [h1, h2, h3, h4, h5, and_self, not_true_eq_false, if_false, Option.some.injEq,
    decide_eq_decide]
  simp only [decOne]
  by_cases hge : (cfg.target : Int) ≤ (actual : Int)
  · rw [tdiv_of_nonneg _ _ (by omega)]
    have hT : (0 : Int) < 1000000000000000000 * (cfg.target : Int) := by omega
    have key := @Int.ediv_lt_iff_lt_mul
      (1000000000000000000 * (1000000000000000000 * (actual : Int) - 1000000000000000000 * (cfg.target : Int)))
      100000000000000001 (1000000000000000000 * (cfg.target : Int)) hT
    constructor
    · intro hq
      have := key.1 (by omega)
      omega
    · intro hlt
      have := key.2 (by omega)
      omega
  · rw [tdiv_of_neg _ _ (by omega)]
    have hnn : 0 ≤ (-(1000000000000000000 * (1000000000000000000 * (actual : Int) - 1000000000000000000 * (cfg.target : Int)))) / (1000000000000000000 * (cfg.target : Int)) :=
      Int.ediv_nonneg (by omega) (by omega)
    constructor
    · intro _; omega
    · intro _; omega

/-- the one-sided test in action (condition min 3 / max 10 / target 60 s): an epoch ended by
    `max_round_count` after 2 s is "close to target", so the next effective start (60000) lies in
    the future of the recorded clock (2000) -/
example : closeToTarget ⟨3, 10, 60000, 2⟩ 2000 = some true := by rfl
example : (run ⟨3, 10, 60000, 2⟩ ⟨6, 5, 6, 0, 0, 0, some 0, [(2, 1), (1, 1)]⟩
    [⟨10, 2000, [0, 1, 0, 1], 1, false⟩]).effStart = 60000 := by rfl

/-- consequently `next_round` itself never panics for `u64`/`i64` inputs: every request is either
    accepted or rejected with one of the six declared errors -/
theorem nextRound_never_panics (cfg : Config) (s : St) (op : Op)
    (ht : cfg.target ≤ u64Max) (he : i64Min ≤ s.effStart ∧ s.effStart ≤ i64Max)
    (hts : i64Min ≤ op.ts ∧ op.ts ≤ i64Max) :
    nextRound cfg s op ≠ .error .panic := by
  have hd : epochDuration s.effStart op.ts ≤ u64Max := by
    unfold epochDuration
    simp only [i64Min, i64Max, u64Max] at *
    split <;> omega
  have hclose := closeToTarget_never_panics cfg _ hd ht
  have hsec : shouldEpochChange cfg s.effStart op.ts op.round ≠ none := by
    unfold shouldEpochChange
    simp only
    split
    · split
      · rename_i hn; exact absurd hn hclose
      · simp
      · simp
    · simp
  unfold nextRound
  split
  · rename_i e hce
    unfold checkTimestamps at hce
    split at hce
    · simp only [Except.error.injEq] at hce; subst hce; simp
    · simp only at hce
      split at hce
      · simp only [Except.error.injEq] at hce; subst hce; simp
      · cases hce
  · split
    · simp
    · split
      · rename_i e hus
        unfold updateStats at hus
        split at hus
        · simp only [Except.error.injEq] at hus; subst hus; simp
        · split at hus
          · simp only [Except.error.injEq] at hus; subst hus; simp
          · split at hus
            · simp only [Except.error.injEq] at hus; subst hus; simp
            · cases hus
      · split
        · rename_i hn; exact absurd hn hsec
        · simp
        · split <;> simp

end Radix.Consensus
