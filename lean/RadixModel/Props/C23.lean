/-
C23 — Schema compatibility checks are sound.

Property theorems only. Models: `Model/SborSchema.lean` (schemas, payload validation),
`Model/SchemaCompare.lean` (comparison kernel). Lemmas: `Lemmas/Schema*.lean`.

Statement (full strength): when the comparison reports the compared schema valid against the base
(under ANY settings — every relaxation the settings can grant is a sound one), every payload valid
under the base root type is valid under the compared root type; when it reports valid under settings
that grant no structural or validation relaxation (`require_equality` is one of them), the two root
types accept exactly the same payloads. Both halves are proved (`extension_sound`, `equality_sound`)
for the single-root entry point `compare_single_type_schemas`.
-/
import RadixModel.Lemmas.SchemaKernel
import RadixModel.Lemmas.SchemaGen
import RadixModel.Lemmas.SchemaEquality

namespace Radix.Schema
open Radix.Sbor

/-- A set of type-id pairs on which the shallow comparison passes and which contains the children
of each of its members (what the kernel's cache is after a run without errors). -/
def ClosedPairs (env : Env) (B C : Schema) (st : Settings) (V : List Pair) : Prop :=
  ∀ p ∈ V, ∃ ch, shallow env B C st p.1 p.2 = some (true, ch) ∧ ∀ q ∈ ch, q ∈ V

/-- Core: on a closed set of passing pairs, validity is preserved from base to compared, for every
value (induction on the value; `Any` on the compared side accepts everything; identical well-known
ids denote the same type in both schemas). -/
theorem closed_sound {env : Env} (he : EnvOK env) (hw : WkClosed env) {B C : Schema} {st : Settings}
    {V : List Pair} (hV : ClosedPairs env B C st V) :
    ∀ (v : SV) (b c : TypeId), (b, c) ∈ V → validate env B b v = .ok () → validate env C c v = .ok () := by
  intro v b c hm
  refine rel_sound he (R := RelOf (· ∈ V)) ?_ v b c (.inl hm)
  intro x y hr
  right
  rcases hr with hv | ⟨n, rfl, rfl⟩
  · obtain ⟨ch, hs, hcl⟩ := hV (x, y) hv
    exact shallow_nodeRel he hw hs hcl
  · exact wk_nodeRel hw B C _ n

/-- The pair work list of the kernel, when it ends without a recorded error, has computed a closed
set of passing pairs containing everything that was pending. -/
theorem worklist_closed {env : Env} {B C : Schema} {st : Settings} {fuel : Nat} {root : Pair} {cache : List Pair}
    (h : runPairs env B C st fuel [root] [] true = .done (cache, true)) :
    root ∈ cache ∧ ClosedPairs env B C st cache := by
  have hinv : PairsInv env B C st [root] [] := by intro p hp; simp at hp
  obtain ⟨a, _, c⟩ := runPairs_closed env B C st fuel [root] [] true cache h hinv
  refine ⟨a root (by simp), ?_⟩
  intro p hp
  obtain ⟨ch, h1, h2⟩ := c p hp
  exact ⟨ch, h1, fun q hq => (h2 q hq).elim id (fun x => by simp at x)⟩

/-- A passing single-type comparison has run the pair loop to a cache without errors. -/
theorem compareSingle_runs {env : Env} {B C : Schema} {st : Settings} {b c : TypeId}
    (h : compareSingle env B C st b c = .done true) :
    ∃ cache, runPairs env B C st (pairFuel B C) [(b, c)] [] true = .done (cache, true) := by
  unfold compareSingle compareFixedRoots at h
  simp only [rootsLoop, rootStep] at h
  cases hp : runPairs env B C st (pairFuel B C) [(b, c)] [] true with
  | panic => simp [hp] at h
  | outOfFuel => simp [hp] at h
  | done r =>
    obtain ⟨cache, ok⟩ := r
    simp only [hp] at h
    cases hr1 : runReach B (reachFuel B) (rootLocal b) [] with
    | panic => simp [hr1] at h
    | outOfFuel => simp [hr1] at h
    | done rb =>
      simp only [hr1] at h
      cases hr2 : runReach C (reachFuel C) (rootLocal c) [] with
      | panic => simp [hr2] at h
      | outOfFuel => simp [hr2] at h
      | done rc =>
        simp only [hr2, Outcome.done.injEq, Bool.and_eq_true] at h
        obtain ⟨⟨hok, _⟩, _⟩ := h
        subst hok
        exact ⟨cache, rfl⟩

/-- **extension_sound.** If `compare_single_type_schemas(settings, base, compared).is_valid()`
(any settings, in particular `allow_extension()`), then every value valid under the base root type
is valid under the compared root type. -/
theorem extension_sound {env : Env} (he : EnvOK env) (hw : WkClosed env) {B C : Schema} {st : Settings} {b c : TypeId}
    (h : compareSingle env B C st b c = .done true) (v : SV) :
    validate env B b v = .ok () → validate env C c v = .ok () := by
  obtain ⟨cache, hp⟩ := compareSingle_runs h
  obtain ⟨hroot, hcl⟩ := worklist_closed hp
  exact closed_sound he hw hcl v b c hroot

/-- The same at the level of payload bytes and of the validator's outcome: a payload accepted under
the base schema is accepted under the compared schema (for every depth limit). -/
theorem extension_sound_payload {env : Env} (he : EnvOK env) (hw : WkClosed env) {B C : Schema} {st : Settings}
    {b c : TypeId} (h : compareSingle env B C st b c = .done true) (depth : Nat) (payload : Bytes) :
    validatePayload env B b depth payload = .ok → validatePayload env C c depth payload = .ok := by
  unfold validatePayload
  cases hd : decodePayload scrypto depth payload with
  | error e => simp
  | ok v =>
    simp only
    cases hb : validate env B b v with
    | error e => simp
    | ok u =>
      cases u
      simp [extension_sound he hw h v hb]

/-- Under strict settings the closed set also transfers validity from compared to base. -/
theorem closed_sound_rev {env : Env} (he : EnvOK env) (hw : WkClosed env) {B C : Schema} {st : Settings}
    (hs : st.Strict) {V : List Pair} (hV : ClosedPairs env B C st V) :
    ∀ (v : SV) (b c : TypeId), (b, c) ∈ V → validate env C c v = .ok () → validate env B b v = .ok () := by
  intro v b c hm
  refine rel_sound he (B := C) (C := B) (R := RelOf (fun p => (p.2, p.1) ∈ V)) ?_ v c b (.inl hm)
  intro x y hr
  right
  rcases hr with hv | ⟨n, rfl, rfl⟩
  · obtain ⟨ch, hsh, hcl⟩ := hV (y, x) hv
    exact shallow_nodeRel_rev (V := (· ∈ V)) he hw hs hsh hcl
  · exact wk_nodeRel hw C B _ n

/-- **equality_sound.** If the comparison reports valid under settings that allow no new enum
variants, no replacement by `Any` and no validation weakening (`require_equality()` is one), the two
root types accept exactly the same values. -/
theorem equality_sound {env : Env} (he : EnvOK env) (hw : WkClosed env) {B C : Schema} {st : Settings}
    (hs : st.Strict) {b c : TypeId} (h : compareSingle env B C st b c = .done true) (v : SV) :
    validate env B b v = .ok () ↔ validate env C c v = .ok () := by
  obtain ⟨cache, hp⟩ := compareSingle_runs h
  obtain ⟨hroot, hcl⟩ := worklist_closed hp
  exact ⟨closed_sound he hw hcl v b c hroot, closed_sound_rev he hw hs hcl v b c hroot⟩

private theorem payload_ok_iff (env : Env) (S : Schema) (tid : TypeId) (depth : Nat) (payload : Bytes) :
    validatePayload env S tid depth payload = .ok ↔
      ∃ v, decodePayload scrypto depth payload = .ok v ∧ validate env S tid v = .ok () := by
  unfold validatePayload
  cases hd : decodePayload scrypto depth payload with
  | error e => simp
  | ok v =>
    cases hv : validate env S tid v with
    | error e => simp [hv]
    | ok u => cases u; simp [hv]

/-- `require_equality()` is strict. -/
theorem requireEquality_strict : Settings.requireEquality.Strict := ⟨rfl, rfl, rfl⟩

/-- **equality_sound** for the current tree and `require_equality()`, at payload level: both schemas
give the same accept/reject answer for every payload and every depth limit. -/
theorem equality_sound_current {B C : Schema} {b c : TypeId}
    (h : compareSingle genEnv B C .requireEquality b c = .done true) (depth : Nat) (payload : Bytes) :
    validatePayload genEnv B b depth payload = .ok ↔ validatePayload genEnv C c depth payload = .ok := by
  rw [payload_ok_iff, payload_ok_iff]
  constructor
  · rintro ⟨v, hd, hv⟩
    exact ⟨v, hd, (equality_sound genEnv_ok genEnv_wkClosed requireEquality_strict h v).mp hv⟩
  · rintro ⟨v, hd, hv⟩
    exact ⟨v, hd, (equality_sound genEnv_ok genEnv_wkClosed requireEquality_strict h v).mpr hv⟩

/-- **numeric_weakening_is_superset.** A numeric validation change that the kernel classifies as
unchanged or weakened only enlarges the accepted interval. -/
theorem numeric_weakening_is_superset {k : IntK} {x y : Bounds} (h : (numCompare k x y).ok = true) (n : Int) :
    numValid k x n = true → numValid k y n = true := numValid_mono h n

/-- **length_weakening_is_superset.** Same for length validations (strings, arrays, maps). -/
theorem length_weakening_is_superset {x y : Bounds} (h : (lenCompare x y).ok = true) (n : Nat) :
    lenValid x n = true → lenValid y n = true := lenValid_mono h n

/-- Every validation change the kernel lets through (unchanged, or weakened when allowed) is a
semantic weakening of every node-level check (container, terminal, custom, byte batch). -/
theorem validation_change_sound {env : Env} (he : EnvOK env) {st : Settings} {vb vc : TV}
    (h : compareValidation st vb vc = true) : ValRel env vb vc :=
  validationChange_sound he (compareValidation_ok h)

/-! ## The current tree

`genEnv` is regenerated on every check from the compiled tree (well-known type table of
`ScryptoCustomSchema`, entity-type classes of `NodeId`); `genEnv_ok` and `genEnv_wkClosed` are decided
on it, so the two theorems below are re-checked against what the code says now. -/

/-- `extension_sound` for the current tree, no hypotheses left. -/
theorem extension_sound_current {B C : Schema} {st : Settings} {b c : TypeId}
    (h : compareSingle genEnv B C st b c = .done true) (depth : Nat) (payload : Bytes) :
    validatePayload genEnv B b depth payload = .ok → validatePayload genEnv C c depth payload = .ok :=
  extension_sound_payload genEnv_ok genEnv_wkClosed h depth payload

def verdictIs (o : Outcome Bool) (b : Bool) : Bool :=
  match o with
  | .done x => x == b
  | _ => false

/-- Non-vacuity of `extension_sound`: base `enum E {0: (u8 in 0..=10)}`; compared adds a variant,
widens the bound and replaces nothing else — the kernel model reports valid under `allow_extension`. -/
example :
    let B : Schema := ⟨[.enum [(0, [.loc 1])], .int .u8],
      [⟨some 1, .variants [(0, ⟨some 2, none⟩)]⟩, ⟨none, .none⟩], [.none, .num .u8 ⟨some 0, some 10⟩]⟩
    let C : Schema := ⟨[.enum [(0, [.loc 1]), (1, [])], .int .u8],
      [⟨some 1, .variants [(0, ⟨some 2, none⟩), (1, ⟨some 3, none⟩)]⟩, ⟨none, .none⟩], [.none, .num .u8 ⟨some 0, some 20⟩]⟩
    verdictIs (compareSingle genEnv B C .allowExtension (.loc 0) (.loc 0)) true = true ∧
      verdictIs (compareSingle genEnv B C .requireEquality (.loc 0) (.loc 0)) false = true ∧
      verdictIs (compareSingle genEnv C B .allowExtension (.loc 0) (.loc 0)) false = true := by
  decide

/-- Non-vacuity of the hypotheses of `closed_sound`: the cache of that run is a closed set. -/
example : EnvOK genEnv ∧ WkClosed genEnv := ⟨genEnv_ok, genEnv_wkClosed⟩

end Radix.Schema
