import RadixModel.Lemmas.LockCells
import RadixModel.Generated.C51

/-!
# C51 — Locked state stays locked forever

Model: `RadixModel/Model/LockCells.lean` — the lockable cells of the system layer (object fields and
key-value entries, incl. metadata entries, component-royalty settings, the owner-role field and role
entries) and the system-API calls that can touch them, transcribed from `system.rs` /
`system_substates.rs`.  A *transaction* is an arbitrary list of API calls executed in one call frame
(so the theorems quantify over all programs a blueprint could run, not only over the native module
methods); a *history* is an arbitrary list of transactions.  Authorization never appears in the
theorems: they hold whoever calls and whatever badges are presented (auth can only remove behaviours).

* `locked_forever`            — once a cell is locked in the committed state, every later committed
                                state has the same value and the lock, for every history.
* `locked_forever_in_frame`   — the same inside a call frame, for every sequence of API calls, as long
                                as no write handle on the cell was open when it was locked.
* `write_on_locked_fails`     — opening a locked cell for writing is refused (`FieldLocked` /
                                `KeyValueEntryLocked`), and without a write handle every write call is
                                refused or hits another cell.
* `locked_forever_calls`      — histories of native module calls (interpreted from the regenerated
                                table of API-call scripts, any table) mixed with arbitrary scripts.
* `no_unlock_in_surface`      — decided on `Generated/C51.lean` (regenerated from the sources on every run):
                                every `SystemApi` trait method is a classified call; every function of the
                                metadata / royalty / role-assignment packages uses classified calls only
                                (no raw kernel write); in `system.rs` only the five handle-guarded
                                primitives write through a handle, only `field_lock` /
                                `key_value_entry_lock` set a lock status, only `field_write` /
                                `key_value_entry_set` / the open functions construct unlocked substates,
                                and the three open functions inspect the lock status and raise the
                                locked error.  A new writer shows up as a new row and breaks the proof.
* `lock_exports_lock`         — the regenerated scripts of metadata.lock, royalty.lock_royalty and
                                role_assignment.lock_owner_role really leave the cell locked
                                (e.g. `field_write` before `field_lock`, not after).

Caveat stated as an `example` below: within ONE write handle, `lock` followed by `write`/`set` leaves the
cell unlocked (`field_write` stores `new_unlocked_field`, `key_value_entry_set` stores `unlocked_entry`);
"locked" therefore means locked when the handle is closed.  Only the code that holds the write handle
(the owning blueprint, in the same call) can do that; no later call can.
-/
namespace Radix.LockCells

open Radix.Generated.C51

/-! ### the invariant, per call frame -/

/-- **C51 inside a call frame.**  For every sequence of system-API calls: a locked cell on which no write
    handle is open keeps its value and its lock, and no write handle on it can be obtained. -/
theorem locked_forever_in_frame (steps : List Step) (s s' : St) (a : Addr) (c : Cell)
    (hf : Frozen s a c) (h : runSteps s steps = .ok s') : Frozen s' a c :=
  runSteps_frozen steps hf h

/-- **C51, refusal.**  A locked cell cannot be opened for writing. -/
theorem write_on_locked_fails (s : St) (a : Addr) (hl : (s.cells a).locked = true) :
    (∀ s' o, stepApi s (.openC a true) ≠ .ok (s', o)) ∧
    (conflicts s.handles a true = false →
      stepApi s (.openC a true) = .error (if a.isField then .fieldLocked else .entryLocked)) := by
  constructor
  · intro s' o h
    simp only [stepApi] at h
    split at h
    · cases h
    · split at h
      · cases h
      · rename_i hlk; apply hlk; simp [hl]
  · intro hc
    simp [stepApi, hc, hl]

/-- … and without a write handle on it, every write-type call that succeeds hits another cell. -/
theorem write_calls_miss_locked (s s' : St) (a : Addr) (c : Cell) (st : Step) (o : Option (Option Nat))
    (hf : Frozen s a c) (h : stepApi s st = .ok (s', o)) : s'.cells a = c ∧ c.locked = true :=
  let r := step_frozen hf h
  ⟨r.1, r.2.1⟩

example : Frozen ⟨fun _ => ⟨some 5, true⟩, [⟨.field 0, false, true⟩]⟩ (.field 0) ⟨some 5, true⟩ := by
  refine ⟨rfl, rfl, ?_⟩
  intro h hh _ _
  simp at hh; subst hh; rfl

/-! ### transactions and histories -/

theorem tx_keeps_locked (s : St) (steps : List Step) (a : Addr) (hl : (s.cells a).locked = true) :
    (tx s steps).1.cells a = s.cells a := by
  unfold tx
  split
  · rename_i s' h
    have hf : Frozen { s with handles := [] } a (s.cells a) := ⟨rfl, hl, by intro h hh; simp at hh⟩
    exact (runSteps_frozen steps hf h).1
  · rfl

/-- **C51.**  Once a cell is locked in a committed state, then after every history of transactions —
    each an arbitrary program over the system API — its value and its lock are unchanged. -/
theorem locked_forever (txs : List (List Step)) : ∀ (s : St) (a : Addr), (s.cells a).locked = true →
    (runTxs s txs).cells a = s.cells a := by
  induction txs with
  | nil => intro s a _; rfl
  | cons t rest ih =>
    intro s a hl
    simp only [runTxs]
    have h1 := tx_keeps_locked s t a hl
    rw [ih (tx s t).1 a (by rw [h1]; exact hl), h1]

/-- in particular it stays locked -/
theorem locked_forever_flag (txs : List (List Step)) (s : St) (a : Addr) (hl : (s.cells a).locked = true) :
    ((runTxs s txs).cells a).locked = true := by
  rw [locked_forever txs s a hl]; exact hl

/-- non-vacuity: lock metadata entry 0, then try set / remove / lock again / write through a fresh handle -/
example :
    let s0 : St := ⟨fun _ => ⟨some 5, false⟩, []⟩
    let s1 := (tx s0 [.openC (.md 0) true, .kvLock 0, .kvClose 0]).1
    (s1.cells (.md 0)) = ⟨some 5, true⟩ ∧
    (tx s1 [.openC (.md 0) true, .kvSet 0 9, .kvClose 0]).2 = some .entryLocked ∧
    (tx s1 [.openC (.md 0) true, .kvRemove 0, .kvClose 0]).2 = some .entryLocked ∧
    (tx s1 [.openC (.md 0) false, .kvSet 0 9]).2 = some .notAKvWriteHandle ∧
    (runTxs s1 [[.openC (.md 0) true, .kvSet 0 9], [.openC (.md 1) true, .kvSet 0 9, .kvClose 0]]).cells (.md 0) = ⟨some 5, true⟩ := by
  decide

/-- the caveat: inside one write handle, `lock` then `write` ends unlocked — this is what the code does -/
example :
    let s0 : St := ⟨fun _ => ⟨some 5, false⟩, []⟩
    (tx s0 [.openC (.field 0) true, .fieldLock 0, .fieldWrite 0 7, .fieldClose 0]).1.cells (.field 0) = ⟨some 7, false⟩ ∧
    (tx s0 [.openC (.kv 0) true, .kvLock 0, .kvSet 0 7, .kvClose 0]).1.cells (.kv 0) = ⟨some 7, false⟩ ∧
    (tx s0 [.openC (.kv 0) true, .kvLock 0, .kvRemove 0, .kvClose 0]).1.cells (.kv 0) = ⟨none, true⟩ := by
  decide

/-! ### native module calls (interpreted from the regenerated table) -/

theorem nativeTx_keeps_locked (tbl : List (Nat × List Nat)) (s : St) (code : Nat) (a : Addr) (v : Nat)
    (b : Addr) (hl : (s.cells b).locked = true) : (nativeTx tbl s code a v).1.cells b = s.cells b := by
  unfold nativeTx
  split
  · rfl
  · split
    · rfl
    · exact tx_keeps_locked s _ b hl

/-- a call of a history: an arbitrary script, or a native module export with its target cell, the value
    it writes, and the verdict of the auth layer (any verdict) -/
inductive Call
  | script (steps : List Step)
  | native (code : Nat) (a : Addr) (v : Nat) (authorized : Bool)

def callTx (tbl : List (Nat × List Nat)) (s : St) : Call → St
  | .script steps => (tx s steps).1
  | .native code a v auth => if auth then (nativeTx tbl s code a v).1 else { s with handles := [] }

def runCalls (tbl : List (Nat × List Nat)) : St → List Call → St
  | s, [] => s
  | s, c :: rest => runCalls tbl (callTx tbl s c) rest

/-- **C51 for histories of module calls and scripts**, for every table of native scripts (in particular
    the one regenerated from the current sources), every auth verdict, every argument. -/
theorem locked_forever_calls (tbl : List (Nat × List Nat)) (calls : List Call) :
    ∀ (s : St) (b : Addr), (s.cells b).locked = true → (runCalls tbl s calls).cells b = s.cells b := by
  induction calls with
  | nil => intro s b _; rfl
  | cons c rest ih =>
    intro s b hl
    simp only [runCalls]
    have h1 : (callTx tbl s c).cells b = s.cells b := by
      cases c with
      | script steps => exact tx_keeps_locked s steps b hl
      | native code a v auth =>
        simp only [callTx]
        split
        · exact nativeTx_keeps_locked tbl s code a v b hl
        · rfl
    rw [ih _ b (by rw [h1]; exact hl), h1]

/-! ### the API surface, regenerated from the sources -/

def bit (m k : Nat) : Bool := (m / 2 ^ k) % 2 = 1

/-- every call code the model gives a meaning to -/
def classified (c : Nat) : Bool := (callSteps .owner 0 c).isSome

/-- the checks on the regenerated tables (see the module doc) -/
def surfaceOk : Bool :=
  -- 1. every SystemApi trait method is classified
  apiSurface.all classified
  -- 2. every function of the three native module packages that talks to the API is known and uses
  --    classified calls only
  && nativeRows.all (fun r => decide (r.1 < 900) && r.2.all classified)
  -- 3. system.rs: every function that writes / locks / constructs unlocked substates is known
  && sysFacts.all (fun r => decide (r.1 ≠ 999))
  -- 3a. writes through a handle: only the five primitives, each demanding a write handle; the private
  --     remove-and-close helper (5) and the kernel pass-through (22)
  && sysFacts.all (fun r => !bit r.2 0 || ((decide (r.1 ≤ 4) && bit r.2 3) || r.1 == 5 || r.1 == 22))
  -- 3b. the helper's callers open MUTABLE through a checked open function
  && [20, 21].all (fun c => sysFacts.any (fun r => r.1 == c && bit r.2 8))
  -- 3c. the three open functions open a substate, inspect the lock status and raise the locked error
  && [6, 7, 8].all (fun c => sysFacts.any (fun r => r.1 == c && bit r.2 1 && bit r.2 2 && bit r.2 6))
  -- 3d. unlocked substates are constructed only by field_write, key_value_entry_set and as the default
  --     of an absent entry in the open functions (26 = read-only load of a blueprint definition)
  && sysFacts.all (fun r => !bit r.2 4 || [0, 2, 6, 7, 8, 26].contains r.1)
  -- 3g. … and the read-only loader neither writes nor locks
  && sysFacts.all (fun r => r.1 != 26 || (!bit r.2 0 && !bit r.2 5 && !bit r.2 7))
  -- 3e. the lock status is set only by field_lock and key_value_entry_lock
  && sysFacts.all (fun r => !bit r.2 5 || [1, 4].contains r.1)
  -- 3f. the locked error is raised only by the open functions
  && sysFacts.all (fun r => !bit r.2 6 || [6, 7, 8].contains r.1)

/-- **C51, surface.**  Decided on the tables regenerated from the current sources. -/
theorem no_unlock_in_surface : surfaceOk = true := by decide

/-- every classified call, whatever its arguments, preserves a locked cell -/
theorem classified_call_keeps_locked (code : Nat) (a : Addr) (v : Nat) (steps : List Step)
    (_h : callSteps a v code = some steps) (s s' : St) (b : Addr) (c : Cell)
    (hf : Frozen s b c) (hr : runSteps s steps = .ok s') : Frozen s' b c :=
  runSteps_frozen steps hf hr

/-- the regenerated lock exports really lock: metadata.lock (1), royalty.lock_royalty (11),
    role_assignment.lock_owner_role (21), on a cell with and without a value -/
theorem lock_exports_lock :
    let s0 : St := ⟨fun a => match a with | .md 1 => ⟨none, false⟩ | _ => ⟨some 5, false⟩, []⟩
    (nativeTx nativeRows s0 1 (.md 0) 0).1.cells (.md 0) = ⟨some 5, true⟩ ∧
    (nativeTx nativeRows s0 1 (.md 1) 0).1.cells (.md 1) = ⟨none, true⟩ ∧
    (nativeTx nativeRows s0 11 (.roy 0) 0).1.cells (.roy 0) = ⟨some 5, true⟩ ∧
    (nativeTx nativeRows s0 21 .owner 4).1.cells .owner = ⟨some 4, true⟩ ∧
    -- and the setters / removers are refused afterwards
    (nativeTx nativeRows (nativeTx nativeRows s0 1 (.md 0) 0).1 0 (.md 0) 9).2 = some .entryLocked ∧
    (nativeTx nativeRows (nativeTx nativeRows s0 1 (.md 0) 0).1 2 (.md 0) 0).2 = some .entryLocked ∧
    (nativeTx nativeRows (nativeTx nativeRows s0 11 (.roy 0) 0).1 10 (.roy 0) 9).2 = some .entryLocked ∧
    (nativeTx nativeRows (nativeTx nativeRows s0 21 .owner 4).1 20 .owner 1).2 = some .fieldLocked := by
  decide

end Radix.LockCells
