/-
C21 — SBOR decoding is total, bounded and depth-consistent.

Property theorems only. Model: `RadixModel/Model/Sbor.lean`; lemmas: `Lemmas/SborDepth.lean`
(depth of encoder/decoder), `Lemmas/SborTraverse.lean` (the `VecTraverser` state machine simulates
the recursive decoder; termination measure).

Totality: `decodePayload`, `encodePayload` and the traverser step function are total functions with
explicit error outcomes; `traversal_terminates` shows the event loop always stops within
`3·|input| + 3` events. (Panics and real allocation are facts about the compiled code: they are
searched for by the c21 oracle under `catch_unwind` with a counting allocator.)

Depth: `Value.depth` counts every value as one level. For every limit `d ≥ 1` encoder, decoder and
traverser accept exactly the values of depth ≤ `d` and reject the others for depth
(`depth_agreement`), and decoder and traverser agree on *every* byte string (`acceptance_agreement`).
For `d = 0` the decoder and the encoder reject everything while the traverser accepts childless
values: the recorded finding `depth0-traverser-accepts-childless-value`, stated here as
`depth0_decoder_rejects_all`, `depth0_encoder_rejects_all`, `depth0_traverser_accepts_childless`.
-/
import RadixModel.Model.Sbor
import RadixModel.Lemmas.Sbor
import RadixModel.Lemmas.SborFlavours
import RadixModel.Lemmas.SborDepth
import RadixModel.Lemmas.SborTraverse

set_option linter.unusedSectionVars false

namespace Radix.Sbor
open Radix.Generated

/-- `Result::is_ok` -/
def isOk {ε α : Type} : Except ε α → Bool
  | .ok _ => true
  | .error _ => false

section generic
variable {X Y : Type} [DecidableEq X] (F : Flavour X Y) (wfc : Y → Prop)

/-! ## Encoder and decoder count depth the same way -/

/-- The encoder never accepts a value deeper than its limit. -/
theorem encoder_depth (d : Nat) (v : Value X Y) (bs : Bytes) (h : encodePayload F d v = .ok bs) :
    v.depth ≤ d := by
  simp only [encodePayload, encValue, encField] at h
  split at h
  · simp at h
  · rename_i b hb
    split at hb
    · simp at hb
    · rename_i body hbody
      exact encBody_depth F d d v body hbody

/-- The decoder never produces a value deeper than its limit. -/
theorem decoder_depth (hF : F.Lawful wfc) (d : Nat) (bs : Bytes) (v : Value X Y)
    (h : decodePayload F d bs = .ok v) : v.depth ≤ d := by
  simp only [decodePayload] at h
  split at h
  · simp at h
  · split at h
    · simp at h
    · split at h
      · simp at h
      · rename_i v' rest hv
        split at h
        · simp at h
        · simp at h; subst h
          simp only [decValue, decField] at hv
          split at hv
          · simp at hv
          · exact decBody_depth F wfc hF d d _ _ _ _ hv

/-- **Encoder depth rule.** A value that is encodable at all (some limit `D`) is encoded with limit
`d` — to the same bytes — exactly when its depth is at most `d`; otherwise the encoder reports
`MaxDepthExceeded(d)` and nothing else. -/
theorem encoder_depth_iff (D d : Nat) (v : Value X Y) (bs : Bytes) (h : encodePayload F D v = .ok bs) :
    (v.depth ≤ d → encodePayload F d v = .ok bs) ∧
    (d < v.depth → encodePayload F d v = .error (.maxDepthExceeded d)) := by
  simp only [encodePayload, encValue, encField] at h
  split at h
  · simp at h
  · rename_i b hb
    split at hb
    · simp at hb
    · rename_i body hbody
      simp at hb h
      subst hb; subst h
      constructor
      · intro hd
        simp [encodePayload, encValue, encField, encBody_of_depth F D d D v body d hbody hd]
      · intro hd
        simp [encodePayload, encValue, encField, encBody_depth_fail F D d D v body d hbody hd]

/-- **Decoder depth rule.** The encoding of a well-formed value is decoded with limit `d` exactly when
the value's depth is at most `d`; otherwise the decoder reports `MaxDepthExceeded(d)` and nothing else. -/
theorem decoder_depth_iff (hF : F.Lawful wfc) (D d : Nat) (v : Value X Y) (bs : Bytes)
    (hwf : v.WF F.utf8 wfc) (h : encodePayload F D v = .ok bs) :
    (v.depth ≤ d → decodePayload F d bs = .ok v) ∧
    (d < v.depth → ∃ k, decodePayload F d bs = .error (.maxDepthExceeded d, k)) := by
  simp only [encodePayload, encValue, encField] at h
  split at h
  · simp at h
  · rename_i b hb
    split at hb
    · simp at hb
    · rename_i body hbody
      simp at hb h
      subst hb; subst h
      constructor
      · intro hd
        have h1 := encBody_of_depth F D d D v body d hbody hd
        have := decBody_encBody F wfc hF d d d v body [] hwf h1
        simp only [List.append_nil] at this
        simp [decodePayload, readByte, decValue, decField, readValueKind_toU8 F.kc hF.kinds, this]
      · intro hd
        obtain ⟨k, hk⟩ := decBody_depth_fail F wfc hF D d D v body [] d hwf hbody hd
        simp only [List.append_nil] at hk
        exact ⟨k, by simp [decodePayload, readByte, decValue, decField, readValueKind_toU8 F.kc hF.kinds, hk]⟩

/-! ## Decoder and traverser accept the same byte strings (limit ≥ 1) -/

/-- **Termination / fuel bound.** From every start mode, for every input, limit and end-check flag,
the traverser's event loop stops with `End` or `DecodeError` within `3·|input| + 3` events. -/
theorem traversal_terminates (hc : F.Consumes) (start : ExpectedStart X) (d : Nat) (exact : Bool) (bs : Bytes) :
    (traverse F start d exact bs).2 ≠ none := by
  unfold traverse
  apply tRun_terminates F hc
  · cases start <;> rfl
  · cases start <;> simp [tInit, TState.measure, Action.weight] <;> omega

/-- **Acceptance agreement.** For every limit `d ≥ 1` and every byte string, the payload traverser
ends with `End` exactly when `decode_payload` accepts, and with a `DecodeError` event otherwise. -/
theorem acceptance_agreement (hc : F.Consumes) (d : Nat) (hd : 1 ≤ d) (bs : Bytes) :
    (traversePayload F d bs).2 = some (isOk (decodePayload F d bs)) := by
  have hterm := traversal_terminates F hc (.payloadPrefix F.payloadPrefix) d true bs
  have hsim := payload_sim F d hd bs
  simp only [] at hsim
  unfold traversePayload traverse at *
  generalize hc' : ({ maxDepth := d, checkExactEnd := true, total := bs.length } : TCfg) = c at *
  have key : ∀ b : Bool, (∃ s', Steps F c (tInit (.payloadPrefix F.payloadPrefix) bs) s' ∧ s'.done = some b) →
      (tRun F c (3 * bs.length + 3) (tInit (.payloadPrefix F.payloadPrefix) bs)).2 = some b := by
    intro b ⟨s', hs, hdone⟩
    obtain ⟨n, hn⟩ := tRun_of_steps F c _ s' b hs hdone rfl
    cases hr : (tRun F c (3 * bs.length + 3) (tInit (.payloadPrefix F.payloadPrefix) bs)).2 with
    | none => exact absurd hr hterm
    | some b' =>
      have h1 := tRun_mono F c (3 * bs.length + 3) _ b' n hr
      have h2 := hn (3 * bs.length + 3 + n) (by omega)
      rw [h1, hr] at h2
      exact h2
  cases hdec : decodePayload F d bs with
  | ok v => exact key true (hsim.1 v hdec)
  | error e => exact key false (hsim.2 e hdec)

/-- **Depth agreement.** For a well-formed value `v` with encoding `bs` and every limit `d ≥ 1`, the
encoder (on `v`), the decoder (on `bs`) and the traverser (on `bs`) accept exactly when
`depth v ≤ d`; so one rejects for depth exactly when the others do. -/
theorem depth_agreement (hF : F.Lawful wfc) (hc : F.Consumes) (D d : Nat) (hd : 1 ≤ d) (v : Value X Y) (bs : Bytes)
    (hwf : v.WF F.utf8 wfc) (h : encodePayload F D v = .ok bs) :
    (isOk (encodePayload F d v) = decide (v.depth ≤ d)) ∧
    (isOk (decodePayload F d bs) = decide (v.depth ≤ d)) ∧
    ((traversePayload F d bs).2 = some (decide (v.depth ≤ d))) := by
  have he := encoder_depth_iff F D d v bs h
  have hdc := decoder_depth_iff F wfc hF D d v bs hwf h
  have ha := acceptance_agreement F hc d hd bs
  by_cases hdv : v.depth ≤ d
  · have e1 := he.1 hdv
    have e2 := hdc.1 hdv
    simp [isOk, e1, e2, ha, hdv]
  · have e1 := he.2 (by omega)
    obtain ⟨k, e2⟩ := hdc.2 (by omega)
    simp [isOk, e1, e2, ha, hdv]

/-- **Size bound.** A decoded value has fewer nodes than the payload has bytes (every node costs at
least one input byte; two more for the prefix and the root kind): decoding cannot blow up. -/
theorem decoded_size_bounded (hc : F.Consumes) (d : Nat) (bs : Bytes) (v : Value X Y)
    (h : decodePayload F d bs = .ok v) : v.nodes + 2 ≤ bs.length := by
  simp only [decodePayload] at h
  cases hb : readByte bs with
  | error e => simp [hb] at h
  | ok p =>
    obtain ⟨b, t⟩ := p
    simp only [hb] at h
    have h0 := readByte_shrinks _ _ _ hb
    split at h
    · simp at h
    · simp only [decValue, decField] at h
      cases hk : readValueKind F.kc t with
      | error e => simp [hk] at h
      | ok q =>
        obtain ⟨vk, t'⟩ := q
        simp only [hk] at h
        have h1 := readValueKind_shrinks _ _ _ _ hk
        cases hd : decBody F d d vk t' with
        | error e => simp [hd] at h
        | ok r =>
          obtain ⟨v', rest⟩ := r
          simp only [hd] at h
          have h2 := decBody_nodes F hc d d _ _ _ _ hd
          split at h
          · simp at h
          · simp at h; subst h; omega

/-! ## The limit 0 (recorded finding `depth0-traverser-accepts-childless-value`) -/

/-- With `max_depth = 0` the decoder rejects every byte string. -/
theorem depth0_decoder_rejects_all (bs : Bytes) : isOk (decodePayload F 0 bs) = false := by
  simp only [decodePayload]
  cases readByte bs with
  | error e => rfl
  | ok p =>
    obtain ⟨b, t⟩ := p
    simp only []
    split
    · rfl
    · simp only [decValue, decField]
      cases readValueKind F.kc t with
      | error e => rfl
      | ok q => simp [decBody, isOk]

/-- With `max_depth = 0` the encoder rejects every value. -/
theorem depth0_encoder_rejects_all (v : Value X Y) : encodePayload F 0 v = .error (.maxDepthExceeded 0) := by
  simp [encodePayload, encValue, encField, encBody]

end generic

/-- …but the traverser with `max_depth = 0` accepts childless values (here: the empty tuple and a
`bool`, basic flavour; the same holds for the other flavours): it checks the depth only when it
pushes a non-empty container. -/
theorem depth0_traverser_accepts_childless :
    (traversePayload basic 0 [0x5b, 0x21, 0x00]).2 = some true ∧
    (traversePayload basic 0 [0x5b, 0x01, 0x01]).2 = some true ∧
    (traversePayload scrypto 0 [0x5c, 0x21, 0x00]).2 = some true ∧
    (traversePayload manifest 0 [0x4d, 0x21, 0x00]).2 = some true ∧
    isOk (decodePayload basic 0 [0x5b, 0x21, 0x00]) = false := by
  refine ⟨by rfl, by rfl, by rfl, by rfl, by rfl⟩

/-! ## The three real flavours -/

theorem basic_acceptance_agreement (d : Nat) (hd : 1 ≤ d) (bs : Bytes) :
    (traversePayload basic d bs).2 = some (isOk (decodePayload basic d bs)) :=
  acceptance_agreement basic basic_consumes d hd bs

theorem scrypto_acceptance_agreement (d : Nat) (hd : 1 ≤ d) (bs : Bytes) :
    (traversePayload scrypto d bs).2 = some (isOk (decodePayload scrypto d bs)) :=
  acceptance_agreement scrypto scrypto_consumes d hd bs

theorem manifest_acceptance_agreement (d : Nat) (hd : 1 ≤ d) (bs : Bytes) :
    (traversePayload manifest d bs).2 = some (isOk (decodePayload manifest d bs)) :=
  acceptance_agreement manifest manifest_consumes d hd bs

/-- The default limits of the three flavours (regenerated from the code) are ≥ 1, so the agreement
theorems apply to `*_decode` / `*_payload_traverser` as shipped. -/
theorem default_limits_positive :
    1 ≤ SborDepth.BASIC_SBOR_V1_MAX_DEPTH ∧ 1 ≤ SborDepth.SCRYPTO_SBOR_V1_MAX_DEPTH ∧
    1 ≤ SborDepth.MANIFEST_SBOR_V1_MAX_DEPTH := by decide

theorem scrypto_depth_agreement (D d : Nat) (hd : 1 ≤ d) (v : Value ScryptoKind ScryptoCustom) (bs : Bytes)
    (hwf : v.WF utf8Valid ScryptoCustom.WF) (h : encodePayload scrypto D v = .ok bs) :
    (isOk (encodePayload scrypto d v) = decide (v.depth ≤ d)) ∧
    (isOk (decodePayload scrypto d bs) = decide (v.depth ≤ d)) ∧
    ((traversePayload scrypto d bs).2 = some (decide (v.depth ≤ d))) :=
  depth_agreement scrypto _ scrypto_lawful scrypto_consumes D d hd v bs hwf h

/-- `Vec::with_capacity(if length <= 1024 { length } else { 1024 })`: what a container header can make
the decoder reserve before any child is read is bounded by a constant (and by the declared length). -/
theorem prealloc_bounded (length : Nat) : prealloc length ≤ 1024 ∧ prealloc length ≤ length := by
  unfold prealloc; split <;> omega

/-! ## Non-vacuity -/

-- depth of a nested value; empty containers count one level
example : (Value.tuple [.array (.int .u8) [], .enum 0 [.tuple []]] : Value Empty Empty).depth = 3 := by decide
example : (Value.tuple [.array (.int .u8) [], .enum 0 [.tuple []]] : Value Empty Empty).nodes = 4 := by decide
-- a value of depth 3: accepted with limit 3, rejected for depth with limit 2, by all three
example : encodePayload basic 3 (.tuple [.tuple [.bool true]]) = .ok [0x5b, 0x21, 0x01, 0x21, 0x01, 0x01, 0x01] := by rfl
example : encodePayload basic 2 (.tuple [.tuple [.bool true]]) = .error (.maxDepthExceeded 2) := by rfl
example : decodePayload basic 2 [0x5b, 0x21, 0x01, 0x21, 0x01, 0x01, 0x01] = .error (.maxDepthExceeded 2, 1) := by rfl
example : (traversePayload basic 2 [0x5b, 0x21, 0x01, 0x21, 0x01, 0x01, 0x01]).2 = some false := by rfl
example : (traversePayload basic 3 [0x5b, 0x21, 0x01, 0x21, 0x01, 0x01, 0x01]).2 = some true := by rfl
-- decoder and traverser may name different errors for the same rejected input (only acceptance agrees)
example : decodePayload basic 1 [0x5b, 0x21, 0x01] = .error (.bufferUnderflow 1 0, 0) := by rfl
example : (traversePayload basic 1 [0x5b, 0x21, 0x01]).1.map (fun e => e.stop) = [3, 3] := by rfl

end Radix.Sbor
