/-
C27 — Decimal text parsing and printing are exact inverses.

  "Printing any Decimal or PreciseDecimal and parsing the text gives back the same value; parsing
   accepts exactly optionally-signed decimal numerals with at most the type's number of fractional
   digits that fit in range, and yields their exact value."   (every value, every input string)

Model: RadixModel/Model/DecimalText.lean (`fromStr`, `toStr`, the bnum integer parser `parseInt` with its
19-digit chunking). Grammar and exact value: `Denotes scale s v` (Lemmas/DecimalText.lean):
`s = [+-]? ip ('.' f)?` with `ip`, `f` non-empty ASCII digit strings, `|f| ≤ scale`, and
`v = ±(val ip · 10^scale + val f · 10^(scale − |f|))`.

All theorems are proved for arbitrary `(bits, scale)` under the three numeric side conditions `Side`,
and instantiated for the constants of the compiled tree (`Generated/DecimalText.lean`), so a change of
`SCALE`/`BITS` re-checks the side conditions.

Only hypothesis on the input: the text is shorter than 2^32 bytes (the code computes
`SCALE.checked_sub(v[1].len() as u32)`, i.e. the fraction length modulo 2^32).
-/
import RadixModel.Lemmas.DecimalText

namespace Radix.DecimalText

/-- numeric side conditions on `(bits, scale)`: the first 19-digit chunk fits the unsigned type, `10^scale`
fits the signed type, and `scale` is a `u32`. -/
def Side (bits scale : Nat) : Prop :=
  10 ^ 19 ≤ 2 ^ bits ∧ 10 ^ scale < 2 ^ (bits - 1) ∧ scale < 2 ^ 32

theorem side_dec : Side DEC_BITS DEC_SCALE := by
  unfold Side DEC_BITS DEC_SCALE Radix.Generated.DecimalText.DEC_BITS Radix.Generated.DecimalText.DEC_SCALE
  norm_num

theorem side_pdec : Side PDEC_BITS PDEC_SCALE := by
  unfold Side PDEC_BITS PDEC_SCALE Radix.Generated.DecimalText.PDEC_BITS Radix.Generated.DecimalText.PDEC_SCALE
  norm_num

/-! ## parsing accepts exactly the in-range numerals and yields their exact value -/

/-- **accepts_iff_numeral_in_range** (+ value): `from_str(s) = Ok(v)` iff `s` is an optionally signed
decimal numeral with at most `scale` fractional digits whose exact value is `v` subunits, and `v` is in
the range of the type. -/
theorem accepts_iff_numeral_in_range {bits scale : Nat} (h : Side bits scale) (s : List Nat) (v : Int)
    (hlen : s.length < 2 ^ 32) :
    fromStr bits scale s = .ok v ↔ Denotes scale s v ∧ InRange bits v :=
  ⟨fun hok => fromStr_sound bits scale h.1 s v hlen hok,
   fun hd => fromStr_complete bits scale h.1 h.2.1 h.2.2 s v hd.1 hd.2⟩

/-- the numeral reading of a text is unambiguous: a text denotes at most one value -/
theorem denotes_unique {scale : Nat} (hs : scale < 2 ^ 32) (s : List Nat) (v w : Int)
    (hv : Denotes scale s v) (hw : Denotes scale s w) : v = w := by
  -- parse `s` with a type wide enough for both values
  let bits := v.natAbs + w.natAbs + 4 * scale + 70
  have hbig : ∀ k : Nat, k < 2 ^ k := fun k => Nat.lt_two_pow_self
  have h1 : 10 ^ 19 ≤ 2 ^ bits := by
    have : 2 ^ 64 ≤ 2 ^ bits := Nat.pow_le_pow_right (by norm_num) (by omega)
    have : 10 ^ 19 ≤ 2 ^ 64 := by norm_num
    omega
  have h2 : 10 ^ scale < 2 ^ (bits - 1) := by
    have a : 10 ^ scale ≤ 16 ^ scale := Nat.pow_le_pow_left (by norm_num) _
    have b : 16 ^ scale = 2 ^ (4 * scale) := by
      rw [show (16 : Nat) = 2 ^ 4 by norm_num, ← pow_mul]
    have c : 2 ^ (4 * scale) < 2 ^ (bits - 1) := Nat.pow_lt_pow_right (by norm_num) (by omega)
    omega
  have hr : ∀ x : Int, x.natAbs ≤ v.natAbs + w.natAbs → InRange bits x := by
    intro x hx
    have a : x.natAbs < 2 ^ x.natAbs := hbig _
    have b : 2 ^ x.natAbs ≤ 2 ^ (bits - 1) := Nat.pow_le_pow_right (by norm_num) (by omega)
    have c : (x.natAbs : Int) < (2 : Int) ^ (bits - 1) := by
      have : x.natAbs < 2 ^ (bits - 1) := by omega
      exact_mod_cast this
    unfold InRange
    constructor <;> omega
  have e1 := fromStr_complete bits scale h1 h2 hs s v hv (hr v (by omega))
  have e2 := fromStr_complete bits scale h1 h2 hs s w hw (hr w (by omega))
  rw [e1] at e2
  cases e2; rfl

/-- **value_exact**: an accepted text is a numeral `sign ip . f`, and the result is its exact value:
`v · 10^|f| = ±(val ip · 10^|f| + val f) · 10^scale` (no rounding, no truncation). -/
theorem value_exact {bits scale : Nat} (h : Side bits scale) (s : List Nat) (v : Int)
    (hlen : s.length < 2 ^ 32) (hok : fromStr bits scale s = .ok v) :
    ∃ sign ip f, IsSign sign ∧ ip ≠ [] ∧ AllDigits ip ∧ AllDigits f ∧ f.length ≤ scale ∧
      ((f = [] ∧ s = sign ++ ip) ∨ (f ≠ [] ∧ s = sign ++ ip ++ 46 :: f)) ∧
      v * (10 : Int) ^ f.length =
        (if sign = [45] then -1 else 1) * ((dval ip : Int) * (10 : Int) ^ f.length + (dval f : Int)) *
          (10 : Int) ^ scale := by
  obtain ⟨⟨sign, ip, f, a1, a2, a3, a4, a5, a6, rfl⟩, _⟩ := fromStr_sound bits scale h.1 s v hlen hok
  refine ⟨sign, ip, f, a1, a2, a3, a4, a5, a6, ?_⟩
  unfold numVal
  have : (10 : Int) ^ scale = (10 : Int) ^ (scale - f.length) * (10 : Int) ^ f.length := by
    rw [← pow_add]; congr 1; omega
  rw [this]; ring

/-- every in-range numeral is accepted with its exact value (the other half of `accepts_iff…`, stated
directly on the grammar) -/
theorem numeral_accepted {bits scale : Nat} (h : Side bits scale) (sign ip f : List Nat)
    (hsign : IsSign sign) (hip : ip ≠ []) (hipd : AllDigits ip) (hfd : AllDigits f) (hfl : f.length ≤ scale)
    (hr : InRange bits (numVal scale sign ip f)) :
    fromStr bits scale (if f = [] then sign ++ ip else sign ++ ip ++ 46 :: f) =
      .ok (numVal scale sign ip f) := by
  apply fromStr_complete bits scale h.1 h.2.1 h.2.2 _ _ _ hr
  refine ⟨sign, ip, f, hsign, hip, hipd, hfd, hfl, ?_, rfl⟩
  by_cases hf : f = []
  · exact Or.inl ⟨hf, by rw [if_pos hf]⟩
  · exact Or.inr ⟨hf, by rw [if_neg hf]⟩

/-- **parse_never_panics**: none of the `expect` / `unreachable!` / indexing panics of `from_str` can
fire; every text is either accepted or rejected with an error. -/
theorem parse_never_panics {bits scale : Nat} (h : Side bits scale) (s : List Nat)
    (hlen : s.length < 2 ^ 32) : fromStr bits scale s ≠ .panic :=
  fromStr_no_panic bits scale h.1 h.2.1 s hlen

/-- **rejects_iff**: `from_str(s)` is an `Err` exactly when `s` is not an in-range numeral. -/
theorem rejects_iff_not_numeral {bits scale : Nat} (h : Side bits scale) (s : List Nat)
    (hlen : s.length < 2 ^ 32) :
    (∃ e, fromStr bits scale s = .err e) ↔ ¬ ∃ v, Denotes scale s v ∧ InRange bits v := by
  constructor
  · rintro ⟨e, he⟩ ⟨v, hv⟩
    rw [(accepts_iff_numeral_in_range h s v hlen).mpr hv] at he
    cases he
  · intro hn
    cases hr : fromStr bits scale s with
    | ok v => exact absurd ⟨v, (accepts_iff_numeral_in_range h s v hlen).mp hr⟩ hn
    | err e => exact ⟨e, rfl⟩
    | panic => exact absurd hr (parse_never_panics h s hlen)

/-! ## printing then parsing is the identity -/

/-- the printed text of any value is a numeral denoting exactly that value -/
theorem print_denotes (scale : Nat) (v : Int) : Denotes scale (toStr scale v) v :=
  toStr_denotes scale v

/-- **parse_print**: `from_str(to_string(d)) = Ok(d)` for every value of the type. -/
theorem parse_print {bits scale : Nat} (h : Side bits scale) (v : Int) (hv : InRange bits v) :
    fromStr bits scale (toStr scale v) = .ok v :=
  fromStr_complete bits scale h.1 h.2.1 h.2.2 _ v (toStr_denotes scale v) hv

/-- printing is injective on the type (a consequence of `parse_print`) -/
theorem print_injective {bits scale : Nat} (h : Side bits scale) (v w : Int)
    (hv : InRange bits v) (hw : InRange bits w) (e : toStr scale v = toStr scale w) : v = w := by
  have a := parse_print h v hv
  have b := parse_print h w hw
  rw [e, b] at a
  cases a; rfl

/-! ## the two instances -/

theorem dec_accepts_iff (s : List Nat) (v : Int) (hlen : s.length < 2 ^ 32) :
    decFromStr s = .ok v ↔ Denotes DEC_SCALE s v ∧ InRange DEC_BITS v :=
  accepts_iff_numeral_in_range side_dec s v hlen

theorem dec_parse_print (v : Int) (hv : InRange DEC_BITS v) : decFromStr (decToStr v) = .ok v :=
  parse_print side_dec v hv

theorem pdec_accepts_iff (s : List Nat) (v : Int) (hlen : s.length < 2 ^ 32) :
    pdecFromStr s = .ok v ↔ Denotes PDEC_SCALE s v ∧ InRange PDEC_BITS v :=
  accepts_iff_numeral_in_range side_pdec s v hlen

theorem pdec_parse_print (v : Int) (hv : InRange PDEC_BITS v) : pdecFromStr (pdecToStr v) = .ok v :=
  parse_print side_pdec v hv

/-! ## non-vacuity -/

-- "1.5" denotes 1.5 (18 places) and is in range
example : Denotes 18 [49, 46, 53] 1500000000000000000 :=
  ⟨[], [49], [53], Or.inl rfl, by simp, by decide, by decide, by decide, Or.inr ⟨by simp, rfl⟩,
    by decide +kernel⟩
-- "-0.5": the sign of a value in (-1, 0) lives in the text only
example : Denotes 18 [45, 48, 46, 53] (-500000000000000000) :=
  ⟨[45], [48], [53], Or.inr (Or.inr rfl), by simp, by decide, by decide, by decide,
    Or.inr ⟨by simp, rfl⟩, by decide +kernel⟩
example : InRange 192 1500000000000000000 := by decide
example : decFromStr [49, 46, 53] = .ok 1500000000000000000 := by decide +kernel
example : decFromStr [45, 48, 46, 53] = .ok (-500000000000000000) := by decide +kernel
-- the repaired defect: "1.-5" is rejected
example : decFromStr [49, 46, 45, 53] = .err .invalidDigit := by decide +kernel
example : decToStr (-100000000000000000) = [45, 48, 46, 49] := by decide +kernel

end Radix.DecimalText
