/-
C36 — Static manifest validation matches the bucket/proof lifecycle.

Property theorems only.  Model: `RadixModel/Model/StaticInterp.lean` (the static interpreter over the
effect stream + the reference run-time id tables of the transaction processor); helper lemmas:
`RadixModel/Lemmas/StaticInterp.lean`; constants of the compiled tree: `Generated/C36.lean`.
-/
import RadixModel.Model.StaticInterp
import RadixModel.Lemmas.StaticInterp
import RadixModel.Generated.C36

namespace Radix.StaticInterp

/-- **accepted_never_unknown_id** (all rulesets, all manifest kinds, all effect lists).
If the static interpreter accepts, the run-time id tables processed over the same effects either
run to the end — staying in lock-step with the interpreter (`Rel`: same counters; an id is in the
run-time table exactly when the interpreter has it created-and-not-consumed) — or stop at one of
the three id errors a *weakened* ruleset lets through (`AllowedAt`): a named address as call target
without `validate_dynamic_address_in_command_part`, a blob without `validate_blob_refs`, the bucket
of ASSERT_BUCKET_CONTENTS without `validate_resource_assertions`.  In particular never
`ProofNotFound`, never `AddressReservationNotFound`, and never `BucketNotFound` from a take / return /
burn / create-proof / pass-as-argument. -/
theorem accepted_never_unknown_id (r : Rules) (c : Ctx) (effects : List Effect) (s : St)
    (h : interp r c effects = .ok s) :
    (∃ t, (RT.init c).run effects = .ok t ∧ Rel s t) ∨
    (∃ err e, (RT.init c).run effects = .error err ∧ e ∈ effects ∧ AllowedAt r e err) := by
  unfold interp at h
  cases hp : preamble r c with
  | error e => rw [hp] at h; cases h
  | ok s0 =>
    rw [hp] at h
    dsimp only at h
    cases hr : runFrom r c 0 s0 effects with
    | error e => rw [hr] at h; cases h
    | ok s1 =>
      rw [hr] at h
      dsimp only at h
      have hs : s = s1 := by
        cases hv : verifyFinal c effects with
        | error e => rw [hv] at h; cases h
        | ok u =>
          rw [hv] at h; dsimp only at h
          cases hw : wrapUp r s1 with
          | error e => rw [hw] at h; cases h
          | ok u => rw [hw] at h; injection h with h; exact h.symm
      subst hs
      exact run_sim effects 0 (preamble_rel hp) hr

/-- non-vacuity: an accepted manifest with a bucket, a proof of it, a clone, and their consumption -/
example : ∃ s, interp Rules.all ⟨false, 0, 0, [], 24⟩
    [.createBucket true, .createProof (some 0), .cloneProof 0, .dropManyProofs true,
     .invocation (.method none) 2 [.bucket 0]] = .ok s := ⟨_, rfl⟩

/-- **Production rulesets**: with the three id-related validations on, an accepted manifest runs
through the run-time id tables without any unknown / consumed id. -/
theorem accepted_runs_clean (r : Rules) (c : Ctx) (effects : List Effect) (s : St)
    (hd : r.dynAddr = true) (hb : r.blobRefs = true) (ha : r.resAssert = true)
    (h : interp r c effects = .ok s) : ∃ t, (RT.init c).run effects = .ok t ∧ Rel s t := by
  rcases accepted_never_unknown_id r c effects s h with k | ⟨err, e, _, _, k⟩
  · exact k
  · cases err <;> simp [AllowedAt, hd, hb, ha] at k

def Rules.ofList : List Bool → Option Rules
  | [a, b, c, d, e, f] => some ⟨a, b, c, d, e, f⟩
  | _ => none

/-- The rulesets of the compiled tree (`Generated/C36.lean`, regenerated on every check) are the
ones modelled, and `all()` / `cuttlefish()` switch the three id-related validations on. If a
ruleset of the code is weakened this theorem stops compiling. -/
theorem generated_rulesets :
    Rules.ofList Radix.Generated.C36.RULESET_ALL = some Rules.all ∧
    Rules.ofList Radix.Generated.C36.RULESET_CUTTLEFISH = some Rules.cuttlefish ∧
    Rules.ofList Radix.Generated.C36.RULESET_BABYLON_EQUIVALENT = some Rules.babylon ∧
    (Rules.all.dynAddr && Rules.all.blobRefs && Rules.all.resAssert && Rules.all.proofLock && Rules.all.noDangling) = true ∧
    (Rules.cuttlefish.dynAddr && Rules.cuttlefish.blobRefs && Rules.cuttlefish.resAssert && Rules.cuttlefish.proofLock && Rules.cuttlefish.noDangling) = true ∧
    Rules.babylon.proofLock = true := by
  decide

/-- Under `babylon_equivalent` (V1 manifests: no ASSERT_BUCKET_CONTENTS instruction exists) the only
run-time id errors left for an accepted manifest are the named-address target and the blob. -/
theorem accepted_babylon (c : Ctx) (effects : List Effect) (s : St)
    (hv1 : ∀ e ∈ effects, e.isBucketAssertion = false)
    (h : interp Rules.babylon c effects = .ok s) :
    (∃ t, (RT.init c).run effects = .ok t ∧ Rel s t) ∨
    (∃ x, (RT.init c).run effects = .error (.addressNotFound x)) ∨
    (∃ x, (RT.init c).run effects = .error (.blobNotFound x)) := by
  rcases accepted_never_unknown_id _ c effects s h with k | ⟨err, e, k1, k2, k3⟩
  · exact .inl k
  · cases err with
    | addressNotFound x => exact .inr (.inl ⟨x, k1⟩)
    | blobNotFound x => exact .inr (.inr ⟨x, k1⟩)
    | bucketNotFound x => simp [AllowedAt, hv1 e k2] at k3
    | proofNotFound x => simp [AllowedAt] at k3
    | reservationNotFound x => simp [AllowedAt] at k3

/-- **accepted_implies_lifecycle_ok** — the lock-step relation read at the moment of use: whenever
the interpreter lets an instruction consume bucket `b` (resp. proof `p`, reservation `x`) from a
state related to the run-time tables, that id is present in the run-time table (created earlier,
not yet consumed) and is absent afterwards (so nothing is consumed twice). -/
theorem accepted_implies_lifecycle_ok (r : Rules) (s s' : St) (t : RT) (hrel : Rel s t) :
    (∀ b, consumeBucket r s b = .ok s' →
        t.liveB b = true ∧ ∃ t', t.takeBucket b = .ok t' ∧ t'.liveB b = false ∧ Rel s' t') ∧
    (∀ p, consumeProof s p = .ok s' →
        t.liveP p = true ∧ ∃ t', t.takeProof p = .ok t' ∧ t'.liveP p = false ∧ Rel s' t') ∧
    (∀ x, consumeReservation s x = .ok s' → t.liveR x = true ∧ s'.rCons x = true) := by
  refine ⟨?_, ?_, ?_⟩
  · intro b hc
    obtain ⟨hb, hcons, _, _⟩ := consumeBucket_ok hc
    obtain ⟨t', k1, k2⟩ := rel_consumeBucket hrel hc
    have hl := hrel.getBucket hb hcons
    refine ⟨hl, t', k1, ?_, k2⟩
    simp only [RT.takeBucket, hl, if_true] at k1
    injection k1 with k1; subst k1; simp
  · intro p hc
    obtain ⟨hp, hcons, _⟩ := consumeProof_ok hc
    obtain ⟨t', k1, k2⟩ := rel_consumeProof hrel hc
    have hl : t.liveP p = true := by rw [hrel.liveP]; simp [hp, hcons]
    refine ⟨hl, t', k1, ?_, k2⟩
    simp only [RT.takeProof, hl, if_true] at k1
    injection k1 with k1; subst k1; simp
  · intro x hc
    obtain ⟨k1, _⟩ := rel_consumeReservation hrel hc
    obtain ⟨_, _, rfl⟩ := consumeReservation_ok hc
    exact ⟨k1, by simp⟩

/-- a consumed bucket / proof / reservation is rejected on any further use -/
theorem use_after_consume_rejected (r : Rules) (s : St) :
    (∀ b, s.bCons b = true → ∀ s', consumeBucket r s b ≠ .ok s' ∧ newProof s (some b) ≠ .ok s') ∧
    (∀ p, s.pCons p = true → ∀ s', consumeProof s p ≠ .ok s' ∧ cloneProof s p ≠ .ok s') ∧
    (∀ x, s.rCons x = true → ∀ s', consumeReservation s x ≠ .ok s') := by
  refine ⟨?_, ?_, ?_⟩
  · intro b hb s'
    refine ⟨fun h => ?_, fun h => ?_⟩
    · have := (consumeBucket_ok h).2.1; simp [hb] at this
    · have := ((newProof_ok h).1 b rfl).2; simp [hb] at this
  · intro p hp s'
    refine ⟨fun h => ?_, fun h => ?_⟩
    · have := (consumeProof_ok h).2.1; simp [hp] at this
    · unfold cloneProof at h
      cases hg : getProof s p with
      | error e => rw [hg] at h; cases h
      | ok u => have := (getProof_ok.mp hg).2; simp [hp] at this
  · intro x hx s' h
    have := (consumeReservation_ok h).2.1; simp [hx] at this

/-- **ends_as_kind_requires**: an accepted subintent manifest ends with YIELD_TO_PARENT; an accepted
transaction manifest contains no YIELD_TO_PARENT / VERIFY_PARENT; no next-call assertion is left
pending; under `validate_no_dangling_nodes` every bucket and every address reservation (including
those of pre-allocated addresses) has been consumed. -/
theorem ends_as_kind_requires (r : Rules) (c : Ctx) (effects : List Effect) (s : St)
    (h : interp r c effects = .ok s) :
    (c.isSub = true → ∃ pre d args, effects = pre ++ [.invocation .yieldParent d args]) ∧
    (c.isSub = false → ∀ e ∈ effects, e.isYieldToParent = false ∧ e ≠ .verification) ∧
    s.pending = false ∧
    (r.noDangling = true → (∀ i, i < s.nB → s.bCons i = true) ∧ (∀ i, i < s.nR → s.rCons i = true)) := by
  unfold interp at h
  cases hp : preamble r c with
  | error e => rw [hp] at h; cases h
  | ok s0 =>
    rw [hp] at h; dsimp only at h
    cases hr : runFrom r c 0 s0 effects with
    | error e => rw [hr] at h; cases h
    | ok s1 =>
      rw [hr] at h; dsimp only at h
      cases hv : verifyFinal c effects with
      | error e => rw [hv] at h; cases h
      | ok u =>
        rw [hv] at h; dsimp only at h
        cases hw : wrapUp r s1 with
        | error e => rw [hw] at h; cases h
        | ok u =>
          rw [hw] at h
          injection h with h; subst h
          refine ⟨?_, ?_, ?_, ?_⟩
          · intro hsub
            unfold verifyFinal at hv
            simp only [hsub, Bool.not_true, Bool.false_eq_true, if_false] at hv
            cases hl : effects.getLast? with
            | none => rw [hl] at hv; cases hv
            | some e =>
              rw [hl] at hv; dsimp only at hv
              obtain ⟨pre, rfl⟩ := List.getLast?_eq_some_iff.mp hl
              cases e with
              | invocation k d args =>
                cases k with
                | yieldParent => exact ⟨pre, d, args, rfl⟩
                | _ => simp [Effect.isYieldToParent] at hv
              | _ => simp [Effect.isYieldToParent] at hv
          · intro hsub e he
            obtain ⟨s1', s2', hs⟩ := runFrom_steps effects 0 hr e he
            exact step_ok_not_sub hsub hs
          · unfold wrapUp at hw
            cases hpd : s1.pending with
            | true => simp [hpd] at hw
            | false => rfl
          · intro hnd
            unfold wrapUp at hw
            cases hpd : s1.pending with
            | true => simp [hpd] at hw
            | false =>
              simp only [hpd, Bool.false_eq_true, if_false, hnd, if_true] at hw
              cases hb : firstLive s1.bCons s1.nB 0 with
              | some b => rw [hb] at hw; cases hw
              | none =>
                rw [hb] at hw; dsimp only at hw
                cases hx : firstLive s1.rCons s1.nR 0 with
                | some x => rw [hx] at hw; cases hw
                | none =>
                  exact ⟨fun i hi => firstLive_none _ _ hb i (Nat.zero_le _) (by omega),
                         fun i hi => firstLive_none _ _ hx i (Nat.zero_le _) (by omega)⟩

/-- non-vacuity: an accepted subintent manifest -/
example : ∃ s, interp Rules.all ⟨true, 1, 1, [7], 24⟩
    [.assertion (.nextCall true), .invocation (.yieldChild 0) 2 [.reservation 0, .blob 7],
     .verification, .invocation .yieldParent 1 []] = .ok s := ⟨_, rfl⟩

/-- a next-call assertion (when resource assertions are validated) must be followed immediately by
an invocation -/
theorem next_call_assertion_needs_call (r : Rules) (c : Ctx) (s s1 s2 : St) (v : Bool) (e : Effect)
    (hr : r.resAssert = true)
    (h1 : step r c s (.assertion (.nextCall v)) = .ok s1) (h2 : step r c s1 e = .ok s2) :
    e.isInvocation = true := by
  apply runFrom_pending_step h2
  unfold step at h1
  cases hn : nextReq s (.assertion (.nextCall v)) with
  | error er => rw [hn] at h1; cases h1
  | ok s0 =>
    rw [hn] at h1
    simp only [handleAssertion, hr, if_true] at h1
    cases v with
    | false => simp at h1
    | true => simp at h1; rw [← h1]

end Radix.StaticInterp
