/-
C46 — WASM instrumentation preserves program meaning.

Property theorems only. Model: `RadixModel/Model/WasmMeter.lean` (MiniWasm big-step semantics with fuel, the
gas-metering transformation `meter` = transcription of `determine_metered_blocks` + `insert_metering_calls` of
radix-wasm-instrument, which `WasmModule::inject_instruction_metering` calls), lemmas:
`RadixModel/Lemmas/WasmMeter.lean`, instruction weights of the compiled tree: `RadixModel/Generated/C46.lean`.

Proved for every MiniWasm program, every argument vector, every budget and every fuel:
* the transformation changes nothing but the charge fields (`instrumentation_changes_only_charges`);
* `meter_preserves`: the instrumented program under ANY budget either ends out of gas or ends exactly like the
  original program — same value, same trap kind, same stuck/timeout status — whatever the charges are
  (so in particular for the charges `meter` computes, and for any other placement of gas calls).

NOT proved (full statements kept here), explored on the implementation and by correspondence only:

    theorem out_of_gas_only_if_budget_lt :
        run fs' (some b) fuel f args = .oog g → ∃ r, run fs' none fuel f args = r ∧ chargedOf r > b
    theorem charged_is_path_function :
        charged (run (meter fs) …) = Σ cost of the metered blocks entered on the executed path
        (= Σ weight of the executed instructions when the run does not trap)

Reason: both need a second simulation (budgeted vs. unlimited run of the same code with gas tracking, resp. an
accounting invariant of the metered-block algorithm: merging of `block` heads, `lowest_forward_br_target`);
not done in the time available. The oracle checks them on every generated program on the real instrumenter +
wasmi (keys `out-of-gas-with-enough-budget`, `no-out-of-gas-below-need`, `budget-inconsistent`,
`charge-not-deterministic`), and the correspondence compares the charged units and the (position, cost) of every
metered block of the real instrumenter with the model's.
-/
import RadixModel.Model.WasmMeter
import RadixModel.Lemmas.WasmMeter
import RadixModel.Generated.C46

namespace Radix.WasmMeter

/-- the weights of the compiled tree (regenerated on every run by probing the real instrumenter) -/
def realWeights : Weights :=
  { const := Generated.C46.W_CONST
    bin := fun b => match b with
      | .add => Generated.C46.W_ADD | .sub => Generated.C46.W_SUB | .mul => Generated.C46.W_MUL
      | .divU => Generated.C46.W_DIVU | .remU => Generated.C46.W_REMU | .and => Generated.C46.W_AND
      | .or => Generated.C46.W_OR | .xor => Generated.C46.W_XOR | .shl => Generated.C46.W_SHL
      | .shrU => Generated.C46.W_SHRU
    cmp := fun c => match c with
      | .eq => Generated.C46.W_EQ | .ne => Generated.C46.W_NE | .ltU => Generated.C46.W_LTU
      | .gtU => Generated.C46.W_GTU
    eqz := Generated.C46.W_EQZ, extend := Generated.C46.W_EXTEND
    localGet := Generated.C46.W_LOCAL_GET, localSet := Generated.C46.W_LOCAL_SET
    localTee := Generated.C46.W_LOCAL_TEE, drop := Generated.C46.W_DROP, select := Generated.C46.W_SELECT
    nop := Generated.C46.W_NOP, br := Generated.C46.W_BR, brIf := Generated.C46.W_BR_IF
    ret := Generated.C46.W_RETURN, call := Generated.C46.W_CALL, unreachable := Generated.C46.W_UNREACHABLE
    block := Generated.C46.W_BLOCK, loop := Generated.C46.W_LOOP, ite := Generated.C46.W_IF
    perLocal := Generated.C46.W_PER_LOCAL }

/-- In the compiled tree every instruction that does work has a positive weight (so an executed instruction is
never free), `return`/`unreachable` cost nothing, each weight fits `u32`, and a metered block of a function
within the validator's limits cannot overflow the `u64` cost accumulator. -/
theorem generated_weights_sane :
    (∀ o : Op, o ≠ .ret → o ≠ .unreachable → 0 < opCost realWeights o) ∧
    opCost realWeights .ret = 0 ∧ opCost realWeights .unreachable = 0 ∧
    0 < realWeights.block ∧ 0 < realWeights.loop ∧ 0 < realWeights.ite ∧ 0 < realWeights.perLocal ∧
    (∀ o : Op, opCost realWeights o < 2 ^ 32) ∧ Generated.C46.MAX_STACK_SIZE = 1024 := by
  refine ⟨?_, by decide, by decide, by decide, by decide, by decide, by decide, ?_, by decide⟩
  · intro o h1 h2
    cases o with
    | bin b => cases b <;> decide
    | cmp c => cases c <;> decide
    | ret => contradiction
    | unreachable => contradiction
    | _ => simp only [opCost, realWeights] <;> decide
  · intro o
    cases o with
    | bin b => cases b <;> decide
    | cmp c => cases c <;> decide
    | _ => simp only [opCost, realWeights] <;> decide

/-! ### 1. Instrumentation only adds charges -/

/-- **The transformation touches nothing but the gas charges**: erasing the charges of the instrumented functions
gives the original functions with their charges erased — same instructions, same structure, same parameter
and local counts, same number of functions. -/
theorem instrumentation_changes_only_charges (w : Weights) (fs fs' : List Func) (h : meter w fs = some fs') :
    fs'.map stripFunc = fs.map stripFunc :=
  meter_strip h

/-- for one function body and any set of metered blocks -/
theorem annotate_changes_only_charges (bs : List MBlock) (c : Code) :
    strip (annotate bs c 0).1 = strip c :=
  strip_annotate bs c 0

/-! ### 2. Instrumented code means the same -/

/-- **Code-level preservation.** For every function table, budget, fuel, code and pair of states that agree on
operand stack and locals: running the code with its gas charges under the budget either runs out of gas, or ends
like running the charge-free code with unlimited budget — same normal completion / branch depth / return, the
same stack and locals, the same trap kind, the same timeout/stuck status. -/
theorem exec_preserves (fs : List Func) (B : Option Nat) (fuel : Nat) (c : Code) (s s0 : St) (h : sim s s0) :
    R (exec fs B fuel c s) (exec (fs.map stripFunc) none fuel (strip c) s0) :=
  (exec_sim fs B fuel).1 c s s0 h

private theorem run_sim (fs' : List Func) (B : Option Nat) (fuel f : Nat) (args : List Nat) :
    R (run fs' B fuel f args) (run (fs'.map stripFunc) none fuel f args) := by
  unfold run
  simp only [List.getElem?_map]
  cases hf : fs'[f]? with
  | none => right; simp [simR]
  | some fn =>
    simp only [Option.map, stripFunc]
    by_cases hl : args.length ≠ fn.params
    · rw [if_pos hl, if_pos hl]; right; simp [simR]
    · rw [if_neg hl, if_neg hl]
      exact R_callResult ((exec_sim fs' B fuel).1 fn.body _ _ ⟨rfl, rfl⟩) rfl

/-- **meter_preserves.** Let `fs'` be the instrumented version of the program `fs` (as computed by the
transcription of the real algorithm with any weight table). Invoking any function with any arguments under any
execution budget either ends with out-of-gas, or gives exactly the outcome of the original program: the same
result value, the same trap kind (`unreachable`, division by zero), the same timeout/ill-typed status. -/
theorem meter_preserves (w : Weights) (fs fs' : List Func) (hm : meter w fs = some fs')
    (B : Option Nat) (fuel f : Nat) (args : List Nat) :
    (run fs' B fuel f args).isOog = true ∨
      simR (run fs' B fuel f args) (run (fs.map stripFunc) none fuel f args) := by
  have := run_sim fs' B fuel f args
  rw [meter_strip hm] at this
  exact this

/-- the original program as the engine receives it carries no charges: `fs.map stripFunc = fs` -/
theorem meter_preserves_uninstrumented (w : Weights) (fs fs' : List Func) (hm : meter w fs = some fs')
    (hplain : fs.map stripFunc = fs) (B : Option Nat) (fuel f : Nat) (args : List Nat) :
    (run fs' B fuel f args).isOog = true ∨ simR (run fs' B fuel f args) (run fs none fuel f args) := by
  have := meter_preserves w fs fs' hm B fuel f args
  rwa [hplain] at this

/-- what `simR` gives for the observable outcome: equal result values -/
theorem simR_value {r r0 : Res} (h : simR r r0) :
    (∀ st, r = .fall st → ∃ st0, r0 = .fall st0 ∧ st.stack = st0.stack) ∧
    (∀ t g, r = .trap t g → ∃ g0, r0 = .trap t g0) ∧ (r = .timeout ↔ r0 = .timeout) := by
  cases r <;> cases r0 <;> simp [simR, sim] at h ⊢
  · exact h.1
  · first | exact h | exact h.symm

/-- non-vacuity: a two-function program with a counted loop, a conditional branch and a call is instrumented by
the transcription with the compiled weights, and the instrumented program computes the same value. -/
def demo : List Func :=
  [ ⟨1, 1, .op 0 (.const 3) (.op 0 (.localSet 1) (.loop 0
        (.op 0 (.localGet 0) (.op 0 (.call 1) (.op 0 (.localSet 0)
          (.op 0 (.localGet 1) (.op 0 (.const 1) (.op 0 (.bin .sub) (.op 0 (.localTee 1)
            (.op 0 (.const 0) (.op 0 (.cmp .ne) (.op 0 (.brIf 0) .done))))))))))
        (.op 0 (.localGet 0) .done)))⟩,
    ⟨1, 0, .op 0 (.localGet 0) (.op 0 (.const 2) (.op 0 (.bin .mul) .done))⟩ ]

example : demo.map stripFunc = demo := by rfl

example : ∃ fs', meter realWeights demo = some fs' ∧
    run fs' (some 1000000) 100 0 [5] = .fall ⟨[40], [], 136030⟩ ∧ run demo none 100 0 [5] = .fall ⟨[40], [], 0⟩ := by
  refine ⟨_, rfl, ?_, ?_⟩ <;> decide

end Radix.WasmMeter
