/-
C24 — Decimal arithmetic is exact or reports overflow.

Property theorems only. Model: `RadixModel/Model/Decimal.lean` (a transcription of
radix-common/src/math/{decimal,precise_decimal}.rs and of the narrowing `TryFrom` of
bnum_integer/convert.rs). Helper lemmas: `RadixModel/Lemmas/Decimal.lean`.

FULL STATEMENT OF THE PROPERTY (as given):
  for all a b in range,  checked_op a b = if InRange (trunc0 (exact a b)) then some (trunc0 …) else none
  for op ∈ {add, sub, mul, div, neg, abs} and both types; conversions exact or failing; no panics.

The current code does NOT satisfy this for `mul`, `div` and `PreciseDecimal → Decimal`: the
narrowing conversion I256→I192 / I384→I256 rejects the representable value `MIN` (known finding
`narrow-min`). What is proved here, for the code as it is:
  * add/sub/neg/abs: the full statement;
  * mul/div: `*_spec_actual` (exact truncated result iff it lies in `(MIN, MAX]`, else `none`),
    `*_lost_results` (the only representable result that is lost is exactly `MIN`),
    `*_spec_partial` (the full statement under the hypothesis `q ≠ MIN`), and
    `*_full_spec_refuted` (the full statement is false of the code, with the witness);
  * intermediate overflow of the wide product implies the final result is out of range;
  * conversions: exactness / failure conditions, absence of panics.
-/
import RadixModel.Model.Decimal
import RadixModel.Lemmas.Decimal
import RadixModel.Lemmas.DecimalRound
import RadixModel.Generated.DecimalConsts

namespace Radix.Dec

open Radix.Generated

/-! ## The constants of the compiled tree are the ones the model (and every theorem below) uses -/

theorem consts_agree :
    DecimalConsts.DEC_SCALE = Ty.dec.scale ∧ DecimalConsts.DEC_BITS = Ty.dec.bits ∧
    DecimalConsts.PDEC_SCALE = Ty.pdec.scale ∧ DecimalConsts.PDEC_BITS = Ty.pdec.bits ∧
    DecimalConsts.DEC_MIN = Ty.dec.min ∧ DecimalConsts.DEC_MAX = Ty.dec.max ∧
    DecimalConsts.PDEC_MIN = Ty.pdec.min ∧ DecimalConsts.PDEC_MAX = Ty.pdec.max ∧
    DecimalConsts.DEC_ONE = Ty.dec.one ∧ DecimalConsts.PDEC_ONE = Ty.pdec.one ∧
    DecimalConsts.DEC_WIDE_BITS = Ty.dec.wide ∧ DecimalConsts.PDEC_WIDE_BITS = Ty.pdec.wide := by
  refine ⟨rfl, rfl, rfl, rfl, ?_, ?_, ?_, ?_, ?_, ?_, rfl, rfl⟩ <;>
    simp only [DecimalConsts.DEC_MIN, DecimalConsts.DEC_MAX, DecimalConsts.PDEC_MIN,
      DecimalConsts.PDEC_MAX, DecimalConsts.DEC_ONE, DecimalConsts.PDEC_ONE,
      Ty.min, Ty.max, Ty.bits, minOf, maxOf, half_192, half_256, one_dec, one_pdec] <;> norm_num

theorem inRange_iff (t : Ty) (x : Int) : t.InRange x ↔ t.min ≤ x ∧ x ≤ t.max := Iff.rfl

theorem min_le_max (t : Ty) : t.min ≤ t.max := by
  have := half_pos t.bits
  unfold Ty.min Ty.max minOf maxOf; omega

/-! ## add / sub / neg / abs: exact or `none`, at full strength -/

/-- `checked_add` returns the exact sum iff it is representable. -/
theorem add_spec (t : Ty) (a b : Int) :
    checkedAdd t a b = if t.InRange (a + b) then some (a + b) else none := rfl

/-- `checked_sub` returns the exact difference iff it is representable. -/
theorem sub_spec (t : Ty) (a b : Int) :
    checkedSub t a b = if t.InRange (a - b) then some (a - b) else none := rfl

/-- `checked_neg` returns the exact negation iff it is representable … -/
theorem neg_spec (t : Ty) (a : Int) :
    checkedNeg t a = if t.InRange (-a) then some (-a) else none := rfl

/-- … and for a value of the type that is exactly when the value is not `MIN`. -/
theorem neg_none_iff (t : Ty) {a : Int} (ha : t.InRange a) : checkedNeg t a = none ↔ a = t.min := by
  unfold checkedNeg
  rw [chk_eq_none]
  have hp := half_pos t.bits
  unfold Ty.InRange InBits at ha
  unfold InBits Ty.min minOf maxOf at *
  constructor <;> intro h <;> omega

/-- `checked_abs` returns the exact absolute value iff it is representable (the guarded `abs()`
never panics). -/
theorem abs_spec (t : Ty) {a : Int} (ha : t.InRange a) :
    checkedAbs t a = if t.InRange |a| then some |a| else none := by
  unfold checkedAbs
  have hp := half_pos t.bits
  have hi := inRange_iff t |a|
  have ha' := (inRange_iff t a).mp ha
  have e1 : t.min = -half t.bits := rfl
  have e2 : t.max = half t.bits - 1 := rfl
  by_cases hmin : a = t.min
  · have hne : ¬ (a ≠ t.min) := by simp [hmin]
    rw [if_neg hne, if_neg]
    intro hc
    have := hi.mp hc
    rw [hmin, e1, abs_neg, abs_of_pos hp] at this
    omega
  · rw [if_pos hmin]
    by_cases hneg : a < 0
    · rw [if_pos hneg, abs_of_neg hneg]; rfl
    · rw [if_neg hneg, abs_of_nonneg (by omega)]; rfl

example : Ty.dec.InRange (-5) := by decide

/-! ## Truncation toward zero -/

/-- `Int.tdiv` (Rust's signed `/`) IS truncation toward zero of the exact quotient `n / b`: the
remainder is smaller than the divisor in magnitude and has the sign of the dividend (so
`|q| ≤ |n / b| < |q| + 1` and `q` lies between `0` and `n / b`). -/
theorem tdiv_is_truncation (n b : Int) (hb : b ≠ 0) :
    ∃ rem, n = Int.tdiv n b * b + rem ∧ rem.natAbs < b.natAbs ∧
      (0 ≤ n → 0 ≤ rem) ∧ (n ≤ 0 → rem ≤ 0) := by
  refine ⟨Int.tmod n b, ?_, ?_, ?_, ?_⟩
  · have := Int.tmod_add_tdiv_mul n b; omega
  · rw [Int.natAbs_tmod]; exact Nat.mod_lt _ (Int.natAbs_pos.mpr hb)
  · exact fun h => Int.tmod_nonneg b h
  · intro h
    have := Int.tmod_nonneg b (by omega : 0 ≤ -n)
    rw [Int.neg_tmod] at this; omega

/-- The truncation is unique: any `q` with such a remainder is `Int.tdiv n b`. -/
theorem truncation_unique (n b q rem : Int) (hb : 0 < b) (h : n = q * b + rem)
    (hr : rem.natAbs < b.natAbs) (h1 : 0 ≤ n → 0 ≤ rem) (h2 : n ≤ 0 → rem ≤ 0) :
    q = Int.tdiv n b := by
  have hbd := tdiv_bounds n b hb
  have hrb : -b < rem ∧ rem < b := by omega
  by_cases h0 : 0 ≤ n
  · obtain ⟨b1, b2, _⟩ := hbd.1 h0
    have := h1 h0
    have e1 : b * (q - Int.tdiv n b) < b * 1 := by rw [Int.mul_sub, Int.mul_comm b q, Int.mul_comm b (Int.tdiv n b)]; omega
    have e2 : b * (Int.tdiv n b - q) < b * 1 := by rw [Int.mul_sub, Int.mul_comm b q, Int.mul_comm b (Int.tdiv n b)]; omega
    have := Int.lt_of_mul_lt_mul_left e1 (Int.le_of_lt hb)
    have := Int.lt_of_mul_lt_mul_left e2 (Int.le_of_lt hb)
    omega
  · obtain ⟨b1, b2, _⟩ := hbd.2 (by omega)
    have := h2 (by omega)
    have e1 : b * (q - Int.tdiv n b) < b * 1 := by rw [Int.mul_sub, Int.mul_comm b q, Int.mul_comm b (Int.tdiv n b)]; omega
    have e2 : b * (Int.tdiv n b - q) < b * 1 := by rw [Int.mul_sub, Int.mul_comm b q, Int.mul_comm b (Int.tdiv n b)]; omega
    have := Int.lt_of_mul_lt_mul_left e1 (Int.le_of_lt hb)
    have := Int.lt_of_mul_lt_mul_left e2 (Int.le_of_lt hb)
    omega

/-! ## mul -/

/-- The exact product of `a` and `b` subunits, in subunits, truncated toward zero. -/
def mulQ (t : Ty) (a b : Int) : Int := Int.tdiv (a * b) t.one

/-- The exact quotient of `a` by `b` subunits, in subunits, truncated toward zero. -/
def divQ (t : Ty) (a b : Int) : Int := Int.tdiv (a * t.one) b

/-- ACTUAL behaviour of `checked_mul`: the exact product truncated toward zero to the type's
precision, iff it lies in `(MIN, MAX]`; `none` otherwise. Covers the wide-intermediate overflow. -/
theorem mul_spec_actual (t : Ty) {a b : Int} (ha : t.InRange a) (hb : t.InRange b) :
    checkedMul t a b =
      if t.min < mulQ t a b ∧ mulQ t a b ≤ t.max then some (mulQ t a b) else none :=
  checkedMul_eq t ha hb

example : Ty.dec.InRange (3 * 10 ^ 18) ∧ Ty.dec.InRange (-7) := by decide

/-- The property's statement holds whenever the exact truncated result is not `MIN`. -/
theorem mul_spec_partial (t : Ty) {a b : Int} (ha : t.InRange a) (hb : t.InRange b)
    (hq : mulQ t a b ≠ t.min) :
    checkedMul t a b = if t.InRange (mulQ t a b) then some (mulQ t a b) else none := by
  rw [mul_spec_actual t ha hb]
  have hi := inRange_iff t (mulQ t a b)
  by_cases h : t.min < mulQ t a b ∧ mulQ t a b ≤ t.max
  · rw [if_pos h, if_pos (hi.mpr ⟨by omega, h.2⟩)]
  · rw [if_neg h, if_neg (fun hc => h ⟨by have := hi.mp hc; omega, (hi.mp hc).2⟩)]

/-- Exactly which representable results are lost: `checked_mul` reports overflow although the exact
truncated result is representable iff that result is `MIN`. -/
theorem mul_lost_results (t : Ty) {a b : Int} (ha : t.InRange a) (hb : t.InRange b) :
    (checkedMul t a b = none ∧ t.InRange (mulQ t a b)) ↔ mulQ t a b = t.min := by
  rw [mul_spec_actual t ha hb]
  have hi := inRange_iff t (mulQ t a b)
  have hmm := min_le_max t
  by_cases h : t.min < mulQ t a b ∧ mulQ t a b ≤ t.max
  · rw [if_pos h]
    constructor
    · rintro ⟨h1, _⟩; exact absurd h1 (by simp)
    · intro h'; omega
  · rw [if_neg h]
    constructor
    · rintro ⟨_, h2⟩; have := hi.mp h2; omega
    · intro h'; exact ⟨rfl, hi.mpr (by omega)⟩

/-- Overflow of the wide intermediate product (`a.checked_mul(b)?` in I256 / I384) happens only
when the final result is out of range anyway. -/
theorem mul_intermediate_overflow (t : Ty) {a b : Int} (ha : t.InRange a) (hb : t.InRange b)
    (hov : ¬ InBits t.wide (a * b)) : ¬ t.InRange (mulQ t a b) := by
  unfold mulQ
  generalize a * b = n at *
  have hbd := tdiv_bounds n t.one (one_pos t)
  intro hc
  apply hov
  cases t
  · simp only [Ty.InRange, Ty.bits, Ty.wide, minOf, maxOf, InBits, half_192, half_256, one_dec] at *
    by_cases h0 : 0 ≤ n
    · have := hbd.1 h0; omega
    · have := hbd.2 (by omega); omega
  · simp only [Ty.InRange, Ty.bits, Ty.wide, minOf, maxOf, InBits, half_256, half_384, one_pdec] at *
    by_cases h0 : 0 ≤ n
    · have := hbd.1 h0; omega
    · have := hbd.2 (by omega); omega

/-- REFUTATION of the property's full statement for `mul` on the current code: `MIN * 1` is
representable (it is `MIN`) but `checked_mul` reports overflow. Both types. -/
theorem mul_full_spec_refuted (t : Ty) :
    ¬ ∀ a b, t.InRange a → t.InRange b →
      checkedMul t a b = if t.InRange (mulQ t a b) then some (mulQ t a b) else none := by
  intro h
  have h1 := h t.min t.one
  cases t
  · have := h1 (by decide) (by decide)
    revert this; decide
  · have := h1 (by decide) (by decide)
    revert this; decide

/-! ## div -/

/-- ACTUAL behaviour of `checked_div`: `none` for a zero divisor; otherwise the exact quotient
truncated toward zero iff it lies in `(MIN, MAX]`. The wide intermediate never overflows. -/
theorem div_spec_actual (t : Ty) {a b : Int} (ha : t.InRange a) (hb : t.InRange b) :
    checkedDiv t a b =
      if b = 0 then none
      else if t.min < divQ t a b ∧ divQ t a b ≤ t.max then some (divQ t a b) else none :=
  checkedDiv_eq t ha hb

example : Ty.pdec.InRange (10 ^ 36) ∧ Ty.pdec.InRange (-3 * 10 ^ 36) := by decide

theorem div_spec_partial (t : Ty) {a b : Int} (ha : t.InRange a) (hb : t.InRange b)
    (hq : divQ t a b ≠ t.min) :
    checkedDiv t a b =
      if b = 0 then none
      else if t.InRange (divQ t a b) then some (divQ t a b) else none := by
  rw [div_spec_actual t ha hb]
  have hi := inRange_iff t (divQ t a b)
  by_cases hb0 : b = 0
  · rw [if_pos hb0, if_pos hb0]
  · rw [if_neg hb0, if_neg hb0]
    by_cases h : t.min < divQ t a b ∧ divQ t a b ≤ t.max
    · rw [if_pos h, if_pos (hi.mpr ⟨by omega, h.2⟩)]
    · rw [if_neg h, if_neg (fun hc => h ⟨by have := hi.mp hc; omega, (hi.mp hc).2⟩)]

/-- Exactly which representable quotients are lost: only `MIN`. -/
theorem div_lost_results (t : Ty) {a b : Int} (ha : t.InRange a) (hb : t.InRange b) (hb0 : b ≠ 0) :
    (checkedDiv t a b = none ∧ t.InRange (divQ t a b)) ↔ divQ t a b = t.min := by
  rw [div_spec_actual t ha hb, if_neg hb0]
  have hi := inRange_iff t (divQ t a b)
  have hmm := min_le_max t
  by_cases h : t.min < divQ t a b ∧ divQ t a b ≤ t.max
  · rw [if_pos h]
    constructor
    · rintro ⟨h1, _⟩; exact absurd h1 (by simp)
    · intro h'; omega
  · rw [if_neg h]
    constructor
    · rintro ⟨_, h2⟩; have := hi.mp h2; omega
    · intro h'; exact ⟨rfl, hi.mpr (by omega)⟩

/-- REFUTATION of the full statement for `div`: `MIN / 1` is `MIN` but is reported as overflow. -/
theorem div_full_spec_refuted (t : Ty) :
    ¬ ∀ a b, t.InRange a → t.InRange b → b ≠ 0 →
      checkedDiv t a b = if t.InRange (divQ t a b) then some (divQ t a b) else none := by
  intro h
  have h1 := h t.min t.one
  cases t
  · have := h1 (by decide) (by decide) (by decide)
    revert this; decide
  · have := h1 (by decide) (by decide) (by decide)
    revert this; decide

/-! ## Conversions from integers and between the two types -/

/-- `From<i8 … u128> for Decimal / PreciseDecimal` is exact and its multiplication never panics. -/
theorem fromPrim_exact (t : Ty) (s : IntTy) (hs : s.bits ≤ 128) {v : Int} (hv : s.Holds v) :
    fromPrim t v = .val (v * t.one) := by
  unfold fromPrim
  have hin : InBits t.bits (v * t.one) := by
    have h128 : -(2 : Int) ^ 128 ≤ v ∧ v ≤ (2 : Int) ^ 128 := by
      unfold IntTy.Holds InBits InUBits minOf maxOf half at hv
      have hm : (2 : Int) ^ (s.bits - 1) ≤ 2 ^ 128 := pow_le_pow_right₀ (by norm_num) (by omega)
      have hm2 : (2 : Int) ^ s.bits ≤ 2 ^ 128 := pow_le_pow_right₀ (by norm_num) hs
      have hp : (0 : Int) < 2 ^ (s.bits - 1) := by positivity
      split at hv <;> omega
    norm_num at h128
    cases t
    · simp only [Ty.bits, minOf, maxOf, InBits, half_192, one_dec]; omega
    · simp only [Ty.bits, minOf, maxOf, InBits, half_256, one_pdec]; omega
  rw [chk_of_inBits hin]

example : (IntTy.mk false 128).Holds (2 ^ 128 - 1) := by decide

/-- `From<Decimal> for PreciseDecimal` is exact (`× 10^18`) and never panics. -/
theorem decToPdec_exact {a : Int} (ha : Ty.dec.InRange a) : decToPdec a = .val (a * 10 ^ 18) := by
  unfold decToPdec
  have h1 : chk 256 ((10 : Int) ^ (Ty.pdec.scale - Ty.dec.scale)) = some (10 ^ 18) :=
    chk_of_inBits (by decide)
  rw [h1]
  simp only
  have h2 : InBits 256 (a * 10 ^ 18) := by
    simp only [Ty.InRange, Ty.bits, minOf, maxOf, InBits, half_192, half_256] at *
    omega
  rw [chk_of_inBits h2]

/-- ACTUAL behaviour of `TryFrom<PreciseDecimal> for Decimal`: the value truncated toward zero to
18 places iff it lies in `(Decimal::MIN, Decimal::MAX]`, `Err(Overflow)` otherwise; never panics.
(`Decimal::MIN` itself is lost in the I256→I192 narrowing: finding `narrow-min`.) -/
theorem pdecToDec_actual {p : Int} (hp : Ty.pdec.InRange p) :
    pdecToDec p =
      if minOf 192 < Int.tdiv p (10 ^ 18) ∧ Int.tdiv p (10 ^ 18) ≤ maxOf 192
      then .val (Int.tdiv p (10 ^ 18)) else .overflow := by
  have hd : (0 : Int) < 10 ^ 18 := by norm_num
  have hb := tdiv_bounds p (10 ^ 18) hd
  generalize hq : Int.tdiv p (10 ^ 18) = q at *
  have hu : pow10 (Ty.pdec.scale - (18 : Int).toNat) = 10 ^ 18 := by decide
  have hpin : InBits 256 p := hp
  unfold InBits minOf maxOf at hpin
  have hR : IsRounded .toZero (pow10 (Ty.pdec.scale - (18 : Int).toNat)) p (q * 10 ^ 18) := by
    rw [hu]
    refine ⟨⟨q, by ring⟩, ?_, ?_⟩
    · rw [abs_lt]
      by_cases h0 : 0 ≤ p
      · have := hb.1 h0; omega
      · have := hb.2 (by omega); omega
    · by_cases h0 : 0 ≤ p
      · have := hb.1 h0
        rw [abs_of_nonneg h0, abs_of_nonneg (by omega)]; omega
      · have := hb.2 (by omega)
        rw [abs_of_nonpos (by omega : p ≤ 0), abs_of_nonpos (by omega)]; omega
  have hin : Ty.pdec.InRange (q * 10 ^ 18) := by
    show InBits 256 (q * 10 ^ 18)
    unfold InBits minOf maxOf
    by_cases h0 : 0 ≤ p
    · have := hb.1 h0; omega
    · have := hb.2 (by omega); omega
  have hr := checkedRound_of_isRounded .pdec 18 (by norm_num) (by decide) .toZero p _ hp hR hin
  have hq256 : InBits 256 q := by
    unfold InBits minOf maxOf
    have := half_pos 256
    by_cases h0 : 0 ≤ p
    · have := hb.1 h0; omega
    · have := hb.2 (by omega); omega
  unfold pdecToDec checkedTruncate
  have e18 : ((Ty.dec.scale : Nat) : Int) = 18 := rfl
  rw [e18, hr]
  have h1 : chk 256 ((10 : Int) ^ (Ty.pdec.scale - Ty.dec.scale)) = some (10 ^ 18) :=
    chk_of_inBits (by decide)
  simp only [h1]
  unfold iDiv
  rw [if_neg (by norm_num), Int.mul_tdiv_cancel q (by norm_num), chk_of_inBits hq256]
  simp only
  rw [narrow_signed_spec 256 192 (by norm_num) (by norm_num) q hq256]
  by_cases h : minOf 192 < q ∧ q ≤ maxOf 192
  · rw [if_pos h, if_pos h]; rfl
  · rw [if_neg h, if_neg h]; rfl

example : Ty.pdec.InRange (-(25 * 10 ^ 17)) := by decide

/-- REFUTATION of the full statement for the narrowing conversion: `PreciseDecimal::from(Decimal::MIN)`
converts back to `Err(Overflow)` although `Decimal::MIN` is representable. -/
theorem pdecToDec_roundtrip_refuted :
    ¬ ∀ a, Ty.dec.InRange a → pdecToDec (a * 10 ^ 18) = .val a := by
  intro h
  have := h Ty.dec.min (by decide)
  revert this; decide

end Radix.Dec
