/-
C47 — Host memory access from WASM is always bounds-checked.

Property theorems only. Model: `RadixModel/Model/WasmMemory.lean` (`read_memory`, `write_memory`,
`read_slice`, `consume_buffer`, `Slice`), lemmas: `RadixModel/Lemmas/WasmMemory.lean`.
`ptr`/`len` range over all `u32` values, the `Slice` returned by a guest over all `u64`/`i64` values,
memories and buffers over all byte lists.
-/
import RadixModel.Model.WasmMemory
import RadixModel.Lemmas.WasmMemory
import RadixModel.Generated.WasmMem

namespace Radix.WasmMem

/-- constants as the compiled tree sees them (regenerated on every run) -/
theorem generated_consts_agree :
    Generated.WasmMem.SLICE_PTR_SHIFT = 32 ∧ Generated.WasmMem.SLICE_LEN_MASK = 0xffffffff ∧
    Generated.WasmMem.USIZE_BITS = 64 ∧ 2 ^ Generated.WasmMem.USIZE_BITS - 1 = USIZE_MAX := by
  decide

/-! ### 1. Reads -/

/-- `read_memory` succeeds exactly when the whole range lies inside the linear memory, and then
returns exactly that range. -/
theorem read_ok_iff (mem : Mem) (p l : Nat) (hp : p ≤ U32_MAX) (hl : l ≤ U32_MAX) (r : List UInt8) :
    readMemory mem p l = .ok r ↔ (p + l ≤ mem.length ∧ r = (mem.drop p).take l) := by
  unfold readMemory U32_MAX USIZE_MAX at *
  by_cases h1 : p > mem.length
  · rw [if_pos h1]; constructor
    · intro h; cases h
    · rintro ⟨h, _⟩; omega
  · rw [if_neg h1, if_neg (by omega)]
    by_cases h2 : p + l > mem.length
    · rw [if_pos h2]; constructor
      · intro h; cases h
      · rintro ⟨h, _⟩; omega
    · rw [if_neg h2, if_pos ⟨by omega, by omega⟩]
      constructor
      · intro h; cases h; exact ⟨by omega, rfl⟩
      · rintro ⟨_, rfl⟩; rfl

/-- the bytes handed to the engine are the bytes at `ptr .. ptr+len` — nothing else is read -/
theorem read_exact_range (mem : Mem) (p l : Nat) (hp : p ≤ U32_MAX) (hl : l ≤ U32_MAX) (r : List UInt8)
    (h : readMemory mem p l = .ok r) :
    r.length = l ∧ ∀ i, i < l → r[i]? = mem[p + i]? ∧ p + i < mem.length := by
  obtain ⟨hb, rfl⟩ := (read_ok_iff mem p l hp hl r).1 h
  exact ⟨length_slice mem p l hb, fun i hi => ⟨getElem?_slice mem p l i hi, by omega⟩⟩

/-- otherwise the call fails with `MemoryAccessError` — it never panics (no `usize` overflow, no
out-of-range slice) -/
theorem read_fails_iff (mem : Mem) (p l : Nat) (hp : p ≤ U32_MAX) (hl : l ≤ U32_MAX) :
    (readMemory mem p l = .error .memoryAccess ↔ mem.length < p + l) ∧
      readMemory mem p l ≠ .error .panic ∧ readMemory mem p l ≠ .error .bufferNotFound := by
  unfold readMemory U32_MAX USIZE_MAX at *
  by_cases h1 : p > mem.length
  · rw [if_pos h1]; exact ⟨⟨fun _ => by omega, fun _ => rfl⟩, by simp, by simp⟩
  · rw [if_neg h1, if_neg (by omega)]
    by_cases h2 : p + l > mem.length
    · rw [if_pos h2]; exact ⟨⟨fun _ => by omega, fun _ => rfl⟩, by simp, by simp⟩
    · rw [if_neg h2, if_pos ⟨by omega, by omega⟩]
      exact ⟨⟨fun h => (by cases h), fun h => by omega⟩, by simp, by simp⟩

example : readMemory [1, 2, 3, 4] 1 2 = .ok [2, 3] := by rfl
example : readMemory [1, 2, 3, 4] 4 0 = .ok [] := by rfl
example : readMemory [1, 2, 3, 4] 3 2 = .error .memoryAccess := by rfl
example : readMemory [1, 2, 3, 4] 5 0 = .error .memoryAccess := by rfl
example : readMemory [1, 2, 3, 4] 4294967295 4294967295 = .error .memoryAccess := by rfl

/-! ### 2. `Slice` packing and `read_slice` on an arbitrary guest-returned value -/

theorem slice_pack_unpack (p l : Nat) (hp : p ≤ U32_MAX) (hl : l ≤ U32_MAX) :
    slicePtr (sliceNew p l) = p ∧ sliceLen (sliceNew p l) = l ∧ sliceNew p l < 2 ^ 64 ∧
      sliceOfI64 (sliceAsI64 (sliceNew p l)) = sliceNew p l := by
  rw [slicePtr_eq, sliceLen_eq, sliceNew_eq p l hp hl]
  unfold U32_MAX at *
  refine ⟨by omega, by omega, by omega, ?_⟩
  unfold sliceOfI64 sliceAsI64
  split <;> omega

/-- whatever 64-bit value is unpacked, pointer and length are `u32`s and repacking gives the value -/
theorem slice_unpack_pack (s : Nat) (hs : s < 2 ^ 64) :
    slicePtr s ≤ U32_MAX ∧ sliceLen s ≤ U32_MAX ∧ sliceNew (slicePtr s) (sliceLen s) = s := by
  have h1 : slicePtr s ≤ U32_MAX := by rw [slicePtr_eq]; unfold U32_MAX; omega
  have h2 : sliceLen s ≤ U32_MAX := by rw [sliceLen_eq]; unfold U32_MAX; omega
  refine ⟨h1, h2, ?_⟩
  rw [sliceNew_eq _ _ h1 h2, slicePtr_eq, sliceLen_eq]
  omega

theorem slice_of_i64_range (n : Int) : sliceOfI64 n < 2 ^ 64 := by
  unfold sliceOfI64; omega

/-- `read_slice` on *any* `i64` a guest export returns: success iff the encoded range is inside
the memory (and then exactly that range), `MemoryAccessError` otherwise, never a panic. -/
theorem read_slice_total (mem : Mem) (n : Int) :
    let v := sliceOfI64 n
    (slicePtr v + sliceLen v ≤ mem.length → readSlice mem v = .ok ((mem.drop (slicePtr v)).take (sliceLen v))) ∧
    (mem.length < slicePtr v + sliceLen v → readSlice mem v = .error .memoryAccess) := by
  intro v
  obtain ⟨h1, h2, _⟩ := slice_unpack_pack v (slice_of_i64_range n)
  unfold readSlice
  constructor
  · intro h; exact (read_ok_iff mem _ _ h1 h2 _).2 ⟨h, rfl⟩
  · intro h; exact ((read_fails_iff mem _ _ h1 h2).1).2 h

example : slicePtr (sliceNew 7 9) = 7 ∧ sliceLen (sliceNew 7 9) = 9 := by decide
example : slicePtr (sliceOfI64 (-1)) = 4294967295 ∧ sliceLen (sliceOfI64 (-1)) = 4294967295 := by decide

/-! ### 3. Writes -/

/-- `write_memory` succeeds exactly when the destination range lies inside the memory; the new memory
is the old one with exactly that range replaced. `data.length ≤ 2^63` covers every Rust `Vec`. -/
theorem write_ok_iff (mem : Mem) (p : Nat) (data : List UInt8) (hp : p ≤ U32_MAX)
    (hd : data.length ≤ 2 ^ 63) (m : Mem) :
    writeMemory mem p data = .ok m ↔
      (p + data.length ≤ mem.length ∧ m = mem.take p ++ data ++ mem.drop (p + data.length)) := by
  unfold writeMemory wasmiWrite U32_MAX USIZE_MAX at *
  by_cases h1 : p > mem.length
  · rw [if_pos h1]; constructor
    · intro h; cases h
    · rintro ⟨h, _⟩; omega
  · rw [if_neg h1, if_neg (by omega)]
    by_cases h2 : p + data.length > mem.length
    · rw [if_pos h2]; constructor
      · intro h; cases h
      · rintro ⟨h, _⟩; omega
    · rw [if_neg h2, if_pos (by omega)]
      constructor
      · intro h; cases h; exact ⟨by omega, rfl⟩
      · rintro ⟨_, rfl⟩; rfl

/-- **never touches outside**: a successful write keeps the memory size, puts `data` at
`ptr .. ptr+len`, and leaves every other byte as it was. -/
theorem never_touches_outside (mem : Mem) (p : Nat) (data : List UInt8) (hp : p ≤ U32_MAX)
    (hd : data.length ≤ 2 ^ 63) (m : Mem) (h : writeMemory mem p data = .ok m) :
    m.length = mem.length ∧
      (∀ i, i < data.length → m[p + i]? = data[i]?) ∧
      (∀ i, i < p ∨ p + data.length ≤ i → m[i]? = mem[i]?) := by
  obtain ⟨hb, rfl⟩ := (write_ok_iff mem p data hp hd m).1 h
  refine ⟨length_splice mem data p hb, fun i hi => getElem?_splice_inside mem data p i hb hi, ?_⟩
  rintro i (hi | hi)
  · exact getElem?_splice_before mem data p i hb hi
  · exact getElem?_splice_after mem data p i hb hi

/-- a refused write fails with `MemoryAccessError` (the memory is not returned, i.e. unchanged) and
`write_memory` never panics; the `map_err` branch of wasmi's own bounds check is unreachable. -/
theorem write_fails_iff (mem : Mem) (p : Nat) (data : List UInt8) (hp : p ≤ U32_MAX)
    (hd : data.length ≤ 2 ^ 63) :
    (writeMemory mem p data = .error .memoryAccess ↔ mem.length < p + data.length) ∧
      writeMemory mem p data ≠ .error .panic ∧ writeMemory mem p data ≠ .error .bufferNotFound := by
  unfold writeMemory wasmiWrite U32_MAX USIZE_MAX at *
  by_cases h1 : p > mem.length
  · rw [if_pos h1]; exact ⟨⟨fun _ => by omega, fun _ => rfl⟩, by simp, by simp⟩
  · rw [if_neg h1, if_neg (by omega)]
    by_cases h2 : p + data.length > mem.length
    · rw [if_pos h2]; exact ⟨⟨fun _ => by omega, fun _ => rfl⟩, by simp, by simp⟩
    · rw [if_neg h2, if_pos (by omega)]
      exact ⟨⟨fun h => (by cases h), fun h => by omega⟩, by simp, by simp⟩

example : writeMemory [1, 2, 3, 4] 1 [9, 8] = .ok [1, 9, 8, 4] := by rfl
example : writeMemory [1, 2, 3, 4] 3 [9, 8] = .error .memoryAccess := by rfl
example : writeMemory [1, 2, 3, 4] 4 [] = .ok [1, 2, 3, 4] := by rfl

/-! ### 4. `buffer_consume` and host functions with several buffers -/

/-- `consume_buffer` is exactly one bounds-checked write of the buffer the runtime hands out; a
runtime error is passed through without touching the memory. -/
theorem consume_buffer_spec (mem : Mem) (buf : Option (List UInt8)) (dest : Nat) :
    consumeBuffer mem buf dest =
      match buf with
      | some data => writeMemory mem dest data
      | none => .error .bufferNotFound := by
  cases buf <;> rfl

theorem consume_buffer_frame (mem : Mem) (data : List UInt8) (dest : Nat) (hp : dest ≤ U32_MAX)
    (hd : data.length ≤ 2 ^ 63) (m : Mem) (h : consumeBuffer mem (some data) dest = .ok m) :
    dest + data.length ≤ mem.length ∧ m.length = mem.length ∧
      (∀ i, i < data.length → m[dest + i]? = data[i]?) ∧
      (∀ i, i < dest ∨ dest + data.length ≤ i → m[i]? = mem[i]?) := by
  have h' : writeMemory mem dest data = .ok m := h
  exact ⟨((write_ok_iff mem dest data hp hd m).1 h').1, never_touches_outside mem dest data hp hd m h'⟩

/-- all `(ptr, len)` pairs are `u32`s -/
def PairsU32 (ps : List (Nat × Nat)) : Prop := ∀ q ∈ ps, q.1 ≤ U32_MAX ∧ q.2 ≤ U32_MAX

/-- A host function with any number of buffer arguments reaches the runtime iff *every* range is
inside the memory, and then the runtime receives exactly those ranges, in order. -/
theorem host_read_ok_iff (mem : Mem) (ps : List (Nat × Nat)) (hps : PairsU32 ps) (vs : List (List UInt8)) :
    hostRead mem ps = .ok vs ↔
      ((∀ q ∈ ps, q.1 + q.2 ≤ mem.length) ∧ vs = ps.map (fun q => (mem.drop q.1).take q.2)) := by
  induction ps generalizing vs with
  | nil =>
    simp only [hostRead, List.map_nil, List.not_mem_nil, false_imp_iff, implies_true, true_and]
    constructor
    · intro h; cases h; rfl
    · rintro rfl; rfl
  | cons q rest ih =>
    obtain ⟨p, l⟩ := q
    have hq := hps (p, l) (List.mem_cons_self)
    have hrest : PairsU32 rest := fun x hx => hps x (List.mem_cons_of_mem _ hx)
    unfold hostRead
    cases hr : readMemory mem p l with
    | error e =>
      simp only
      constructor
      · intro h; cases h
      · rintro ⟨hall, _⟩
        have := (read_ok_iff mem p l hq.1 hq.2 _).2 ⟨hall (p, l) List.mem_cons_self, rfl⟩
        rw [this] at hr; cases hr
    | ok v =>
      obtain ⟨hb, rfl⟩ := (read_ok_iff mem p l hq.1 hq.2 v).1 hr
      simp only
      cases hh : hostRead mem rest with
      | error e =>
        simp only
        constructor
        · intro h; cases h
        · rintro ⟨hall, _⟩
          have := (ih hrest _).2 ⟨fun x hx => hall x (List.mem_cons_of_mem _ hx), rfl⟩
          rw [this] at hh; cases hh
      | ok ws =>
        obtain ⟨hall, rfl⟩ := (ih hrest ws).1 hh
        simp only [List.map_cons]
        constructor
        · intro h; cases h
          refine ⟨?_, rfl⟩
          intro x hx
          rcases List.mem_cons.1 hx with rfl | hx
          · exact hb
          · exact hall x hx
        · rintro ⟨_, rfl⟩; rfl

/-- and otherwise it fails with `MemoryAccessError`, never with a panic -/
theorem host_read_error (mem : Mem) (ps : List (Nat × Nat)) (hps : PairsU32 ps) (e : Err)
    (h : hostRead mem ps = .error e) : e = .memoryAccess := by
  induction ps with
  | nil => cases h
  | cons q rest ih =>
    obtain ⟨p, l⟩ := q
    have hq := hps (p, l) (List.mem_cons_self)
    have hrest : PairsU32 rest := fun x hx => hps x (List.mem_cons_of_mem _ hx)
    unfold hostRead at h
    cases hr : readMemory mem p l with
    | error e' =>
      rw [hr] at h
      simp only at h
      cases h
      have hf := read_fails_iff mem p l hq.1 hq.2
      cases e with
      | memoryAccess => rfl
      | panic => exact absurd hr hf.2.1
      | bufferNotFound => exact absurd hr hf.2.2
    | ok v =>
      rw [hr] at h
      simp only at h
      cases hh : hostRead mem rest with
      | error e' =>
        rw [hh] at h; simp only at h; cases h
        exact ih hrest hh
      | ok ws => rw [hh] at h; cases h

example : PairsU32 [(0, 2), (3, 1)] := by
  intro q hq; simp only [List.mem_cons, List.not_mem_nil, or_false] at hq
  rcases hq with rfl | rfl <;> decide
example : hostRead [1, 2, 3, 4] [(0, 2), (3, 1)] = .ok [[1, 2], [4]] := by rfl
example : hostRead [1, 2, 3, 4] [(0, 2), (3, 2)] = .error .memoryAccess := by rfl

end Radix.WasmMem
