/-
C29 — Calendar time conversions are correct and invertible.

Property theorems only. Model: `RadixModel/Model/UtcDateTime.lean`; specification (proleptic
Gregorian calendar: `LeapP`, `daysBeforeYear`, `daysBeforeMonth`, `monthLen`, `daysFromCivil`,
`specSecs`, `Valid`, `LexLt`) and helper lemmas: `RadixModel/Lemmas/UtcDateTime{,2}.lean`.
-/
import RadixModel.Model.UtcDateTime
import RadixModel.Lemmas.UtcDateTime
import RadixModel.Lemmas.UtcDateTime2
import RadixModel.Generated.Utc

namespace Radix.Utc

/-! ### 0. The model's constants are the ones of the current source tree

`Generated/Utc.lean` is rewritten on every run: `MIN/MAX_SUPPORTED_TIMESTAMP` come from the compiled
code's behaviour (binary search on `from_instant`), the `SRC_*` items from the source text. -/

theorem generated_consts_agree :
    Generated.Utc.MIN_SUPPORTED_TIMESTAMP = MIN_SUPPORTED_TIMESTAMP ∧
    Generated.Utc.MAX_SUPPORTED_TIMESTAMP = MAX_SUPPORTED_TIMESTAMP ∧
    Generated.Utc.SRC_MIN_SUPPORTED_TIMESTAMP = MIN_SUPPORTED_TIMESTAMP ∧
    Generated.Utc.SRC_MAX_SUPPORTED_TIMESTAMP = MAX_SUPPORTED_TIMESTAMP ∧
    Generated.Utc.SRC_UNIX_EPOCH_YEAR = UNIX_EPOCH_YEAR ∧
    Generated.Utc.SRC_SECONDS_IN_A_NON_LEAP_YEAR = SECONDS_IN_A_NON_LEAP_YEAR ∧
    Generated.Utc.SRC_SECONDS_IN_A_LEAP_YEAR = SECONDS_IN_A_LEAP_YEAR ∧
    Generated.Utc.SRC_DAYS_PER_4Y = DAYS_PER_4Y ∧
    Generated.Utc.SRC_DAYS_PER_100Y = DAYS_PER_100Y ∧
    Generated.Utc.SRC_DAYS_PER_400Y = DAYS_PER_400Y ∧
    Generated.Utc.SRC_SHIFT_FROM_UNIX_TIME_TO_MARCH_Y2K = SHIFT_FROM_UNIX_TIME_TO_MARCH_Y2K ∧
    Generated.Utc.SRC_SECONDS_IN_A_MINUTE = SECONDS_IN_A_MINUTE ∧
    Generated.Utc.SRC_SECONDS_IN_AN_HOUR = SECONDS_IN_AN_HOUR ∧
    Generated.Utc.SRC_SECONDS_IN_A_DAY = SECONDS_IN_A_DAY ∧
    Generated.Utc.SRC_LEAP_YEAR_DAYS_IN_MONTHS = LEAP_YEAR_DAYS_IN_MONTHS ∧
    Generated.Utc.SRC_MONTH_ROTATE_LEFT = 2 ∧
    Generated.Utc.SRC_DISPLAY_FORMAT = "{:04}-{:02}-{:02}T{:02}:{:02}:{:02}Z" := by
  decide

/-- The supported range is exactly 0001-01-01T00:00:00 … (2^32-1)-12-31T23:59:59 of the calendar. -/
theorem supported_range_is_calendar_range :
    specSecs ⟨1, 1, 1, 0, 0, 0⟩ = MIN_SUPPORTED_TIMESTAMP ∧
    specSecs ⟨U32_MAX, 12, 31, 23, 59, 59⟩ = MAX_SUPPORTED_TIMESTAMP := by
  decide

/-! ### 1. The specification is the proleptic Gregorian calendar

`daysFromCivil` is pinned down by: day 0 is 1970-01-01; a year has 365 days plus one if it is a
leap year (divisible by 4, not by 100 unless by 400); months follow each other with the usual lengths. -/

theorem daysFromCivil_epoch : daysFromCivil 1970 1 1 = 0 := by decide

theorem daysBeforeYear_succ (y : Int) : daysBeforeYear (y + 1) = daysBeforeYear y + 365 + leapI y :=
  dby_succ y

theorem leapI_spec (y : Int) :
    leapI y = if y % 4 = 0 ∧ (y % 100 ≠ 0 ∨ y % 400 = 0) then 1 else 0 := rfl

theorem daysBeforeMonth_succ (L : Int) (m : Nat) (h1 : 1 ≤ m) (h2 : m ≤ 11) :
    daysBeforeMonth L (m + 1) = daysBeforeMonth L m + monthLen L m := by
  have hmc : m = 1 ∨ m = 2 ∨ m = 3 ∨ m = 4 ∨ m = 5 ∨ m = 6 ∨ m = 7 ∨ m = 8 ∨ m = 9 ∨ m = 10 ∨ m = 11 := by omega
  rcases hmc with rfl | rfl | rfl | rfl | rfl | rfl | rfl | rfl | rfl | rfl | rfl <;>
    simp only [daysBeforeMonth, monthLen] <;> omega

theorem daysBeforeMonth_january (L : Int) : daysBeforeMonth L 1 = 0 := rfl

/-- a year is exhausted by its twelve months -/
theorem year_length (L : Int) : daysBeforeMonth L 12 + monthLen L 12 = 365 + L := by
  simp only [daysBeforeMonth, monthLen]; omega

/-- The day after a valid date (Gregorian successor rule) is the next day number: consecutive
calendar days have consecutive `daysFromCivil`. -/
theorem daysFromCivil_next_day (y : Int) (m d : Nat) (hm1 : 1 ≤ m) (hm2 : m ≤ 12) (_hd1 : 1 ≤ d)
    (hd2 : (d : Int) ≤ monthLen (leapI y) m) :
    daysFromCivil y m d + 1 =
      if (d : Int) < monthLen (leapI y) m then daysFromCivil y m (d + 1)
      else if m < 12 then daysFromCivil y (m + 1) 1
      else daysFromCivil (y + 1) 1 1 := by
  unfold daysFromCivil
  split
  · simp only [Int.natCast_add, Int.cast_ofNat_Int]; omega
  · split
    · rw [daysBeforeMonth_succ _ m hm1 (by omega)]
      simp only [Int.cast_ofNat_Int]; omega
    · have : m = 12 := by omega
      subst this
      rw [daysBeforeYear_succ]
      have := year_length (leapI y)
      simp only [daysBeforeMonth_january, Int.cast_ofNat_Int] at *
      omega

example : Valid ⟨2024, 2, 29, 23, 59, 59⟩ := by unfold Valid; decide
example : ¬ Valid ⟨2100, 2, 29, 0, 0, 0⟩ := by unfold Valid; decide
example : Valid ⟨2000, 2, 29, 0, 0, 0⟩ := by unfold Valid; decide

/-! ### 2. `new` accepts exactly the valid date-times and never panics -/

theorem new_accepts_iff_valid (y mo d h mi s : Nat) (hy : y ≤ U32_MAX) (dt : DT) :
    new y mo d h mi s = .ok dt ↔ (dt = ⟨y, mo, d, h, mi, s⟩ ∧ Valid ⟨y, mo, d, h, mi, s⟩) :=
  new_ok_iff y mo d h mi s hy dt

theorem new_never_panics (y mo d h mi s : Nat) : new y mo d h mi s ≠ .error .panic :=
  new_ne_panic y mo d h mi s

example : new 2023 2 29 0 0 0 = .error .invalidDayOfMonth := by rfl
example : new 2024 2 29 0 0 0 = .ok ⟨2024, 2, 29, 0, 0, 0⟩ := by rfl

/-! ### 3. `from_instant`: total on the supported range, agrees with the Gregorian calendar -/

/-- `from_instant` succeeds exactly on the supported range, and never panics (none of the
`try_from(..).expect(..)` and no table index can fail). -/
theorem fromInstant_ok_iff_in_range (t : Int) :
    (∃ dt, fromInstant t = .ok dt) ↔ (MIN_SUPPORTED_TIMESTAMP ≤ t ∧ t ≤ MAX_SUPPORTED_TIMESTAMP) := by
  constructor
  · rintro ⟨dt, h⟩
    by_cases hr : t < MIN_SUPPORTED_TIMESTAMP ∨ t > MAX_SUPPORTED_TIMESTAMP
    · rw [fromInstant_out_of_range t hr] at h; cases h
    · omega
  · rintro ⟨h1, h2⟩
    obtain ⟨dt, h, _⟩ := fromInstant_spec t h1 h2
    exact ⟨dt, h⟩

theorem fromInstant_never_panics (t : Int) : fromInstant t ≠ .error .panic := by
  by_cases hr : t < MIN_SUPPORTED_TIMESTAMP ∨ t > MAX_SUPPORTED_TIMESTAMP
  · rw [fromInstant_out_of_range t hr]; simp
  · obtain ⟨dt, h, _⟩ := fromInstant_spec t (by omega) (by omega)
    rw [h]; simp

/-- **Gregorian agreement**: whatever `from_instant` returns is a valid calendar date-time whose
proleptic-Gregorian timestamp is the input. -/
theorem agrees_with_gregorian (t : Int) (dt : DT) (h : fromInstant t = .ok dt) :
    Valid dt ∧ specSecs dt = t := by
  have hr := (fromInstant_ok_iff_in_range t).1 ⟨dt, h⟩
  obtain ⟨dt', h', hv, hs⟩ := fromInstant_spec t hr.1 hr.2
  rw [h] at h'
  cases h'
  exact ⟨hv, hs⟩

/-- `to_instant` of a valid date-time is its proleptic-Gregorian timestamp (no panic), which lies in
the supported range (hence in `i64`). -/
theorem toInstant_gregorian (dt : DT) (hv : Valid dt) :
    toInstant dt = .ok (specSecs dt) ∧
      MIN_SUPPORTED_TIMESTAMP ≤ specSecs dt ∧ specSecs dt ≤ MAX_SUPPORTED_TIMESTAMP ∧
      inI64 (specSecs dt) = true := by
  have hr := specSecs_range dt hv
  refine ⟨toInstant_spec dt hv, hr.1, hr.2, ?_⟩
  unfold inI64 I64_MIN I64_MAX
  unfold MIN_SUPPORTED_TIMESTAMP MAX_SUPPORTED_TIMESTAMP at hr
  simp only [Bool.and_eq_true, decide_eq_true_eq]
  omega

example : fromInstant 951782400 = .ok ⟨2000, 2, 29, 0, 0, 0⟩ := by rfl
example : fromInstant (-62135596801) = .error .instantIsOutOfRange := by rfl
example : toInstant ⟨1804, 2, 28, 23, 59, 59⟩ = .ok (-5233420801) := by rfl
/-- unvalidated field values (possible through SBOR decoding) can make `to_instant` panic -/
example : toInstant ⟨2000, 0, 1, 0, 0, 0⟩ = .error .panic := by rfl

/-! ### 4. Round trips -/

/-- timestamp → date-time → timestamp, for every supported timestamp -/
theorem from_to (t : Int) (h1 : MIN_SUPPORTED_TIMESTAMP ≤ t) (h2 : t ≤ MAX_SUPPORTED_TIMESTAMP) :
    ∃ dt, fromInstant t = .ok dt ∧ toInstant dt = .ok t := by
  obtain ⟨dt, h, hv, hs⟩ := fromInstant_spec t h1 h2
  exact ⟨dt, h, by rw [toInstant_spec dt hv, hs]⟩

/-- date-time → timestamp → date-time, for every valid date-time -/
theorem to_from (dt : DT) (hv : Valid dt) :
    ∃ t, toInstant dt = .ok t ∧ fromInstant t = .ok dt := by
  refine ⟨specSecs dt, toInstant_spec dt hv, ?_⟩
  have hr := specSecs_range dt hv
  obtain ⟨dt', h, hv', hs⟩ := fromInstant_spec (specSecs dt) hr.1 hr.2
  rcases lex_trichotomy dt' dt with hlt | heq | hgt
  · have := specSecs_lt_of_lex dt' dt hv' hv hlt; omega
  · rw [h, heq]
  · have := specSecs_lt_of_lex dt dt' hv hv' hgt; omega

example : ∃ t, MIN_SUPPORTED_TIMESTAMP ≤ t ∧ t ≤ MAX_SUPPORTED_TIMESTAMP := ⟨0, by decide, by decide⟩

/-! ### 5. Strict monotonicity (with respect to the derived `Ord` of `UtcDateTime`) -/

/-- `from_instant` is strictly increasing: earlier timestamps give smaller date-times in the
lexicographic field order, which is what `#[derive(Ord)]` compares (`cmpDT`). -/
theorem strict_mono (t₁ t₂ : Int) (a b : DT) (ha : fromInstant t₁ = .ok a) (hb : fromInstant t₂ = .ok b)
    (hlt : t₁ < t₂) : cmpDT a b = .lt := by
  obtain ⟨va, sa⟩ := agrees_with_gregorian t₁ a ha
  obtain ⟨vb, sb⟩ := agrees_with_gregorian t₂ b hb
  rw [cmpDT_lt_iff]
  rcases lex_trichotomy a b with h | h | h
  · exact h
  · subst h; omega
  · have := specSecs_lt_of_lex b a vb va h; omega

/-- and conversely the calendar order of valid date-times is the timestamp order -/
theorem order_iff (a b : DT) (ha : Valid a) (hb : Valid b) :
    cmpDT a b = .lt ↔ specSecs a < specSecs b := by
  rw [cmpDT_lt_iff]
  constructor
  · exact specSecs_lt_of_lex a b ha hb
  · intro h
    rcases lex_trichotomy a b with h' | h' | h'
    · exact h'
    · subst h'; omega
    · have := specSecs_lt_of_lex b a hb ha h'; omega

example : cmpDT ⟨1999, 12, 31, 23, 59, 59⟩ ⟨2000, 1, 1, 0, 0, 0⟩ = .lt := by decide

/-! ### 6. Date-time arithmetic agrees with timestamp arithmetic

`add_days/hours/minutes/seconds` (unit `k` = 86400/3600/60/1): the result is `Some` of the valid
date-time whose timestamp is `timestamp(dt) + n·k` when that lies in the supported range, `None`
otherwise (including every `i64` overflow of `checked_mul`/`checked_add`); it never panics. -/
theorem add_commutes (k : Int) (dt : DT) (n : Int) (hv : Valid dt) :
    (∃ dt', addUnits k dt n = .ok (some dt') ∧ Valid dt' ∧ specSecs dt' = specSecs dt + n * k ∧
        MIN_SUPPORTED_TIMESTAMP ≤ specSecs dt + n * k ∧ specSecs dt + n * k ≤ MAX_SUPPORTED_TIMESTAMP)
    ∨ (addUnits k dt n = .ok none ∧
        ¬ (MIN_SUPPORTED_TIMESTAMP ≤ specSecs dt + n * k ∧ specSecs dt + n * k ≤ MAX_SUPPORTED_TIMESTAMP)) := by
  have hr := specSecs_range dt hv
  unfold addUnits instantAdd checkedMul checkedAdd
  rw [toInstant_spec dt hv]
  simp only
  generalize n * k = p
  generalize specSecs dt = t at *
  unfold MIN_SUPPORTED_TIMESTAMP MAX_SUPPORTED_TIMESTAMP at hr
  by_cases hp : inI64 p = true
  · rw [if_pos hp]
    simp only
    by_cases hq : inI64 (t + p) = true
    · rw [if_pos hq]
      simp only
      by_cases hin : MIN_SUPPORTED_TIMESTAMP ≤ t + p ∧ t + p ≤ MAX_SUPPORTED_TIMESTAMP
      · left
        obtain ⟨dt', h, hv', hs⟩ := fromInstant_spec (t + p) hin.1 hin.2
        exact ⟨dt', by rw [h], hv', hs, hin.1, hin.2⟩
      · right
        rw [fromInstant_out_of_range (t + p) (by omega)]
        exact ⟨rfl, hin⟩
    · rw [if_neg hq]
      right
      refine ⟨rfl, ?_⟩
      unfold inI64 I64_MIN I64_MAX at hq
      unfold MIN_SUPPORTED_TIMESTAMP MAX_SUPPORTED_TIMESTAMP
      simp only [Bool.and_eq_true, decide_eq_true_eq] at hq
      omega
  · rw [if_neg hp]
    right
    refine ⟨rfl, ?_⟩
    unfold inI64 I64_MIN I64_MAX at hp
    unfold MIN_SUPPORTED_TIMESTAMP MAX_SUPPORTED_TIMESTAMP
    simp only [Bool.and_eq_true, decide_eq_true_eq] at hp
    omega

example : addUnits 86400 ⟨1968, 2, 29, 0, 0, 0⟩ 2 = .ok (some ⟨1968, 3, 2, 0, 0, 0⟩) := by rfl
example : addUnits 1 ⟨U32_MAX, 12, 31, 23, 59, 59⟩ 1 = .ok none := by rfl

/-! ### 7. Display / FromStr

Strings are byte lists; `from_str` is modelled with Rust's slicing semantics: `&s[a..b]` off a UTF-8
character boundary (or out of range) is the outcome `PErr.panic`. -/

/-- **parse totality**: on every byte string `from_str` answers a date-time or an error — no slice
is ever taken off a character boundary or out of range, and `new` cannot panic. (`notUtf8` only marks
byte lists that are not a `&str` at all.) -/
theorem parse_never_panics (s : List Nat) : fromStr s ≠ .error .panic :=
  fromStr_ne_panic s

/-- whatever `from_str` accepts is a valid calendar date-time -/
theorem parse_ok_valid (s : List Nat) (dt : DT) (h : fromStr s = .ok dt) : Valid dt :=
  fromStr_ok_valid s dt h

/-- **print/parse round trip** for the documented four-digit-year form: every valid date-time with
year ≤ 9999 prints to 20 ASCII bytes that parse back to the same date-time. -/
theorem print_parse (dt : DT) (hv : Valid dt) (hy : dt.year ≤ 9999) :
    (display dt).length = 20 ∧ isAscii (display dt) = true ∧ fromStr (display dt) = .ok dt := by
  have hr := fromStr_display dt hv hy
  refine ⟨?_, ?_, hr⟩
  all_goals
    unfold fromStr at hr
    split at hr
    · cases hr
    · split at hr
      · next chars hdec hc =>
        simp only [Bool.and_eq_true] at hc
        have := decode_ascii _ hc.1
        rw [hdec] at this; cases this
        first | exact shapeOk_length _ hc.2 | exact hc.1
      · cases hr

/- Years above 9999 print with more than four digits (`{:04}` never truncates), so the fixed-width
parser rejects them: the round trip is claimed for 1..9999 only (checked on the implementation by the
`show` stream of the correspondence). -/

example : display ⟨2023, 1, 27, 12, 17, 25⟩ =
    [50, 48, 50, 51, 45, 48, 49, 45, 50, 55, 84, 49, 50, 58, 49, 55, 58, 50, 53, 90] := by
  rw [display_eq _ (by decide) (by decide) (by decide) (by decide) (by decide) (by decide)]
  decide
example : fromStr [50, 48, 50, 51, 45, 48, 49, 45, 50, 55, 84, 49, 50, 58, 49, 55, 58, 50, 53, 90]
    = .ok ⟨2023, 1, 27, 12, 17, 25⟩ := by rfl

/-- The input of the historical defect, `"202é-01-27T12:17:25Z"` (20 characters, 21 bytes):
the code before the `is_ascii` repair sliced at byte 4, inside `é` — a panic … -/
theorem old_fromStr_panics :
    fromStrOld [50, 48, 50, 195, 169, 45, 48, 49, 45, 50, 55, 84, 49, 50, 58, 49, 55, 58, 50, 53, 90]
      = .error .panic := by rfl

/-- … the current code answers `InvalidFormat`. -/
theorem fixed_fromStr_rejects :
    fromStr [50, 48, 50, 195, 169, 45, 48, 49, 45, 50, 55, 84, 49, 50, 58, 49, 55, 58, 50, 53, 90]
      = .error .invalidFormat := by rfl

end Radix.Utc
