/-
C37 — Resource assertions accept exactly the balances they describe.

Property theorems only. Model: `RadixModel/Model/ResConstraint.lean`
(transcription of `radix-common/src/data/manifest/model/manifest_resource_assertion.rs`).

Contents
* the mathematical *meaning* of a constraint (`MeansF` for a fungible amount, `MeansNF` for a set
  of non-fungible ids) — written with `≤`, `=`, `∈`, `⊆` only, independent of the code;
* `validate_fungible_iff_meaning`, `validate_non_fungible_iff_meaning`, `validate_set_iff_meaning`:
  the validation functions accept exactly the balances in the meaning; `*_error_sound`: the error
  they report is true of the balance;
* `normalize_preserves_acceptance_nf`: normalisation never changes the accepted id sets (this even
  holds for every constraint passing `is_valid_independent_of_resource_type`);
* `normalize_preserves_acceptance_fungible_partial` + `normalize_fungible_iff` +
  `normalize_changes_fungible_acceptance`: for fungible use the same statement is FALSE on the
  current code (known finding C37); it holds exactly when `allowed_ids = Any ∨ upper = 0`;
* `valid_implies_satisfiable_*`: a constraint declared valid accepts an explicit witness balance.
-/
import RadixModel.Model.ResConstraint
import RadixModel.Lemmas.ResConstraint

namespace Radix.ResConstraint

/-! ## The meaning of a constraint -/

def LowerBound.Sat : LowerBound → Int → Prop
  | .nonZero, a => a ≠ 0
  | .inclusive d, a => d ≤ a

def UpperBound.Sat : UpperBound → Int → Prop
  | .inclusive d, a => a ≤ d
  | .unbounded, _ => True

def AllowedIds.Sat : AllowedIds → List Nat → Prop
  | .allowlist l, ids => ∀ x ∈ ids, x ∈ l
  | .any, _ => True

/-- bounds on the number of ids, every required id present, every id allowed -/
def General.MeansNF (g : General) (ids : List Nat) : Prop :=
  g.lower.Sat (fromLen ids.length) ∧ g.upper.Sat (fromLen ids.length)
    ∧ (∀ x ∈ g.required, x ∈ ids) ∧ g.allowed.Sat ids

def General.MeansF (g : General) (a : Int) : Prop := g.lower.Sat a ∧ g.upper.Sat a

def Constraint.MeansF : Constraint → Int → Prop
  | .nonZeroAmount, a => a ≠ 0
  | .exactAmount e, a => a = e
  | .atLeastAmount e, a => e ≤ a
  | .exactNF _, _ => False
  | .atLeastNF _, _ => False
  | .general g, a => g.MeansF a

def Constraint.MeansNF : Constraint → List Nat → Prop
  | .nonZeroAmount, ids => ids ≠ []
  | .exactAmount e, ids => fromLen ids.length = e
  | .atLeastAmount e, ids => e ≤ fromLen ids.length
  | .exactNF exp, ids => ∀ x, x ∈ ids ↔ x ∈ exp
  | .atLeastNF exp, ids => ∀ x ∈ exp, x ∈ ids
  | .general g, ids => g.MeansNF ids

/-- For a balance (which is never negative) "non-zero" is "positive". -/
theorem nonzero_balance_iff_positive (a : Int) (h : 0 ≤ a) : a ≠ 0 ↔ 0 < a := by omega

/-! ## validate ⇔ meaning -/

theorem lower_validate_iff (l : LowerBound) (a : Int) : l.validateAmount a = .ok () ↔ l.Sat a := by
  cases l with
  | nonZero => simp only [LowerBound.validateAmount, LowerBound.Sat]; split <;> simp [*]
  | inclusive d =>
    simp only [LowerBound.validateAmount, LowerBound.Sat]; split <;> simp <;> omega

theorem upper_validate_iff (u : UpperBound) (a : Int) : u.validateAmount a = .ok () ↔ u.Sat a := by
  cases u with
  | unbounded => simp [UpperBound.validateAmount, UpperBound.Sat]
  | inclusive d =>
    simp only [UpperBound.validateAmount, UpperBound.Sat]; split <;> simp <;> omega

theorem allowed_validate_iff (al : AllowedIds) (ids : List Nat) :
    al.validateIds ids = .ok () ↔ al.Sat ids := by
  cases al with
  | any => simp [AllowedIds.validateIds, AllowedIds.Sat]
  | allowlist l =>
    simp only [AllowedIds.validateIds, AllowedIds.Sat]
    cases h : firstNotIn ids l with
    | none => simpa using firstNotIn_eq_none.mp h
    | some x =>
      have := firstNotIn_eq_some h
      simp only [reduceCtorEq, false_iff]
      intro hall; exact this.2 (hall x this.1)

theorem general_validateAmount_iff (g : General) (a : Int) :
    g.validateAmount a = .ok () ↔ g.lower.Sat a ∧ g.upper.Sat a := by
  unfold General.validateAmount
  cases h : g.lower.validateAmount a with
  | error e =>
    have : ¬ g.lower.Sat a := by rw [← lower_validate_iff, h]; simp
    simp [this]
  | ok u =>
    have : g.lower.Sat a := by rw [← lower_validate_iff, h]
    simp [this, upper_validate_iff]

theorem general_validate_fungible_iff (g : General) (a : Int) :
    g.validateFungible a = .ok () ↔ g.MeansF a := general_validateAmount_iff g a

theorem general_validate_nf_iff (g : General) (ids : List Nat) :
    g.validateNonFungibleIds ids = .ok () ↔ g.MeansNF ids := by
  unfold General.validateNonFungibleIds General.MeansNF
  cases h : g.validateAmount (fromLen ids.length) with
  | error e =>
    have : ¬ (g.lower.Sat (fromLen ids.length) ∧ g.upper.Sat (fromLen ids.length)) := by
      rw [← general_validateAmount_iff, h]; simp
    simp only [reduceCtorEq, false_iff]
    intro hh; exact this ⟨hh.1, hh.2.1⟩
  | ok u =>
    have hb := (general_validateAmount_iff g _).mp h
    cases hr : firstNotIn g.required ids with
    | some x =>
      have := firstNotIn_eq_some hr
      simp only [reduceCtorEq, false_iff]
      intro hh; exact this.2 (hh.2.2.1 x this.1)
    | none =>
      have hreq := firstNotIn_eq_none.mp hr
      simp only [allowed_validate_iff]
      exact ⟨fun h => ⟨hb.1, hb.2, hreq, h⟩, fun h => h.2.2.2⟩

/-- **validate_iff_meaning (fungible).** `validate_fungible` accepts an amount iff the amount
satisfies the constraint's meaning — for every constraint and every amount. -/
theorem validate_fungible_iff_meaning (c : Constraint) (a : Int) :
    c.validateFungible a = .ok () ↔ c.MeansF a := by
  cases c with
  | nonZeroAmount => simp only [Constraint.validateFungible, Constraint.MeansF]; split <;> simp [*]
  | exactAmount e => simp only [Constraint.validateFungible, Constraint.MeansF]; split <;> simp_all
  | atLeastAmount e =>
    simp only [Constraint.validateFungible, Constraint.MeansF]; split <;> simp <;> omega
  | exactNF _ => simp [Constraint.validateFungible, Constraint.MeansF]
  | atLeastNF _ => simp [Constraint.validateFungible, Constraint.MeansF]
  | general g => exact general_validate_fungible_iff g a

/-- **validate_iff_meaning (non-fungible).** `validate_non_fungible` accepts a set of ids iff the
set satisfies the constraint's meaning — for every constraint and every id set. -/
theorem validate_non_fungible_iff_meaning (c : Constraint) (ids : List Nat) :
    c.validateNonFungible ids = .ok () ↔ c.MeansNF ids := by
  cases c with
  | nonZeroAmount =>
    simp only [Constraint.validateNonFungible, Constraint.MeansNF]
    cases ids <;> simp
  | exactAmount e =>
    simp only [Constraint.validateNonFungible, Constraint.MeansNF]; split <;> simp_all
  | atLeastAmount e =>
    simp only [Constraint.validateNonFungible, Constraint.MeansNF]; split <;> simp <;> omega
  | exactNF exp =>
    simp only [Constraint.validateNonFungible, Constraint.MeansNF]
    cases h1 : firstNotIn exp ids with
    | some x =>
      have := firstNotIn_eq_some h1
      simp only [reduceCtorEq, false_iff]
      intro hh; exact this.2 ((hh x).mpr this.1)
    | none =>
      have he := firstNotIn_eq_none.mp h1
      cases h2 : firstNotIn ids exp with
      | some x =>
        have := firstNotIn_eq_some h2
        simp only [reduceCtorEq, false_iff]
        intro hh; exact this.2 ((hh x).mp this.1)
      | none =>
        have hi := firstNotIn_eq_none.mp h2
        simp only [true_iff]
        exact fun x => ⟨hi x, he x⟩
  | atLeastNF exp =>
    simp only [Constraint.validateNonFungible, Constraint.MeansNF]
    cases h1 : firstNotIn exp ids with
    | some x =>
      have := firstNotIn_eq_some h1
      simp only [reduceCtorEq, false_iff]
      intro hh; exact this.2 (hh x this.1)
    | none => simpa using firstNotIn_eq_none.mp h1
  | general g => exact general_validate_nf_iff g ids

theorem lower_err {l : LowerBound} {a : Int} {e : Err} (h : l.validateAmount a = .error e) :
    (l = .nonZero ∧ a = 0 ∧ e = .expectedNonZero) ∨ (∃ d, l = .inclusive d ∧ a < d ∧ e = .expectedAtLeast d a) := by
  cases l with
  | nonZero =>
    simp only [LowerBound.validateAmount] at h
    split at h
    · cases h; exact Or.inl ⟨rfl, ‹_›, rfl⟩
    · cases h
  | inclusive d =>
    simp only [LowerBound.validateAmount] at h
    split at h
    · cases h; exact Or.inr ⟨d, rfl, ‹_›, rfl⟩
    · cases h

theorem upper_err {u : UpperBound} {a : Int} {e : Err} (h : u.validateAmount a = .error e) :
    ∃ d, u = .inclusive d ∧ d < a ∧ e = .expectedAtMost d a := by
  cases u with
  | unbounded => simp [UpperBound.validateAmount] at h
  | inclusive d =>
    simp only [UpperBound.validateAmount] at h
    split at h
    · cases h; exact ⟨d, rfl, by omega, rfl⟩
    · cases h

theorem allowed_err {al : AllowedIds} {ids : List Nat} {e : Err} (h : al.validateIds ids = .error e) :
    ∃ x l, e = .notAllowed x ∧ al = .allowlist l ∧ x ∈ ids ∧ x ∉ l := by
  cases al with
  | any => simp [AllowedIds.validateIds] at h
  | allowlist l =>
    simp only [AllowedIds.validateIds] at h
    cases hn : firstNotIn ids l with
    | none => rw [hn] at h; cases h
    | some x =>
      rw [hn] at h; cases h
      exact ⟨x, l, rfl, rfl, (firstNotIn_eq_some hn).1, (firstNotIn_eq_some hn).2⟩

/-- The error reported for a non-fungible balance is true of it: a reported missing id is required
and absent, a reported disallowed id is present and not in the allowlist, and amount errors quote
the actual amount `|ids|·10^18` and a bound of the constraint that it violates. -/
theorem validate_non_fungible_error_sound (g : General) (ids : List Nat) (e : Err)
    (h : g.validateNonFungibleIds ids = .error e) :
    (e = .expectedNonZero ∧ g.lower = .nonZero ∧ ids = [])
    ∨ (∃ d, e = .expectedAtLeast d (fromLen ids.length) ∧ g.lower = .inclusive d ∧ fromLen ids.length < d)
    ∨ (∃ d, e = .expectedAtMost d (fromLen ids.length) ∧ g.upper = .inclusive d ∧ d < fromLen ids.length)
    ∨ (∃ x, e = .missing x ∧ x ∈ g.required ∧ x ∉ ids)
    ∨ (∃ x l, e = .notAllowed x ∧ g.allowed = .allowlist l ∧ x ∈ ids ∧ x ∉ l) := by
  unfold General.validateNonFungibleIds General.validateAmount at h
  cases hl : g.lower.validateAmount (fromLen ids.length) with
  | error e1 =>
    rw [hl] at h; cases h
    rcases lower_err hl with ⟨h1, h2, h3⟩ | ⟨d, h1, h2, h3⟩
    · refine Or.inl ⟨h3, h1, ?_⟩
      have : ids.length = 0 := (@fromLen_inj ids.length 0).mp (by rw [h2]; rfl)
      exact List.eq_nil_of_length_eq_zero this
    · exact Or.inr (Or.inl ⟨d, h3, h1, h2⟩)
  | ok u1 =>
    rw [hl] at h
    cases hu : g.upper.validateAmount (fromLen ids.length) with
    | error e1 =>
      rw [hu] at h; cases h
      obtain ⟨d, h1, h2, h3⟩ := upper_err hu
      exact Or.inr (Or.inr (Or.inl ⟨d, h3, h1, h2⟩))
    | ok u2 =>
      rw [hu] at h
      cases hr : firstNotIn g.required ids with
      | some x =>
        rw [hr] at h; cases h
        exact Or.inr (Or.inr (Or.inr (Or.inl ⟨x, rfl, firstNotIn_eq_some hr⟩)))
      | none =>
        rw [hr] at h
        exact Or.inr (Or.inr (Or.inr (Or.inr (allowed_err h))))

/-! ## Normalisation -/

/-- the lower bound after the first step of `normalize` -/
def normLower (g : General) : LowerBound :=
  if g.lower.equiv < fromLen g.required.length then .inclusive (fromLen g.required.length) else g.lower

/-- the upper bound after the first step of `normalize` -/
def normUpper (g : General) : UpperBound :=
  match g.allowed with
  | .allowlist l => if fromLen l.length < g.upper.equiv then .inclusive (fromLen l.length) else g.upper
  | .any => g.upper

theorem normalize_any (g : General) (hal : g.allowed = .any) :
    g.normalize = if fromLen g.required.length = (normUpper g).equiv
      then { required := g.required, lower := normLower g, upper := normUpper g, allowed := .allowlist g.required }
      else { required := g.required, lower := normLower g, upper := normUpper g, allowed := .any } := by
  unfold General.normalize normLower normUpper
  simp only [hal, if_true]

theorem normalize_allowlist (g : General) (l : List Nat) (hal : g.allowed = .allowlist l) :
    g.normalize =
      if l.length > g.required.length then
        if fromLen g.required.length = (normUpper g).equiv
        then { required := g.required, lower := normLower g, upper := normUpper g, allowed := .allowlist g.required }
        else if fromLen l.length = (normLower g).equiv
        then { required := l, lower := normLower g, upper := normUpper g, allowed := .allowlist l }
        else { required := g.required, lower := normLower g, upper := normUpper g, allowed := .allowlist l }
      else { required := g.required, lower := normLower g, upper := normUpper g, allowed := .allowlist l } := by
  unfold General.normalize normLower normUpper
  simp only [hal, decide_eq_true_eq]

theorem validIndependent_allowlist {g : General} (hv : g.validIndependent = true) {l : List Nat}
    (hal : g.allowed = .allowlist l) :
    g.lower.equiv ≤ g.upper.equiv ∧ fromLen g.required.length ≤ g.upper.equiv
      ∧ g.lower.equiv ≤ fromLen l.length ∧ g.required.length ≤ l.length ∧ ∀ x ∈ g.required, x ∈ l := by
  unfold General.validIndependent at hv
  simp only [hal] at hv
  by_cases h1 : g.lower.equiv > g.upper.equiv
  · simp [h1] at hv
  · by_cases h2 : fromLen g.required.length > g.upper.equiv
    · simp [h1, h2] at hv
    · by_cases h3 : g.lower.equiv > fromLen l.length
      · simp [h1, h2, h3] at hv
      · simp only [h1, h2, h3, if_false] at hv
        have hs : isSubset g.required l = true := by
          cases hss : isSubset g.required l with
          | true => rfl
          | false => simp [hss] at hv
        exact ⟨by omega, by omega, by omega, (isSubset_imp hs).1, (isSubset_imp hs).2⟩

theorem validIndependent_any {g : General} (hv : g.validIndependent = true) :
    g.lower.equiv ≤ g.upper.equiv ∧ fromLen g.required.length ≤ g.upper.equiv := by
  unfold General.validIndependent at hv
  by_cases h1 : g.lower.equiv > g.upper.equiv
  · simp [h1] at hv
  · by_cases h2 : fromLen g.required.length > g.upper.equiv
    · simp [h1, h2] at hv
    · exact ⟨by omega, by omega⟩

/-- Step 1 of `normalize` (raise the lower bound to `|required|`) does not change acceptance of
any id set containing the required ids. -/
theorem normLower_sat (g : General) (hreq : g.required.Nodup) (ids : List Nat)
    (h : ∀ x ∈ g.required, x ∈ ids) :
    (normLower g).Sat (fromLen ids.length) ↔ g.lower.Sat (fromLen ids.length) := by
  have hle := length_le_of_subset hreq h
  unfold normLower
  split
  · rename_i hlt
    cases hl : g.lower with
    | nonZero =>
      simp only [hl, LowerBound.equiv] at hlt
      simp only [LowerBound.Sat, fromLen_def] at hlt ⊢
      omega
    | inclusive d =>
      simp only [hl, LowerBound.equiv] at hlt
      simp only [LowerBound.Sat, fromLen_def] at hlt ⊢
      omega
  · exact Iff.rfl

/-- Step 1 of `normalize` (lower the upper bound to `|allowlist|`) does not change acceptance of
any duplicate-free id set inside the allowlist. -/
theorem normUpper_sat (g : General) (ids : List Nat) (hids : ids.Nodup) (h : g.allowed.Sat ids) :
    (normUpper g).Sat (fromLen ids.length) ↔ g.upper.Sat (fromLen ids.length) := by
  unfold normUpper
  cases hal : g.allowed with
  | any => exact Iff.rfl
  | allowlist l =>
    rw [hal] at h
    have hle := length_le_of_subset hids h
    simp only
    split
    · rename_i hlt
      cases hu : g.upper with
      | unbounded => simp [UpperBound.Sat, fromLen_le, hle]
      | inclusive d =>
        simp only [hu, UpperBound.equiv] at hlt
        simp only [UpperBound.Sat, fromLen_def] at hlt ⊢
        omega
    · exact Iff.rfl

theorem normUpper_equiv_any (g : General) (hal : g.allowed = .any) : normUpper g = g.upper := by
  unfold normUpper; simp only [hal]

/-- **normalize_preserves_acceptance (non-fungible), on meanings.** -/
theorem normalize_meansNF (g : General) (hv : g.validIndependent = true) (hreq : g.required.Nodup)
    (ids : List Nat) (hids : ids.Nodup) : g.normalize.MeansNF ids ↔ g.MeansNF ids := by
  -- the constraint after step 1 has the same meaning
  have step1 : ∀ (al : AllowedIds), (al.Sat ids → g.allowed.Sat ids) →
      (((normLower g).Sat (fromLen ids.length) ∧ (normUpper g).Sat (fromLen ids.length)
        ∧ (∀ x ∈ g.required, x ∈ ids) ∧ g.allowed.Sat ids) ↔ g.MeansNF ids) := by
    intro _ _
    unfold General.MeansNF
    constructor
    · rintro ⟨a, b, c, d⟩
      exact ⟨(normLower_sat g hreq ids c).mp a, (normUpper_sat g ids hids d).mp b, c, d⟩
    · rintro ⟨a, b, c, d⟩
      exact ⟨(normLower_sat g hreq ids c).mpr a, (normUpper_sat g ids hids d).mpr b, c, d⟩
  have base := step1 g.allowed id
  -- if `|required| = upper'`, an accepted id set is exactly the required set
  have exact_req : fromLen g.required.length = (normUpper g).equiv →
      (normUpper g).Sat (fromLen ids.length) → (∀ x ∈ g.required, x ∈ ids) → ∀ x ∈ ids, x ∈ g.required := by
    intro he hb hr
    apply superset_subset_of_length_le hreq hr
    cases hu : normUpper g with
    | unbounded =>
      rw [hu] at he; simp only [UpperBound.equiv] at he
      exact absurd he (fromLen_ne_DMAX _)
    | inclusive d =>
      rw [hu] at he hb; simp only [UpperBound.equiv, UpperBound.Sat] at he hb
      rw [← he] at hb
      exact fromLen_le.mp hb
  cases hal : g.allowed with
  | any =>
    rw [normalize_any g hal]
    split
    · rename_i he
      rw [← base]
      simp only [General.MeansNF, AllowedIds.Sat, hal]
      constructor
      · rintro ⟨a, b, c, _⟩; exact ⟨a, b, c, trivial⟩
      · rintro ⟨a, b, c, _⟩; exact ⟨a, b, c, exact_req he b c⟩
    · rw [← base]
      simp only [General.MeansNF, hal]
  | allowlist l =>
    obtain ⟨_, _, _, hlen, hsub⟩ := validIndependent_allowlist hv hal
    rw [normalize_allowlist g l hal]
    split
    · split
      · rename_i _ he
        rw [← base]
        simp only [General.MeansNF, AllowedIds.Sat, hal]
        constructor
        · rintro ⟨a, b, c, d⟩; exact ⟨a, b, c, fun x hx => hsub x (d x hx)⟩
        · rintro ⟨a, b, c, _⟩; exact ⟨a, b, c, exact_req he b c⟩
      · split
        · rename_i _ _ he
          rw [← base]
          simp only [General.MeansNF, AllowedIds.Sat, hal]
          constructor
          · rintro ⟨a, b, c, d⟩; exact ⟨a, b, fun x hx => c x (hsub x hx), d⟩
          · rintro ⟨a, b, _, d⟩
            refine ⟨a, b, ?_, d⟩
            -- `|allowlist| = lower'` and `ids ⊆ allowlist` force `ids = allowlist`
            apply superset_subset_of_length_le hids d
            cases hl : normLower g with
            | nonZero =>
              rw [hl] at he; simp only [LowerBound.equiv, fromLen_def] at he; omega
            | inclusive dd =>
              rw [hl] at he a; simp only [LowerBound.equiv, LowerBound.Sat] at he a
              rw [← he] at a
              exact fromLen_le.mp a
        · rw [← base]
          simp only [General.MeansNF, hal]
    · rw [← base]
      simp only [General.MeansNF, hal]

/-- **normalize_preserves_acceptance (non-fungible).** For every general constraint that passes
`is_valid_independent_of_resource_type` (in particular every constraint valid for non-fungible
use) and every set of ids, `validate_non_fungible_ids` accepts the set after `normalize` iff it
accepted it before. (`Nodup`: `IndexSet`s have no duplicates.) -/
theorem normalize_preserves_acceptance_nf (g : General) (hv : g.validIndependent = true)
    (hreq : g.required.Nodup) (ids : List Nat) (hids : ids.Nodup) :
    g.normalize.validateNonFungibleIds ids = .ok () ↔ g.validateNonFungibleIds ids = .ok () := by
  rw [general_validate_nf_iff, general_validate_nf_iff]
  exact normalize_meansNF g hv hreq ids hids

theorem validNonFungible_validIndependent {g : General} (h : g.validNonFungible = true) :
    g.validIndependent = true := by
  simp only [General.validNonFungible, Bool.and_eq_true] at h; exact h.2

/-- The same, stated for `is_valid_for_non_fungible_use` and the top-level constraint. -/
theorem normalize_preserves_acceptance_nf' (g : General) (hv : g.validNonFungible = true)
    (hreq : g.required.Nodup) (ids : List Nat) (hids : ids.Nodup) :
    (Constraint.general g.normalize).validateNonFungible ids = .ok ()
      ↔ (Constraint.general g).validateNonFungible ids = .ok () :=
  normalize_preserves_acceptance_nf g (validNonFungible_validIndependent hv) hreq ids hids

-- non-vacuity: a valid constraint on which every branch of `normalize` does something
example : (General.mk [1, 2] .nonZero (.inclusive (fromLen 5)) (.allowlist [1, 2, 3])).validNonFungible = true
    ∧ (General.mk [1, 2] .nonZero (.inclusive (fromLen 5)) (.allowlist [1, 2, 3])).normalize
        = General.mk [1, 2] (.inclusive (fromLen 2)) (.inclusive (fromLen 3)) (.allowlist [1, 2, 3]) := by
  decide

/-! ## Normalisation, fungible use -/

theorem normalize_lower_upper (g : General) :
    g.normalize.lower = normLower g ∧ g.normalize.upper = normUpper g := by
  cases hal : g.allowed with
  | any => rw [normalize_any g hal]; split <;> exact ⟨rfl, rfl⟩
  | allowlist l =>
    rw [normalize_allowlist g l hal]
    split
    · split
      · exact ⟨rfl, rfl⟩
      · split <;> exact ⟨rfl, rfl⟩
    · exact ⟨rfl, rfl⟩

theorem validFungible_facts {g : General} (h : g.validFungible = true) :
    g.required = [] ∧ 0 ≤ g.lower.equiv ∧ 0 ≤ g.upper.equiv
      ∧ (g.allowed = .any ∨ g.allowed = .allowlist []) ∧ g.validIndependent = true := by
  simp only [General.validFungible, Bool.and_eq_true] at h
  obtain ⟨⟨⟨⟨h1, h2⟩, h3⟩, h4⟩, h5⟩ := h
  refine ⟨by simpa using h1, ?_, ?_, ?_, h5⟩
  · cases hl : g.lower with
    | nonZero => simp [LowerBound.equiv]
    | inclusive d => rw [hl] at h2; simp only [LowerBound.validFungible, Bool.not_eq_true', decide_eq_false_iff_not] at h2; simp only [LowerBound.equiv]; omega
  · cases hu : g.upper with
    | unbounded => simp [UpperBound.equiv, DMAX]
    | inclusive d => rw [hu] at h3; simp only [UpperBound.validFungible, Bool.not_eq_true', decide_eq_false_iff_not] at h3; simp only [UpperBound.equiv]; omega
  · cases hal : g.allowed with
    | any => exact Or.inl rfl
    | allowlist l =>
      rw [hal] at h4
      simp only [AllowedIds.validFungible, List.isEmpty_iff] at h4
      exact Or.inr (by rw [h4])

/-- **normalize_preserves_acceptance (fungible) — PARTIAL.**
Full statement (FALSE on the current code, see `normalize_changes_fungible_acceptance`):
  `∀ g a, g.validFungible → (g.normalize.validateFungible a = .ok () ↔ g.validateFungible a = .ok ())`.
Proved here under the extra hypothesis `allowed_ids = Any ∨ upper bound = 0` (which
`normalize_fungible_iff` shows to be exactly the missing condition). -/
theorem normalize_preserves_acceptance_fungible_partial (g : General) (hv : g.validFungible = true)
    (hx : g.allowed = .any ∨ g.upper.equiv = 0) (a : Int) :
    g.normalize.validateFungible a = .ok () ↔ g.validateFungible a = .ok () := by
  obtain ⟨hreq, hl0, _, hal, _⟩ := validFungible_facts hv
  have hlow : normLower g = g.lower := by
    unfold normLower
    have hc : ¬ (g.lower.equiv < fromLen g.required.length) := by
      rw [hreq]; simp only [List.length_nil, fromLen_def]; omega
    rw [if_neg hc]
  have hup : normUpper g = g.upper := by
    unfold normUpper
    rcases hal with hal | hal
    · simp only [hal]
    · simp only [hal]
      rcases hx with hx | hx
      · rw [hal] at hx; cases hx
      · have hc : ¬ (fromLen ([] : List Nat).length < g.upper.equiv) := by
          simp only [List.length_nil, fromLen_def]; omega
        rw [if_neg hc]
  rw [general_validate_fungible_iff, general_validate_fungible_iff]
  unfold General.MeansF
  rw [(normalize_lower_upper g).1, (normalize_lower_upper g).2, hlow, hup]

-- non-vacuity of the hypotheses (a fungible constraint whose allowlist is rewritten by `normalize`)
example : (General.mk [] (.inclusive 0) (.inclusive 0) .any).validFungible = true
    ∧ (General.mk [] (.inclusive 0) (.inclusive 0) .any).normalize.allowed = .allowlist [] := by decide

/-- **Refutation of the full fungible statement (known finding C37).** The constraint
`{required: ∅, lower: ≥0, upper: unbounded, allowed: Allowlist(∅)}` is valid for fungible use and
accepts the balance of 1 atto; after `normalize` (upper bound capped by `|allowlist| = 0`) it
rejects it. -/
theorem normalize_changes_fungible_acceptance :
    ∃ (g : General) (a : Int), g.validFungible = true ∧ 0 ≤ a
      ∧ g.validateFungible a = .ok () ∧ g.normalize.validateFungible a ≠ .ok () :=
  ⟨⟨[], .inclusive 0, .unbounded, .allowlist []⟩, 1, by decide⟩

/-- **Exact characterisation.** For a constraint valid for fungible use, `normalize` preserves the
accepted amounts if and only if `allowed_ids = Any` or the upper bound is zero. -/
theorem normalize_fungible_iff (g : General) (hv : g.validFungible = true) :
    (∀ a : Int, 0 ≤ a → (g.normalize.validateFungible a = .ok () ↔ g.validateFungible a = .ok ()))
      ↔ (g.allowed = .any ∨ g.upper.equiv = 0) := by
  constructor
  · intro h
    obtain ⟨hreq, hl0, hu0, hal, hvi⟩ := validFungible_facts hv
    rcases hal with hal | hal
    · exact Or.inl hal
    · right
      apply Classical.byContradiction
      intro hne
      have hpos : 0 < g.upper.equiv := by omega
      obtain ⟨_, _, hla, _, _⟩ := validIndependent_allowlist hvi hal
      simp only [List.length_nil, fromLen_def] at hla
      have hlower : g.lower = .inclusive 0 := by
        cases hl : g.lower with
        | nonZero => rw [hl] at hla; simp [LowerBound.equiv] at hla
        | inclusive d => rw [hl] at hla hl0; simp only [LowerBound.equiv] at hla hl0; congr; omega
      have hupn : normUpper g = .inclusive 0 := by
        unfold normUpper
        simp only [hal]
        have hc : fromLen ([] : List Nat).length < g.upper.equiv := by
          simp only [List.length_nil, fromLen_def]; omega
        rw [if_pos hc]; rfl
      have := h g.upper.equiv hu0
      rw [general_validate_fungible_iff, general_validate_fungible_iff] at this
      unfold General.MeansF at this
      rw [(normalize_lower_upper g).1, (normalize_lower_upper g).2, hupn] at this
      have hacc : g.lower.Sat g.upper.equiv ∧ g.upper.Sat g.upper.equiv := by
        refine ⟨by rw [hlower]; exact hu0, ?_⟩
        cases hu : g.upper with
        | unbounded => trivial
        | inclusive d => simp [UpperBound.Sat, UpperBound.equiv]
      have hb := (this.mpr hacc).2
      simp only [UpperBound.Sat] at hb
      omega
  · intro hx a _
    exact normalize_preserves_acceptance_fungible_partial g hv hx a

/-! ## valid ⇒ satisfiable -/

/-- **valid_implies_satisfiable (general, fungible use).** The witness is the lower bound itself
(1 atto for `NonZero`). -/
theorem general_valid_implies_satisfiable_fungible (g : General) (hv : g.validFungible = true) :
    0 ≤ g.lower.equiv ∧ g.validateFungible g.lower.equiv = .ok () := by
  obtain ⟨_, hl0, _, _, hvi⟩ := validFungible_facts hv
  refine ⟨hl0, ?_⟩
  rw [general_validate_fungible_iff]
  have hle : g.lower.equiv ≤ g.upper.equiv := by
    cases hal : g.allowed with
    | any => exact (validIndependent_any hvi).1
    | allowlist l => exact (validIndependent_allowlist hvi hal).1
  constructor
  · cases hl : g.lower with
    | nonZero => simp [LowerBound.Sat, LowerBound.equiv]
    | inclusive d => simp [LowerBound.Sat, LowerBound.equiv]
  · cases hu : g.upper with
    | unbounded => trivial
    | inclusive d => rw [hu] at hle; simpa [UpperBound.Sat, UpperBound.equiv] using hle

theorem valid_implies_satisfiable_fungible (c : Constraint) (hv : c.validFungible = true) :
    ∃ a : Int, 0 ≤ a ∧ c.validateFungible a = .ok () := by
  cases c with
  | nonZeroAmount => exact ⟨1, by decide, by decide⟩
  | exactAmount e =>
    simp only [Constraint.validFungible, Bool.not_eq_true', decide_eq_false_iff_not] at hv
    exact ⟨e, by omega, by simp [Constraint.validateFungible]⟩
  | atLeastAmount e =>
    simp only [Constraint.validFungible, Bool.not_eq_true', decide_eq_false_iff_not] at hv
    exact ⟨e, by omega, by simp [Constraint.validateFungible]⟩
  | exactNF _ => simp [Constraint.validFungible] at hv
  | atLeastNF _ => simp [Constraint.validFungible] at hv
  | general g =>
    exact ⟨g.lower.equiv, (general_valid_implies_satisfiable_fungible g hv).1,
      (general_valid_implies_satisfiable_fungible g hv).2⟩

/-- how many ids the lower bound asks for -/
def lowerCount : LowerBound → Nat
  | .nonZero => 1
  | .inclusive d => (d / ONE).toNat

/-- The explicit witness balance: the required ids, topped up to the lower bound with ids from
the allowlist (or with fresh ids when every id is allowed). -/
def witnessNF (g : General) : List Nat :=
  let n := max g.required.length (lowerCount g.lower)
  g.required ++ (match g.allowed with
    | .allowlist l => (l.filter (fun x => !g.required.contains x)).take (n - g.required.length)
    | .any => fresh g.required (n - g.required.length))

theorem lowerCount_fromLen (k : Nat) : lowerCount (.inclusive (fromLen k)) = k := by
  simp only [lowerCount, fromLen_def, ONE]; omega

/-- **valid_implies_satisfiable (general, non-fungible use).** `witnessNF g` is a duplicate-free
id set accepted by `g`. -/
theorem general_valid_implies_satisfiable_nf (g : General) (hv : g.validNonFungible = true)
    (hreq : g.required.Nodup) (hallow : ∀ l, g.allowed = .allowlist l → l.Nodup) :
    (witnessNF g).Nodup ∧ g.validateNonFungibleIds (witnessNF g) = .ok () := by
  have hvi := validNonFungible_validIndependent hv
  simp only [General.validNonFungible, Bool.and_eq_true] at hv
  obtain ⟨⟨hvl, hvu⟩, _⟩ := hv
  -- numeric facts
  have hLU : g.lower.equiv ≤ g.upper.equiv ∧ fromLen g.required.length ≤ g.upper.equiv := by
    cases hal : g.allowed with
    | any => exact validIndependent_any hvi
    | allowlist l => exact ⟨(validIndependent_allowlist hvi hal).1, (validIndependent_allowlist hvi hal).2.1⟩
  -- the lower bound in terms of `lowerCount`
  have hlower : ∀ n : Nat, lowerCount g.lower ≤ n → g.lower.Sat (fromLen n) := by
    intro n hn
    cases hl : g.lower with
    | nonZero => rw [hl] at hn; simp only [lowerCount] at hn; simp only [LowerBound.Sat, fromLen_def]; omega
    | inclusive d =>
      rw [hl] at hvl hn
      obtain ⟨k, rfl⟩ := (nonNegInteger_iff d).mp hvl
      rw [lowerCount_fromLen] at hn
      exact fromLen_le.mpr hn
  have hcount_le : ∀ m : Nat, g.lower.equiv ≤ fromLen m → lowerCount g.lower ≤ m := by
    intro m hm
    cases hl : g.lower with
    | nonZero => rw [hl] at hm; simp only [LowerBound.equiv, fromLen_def] at hm; simp only [lowerCount]; omega
    | inclusive d =>
      rw [hl] at hvl hm
      obtain ⟨k, rfl⟩ := (nonNegInteger_iff d).mp hvl
      rw [lowerCount_fromLen]
      exact fromLen_le.mp hm
  have hupper : ∀ n : Nat, n = max g.required.length (lowerCount g.lower) → g.upper.Sat (fromLen n) := by
    intro n hn
    cases hu : g.upper with
    | unbounded => trivial
    | inclusive d =>
      rw [hu] at hvu hLU
      obtain ⟨m, rfl⟩ := (nonNegInteger_iff d).mp hvu
      simp only [UpperBound.equiv] at hLU
      have h1 := hcount_le m hLU.1
      have h2 := fromLen_le.mp hLU.2
      simp only [UpperBound.Sat]
      apply fromLen_le.mpr
      omega
  unfold witnessNF
  cases hal : g.allowed with
  | any =>
    simp only
    have hlen : (g.required ++ fresh g.required (max g.required.length (lowerCount g.lower) - g.required.length)).length
        = max g.required.length (lowerCount g.lower) := by
      simp only [List.length_append, fresh_length]; omega
    refine ⟨?_, ?_⟩
    · rw [List.nodup_append]
      refine ⟨hreq, fresh_nodup _ _, ?_⟩
      intro a ha b hb hab
      subst hab
      exact fresh_not_mem hb ha
    · rw [general_validate_nf_iff]
      unfold General.MeansNF
      rw [hlen]
      refine ⟨hlower _ (by omega), hupper _ rfl, ?_, ?_⟩
      · intro x hx; exact List.mem_append_left _ hx
      · rw [hal]; trivial
  | allowlist l =>
    simp only
    obtain ⟨_, _, hla, hrl, hsub⟩ := validIndependent_allowlist hvi hal
    have hnl : max g.required.length (lowerCount g.lower) ≤ l.length := by
      have := hcount_le l.length hla; omega
    have hfl := @filter_notin_length g.required l (hallow l hal)
    have hlen : (g.required ++ (l.filter (fun x => !g.required.contains x)).take
        (max g.required.length (lowerCount g.lower) - g.required.length)).length
        = max g.required.length (lowerCount g.lower) := by
      simp only [List.length_append, List.length_take]; omega
    refine ⟨?_, ?_⟩
    · rw [List.nodup_append]
      refine ⟨hreq, ?_, ?_⟩
      · exact ((hallow l hal).sublist List.filter_sublist).sublist (List.take_sublist _ _)
      · intro a ha b hb hab
        subst hab
        have := List.mem_of_mem_take hb
        simp only [List.mem_filter] at this
        simp at this
        exact this.2 ha
    · rw [general_validate_nf_iff]
      unfold General.MeansNF
      rw [hlen]
      refine ⟨hlower _ (by omega), hupper _ rfl, ?_, ?_⟩
      · intro x hx; exact List.mem_append_left _ hx
      · rw [hal]
        intro x hx
        rcases List.mem_append.mp hx with hx | hx
        · exact hsub x hx
        · exact (List.mem_filter.mp (List.mem_of_mem_take hx)).1

-- non-vacuity: a valid constraint whose witness needs ids from the allowlist
example : (General.mk [1] (.inclusive (fromLen 3)) .unbounded (.allowlist [4, 1, 2, 3])).validNonFungible = true
    ∧ witnessNF (General.mk [1] (.inclusive (fromLen 3)) .unbounded (.allowlist [4, 1, 2, 3])) = [1, 4, 2] := by
  decide

/-- **valid_implies_satisfiable (every constraint kind, non-fungible use).** -/
theorem valid_implies_satisfiable_nf (c : Constraint) (hv : c.validNonFungible = true)
    (hwf : match c with
      | .exactNF ids => ids.Nodup
      | .atLeastNF ids => ids.Nodup
      | .general g => g.required.Nodup ∧ ∀ l, g.allowed = .allowlist l → l.Nodup
      | _ => True) :
    ∃ ids : List Nat, ids.Nodup ∧ c.validateNonFungible ids = .ok () := by
  cases c with
  | nonZeroAmount => exact ⟨[0], by decide, by decide⟩
  | exactAmount e =>
    obtain ⟨k, rfl⟩ := (nonNegInteger_iff e).mp hv
    exact ⟨fresh [] k, fresh_nodup _ _, by simp [Constraint.validateNonFungible, fresh_length]⟩
  | atLeastAmount e =>
    obtain ⟨k, rfl⟩ := (nonNegInteger_iff e).mp hv
    exact ⟨fresh [] k, fresh_nodup _ _, by simp [Constraint.validateNonFungible, fresh_length]⟩
  | exactNF ids =>
    refine ⟨ids, hwf, ?_⟩
    rw [validate_non_fungible_iff_meaning]; exact fun _ => Iff.rfl
  | atLeastNF ids =>
    refine ⟨ids, hwf, ?_⟩
    rw [validate_non_fungible_iff_meaning]; exact fun _ h => h
  | general g =>
    exact ⟨witnessNF g, general_valid_implies_satisfiable_nf g hv hwf.1 hwf.2⟩

/-! ## `ManifestResourceConstraints::validate` -/

/-- the balance the code looks at for a specified resource (zero / empty when absent) -/
def Accepts (fung : List (Addr × Int)) (nf : List (Addr × List Nat)) (ac : Addr × Constraint) : Prop :=
  if ac.1.1 then ac.2.MeansF ((lookup fung ac.1).getD 0) else ac.2.MeansNF ((lookup nf ac.1).getD [])

theorem validateEach_iff (fung : List (Addr × Int)) (nf : List (Addr × List Nat))
    (spec : List (Addr × Constraint)) :
    validateEach fung nf spec = .ok () ↔ ∀ ac ∈ spec, Accepts fung nf ac := by
  induction spec with
  | nil => simp [validateEach]
  | cons ac rest ih =>
    obtain ⟨a, c⟩ := ac
    simp only [validateEach, List.forall_mem_cons]
    cases hf : a.1 with
    | true =>
      simp only [if_true]
      cases hr : c.validateFungible ((lookup fung a).getD 0) with
      | error e =>
        have : ¬ c.MeansF ((lookup fung a).getD 0) := by rw [← validate_fungible_iff_meaning, hr]; simp
        simp [Accepts, hf, this]
      | ok u =>
        have : c.MeansF ((lookup fung a).getD 0) := by rw [← validate_fungible_iff_meaning, hr]
        simp [Accepts, hf, this, ih]
    | false =>
      simp only [Bool.false_eq_true, if_false]
      cases hr : c.validateNonFungible ((lookup nf a).getD []) with
      | error e =>
        have : ¬ c.MeansNF ((lookup nf a).getD []) := by rw [← validate_non_fungible_iff_meaning, hr]; simp
        simp [Accepts, hf, this]
      | ok u =>
        have : c.MeansNF ((lookup nf a).getD []) := by rw [← validate_non_fungible_iff_meaning, hr]
        simp [Accepts, hf, this, ih]

/-- **validate_iff_meaning (a whole set of constraints against aggregate balances).**
`ManifestResourceConstraints::validate` accepts iff every specified constraint's meaning holds of
that resource's balance (zero / empty if the resource is absent) and — for the `…_only` form —
no unspecified resource has a positive balance. -/
theorem validate_set_iff_meaning (spec : List (Addr × Constraint)) (fung : List (Addr × Int))
    (nf : List (Addr × List Nat)) (prevent : Bool) :
    validateSet spec fung nf prevent = .ok () ↔
      ((prevent = true → (∀ kv ∈ fung, kv.2 > 0 → hasKey spec kv.1 = true)
          ∧ (∀ kv ∈ nf, kv.2 ≠ [] → hasKey spec kv.1 = true))
        ∧ ∀ ac ∈ spec, Accepts fung nf ac) := by
  unfold validateSet
  cases prevent with
  | false => simp [validateEach_iff]
  | true =>
    simp only [if_true, true_imp_iff]
    cases h1 : fung.find? (fun kv => !(hasKey spec kv.1) && decide (kv.2 > 0)) with
    | some kv =>
      have hm := List.mem_of_find?_eq_some h1
      have hp := List.find?_some h1
      simp only [Bool.and_eq_true, Bool.not_eq_true', decide_eq_true_eq] at hp
      simp only [reduceCtorEq, false_iff]
      rintro ⟨⟨hh, _⟩, _⟩
      have := hh kv hm hp.2
      rw [hp.1] at this; cases this
    | none =>
      have hf : ∀ kv ∈ fung, kv.2 > 0 → hasKey spec kv.1 = true := by
        intro kv hm hpos
        have := List.find?_eq_none.mp h1 kv hm
        simp only [Bool.and_eq_true, Bool.not_eq_true', decide_eq_true_eq, not_and] at this
        cases hk : hasKey spec kv.1 with
        | true => rfl
        | false => exact absurd hpos (this hk)
      cases h2 : nf.find? (fun kv => !(hasKey spec kv.1) && !kv.2.isEmpty) with
      | some kv =>
        have hm := List.mem_of_find?_eq_some h2
        have hp := List.find?_some h2
        simp only [Bool.and_eq_true, Bool.not_eq_true', List.isEmpty_eq_false_iff] at hp
        simp only [reduceCtorEq, false_iff]
        rintro ⟨⟨_, hh⟩, _⟩
        have := hh kv hm hp.2
        rw [hp.1] at this; cases this
      | none =>
        have hn : ∀ kv ∈ nf, kv.2 ≠ [] → hasKey spec kv.1 = true := by
          intro kv hm hne
          have := List.find?_eq_none.mp h2 kv hm
          simp only [Bool.and_eq_true, Bool.not_eq_true', List.isEmpty_eq_false_iff, not_and] at this
          cases hk : hasKey spec kv.1 with
          | true => rfl
          | false => exact absurd hne (this hk)
        simp only [validateEach_iff]
        exact ⟨fun h => ⟨⟨hf, hn⟩, h⟩, fun h => h.2⟩

end Radix.ResConstraint
