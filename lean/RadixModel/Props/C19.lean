/-
C19 — A crash during a Merkle-store commit leaves a consistent store.

Model (`RadixModel/Model/Stores.lean`): a commit is a *plan* = list of individual writes, each an
atomic group of operations (RocksDB `WriteBatch` atomicity and durability are trusted); stopping
after `k` writes leaves `crashAt pre plan k`. `commitPlan` transcribes the commit as the code is
now (one batch: substates + new tree nodes + metadata; then one direct delete per pruned node);
the correspondence check compares this plan with the write-ahead-log records of real commits and
reopens the real store at every record boundary.

`cm : Flat → γ` is the state commitment (the Merkle root of the substates — C17); a store is
consistent when its recorded root is the commitment of the substates it holds.
-/
import RadixModel.Model.Stores

namespace Radix.Stores

variable {γ : Type}

def Consistent (cm : Flat → γ) (s : MStore γ) : Prop := s.root = cm s.sub

/-- substate operations replayed on the substate map alone -/
def applySubOp (m : Flat) : WOp γ → Flat
  | .subPut k v => fput m k v
  | .subDel k => fdel m k
  | .subDelRange lo hi => fdelRange m lo hi
  | _ => m

theorem applyWrite_sub (w : Write γ) : ∀ s : MStore γ, (applyWrite s w).sub = w.foldl applySubOp s.sub := by
  induction w with
  | nil => intro s; rfl
  | cons o t ih =>
    intro s
    simp only [applyWrite, List.foldl_cons] at *
    rw [ih]
    cases o <;> rfl

theorem foldl_applySubOp_append (a b : List (WOp γ)) (m : Flat) :
    (a ++ b).foldl applySubOp m = b.foldl applySubOp (a.foldl applySubOp m) := List.foldl_append

theorem nodePuts_sub (ns : List Nat) (m : Flat) : (ns.map (WOp.nodePut (γ := γ))).foldl applySubOp m = m := by
  induction ns generalizing m with
  | nil => rfl
  | cons n t ih => simpa [applySubOp] using ih m

/-- the substate operations of a commit are exactly the commit of the plain RocksDB store (C15's model) -/
theorem subOps_eq_commit (u : Updates) : ∀ m : Flat, (subOps (γ := γ) u).foldl applySubOp m = commit m u := by
  induction u with
  | nil => intro m; rfl
  | cons e t ih =>
    intro m
    simp only [subOps, List.flatMap_cons, commit, List.foldl_cons] at *
    rw [List.foldl_append, ih]
    congr 1
    obtain ⟨node, pn, pu⟩ := e
    cases pu with
    | delta ups =>
      simp only [partOps, commitPart]
      induction ups generalizing m with
      | nil => rfl
      | cons x xs ihx =>
        simp only [List.map_cons, List.foldl_cons]
        cases hx : x.2 <;> simp only [applySubOp] <;> exact ihx _
    | reset vals =>
      simp only [partOps, commitPart, List.foldl_cons, applySubOp]
      generalize fdelRange m _ _ = m'
      induction vals generalizing m' with
      | nil => rfl
      | cons x xs ihx => simp only [List.map_cons, List.foldl_cons, applySubOp]; exact ihx _

private theorem prune_keeps (stale : List Nat) : ∀ s : MStore γ,
    let c := (stale.map (fun n => [WOp.nodeDel (γ := γ) n])).foldl applyWrite s
    c.sub = s.sub ∧ c.version = s.version ∧ c.root = s.root := by
  induction stale with
  | nil => intro s; exact ⟨rfl, rfl, rfl⟩
  | cons n t ih =>
    intro s
    simp only [List.map_cons, List.foldl_cons]
    have := ih (applyWrite s [WOp.nodeDel n])
    simpa [applyWrite, applyOp] using this

private theorem take_prune_keeps (stale : List Nat) (j : Nat) (s : MStore γ) :
    let c := ((stale.map (fun n => [WOp.nodeDel (γ := γ) n])).take j).foldl applyWrite s
    c.sub = s.sub ∧ c.version = s.version ∧ c.root = s.root := by
  rw [← List.map_take]
  exact prune_keeps _ s

private theorem batch_effect (u : Updates) (newNodes : List Nat) (v : Nat) (root : γ) (s : MStore γ) :
    let c := applyWrite s ((subOps u : List (WOp γ)) ++ newNodes.map WOp.nodePut ++ [WOp.setMeta v root])
    c.sub = commit s.sub u ∧ c.version = v ∧ c.root = root := by
  refine ⟨?_, ?_, ?_⟩
  · rw [applyWrite_sub, List.foldl_append, List.foldl_append, subOps_eq_commit, nodePuts_sub]
    rfl
  · simp only [applyWrite, List.foldl_append, List.foldl_cons, List.foldl_nil, applyOp]
  · simp only [applyWrite, List.foldl_append, List.foldl_cons, List.foldl_nil, applyOp]

/-- **All or nothing.** Whatever the updates, the new tree nodes, the pruned nodes and the crash
point `k`: the store found after the first `k` writes of the commit holds either exactly the
pre-commit substates with the pre-commit version and root (`k = 0`), or exactly the committed
substates with the new version and root (`k ≥ 1`). -/
theorem crash_pre_or_post (pre : MStore γ) (u : Updates) (newNodes stale : List Nat) (v : Nat) (root : γ)
    (k : Nat) :
    let c := crashAt pre (commitPlan u newNodes stale v root) k
    (k = 0 → c = pre) ∧
    (k ≥ 1 → c.sub = commit pre.sub u ∧ c.version = v ∧ c.root = root) := by
  constructor
  · intro hk; subst hk; rfl
  · intro hk
    obtain ⟨j, rfl⟩ : ∃ j, k = j + 1 := ⟨k - 1, by omega⟩
    simp only [crashAt, commitPlan, List.take_succ_cons, List.foldl_cons]
    have hb := batch_effect u newNodes v root pre
    have hp := take_prune_keeps stale j
      (applyWrite pre ((subOps u : List (WOp γ)) ++ newNodes.map WOp.nodePut ++ [WOp.setMeta v root]))
    simp only at hb hp
    exact ⟨hp.1.trans hb.1, hp.2.1.trans hb.2.1, hp.2.2.trans hb.2.2⟩

/-- **The property**: if the store was consistent before the commit and the commit records the
commitment of the committed substates, then the store found at EVERY crash point is consistent. -/
theorem all_or_nothing (cm : Flat → γ) (pre : MStore γ) (u : Updates) (newNodes stale : List Nat)
    (v : Nat) (hpre : Consistent cm pre) (k : Nat) :
    Consistent cm (crashAt pre (commitPlan u newNodes stale v (cm (commit pre.sub u))) k) := by
  have h := crash_pre_or_post pre u newNodes stale v (cm (commit pre.sub u)) k
  by_cases hk : k = 0
  · rw [h.1 hk]; exact hpre
  · have := h.2 (by omega)
    unfold Consistent
    rw [this.2.2, this.1]

/-- New tree nodes that are not pruned are present at every crash point after the batch. -/
theorem new_nodes_present (pre : MStore γ) (u : Updates) (newNodes stale : List Nat) (v : Nat) (root : γ)
    (k : Nat) (hk : k ≥ 1) (n : Nat) (hn : n ∈ newNodes) (hs : n ∉ stale) :
    n ∈ (crashAt pre (commitPlan u newNodes stale v root) k).nodes := by
  obtain ⟨j, rfl⟩ : ∃ j, k = j + 1 := ⟨k - 1, by omega⟩
  simp only [crashAt, commitPlan, List.take_succ_cons, List.foldl_cons]
  have hbatch : n ∈ (applyWrite pre ((subOps u : List (WOp γ)) ++ newNodes.map WOp.nodePut ++ [WOp.setMeta v root])).nodes := by
    simp only [applyWrite, List.foldl_append, List.foldl_cons, List.foldl_nil, applyOp]
    generalize (List.foldl applyOp pre (subOps u)) = s0
    clear hk
    induction newNodes generalizing s0 with
    | nil => cases hn
    | cons x xs ih =>
      simp only [List.map_cons, List.foldl_cons]
      rcases List.mem_cons.mp hn with rfl | hx
      · suffices ∀ (l : List Nat) (s : MStore γ), n ∈ s.nodes → n ∈ (List.foldl applyOp s (l.map WOp.nodePut)).nodes from
          this xs _ (by simp [applyOp])
        intro l
        induction l with
        | nil => intro s h; exact h
        | cons y ys ihy => intro s h; exact ihy _ (by simp [applyOp, h])
      · exact ih hx _
  generalize (applyWrite pre _) = s1 at hbatch
  rw [← List.map_take]
  have hs' : n ∉ stale.take j := fun h => hs (List.mem_of_mem_take h)
  generalize stale.take j = st at hs'
  induction st generalizing s1 with
  | nil => exact hbatch
  | cons x xs ih =>
    simp only [List.map_cons, List.foldl_cons]
    apply ih
    · simp only [applyWrite, List.foldl_cons, List.foldl_nil, applyOp, List.mem_filter, bne_iff_ne, ne_eq]
      exact ⟨hbatch, fun e => hs' (by simp [e])⟩
    · exact fun h => hs' (by simp [h])

/-! ### The plan of the code before the repair is refuted (history; witness replayed on the real store
by the harness before commit 5eed5323e2 of /repo) -/

/-- With the old plan (substates written directly, before the batch) a crash after the first write
leaves a store whose recorded root does not describe its substates. -/
theorem old_plan_inconsistent :
    ∃ (pre : MStore Flat) (u : Updates) (k : Nat),
      Consistent id pre ∧
      ¬ Consistent id (crashAt pre (oldCommitPlan u [1] [] 1 (commit pre.sub u)) k) := by
  refine ⟨{ sub := [], version := 0, root := [], nodes := [] }, [([7], 1, .delta [([5], some [9])])], 1, rfl, ?_⟩
  unfold Consistent
  decide

/-! ### non-vacuity: a consistent non-empty store, a two-partition commit with a reset, pruning -/
example : Consistent id ({ sub := [([1], some [2])], version := 3, root := [([1], some [2])], nodes := [4] } : MStore Flat) := rfl
example :
    let pre : MStore Flat := { sub := [([1], some [2])], version := 3, root := [([1], some [2])], nodes := [4] }
    let u : Updates := [([7], 1, .delta [([5], some [9]), ([6], none)]), ([8], 0, .reset [([1], [1])])]
    (crashAt pre (commitPlan u [5, 6] [4] 4 (commit pre.sub u)) 2).nodes = [6, 5] := by decide

end Radix.Stores
