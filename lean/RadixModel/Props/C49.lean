/-
C49 — Execution limits are enforced exactly.

Property theorems only. Model: `RadixModel/Model/Limits.lean`; ghost table: `Lemmas/Limits.lean`;
the protocol's limit table: `Generated/C49.lean` (rewritten on every check from the compiled tree).
-/
import RadixModel.Model.Limits
import RadixModel.Lemmas.Limits
import RadixModel.Generated.C49

namespace Radix.Limits
open Radix.Generated.C49

/-! ## 1. Every single check fails **iff** its limit is exceeded -/

/-- A substate key is rejected exactly when its size (Map: len, Sorted: len+2, Field: 1) exceeds
`max_substate_key_size`, and the error reports that size. -/
theorem key_fails_iff_exceeds (c : Config) (k : SKey) :
    (processSubstateKey c k = .ok () ↔ k.limLen ≤ c.maxKey) ∧
    (∀ e, processSubstateKey c k = .error e → e = .keySize k.limLen ∧ k.limLen > c.maxKey) := by
  unfold processSubstateKey
  by_cases h : k.limLen > c.maxKey
  · simp [h] <;> omega
  · simp [h] <;> omega

/-- A substate value is rejected exactly when its length exceeds `max_substate_value_size`. -/
theorem value_fails_iff_exceeds (c : Config) (n : Nat) :
    (processSubstateValue c n = .ok () ↔ n ≤ c.maxValue) ∧
    (∀ e, processSubstateValue c n = .error e → e = .valueSize n ∧ n > c.maxValue) := by
  unfold processSubstateValue
  by_cases h : n > c.maxValue
  · simp [h] <;> omega
  · simp [h] <;> omega

/-- An invocation is rejected exactly when the current depth *equals* the maximum or the payload
exceeds `max_invoke_payload_size` (depth is tested first). -/
theorem invoke_fails_iff_exceeds (c : Config) (d sz : Nat) :
    (beforeInvoke c d sz = .ok () ↔ d ≠ c.maxCallDepth ∧ sz ≤ c.maxInvoke) ∧
    (beforeInvoke c d sz = .error .callDepth ↔ d = c.maxCallDepth) ∧
    (∀ n, beforeInvoke c d sz = .error (.invokeSize n) ↔ d ≠ c.maxCallDepth ∧ sz > c.maxInvoke ∧ n = sz) := by
  unfold beforeInvoke
  by_cases h1 : d = c.maxCallDepth
  · simp [h1]
  · by_cases h2 : sz > c.maxInvoke
    · simp [h1, h2]; intro n; constructor <;> intro h <;> omega
    · simp [h1, h2]; omega

/-- A log is accepted exactly when (limits disabled, or) fewer than `max_number_of_logs` were
recorded and the message is not longer than `max_log_size`; a rejected log changes nothing. -/
theorem log_fails_iff_exceeds (c : Config) (r : Runtime) (n : Nat) :
    ((addLog c r n).2 = .ok () ↔ (r.limitsOn = true → r.logs < c.maxLogs ∧ n ≤ c.maxLog)) ∧
    ((addLog c r n).2 ≠ .ok () → (addLog c r n).1 = r) := by
  unfold addLog
  by_cases hl : r.limitsOn = true
  · by_cases h1 : r.logs ≥ c.maxLogs
    · simp [hl, h1] <;> omega
    · by_cases h2 : n > c.maxLog
      · simp [hl, h1, h2] <;> omega
      · simp [hl, h1, h2] <;> omega
  · simp [hl]

/-- Same for events (`checked_add_event`). -/
theorem event_fails_iff_exceeds (c : Config) (r : Runtime) (n : Nat) :
    ((addEvent c r n).2 = .ok () ↔ (r.limitsOn = true → r.events < c.maxEvents ∧ n ≤ c.maxEvent)) ∧
    ((addEvent c r n).2 ≠ .ok () → (addEvent c r n).1 = r) := by
  unfold addEvent
  by_cases hl : r.limitsOn = true
  · by_cases h1 : r.events ≥ c.maxEvents
    · simp [hl, h1] <;> omega
    · by_cases h2 : n > c.maxEvent
      · simp [hl, h1, h2] <;> omega
      · simp [hl, h1, h2] <;> omega
  · simp [hl]

/-- A panic message is rejected exactly when limits are enabled and it exceeds `max_panic_message_size`. -/
theorem panic_message_fails_iff_exceeds (c : Config) (r : Runtime) (n : Nat) :
    setPanicMessage c r n = .ok () ↔ (r.limitsOn = true → n ≤ c.maxPanic) := by
  unfold setPanicMessage
  by_cases hl : r.limitsOn = true
  · by_cases h2 : n > c.maxPanic
    · simp [hl, h2] <;> omega
    · simp [hl, h2] <;> omega
  · simp [hl]

/-- The comparison at the end of `process_io_access` succeeds exactly when both byte totals are
within their limits; otherwise it reports the heap total first, else the track total. -/
theorem totals_check_fails_iff_exceeds (c : Config) (s : Counters) :
    (checkTotals c s = .ok ↔ s.heap ≤ c.maxHeap ∧ s.track ≤ c.maxTrack) ∧
    (checkTotals c s = .err (.heap s.heap c.maxHeap) ↔ s.heap > c.maxHeap) ∧
    (checkTotals c s = .err (.track s.track c.maxTrack) ↔ s.heap ≤ c.maxHeap ∧ s.track > c.maxTrack) ∧
    checkTotals c s ≠ .panic := by
  unfold checkTotals
  by_cases h1 : s.heap > c.maxHeap
  · simp [h1]; omega
  · by_cases h2 : s.track > c.maxTrack
    · simp [h1, h2]; omega
    · simp [h1, h2]; omega

/-! ## 2. Counts and depth stay within the limits over every operation sequence -/

/-- any sequence of log / event emissions -/
inductive EmitOp where
  | log (len : Nat)
  | event (len : Nat)

def emitStep (c : Config) (r : Runtime) : EmitOp → Runtime
  | .log n => (addLog c r n).1
  | .event n => (addEvent c r n).1

/-- For every sequence of log and event emissions of a transaction (limits enabled, counters
starting at 0), the number of recorded logs / events never exceeds the configured maxima. -/
theorem counts_never_exceed (c : Config) (ops : List EmitOp) (ro : Bool) :
    let r := ops.foldl (emitStep c) ⟨true, ro, 0, 0⟩
    r.logs ≤ c.maxLogs ∧ r.events ≤ c.maxEvents := by
  suffices h : ∀ (r : Runtime), r.limitsOn = true → r.logs ≤ c.maxLogs → r.events ≤ c.maxEvents →
      (ops.foldl (emitStep c) r).logs ≤ c.maxLogs ∧ (ops.foldl (emitStep c) r).events ≤ c.maxEvents by
    exact h ⟨true, ro, 0, 0⟩ rfl (Nat.zero_le _) (Nat.zero_le _)
  induction ops with
  | nil => intro r _ h1 h2; exact ⟨h1, h2⟩
  | cons op ops ih =>
    intro r hl h1 h2
    simp only [List.foldl_cons]
    cases op with
    | log n =>
      apply ih
      · simp only [emitStep, addLog]; split <;> (try split) <;> (try split) <;> simp_all
      · simp only [emitStep, addLog]; split <;> (try split) <;> (try split) <;> simp_all <;> omega
      · simp only [emitStep, addLog]; split <;> (try split) <;> (try split) <;> simp_all
    | event n =>
      apply ih
      · simp only [emitStep, addEvent]; split <;> (try split) <;> (try split) <;> simp_all
      · simp only [emitStep, addEvent]; split <;> (try split) <;> (try split) <;> simp_all
      · simp only [emitStep, addEvent]; split <;> (try split) <;> (try split) <;> simp_all <;> omega

/-- The `==` test of `before_invoke` suffices: over every sequence of invocations and returns
starting at depth 0 the call depth never exceeds `max_call_depth`. -/
theorem depth_never_exceeds (c : Config) (ops : List CallOp) : callRun c ops ≤ c.maxCallDepth := by
  unfold callRun
  suffices h : ∀ d, d ≤ c.maxCallDepth → ops.foldl (callStep c) d ≤ c.maxCallDepth from h 0 (Nat.zero_le _)
  induction ops with
  | nil => intro d h; exact h
  | cons op ops ih =>
    intro d h
    simp only [List.foldl_cons]
    apply ih
    cases op with
    | ret => simp only [callStep]; omega
    | invoke sz =>
      simp only [callStep, beforeInvoke]
      by_cases h1 : d = c.maxCallDepth
      · simp [h1]
      · by_cases h2 : sz > c.maxInvoke
        · simp [h1, h2]; exact h
        · simp [h1, h2]; omega

/-- …and an invocation at a depth below the maximum with an admissible payload is never refused. -/
theorem invoke_within_limits_never_fails (c : Config) (d sz : Nat) (hd : d < c.maxCallDepth) (hs : sz ≤ c.maxInvoke) :
    beforeInvoke c d sz = .ok () :=
  ((invoke_fails_iff_exceeds c d sz).1).2 ⟨by omega, hs⟩

example : beforeInvoke ⟨8, 0, 0, 0, 0, 100, 0, 0, 0, 0, 0⟩ 7 100 = .ok () := rfl

/-! ## 3. The byte totals are the sums over the live substates -/

/-- A ghost-annotated substate update, as the kernel reports it in an `IOAccess`. -/
structure Upd where
  heap : Bool
  id : Nat
  klen : Nat
  old : Option Nat
  new : Option Nat

def Upd.toIO (u : Upd) : IOAccess :=
  if u.heap then .heapUpdated u.klen u.old u.new else .trackUpdated u.klen u.old u.new

/-- the table after an update: the substate's entry is replaced / inserted / removed -/
def Live.apply (l : Live) (u : Upd) : Live :=
  match u.new with
  | some n => (u.id, u.klen, n) :: l.erase u.id
  | none => l.erase u.id

/-- Well-formedness of one update w.r.t. the table of live substates of its store: `old_size` is
the recorded size of that substate (`None` iff it is not live), the key length is the recorded
one, and the sizes are not astronomically large (the transient `total + key + new` fits `usize`). -/
def Live.wf (l : Live) (u : Upd) : Prop :=
  l.total + u.klen + u.new.getD 0 < USIZE ∧
  ((l.find u.id = none ∧ u.old = none) ∨ (∃ s, l.find u.id = some (u.klen, s) ∧ u.old = some s))

/-- ghost state: live tables of heap and track -/
structure Ghost where
  heap : Live
  track : Live

def Ghost.apply (g : Ghost) (u : Upd) : Ghost :=
  if u.heap then { g with heap := g.heap.apply u } else { g with track := g.track.apply u }

def Ghost.wf (g : Ghost) (u : Upd) : Prop := if u.heap then g.heap.wf u else g.track.wf u

/-- well-formed stream: every update is well-formed w.r.t. the table produced by its predecessors -/
def Ghost.wfStream : Ghost → List Upd → Prop
  | _, [] => True
  | g, u :: us => g.wf u ∧ Ghost.wfStream (g.apply u) us

def Ghost.run (g : Ghost) (us : List Upd) : Ghost := us.foldl Ghost.apply g

def Ghost.counters (g : Ghost) : Counters := ⟨g.heap.total, g.track.total⟩

private theorem bump_wf (l : Live) (u : Upd) (h : l.wf u) :
    bump l.total u.klen u.old u.new = ((l.apply u).total, true) := by
  obtain ⟨hb, hcase⟩ := h
  unfold USIZE at hb
  rcases hcase with ⟨hf, ho⟩ | ⟨s, hf, ho⟩
  · have he := Live.total_erase_none l u.id hf
    cases hn : u.new with
    | none =>
      simp only [hn, Option.getD_none] at hb
      rw [ho, bump_none_none _ _ (by omega)]
      simp only [Live.apply, hn, he]
    | some n =>
      simp only [hn, Option.getD_some] at hb
      rw [ho, bump_none_some _ _ _ (by omega)]
      simp only [Live.apply, hn, he, Live.total, Prod.mk.injEq, and_true]
      omega
  · have he := Live.total_erase_some l u.id u.klen s hf
    cases hn : u.new with
    | none =>
      simp only [hn, Option.getD_none] at hb
      rw [ho, bump_some_none _ _ _ (by omega) (by omega)]
      simp only [Live.apply, hn, Prod.mk.injEq, and_true]
      omega
    | some n =>
      simp only [hn, Option.getD_some] at hb
      rw [ho, bump_some_some _ _ _ _ (by omega) (by omega)]
      simp only [Live.apply, hn, Live.total, Prod.mk.injEq, and_true]
      omega

/-- One step: if the counters are the live sums and the update is well-formed, `process_io_access`
does not panic (no `usize` under/overflow), leaves the counters equal to the *new* live sums, and
answers with the limit comparison on exactly those sums. -/
theorem io_step_spec (c : Config) (g : Ghost) (u : Upd) (h : g.wf u) :
    processIO c g.counters u.toIO = ((g.apply u).counters, checkTotals c (g.apply u).counters) := by
  obtain ⟨hp, id, klen, old, new⟩ := u
  unfold Ghost.wf at h
  unfold Upd.toIO Ghost.apply Ghost.counters
  cases hp with
  | true =>
    simp only [if_true] at h ⊢
    simp only [processIO, bump_wf _ _ h]
  | false =>
    simp only [Bool.false_eq_true, if_false] at h ⊢
    simp only [processIO, bump_wf _ _ h]

/-- **totals_are_sums.** For every well-formed stream of substate updates (from the empty tables):
the unchecked `+=`/`-=` arithmetic never under- or overflows, and the two counters equal
Σ (canonical key length + value size) over the live heap / track substates. -/
theorem totals_are_sums_from (c : Config) (us : List Upd) :
    ∀ g : Ghost, Ghost.wfStream g us →
      runIO c g.counters (us.map Upd.toIO) = some (Ghost.run g us).counters := by
  induction us with
  | nil => intro g _; rfl
  | cons u us ih =>
    intro g hw
    obtain ⟨h1, h2⟩ := hw
    simp only [List.map_cons, runIO, io_step_spec c g u h1, Ghost.run, List.foldl_cons]
    have hne := (totals_check_fails_iff_exceeds c (g.apply u).counters).2.2.2
    cases hc : checkTotals c (g.apply u).counters with
    | panic => exact absurd hc hne
    | ok => exact ih (g.apply u) h2
    | err e => exact ih (g.apply u) h2

theorem totals_are_sums (c : Config) (us : List Upd) (h : Ghost.wfStream ⟨[], []⟩ us) :
    runIO c Counters.zero (us.map Upd.toIO) = some (Ghost.run ⟨[], []⟩ us).counters :=
  totals_are_sums_from c us ⟨[], []⟩ h

/-- **fails_iff_exceeds** for the totals: on a well-formed stream an update is refused exactly when
the live heap bytes exceed `max_heap_substate_total_bytes` or the live track bytes exceed
`max_track_substate_total_bytes` *after* it; within the limits it is never refused. -/
theorem io_fails_iff_exceeds (c : Config) (g : Ghost) (u : Upd) (h : g.wf u) :
    ((processIO c g.counters u.toIO).2 = .ok ↔
      (g.apply u).heap.total ≤ c.maxHeap ∧ (g.apply u).track.total ≤ c.maxTrack) := by
  rw [io_step_spec c g u h]
  exact (totals_check_fails_iff_exceeds c _).1

/-- The ghost tables are finite maps: ids stay unique under well-formed updates. -/
theorem live_ids_nodup (l : Live) (u : Upd) (hn : l.ids.Nodup) : (l.apply u).ids.Nodup := by
  have := Live.erase_nodup l u.id hn
  unfold Live.apply
  cases u.new with
  | none => exact this.1
  | some n =>
    simp only [Live.ids, List.map_cons, List.nodup_cons]
    exact ⟨this.2, this.1⟩

/-- non-vacuity: a well-formed stream (create two heap substates, grow one, drop the other, one
track write) and its totals; under a 100-byte heap limit the second update is the one refused. -/
def exStream : List Upd :=
  [⟨true, 1, 32, none, some 10⟩, ⟨true, 2, 40, none, some 60⟩, ⟨true, 1, 32, some 10, some 25⟩,
   ⟨true, 2, 40, some 60, none⟩, ⟨false, 7, 33, none, some 5⟩]

example : Ghost.wfStream ⟨[], []⟩ exStream := by
  simp [exStream, Ghost.wfStream, Ghost.wf, Ghost.apply, Live.wf, Live.apply, Live.find, Live.erase, Live.total, USIZE]
example : (Ghost.run ⟨[], []⟩ exStream).counters = ⟨57, 38⟩ := by decide
example : (processIO ⟨8, 100, 100, 0, 0, 0, 0, 0, 0, 0, 0⟩ ⟨42, 0⟩ (.heapUpdated 40 none (some 60))).2
    = .err (.heap 142 100) := by decide
/-- and an ill-formed update (removing a substate that was never created) does underflow -/
example : (processIO ⟨8, 100, 100, 0, 0, 0, 0, 0, 0, 0, 0⟩ ⟨0, 0⟩ (.heapUpdated 40 (some 5) none)).2 = .panic := by decide

/-! ## 4. The protocol's limit table (regenerated from the compiled tree on every check) -/

def genesisParams : Params :=
  ⟨P_MAX_CALL_DEPTH, P_MAX_HEAP_SUBSTATE_TOTAL_BYTES, P_MAX_TRACK_SUBSTATE_TOTAL_BYTES, P_MAX_SUBSTATE_KEY_SIZE,
   P_MAX_SUBSTATE_VALUE_SIZE, P_MAX_INVOKE_INPUT_SIZE, P_MAX_EVENT_SIZE, P_MAX_LOG_SIZE, P_MAX_PANIC_MESSAGE_SIZE,
   P_MAX_NUMBER_OF_LOGS, P_MAX_NUMBER_OF_EVENTS⟩

def genesisConfig : Config :=
  ⟨C_MAX_CALL_DEPTH, C_MAX_HEAP, C_MAX_TRACK, C_MAX_KEY, C_MAX_VALUE, C_MAX_INVOKE, C_MAX_EVENT, C_MAX_LOG,
   C_MAX_PANIC, C_MAX_LOGS, C_MAX_EVENTS⟩

/-- The configuration the real `LimitsModule::babylon_genesis()` holds is the model's `fromParams`
of the real `LimitParameters::babylon_genesis()`: every limit governs the homonymous check. -/
theorem genesis_config_is_from_params : fromParams genesisParams = genesisConfig := by decide

/-- The model's canonical key length agrees with the compiled `CanonicalSubstateKey::len`. -/
theorem canon_len_matches_code : SKey.field.canonLen = CANON_FIELD_KEY_LEN ∧ NODE_ID_LENGTH = 30 := by decide

/-- Sanity of the protocol table: field keys (size 1) are never refused, one substate of maximal
key and value size fits in the heap and in the track budget, and every limit is far below the
`usize` range (so the no-overflow clause of well-formedness is implied by the limits themselves
for any stream that was within limits before the current update). -/
theorem genesis_limits_sane :
    1 ≤ genesisConfig.maxKey ∧
    31 + 2 + genesisConfig.maxKey + genesisConfig.maxValue ≤ genesisConfig.maxHeap ∧
    31 + 2 + genesisConfig.maxKey + genesisConfig.maxValue ≤ genesisConfig.maxTrack ∧
    genesisConfig.maxHeap + (31 + 2 + genesisConfig.maxKey) + genesisConfig.maxValue < USIZE ∧
    genesisConfig.maxTrack + (31 + 2 + genesisConfig.maxKey) + genesisConfig.maxValue < USIZE := by decide

end Radix.Limits
