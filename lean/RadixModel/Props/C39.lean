/-
C39 — Account deposit rules are enforced exactly.

Property theorems only. Model: `RadixModel/Model/AccountDeposit.lean`, helper lemmas: `Lemmas/AccountDeposit.lean`.

Statement (properties.jsonl): a guarded deposit (single or batch) into an account deposits everything exactly when
every bucket's resource is allowed (an explicit allow/deny preference decides, otherwise the default rule: accept,
reject, or accept only XRD and resources the account already holds), or when the caller names a badge on the account's
authorized-depositor list and proves it; if a bucket is refused and the named listed badge is not proven, the call
fails. Otherwise nothing is deposited: the refund variants return all buckets untouched and the abort variants fail
the call, and in every case only that account's vaults of the deposited resources change.

All theorems quantify over every account state `s` (default rule × preference map × depositor set × vault history),
every bucket / bucket list (duplicates, empty buckets, the empty batch), every named badge and both values of `proven`.
`Ver.bottlenose` is the code the `..._or_refund` exports run on the current protocol version; the abort variants run
the v1 code on every protocol version (they call `Self::try_deposit_*_or_refund`).
-/
import RadixModel.Model.AccountDeposit
import RadixModel.Lemmas.AccountDeposit
import RadixModel.Generated.C39

namespace Radix.Account

/-- the caller named a badge and it is on the account's authorized-depositor list. -/
def Listed (s : Acct) (badge : Option Nat) : Prop := ∃ g, badge = some g ∧ s.dep g = true

/-- the caller named a listed badge and proved it. -/
def Authorized (s : Acct) (badge : Option Nat) (proven : Bool) : Prop := Listed s badge ∧ proven = true

/-- every bucket's resource is allowed. -/
def AllAllowed (s : Acct) (bs : List Bucket) : Prop := ∀ b ∈ bs, isDepositAllowed s b.res = true

instance (s : Acct) (bs : List Bucket) : Decidable (AllAllowed s bs) :=
  inferInstanceAs (Decidable (∀ b ∈ bs, isDepositAllowed s b.res = true))

instance (s : Acct) (badge : Option Nat) : Decidable (Listed s badge) := by
  unfold Listed
  cases badge with
  | none => exact isFalse (by simp)
  | some g =>
    cases h : s.dep g with
    | true => exact isTrue ⟨g, rfl, h⟩
    | false => exact isFalse (by simp [h])

/-- Example state for the non-vacuity `example`s: rule AllowExisting, resource 1 explicitly disallowed, resource 2
held (vault with 5), badge 7 on the depositor list. -/
def exS : Acct :=
  ⟨.allowExisting, fun r => if r = 1 then some .disallowed else none, fun g => g == 7,
   fun r => if r = 2 then some 5 else none⟩

/-! ## The decision `is_deposit_allowed` -/

/-- An explicit preference decides; otherwise the default rule; `AllowExisting` ⇔ XRD or a vault exists. -/
theorem allowed_iff (s : Acct) (r : Nat) :
    isDepositAllowed s r = true ↔
      s.pref r = some .allowed ∨
      (s.pref r = none ∧ (s.rule = .accept ∨ (s.rule = .allowExisting ∧ (r = XRD ∨ ∃ x, s.vault r = some x)))) := by
  unfold isDepositAllowed
  cases hp : s.pref r with
  | some p => cases p <;> simp
  | none =>
    cases hr : s.rule <;> simp [Option.isSome_iff_exists]

/-- The complementary reading: refused ⇔ explicitly disallowed, or no preference and (Reject, or AllowExisting for a
non-XRD resource the account has never held). -/
theorem refused_iff (s : Acct) (r : Nat) :
    isDepositAllowed s r = false ↔
      s.pref r = some .disallowed ∨
      (s.pref r = none ∧ (s.rule = .reject ∨ (s.rule = .allowExisting ∧ r ≠ XRD ∧ s.vault r = none))) := by
  unfold isDepositAllowed
  cases hp : s.pref r with
  | some p => cases p <;> simp
  | none =>
    cases hr : s.rule <;> simp

example : isDepositAllowed exS 0 = true ∧ isDepositAllowed exS 1 = false ∧
    isDepositAllowed exS 2 = true ∧ isDepositAllowed exS 3 = false := by decide

/-! ## Single guarded deposit -/

/-- `try_deposit_or_refund` (current code): the three exhaustive input classes and the exact result in each. -/
theorem single_spec (s : Acct) (b : Bucket) (badge : Option Nat) (proven : Bool) :
    (isDepositAllowed s b.res = true ∨ Authorized s badge proven →
      tryDepositOrRefund .bottlenose s b badge proven = .ok (put s b, [depEv b], none)) ∧
    (isDepositAllowed s b.res = false ∧ Listed s badge ∧ proven = false →
      tryDepositOrRefund .bottlenose s b badge proven = .error .badgeNotPresent) ∧
    (isDepositAllowed s b.res = false ∧ ¬ Listed s badge →
      tryDepositOrRefund .bottlenose s b badge proven = .ok (s, [rejEv b], some b)) := by
  unfold tryDepositOrRefund Authorized Listed
  cases ha : isDepositAllowed s b.res <;> cases badge with
  | none => simp
  | some g => cases hd : s.dep g <;> cases proven <;> simp [hd]

-- the three classes of `single_spec` are inhabited (refused resource 3; badge 7 listed, badge 8 not)
example : isDepositAllowed exS 3 = false ∧ Authorized exS (some 7) true := ⟨by decide, ⟨7, rfl, rfl⟩, rfl⟩
example : isDepositAllowed exS 3 = false ∧ Listed exS (some 7) ∧ false = false := ⟨by decide, ⟨7, rfl, rfl⟩, rfl⟩
example : isDepositAllowed exS 3 = false ∧ ¬ Listed exS (some 8) := ⟨by decide, by decide⟩
example : isDepositAllowed exS 3 = false ∧ ¬ Listed exS none := ⟨by decide, by decide⟩

/-- deposited ⇔ allowed ∨ (badge named ∧ listed ∧ proven). -/
theorem single_deposited_iff (s : Acct) (b : Bucket) (badge : Option Nat) (proven : Bool) :
    (∃ s' ev, tryDepositOrRefund .bottlenose s b badge proven = .ok (s', ev, none)) ↔
      (isDepositAllowed s b.res = true ∨ Authorized s badge proven) := by
  constructor
  · intro ⟨s', ev, h⟩
    by_cases h1 : isDepositAllowed s b.res = true ∨ Authorized s badge proven
    · exact h1
    · exfalso
      have ha : isDepositAllowed s b.res = false := by
        cases hx : isDepositAllowed s b.res <;> simp_all
      by_cases hl : Listed s badge
      · have hp : proven = false := by
          cases proven
          · rfl
          · exact absurd (Or.inr ⟨hl, rfl⟩) h1
        rw [(single_spec s b badge proven).2.1 ⟨ha, hl, hp⟩] at h
        cases h
      · rw [(single_spec s b badge proven).2.2 ⟨ha, hl⟩] at h
        cases h
  · intro h
    exact ⟨_, _, (single_spec s b badge proven).1 h⟩

/-- `try_deposit_or_abort`: succeeds (and deposits) ⇔ allowed ∨ authorized; in every other class the call FAILS
(it never returns a bucket), with the error identifying the class. -/
theorem single_abort_spec (s : Acct) (b : Bucket) (badge : Option Nat) (proven : Bool) :
    (isDepositAllowed s b.res = true ∨ Authorized s badge proven →
      tryDepositOrAbort s b badge proven = .ok (put s b, [depEv b], ())) ∧
    (isDepositAllowed s b.res = false ∧ Listed s badge ∧ proven = false →
      tryDepositOrAbort s b badge proven = .error .badgeNotPresent) ∧
    (isDepositAllowed s b.res = false ∧ badge = none →
      tryDepositOrAbort s b badge proven = .error (.depositIsDisallowed b.res)) ∧
    (∀ g, isDepositAllowed s b.res = false ∧ badge = some g ∧ s.dep g = false →
      tryDepositOrAbort s b badge proven = .error (.notAnAuthorizedDepositor g)) := by
  unfold tryDepositOrAbort tryDepositOrRefund Authorized Listed
  cases ha : isDepositAllowed s b.res <;> cases badge with
  | none => simp
  | some g => cases hd : s.dep g <;> cases proven <;> simp [hd]

/-- abort variant: success ⇔ allowed ∨ authorized. -/
theorem single_abort_ok_iff (s : Acct) (b : Bucket) (badge : Option Nat) (proven : Bool) :
    (∃ r, tryDepositOrAbort s b badge proven = .ok r) ↔
      (isDepositAllowed s b.res = true ∨ Authorized s badge proven) := by
  unfold tryDepositOrAbort tryDepositOrRefund Authorized Listed
  cases ha : isDepositAllowed s b.res <;> cases badge with
  | none => simp
  | some g => cases hd : s.dep g <;> cases proven <;> simp [hd]

/-! ## Batch guarded deposit -/

/-- `try_deposit_batch_or_refund` (current code): the three exhaustive input classes and the exact result in each:
deposit of ALL buckets / failure / refund of exactly the input list with the state untouched and one
`RejectedDepositEvent` per refused bucket. -/
theorem batch_spec (s : Acct) (bs : List Bucket) (badge : Option Nat) (proven : Bool) :
    (AllAllowed s bs ∨ Authorized s badge proven →
      tryDepositBatchOrRefund .bottlenose s bs badge proven = .ok (putAll s bs, bs.map depEv, none)) ∧
    (¬ AllAllowed s bs ∧ Listed s badge ∧ proven = false →
      tryDepositBatchOrRefund .bottlenose s bs badge proven = .error .badgeNotPresent) ∧
    (¬ AllAllowed s bs ∧ ¬ Listed s badge →
      tryDepositBatchOrRefund .bottlenose s bs badge proven
        = .ok (s, (offending s bs).map rejEv, some bs)) := by
  unfold Authorized Listed AllAllowed
  by_cases hall : ∀ b ∈ bs, isDepositAllowed s b.res = true
  · rw [batch_all _ s bs badge proven hall]
    exact ⟨fun _ => rfl, fun h => absurd hall h.1, fun h => absurd hall h.1⟩
  · rw [batch_not_all _ s bs badge proven hall]
    unfold batchRefused
    cases badge with
    | none => simp [hall]
    | some g => cases hd : s.dep g <;> cases proven <;> simp [hd, hall]

-- the classes of `batch_spec` are inhabited by a partially offending batch with a duplicate
example : AllAllowed exS [⟨2, 1⟩, ⟨0, 4⟩, ⟨2, 0⟩] := by decide
example : ¬ AllAllowed exS [⟨2, 1⟩, ⟨3, 1⟩, ⟨2, 2⟩] ∧ Authorized exS (some 7) true := ⟨by decide, ⟨7, rfl, rfl⟩, rfl⟩
example : ¬ AllAllowed exS [⟨2, 1⟩, ⟨3, 1⟩, ⟨2, 2⟩] ∧ Listed exS (some 7) ∧ false = false :=
  ⟨by decide, ⟨7, rfl, rfl⟩, rfl⟩
example : ¬ AllAllowed exS [⟨2, 1⟩, ⟨3, 1⟩, ⟨2, 2⟩] ∧ ¬ Listed exS (some 8) := ⟨by decide, by decide⟩
example : offending exS [⟨2, 1⟩, ⟨3, 1⟩, ⟨1, 2⟩] = [⟨3, 1⟩, ⟨1, 2⟩] := by decide

/-- deposited-all ⇔ (all buckets allowed) ∨ (badge named ∧ listed ∧ proven). -/
theorem batch_deposited_iff (s : Acct) (bs : List Bucket) (badge : Option Nat) (proven : Bool) :
    (∃ s' ev, tryDepositBatchOrRefund .bottlenose s bs badge proven = .ok (s', ev, none)) ↔
      (AllAllowed s bs ∨ Authorized s badge proven) := by
  constructor
  · intro ⟨s', ev, h⟩
    by_cases h1 : AllAllowed s bs ∨ Authorized s badge proven
    · exact h1
    · exfalso
      have ha : ¬ AllAllowed s bs := fun hx => h1 (Or.inl hx)
      by_cases hl : Listed s badge
      · have hp : proven = false := by
          cases proven
          · rfl
          · exact absurd (Or.inr ⟨hl, rfl⟩) h1
        rw [(batch_spec s bs badge proven).2.1 ⟨ha, hl, hp⟩] at h
        cases h
      · rw [(batch_spec s bs badge proven).2.2 ⟨ha, hl⟩] at h
        cases h
  · intro h
    exact ⟨_, _, (batch_spec s bs badge proven).1 h⟩

/-- `try_deposit_batch_or_abort`: deposits all ⇔ all allowed ∨ authorized, otherwise the call fails. -/
theorem batch_abort_spec (s : Acct) (bs : List Bucket) (badge : Option Nat) (proven : Bool) :
    (AllAllowed s bs ∨ Authorized s badge proven →
      tryDepositBatchOrAbort s bs badge proven = .ok (putAll s bs, bs.map depEv, ())) ∧
    (¬ AllAllowed s bs ∧ Listed s badge ∧ proven = false →
      tryDepositBatchOrAbort s bs badge proven = .error .badgeNotPresent) ∧
    (¬ AllAllowed s bs ∧ badge = none →
      tryDepositBatchOrAbort s bs badge proven = .error .notAllBucketsCouldBeDeposited) ∧
    (∀ g, ¬ AllAllowed s bs ∧ badge = some g ∧ s.dep g = false →
      tryDepositBatchOrAbort s bs badge proven = .error (.notAnAuthorizedDepositor g)) := by
  unfold tryDepositBatchOrAbort Authorized Listed AllAllowed
  by_cases hall : ∀ b ∈ bs, isDepositAllowed s b.res = true
  · rw [batch_all _ s bs badge proven hall]
    exact ⟨fun _ => rfl, fun h => absurd hall h.1, fun h => absurd hall h.1, fun g h => absurd hall h.1⟩
  · rw [batch_not_all _ s bs badge proven hall]
    unfold batchRefused
    cases badge with
    | none => simp [hall]
    | some g => cases hd : s.dep g <;> cases proven <;> simp [hd, hall]

/-- batch abort variant: success ⇔ all allowed ∨ authorized. -/
theorem batch_abort_ok_iff (s : Acct) (bs : List Bucket) (badge : Option Nat) (proven : Bool) :
    (∃ r, tryDepositBatchOrAbort s bs badge proven = .ok r) ↔ (AllAllowed s bs ∨ Authorized s badge proven) := by
  have h := batch_abort_spec s bs badge proven
  constructor
  · intro ⟨r, hr⟩
    by_cases h1 : AllAllowed s bs ∨ Authorized s badge proven
    · exact h1
    · exfalso
      have ha : ¬ AllAllowed s bs := fun hx => h1 (Or.inl hx)
      cases badge with
      | none => rw [h.2.2.1 ⟨ha, rfl⟩] at hr; cases hr
      | some g =>
        cases hd : s.dep g with
        | false => rw [h.2.2.2 g ⟨ha, rfl, hd⟩] at hr; cases hr
        | true =>
          have hl : Listed s (some g) := ⟨g, rfl, hd⟩
          have hp : proven = false := by
            cases proven
            · rfl
            · exact absurd (Or.inr ⟨hl, rfl⟩) h1
          rw [h.2.1 ⟨ha, hl, hp⟩] at hr; cases hr
  · intro h1
    exact ⟨_, h.1 h1⟩

/-- The single-bucket method is the batch method on a one-element list. -/
theorem single_is_batch_singleton (ver : Ver) (s : Acct) (b : Bucket) (badge : Option Nat) (proven : Bool) :
    tryDepositBatchOrRefund ver s [b] badge proven =
      (match tryDepositOrRefund ver s b badge proven with
       | .ok (s', ev, r) => .ok (s', ev, r.map (fun x => [x]))
       | .error e => .error e) := by
  unfold tryDepositBatchOrRefund tryDepositOrRefund offending
  cases ha : isDepositAllowed s b.res <;> cases badge with
  | none => simp [ha, putAll]
  | some g => cases hd : s.dep g <;> cases proven <;> cases ver <;> simp [ha, hd, putAll]

/-! ## What "deposited" means for the vaults, and the frame -/

/-- After a successful batch deposit the vault of resource `r` holds its previous balance (0 if it had to be created)
plus the sum of all buckets of `r`; resources without a bucket keep their vault (or absence of a vault). -/
theorem deposited_vaults (s : Acct) (bs : List Bucket) (r : Nat) :
    (putAll s bs).vault r =
      if r ∈ bs.map (·.res) then some (vaultPut (s.vault r) (sumOf r bs)) else s.vault r :=
  putAll_vault s bs r

/-- Frame, all four methods, both code versions: whatever the outcome, the default rule, the preferences and the
depositor list are unchanged, and the vault of every resource that has no bucket in the call is unchanged; if buckets
are returned the whole state is unchanged. -/
theorem frame_batch (ver : Ver) (s s' : Acct) (bs : List Bucket) (badge : Option Nat) (proven : Bool)
    (ev : List Ev) (ret : Option (List Bucket))
    (h : tryDepositBatchOrRefund ver s bs badge proven = .ok (s', ev, ret)) :
    s'.rule = s.rule ∧ s'.pref = s.pref ∧ s'.dep = s.dep ∧
    (∀ r, r ∉ bs.map (·.res) → s'.vault r = s.vault r) ∧
    (∀ rb, ret = some rb → s' = s ∧ rb = bs) := by
  have key : (s' = putAll s bs ∧ ret = none) ∨ (s' = s ∧ ret = some bs) := by
    rcases batch_ok_cases ver s s' bs badge proven ev ret h with ⟨a, _, c⟩ | ⟨a, _, c⟩
    · exact Or.inl ⟨a, c⟩
    · exact Or.inr ⟨a, c⟩
  rcases key with ⟨h1, h2⟩ | ⟨h1, h2⟩
  · subst h1; subst h2
    refine ⟨by simp, by simp, by simp, ?_, by simp⟩
    intro r hr
    rw [putAll_vault]; simp only [hr, if_false]
  · subst h1; subst h2
    exact ⟨rfl, rfl, rfl, fun _ _ => rfl, fun rb hrb => ⟨rfl, (Option.some.inj hrb).symm⟩⟩

-- the hypothesis of `frame_batch` is satisfiable in both shapes (deposit / refund)
example : ∃ s' ev, tryDepositBatchOrRefund .bottlenose exS [⟨2, 1⟩, ⟨2, 2⟩] none false = .ok (s', ev, none) :=
  ⟨_, _, (batch_spec exS _ none false).1 (Or.inl (by decide))⟩
example : ∃ s' ev, tryDepositBatchOrRefund .bottlenose exS [⟨2, 1⟩, ⟨3, 2⟩] none false
    = .ok (s', ev, some [⟨2, 1⟩, ⟨3, 2⟩]) :=
  ⟨_, _, (batch_spec exS _ none false).2.2 ⟨by decide, by decide⟩⟩

theorem frame_single (ver : Ver) (s s' : Acct) (b : Bucket) (badge : Option Nat) (proven : Bool)
    (ev : List Ev) (ret : Option Bucket)
    (h : tryDepositOrRefund ver s b badge proven = .ok (s', ev, ret)) :
    s'.rule = s.rule ∧ s'.pref = s.pref ∧ s'.dep = s.dep ∧
    (∀ r, r ≠ b.res → s'.vault r = s.vault r) ∧
    (∀ rb, ret = some rb → s' = s ∧ rb = b) := by
  have hb := single_is_batch_singleton ver s b badge proven
  rw [h] at hb
  have := frame_batch ver s s' [b] badge proven ev (ret.map (fun x => [x])) hb
  refine ⟨this.1, this.2.1, this.2.2.1, ?_, ?_⟩
  · intro r hr; exact this.2.2.2.1 r (by simpa using hr)
  · intro rb hrb
    subst hrb
    have := this.2.2.2.2 [rb] rfl
    exact ⟨this.1, by simpa using this.2⟩

theorem frame_abort (s s' : Acct) (bs : List Bucket) (badge : Option Nat) (proven : Bool) (ev : List Ev)
    (h : tryDepositBatchOrAbort s bs badge proven = .ok (s', ev, ())) :
    s'.rule = s.rule ∧ s'.pref = s.pref ∧ s'.dep = s.dep ∧
    (∀ r, r ∉ bs.map (·.res) → s'.vault r = s.vault r) := by
  unfold tryDepositBatchOrAbort at h
  cases hr : tryDepositBatchOrRefund .v1 s bs badge proven with
  | error e => simp [hr] at h
  | ok v =>
    obtain ⟨s1, ev1, ret⟩ := v
    cases ret with
    | some x => simp [hr] at h
    | none =>
      simp [hr] at h
      have := frame_batch .v1 s s1 bs badge proven ev1 none hr
      rw [← h.1]
      exact ⟨this.1, this.2.1, this.2.2.1, this.2.2.2.1⟩

theorem frame_abort_single (s s' : Acct) (b : Bucket) (badge : Option Nat) (proven : Bool) (ev : List Ev)
    (h : tryDepositOrAbort s b badge proven = .ok (s', ev, ())) :
    s'.rule = s.rule ∧ s'.pref = s.pref ∧ s'.dep = s.dep ∧
    (∀ r, r ≠ b.res → s'.vault r = s.vault r) := by
  unfold tryDepositOrAbort at h
  cases hr : tryDepositOrRefund .v1 s b badge proven with
  | error e => simp [hr] at h
  | ok v =>
    obtain ⟨s1, ev1, ret⟩ := v
    cases ret with
    | some x => simp [hr] at h
    | none =>
      simp [hr] at h
      have := frame_single .v1 s s1 b badge proven ev1 none hr
      rw [← h.1]
      exact ⟨this.1, this.2.1, this.2.2.1, this.2.2.2.1⟩

/-! ## All four guarded methods at once: deposited everything, or nothing -/

/-- the arguments of a guarded deposit call (`none` for the owner methods). -/
def guardedArgs : Op → Option (List Bucket × Option Nat × Bool)
  | .tryRefund b g p => some ([b], g, p)
  | .tryBatchRefund bs g p => some (bs, g, p)
  | .tryAbort b g p => some ([b], g, p)
  | .tryBatchAbort bs g p => some (bs, g, p)
  | _ => none

private theorem stOf_batch_dep (ver : Ver) (s : Acct) (bs : List Bucket) (badge : Option Nat) (proven : Bool)
    (h : AllAllowed s bs ∨ Authorized s badge proven) :
    stOf s (tryDepositBatchOrRefund ver s bs badge proven) = putAll s bs := by
  by_cases hall : ∀ b ∈ bs, isDepositAllowed s b.res = true
  · rw [batch_all ver s bs badge proven hall]; rfl
  · rw [batch_not_all ver s bs badge proven hall]
    rcases h with h | ⟨⟨g, hg, hd⟩, hp⟩
    · exact absurd h hall
    · subst hg; subst hp
      simp [batchRefused, hd, stOf]

private theorem stOf_batch_no (ver : Ver) (s : Acct) (bs : List Bucket) (badge : Option Nat) (proven : Bool)
    (h : ¬ (AllAllowed s bs ∨ Authorized s badge proven)) :
    stOf s (tryDepositBatchOrRefund ver s bs badge proven) = s := by
  have hall : ¬ ∀ b ∈ bs, isDepositAllowed s b.res = true := fun hx => h (Or.inl hx)
  rw [batch_not_all ver s bs badge proven hall]
  unfold batchRefused
  cases badge with
  | none => rfl
  | some g =>
    cases hd : s.dep g with
    | false => cases ver <;> simp [stOf, hd]
    | true =>
      cases proven with
      | false => simp [stOf, hd]
      | true => exact absurd (Or.inr ⟨⟨g, rfl, hd⟩, rfl⟩) h


private theorem stOf_single (ver : Ver) (s : Acct) (b : Bucket) (badge : Option Nat) (proven : Bool) :
    stOf s (tryDepositOrRefund ver s b badge proven) = stOf s (tryDepositBatchOrRefund ver s [b] badge proven) := by
  rw [single_is_batch_singleton]
  cases tryDepositOrRefund ver s b badge proven with
  | error e => rfl
  | ok v => obtain ⟨s1, ev, r⟩ := v; rfl

private theorem stOf_batch_abort (s : Acct) (bs : List Bucket) (badge : Option Nat) (proven : Bool) :
    stOf s (tryDepositBatchOrAbort s bs badge proven) = stOf s (tryDepositBatchOrRefund .v1 s bs badge proven) := by
  unfold tryDepositBatchOrAbort
  cases hr : tryDepositBatchOrRefund .v1 s bs badge proven with
  | error e => rfl
  | ok v =>
    obtain ⟨s1, ev, ret⟩ := v
    cases ret with
    | none => rfl
    | some x =>
      rcases batch_ok_cases .v1 s s1 bs badge proven ev (some x) hr with ⟨_, _, c⟩ | ⟨a, _, _⟩
      · cases c
      · simp [stOf, a]

private theorem stOf_abort (s : Acct) (b : Bucket) (badge : Option Nat) (proven : Bool) :
    stOf s (tryDepositOrAbort s b badge proven) = stOf s (tryDepositBatchOrRefund .v1 s [b] badge proven) := by
  rw [← stOf_single]
  unfold tryDepositOrAbort
  cases hr : tryDepositOrRefund .v1 s b badge proven with
  | error e => rfl
  | ok v =>
    obtain ⟨s1, ev, ret⟩ := v
    cases ret with
    | none => rfl
    | some x =>
      have := frame_single .v1 s s1 b badge proven ev (some x) hr
      simp [stOf, (this.2.2.2.2 x rfl).1]

/-- THE PROPERTY, state form, for all four guarded methods and both code versions: the account state after the
transaction is `putAll s bs` (every bucket deposited) when all buckets are allowed or the named badge is listed and
proven, and is the unchanged `s` in every other case (refund or failed call). -/
theorem guarded_step_spec (ver : Ver) (s : Acct) (op : Op) (bs : List Bucket) (badge : Option Nat) (proven : Bool)
    (hop : guardedArgs op = some (bs, badge, proven)) :
    ((AllAllowed s bs ∨ Authorized s badge proven) → step ver s op = putAll s bs) ∧
    (¬ (AllAllowed s bs ∨ Authorized s badge proven) → step ver s op = s) := by
  cases op <;> simp only [guardedArgs, Option.some.injEq, Prod.mk.injEq, reduceCtorEq] at hop
  case tryRefund b g p =>
    obtain ⟨rfl, rfl, rfl⟩ := hop
    simp only [step, stOf_single]
    exact ⟨stOf_batch_dep ver s _ _ _, stOf_batch_no ver s _ _ _⟩
  case tryBatchRefund bs' g p =>
    obtain ⟨rfl, rfl, rfl⟩ := hop
    exact ⟨stOf_batch_dep ver s _ _ _, stOf_batch_no ver s _ _ _⟩
  case tryAbort b g p =>
    obtain ⟨rfl, rfl, rfl⟩ := hop
    simp only [step, stOf_abort]
    exact ⟨stOf_batch_dep .v1 s _ _ _, stOf_batch_no .v1 s _ _ _⟩
  case tryBatchAbort bs' g p =>
    obtain ⟨rfl, rfl, rfl⟩ := hop
    simp only [step, stOf_batch_abort]
    exact ⟨stOf_batch_dep .v1 s _ _ _, stOf_batch_no .v1 s _ _ _⟩

example : guardedArgs (.tryBatchAbort [⟨2, 1⟩] (some 7) false) = some ([⟨2, 1⟩], some 7, false) := rfl

/-- Soundness corollary: a caller without owner authority who changes ANY vault of the account must have passed the
deposit rules for every bucket or have named and proven a listed badge. -/
theorem guarded_change_requires_permission (ver : Ver) (s : Acct) (op : Op) (bs : List Bucket) (badge : Option Nat)
    (proven : Bool) (hop : guardedArgs op = some (bs, badge, proven)) (r : Nat)
    (hch : (step ver s op).vault r ≠ s.vault r) :
    AllAllowed s bs ∨ Authorized s badge proven := by
  by_cases h : AllAllowed s bs ∨ Authorized s badge proven
  · exact h
  · rw [(guarded_step_spec ver s op bs badge proven hop).2 h] at hch
    exact absurd rfl hch

-- a vault really changes in a permitted call (hypothesis `hch`)
example : (step .bottlenose exS (.tryRefund ⟨2, 1⟩ none false)).vault 2 ≠ exS.vault 2 := by decide

/-! ## Declarative facts regenerated from the current tree (`Generated/C39.lean`)

Method codes (index in `Generated.C39.methodNames`): 0..3 = the four guarded deposits `try_deposit[_batch]_or_{refund,abort}`,
4 `deposit`, 5 `deposit_batch`, 6..10 the deposit-rule configuration methods, 11/12 the withdrawals, 21 `securify`,
22..24 the read-only getters. Accessibility: 0 = Public, 1 = owner role only, 2 = another role. -/

open Radix.Generated.C39 in
/-- Which native code the exports run on a ledger with all protocol updates (the `Ver` of the model): the two
`..._or_refund` exports run `AccountCode2` (bottlenose extension), the two `..._or_abort` exports and the owner
deposits run `AccountCode1`. -/
theorem exports_code_ids :
    exportCode.lookup 0 = some accountCode2 ∧ exportCode.lookup 1 = some accountCode2 ∧
    exportCode.lookup 2 = some accountCode1 ∧ exportCode.lookup 3 = some accountCode1 ∧
    exportCode.lookup 4 = some accountCode1 ∧ exportCode.lookup 5 = some accountCode1 ∧
    accountCode1 ≠ accountCode2 := by decide

open Radix.Generated.C39 in
/-- The guarded deposits are the ONLY state-changing Public methods of the account: every Public method is one of
the four guarded deposits or a read-only getter; in particular the unguarded `deposit` / `deposit_batch`, the
configuration of the deposit rules and the withdrawals need the owner role — the deposit rules cannot be bypassed
or edited by a stranger. -/
theorem public_methods_are_guarded_or_getters :
    (∀ m ∈ methodAuth, m.2 = 0 → m.1 ∈ [0, 1, 2, 3, 22, 23, 24]) ∧
    (∀ c ∈ [0, 1, 2, 3], methodAuth.lookup c = some 0) ∧
    (∀ c ∈ [4, 5, 6, 7, 8, 9, 10, 11, 12], methodAuth.lookup c = some 1) := by decide

/-! ## The two code versions -/

/-- The pre-bottlenose `..._or_refund` code agrees with the current one on every input except one class: a refused
bucket with a named badge that is NOT on the list, where v1 fails the call with `NotAnAuthorizedDepositor` instead of
refunding (the behaviour the bottlenose update repaired; the property's refund clause holds for `Ver.bottlenose` only). -/
theorem v1_differs_only_on_unlisted_badge (s : Acct) (bs : List Bucket) (badge : Option Nat) (proven : Bool) :
    (¬ (¬ AllAllowed s bs ∧ ∃ g, badge = some g ∧ s.dep g = false) →
      tryDepositBatchOrRefund .v1 s bs badge proven = tryDepositBatchOrRefund .bottlenose s bs badge proven) ∧
    (∀ g, ¬ AllAllowed s bs ∧ badge = some g ∧ s.dep g = false →
      tryDepositBatchOrRefund .v1 s bs badge proven = .error (.notAnAuthorizedDepositor g) ∧
      tryDepositBatchOrRefund .bottlenose s bs badge proven = .ok (s, (offending s bs).map rejEv, some bs)) := by
  unfold AllAllowed
  by_cases hall : ∀ b ∈ bs, isDepositAllowed s b.res = true
  · rw [batch_all _ s bs badge proven hall, batch_all _ s bs badge proven hall]
    exact ⟨fun _ => rfl, fun g h => absurd hall h.1⟩
  · rw [batch_not_all _ s bs badge proven hall, batch_not_all _ s bs badge proven hall]
    unfold batchRefused
    cases badge with
    | none => simp
    | some g => cases hd : s.dep g <;> cases proven <;> simp [hd, hall]

example : ¬ AllAllowed exS [⟨3, 1⟩] ∧ (some 8 : Option Nat) = some 8 ∧ exS.dep 8 = false := ⟨by decide, rfl, rfl⟩

/-! ## Histories: the `AllowExisting` rule -/

/-- Vaults are never removed: once the account has held a resource, its vault exists after every later call
(withdrawals leave an empty vault). -/
theorem vault_exists_step (ver : Ver) (s : Acct) (op : Op) (r : Nat)
    (h : (s.vault r).isSome = true) : ((step ver s op).vault r).isSome = true := by
  have hput : ∀ bs, ((putAll s bs).vault r).isSome = true := by
    intro bs; rw [putAll_vault_isSome]; simp [h]
  have hres : ∀ {α : Type} (res : Res α), (∀ s' ev x, res = .ok (s', ev, x) → (s'.vault r).isSome = true) →
      ((stOf s res).vault r).isSome = true := by
    intro α res hx
    unfold stOf
    match res with
    | .ok (s', ev, x) => exact hx s' ev x rfl
    | .error _ => exact h
  cases op with
  | setRule x => exact h
  | setPref r' p => exact h
  | removePref r' => exact h
  | addDep g => exact h
  | removeDep g => exact h
  | ownerDeposit bs => exact hput bs
  | withdraw r' a =>
    simp only [step, withdraw]
    cases hv : s.vault r' with
    | none => exact h
    | some x =>
      by_cases hle : a ≤ x
      · simp only [hle, if_true]
        by_cases hrr : r = r'
        · simp [hrr]
        · simp [hrr, h]
      · simp only [hle, if_false]; exact h
  | tryRefund b g p =>
    apply hres
    intro s' ev x hx
    have := frame_single ver s s' b g p ev x hx
    cases x with
    | some rb => rw [(this.2.2.2.2 rb rfl).1]; exact h
    | none =>
      by_cases hrr : r = b.res
      · have hb := single_is_batch_singleton ver s b g p
        rw [hx] at hb
        have : s' = putAll s [b] := by
          rcases batch_ok_cases ver s s' [b] g p ev none hb with ⟨a, _, _⟩ | ⟨_, _, c⟩
          · exact a
          · cases c
        rw [this]; exact hput [b]
      · rw [this.2.2.2.1 r hrr]; exact h
  | tryBatchRefund bs g p =>
    apply hres
    intro s' ev x hx
    have : s' = putAll s bs ∨ s' = s := by
      rcases batch_ok_cases ver s s' bs g p ev x hx with ⟨a, _, _⟩ | ⟨a, _, _⟩
      · exact Or.inl a
      · exact Or.inr a
    rcases this with h1 | h1 <;> rw [h1]
    · exact hput bs
    · exact h
  | tryAbort b g p =>
    apply hres
    intro s' ev x hx
    unfold tryDepositOrAbort tryDepositOrRefund at hx
    have : s' = put s b := by
      cases ha : isDepositAllowed s b.res
      · cases g with
        | none => simp [ha] at hx
        | some g' => cases hd : s.dep g' <;> cases p <;> simp [ha, hd] at hx; exact hx.1.symm
      · simp [ha] at hx; exact hx.1.symm
    rw [this]; exact hput [b]
  | tryBatchAbort bs g p =>
    apply hres
    intro s' ev x hx
    unfold tryDepositBatchOrAbort at hx
    have : s' = putAll s bs := by
      cases hr : tryDepositBatchOrRefund .v1 s bs g p with
      | error e => simp [hr] at hx
      | ok v =>
        obtain ⟨s1, ev1, ret⟩ := v
        cases ret with
        | some y => simp [hr] at hx
        | none =>
          simp [hr] at hx
          rcases batch_ok_cases .v1 s s1 bs g p ev1 none hr with ⟨a, _, _⟩ | ⟨_, _, c⟩
          · rw [← hx.1]; exact a
          · cases c
    rw [this]; exact hput bs

theorem vault_exists_run (ver : Ver) (s : Acct) (ops : List Op) (r : Nat)
    (h : (s.vault r).isSome = true) : ((run ver s ops).vault r).isSome = true := by
  induction ops generalizing s with
  | nil => exact h
  | cons op ops ih => exact ih _ (vault_exists_step ver s op r h)

/-- Consequence for `AllowExisting`: with no explicit preference and the rule left at `AllowExisting`, a resource that
is accepted now is accepted after every history that does not touch the rule and that resource's preference. -/
theorem allowExisting_stable (ver : Ver) (s : Acct) (ops : List Op) (r : Nat)
    (hrule : (run ver s ops).rule = .allowExisting) (hpref : (run ver s ops).pref r = none)
    (hv : (s.vault r).isSome = true) :
    isDepositAllowed (run ver s ops) r = true := by
  have := vault_exists_run ver s ops r hv
  unfold isDepositAllowed
  simp [hrule, hpref, this]

-- hypotheses of `allowExisting_stable` / `allowExisting_iff_history` on a concrete history: an empty bucket
-- deposited by the owner is enough to make resource 3 "existing", and withdrawing everything does not undo it
example : (run .bottlenose init [.setRule .allowExisting, .ownerDeposit [⟨3, 0⟩], .withdraw 3 0]).rule = .allowExisting ∧
    (run .bottlenose init [.setRule .allowExisting, .ownerDeposit [⟨3, 0⟩], .withdraw 3 0]).pref 3 = none ∧
    isDepositAllowed (run .bottlenose init [.setRule .allowExisting, .ownerDeposit [⟨3, 0⟩], .withdraw 3 0]) 3 = true :=
  ⟨rfl, rfl, by decide⟩

/-- executable form of "all buckets allowed, or a listed badge named and proven". -/
def permitted (s : Acct) (bs : List Bucket) (badge : Option Nat) (proven : Bool) : Bool :=
  bs.all (fun b => isDepositAllowed s b.res) ||
  (match badge with
   | some g => s.dep g && proven
   | none => false)

theorem permitted_iff (s : Acct) (bs : List Bucket) (badge : Option Nat) (proven : Bool) :
    permitted s bs badge proven = true ↔ (AllAllowed s bs ∨ Authorized s badge proven) := by
  unfold permitted AllAllowed Authorized Listed
  cases badge with
  | none => simp
  | some g => simp

/-- resources deposited by a call at state `s`, defined from the SPECIFICATION (not from the code's result):
an owner deposit deposits its buckets, a guarded deposit deposits its buckets iff it is permitted. -/
def depositedRes (s : Acct) (op : Op) : List Nat :=
  match op with
  | .ownerDeposit bs => bs.map (fun b => b.res)
  | op =>
    match guardedArgs op with
    | some (bs, g, p) => if permitted s bs g p then bs.map (fun b => b.res) else []
    | none => []

/-- all resources deposited during a history. -/
def depositedTrace (ver : Ver) (s : Acct) : List Op → List Nat
  | [] => []
  | op :: ops => depositedRes s op ++ depositedTrace ver (step ver s op) ops

private theorem guarded_vault_isSome (ver : Ver) (s : Acct) (op : Op) (bs : List Bucket) (g : Option Nat) (p : Bool)
    (hop : guardedArgs op = some (bs, g, p)) (r : Nat) :
    ((step ver s op).vault r).isSome =
      ((s.vault r).isSome || decide (r ∈ (if permitted s bs g p then bs.map (fun b => b.res) else []))) := by
  have hs := guarded_step_spec ver s op bs g p hop
  by_cases hp : permitted s bs g p = true
  · rw [hs.1 ((permitted_iff s bs g p).1 hp)]
    simp only [hp, if_true]
    exact putAll_vault_isSome s bs r
  · rw [hs.2 (fun h => hp ((permitted_iff s bs g p).2 h))]
    simp [hp]

/-- the vault of `r` exists after a call iff it existed before or the call deposited a bucket of `r`. -/
theorem vault_exists_step_iff (ver : Ver) (s : Acct) (op : Op) (r : Nat) :
    ((step ver s op).vault r).isSome = ((s.vault r).isSome || decide (r ∈ depositedRes s op)) := by
  cases op with
  | setRule x => simp [step, depositedRes, guardedArgs]
  | setPref r' p => simp [step, depositedRes, guardedArgs]
  | removePref r' => simp [step, depositedRes, guardedArgs]
  | addDep g => simp [step, depositedRes, guardedArgs]
  | removeDep g => simp [step, depositedRes, guardedArgs]
  | ownerDeposit bs => simp only [step, depositedRes]; exact putAll_vault_isSome s bs r
  | withdraw r' a =>
    simp only [step, depositedRes, guardedArgs, withdraw, List.not_mem_nil, decide_false, Bool.or_false]
    cases hv : s.vault r' with
    | none => rfl
    | some x =>
      by_cases hle : a ≤ x
      · simp only [hle, if_true]
        by_cases hrr : r = r'
        · simp [hrr, hv]
        · simp [hrr]
      · simp only [hle, if_false]
  | tryRefund b g p => exact guarded_vault_isSome ver s _ [b] g p rfl r
  | tryBatchRefund bs g p => exact guarded_vault_isSome ver s _ bs g p rfl r
  | tryAbort b g p => exact guarded_vault_isSome ver s _ [b] g p rfl r
  | tryBatchAbort bs g p => exact guarded_vault_isSome ver s _ bs g p rfl r

/-- Resource history, every call sequence: the account "already holds" (has a vault of) `r` after a history iff it
did before or some call of the history deposited a bucket of `r` — so under `AllowExisting` a non-XRD resource
without an explicit preference is accepted exactly when an earlier (owner or permitted guarded) deposit of it
happened, however much was withdrawn since. -/
theorem vault_exists_iff_history (ver : Ver) (s : Acct) (ops : List Op) (r : Nat) :
    ((run ver s ops).vault r).isSome = ((s.vault r).isSome || decide (r ∈ depositedTrace ver s ops)) := by
  induction ops generalizing s with
  | nil => simp [run, depositedTrace]
  | cons op ops ih =>
    simp only [run, depositedTrace, ih, vault_exists_step_iff, List.mem_append, Bool.decide_or, Bool.or_assoc]

/-- `AllowExisting` over histories from a fresh account. -/
theorem allowExisting_iff_history (ver : Ver) (ops : List Op) (r : Nat)
    (hrule : (run ver init ops).rule = .allowExisting) (hpref : (run ver init ops).pref r = none) :
    isDepositAllowed (run ver init ops) r = true ↔ (r = XRD ∨ r ∈ depositedTrace ver init ops) := by
  have h := vault_exists_iff_history ver init ops r
  have h0 : (init.vault r).isSome = false := rfl
  rw [h0, Bool.false_or] at h
  unfold isDepositAllowed
  simp only [hpref, hrule, h]
  simp

end Radix.Account
