/-
C39 — Account deposit rules are enforced exactly.

Property theorems only. Model: `RadixModel/Model/AccountDeposit.lean`, helper lemmas: `Lemmas/AccountDeposit.lean`.

Statement (properties.jsonl): a guarded deposit (single or batch) into an account deposits everything exactly when
every bucket's resource is allowed (an explicit allow/deny preference decides, otherwise the default rule: accept,
reject, or accept only XRD and resources the account already holds), or when the caller names a badge on the account's
authorized-depositor list and proves it; if a bucket is refused and the named listed badge is not proven, the call
fails. Otherwise nothing is deposited: the refund variants return all buckets untouched and the abort variants fail
the call, and in every case only that account's vaults of the deposited resources change.

All theorems quantify over every account state `s` (default rule × preference map × depositor set × vault history),
every bucket / bucket list (duplicates, empty buckets, the empty batch), every named badge and both values of `proven`.
`Ver.bottlenose` is the code the `..._or_refund` exports run on the current protocol version; the abort variants run
the v1 code on every protocol version (they call `Self::try_deposit_*_or_refund`).
-/
import RadixModel.Model.AccountDeposit
import RadixModel.Lemmas.AccountDeposit

namespace Radix.Account

/-- the caller named a badge and it is on the account's authorized-depositor list. -/
def Listed (s : Acct) (badge : Option Nat) : Prop := ∃ g, badge = some g ∧ s.dep g = true

/-- the caller named a listed badge and proved it. -/
def Authorized (s : Acct) (badge : Option Nat) (proven : Bool) : Prop := Listed s badge ∧ proven = true

/-- every bucket's resource is allowed. -/
def AllAllowed (s : Acct) (bs : List Bucket) : Prop := ∀ b ∈ bs, isDepositAllowed s b.res = true

instance (s : Acct) (badge : Option Nat) : Decidable (Listed s badge) := by
  unfold Listed
  cases badge with
  | none => exact isFalse (by simp)
  | some g =>
    cases h : s.dep g with
    | true => exact isTrue ⟨g, rfl, h⟩
    | false => exact isFalse (by simp [h])

/-! ## The decision `is_deposit_allowed` -/

/-- An explicit preference decides; otherwise the default rule; `AllowExisting` ⇔ XRD or a vault exists. -/
theorem allowed_iff (s : Acct) (r : Nat) :
    isDepositAllowed s r = true ↔
      s.pref r = some .allowed ∨
      (s.pref r = none ∧ (s.rule = .accept ∨ (s.rule = .allowExisting ∧ (r = XRD ∨ ∃ x, s.vault r = some x)))) := by
  unfold isDepositAllowed
  cases hp : s.pref r with
  | some p => cases p <;> simp
  | none =>
    cases hr : s.rule <;> simp [Option.isSome_iff_exists]

/-- The complementary reading: refused ⇔ explicitly disallowed, or no preference and (Reject, or AllowExisting for a
non-XRD resource the account has never held). -/
theorem refused_iff (s : Acct) (r : Nat) :
    isDepositAllowed s r = false ↔
      s.pref r = some .disallowed ∨
      (s.pref r = none ∧ (s.rule = .reject ∨ (s.rule = .allowExisting ∧ r ≠ XRD ∧ s.vault r = none))) := by
  unfold isDepositAllowed
  cases hp : s.pref r with
  | some p => cases p <;> simp
  | none =>
    cases hr : s.rule <;> simp

/-! ## Single guarded deposit -/

/-- `try_deposit_or_refund` (current code): the three exhaustive input classes and the exact result in each. -/
theorem single_spec (s : Acct) (b : Bucket) (badge : Option Nat) (proven : Bool) :
    (isDepositAllowed s b.res = true ∨ Authorized s badge proven →
      tryDepositOrRefund .bottlenose s b badge proven = .ok (put s b, [depEv b], none)) ∧
    (isDepositAllowed s b.res = false ∧ Listed s badge ∧ proven = false →
      tryDepositOrRefund .bottlenose s b badge proven = .error .badgeNotPresent) ∧
    (isDepositAllowed s b.res = false ∧ ¬ Listed s badge →
      tryDepositOrRefund .bottlenose s b badge proven = .ok (s, [rejEv b], some b)) := by
  unfold tryDepositOrRefund Authorized Listed
  cases ha : isDepositAllowed s b.res <;> cases badge with
  | none => simp
  | some g => cases hd : s.dep g <;> cases proven <;> simp [hd]

/-- deposited ⇔ allowed ∨ (badge named ∧ listed ∧ proven). -/
theorem single_deposited_iff (s : Acct) (b : Bucket) (badge : Option Nat) (proven : Bool) :
    (∃ s' ev, tryDepositOrRefund .bottlenose s b badge proven = .ok (s', ev, none)) ↔
      (isDepositAllowed s b.res = true ∨ Authorized s badge proven) := by
  constructor
  · intro ⟨s', ev, h⟩
    by_cases h1 : isDepositAllowed s b.res = true ∨ Authorized s badge proven
    · exact h1
    · exfalso
      have ha : isDepositAllowed s b.res = false := by
        cases hx : isDepositAllowed s b.res <;> simp_all
      by_cases hl : Listed s badge
      · have hp : proven = false := by
          cases proven
          · rfl
          · exact absurd (Or.inr ⟨hl, rfl⟩) h1
        rw [(single_spec s b badge proven).2.1 ⟨ha, hl, hp⟩] at h
        cases h
      · rw [(single_spec s b badge proven).2.2 ⟨ha, hl⟩] at h
        cases h
  · intro h
    exact ⟨_, _, (single_spec s b badge proven).1 h⟩

/-- `try_deposit_or_abort`: succeeds (and deposits) ⇔ allowed ∨ authorized; in every other class the call FAILS
(it never returns a bucket), with the error identifying the class. -/
theorem single_abort_spec (s : Acct) (b : Bucket) (badge : Option Nat) (proven : Bool) :
    (isDepositAllowed s b.res = true ∨ Authorized s badge proven →
      tryDepositOrAbort s b badge proven = .ok (put s b, [depEv b], ())) ∧
    (isDepositAllowed s b.res = false ∧ Listed s badge ∧ proven = false →
      tryDepositOrAbort s b badge proven = .error .badgeNotPresent) ∧
    (isDepositAllowed s b.res = false ∧ badge = none →
      tryDepositOrAbort s b badge proven = .error (.depositIsDisallowed b.res)) ∧
    (∀ g, isDepositAllowed s b.res = false ∧ badge = some g ∧ s.dep g = false →
      tryDepositOrAbort s b badge proven = .error (.notAnAuthorizedDepositor g)) := by
  unfold tryDepositOrAbort tryDepositOrRefund Authorized Listed
  cases ha : isDepositAllowed s b.res <;> cases badge with
  | none => simp
  | some g => cases hd : s.dep g <;> cases proven <;> simp [hd]

/-- abort variant: success ⇔ allowed ∨ authorized. -/
theorem single_abort_ok_iff (s : Acct) (b : Bucket) (badge : Option Nat) (proven : Bool) :
    (∃ r, tryDepositOrAbort s b badge proven = .ok r) ↔
      (isDepositAllowed s b.res = true ∨ Authorized s badge proven) := by
  unfold tryDepositOrAbort tryDepositOrRefund Authorized Listed
  cases ha : isDepositAllowed s b.res <;> cases badge with
  | none => simp
  | some g => cases hd : s.dep g <;> cases proven <;> simp [hd]

/-! ## Batch guarded deposit -/

/-- `try_deposit_batch_or_refund` (current code): the three exhaustive input classes and the exact result in each:
deposit of ALL buckets / failure / refund of exactly the input list with the state untouched and one
`RejectedDepositEvent` per refused bucket. -/
theorem batch_spec (s : Acct) (bs : List Bucket) (badge : Option Nat) (proven : Bool) :
    (AllAllowed s bs ∨ Authorized s badge proven →
      tryDepositBatchOrRefund .bottlenose s bs badge proven = .ok (putAll s bs, bs.map depEv, none)) ∧
    (¬ AllAllowed s bs ∧ Listed s badge ∧ proven = false →
      tryDepositBatchOrRefund .bottlenose s bs badge proven = .error .badgeNotPresent) ∧
    (¬ AllAllowed s bs ∧ ¬ Listed s badge →
      tryDepositBatchOrRefund .bottlenose s bs badge proven
        = .ok (s, (offending s bs).map rejEv, some bs)) := by
  unfold Authorized Listed AllAllowed
  by_cases hall : ∀ b ∈ bs, isDepositAllowed s b.res = true
  · rw [batch_all _ s bs badge proven hall]
    exact ⟨fun _ => rfl, fun h => absurd hall h.1, fun h => absurd hall h.1⟩
  · rw [batch_not_all _ s bs badge proven hall]
    unfold batchRefused
    cases badge with
    | none => simp [hall]
    | some g => cases hd : s.dep g <;> cases proven <;> simp [hd, hall]

/-- deposited-all ⇔ (all buckets allowed) ∨ (badge named ∧ listed ∧ proven). -/
theorem batch_deposited_iff (s : Acct) (bs : List Bucket) (badge : Option Nat) (proven : Bool) :
    (∃ s' ev, tryDepositBatchOrRefund .bottlenose s bs badge proven = .ok (s', ev, none)) ↔
      (AllAllowed s bs ∨ Authorized s badge proven) := by
  constructor
  · intro ⟨s', ev, h⟩
    by_cases h1 : AllAllowed s bs ∨ Authorized s badge proven
    · exact h1
    · exfalso
      have ha : ¬ AllAllowed s bs := fun hx => h1 (Or.inl hx)
      by_cases hl : Listed s badge
      · have hp : proven = false := by
          cases proven
          · rfl
          · exact absurd (Or.inr ⟨hl, rfl⟩) h1
        rw [(batch_spec s bs badge proven).2.1 ⟨ha, hl, hp⟩] at h
        cases h
      · rw [(batch_spec s bs badge proven).2.2 ⟨ha, hl⟩] at h
        cases h
  · intro h
    exact ⟨_, _, (batch_spec s bs badge proven).1 h⟩

/-- `try_deposit_batch_or_abort`: deposits all ⇔ all allowed ∨ authorized, otherwise the call fails. -/
theorem batch_abort_spec (s : Acct) (bs : List Bucket) (badge : Option Nat) (proven : Bool) :
    (AllAllowed s bs ∨ Authorized s badge proven →
      tryDepositBatchOrAbort s bs badge proven = .ok (putAll s bs, bs.map depEv, ())) ∧
    (¬ AllAllowed s bs ∧ Listed s badge ∧ proven = false →
      tryDepositBatchOrAbort s bs badge proven = .error .badgeNotPresent) ∧
    (¬ AllAllowed s bs ∧ badge = none →
      tryDepositBatchOrAbort s bs badge proven = .error .notAllBucketsCouldBeDeposited) ∧
    (∀ g, ¬ AllAllowed s bs ∧ badge = some g ∧ s.dep g = false →
      tryDepositBatchOrAbort s bs badge proven = .error (.notAnAuthorizedDepositor g)) := by
  unfold tryDepositBatchOrAbort Authorized Listed AllAllowed
  by_cases hall : ∀ b ∈ bs, isDepositAllowed s b.res = true
  · rw [batch_all _ s bs badge proven hall]
    exact ⟨fun _ => rfl, fun h => absurd hall h.1, fun h => absurd hall h.1, fun g h => absurd hall h.1⟩
  · rw [batch_not_all _ s bs badge proven hall]
    unfold batchRefused
    cases badge with
    | none => simp [hall]
    | some g => cases hd : s.dep g <;> cases proven <;> simp [hd, hall]

/-- batch abort variant: success ⇔ all allowed ∨ authorized. -/
theorem batch_abort_ok_iff (s : Acct) (bs : List Bucket) (badge : Option Nat) (proven : Bool) :
    (∃ r, tryDepositBatchOrAbort s bs badge proven = .ok r) ↔ (AllAllowed s bs ∨ Authorized s badge proven) := by
  have h := batch_abort_spec s bs badge proven
  constructor
  · intro ⟨r, hr⟩
    by_cases h1 : AllAllowed s bs ∨ Authorized s badge proven
    · exact h1
    · exfalso
      have ha : ¬ AllAllowed s bs := fun hx => h1 (Or.inl hx)
      cases badge with
      | none => rw [h.2.2.1 ⟨ha, rfl⟩] at hr; cases hr
      | some g =>
        cases hd : s.dep g with
        | false => rw [h.2.2.2 g ⟨ha, rfl, hd⟩] at hr; cases hr
        | true =>
          have hl : Listed s (some g) := ⟨g, rfl, hd⟩
          have hp : proven = false := by
            cases proven
            · rfl
            · exact absurd (Or.inr ⟨hl, rfl⟩) h1
          rw [h.2.1 ⟨ha, hl, hp⟩] at hr; cases hr
  · intro h1
    exact ⟨_, h.1 h1⟩

/-- The single-bucket method is the batch method on a one-element list. -/
theorem single_is_batch_singleton (ver : Ver) (s : Acct) (b : Bucket) (badge : Option Nat) (proven : Bool) :
    tryDepositBatchOrRefund ver s [b] badge proven =
      (match tryDepositOrRefund ver s b badge proven with
       | .ok (s', ev, r) => .ok (s', ev, r.map (fun x => [x]))
       | .error e => .error e) := by
  unfold tryDepositBatchOrRefund tryDepositOrRefund offending
  cases ha : isDepositAllowed s b.res <;> cases badge with
  | none => simp [ha, putAll]
  | some g => cases hd : s.dep g <;> cases proven <;> cases ver <;> simp [ha, hd, putAll]

/-! ## What "deposited" means for the vaults, and the frame -/

/-- After a successful batch deposit the vault of resource `r` holds its previous balance (0 if it had to be created)
plus the sum of all buckets of `r`; resources without a bucket keep their vault (or absence of a vault). -/
theorem deposited_vaults (s : Acct) (bs : List Bucket) (r : Nat) :
    (putAll s bs).vault r =
      if r ∈ bs.map (·.res) then some (vaultPut (s.vault r) (sumOf r bs)) else s.vault r :=
  putAll_vault s bs r

/-- Frame, all four methods, both code versions: whatever the outcome, the default rule, the preferences and the
depositor list are unchanged, and the vault of every resource that has no bucket in the call is unchanged; if buckets
are returned the whole state is unchanged. -/
theorem frame_batch (ver : Ver) (s s' : Acct) (bs : List Bucket) (badge : Option Nat) (proven : Bool)
    (ev : List Ev) (ret : Option (List Bucket))
    (h : tryDepositBatchOrRefund ver s bs badge proven = .ok (s', ev, ret)) :
    s'.rule = s.rule ∧ s'.pref = s.pref ∧ s'.dep = s.dep ∧
    (∀ r, r ∉ bs.map (·.res) → s'.vault r = s.vault r) ∧
    (∀ rb, ret = some rb → s' = s ∧ rb = bs) := by
  have key : (s' = putAll s bs ∧ ret = none) ∨ (s' = s ∧ ret = some bs) := by
    rcases batch_ok_cases ver s s' bs badge proven ev ret h with ⟨a, _, c⟩ | ⟨a, _, c⟩
    · exact Or.inl ⟨a, c⟩
    · exact Or.inr ⟨a, c⟩
  rcases key with ⟨h1, h2⟩ | ⟨h1, h2⟩
  · subst h1; subst h2
    refine ⟨by simp, by simp, by simp, ?_, by simp⟩
    intro r hr
    rw [putAll_vault]; simp only [hr, if_false]
  · subst h1; subst h2
    exact ⟨rfl, rfl, rfl, fun _ _ => rfl, fun rb hrb => ⟨rfl, (Option.some.inj hrb).symm⟩⟩

theorem frame_single (ver : Ver) (s s' : Acct) (b : Bucket) (badge : Option Nat) (proven : Bool)
    (ev : List Ev) (ret : Option Bucket)
    (h : tryDepositOrRefund ver s b badge proven = .ok (s', ev, ret)) :
    s'.rule = s.rule ∧ s'.pref = s.pref ∧ s'.dep = s.dep ∧
    (∀ r, r ≠ b.res → s'.vault r = s.vault r) ∧
    (∀ rb, ret = some rb → s' = s ∧ rb = b) := by
  have hb := single_is_batch_singleton ver s b badge proven
  rw [h] at hb
  have := frame_batch ver s s' [b] badge proven ev (ret.map (fun x => [x])) hb
  refine ⟨this.1, this.2.1, this.2.2.1, ?_, ?_⟩
  · intro r hr; exact this.2.2.2.1 r (by simpa using hr)
  · intro rb hrb
    subst hrb
    have := this.2.2.2.2 [rb] rfl
    exact ⟨this.1, by simpa using this.2⟩

theorem frame_abort (s s' : Acct) (bs : List Bucket) (badge : Option Nat) (proven : Bool) (ev : List Ev)
    (h : tryDepositBatchOrAbort s bs badge proven = .ok (s', ev, ())) :
    s'.rule = s.rule ∧ s'.pref = s.pref ∧ s'.dep = s.dep ∧
    (∀ r, r ∉ bs.map (·.res) → s'.vault r = s.vault r) := by
  unfold tryDepositBatchOrAbort at h
  cases hr : tryDepositBatchOrRefund .v1 s bs badge proven with
  | error e => simp [hr] at h
  | ok v =>
    obtain ⟨s1, ev1, ret⟩ := v
    cases ret with
    | some x => simp [hr] at h
    | none =>
      simp [hr] at h
      have := frame_batch .v1 s s1 bs badge proven ev1 none hr
      rw [← h.1]
      exact ⟨this.1, this.2.1, this.2.2.1, this.2.2.2.1⟩

theorem frame_abort_single (s s' : Acct) (b : Bucket) (badge : Option Nat) (proven : Bool) (ev : List Ev)
    (h : tryDepositOrAbort s b badge proven = .ok (s', ev, ())) :
    s'.rule = s.rule ∧ s'.pref = s.pref ∧ s'.dep = s.dep ∧
    (∀ r, r ≠ b.res → s'.vault r = s.vault r) := by
  unfold tryDepositOrAbort at h
  cases hr : tryDepositOrRefund .v1 s b badge proven with
  | error e => simp [hr] at h
  | ok v =>
    obtain ⟨s1, ev1, ret⟩ := v
    cases ret with
    | some x => simp [hr] at h
    | none =>
      simp [hr] at h
      have := frame_single .v1 s s1 b badge proven ev1 none hr
      rw [← h.1]
      exact ⟨this.1, this.2.1, this.2.2.1, this.2.2.2.1⟩

/-! ## The two code versions -/

/-- The pre-bottlenose `..._or_refund` code agrees with the current one on every input except one class: a refused
bucket with a named badge that is NOT on the list, where v1 fails the call with `NotAnAuthorizedDepositor` instead of
refunding (the behaviour the bottlenose update repaired; the property's refund clause holds for `Ver.bottlenose` only). -/
theorem v1_differs_only_on_unlisted_badge (s : Acct) (bs : List Bucket) (badge : Option Nat) (proven : Bool) :
    (¬ (¬ AllAllowed s bs ∧ ∃ g, badge = some g ∧ s.dep g = false) →
      tryDepositBatchOrRefund .v1 s bs badge proven = tryDepositBatchOrRefund .bottlenose s bs badge proven) ∧
    (∀ g, ¬ AllAllowed s bs ∧ badge = some g ∧ s.dep g = false →
      tryDepositBatchOrRefund .v1 s bs badge proven = .error (.notAnAuthorizedDepositor g) ∧
      tryDepositBatchOrRefund .bottlenose s bs badge proven = .ok (s, (offending s bs).map rejEv, some bs)) := by
  unfold AllAllowed
  by_cases hall : ∀ b ∈ bs, isDepositAllowed s b.res = true
  · rw [batch_all _ s bs badge proven hall, batch_all _ s bs badge proven hall]
    exact ⟨fun _ => rfl, fun g h => absurd hall h.1⟩
  · rw [batch_not_all _ s bs badge proven hall, batch_not_all _ s bs badge proven hall]
    unfold batchRefused
    cases badge with
    | none => simp
    | some g => cases hd : s.dep g <;> cases proven <;> simp [hd, hall]

/-! ## Histories: the `AllowExisting` rule -/

/-- Vaults are never removed: once the account has held a resource, its vault exists after every later call
(withdrawals leave an empty vault). -/
theorem vault_exists_step (ver : Ver) (s : Acct) (op : Op) (r : Nat)
    (h : (s.vault r).isSome = true) : ((step ver s op).vault r).isSome = true := by
  have hput : ∀ bs, ((putAll s bs).vault r).isSome = true := by
    intro bs; rw [putAll_vault_isSome]; simp [h]
  have hres : ∀ {α : Type} (res : Res α), (∀ s' ev x, res = .ok (s', ev, x) → (s'.vault r).isSome = true) →
      ((stOf s res).vault r).isSome = true := by
    intro α res hx
    unfold stOf
    match res with
    | .ok (s', ev, x) => exact hx s' ev x rfl
    | .error _ => exact h
  cases op with
  | setRule x => exact h
  | setPref r' p => exact h
  | removePref r' => exact h
  | addDep g => exact h
  | removeDep g => exact h
  | ownerDeposit bs => exact hput bs
  | withdraw r' a =>
    simp only [step, withdraw]
    cases hv : s.vault r' with
    | none => exact h
    | some x =>
      by_cases hle : a ≤ x
      · simp only [hle, if_true]
        by_cases hrr : r = r'
        · simp [hrr]
        · simp [hrr, h]
      · simp only [hle, if_false]; exact h
  | tryRefund b g p =>
    apply hres
    intro s' ev x hx
    have := frame_single ver s s' b g p ev x hx
    cases x with
    | some rb => rw [(this.2.2.2.2 rb rfl).1]; exact h
    | none =>
      by_cases hrr : r = b.res
      · have hb := single_is_batch_singleton ver s b g p
        rw [hx] at hb
        have : s' = putAll s [b] := by
          rcases batch_ok_cases ver s s' [b] g p ev none hb with ⟨a, _, _⟩ | ⟨_, _, c⟩
          · exact a
          · cases c
        rw [this]; exact hput [b]
      · rw [this.2.2.2.1 r hrr]; exact h
  | tryBatchRefund bs g p =>
    apply hres
    intro s' ev x hx
    have : s' = putAll s bs ∨ s' = s := by
      rcases batch_ok_cases ver s s' bs g p ev x hx with ⟨a, _, _⟩ | ⟨a, _, _⟩
      · exact Or.inl a
      · exact Or.inr a
    rcases this with h1 | h1 <;> rw [h1]
    · exact hput bs
    · exact h
  | tryAbort b g p =>
    apply hres
    intro s' ev x hx
    unfold tryDepositOrAbort tryDepositOrRefund at hx
    have : s' = put s b := by
      cases ha : isDepositAllowed s b.res
      · cases g with
        | none => simp [ha] at hx
        | some g' => cases hd : s.dep g' <;> cases p <;> simp [ha, hd] at hx; exact hx.1.symm
      · simp [ha] at hx; exact hx.1.symm
    rw [this]; exact hput [b]
  | tryBatchAbort bs g p =>
    apply hres
    intro s' ev x hx
    unfold tryDepositBatchOrAbort at hx
    have : s' = putAll s bs := by
      cases hr : tryDepositBatchOrRefund .v1 s bs g p with
      | error e => simp [hr] at hx
      | ok v =>
        obtain ⟨s1, ev1, ret⟩ := v
        cases ret with
        | some y => simp [hr] at hx
        | none =>
          simp [hr] at hx
          rcases batch_ok_cases .v1 s s1 bs g p ev1 none hr with ⟨a, _, _⟩ | ⟨_, _, c⟩
          · rw [← hx.1]; exact a
          · cases c
    rw [this]; exact hput bs

theorem vault_exists_run (ver : Ver) (s : Acct) (ops : List Op) (r : Nat)
    (h : (s.vault r).isSome = true) : ((run ver s ops).vault r).isSome = true := by
  induction ops generalizing s with
  | nil => exact h
  | cons op ops ih => exact ih _ (vault_exists_step ver s op r h)

/-- Consequence for `AllowExisting`: with no explicit preference and the rule left at `AllowExisting`, a resource that
is accepted now is accepted after every history that does not touch the rule and that resource's preference. -/
theorem allowExisting_stable (ver : Ver) (s : Acct) (ops : List Op) (r : Nat)
    (hrule : (run ver s ops).rule = .allowExisting) (hpref : (run ver s ops).pref r = none)
    (hv : (s.vault r).isSome = true) :
    isDepositAllowed (run ver s ops) r = true := by
  have := vault_exists_run ver s ops r hv
  unfold isDepositAllowed
  simp [hrule, hpref, this]

end Radix.Account
