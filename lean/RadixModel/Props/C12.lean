/-
C12 — The transaction state cache reads back its own writes.

Property theorems only. Model: `Model/Track.lean` (`MappedTrack`, `TrackedSubstateValue`),
`Model/SubstateDb.lean` (the base database and the meaning of committing `StateUpdates`),
`Model/KV.lean` (`OverlayingResultIterator` loop).

The abstraction is `eff t n p k` ("what a read observes"): the tracked value of `(n,p,k)` if the
substate is tracked, the base database value otherwise.
-/
import RadixModel.Model.Track
import RadixModel.Lemmas.Track

namespace Radix.Track
open Radix.KV Radix.SubstateDb

/-- `get_refines`: a read returns the overlaid value and changes nothing observable
(it only caches the database value). -/
theorem get_refines (t : Track) (n p k : Nat) :
    (getSubstate t n p k).2 = eff t n p k ∧
    ∀ n' p' k', eff (getSubstate t n p k).1 n' p' k' = eff t n' p' k' := by
  have h := getTracked_spec t n p k
  exact ⟨h.2.1, h.2.2⟩

/-- `set_refines`: after a write the substate reads back the written value, everything else is
unchanged. -/
theorem set_refines (t : Track) (n p k v : Nat) (n' p' k' : Nat) :
    eff (setSubstate t n p k v) n' p' k'
      = if n' = n ∧ p' = p ∧ k' = k then some v else eff t n' p' k' := by
  unfold setSubstate
  cases h : lookupTV t n p k with
  | none => simp only []; rw [eff_putIn]; rfl
  | some tv => simp only []; rw [eff_putIn, TV.get_set]

/-- `remove_refines`: a removal returns the overlaid value; afterwards the substate is absent,
everything else is unchanged. -/
theorem remove_refines (t : Track) (n p k : Nat) :
    (removeSubstate t n p k).2 = eff t n p k ∧
    ∀ n' p' k', eff (removeSubstate t n p k).1 n' p' k'
      = if n' = n ∧ p' = p ∧ k' = k then none else eff t n' p' k' := by
  have h := getTracked_spec t n p k
  unfold removeSubstate
  refine ⟨?_, ?_⟩
  · show (getTracked t n p k).2.take.2 = eff t n p k
    rw [TV.take_snd]; exact h.2.1
  · intro n' p' k'
    show eff { (getTracked t n p k).1 with nodes := putIn (getTracked t n p k).1.nodes n p k (getTracked t n p k).2.take.1 } n' p' k' = _
    rw [eff_putIn, TV.take_fst_get, h.2.2]

/-- `create_refines`: after `create_node(n, substates)` — `n` fresh, i.e. the base database holds
nothing under `n` — node `n` consists of exactly the given substates; other nodes are unchanged. -/
theorem create_refines (t : Track) (n : Nat) (subs : NodeSubstates) (hsubs : IMap.Nodup subs)
    (hfresh : ∀ p k, t.db.get (n, p) k = none) (n' p' k' : Nat) :
    eff (createNode t n subs) n' p' k'
      = if n' = n then
          (match IMap.get? subs p' with | some kvs => lastBinding kvs k' | none => none)
        else eff t n' p' k' := by
  simp only [eff_eq, createNode, lookupIn, IMap.get?_set]
  by_cases hn : n' = n
  · subst hn
    simp only [if_true]
    rw [IMap.get?_foldl_set subs (fun kvs => SMap.ofList (kvs.map (fun kv => (kv.1, TV.new kv.2)))) hsubs]
    cases IMap.get? subs p' with
    | none => simp only [IMap.get?_nil]; exact hfresh p' k'
    | some kvs =>
      simp only [SMap.get?_ofList, lastBinding_map]
      cases lastBinding kvs k' with
      | none => exact hfresh p' k'
      | some v => rfl
  · simp only [hn, if_false]

example : IMap.Nodup ([(0, [(1, 5), (2, 6)]), (3, [])] : NodeSubstates) ∧
    ∀ p k, (Db.empty.set (7, 0) [(1, 1)]).get (4, p) k = none := by
  refine ⟨by simp [IMap.Nodup], ?_⟩
  intro p k; simp [Db.get, Db.set, Db.empty]

/-! ### scans -/

/-- `scanSorted_spec`: a limited sorted scan returns the first `limit` entries of *the* listing of
the partition's present entries in database key order (the strictly sorted list whose lookups are
`eff`), and changes nothing observable. -/
theorem scanSorted_spec (t : Track) (h : WF t) (n p limit : Nat) :
    (∃ l, SMap.Sorted l ∧ (∀ k, SMap.get? l k = eff t n p k) ∧
      (scanSortedSubstates t n p limit).2 = l.take limit) ∧
    ∀ n' p' k', eff (scanSortedSubstates t n p limit).1 n' p' k' = eff t n' p' k' := by
  refine ⟨⟨overlayIter (t.db (n, p)) (changesOf (partOf t.nodes n p)), ?_, ?_, ?_⟩, ?_⟩
  · exact overlayIter_sorted _ _ (h.dbWF (n, p)) (SMap.sorted_map _ _ (h.sorted n p))
  · exact overlay_get?_eff t h n p
  · exact scanSorted_eq t h n p limit
  · intro n' p' k'; exact eff_ensurePart t n p n' p' k'

/-- the listing in `scanSorted_spec` is unique: any two strictly sorted listings of the present
entries coincide -/
theorem sorted_listing_unique (l1 l2 : List (Nat × Nat)) (h1 : SMap.Sorted l1) (h2 : SMap.Sorted l2)
    (f : Nat → Option Nat) (e1 : ∀ k, SMap.get? l1 k = f k) (e2 : ∀ k, SMap.get? l2 k = f k) : l1 = l2 :=
  SMap.ext l1 l2 h1 h2 (fun k => by rw [e1, e2])

/-- `scanKeys_spec`: a limited key scan returns `min(limit, #present)` distinct keys, all of them
present, and changes nothing observable. (`presentKeys` enumerates exactly the present keys of the
partition, without repetition.) -/
theorem scanKeys_spec (t : Track) (h : WF t) (n p limit : Nat) :
    (scanKeys t n p limit).2 = (presentKeys t n p).take limit ∧
    (scanKeys t n p limit).2.Nodup ∧
    (∀ k ∈ (scanKeys t n p limit).2, (eff t n p k).isSome = true) ∧
    (scanKeys t n p limit).2.length = min limit (presentKeys t n p).length ∧
    ∀ n' p' k', eff (scanKeys t n p limit).1 n' p' k' = eff t n' p' k' := by
  have he := scanKeys_eq t h n p limit
  refine ⟨he, ?_, ?_, ?_, ?_⟩
  · rw [he]; exact (presentKeys_nodup t h n p).sublist (List.take_sublist _ _)
  · intro k hk
    rw [he] at hk
    exact (mem_presentKeys t h n p k).mp (List.mem_of_mem_take hk)
  · rw [he, List.length_take]
  · exact eff_scanKeys t n p limit

/-- `presentKeys` is exactly the set of present keys, each listed once -/
theorem presentKeys_spec (t : Track) (h : WF t) (n p : Nat) :
    (presentKeys t n p).Nodup ∧ ∀ k, k ∈ presentKeys t n p ↔ (eff t n p k).isSome = true :=
  ⟨presentKeys_nodup t h n p, mem_presentKeys t h n p⟩

/-! ### final state updates -/

/-- `state_updates_meaning`: committing the `StateUpdates` produced at the end to the base
database changes exactly the tracked substates that carry a write (no partition deletions). -/
theorem state_updates_meaning (t : Track) (hn : NodesNodup t.nodes) (hs : ∀ n p, SMap.Sorted (partOf t.nodes n p))
    (hd : t.deleted = []) (n p k : Nat) :
    (t.db.commit (toStateUpdates t).2).get (n, p) k = effCommit t n p k := by
  unfold toStateUpdates Db.get
  simp only [hd, suOfDeleted]
  have hsn : SUNodup (suOfNodes [] t.nodes) := sunodup_suOfNodes [] t.nodes ⟨by simp [IMap.Nodup], by simp⟩
  rw [get?_commit_su _ _ hsn, lookupSU_final t.nodes hn]
  exact applyPUpdF_partPUpd (partOf t.nodes n p) (hs n p) (SMap.get? (t.db (n, p))) k

theorem effCommit_eq_eff (t : Track) (hc : Coherent t) (n p k : Nat) : effCommit t n p k = eff t n p k := by
  unfold effCommit
  rw [eff_eq, lookupIn_eq]
  cases hg : SMap.get? (partOf t.nodes n p) k with
  | none => rfl
  | some tv =>
    have hct := hc n p k tv hg
    cases tv with
    | new v => rfl
    | readOnly r => simp only [TV.toUpdate, TV.get]; rw [← hct]; cases r <;> rfl
    | readExistAndWrite old w => cases w <;> rfl
    | readNonExistAndWrite v => rfl
    | writeOnly w => cases w <;> rfl
    | garbage => simp only [TV.toUpdate, TV.get]; exact hct

/-- `state_updates_are_diff`: applying the final `StateUpdates` to the base database yields
exactly the overlaid state `eff`. -/
theorem state_updates_are_diff (t : Track) (hn : NodesNodup t.nodes)
    (hs : ∀ n p, SMap.Sorted (partOf t.nodes n p)) (hd : t.deleted = []) (hc : Coherent t) (n p k : Nat) :
    (t.db.commit (toStateUpdates t).2).get (n, p) k = eff t n p k := by
  rw [state_updates_meaning t hn hs hd, effCommit_eq_eff t hc]

end Radix.Track
