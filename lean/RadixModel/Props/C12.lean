/-
C12 — The transaction state cache reads back its own writes.

Property theorems only. Model: `Model/Track.lean` (`MappedTrack`, `TrackedSubstateValue`),
`Model/SubstateDb.lean` (the base database and the meaning of committing `StateUpdates`),
`Model/KV.lean` (`OverlayingResultIterator` loop).

The abstraction is `eff t n p k` ("what a read observes"): the tracked value of `(n,p,k)` if the
substate is tracked, the base database value otherwise.
-/
import RadixModel.Model.Track
import RadixModel.Lemmas.Track

namespace Radix.Track
open Radix.KV Radix.SubstateDb

/-- `get_refines`: a read returns the overlaid value and changes nothing observable
(it only caches the database value). -/
theorem get_refines (t : Track) (n p k : Nat) :
    (getSubstate t n p k).2 = eff t n p k ∧
    ∀ n' p' k', eff (getSubstate t n p k).1 n' p' k' = eff t n' p' k' := by
  have h := getTracked_spec t n p k
  exact ⟨h.2.1, h.2.2⟩

/-- `set_refines`: after a write the substate reads back the written value, everything else is
unchanged. -/
theorem set_refines (t : Track) (n p k v : Nat) (n' p' k' : Nat) :
    eff (setSubstate t n p k v) n' p' k'
      = if n' = n ∧ p' = p ∧ k' = k then some v else eff t n' p' k' := by
  unfold setSubstate
  cases h : lookupTV t n p k with
  | none => simp only []; rw [eff_putIn]; rfl
  | some tv => simp only []; rw [eff_putIn, TV.get_set]

/-- `remove_refines`: a removal returns the overlaid value; afterwards the substate is absent,
everything else is unchanged. -/
theorem remove_refines (t : Track) (n p k : Nat) :
    (removeSubstate t n p k).2 = eff t n p k ∧
    ∀ n' p' k', eff (removeSubstate t n p k).1 n' p' k'
      = if n' = n ∧ p' = p ∧ k' = k then none else eff t n' p' k' := by
  have h := getTracked_spec t n p k
  unfold removeSubstate
  refine ⟨?_, ?_⟩
  · show (getTracked t n p k).2.take.2 = eff t n p k
    rw [TV.take_snd]; exact h.2.1
  · intro n' p' k'
    show eff { (getTracked t n p k).1 with nodes := putIn (getTracked t n p k).1.nodes n p k (getTracked t n p k).2.take.1 } n' p' k' = _
    rw [eff_putIn, TV.take_fst_get, h.2.2]

/-- `create_refines`: after `create_node(n, substates)` — `n` fresh, i.e. the base database holds
nothing under `n` — node `n` consists of exactly the given substates; other nodes are unchanged. -/
theorem create_refines (t : Track) (n : Nat) (subs : NodeSubstates) (hsubs : IMap.Nodup subs)
    (hfresh : ∀ p k, t.db.get (n, p) k = none) (n' p' k' : Nat) :
    eff (createNode t n subs) n' p' k'
      = if n' = n then
          (match IMap.get? subs p' with | some kvs => lastBinding kvs k' | none => none)
        else eff t n' p' k' := by
  simp only [eff_eq, createNode, lookupIn, IMap.get?_set]
  by_cases hn : n' = n
  · subst hn
    simp only [if_true]
    rw [IMap.get?_foldl_set subs (fun kvs => SMap.ofList (kvs.map (fun kv => (kv.1, TV.new kv.2)))) hsubs]
    cases IMap.get? subs p' with
    | none => simp only [IMap.get?_nil]; exact hfresh p' k'
    | some kvs =>
      simp only [SMap.get?_ofList, lastBinding_map]
      cases lastBinding kvs k' with
      | none => exact hfresh p' k'
      | some v => rfl
  · simp only [hn, if_false]

example : IMap.Nodup ([(0, [(1, 5), (2, 6)]), (3, [])] : NodeSubstates) ∧
    ∀ p k, (Db.empty.set (7, 0) [(1, 1)]).get (4, p) k = none := by
  refine ⟨by simp [IMap.Nodup], ?_⟩
  intro p k; simp [Db.get, Db.set, Db.empty]

/-! ### scans -/

/-- `scanSorted_spec`: a limited sorted scan returns the first `limit` entries of *the* listing of
the partition's present entries in database key order (the strictly sorted list whose lookups are
`eff`), and changes nothing observable. -/
theorem scanSorted_spec (t : Track) (h : WF t) (n p limit : Nat) :
    (∃ l, SMap.Sorted l ∧ (∀ k, SMap.get? l k = eff t n p k) ∧
      (scanSortedSubstates t n p limit).2 = l.take limit) ∧
    ∀ n' p' k', eff (scanSortedSubstates t n p limit).1 n' p' k' = eff t n' p' k' := by
  refine ⟨⟨overlayIter (t.db (n, p)) (changesOf (partOf t.nodes n p)), ?_, ?_, ?_⟩, ?_⟩
  · exact overlayIter_sorted _ _ (h.dbWF (n, p)) (SMap.sorted_map _ _ (h.sorted n p))
  · exact overlay_get?_eff t h n p
  · exact scanSorted_eq t h n p limit
  · intro n' p' k'; exact eff_ensurePart t n p n' p' k'

/-- the listing in `scanSorted_spec` is unique: any two strictly sorted listings of the present
entries coincide -/
theorem sorted_listing_unique (l1 l2 : List (Nat × Nat)) (h1 : SMap.Sorted l1) (h2 : SMap.Sorted l2)
    (f : Nat → Option Nat) (e1 : ∀ k, SMap.get? l1 k = f k) (e2 : ∀ k, SMap.get? l2 k = f k) : l1 = l2 :=
  SMap.ext l1 l2 h1 h2 (fun k => by rw [e1, e2])

/-- `scanKeys_spec`: a limited key scan returns `min(limit, #present)` distinct keys, all of them
present, and changes nothing observable. (`presentKeys` enumerates exactly the present keys of the
partition, without repetition.) -/
theorem scanKeys_spec (t : Track) (h : WF t) (n p limit : Nat) :
    (scanKeys t n p limit).2 = (presentKeys t n p).take limit ∧
    (scanKeys t n p limit).2.Nodup ∧
    (∀ k ∈ (scanKeys t n p limit).2, (eff t n p k).isSome = true) ∧
    (scanKeys t n p limit).2.length = min limit (presentKeys t n p).length ∧
    ∀ n' p' k', eff (scanKeys t n p limit).1 n' p' k' = eff t n' p' k' := by
  have he := scanKeys_eq t h n p limit
  refine ⟨he, ?_, ?_, ?_, ?_⟩
  · rw [he]; exact (presentKeys_nodup t h n p).sublist (List.take_sublist _ _)
  · intro k hk
    rw [he] at hk
    exact (mem_presentKeys t h n p k).mp (List.mem_of_mem_take hk)
  · rw [he, List.length_take]
  · exact eff_scanKeys t n p limit

/-- `presentKeys` is exactly the set of present keys, each listed once -/
theorem presentKeys_spec (t : Track) (h : WF t) (n p : Nat) :
    (presentKeys t n p).Nodup ∧ ∀ k, k ∈ presentKeys t n p ↔ (eff t n p k).isSome = true :=
  ⟨presentKeys_nodup t h n p, mem_presentKeys t h n p⟩

/-! ### final state updates -/

/-- `state_updates_meaning`: committing the `StateUpdates` produced at the end to the base
database changes exactly the tracked substates that carry a write (no partition deletions). -/
theorem state_updates_meaning (t : Track) (hn : NodesNodup t.nodes) (hs : ∀ n p, SMap.Sorted (partOf t.nodes n p))
    (hd : t.deleted = []) (n p k : Nat) :
    (t.db.commit (toStateUpdates t).2).get (n, p) k = effCommit t n p k := by
  unfold toStateUpdates Db.get
  simp only [hd, suOfDeleted]
  have hsn : SUNodup (suOfNodes [] t.nodes) := sunodup_suOfNodes [] t.nodes ⟨by simp [IMap.Nodup], by simp⟩
  rw [get?_commit_su _ _ hsn, lookupSU_final t.nodes hn]
  exact applyPUpdF_partPUpd (partOf t.nodes n p) (hs n p) (SMap.get? (t.db (n, p))) k

theorem effCommit_eq_eff (t : Track) (hc : Coherent t) (n p k : Nat) : effCommit t n p k = eff t n p k := by
  unfold effCommit
  rw [eff_eq, lookupIn_eq]
  cases hg : SMap.get? (partOf t.nodes n p) k with
  | none => rfl
  | some tv =>
    have hct := hc n p k tv hg
    cases tv with
    | new v => rfl
    | readOnly r => simp only [TV.toUpdate, TV.get]; rw [← hct]; cases r <;> rfl
    | readExistAndWrite old w => cases w <;> rfl
    | readNonExistAndWrite v => rfl
    | writeOnly w => cases w <;> rfl
    | garbage => simp only [TV.toUpdate, TV.get]; exact hct

/-- `state_updates_are_diff`: applying the final `StateUpdates` to the base database yields
exactly the overlaid state `eff`. -/
theorem state_updates_are_diff (t : Track) (hn : NodesNodup t.nodes)
    (hs : ∀ n p, SMap.Sorted (partOf t.nodes n p)) (hd : t.deleted = []) (hc : Coherent t) (n p k : Nat) :
    (t.db.commit (toStateUpdates t).2).get (n, p) k = eff t n p k := by
  rw [state_updates_meaning t hn hs hd, effCommit_eq_eff t hc]

/-! ### drain -/

/-- `drain_spec`: a limited drain returns the first `limit` present entries (in visiting order:
tracked ones, then untracked database ones), i.e. `min(limit, #present)` distinct present entries
with their values, and afterwards exactly those substates are absent; nothing else changes. -/
theorem drain_spec (t : Track) (h : WF t) (n p limit : Nat) :
    (drainSubstates t n p limit).2 = (presentEntries t n p).take limit ∧
    (∀ n' p' k', eff (drainSubstates t n p limit).1 n' p' k'
      = if n' = n ∧ p' = p ∧ k' ∈ (drainSubstates t n p limit).2.map (·.1) then none
        else eff t n' p' k') := by
  obtain ⟨hitems, hdb, _, _, hpart⟩ := drain_nf t n p limit
  refine ⟨by rw [hitems]; exact drainResult_items t h n p limit, ?_⟩
  intro n' p' k'
  rw [eff_part, hpart, hdb, hitems]
  by_cases hh : n' = n ∧ p' = p
  · obtain ⟨rfl, rfl⟩ := hh
    simp only [and_self, if_true, true_and]
    exact drainResult_get t n' p' limit k'
  · simp only [hh, if_false]
    have : ¬ (n' = n ∧ p' = p ∧ k' ∈ (drainResult t n p limit).2.map (·.1)) := fun hx => hh ⟨hx.1, hx.2.1⟩
    simp only [this, if_false]
    rw [eff_part]

/-- the entries visited by a drain are exactly the present entries of the partition, with their
values, each key once -/
theorem presentEntries_spec (t : Track) (h : WF t) (n p : Nat) :
    (presentEntries t n p).map (·.1) = presentKeys t n p ∧
    ∀ k v, (k, v) ∈ presentEntries t n p → eff t n p k = some v := by
  unfold presentEntries presentKeys presentEntriesT presentTracked
  refine ⟨?_, ?_⟩
  · rw [List.map_append]
    congr 1
    generalize partOf t.nodes n p = part
    induction part with
    | nil => rfl
    | cons hd rest ih =>
      obtain ⟨k, tv⟩ := hd
      simp only [List.filterMap_cons, List.filter_cons]
      cases tv.get with
      | none => simpa using ih
      | some v => simpa using ih
  · intro k v hm
    rw [List.mem_append] at hm
    rw [eff_part]
    rcases hm with hm | hm
    · rw [List.mem_filterMap] at hm
      obtain ⟨x, hx, hxv⟩ := hm
      obtain ⟨k0, tv⟩ := x
      cases hg : tv.get with
      | none => simp only [hg] at hxv; simp at hxv
      | some v0 =>
        simp only [hg, Option.some.injEq, Prod.mk.injEq] at hxv
        obtain ⟨rfl, rfl⟩ := hxv
        rw [SMap.get?_of_mem _ (h.sorted n p) k0 tv hx]
        exact hg
    · unfold untrackedDb at hm
      rw [List.mem_filter] at hm
      have hc : SMap.get? (partOf t.nodes n p) k = none := by
        have := hm.2
        simp only [SMap.contains, Bool.not_eq_true', Option.isSome_eq_false_iff, Option.isNone_iff_eq_none] at this
        exact this
      rw [hc]
      exact SMap.get?_of_mem _ (h.dbWF (n, p)) k v hm.1

/-! ### the invariants hold along every transaction -/

/-- side conditions of an operation: `create_node` needs a node id that is new (nothing in the
base database under it) — "Clients must ensure the `node_id` is new and unique" — and revert is
treated separately (`Coherent` talks about the forward phase of a transaction) -/
def OpOK (t : Track) : Op → Prop
  | .create n _ => ∀ p, t.db (n, p) = []
  | .revert => False
  | _ => True

theorem step_db (t : Track) (op : Op) (hop : OpOK t op) : (step t op).1.db = t.db := by
  cases op with
  | get n p k => exact getTracked_db t n p k
  | set n p k v => unfold step setSubstate; simp only []; split <;> rfl
  | remove n p k => exact getTracked_db t n p k
  | create n subs => rfl
  | scanKeys n p l =>
    unfold step scanKeys; simp only []
    rcases scanTrackedKeys l (trackedOr t n p) with ⟨items, rem⟩
    simp only []; split <;> rfl
  | drain n p l => exact (drain_nf t n p l).2.1
  | scanSorted n p l => rfl
  | forceWrite n p k =>
    unfold step forceWrite; simp only []
    cases lookupTV t n p k <;> rfl
  | deletePartition n p => rfl
  | revert => exact hop.elim

/-- `inv_step`: every operation of a transaction (other than the final revert) keeps the
representation invariant and the coherence of the cache with the base database. -/
theorem inv_step (t : Track) (op : Op) (hop : OpOK t op) (h : Inv t) : Inv (step t op).1 := by
  cases op with
  | get n p k => exact inv_get t n p k h
  | set n p k v => exact inv_set t n p k v h
  | remove n p k => exact inv_remove t n p k h
  | create n subs => exact inv_create t n subs h hop
  | scanKeys n p l => exact inv_scanKeys t n p l h
  | drain n p l => exact inv_drain t n p l h
  | scanSorted n p l => exact inv_scanSorted t n p l h
  | forceWrite n p k =>
    simp only [step]
    cases hf : forceWrite t n p k with
    | none => exact h
    | some t' => exact inv_forceWrite t t' n p k h hf
  | deletePartition n p => exact inv_deletePartition t n p h
  | revert => exact hop.elim

theorem inv_new (db : Db) (hdb : Db.WF db) : Inv (new db) := by
  refine ⟨⟨hdb, ?_, ?_⟩, ⟨by simp [new, IMap.Nodup], by simp [new]⟩, ?_⟩
  · intro n p; simp [new, partOf, SMap.Sorted]
  · intro n hn; simp [new, isNewIn] at hn
  · intro n p k tv hg; simp [new, partOf] at hg

/-- admissible op sequences: each op satisfies its side condition in the state it is issued in -/
def OpsOK (t : Track) : List Op → Prop
  | [] => True
  | op :: rest => OpOK t op ∧ OpsOK (step t op).1 rest

theorem inv_run (t : Track) (ops : List Op) (hops : OpsOK t ops) (h : Inv t) :
    Inv (ops.foldl (fun t op => (step t op).1) t) := by
  induction ops generalizing t with
  | nil => exact h
  | cons op rest ih => exact ih _ hops.2 (inv_step t op hops.1 h)

/-- **C12 (forward phase).** For every sorted base database and every admissible sequence of
creations, reads, writes, removals, scans, drains and force-writes, the reached track satisfies
the invariants under which `get/set/remove/create_refines`, `scanKeys_spec`, `drain_spec`,
`scanSorted_spec` hold, and — when no partition was deleted — applying the final `StateUpdates`
to the base database yields exactly the overlaid state. -/
theorem reads_back_own_writes (db : Db) (hdb : Db.WF db) (ops : List Op) (hops : OpsOK (new db) ops) :
    let t := run db ops
    WF t ∧ (t.deleted = [] → ∀ n p k, (t.db.commit (toStateUpdates t).2).get (n, p) k = eff t n p k) := by
  have h := inv_run (new db) ops hops (inv_new db hdb)
  exact ⟨h.wf, fun hd n p k => state_updates_are_diff _ h.nodup h.wf.sorted hd h.coh n p k⟩

/-- the side conditions only depend on the base database, which no operation changes -/
theorem opsOK_of_forall (t : Track) (ops : List Op)
    (h : ∀ op ∈ ops, ∀ t' : Track, t'.db = t.db → OpOK t' op) : OpsOK t ops := by
  induction ops generalizing t with
  | nil => trivial
  | cons op rest ih =>
    have h1 := h op (List.mem_cons_self ..) t rfl
    refine ⟨h1, ih _ ?_⟩
    intro op' hop' t' hdb
    exact h op' (List.mem_cons_of_mem _ hop') t' (by rw [hdb, step_db t op h1])

example : OpsOK (new (Db.empty.set (0, 0) [(1, 10)]))
    [.get 0 0 1, .set 0 0 2 5, .create 3 [(0, [(1, 1)])], .remove 0 0 1, .drain 0 0 2, .scanSorted 3 0 1] := by
  apply opsOK_of_forall
  intro op hop t' hdb
  simp only [List.mem_cons, List.not_mem_nil, or_false] at hop
  rcases hop with rfl | rfl | rfl | rfl | rfl | rfl
  all_goals first
    | trivial
    | (intro p; show t'.db (3, p) = []; rw [hdb]; simp [new, Db.set, Db.empty])

/-! ### revert (partial)

Full statement (proved at the end of this file as `revert_spec_other` + `revert_spec_force`; also exercised on
the implementation by the c12 oracle keys `state-updates-not-diff:*` after a `revert` and
`revert:panic`):

  theorem revert_spec (t t' : Track) (h : Inv t) (hforce : NodesNodup t.force ∧ sorted parts)
      (hr : revert t = some t') (n p k : Nat) :
      effCommit t' n p k = match lookupIn t.force n p k with
        | some ftv => (match ftv.toUpdate with | some u => u | none => t.db.get (n, p) k)
        | none => t.db.get (n, p) k

What is proved is the per-substate kernel of it: a reverted tracked value carries no write, and
reads back the base database value except when it was a blind write (`WriteOnly`), which becomes
`Garbage` and reads as absent. -/

/-- a reverted tracked value never contributes to the final state updates -/
theorem revert_value_partial (tv : TV) : tv.revertWrites.toUpdate = none := by
  cases tv <;> rfl

/-- after `revert_writes` a coherent tracked value reads back the base database value, unless it
was a blind write (`WriteOnly`): that one becomes `Garbage` and reads as absent -/
theorem revert_read_partial (db : Db) (n p k : Nat) (tv : TV) (h : CohTV db n p k tv)
    (hw : ∀ w, tv ≠ .writeOnly w) : tv.revertWrites.get = db.get (n, p) k := by
  cases tv with
  | new v => exact h.symm
  | readOnly r => simp only [TV.revertWrites]; rw [← h]; cases r <;> rfl
  | readExistAndWrite old w => exact h.symm
  | readNonExistAndWrite v => exact h.symm
  | writeOnly w => exact absurd rfl (hw w)
  | garbage => exact h.symm

example : CohTV (Db.empty.set (0, 0) [(1, 10)]) 0 0 1 (.readExistAndWrite 10 (.update 11)) := by
  simp [CohTV, Db.get, Db.set, Db.empty, SMap.get?]

/-! ### revert, whole track, no force-written substate

The whole-track lift of `revert_value_partial` for the common failure path (a failed transaction
that force-wrote nothing, i.e. locked no fee vault substate through `FORCE_WRITE`): after
`revert_non_force_write_changes` the tracked nodes contribute NO substate update at all to the
final `StateUpdates` (whatever accumulator they are folded into), no node is reported as new, and
revert cannot panic. With force-written substates the statement is `revert_spec` above (not proved).
-/

theorem partUpdates_reverted (part : TPart) :
    partUpdates (part.map (fun ktv => (ktv.1, ktv.2.revertWrites))) = [] := by
  induction part with
  | nil => rfl
  | cons kv rest ih =>
    simp only [partUpdates, List.map_cons, List.filterMap_cons] at ih ⊢
    rw [revert_value_partial kv.2]
    exact ih

theorem suOfParts_reverted (su : DbUpdates) (n : Nat) (parts : List (Nat × TPart)) :
    suOfParts su n
      (parts.map (fun pp => (pp.1, pp.2.map (fun ktv => (ktv.1, ktv.2.revertWrites))))) = su := by
  induction parts with
  | nil => rfl
  | cons pp rest ih =>
    simp only [List.map_cons, suOfParts, partUpdates_reverted, List.isEmpty_nil, if_true]
    exact ih

theorem suOfNodes_reverted (su : DbUpdates) (nodes : Nodes) :
    suOfNodes su (nodes.map (fun nn => (nn.1, nn.2.revertWrites))) = su := by
  induction nodes with
  | nil => rfl
  | cons nn rest ih =>
    simp only [List.map_cons, suOfNodes, TNode.revertWrites, suOfParts_reverted]
    exact ih

/-- `revert_no_force_whole_track`: for EVERY track without force-written substates, revert
succeeds, and the reverted track yields exactly the partition deletions as state updates and no
new node. -/
theorem revert_no_force_whole_track (t : Track) (hf : t.force = []) :
    ∃ t', revert t = some t' ∧ t'.force = [] ∧ t'.db = t.db ∧ t'.deleted = t.deleted ∧
      toStateUpdates t' = ([], suOfDeleted [] t.deleted) := by
  refine ⟨{ t with
      nodes := List.map (fun nn => (nn.1, nn.2.revertWrites))
        (IMap.retain t.nodes (fun _ nd => !nd.isNew)),
      force := [] },
    by simp only [revert, hf, applyForce], rfl, rfl, rfl, ?_⟩
  simp only [toStateUpdates, suOfNodes_reverted, Prod.mk.injEq, and_true]
  simp only [IMap.retain, TNode.revertWrites, List.filter_map, List.filter_filter, List.map_map]
  rw [List.map_eq_nil_iff, List.filter_eq_nil_iff]
  intro nn _
  simp only [Function.comp]
  cases nn.2.isNew <;> simp

/-- non-vacuity: a track with a written substate on an existing node and a created node, no force
write — revert drops both -/
example : (revert (run (Db.empty.set (0, 0) [(1, 10)])
      [.get 0 0 1, .set 0 0 1 5, .create 3 [(0, [(1, 1)])]])).map toStateUpdates
    = some ([], []) := by decide

/-! ### revert, whole track, with force-written substates: no created node survives

For EVERY track (force-written substates included): when `revert_non_force_write_changes` does not
panic, no tracked node of the reverted track is marked new, so a failed transaction never reports
a new node id (`toStateUpdates t').1 = []`). -/

def NoNew (nodes : Nodes) : Prop := ∀ nn ∈ nodes, nn.2.isNew = false

theorem alter_noNew (nodes : Nodes) (n : Nat) (f : TNode → TNode)
    (hf : ∀ nd, (f nd).isNew = nd.isNew) (h : NoNew nodes) :
    NoNew (IMap.alter nodes n { parts := [], isNew := false } f) := by
  induction nodes with
  | nil =>
    intro nn hnn
    simp only [IMap.alter, List.mem_singleton] at hnn
    rw [hnn]; exact hf _
  | cons hd rest ih =>
    intro nn hnn
    simp only [IMap.alter] at hnn
    split at hnn
    · rcases List.mem_cons.mp hnn with rfl | hm
      · show (f hd.2).isNew = false
        rw [hf]; exact h hd (List.mem_cons_self ..)
      · exact h nn (List.mem_cons_of_mem _ hm)
    · rcases List.mem_cons.mp hnn with rfl | hm
      · exact h _ (List.mem_cons_self ..)
      · exact ih (fun x hx => h x (List.mem_cons_of_mem _ hx)) nn hm

theorem putIn_noNew (nodes : Nodes) (n p k : Nat) (tv : TV) (h : NoNew nodes) :
    NoNew (putIn nodes n p k tv) :=
  alter_noNew nodes n _ (fun _ => rfl) h

theorem applyForcePart_noNew (n p : Nat) (part : TPart) (nodes nodes' : Nodes) (h : NoNew nodes)
    (hr : applyForcePart nodes n p part = some nodes') : NoNew nodes' := by
  induction part generalizing nodes with
  | nil => simp only [applyForcePart, Option.some.injEq] at hr; exact hr ▸ h
  | cons ktv rest ih =>
    simp only [applyForcePart, replaceExisting] at hr
    split at hr
    · exact absurd hr (by simp)
    · rename_i nodes1 h1
      split at h1
      · exact absurd h1 (by simp)
      · simp only [Option.some.injEq] at h1
        exact ih _ (h1 ▸ putIn_noNew _ _ _ _ _ h) hr

theorem applyForceNode_noNew (n : Nat) (parts : List (Nat × TPart)) (nodes nodes' : Nodes)
    (h : NoNew nodes) (hr : applyForceNode nodes n parts = some nodes') : NoNew nodes' := by
  induction parts generalizing nodes with
  | nil => simp only [applyForceNode, Option.some.injEq] at hr; exact hr ▸ h
  | cons pp rest ih =>
    simp only [applyForceNode] at hr
    split at hr
    · exact absurd hr (by simp)
    · rename_i nodes1 h1
      exact ih _ (applyForcePart_noNew _ _ _ _ _ h h1) hr

theorem applyForce_noNew (force : Nodes) (nodes nodes' : Nodes)
    (h : NoNew nodes) (hr : applyForce nodes force = some nodes') : NoNew nodes' := by
  induction force generalizing nodes with
  | nil => simp only [applyForce, Option.some.injEq] at hr; exact hr ▸ h
  | cons nn rest ih =>
    simp only [applyForce] at hr
    split at hr
    · exact absurd hr (by simp)
    · rename_i nodes1 h1
      exact ih _ (applyForceNode_noNew _ _ _ _ h h1) hr

/-- `revert_reports_no_new_node`: after any successful revert no node is reported as created -/
theorem revert_reports_no_new_node (t t' : Track) (hr : revert t = some t') :
    NoNew t'.nodes ∧ (toStateUpdates t').1 = [] ∧ t'.force = [] := by
  simp only [revert] at hr
  split at hr
  · exact absurd hr (by simp)
  · rename_i nodes' h1
    simp only [Option.some.injEq] at hr
    subst hr
    have hk : NoNew ((IMap.retain t.nodes (fun _ nd => !nd.isNew)).map
        (fun nn => (nn.1, nn.2.revertWrites))) := by
      intro nn hnn
      obtain ⟨a, ha, rfl⟩ := List.mem_map.mp hnn
      simp only [IMap.retain, List.mem_filter] at ha
      have := ha.2
      simp only [TNode.revertWrites]
      cases hh : a.2.isNew <;> simp_all
    have hn := applyForce_noNew _ _ _ hk h1
    refine ⟨hn, ?_, rfl⟩
    simp only [toStateUpdates, List.map_eq_nil_iff, List.filter_eq_nil_iff]
    intro nn hnn
    rw [hn nn hnn]; simp

/-- non-vacuity: a fee-vault style force write on an existing node plus a created node; revert
succeeds, keeps the force-written value and reports no new node -/
example : (revert (run (Db.empty.set (0, 0) [(1, 10)])
      [.get 0 0 1, .set 0 0 1 5, .forceWrite 0 0 1, .set 0 0 1 6, .create 3 [(0, [(1, 1)])]])).map
        (fun t => (toStateUpdates t).1) = some [] := by decide

/-! ### revert, whole track: substates outside the force-write set carry no write

`InForce force n p k`: the substate `(n, p, k)` was force-written. For every track and every
substate NOT force-written, a successful revert leaves exactly the reverted tracked value of a
surviving (not new) node, hence it contributes no update (`revert_keeps_only_force_writes_frame`:
only force-written substates can appear in a failed transaction's state updates). -/

def InForce (force : Nodes) (n p k : Nat) : Prop :=
  ∃ nd, (n, nd) ∈ force ∧ ∃ part, (p, part) ∈ nd.parts ∧ ∃ tv, (k, tv) ∈ part

theorem applyForcePart_frame (n p : Nat) (part : TPart) (nodes nodes' : Nodes)
    (hr : applyForcePart nodes n p part = some nodes') (n' p' k' : Nat)
    (hout : ¬ (n' = n ∧ p' = p ∧ ∃ tv, (k', tv) ∈ part)) :
    lookupIn nodes' n' p' k' = lookupIn nodes n' p' k' := by
  induction part generalizing nodes with
  | nil => simp only [applyForcePart, Option.some.injEq] at hr; rw [hr]
  | cons ktv rest ih =>
    simp only [applyForcePart, replaceExisting] at hr
    split at hr
    · exact absurd hr (by simp)
    · rename_i nodes1 h1
      split at h1
      · exact absurd h1 (by simp)
      · simp only [Option.some.injEq] at h1
        subst h1
        rw [ih _ hr (fun hh => hout ⟨hh.1, hh.2.1, hh.2.2.elim fun tv hm =>
          ⟨tv, List.mem_cons_of_mem _ hm⟩⟩), lookupIn_putIn]
        have : ¬ (n' = n ∧ p' = p ∧ k' = ktv.1) := fun hh =>
          hout ⟨hh.1, hh.2.1, ktv.2, by rw [hh.2.2]; exact List.mem_cons_self ..⟩
        simp only [this, if_false]

theorem applyForceNode_frame (n : Nat) (parts : List (Nat × TPart)) (nodes nodes' : Nodes)
    (hr : applyForceNode nodes n parts = some nodes') (n' p' k' : Nat)
    (hout : ¬ (n' = n ∧ ∃ part, (p', part) ∈ parts ∧ ∃ tv, (k', tv) ∈ part)) :
    lookupIn nodes' n' p' k' = lookupIn nodes n' p' k' := by
  induction parts generalizing nodes with
  | nil => simp only [applyForceNode, Option.some.injEq] at hr; rw [hr]
  | cons pp rest ih =>
    simp only [applyForceNode] at hr
    split at hr
    · exact absurd hr (by simp)
    · rename_i nodes1 h1
      rw [ih _ hr (fun hh => hout ⟨hh.1, hh.2.elim fun part hm =>
        ⟨part, List.mem_cons_of_mem _ hm.1, hm.2⟩⟩)]
      exact applyForcePart_frame _ _ _ _ _ h1 _ _ _ (fun hh =>
        hout ⟨hh.1, pp.2, by rw [hh.2.1]; exact List.mem_cons_self .., hh.2.2⟩)

theorem applyForce_frame (force : Nodes) (nodes nodes' : Nodes)
    (hr : applyForce nodes force = some nodes') (n' p' k' : Nat)
    (hout : ¬ InForce force n' p' k') :
    lookupIn nodes' n' p' k' = lookupIn nodes n' p' k' := by
  induction force generalizing nodes with
  | nil => simp only [applyForce, Option.some.injEq] at hr; rw [hr]
  | cons nn rest ih =>
    simp only [applyForce] at hr
    split at hr
    · exact absurd hr (by simp)
    · rename_i nodes1 h1
      rw [ih _ hr (fun hh => hout (hh.elim fun nd hm =>
        ⟨nd, List.mem_cons_of_mem _ hm.1, hm.2⟩))]
      exact applyForceNode_frame _ _ _ _ h1 _ _ _ (fun hh =>
        hout ⟨nn.2, by rw [hh.1]; exact List.mem_cons_self .., hh.2⟩)

/-- `revert_keeps_only_force_writes_frame`: after a successful revert, a substate that was not
force-written is tracked exactly as in the reverted surviving nodes -/
theorem revert_keeps_only_force_writes_frame (t t' : Track) (hr : revert t = some t')
    (n p k : Nat) (hout : ¬ InForce t.force n p k) :
    lookupIn t'.nodes n p k
      = lookupIn ((IMap.retain t.nodes (fun _ nd => !nd.isNew)).map
          (fun nn => (nn.1, nn.2.revertWrites))) n p k := by
  simp only [revert] at hr
  split at hr
  · exact absurd hr (by simp)
  · rename_i nodes' h1
    simp only [Option.some.injEq] at hr
    subst hr
    exact applyForce_frame _ _ _ h1 _ _ _ hout

/-- non-vacuity: with `(0,0,1)` force-written, `(0,0,2)` is outside the force-write set -/
example : ¬ InForce [(0, { parts := [(0, [(1, TV.garbage)])], isNew := false })] 0 0 2 := by
  simp [InForce]

/-! ### revert, whole track: force-written substates hold the force-written value

The force-write set is a map of maps of maps in the real code (`IndexMap` / `IndexMap` /
`BTreeMap`), i.e. keys are unique at each level (`NodesNodup`, `IMap.Nodup`). -/

theorem applyForcePart_hit (n p : Nat) (part : TPart) (nodes nodes' : Nodes)
    (hr : applyForcePart nodes n p part = some nodes') (hnd : IMap.Nodup part)
    (k : Nat) (tv : TV) (hm : (k, tv) ∈ part) : lookupIn nodes' n p k = some tv := by
  induction part generalizing nodes with
  | nil => exact absurd hm (by simp)
  | cons ktv rest ih =>
    have hnd' := List.pairwise_cons.mp hnd
    have hr0 := hr
    simp only [applyForcePart, replaceExisting] at hr
    split at hr
    · exact absurd hr (by simp)
    · rename_i nodes1 h1
      split at h1
      · exact absurd h1 (by simp)
      · simp only [Option.some.injEq] at h1
        subst h1
        rcases List.mem_cons.mp hm with heq | hin
        · subst heq
          rw [applyForcePart_frame _ _ _ _ _ hr n p k (fun hh =>
            hh.2.2.elim fun tv' hm' => hnd'.1 _ hm' rfl), lookupIn_putIn]
          simp
        · exact ih _ hr hnd'.2 hin

theorem applyForceNode_hit (n : Nat) (parts : List (Nat × TPart)) (nodes nodes' : Nodes)
    (hr : applyForceNode nodes n parts = some nodes') (hnd : IMap.Nodup parts)
    (p : Nat) (part : TPart) (hp : (p, part) ∈ parts) (hpn : IMap.Nodup part)
    (k : Nat) (tv : TV) (hm : (k, tv) ∈ part) : lookupIn nodes' n p k = some tv := by
  induction parts generalizing nodes with
  | nil => exact absurd hp (by simp)
  | cons pp rest ih =>
    have hnd' := List.pairwise_cons.mp hnd
    simp only [applyForceNode] at hr
    split at hr
    · exact absurd hr (by simp)
    · rename_i nodes1 h1
      rcases List.mem_cons.mp hp with heq | hin
      · subst heq
        rw [applyForceNode_frame _ _ _ _ hr n p k (fun hh =>
          hh.2.elim fun part' hm' => hnd'.1 _ hm'.1 rfl)]
        exact applyForcePart_hit _ _ _ _ _ h1 hpn k tv hm
      · exact ih _ hr hnd'.2 hin

theorem applyForce_hit (force : Nodes) (nodes nodes' : Nodes)
    (hr : applyForce nodes force = some nodes') (hnd : NodesNodup force)
    (n : Nat) (nd : TNode) (hn : (n, nd) ∈ force)
    (p : Nat) (part : TPart) (hp : (p, part) ∈ nd.parts) (hpn : IMap.Nodup part)
    (k : Nat) (tv : TV) (hm : (k, tv) ∈ part) : lookupIn nodes' n p k = some tv := by
  induction force generalizing nodes with
  | nil => exact absurd hn (by simp)
  | cons nn rest ih =>
    have ho := List.pairwise_cons.mp hnd.outer
    simp only [applyForce] at hr
    split at hr
    · exact absurd hr (by simp)
    · rename_i nodes1 h1
      rcases List.mem_cons.mp hn with heq | hin
      · subst heq
        rw [applyForce_frame _ _ _ hr n p k (fun hh =>
          hh.elim fun nd' hm' => ho.1 _ hm'.1 rfl)]
        exact applyForceNode_hit _ _ _ _ h1 (hnd.inner _ (List.mem_cons_self ..)) p part hp hpn
          k tv hm
      · exact ih _ hr ⟨ho.2, fun x hx => hnd.inner x (List.mem_cons_of_mem _ hx)⟩ hin

/-- `revert_keeps_force_writes`: after a successful revert every force-written substate is
tracked with exactly its force-written value. Together with
`revert_keeps_only_force_writes_frame` this is the whole-track revert clause at the level of
tracked values: force-written substates keep their value, everything else is reverted. -/
theorem revert_keeps_force_writes (t t' : Track) (hr : revert t = some t')
    (hnd : NodesNodup t.force)
    (n : Nat) (nd : TNode) (hn : (n, nd) ∈ t.force)
    (p : Nat) (part : TPart) (hp : (p, part) ∈ nd.parts) (hpn : IMap.Nodup part)
    (k : Nat) (tv : TV) (hm : (k, tv) ∈ part) : lookupIn t'.nodes n p k = some tv := by
  simp only [revert] at hr
  split at hr
  · exact absurd hr (by simp)
  · rename_i nodes' h1
    simp only [Option.some.injEq] at hr
    subst hr
    exact applyForce_hit _ _ _ h1 hnd n nd hn p part hp hpn k tv hm

/-- non-vacuity: the hypotheses of `revert_keeps_force_writes` are met by a reachable track
(read, write 5, force-write, overwrite with 6): its force-write set has unique keys, revert
succeeds, and the force-written value `ReadExistAndWrite(10, Update 5)` is what survives -/
example :
    let t := run (Db.empty.set (0, 0) [(1, 10)])
      [.get 0 0 1, .set 0 0 1 5, .forceWrite 0 0 1, .set 0 0 1 6]
    t.force = [(0, { parts := [(0, [(1, TV.readExistAndWrite 10 (.update 5))])], isNew := false })]
    ∧ NodesNodup t.force
    ∧ (revert t).map (fun t' => lookupIn t'.nodes 0 0 1)
        = some (some (TV.readExistAndWrite 10 (.update 5))) := by
  have h1 : (run (Db.empty.set (0, 0) [(1, 10)])
      [.get 0 0 1, .set 0 0 1 5, .forceWrite 0 0 1, .set 0 0 1 6]).force
      = [(0, { parts := [(0, [(1, TV.readExistAndWrite 10 (.update 5))])], isNew := false })] := by
    rfl
  refine ⟨h1, ?_, by decide⟩
  show NodesNodup (run _ _).force
  rw [h1]
  exact ⟨by simp [IMap.Nodup], by simp [IMap.Nodup]⟩

/-- `failed_tx_without_force_writes_changes_nothing`: database-level statement of the revert clause
when nothing was force-written and no partition was deleted: committing the state updates of the
reverted track leaves every substate of the base database as it was. -/
theorem failed_tx_without_force_writes_changes_nothing (t : Track) (hf : t.force = [])
    (hd : t.deleted = []) :
    ∃ t', revert t = some t' ∧
      ∀ n p k, (t'.db.commit (toStateUpdates t').2).get (n, p) k = t.db.get (n, p) k := by
  obtain ⟨t', hr, _, hdb, _, hsu⟩ := revert_no_force_whole_track t hf
  refine ⟨t', hr, fun n p k => ?_⟩
  rw [hsu, hd, hdb]
  rfl

/-! ### what the reverted track holds for every substate that was not force-written -/

theorem smap_get_map_revert (part : TPart) (k : Nat) :
    SMap.get? (part.map (fun ktv => (ktv.1, ktv.2.revertWrites))) k
      = (SMap.get? part k).map TV.revertWrites := by
  induction part with
  | nil => rfl
  | cons kv rest ih =>
    simp only [List.map_cons, SMap.get?]
    split
    · rfl
    · exact ih

theorem imap_get_map_parts (parts : List (Nat × TPart)) (p : Nat) :
    IMap.get? (parts.map (fun pp => (pp.1, pp.2.map (fun ktv => (ktv.1, ktv.2.revertWrites))))) p
      = (IMap.get? parts p).map (fun part => part.map (fun ktv => (ktv.1, ktv.2.revertWrites))) := by
  induction parts with
  | nil => rfl
  | cons pp rest ih =>
    simp only [List.map_cons, IMap.get?]
    split
    · rfl
    · exact ih

theorem imap_get_none_of_fresh (nodes : Nodes) (n : Nat) (h : ∀ a ∈ nodes, n ≠ a.1) :
    IMap.get? nodes n = none := by
  induction nodes with
  | nil => rfl
  | cons nn rest ih =>
    simp only [IMap.get?]
    rw [if_neg (h nn (List.mem_cons_self ..))]
    exact ih (fun a ha => h a (List.mem_cons_of_mem _ ha))

theorem imap_get_kept (nodes : Nodes) (hn : IMap.Nodup nodes) (n : Nat) :
    IMap.get? ((IMap.retain nodes (fun _ nd => !nd.isNew)).map
        (fun nn => (nn.1, nn.2.revertWrites))) n
      = match IMap.get? nodes n with
        | none => none
        | some nd => if nd.isNew then none else some nd.revertWrites := by
  induction nodes with
  | nil => rfl
  | cons nn rest ih =>
    have hp := List.pairwise_cons.mp hn
    have ih' := ih hp.2
    simp only [IMap.retain] at ih' ⊢
    by_cases hk : n = nn.1
    · subst hk
      have hrest : IMap.get? rest nn.1 = none := imap_get_none_of_fresh rest nn.1 (fun a ha => hp.1 a ha)
      by_cases hnew : nn.2.isNew = true
      · simp only [List.filter_cons, hnew, Bool.not_true, Bool.false_eq_true, if_false, IMap.get?, if_true]
        rw [ih', hrest]
      · have hnew' : nn.2.isNew = false := by simpa using hnew
        simp only [List.filter_cons, hnew', Bool.not_false, if_true, List.map_cons, IMap.get?]
        simp
    · by_cases hnew : nn.2.isNew = true
      · simp only [List.filter_cons, hnew, Bool.not_true, Bool.false_eq_true, if_false, IMap.get?, hk]
        exact ih'
      · have hnew' : nn.2.isNew = false := by simpa using hnew
        simp only [List.filter_cons, hnew', Bool.not_false, if_true, List.map_cons, IMap.get?, hk, if_false]
        exact ih'

/-- lookup in the reverted surviving nodes: nothing for a node created by the transaction, the
reverted tracked value otherwise -/
theorem lookupIn_kept (nodes : Nodes) (hn : IMap.Nodup nodes) (n p k : Nat) :
    lookupIn ((IMap.retain nodes (fun _ nd => !nd.isNew)).map
        (fun nn => (nn.1, nn.2.revertWrites))) n p k
      = match IMap.get? nodes n with
        | none => none
        | some nd => if nd.isNew then none else (lookupIn nodes n p k).map TV.revertWrites := by
  unfold lookupIn
  rw [imap_get_kept nodes hn n]
  cases hg : IMap.get? nodes n with
  | none => rfl
  | some nd =>
    simp only []
    by_cases hnew : nd.isNew = true
    · simp [hnew]
    · have hnew' : nd.isNew = false := by simpa using hnew
      simp only [hnew', Bool.false_eq_true, if_false, TNode.revertWrites, imap_get_map_parts]
      cases IMap.get? nd.parts p with
      | none => rfl
      | some part => simp only [Option.map]; exact smap_get_map_revert part k

/-- `revert_tracked_value`: after a successful revert, a substate that was not force-written is
untracked if its node was created by the transaction (or was never tracked) and otherwise holds
the reverted (`revert_writes`) form of what was tracked before. -/
theorem revert_tracked_value (t t' : Track) (hr : revert t = some t') (hn : IMap.Nodup t.nodes)
    (n p k : Nat) (hout : ¬ InForce t.force n p k) :
    lookupIn t'.nodes n p k
      = match IMap.get? t.nodes n with
        | none => none
        | some nd => if nd.isNew then none else (lookupIn t.nodes n p k).map TV.revertWrites := by
  rw [revert_keeps_only_force_writes_frame t t' hr n p k hout, lookupIn_kept _ hn]

/-- `revert_keeps_only_force_writes`: after a successful revert, whatever is tracked for a substate
outside the force-write set contributes NO state update. With `revert_keeps_force_writes` this is
the revert clause of the property for the whole track: only force-written substates survive. -/
theorem revert_keeps_only_force_writes (t t' : Track) (hr : revert t = some t')
    (hn : IMap.Nodup t.nodes) (n p k : Nat) (hout : ¬ InForce t.force n p k) (tv : TV)
    (htv : lookupIn t'.nodes n p k = some tv) : tv.toUpdate = none := by
  rw [revert_tracked_value t t' hr hn n p k hout] at htv
  cases hg : IMap.get? t.nodes n with
  | none => rw [hg] at htv; cases htv
  | some nd =>
    rw [hg] at htv
    simp only [] at htv
    split at htv
    · cases htv
    · cases hl : lookupIn t.nodes n p k with
      | none => rw [hl] at htv; cases htv
      | some tv0 =>
        rw [hl] at htv
        simp only [Option.map, Option.some.injEq] at htv
        rw [← htv]; exact revert_value_partial tv0

/-- non-vacuity: written-then-reverted substate `(0,0,2)` next to the force-written `(0,0,1)` -/
example : (revert (run (Db.empty.set (0, 0) [(1, 10), (2, 20)])
      [.get 0 0 1, .forceWrite 0 0 1, .get 0 0 2, .set 0 0 2 7])).map
        (fun t' => lookupIn t'.nodes 0 0 2) = some (some (TV.readOnly (some 20))) := by decide

/-- `revert_reads_back_base`: database-level reading of the revert clause. For every track
satisfying the invariant (so: every track reachable by the operations, `inv_run`), after a
successful revert every substate that was not force-written reads back as the BASE database value
— the failed transaction's writes are gone — except a blind write (`WriteOnly`, never read before
written), which the real code turns into `Garbage` (reads as absent; known caveat, see report). -/
theorem revert_reads_back_base (t t' : Track) (hr : revert t = some t') (hi : Inv t)
    (n p k : Nat) (hout : ¬ InForce t.force n p k)
    (hnw : ∀ w, lookupIn t.nodes n p k ≠ some (.writeOnly w)) :
    eff t' n p k = t.db.get (n, p) k := by
  have hdb : t'.db = t.db := by
    simp only [revert] at hr
    split at hr
    · exact absurd hr (by simp)
    · simp only [Option.some.injEq] at hr
      rw [← hr]
  unfold eff lookupTV
  rw [revert_tracked_value t t' hr hi.nodup.outer n p k hout, hdb]
  cases hg : IMap.get? t.nodes n with
  | none => rfl
  | some nd =>
    simp only []
    by_cases hnew : nd.isNew = true
    · simp only [hnew, if_true]
    · simp only [hnew, if_false]
      cases hl : lookupIn t.nodes n p k with
      | none => rfl
      | some tv =>
        exact revert_read_partial t.db n p k tv
          (hi.coh n p k tv (by rw [← lookupIn_eq]; exact hl))
          (fun w e => hnw w (by rw [hl, e]))

/-- non-vacuity: `(0,0,2)` was read and overwritten with 7; after the revert it reads 20 again,
while the force-written neighbour `(0,0,1)` exists -/
example : (revert (run (Db.empty.set (0, 0) [(1, 10), (2, 20)])
      [.get 0 0 1, .forceWrite 0 0 1, .get 0 0 2, .set 0 0 2 7])).map
        (fun t' => eff t' 0 0 2) = some (some 20) := by decide

/-! ### when revert cannot panic -/

theorem putIn_keeps_tracked (nodes : Nodes) (n p k : Nat) (tv : TV) (a b c : Nat)
    (h : (lookupIn nodes a b c).isSome) : (lookupIn (putIn nodes n p k tv) a b c).isSome := by
  rw [lookupIn_putIn]
  split
  · rfl
  · exact h

theorem applyForcePart_ok (n p : Nat) (part : TPart) (nodes : Nodes)
    (h : ∀ ktv ∈ part, (lookupIn nodes n p ktv.1).isSome) :
    ∃ nodes', applyForcePart nodes n p part = some nodes' ∧
      ∀ a b c, (lookupIn nodes a b c).isSome → (lookupIn nodes' a b c).isSome := by
  induction part generalizing nodes with
  | nil => exact ⟨nodes, rfl, fun _ _ _ h => h⟩
  | cons ktv rest ih =>
    have h0 := h ktv (List.mem_cons_self ..)
    obtain ⟨nodes', hr, hk⟩ := ih (putIn nodes n p ktv.1 ktv.2)
      (fun x hx => putIn_keeps_tracked _ _ _ _ _ _ _ _ (h x (List.mem_cons_of_mem _ hx)))
    refine ⟨nodes', ?_, fun a b c hs => hk a b c (putIn_keeps_tracked _ _ _ _ _ _ _ _ hs)⟩
    simp only [applyForcePart, replaceExisting]
    cases hl : lookupIn nodes n p ktv.1 with
    | none => rw [hl] at h0; cases h0
    | some _ => exact hr

theorem applyForceNode_ok (n : Nat) (parts : List (Nat × TPart)) (nodes : Nodes)
    (h : ∀ pp ∈ parts, ∀ ktv ∈ pp.2, (lookupIn nodes n pp.1 ktv.1).isSome) :
    ∃ nodes', applyForceNode nodes n parts = some nodes' ∧
      ∀ a b c, (lookupIn nodes a b c).isSome → (lookupIn nodes' a b c).isSome := by
  induction parts generalizing nodes with
  | nil => exact ⟨nodes, rfl, fun _ _ _ h => h⟩
  | cons pp rest ih =>
    obtain ⟨n1, h1, k1⟩ := applyForcePart_ok n pp.1 pp.2 nodes (h pp (List.mem_cons_self ..))
    obtain ⟨nodes', hr, hk⟩ := ih n1
      (fun x hx y hy => k1 _ _ _ (h x (List.mem_cons_of_mem _ hx) y hy))
    refine ⟨nodes', ?_, fun a b c hs => hk a b c (k1 a b c hs)⟩
    simp only [applyForceNode, h1]
    exact hr

theorem applyForce_ok (force : Nodes) (nodes : Nodes)
    (h : ∀ nn ∈ force, ∀ pp ∈ nn.2.parts, ∀ ktv ∈ pp.2, (lookupIn nodes nn.1 pp.1 ktv.1).isSome) :
    ∃ nodes', applyForce nodes force = some nodes' := by
  induction force generalizing nodes with
  | nil => exact ⟨nodes, rfl⟩
  | cons nn rest ih =>
    obtain ⟨n1, h1, k1⟩ := applyForceNode_ok nn.1 nn.2.parts nodes (h nn (List.mem_cons_self ..))
    obtain ⟨nodes', hr⟩ := ih n1
      (fun x hx y hy z hz => k1 _ _ _ (h x (List.mem_cons_of_mem _ hx) y hy z hz))
    refine ⟨nodes', ?_⟩
    simp only [applyForce, h1]
    exact hr

/-- `revert_succeeds`: `revert_non_force_write_changes` cannot panic when every force-written
substate is tracked in a node that was not created by the transaction -/
theorem revert_succeeds (t : Track) (hn : IMap.Nodup t.nodes)
    (h : ∀ nn ∈ t.force, ∀ pp ∈ nn.2.parts, ∀ ktv ∈ pp.2,
      ∃ nd, IMap.get? t.nodes nn.1 = some nd ∧ nd.isNew = false ∧
        (lookupIn t.nodes nn.1 pp.1 ktv.1).isSome) :
    ∃ t', revert t = some t' := by
  obtain ⟨nodes', hr⟩ := applyForce_ok t.force
    ((IMap.retain t.nodes (fun _ nd => !nd.isNew)).map (fun nn => (nn.1, nn.2.revertWrites)))
    (by
      intro nn hnn pp hpp ktv hktv
      obtain ⟨nd, hg, hnew, hs⟩ := h nn hnn pp hpp ktv hktv
      rw [lookupIn_kept _ hn, hg]
      simp only [hnew, Bool.false_eq_true, if_false]
      cases hl : lookupIn t.nodes nn.1 pp.1 ktv.1 with
      | none => rw [hl] at hs; cases hs
      | some _ => rfl)
  exact ⟨{ t with nodes := nodes', force := [] }, by simp only [revert, hr]⟩

/-- non-vacuity (and the converse direction on a witness): a force write on a node created by the
same transaction makes revert panic — the `none` of the model, the `unwrap` panic of the real code -/
example : (revert (run Db.empty [.create 3 [(0, [(1, 1)])], .forceWrite 3 0 1])).isNone = true := by
  decide

/-! ### revert preserves the key-uniqueness part of the invariant -/

theorem nodesNodup_kept (nodes : Nodes) (h : NodesNodup nodes) :
    NodesNodup ((IMap.retain nodes (fun _ nd => !nd.isNew)).map
      (fun nn => (nn.1, nn.2.revertWrites))) := by
  constructor
  · unfold IMap.Nodup IMap.retain
    rw [List.pairwise_map]
    exact List.Pairwise.filter _ h.outer
  · intro x hx
    obtain ⟨a, ha, rfl⟩ := List.mem_map.mp hx
    have ha' : a ∈ nodes := (List.mem_filter.mp ha).1
    have := h.inner a ha'
    simp only [TNode.revertWrites]
    unfold IMap.Nodup at this ⊢
    rw [List.pairwise_map]
    exact this

theorem applyForcePart_nodup (n p : Nat) (part : TPart) (nodes nodes' : Nodes) (h : NodesNodup nodes)
    (hr : applyForcePart nodes n p part = some nodes') : NodesNodup nodes' := by
  induction part generalizing nodes with
  | nil => simp only [applyForcePart, Option.some.injEq] at hr; exact hr ▸ h
  | cons ktv rest ih =>
    simp only [applyForcePart, replaceExisting] at hr
    split at hr
    · exact absurd hr (by simp)
    · rename_i nodes1 h1
      split at h1
      · exact absurd h1 (by simp)
      · simp only [Option.some.injEq] at h1
        exact ih _ (h1 ▸ nodesNodup_alterPart _ _ _ _ h) hr

theorem applyForceNode_nodup (n : Nat) (parts : List (Nat × TPart)) (nodes nodes' : Nodes)
    (h : NodesNodup nodes) (hr : applyForceNode nodes n parts = some nodes') : NodesNodup nodes' := by
  induction parts generalizing nodes with
  | nil => simp only [applyForceNode, Option.some.injEq] at hr; exact hr ▸ h
  | cons pp rest ih =>
    simp only [applyForceNode] at hr
    split at hr
    · exact absurd hr (by simp)
    · rename_i nodes1 h1
      exact ih _ (applyForcePart_nodup _ _ _ _ _ h h1) hr

theorem applyForce_nodup (force : Nodes) (nodes nodes' : Nodes)
    (h : NodesNodup nodes) (hr : applyForce nodes force = some nodes') : NodesNodup nodes' := by
  induction force generalizing nodes with
  | nil => simp only [applyForce, Option.some.injEq] at hr; exact hr ▸ h
  | cons nn rest ih =>
    simp only [applyForce] at hr
    split at hr
    · exact absurd hr (by simp)
    · rename_i nodes1 h1
      exact ih _ (applyForceNode_nodup _ _ _ _ h h1) hr

/-- `revert_preserves_nodup`: the reverted track keeps the key-uniqueness part of the invariant -/
theorem revert_preserves_nodup (t t' : Track) (hr : revert t = some t') (h : NodesNodup t.nodes) :
    NodesNodup t'.nodes := by
  simp only [revert] at hr
  split at hr
  · exact absurd hr (by simp)
  · rename_i nodes' h1
    simp only [Option.some.injEq] at hr
    subst hr
    exact applyForce_nodup _ _ _ (nodesNodup_kept _ h) h1

/-! ### revert preserves sortedness; database-level meaning of a reverted track's state updates -/

def AllSorted (nodes : Nodes) : Prop := ∀ n p, SMap.Sorted (partOf nodes n p)

theorem allSorted_putIn (nodes : Nodes) (n p k : Nat) (tv : TV) (h : AllSorted nodes) :
    AllSorted (putIn nodes n p k tv) := by
  intro n' p'
  unfold putIn
  rw [partOf_alterPart]
  split
  · exact SMap.sorted_insert _ _ _ (h n p)
  · exact h n' p'

theorem allSorted_kept (nodes : Nodes) (hn : IMap.Nodup nodes) (h : AllSorted nodes) :
    AllSorted ((IMap.retain nodes (fun _ nd => !nd.isNew)).map
      (fun nn => (nn.1, nn.2.revertWrites))) := by
  intro n p
  have hs := h n p
  unfold partOf at hs ⊢
  rw [imap_get_kept nodes hn n]
  cases hg : IMap.get? nodes n with
  | none => simp [SMap.Sorted]
  | some nd =>
    rw [hg] at hs
    simp only [] at hs ⊢
    by_cases hnew : nd.isNew = true
    · simp [hnew, SMap.Sorted]
    · have hnew' : nd.isNew = false := by simpa using hnew
      simp only [hnew', Bool.false_eq_true, if_false, TNode.revertWrites, imap_get_map_parts]
      cases hp : IMap.get? nd.parts p with
      | none => simp [SMap.Sorted]
      | some part =>
        rw [hp] at hs
        simp only [Option.map] at hs ⊢
        unfold SMap.Sorted at hs ⊢
        rw [List.pairwise_map]
        exact hs

theorem applyForcePart_sorted (n p : Nat) (part : TPart) (nodes nodes' : Nodes) (h : AllSorted nodes)
    (hr : applyForcePart nodes n p part = some nodes') : AllSorted nodes' := by
  induction part generalizing nodes with
  | nil => simp only [applyForcePart, Option.some.injEq] at hr; exact hr ▸ h
  | cons ktv rest ih =>
    simp only [applyForcePart, replaceExisting] at hr
    split at hr
    · exact absurd hr (by simp)
    · rename_i nodes1 h1
      split at h1
      · exact absurd h1 (by simp)
      · simp only [Option.some.injEq] at h1
        exact ih _ (h1 ▸ allSorted_putIn _ _ _ _ _ h) hr

theorem applyForceNode_sorted (n : Nat) (parts : List (Nat × TPart)) (nodes nodes' : Nodes)
    (h : AllSorted nodes) (hr : applyForceNode nodes n parts = some nodes') : AllSorted nodes' := by
  induction parts generalizing nodes with
  | nil => simp only [applyForceNode, Option.some.injEq] at hr; exact hr ▸ h
  | cons pp rest ih =>
    simp only [applyForceNode] at hr
    split at hr
    · exact absurd hr (by simp)
    · rename_i nodes1 h1
      exact ih _ (applyForcePart_sorted _ _ _ _ _ h h1) hr

theorem applyForce_sorted (force : Nodes) (nodes nodes' : Nodes)
    (h : AllSorted nodes) (hr : applyForce nodes force = some nodes') : AllSorted nodes' := by
  induction force generalizing nodes with
  | nil => simp only [applyForce, Option.some.injEq] at hr; exact hr ▸ h
  | cons nn rest ih =>
    simp only [applyForce] at hr
    split at hr
    · exact absurd hr (by simp)
    · rename_i nodes1 h1
      exact ih _ (applyForceNode_sorted _ _ _ _ h h1) hr

/-- `revert_preserves_sorted`: partitions of the reverted track stay key-sorted (`BTreeMap`) -/
theorem revert_preserves_sorted (t t' : Track) (hr : revert t = some t') (hn : IMap.Nodup t.nodes)
    (h : AllSorted t.nodes) : AllSorted t'.nodes := by
  simp only [revert] at hr
  split at hr
  · exact absurd hr (by simp)
  · rename_i nodes' h1
    simp only [Option.some.injEq] at hr
    subst hr
    exact applyForce_sorted _ _ _ (allSorted_kept _ hn h) h1

/-- `revert_state_updates_meaning`: the state updates of a reverted track (no partition deletion)
mean, at the database level, exactly `effCommit` of the reverted track — so the tracked-value
theorems above (`revert_keeps_force_writes`, `revert_tracked_value`) determine, substate by
substate, what a failed transaction commits. -/
theorem revert_state_updates_meaning (t t' : Track) (hr : revert t = some t')
    (hn : NodesNodup t.nodes) (hs : AllSorted t.nodes) (hd : t.deleted = []) (n p k : Nat) :
    (t'.db.commit (toStateUpdates t').2).get (n, p) k = effCommit t' n p k := by
  have hd' : t'.deleted = [] := by
    simp only [revert] at hr
    split at hr
    · exact absurd hr (by simp)
    · simp only [Option.some.injEq] at hr
      rw [← hr]; exact hd
  exact state_updates_meaning t' (revert_preserves_nodup t t' hr hn)
    (revert_preserves_sorted t t' hr hn.outer hs) hd' n p k

/-! ### `revert_spec`: what a failed transaction commits -/

theorem revert_db (t t' : Track) (hr : revert t = some t') : t'.db = t.db := by
  simp only [revert] at hr
  split at hr
  · exact absurd hr (by simp)
  · simp only [Option.some.injEq] at hr
    rw [← hr]

/-- `revert_spec` (the statement quoted at the top of the revert section), as two theorems.
A failed transaction commits, for every substate that was NOT force-written, the base database
value (nothing changes) … -/
theorem revert_spec_other (t t' : Track) (hr : revert t = some t')
    (hn : NodesNodup t.nodes) (hs : AllSorted t.nodes) (hd : t.deleted = [])
    (n p k : Nat) (hout : ¬ InForce t.force n p k) :
    (t'.db.commit (toStateUpdates t').2).get (n, p) k = t.db.get (n, p) k := by
  rw [revert_state_updates_meaning t t' hr hn hs hd]
  unfold effCommit
  rw [← lookupIn_eq, revert_db t t' hr]
  cases hl : lookupIn t'.nodes n p k with
  | none => rfl
  | some tv =>
    simp only []
    rw [revert_keeps_only_force_writes t t' hr hn.outer n p k hout tv hl]

/-- … and for every force-written substate the force-written value (or the base value if the
force-written tracked value carries no write). -/
theorem revert_spec_force (t t' : Track) (hr : revert t = some t')
    (hn : NodesNodup t.nodes) (hs : AllSorted t.nodes) (hd : t.deleted = [])
    (hnd : NodesNodup t.force)
    (n : Nat) (nd : TNode) (hnm : (n, nd) ∈ t.force)
    (p : Nat) (part : TPart) (hp : (p, part) ∈ nd.parts) (hpn : IMap.Nodup part)
    (k : Nat) (tv : TV) (hm : (k, tv) ∈ part) :
    (t'.db.commit (toStateUpdates t').2).get (n, p) k
      = match tv.toUpdate with
        | some u => u
        | none => t.db.get (n, p) k := by
  rw [revert_state_updates_meaning t t' hr hn hs hd]
  unfold effCommit
  rw [← lookupIn_eq, revert_db t t' hr,
    revert_keeps_force_writes t t' hr hnd n nd hnm p part hp hpn k tv hm]
  rfl

end Radix.Track
