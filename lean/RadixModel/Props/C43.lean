import RadixModel.Lemmas.NfResource

/-!
# C43 — Non-fungible ids are never reused and data changes are restricted

Model: `RadixModel/Model/NfResource.lean` (transcription of `non_fungible_resource_manager.rs`:
`create_non_fungibles`, `mint_non_fungible`, `mint_ruid_non_fungible`, `burn_internal` with the
tombstone lock, `update_non_fungible_data`).  A history is any list of `Op`s (mint with explicit ids,
RUID mint, burn, data update) — failed transactions leave the state unchanged.

Theorems (all quantified over every history):

* `minted_at_most_once`        — explicit-id resources: every id is minted by at most one successful mint
                                 over the whole history, burned or not; unconditional.
* `minted_at_most_once_ruid`   — RUID resources: `create_non_fungibles` is called WITHOUT the existence
                                 check, so the guarantee rests on the id generator; the theorem says the
                                 number of successful mints of an id is at most the number of times the
                                 generator produced it (so at most once for a generator without repeats —
                                 the harness oracle checks exactly that hypothesis on the real engine).
* `burned_stays_burned`        — once burned, an id's entry is the locked empty tombstone forever.
* `id_type_enforced`           — every id holding data has the resource's id type, in every reachable state.
* `update_only_mutable_fields` — a successful update names a declared-mutable field and changes exactly
                                 that field of exactly that id.
* `immutable_fields_constant`  — over any history, a field that is not declared mutable keeps the value
                                 it was minted with for as long as the non-fungible exists.
-/
namespace Radix.Nf

/-- the mint counter is tied to the data collection: an id that was minted holds data or is tombstoned -/
def Inv (r : Res) (cnt : Id → Nat) : Prop :=
  ∀ id, cnt id ≤ 1 ∧ (cnt id = 1 → (r.data id).value.isSome = true ∨ (r.data id).locked = true)

theorem inv_step {r r' : Res} {cnt : Id → Nat} {op : Op} (hty : r.idType ≠ ruidType)
    (hinv : Inv r cnt) (h : apply r op = .ok r') :
    Inv r' (fun id => cnt id + (mintedBy op).count id) := by
  intro id
  have hI := hinv id
  cases op with
  | mint es =>
    have hm := mintExplicit_ok h
    simp only [mintedBy]
    by_cases hid : id ∈ es.map (·.1)
    · have hpre := cnf_pre _ _ _ _ _ _ hm.2.1 id hid
      have hpost := cnf_post _ _ _ _ _ _ hm.2.1 id hid
      have hc := cnf_count_le_one _ _ _ _ _ hm.2.1 id
      have hz : cnt id = 0 := by
        rcases Nat.lt_or_ge (cnt id) 1 with h0 | h1
        · omega
        · have h1' : cnt id = 1 := by omega
          rcases hI.2 h1' with hv | hl
          · rw [hpre.2.2 rfl] at hv; simp at hv
          · rw [hpre.1] at hl; simp at hl
      refine ⟨by omega, fun _ => Or.inl hpost.1⟩
    · have hz : (es.map (·.1)).count id = 0 := List.count_eq_zero.mpr hid
      rw [hz, cnf_frame _ _ _ _ _ _ hm.2.1 id hid]
      simpa using hI
  | mintRuid es =>
    exact absurd (mintRuid_ok h).1 hty
  | burn ids vv =>
    simp only [mintedBy, List.count_nil, Nat.add_zero]
    simp only [apply] at h
    split at h
    · cases h
    · split at h
      · have hb := burn_ok h
        by_cases hid : id ∈ ids
        · rw [burn_post _ _ _ hb.1 id hid]
          exact ⟨hI.1, fun _ => Or.inr rfl⟩
        · rw [burn_frame _ _ _ hb.1 id hid]; exact hI
      · cases h
  | update uid n v t =>
    simp only [mintedBy, List.count_nil, Nat.add_zero]
    obtain ⟨i, fields, _, _, _, _, hd, _⟩ := update_ok h
    rw [hd]
    by_cases hi : id = uid
    · subst hi
      simp only [setCell_same]
      exact ⟨hI.1, fun _ => Or.inl rfl⟩
    · rw [setCell_other _ _ _ _ hi]; exact hI

theorem run_inv (ops : List Op) : ∀ (r : Res) (cnt : Id → Nat), r.idType ≠ ruidType → Inv r cnt →
    Inv (run r cnt ops).1 (run r cnt ops).2 := by
  induction ops with
  | nil => intro r cnt _ h; exact h
  | cons op rest ih =>
    intro r cnt hty hinv
    simp only [run]
    split
    · rename_i r' h
      exact ih r' _ (by rw [(apply_static h).1]; exact hty) (inv_step hty hinv h)
    · exact ih r cnt hty hinv

/-- **C43, first half.**  For a resource with explicit ids, over every history of mints, burns and
    updates starting from a state whose counters satisfy the invariant (in particular a fresh resource
    with all counters 0), every id is minted successfully at most once — also after it was burned. -/
theorem minted_at_most_once (r : Res) (cnt : Id → Nat) (ops : List Op)
    (hty : r.idType ≠ ruidType) (hinv : Inv r cnt) (id : Id) :
    (run r cnt ops).2 id ≤ 1 :=
  (run_inv ops r cnt hty hinv id).1

/-- a freshly created resource (empty data collection, counters 0) satisfies the invariant -/
theorem fresh_inv (t n : Nat) (mx : List (Nat × Nat)) (a b c d : Bool) :
    Inv (fresh t n mx a b c d) (fun _ => 0) := by
  intro id; simp

/-- `create_with_initial_supply`: the initial entries count as the first mint of their ids
    (the entries come from an `IndexMap`, hence `Nodup`). -/
theorem create_inv (r0 r : Res) (es : List (Id × List Nat))
    (hnd : (es.map (·.1)).Nodup) (h : create r0 es = .ok r) :
    Inv r (fun id => (es.map (·.1)).count id) ∧ r.idType = r0.idType := by
  unfold create at h
  split at h
  · cases h
  · split at h
    · cases h
    · rename_i d hd
      cases h
      refine ⟨?_, rfl⟩
      intro id
      have hle : (es.map (·.1)).count id ≤ 1 := count_le_one_of_nodup _ hnd id
      refine ⟨hle, ?_⟩
      intro h1
      have h1' : (es.map (·.1)).count id = 1 := h1
      have hid : id ∈ es.map (·.1) := by
        apply List.count_pos_iff.mp; omega
      exact Or.inl (init_post _ _ _ _ hd id hid).1

example : ∃ r, create (fresh 1 3 [(1, 1)] true true true true) [((1, 7), [1, 2, 3])] = .ok r := ⟨_, rfl⟩

/-- non-vacuity of `minted_at_most_once`: mint, burn, re-mint attempt — the second mint fails and the
    counter stays 1 -/
example :
    let r := fresh 1 3 [(1, 1)] true true true true
    let ops := [Op.mint [((1, 7), [1, 2, 3])], Op.burn [(1, 7)] false, Op.mint [((1, 7), [4, 5, 6])]]
    (run r (fun _ => 0) ops).2 (1, 7) = 1 ∧
    (step (run r (fun _ => 0) (ops.take 2)).1 (Op.mint [((1, 7), [4, 5, 6])])).2 = some .entryLocked := by
  decide

/-! ### RUID resources -/

theorem ruid_mint_fails {r : Res} (hty : r.idType = ruidType) (es : List (Id × List Nat)) :
    ∀ r', apply r (.mint es) ≠ .ok r' := by
  intro r' h
  exact (mintExplicit_ok h).1 hty

/-- **C43, first half, RUID resources.**  The number of successful mints of an id is bounded by the
    number of times the id generator produced it in the history. -/
theorem minted_at_most_once_ruid (ops : List Op) : ∀ (r : Res) (cnt : Id → Nat), r.idType = ruidType →
    ∀ id, (run r cnt ops).2 id ≤ cnt id + (ruidIds ops).count id := by
  induction ops with
  | nil => intro r cnt _ id; simp [run, ruidIds]
  | cons op rest ih =>
    intro r cnt hty id
    simp only [run]
    split
    · rename_i r' h
      have hty' : r'.idType = ruidType := by rw [(apply_static h).1]; exact hty
      have := ih r' (fun id => cnt id + (mintedBy op).count id) hty' id
      cases op with
      | mint es => exact absurd h (ruid_mint_fails hty es r')
      | mintRuid es =>
        simp only [mintedBy] at this ⊢
        simp only [ruidIds, List.count_append]
        omega
      | burn ids vv => simp only [mintedBy, List.count_nil, Nat.add_zero] at this ⊢; simpa [ruidIds] using this
      | update a b c d => simp only [mintedBy, List.count_nil, Nat.add_zero] at this ⊢; simpa [ruidIds] using this
    · have := ih r cnt hty id
      cases op with
      | mintRuid es => simp only [ruidIds, List.count_append]; omega
      | mint es => simpa [ruidIds] using this
      | burn ids vv => simpa [ruidIds] using this
      | update a b c d => simpa [ruidIds] using this

/-- with a generator that never repeats an id, a RUID is minted at most once -/
theorem minted_at_most_once_ruid_fresh (r : Res) (ops : List Op) (hty : r.idType = ruidType)
    (hfresh : (ruidIds ops).Nodup) (id : Id) : (run r (fun _ => 0) ops).2 id ≤ 1 := by
  have := minted_at_most_once_ruid ops r (fun _ => 0) hty id
  have := count_le_one_of_nodup _ hfresh id
  omega

/-- the hypothesis is needed, and this is what the code does: without the existence check a repeated
    RUID silently overwrites a live non-fungible -/
example :
    let r := fresh 3 3 [] true true true true
    let ops := [Op.mintRuid [((3, 0), [1, 2, 3])], Op.mintRuid [((3, 0), [4, 5, 6])]]
    (run r (fun _ => 0) ops).2 (3, 0) = 2 := by
  decide

/-! ### tombstones -/

theorem run_locked_frozen (ops : List Op) : ∀ (r : Res) (cnt : Id → Nat) (id : Id),
    (r.data id).locked = true → (run r cnt ops).1.data id = r.data id := by
  induction ops with
  | nil => intro r cnt id _; rfl
  | cons op rest ih =>
    intro r cnt id hl
    simp only [run]
    split
    · rename_i r' h
      have hfix := apply_locked_frozen h id hl
      rw [ih r' _ id (by rw [hfix]; exact hl), hfix]
    · exact ih r cnt id hl

/-- Once burned, the entry of an id is the locked empty tombstone in every later state. -/
theorem burned_stays_burned (r r' : Res) (ids : List Id) (vv : Bool) (h : apply r (.burn ids vv) = .ok r')
    (id : Id) (hid : id ∈ ids) (cnt : Id → Nat) (ops : List Op) :
    (run r' cnt ops).1.data id = ⟨none, true⟩ := by
  have hb : r'.data id = ⟨none, true⟩ := by
    simp only [apply] at h
    split at h
    · cases h
    · split at h
      · exact burn_post _ _ _ (burn_ok h).1 id hid
      · cases h
  rw [run_locked_frozen ops r' cnt id (by rw [hb]), hb]

/-! ### id type -/

def TypeInv (r : Res) : Prop := ∀ id, (r.data id).value.isSome = true → id.1 = r.idType

theorem typeInv_step {r r' : Res} {op : Op} (hinv : TypeInv r) (h : apply r op = .ok r') : TypeInv r' := by
  intro id hv
  rw [(apply_static h).1]
  cases op with
  | mint es =>
    have hm := mintExplicit_ok h
    by_cases hid : id ∈ es.map (·.1)
    · exact (cnf_pre _ _ _ _ _ _ hm.2.1 id hid).2.1
    · rw [cnf_frame _ _ _ _ _ _ hm.2.1 id hid] at hv; exact hinv id hv
  | mintRuid es =>
    have hm := mintRuid_ok h
    by_cases hid : id ∈ es.map (·.1)
    · rw [hm.1]; exact (cnf_pre _ _ _ _ _ _ hm.2.1 id hid).2.1
    · rw [cnf_frame _ _ _ _ _ _ hm.2.1 id hid] at hv; exact hinv id hv
  | burn ids vv =>
    simp only [apply] at h
    split at h
    · cases h
    · split at h
      · have hb := burn_ok h
        by_cases hid : id ∈ ids
        · rw [burn_post _ _ _ hb.1 id hid] at hv; simp at hv
        · rw [burn_frame _ _ _ hb.1 id hid] at hv; exact hinv id hv
      · cases h
  | update uid n v t =>
    obtain ⟨i, fields, _, hf, _, _, hd, _⟩ := update_ok h
    rw [hd] at hv
    by_cases hi : id = uid
    · subst hi; exact hinv id (by rw [hf]; rfl)
    · rw [setCell_other _ _ _ _ hi] at hv; exact hinv id hv

/-- **C43, second clause.**  In every state reachable by any history, every id that holds data has the
    resource's id type. -/
theorem id_type_enforced (ops : List Op) : ∀ (r : Res) (cnt : Id → Nat), TypeInv r →
    TypeInv (run r cnt ops).1 := by
  induction ops with
  | nil => intro r cnt h; exact h
  | cons op rest ih =>
    intro r cnt hinv
    simp only [run]
    split
    · rename_i r' h; exact ih r' _ (typeInv_step hinv h)
    · exact ih r cnt hinv

theorem create_typeInv (r0 r : Res) (es : List (Id × List Nat))
    (h0 : ∀ id, r0.data id = emptyCell) (h : create r0 es = .ok r) : TypeInv r := by
  unfold create at h
  split at h
  · cases h
  · split at h
    · cases h
    · rename_i d hd
      cases h
      intro id hv
      by_cases hid : id ∈ es.map (·.1)
      · exact (init_post _ _ _ _ hd id hid).2.2
      · simp only at hv
        rw [init_frame _ _ _ _ hd id hid, h0 id] at hv
        simp [emptyCell] at hv

example : TypeInv (fresh 1 3 [] true true true true) := by intro id h; simp [fresh, emptyCell] at h

/-- an id of another type is rejected by mint (non-vacuity of the type check) -/
example : mintExplicit (fresh 1 3 [] true true true true) [((0, 5), [1, 2, 3])] = .error .idTypeMismatch := by
  rfl

/-! ### data updates -/

/-- `j` is the index of some declared-mutable field -/
def IsMutIdx (r : Res) (j : Nat) : Prop := ∃ name, lookupField r.mutIdx name = some j

/-- **C43, third clause (single step).**  A successful `update_non_fungible_data` names a declared
    mutable field; it replaces exactly that field of exactly that non-fungible; the lock flags, all
    other fields, all other ids, the supply and the configuration are unchanged. -/
theorem update_only_mutable_fields {r r' : Res} {id : Id} {name v : Nat} {typed : Bool}
    (h : update r id name v typed = .ok r') :
    ∃ i fields, lookupField r.mutIdx name = some i ∧ IsMutIdx r i ∧
      (r.data id).value = some fields ∧ i < fields.length ∧
      r'.data id = ⟨some (fields.set i v), false⟩ ∧ (r.data id).locked = false ∧
      (∀ j, j ≠ i → (fields.set i v)[j]? = fields[j]?) ∧
      (fields.set i v).length = fields.length ∧
      (∀ id', id' ≠ id → r'.data id' = r.data id') ∧
      r'.supply = r.supply ∧ r'.mutIdx = r.mutIdx ∧ r'.idType = r.idType := by
  obtain ⟨i, fields, hi, hf, hl, hlt, hd, h1, h2, _, h4⟩ := update_ok h
  refine ⟨i, fields, hi, ⟨name, hi⟩, hf, hlt, by rw [hd]; simp, hl, ?_, by simp, ?_, h4, h2, h1⟩
  · intro j hj
    exact List.getElem?_set_ne (Ne.symm hj)
  · intro id' hne
    rw [hd]; exact setCell_other _ _ _ _ hne

/-- an unknown or immutable field name is refused -/
theorem update_unknown_field_fails (r : Res) (id : Id) (name v : Nat) (typed : Bool)
    (hn : lookupField r.mutIdx name = none) : ∀ r', update r id name v typed ≠ .ok r' := by
  intro r' h
  obtain ⟨i, _, hi, _⟩ := update_ok h
  rw [hn] at hi; cases hi

/-- example state: integer ids, fields a b c with only `b` mutable, non-fungible #7 = (1, 2, 3) -/
def exRes : Res :=
  (run (fresh 1 3 [(1, 1)] true true true true) (fun _ => 0) [Op.mint [((1, 7), [1, 2, 3])]]).1

example :
    (∃ r', update exRes (1, 7) 1 9 true = .ok r' ∧ r'.data (1, 7) = ⟨some [1, 9, 3], false⟩) ∧
    (step exRes (.update (1, 7) 0 9 true)).2 = some .unknownField := by
  refine ⟨⟨_, rfl, by decide⟩, by decide⟩

/-- the state of one non-fungible w.r.t. the value `x` its field `j` had: still there with the same
    field value, or burned (tombstone) -/
def Keeps (r : Res) (id : Id) (j : Nat) (x : Option Nat) : Prop :=
  r.data id = ⟨none, true⟩ ∨ ∃ d, (r.data id).value = some d ∧ d[j]? = x

theorem keeps_step {r r' : Res} {op : Op} {id : Id} {j : Nat} {x : Option Nat}
    (hj : ¬ IsMutIdx r j) (hk : Keeps r id j x) (hr : id ∉ ruidIds [op]) (h : apply r op = .ok r') :
    Keeps r' id j x := by
  cases op with
  | mint es =>
    have hm := mintExplicit_ok h
    have hid : id ∉ es.map (·.1) := by
      intro hid
      have hpre := cnf_pre _ _ _ _ _ _ hm.2.1 id hid
      rcases hk with hb | ⟨d, hd, _⟩
      · rw [hb] at hpre; simp at hpre
      · have := hpre.2.2 rfl; rw [hd] at this; cases this
    unfold Keeps; rw [cnf_frame _ _ _ _ _ _ hm.2.1 id hid]; exact hk
  | mintRuid es =>
    have hm := mintRuid_ok h
    have hid : id ∉ es.map (·.1) := by simpa [ruidIds] using hr
    unfold Keeps; rw [cnf_frame _ _ _ _ _ _ hm.2.1 id hid]; exact hk
  | burn ids vv =>
    simp only [apply] at h
    split at h
    · cases h
    · split at h
      · have hb := burn_ok h
        by_cases hid : id ∈ ids
        · exact Or.inl (burn_post _ _ _ hb.1 id hid)
        · unfold Keeps; rw [burn_frame _ _ _ hb.1 id hid]; exact hk
      · cases h
  | update uid n v t =>
    obtain ⟨i, fields, hi, hf, hl, _, hd, _⟩ := update_ok h
    unfold Keeps
    rw [hd]
    by_cases hu : id = uid
    · subst hu
      simp only [setCell_same]
      rcases hk with hb | ⟨d, hdv, hx⟩
      · rw [hb] at hl; simp at hl
      · right
        rw [hf] at hdv; cases hdv
        have hne : i ≠ j := by
          intro hij; subst hij; exact hj ⟨n, hi⟩
        exact ⟨_, rfl, by rw [List.getElem?_set_ne hne]; exact hx⟩
    · rw [setCell_other _ _ _ _ hu]; exact hk

theorem ruidIds_cons_not_mem {op : Op} {rest : List Op} {id : Id} (h : id ∉ ruidIds (op :: rest)) :
    id ∉ ruidIds [op] ∧ id ∉ ruidIds rest := by
  cases op <;> simp_all [ruidIds]

/-- **C43, third clause (histories).**  Take a non-fungible `id` and a field index `j` that is not the
    index of a declared-mutable field.  Over every history (in which the id generator does not hand out
    `id` again), the non-fungible either still exists with the same value in field `j`, or it has been
    burned and its entry is the tombstone: immutable data never changes, and a burned id never comes
    back with other data. -/
theorem immutable_fields_constant (ops : List Op) : ∀ (r : Res) (cnt : Id → Nat) (id : Id) (j : Nat)
    (x : Option Nat), ¬ IsMutIdx r j → Keeps r id j x → id ∉ ruidIds ops →
    Keeps (run r cnt ops).1 id j x := by
  induction ops with
  | nil => intro r cnt id j x _ hk _; exact hk
  | cons op rest ih =>
    intro r cnt id j x hj hk hr
    have hr' := ruidIds_cons_not_mem hr
    simp only [run]
    split
    · rename_i r' h
      have hj' : ¬ IsMutIdx r' j := by
        unfold IsMutIdx; rw [(apply_static h).2.1]; exact hj
      exact ih r' _ id j x hj' (keeps_step hj hk hr'.1 h) hr'.2
    · exact ih r cnt id j x hj hk hr'.2

/-- non-vacuity: field 0 (`a`) is immutable in `exRes`; after an update of `b` and a refused update
    of `a` the data is (1, 50, 3) -/
example :
    ¬ IsMutIdx exRes 0 ∧ Keeps exRes (1, 7) 0 (some 1) ∧
    (run exRes (fun _ => 0) [Op.update (1, 7) 1 50 true, Op.update (1, 7) 0 60 true]).1.data (1, 7) = ⟨some [1, 50, 3], false⟩ := by
  refine ⟨?_, Or.inr ⟨[1, 2, 3], by decide, by decide⟩, by decide⟩
  rintro ⟨n, hn⟩
  have hm : exRes.mutIdx = [(1, 1)] := rfl
  rw [hm] at hn
  simp only [lookupField] at hn
  split at hn <;> cases hn

end Radix.Nf
