/-
C41 — Liquidity pools stay solvent and fair.

Property theorems only. Model: `RadixModel/Model/Pool.lean` (transcription of the v1.1 one/two/multi
resource pool blueprints); helper lemmas: `RadixModel/Lemmas/Pool.lean`.

All amounts are `Int` attos. `unitOf d = 10^(18-d)` is the smallest amount of a resource with
divisibility `d`.
-/
import RadixModel.Model.Pool
import RadixModel.Lemmas.Pool
import RadixModel.Lemmas.PoolMulti
import RadixModel.Lemmas.PoolInv

namespace Radix.Pool

/-! ## 1. A redemption never pays more than the pro-rata share (all three pools share
`calculate_amount_owed`) -/

/-- `OwedOk u s (r, d) o` (Lemmas/Pool.lean) is
`0 ≤ o ∧ o * s ≤ u * r ∧ unitOf d ∣ o ∧ (u ≤ s → o ≤ r)`; `All2` relates two lists elementwise.
For every reserve: the owed amount is non-negative, at most `u/s` of the reserve (exact rational
comparison, cross-multiplied), a multiple of the resource's unit, and at most the reserve itself
whenever `u ≤ s` (so the vault can always pay and never goes negative). -/
theorem redeem_le_pro_rata {u s : Int} {rs : List (Int × Nat)} {os : List Int}
    (h : amountsOwed u s rs = .ok os) (hu : 0 ≤ u) (hs : 0 < s) (hr : ∀ x ∈ rs, 0 ≤ x.1) :
    All2 (OwedOk u s) rs os :=
  amountsOwed_all2 h hu hs hr

example : amountsOwed 3 7 [(1000000000000000000, 18), (5, 0)] = .ok [428571428571428571, 0] := by decide

/-- `redeem` of the state machine never fails for lack of reserves: the explicit
`vault.take` insufficiency branch of the model is dead code for admissible requests. -/
theorem redeem_never_insufficient {p : Pool} {u : Int} (hu : 0 < u) (hus : u ≤ p.supply)
    (hr : ∀ r ∈ p.reserves, 0 ≤ r) : redeem p u ≠ .error .vaultInsufficient :=
  redeem_ne_insufficient hu hus hr

/-! ## 2. Contributing and immediately redeeming never returns more than was contributed -/

/-- One-resource pool. Regime: pool units in circulation, or a completely empty pool. (With zero
supply and non-zero reserves — only reachable through `protected_deposit` or an externally emptied
unit supply — the blueprint deliberately gives the left-over reserves to the first contributor.) -/
theorem one_contribute_then_redeem_le {s r c o : Int} {d : Nat} {res : Contributed}
    (h : oneContribute s r c = .ok res) (hs : 0 ≤ s) (hr : 0 ≤ r) (hc : 0 ≤ c)
    (hreg : 0 < s ∨ r = 0)
    (ho : amountOwed (res.supply - s) res.supply (r + c) d = .ok o) : o ≤ c :=
  one_no_gain h hs hr hc hreg ho

example : oneContribute 100 333 7 = .ok { supply := 102, reserves := [340], accepted := [7] } := by decide
example : amountOwed 2 102 340 18 = .ok 6 := by decide

/-- Multi-resource pool with units in circulation: for every resource, redeeming the freshly minted
units right after the contribution returns at most the accepted amount `a` (the rest of the
contribution came back as change). -/
theorem multi_contribute_then_redeem_le {s : Int} {rs : List (Int × Int × Nat)} {res : Contributed}
    (h : multiContribute s rs = .ok res) (hs : 0 < s)
    (hrs : ∀ x ∈ rs, 0 ≤ x.1 ∧ 0 ≤ x.2.1) :
    All2 (fun (x : Int × Int × Nat) (a : Int) =>
        ∀ o, amountOwed (res.supply - s) res.supply (x.1 + a) x.2.2 = .ok o → o ≤ a)
      rs res.accepted :=
  multi_no_gain h hs hrs

/-- Multi-resource pool, first contribution into an empty pool: everything is accepted and
redeeming all minted units returns at most that. -/
theorem multi_first_contribute_then_redeem_le {rs : List (Int × Int × Nat)} {res : Contributed}
    (h : multiContribute 0 rs = .ok res) (hrs : ∀ x ∈ rs, x.1 = 0 ∧ 0 ≤ x.2.1) :
    res.accepted = rs.map (fun x => x.2.1) ∧
    All2 (fun (x : Int × Int × Nat) (a : Int) =>
        ∀ o, amountOwed res.supply res.supply (x.1 + a) x.2.2 = .ok o → o ≤ a)
      rs res.accepted :=
  multi_first_no_gain h hrs

/-! ## 3. Multi-resource contributions are taken in the pool's ratio, the rest is change -/

/-- With units in circulation there is one ratio `k` (36 digits) such that every accepted amount `a`
is `reserve * k` rounded down to the resource unit: `a ≤ r*k < a + unit`; `a` is a non-negative
multiple of the unit and never exceeds the contributed amount (`change = c - a ≥ 0`, and
`a + change = c` holds by construction in `applyContribute`); the minted units are at most
`supply * k`. -/
theorem multi_accepted_in_ratio {s : Int} {rs : List (Int × Int × Nat)} {res : Contributed}
    (h : multiContribute s rs = .ok res) (hs : 0 < s) (hrs : ∀ x ∈ rs, 0 ≤ x.1 ∧ 0 ≤ x.2.1) :
    ∃ k : Int, 0 ≤ k ∧ (res.supply - s) * P36 ≤ s * k ∧
      All2 (fun (x : Int × Int × Nat) (a : Int) =>
          0 ≤ a ∧ a ≤ x.2.1 ∧ unitOf x.2.2 ∣ a ∧ a * P36 ≤ x.1 * k ∧ x.1 * k < (a + unitOf x.2.2) * P36)
        rs res.accepted :=
  multi_in_ratio h hs hrs

example : multiContribute 1000 [(1000, 2000, 18), (2000, 3000, 18), (3000, 4000, 18)]
    = .ok { supply := 2333, reserves := [2333, 4666, 6999], accepted := [1333, 2666, 3999] } := by decide

/-! ## 4. Reserves never go negative, over every operation sequence -/

/-- `Inv p := 0 ≤ p.supply ∧ ∀ r ∈ p.reserves, 0 ≤ r` (Lemmas/PoolInv.lean). -/
theorem inv_new (k : Kind) (divs : List Nat) : Inv (newPool k divs) := inv_newPool k divs

/-- every operation (contribute / redeem / protected deposit / protected withdraw, with any
arguments, successful or not) preserves the invariant -/
theorem inv_step {p : Pool} (op : Op) (h : Inv p) : Inv (step p op).1 := inv_step' op h

/-- …hence every state reachable from a new pool by any operation sequence satisfies it. -/
theorem reserves_nonneg (k : Kind) (divs : List Nat) (ops : List Op) : Inv (run (newPool k divs) ops) := by
  suffices ∀ p, Inv p → Inv (run p ops) from this _ (inv_new k divs)
  induction ops with
  | nil => intro p h; exact h
  | cons op ops ih => intro p h; exact ih _ (inv_step op h)

end Radix.Pool
