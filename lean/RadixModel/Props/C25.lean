/-
C25 — Rounding follows the declared rounding modes.

Property theorems only. Model: `checkedRound` & co. in `RadixModel/Model/Decimal.lean`
(transcription of `checked_round` in decimal.rs / precise_decimal.rs and of
`ResolvedRoundingStrategy::from_mode` in rounding_mode.rs).
-/
import RadixModel.Model.Decimal
import RadixModel.Lemmas.Decimal
import RadixModel.Lemmas.DecimalRound
import RadixModel.Generated.RoundingTable

namespace Radix.Dec

open Radix.Generated

/-! ## The strategy table of the compiled tree is the one the model uses -/

def modeOfNat : Nat → Option Mode
  | 0 => some .toPositiveInfinity
  | 1 => some .toNegativeInfinity
  | 2 => some .toZero
  | 3 => some .awayFromZero
  | 4 => some .toNearestMidpointTowardZero
  | 5 => some .toNearestMidpointAwayFromZero
  | 6 => some .toNearestMidpointToEven
  | _ => none

def ordOfInt (i : Int) : Ordering := if i < 0 then .lt else if i = 0 then .eq else .gt

/-- Does the model's resolved strategy pick the upper neighbour, given the parity of the lower one? -/
def modelRoundsUp (m : Mode) (isPositive : Bool) (o : Ordering) (lowerIsOdd : Bool) : Bool :=
  match Strategy.fromMode m isPositive o with
  | .roundUp => true
  | .roundDown => false
  | .roundToEven => lowerIsOdd

/-- Every row of the direction table observed on the compiled code (mode × sign × position relative
to the midpoint × parity of the lower neighbour ↦ rounded up?) is what `Strategy.fromMode` says,
and the table has all `7·2·3·2` rows. Re-checked against the current code on every run. -/
theorem table_agrees :
    RoundingTable.ROUND_TABLE.length = 84 ∧
    ∀ row ∈ RoundingTable.ROUND_TABLE,
      (modeOfNat row.1).map (fun m => modelRoundsUp m row.2.1 (ordOfInt row.2.2.1) row.2.2.2.1)
        = some row.2.2.2.2 := by
  decide

theorem scales_agree :
    RoundingTable.DEC_SCALE = Ty.dec.scale ∧ RoundingTable.PDEC_SCALE = Ty.pdec.scale := ⟨rfl, rfl⟩

end Radix.Dec
