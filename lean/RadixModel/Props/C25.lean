/-
C25 — Rounding follows the declared rounding modes.

Property theorems only. Model: `checkedRound` & co. in `RadixModel/Model/Decimal.lean`
(transcription of `checked_round` in decimal.rs / precise_decimal.rs and of
`ResolvedRoundingStrategy::from_mode` in rounding_mode.rs).

FULL STATEMENT (proved below at full strength, for both types, all seven modes, every admissible
number of places and every value of the type):
  checked_round(places, mode) x = some r  ⇔  r is THE multiple of 10^(SCALE-places) prescribed by `mode`
                                             (`IsRounded`, which has at most one solution) and r is representable;
  checked_round(places, mode) x = none    ⇔  that prescribed value exists but is not representable;
  it panics exactly when `places ∉ [0, SCALE]` (documented); values already at that precision are unchanged.
-/
import RadixModel.Model.Decimal
import RadixModel.Lemmas.Decimal
import RadixModel.Lemmas.DecimalRound
import RadixModel.Generated.RoundingTable

namespace Radix.Dec

open Radix.Generated

/-! ## The strategy table of the compiled tree is the one the model uses -/

def modeOfNat : Nat → Option Mode
  | 0 => some .toPositiveInfinity
  | 1 => some .toNegativeInfinity
  | 2 => some .toZero
  | 3 => some .awayFromZero
  | 4 => some .toNearestMidpointTowardZero
  | 5 => some .toNearestMidpointAwayFromZero
  | 6 => some .toNearestMidpointToEven
  | _ => none

def ordOfInt (i : Int) : Ordering := if i < 0 then .lt else if i = 0 then .eq else .gt

/-- Does the model's resolved strategy pick the upper neighbour, given the parity of the lower one? -/
def modelRoundsUp (m : Mode) (isPositive : Bool) (o : Ordering) (lowerIsOdd : Bool) : Bool :=
  match Strategy.fromMode m isPositive o with
  | .roundUp => true
  | .roundDown => false
  | .roundToEven => lowerIsOdd

/-- Every row of the direction table observed on the compiled code (mode × sign × position relative
to the midpoint × parity of the lower neighbour ↦ rounded up?) is what `Strategy.fromMode` says,
and the table has all `7·2·3·2` rows. Re-checked against the current code on every run. -/
theorem table_agrees :
    RoundingTable.ROUND_TABLE.length = 84 ∧
    ∀ row ∈ RoundingTable.ROUND_TABLE,
      (modeOfNat row.1).map (fun m => modelRoundsUp m row.2.1 (ordOfInt row.2.2.1) row.2.2.2.1)
        = some row.2.2.2.2 := by
  decide

theorem scales_agree :
    RoundingTable.DEC_SCALE = Ty.dec.scale ∧ RoundingTable.PDEC_SCALE = Ty.pdec.scale := ⟨rfl, rfl⟩

/-! ## checked_round -/

/-- a tie between 2 and 3 goes to the even neighbour 2 -/
example : IsRounded .toNearestMidpointToEven (10 ^ 18) (25 * 10 ^ 17) (2 * 10 ^ 18) := by
  refine ⟨⟨2, by norm_num⟩, by norm_num, by norm_num, fun _ => ⟨1, by norm_num⟩⟩

example : checkedRound .dec 0 .toNearestMidpointToEven (25 * 10 ^ 17) = .val (2 * 10 ^ 18) := by decide
example : checkedRound .dec 0 .toNearestMidpointAwayFromZero (-25 * 10 ^ 17) = .val (-3 * 10 ^ 18) := by decide
example : checkedRound .dec 0 .toPositiveInfinity Ty.dec.max = .none := by decide

/-- the rounding granularity `10^(SCALE - places)` in subunits -/
def unitOf (t : Ty) (places : Int) : Int := pow10 (t.scale - places.toNat)

/-- admissible `decimal_places` -/
def ValidPlaces (t : Ty) (places : Int) : Prop := 0 ≤ places ∧ places ≤ (t.scale : Int)

example : ValidPlaces .dec 0 ∧ ValidPlaces .dec 18 ∧ ValidPlaces .pdec 36 ∧ ¬ ValidPlaces .dec 19 := by
  unfold ValidPlaces; decide

theorem unitOf_pos (t : Ty) (p : Int) (hp : ValidPlaces t p) : 0 < unitOf t p :=
  (pow10_facts t (t.scale - p.toNat) (by omega)).1

/-- The granularity really is `10^(SCALE - places)`. -/
theorem unitOf_eq (t : Ty) (p : Nat) (hp : p ≤ t.scale) : unitOf t (p : Int) = (10 : Int) ^ (t.scale - p) := by
  unfold unitOf; rw [pow10_eq, Int.toNat_natCast]

/-- Key fact: for admissible places, `checked_round` returns the prescribed value when it is
representable and `none` otherwise — there is a (unique) prescribed value `r`. -/
theorem round_eq_prescribed (t : Ty) (p : Int) (hp : ValidPlaces t p) (mode : Mode) (x : Int)
    (hx : t.InRange x) :
    ∃ r, IsRounded mode (unitOf t p) x r ∧
      checkedRound t p mode x = Outcome.ofOption (chk t.bits r) := by
  obtain ⟨hd, _, _, hpar⟩ := pow10_facts t (t.scale - p.toNat) (by omega)
  rw [checkedRound_eq_core t p hp.1 hp.2 mode x hx]
  exact roundCore_pick t mode _ x hd hpar hx

/-- `checked_round` panics exactly for an inadmissible number of decimal places (as documented);
in particular none of its internal `expect`s / panicking operators can fire. -/
theorem round_panics_iff (t : Ty) (p : Int) (mode : Mode) (x : Int) (hx : t.InRange x) :
    checkedRound t p mode x = .panic ↔ ¬ ValidPlaces t p := by
  constructor
  · intro h hp
    obtain ⟨r, _, he⟩ := round_eq_prescribed t p hp mode x hx
    rw [he] at h
    cases hc : chk t.bits r <;> rw [hc] at h <;> simp [Outcome.ofOption] at h
  · intro hp
    unfold checkedRound
    rw [if_pos]
    unfold ValidPlaces at hp
    omega

/-- SOUNDNESS: a returned value is the one prescribed by the mode, and is representable. -/
theorem round_sound (t : Ty) (p : Int) (hp : ValidPlaces t p) (mode : Mode) (x r : Int)
    (hx : t.InRange x) (h : checkedRound t p mode x = .val r) :
    IsRounded mode (unitOf t p) x r ∧ t.InRange r := by
  obtain ⟨r0, hr0, he⟩ := round_eq_prescribed t p hp mode x hx
  rw [he] at h
  cases hc : chk t.bits r0 with
  | none => rw [hc] at h; simp [Outcome.ofOption] at h
  | some v =>
    rw [hc] at h
    simp only [Outcome.ofOption, Outcome.val.injEq] at h
    obtain ⟨hin, hv⟩ := chk_eq_some.mp hc
    subst hv; subst h
    exact ⟨hr0, hin⟩

/-- OVERFLOW is reported only when the prescribed value is not representable. -/
theorem round_none (t : Ty) (p : Int) (hp : ValidPlaces t p) (mode : Mode) (x : Int)
    (hx : t.InRange x) (h : checkedRound t p mode x = .none) :
    ∀ r, IsRounded mode (unitOf t p) x r → ¬ t.InRange r := by
  obtain ⟨r0, hr0, he⟩ := round_eq_prescribed t p hp mode x hx
  intro r hr
  have : r = r0 := isRounded_unique mode _ x r r0 (unitOf_pos t p hp) hr hr0
  subst this
  rw [he] at h
  cases hc : chk t.bits r with
  | none => exact chk_eq_none.mp hc
  | some v => rw [hc] at h; simp [Outcome.ofOption] at h

/-- COMPLETENESS: whenever the prescribed value is representable it is returned. -/
theorem round_complete (t : Ty) (p : Int) (hp : ValidPlaces t p) (mode : Mode) (x r : Int)
    (hx : t.InRange x) (hr : IsRounded mode (unitOf t p) x r) (hin : t.InRange r) :
    checkedRound t p mode x = .val r := by
  obtain ⟨r0, hr0, he⟩ := round_eq_prescribed t p hp mode x hx
  have : r = r0 := isRounded_unique mode _ x r r0 (unitOf_pos t p hp) hr hr0
  subst this
  rw [he, chk_of_inBits hin]; rfl

/-- The prescribed value always exists and is unique, so `IsRounded` defines the rounding function. -/
theorem prescribed_exists_unique (t : Ty) (p : Int) (hp : ValidPlaces t p) (mode : Mode) (x : Int)
    (hx : t.InRange x) : ∃ r, IsRounded mode (unitOf t p) x r ∧
      ∀ r', IsRounded mode (unitOf t p) x r' → r' = r := by
  obtain ⟨r0, hr0, _⟩ := round_eq_prescribed t p hp mode x hx
  exact ⟨r0, hr0, fun r' hr' => isRounded_unique mode _ x r' r0 (unitOf_pos t p hp) hr' hr0⟩

/-- The only outcomes are a value, `None`, or the documented panic. -/
theorem round_outcomes (t : Ty) (p : Int) (mode : Mode) (x : Int) (hx : t.InRange x) :
    (∃ r, checkedRound t p mode x = .val r) ∨ checkedRound t p mode x = .none ∨
      checkedRound t p mode x = .panic := by
  by_cases hp : ValidPlaces t p
  · obtain ⟨r, _, he⟩ := round_eq_prescribed t p hp mode x hx
    rw [he]
    cases chk t.bits r <;> simp [Outcome.ofOption]
  · exact Or.inr (Or.inr ((round_panics_iff t p mode x hx).mpr hp))

/-- Values already at the requested precision are returned unchanged, in every mode. -/
theorem round_idempotent_on_multiples (t : Ty) (p : Int) (hp : ValidPlaces t p) (mode : Mode)
    (x : Int) (hx : t.InRange x) (hm : unitOf t p ∣ x) : checkedRound t p mode x = .val x := by
  apply round_complete t p hp mode x x hx _ hx
  have hd := unitOf_pos t p hp
  refine ⟨hm, by simpa using hd, ?_⟩
  cases mode <;> simp <;> omega

/-- Rounding a result again (same places, any mode) changes nothing. -/
theorem round_round (t : Ty) (p : Int) (hp : ValidPlaces t p) (mode mode' : Mode) (x r : Int)
    (hx : t.InRange x) (h : checkedRound t p mode x = .val r) :
    checkedRound t p mode' r = .val r := by
  obtain ⟨hr, hin⟩ := round_sound t p hp mode x r hx h
  exact round_idempotent_on_multiples t p hp mode' r hin hr.1

/-! ## floor / ceiling / for_withdrawal -/

/-- `checked_floor`: the returned value is the largest integer (multiple of ONE) `≤ x`. -/
theorem floor_sound (t : Ty) (x r : Int) (hx : t.InRange x) (h : checkedFloor t x = .val r) :
    t.one ∣ r ∧ r ≤ x ∧ x < r + t.one ∧ t.InRange r := by
  have hp : ValidPlaces t 0 := ⟨le_refl _, by omega⟩
  obtain ⟨⟨h1, h2, h3⟩, hin⟩ := round_sound t 0 hp .toNegativeInfinity x r hx h
  have hu : unitOf t 0 = t.one := rfl
  rw [hu] at h1 h2
  rw [abs_lt] at h2
  exact ⟨h1, h3, by omega, hin⟩

/-- `checked_ceiling`: the returned value is the smallest integer `≥ x`. -/
theorem ceiling_sound (t : Ty) (x r : Int) (hx : t.InRange x) (h : checkedCeiling t x = .val r) :
    t.one ∣ r ∧ x ≤ r ∧ r < x + t.one ∧ t.InRange r := by
  have hp : ValidPlaces t 0 := ⟨le_refl _, by omega⟩
  obtain ⟨⟨h1, h2, h3⟩, hin⟩ := round_sound t 0 hp .toPositiveInfinity x r hx h
  have hu : unitOf t 0 = t.one := rfl
  rw [hu] at h1 h2
  rw [abs_lt] at h2
  exact ⟨h1, h3, by omega, hin⟩

/-- `checked_floor` / `checked_ceiling` never panic. -/
theorem floor_ceiling_no_panic (t : Ty) (x : Int) (hx : t.InRange x) :
    checkedFloor t x ≠ .panic ∧ checkedCeiling t x ≠ .panic := by
  have hp : ValidPlaces t 0 := ⟨le_refl _, by omega⟩
  exact ⟨fun h => (round_panics_iff t 0 _ x hx).mp h hp, fun h => (round_panics_iff t 0 _ x hx).mp h hp⟩

/-- `for_withdrawal`: `Exact` returns the amount unchanged; `Rounded(mode)` is `checked_round` to the
resource divisibility (so all the theorems above apply for divisibility ≤ 18). -/
theorem forWithdrawal_spec (x : Int) (dv : Nat) :
    forWithdrawal x dv none = .val x ∧
    ∀ mode, forWithdrawal x dv (some mode) = checkedRound .dec (dv : Int) mode x :=
  ⟨rfl, fun _ => rfl⟩

end Radix.Dec
