/-
C31 — The manifest compiler never crashes (partial).

Full statement: compiling any text as a manifest of any kind returns a manifest or an error, and
rendering that error as a diagnostic also succeeds; neither step panics; the answer is the same
every time.

Proved here (for every text, with any mix of line endings and any characters):
* `position_tracks_index_and_line`, `posAt_succ` — the cursor the lexer keeps (`Position::advance`)
  is the code-point index and the number of `\n` consumed;
* `snippet_range_in_source` — for every span of the text (start/end = cursor positions at char
  indices `i ≤ j ≤ |text|`, which is what lexer, parser and generator report), the repaired
  `create_snippet` does not underflow, hands the renderer a source that is a contiguous slice of
  the text (plus at most one final `\n`) and an annotation range that is non-empty, lies inside
  that source (the renderer's own bound check, `rangeAccepted`) and covers exactly the characters
  `i .. j` of the text;
* `old_snippet_refuted` — the arithmetic of the unrepaired tree fails that bound on a CRLF text
  (the witness of DESIGN §5: the real panic), the repaired one passes it.
Not proved (explored on the implementation by the oracle on every run, and — for lexer and parser —
by the correspondence with the executable models of `tokenize` and `Parser::parse_manifest`, which
predict every token, error kind and span): that every span reported by lexer/parser/generator is
such a span of the text (`spans_in_bounds`; oracle keys `span-out-of-bounds:*`,
`span-inconsistent:lex`), that the model loops never reach their `hang` outcome, absence of panics
inside the generator/bech32/decimal code and inside annotate-snippets beyond its range check.
Determinism is a property of the Lean functions by construction and is tested on the real code by
evaluating everything twice.
-/
import RadixModel.Model.Manifest
import RadixModel.Model.ManifestParser
import RadixModel.Lemmas.ManifestSnippet
namespace Radix.Manifest

/-- The position stored by the lexer after `i` characters is `(i, number of '\n' among them)`. -/
theorem position_tracks_index_and_line (text : List Char) (i : Nat) (h : i ≤ text.length) :
    (posAt text i).full = i ∧ (posAt text i).line = nlCount (text.take i) :=
  ⟨posAt_full text i h, posAt_line text i⟩

/-- One more character moves the cursor by `Position::advance`. -/
theorem posAt_succ (text : List Char) (i : Nat) (h : i < text.length) :
    posAt text (i + 1) = (posAt text i).advance text[i] := by
  simp only [posAt]
  rw [List.take_succ_eq_append_getElem h, advanceBy_append]
  rfl

theorem snippet_range_in_source (text : List Char) (i j : Nat) (hij : i ≤ j) (hj : j ≤ text.length) :
    ∃ lineStart k m extra a b,
      createSnippetNew text ⟨posAt text i, posAt text j⟩ = .ok lineStart ((text.drop k).take m ++ extra) (a, b)
      ∧ (extra = [] ∨ extra = ['\n'])
      ∧ k ≤ i ∧ j ≤ k + m ∧ k + m ≤ text.length
      ∧ a = i - k ∧ b = (if i = j then j + 1 else j) - k
      ∧ a < b
      ∧ rangeAccepted ((text.drop k).take m ++ extra) (a, b) = true := by
  have hfi := posAt_full text i (by omega)
  have hfj := posAt_full text j hj
  have hli := posAt_line text i
  have hlj := posAt_line text j
  -- the number of skipped lines
  obtain ⟨k0, hk0, hls⟩ : ∃ k0, k0 ≤ nlCount (text.take i) ∧ lineStartOf ⟨posAt text i, posAt text j⟩ = k0 + 1 := by
    simp only [lineStartOf, Pos.lineNumber, hli]
    split
    · exact ⟨nlCount (text.take i) - 5, by omega, by omega⟩
    · exact ⟨0, by omega, rfl⟩
  obtain ⟨sk, n, hloop, hsk, hjn, hn⟩ := snippet_core text i j hij hj k0
    (Nat.min (nlCount (text.take j) + 1 + 5) (splitInclusive text).length) hk0 rfl
  have hlen : ((text.drop sk).take n).length = n := by simp; omega
  have hloop' : snipLoop (fun l => l.length) (fun l => l) (k0 + 1)
      (Nat.min (nlCount (text.take j) + 1 + 5) (splitInclusive text).length) (splitInclusive text) 1
      = (sk, (text.drop sk).take n) := hloop
  unfold createSnippetNew
  simp only [hls, Pos.lineNumber, hlj, hloop', hfi, hfj]
  have e1 : Nat.min i text.length = i := by simp [Nat.min_def]; omega
  have e2 : Nat.min j text.length = j := by simp [Nat.min_def]; omega
  rw [e1, e2]
  unfold finishSnippet
  have hnu : ¬ (i < sk ∨ (if i = j then j + 1 else j) < sk) := by split <;> omega
  simp only [hnu, if_false]
  split
  · refine ⟨_, sk, n, ['\n'], _, _, rfl, Or.inr rfl, hsk, hjn, hn, rfl, rfl, ?_, ?_⟩
    · split <;> omega
    · simp [rangeAccepted, hlen]; split <;> omega
  · refine ⟨_, sk, n, [], _, _, by rw [List.append_nil], Or.inl rfl, hsk, hjn, hn, rfl, rfl, ?_, ?_⟩
    · split <;> omega
    · simp [rangeAccepted, hlen]; split <;> omega


/-- non-vacuity: a CRLF text, error on line 3 -/
example : ∃ ls src r, createSnippetNew "A;\r\nB;\r\nXY".toList ⟨posAt "A;\r\nB;\r\nXY".toList 8, posAt "A;\r\nB;\r\nXY".toList 10⟩ = .ok ls src r
    ∧ rangeAccepted src r = true := by
  obtain ⟨ls, k, m, extra, a, b, h, _, _, _, _, _, _, _, hr⟩ :=
    snippet_range_in_source "A;\r\nB;\r\nXY".toList 8 10 (by decide) (by decide)
  exact ⟨ls, _, _, h, hr⟩

/-! ### the unrepaired arithmetic (history; the witness of DESIGN §5) -/

def crlfLine : List Char := ['D', 'R', 'O', 'P', '_', 'A', 'L', 'L', '_', 'P', 'R', 'O', 'O', 'F', 'S', ';', '\r', '\n']
def bogusLine : List Char := ['B', 'O', 'G', 'U', 'S', '_', 'I', 'N', 'S', 'T', 'R', 'U', 'C', 'T', 'I', 'O', 'N', ';']
/-- 12 × `DROP_ALL_PROOFS;\r\n` followed by `BOGUS_INSTRUCTION;` -/
def crlfWitness : List Char := (List.replicate 12 crlfLine).flatten ++ bogusLine
/-- the span of the identifier `BOGUS_INSTRUCTION` (char indices 216..233, line index 12) -/
def crlfWitnessSpan : Span := ⟨⟨216, 12, 0⟩, ⟨233, 12, 17⟩⟩

/-- On the CRLF witness the old arithmetic produces a range the renderer rejects (it panics with
"SourceAnnotation range … is beyond the end of buffer"), while the repaired one is accepted. -/
theorem old_snippet_refuted :
    (match createSnippetOld crlfWitness crlfWitnessSpan with
      | .ok _ src r => rangeAccepted src r
      | .underflow => false) = false
    ∧ (match createSnippetNew crlfWitness crlfWitnessSpan with
      | .ok _ src r => rangeAccepted src r
      | .underflow => false) = true := by
  constructor <;> decide +kernel

end Radix.Manifest
