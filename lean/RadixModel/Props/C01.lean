/-
C01 — Transaction execution is deterministic  (PARTIAL: theorems on three logic kernels; the
runtime part — hash-map seeds, wasmi, code cache, threads, processes — is explored on the
implementation by the `c01d` differential, see checks/C01.json).

Full statement (not provable on a model, kept here as the target):
  for every reachable ledger state `s`, every transaction `tx`, any two executions of `tx` on `s`
  — in any process, with any state of the ScryptoVm code cache, on any thread schedule, under any
  values of `enable_kernel_trace / enable_cost_breakdown / execution_trace /
  enable_debug_information` — produce byte-identical
  `(outcome, state_updates, application_events, fee_summary)`.

What is proved:
 (a) ids: the i-th node id allocated in a transaction is `mkId H txhash i entity_i` — a function of the
     transaction hash, the position and the requested entity type only (`ids_function_of_history`,
     `ith_id_depends_only_on_hash_and_index`); `OutOfID` exactly at `u32::MAX` (`next_error_iff`); two
     ids of one transaction that agree after the entity byte yield an explicit collision of the
     truncated hash (`id_collision_extracts_hash_collision`).
 (b) state updates: the order of nodes in `Track`'s `tracked_nodes` only ever grows at the end
     (`tracked_order_append_only`) and the node order of the emitted `StateUpdates` is the
     first-occurrence order of (deleted partitions' nodes ++ tracked nodes with updates)
     (`state_updates_node_order`) — no hash-map iteration order enters.
 (c) configuration: `resolveModules ∘ SystemSelfInit.new` gives the same state-affecting modules and
     parameters for configurations that differ only in the four diagnostic settings
     (`diagnostics_do_not_select_modules`), the diagnostic settings switch exactly their own
     module/bookkeeping (`diagnostics_switch_only_their_own_parts`), and — under the stated frame
     hypotheses on the two trace modules — the module dispatch of a whole event sequence is invisible
     in the state-affecting projection (`run_diag_invisible_partial`).
 Side conditions on the current code, re-checked on every run through `Generated/C01.lean`:
     `module_bits_are_distinct_single_bits`, `config_fields_match_model`,
     `overrides_fields_match_model`, `self_init_fields_match_model`, `resolve_reads_match_model`,
     `self_init_copy_matches_model`.
-/
import RadixModel.Model.Determinism
import RadixModel.Model.Track
import RadixModel.Lemmas.Determinism
namespace Radix.C01.Props
open Radix.C01 Radix.Generated

/-! ## (a) ids -/

/-- `next` fails exactly when the counter sits at `u32::MAX`; otherwise it hands out the counter and
increments it. -/
theorem next_error_iff (a : IdAllocator) :
    (a.next = .error .outOfId ↔ a.nextId = C01.ID_COUNTER_MAX) ∧
    (a.nextId ≠ C01.ID_COUNTER_MAX → a.next = .ok (a.nextId, { a with nextId := a.nextId + 1 })) := by
  unfold IdAllocator.next
  constructor
  · constructor
    · intro h; split at h <;> simp_all
    · intro h; simp [h]
  · intro h; simp [h]

/-- Specification of a whole allocation sequence started at counter `c`: the i-th id is
`mkId H txhash (c + i) entity_i`. -/
theorem ids_function_of_history (H : List UInt8 → List UInt8) (h : List UInt8) (es : List UInt8) (c : Nat)
    (hc : c + es.length ≤ C01.ID_COUNTER_MAX) :
    IdAllocator.allocAll H { transactionHash := h, nextId := c } es =
      (specIds H h c es).map (fun ids => (ids, { transactionHash := h, nextId := c + es.length })) :=
  allocAll_eq_spec H h es c hc

example : (3 : Nat) + [UInt8.ofNat 13, UInt8.ofNat 81].length ≤ C01.ID_COUNTER_MAX := by decide

/-- The i-th id of a successful sequence depends only on the transaction hash, the index and the entity
type requested at that index (not on the other requests, not on anything else). -/
theorem ith_id_depends_only_on_hash_and_index (H : List UInt8 → List UInt8) (h : List UInt8)
    (es : List UInt8) (c : Nat) (ids : List (List UInt8)) (hs : specIds H h c es = .ok ids)
    (i : Nat) (hi : i < es.length) :
    ∃ hi' : i < ids.length, mkId H h (c + i) es[i] = .ok ids[i] :=
  specIds_get H h es c ids hs i hi

/-- `u32::to_le_bytes` is injective on `u32`. -/
theorem le32_injective (c1 c2 : Nat) (h1 : c1 < 4294967296) (h2 : c2 < 4294967296)
    (h : le32 c1 = le32 c2) : c1 = c2 := le32_inj c1 c2 h1 h2 h

/-- Collision extraction: if two different positions of one transaction produce ids that agree after
the entity byte, then the two explicit, different messages `txhash ++ le32 c1`, `txhash ++ le32 c2`
collide under the truncated hash. -/
theorem id_collision_extracts_hash_collision (H : List UInt8 → List UInt8) (h : List UInt8)
    (c1 c2 : Nat) (e1 e2 : UInt8) (x y : UInt8) (t : List UInt8)
    (h1 : c1 < 4294967296) (h2 : c2 < 4294967296) (hne : c1 ≠ c2)
    (hid1 : mkId H h c1 e1 = .ok (x :: t)) (hid2 : mkId H h c2 e2 = .ok (y :: t)) :
    ∃ m1 m2 : List UInt8, m1 ≠ m2 ∧ (lowerBytes (H m1)).tail = (lowerBytes (H m2)).tail := by
  refine ⟨h ++ le32 c1, h ++ le32 c2, ?_, ?_⟩
  · intro heq
    exact hne (le32_inj c1 c2 h1 h2 (List.append_cancel_left heq))
  · unfold mkId at hid1 hid2
    split at hid1 <;> split at hid2 <;> simp_all

/-- non-vacuity with the identity as "hash": positions 1 and 257 differ, and so do their ids -/
example : ∃ a b, mkId (fun m => m) (List.replicate 32 0) 1 7 = .ok a ∧
    mkId (fun m => m) (List.replicate 32 0) 257 7 = .ok b ∧ a ≠ b := ⟨_, _, rfl, rfl, by decide⟩

/-! ## (c) configuration -/

/-- Side condition on the compiled flag values: six distinct single bits. (This is what makes the
record-of-Booleans reading of `|=` and `remove` in the model exact.) -/
theorem module_bits_are_distinct_single_bits :
    ([C01.KERNEL_TRACE, C01.LIMITS, C01.COSTING, C01.AUTH, C01.TRANSACTION_RUNTIME, C01.EXECUTION_TRACE].all
        (fun b => [1, 2, 4, 8, 16, 32, 64, 128, 256, 512, 1024, 2048, 4096].contains b) = true) ∧
    [C01.KERNEL_TRACE, C01.LIMITS, C01.COSTING, C01.AUTH, C01.TRANSACTION_RUNTIME, C01.EXECUTION_TRACE].Nodup := by
  decide

/-- `bits()` determines the set: no two different module sets print the same number. -/
theorem toBits_injective : ∀ m m' : EnabledModules, m.toBits = m'.toBits → m = m' := by
  intro ⟨a, b, c, d, e, f⟩ ⟨a', b', c', d', e', f'⟩
  revert a b c d e f a' b' c' d' e' f'
  decide

/-- The code's `ExecutionConfig` has exactly the fields the model knows. -/
theorem config_fields_match_model : C01.executionConfigFields = CfgField.all.map CfgField.code := by decide
/-- The code's `SystemOverrides` has exactly the fields the model knows. -/
theorem overrides_fields_match_model : C01.systemOverridesFields = OvField.all.map OvField.code := by decide
/-- The code's `SystemSelfInit` has exactly the fields the model knows. -/
theorem self_init_fields_match_model : C01.systemSelfInitFields = InitField.all.map InitField.code := by decide
/-- `resolve_modules` reads the same `init_input.*` / `system_overrides.*` fields as the model. -/
theorem resolve_reads_match_model :
    C01.resolveReadsInit = resolveReadsInit ∧ C01.resolveReadsOverrides = resolveReadsOverrides := by decide
/-- `SystemSelfInit::new` copies the configuration fields the way the model does. -/
theorem self_init_copy_matches_model : C01.selfInitFromConfig = selfInitFromConfig := by decide

/-- `resolve_modules` fails only through `create_auth_module` — which does not see the configuration. -/
theorem resolve_error_iff (ex authOk : Bool) (i : SystemSelfInit) :
    (∃ e, resolveModules ex authOk i = .error e) ↔ authOk = false := by
  unfold resolveModules
  cases authOk
  · simp; exact ⟨.authModuleRejected, trivial⟩
  · simp

/-- **diagnostics_do_not_select_modules.** Two configurations that agree on `system_overrides` (i.e.
differ at most in `enable_kernel_trace`, `enable_cost_breakdown`, `execution_trace`,
`enable_debug_information`) resolve to the same state-affecting modules and parameters, for every
executable flag, system version, stored system parameters and auth-module outcome. -/
theorem diagnostics_do_not_select_modules (c1 c2 : ExecutionConfig)
    (h : c1.systemOverrides = c2.systemOverrides) (ex authOk : Bool) (version : Nat)
    (params : SystemParameters) :
    (resolveModules ex authOk (SystemSelfInit.new c1 version params)).map Resolved.stateAffecting =
    (resolveModules ex authOk (SystemSelfInit.new c2 version params)).map Resolved.stateAffecting := by
  obtain ⟨kt1, cb1, et1, dbg1, ov1⟩ := c1
  obtain ⟨kt2, cb2, et2, dbg2, ov2⟩ := c2
  simp only at h
  subst h
  cases authOk
  · simp [resolveModules, Except.map]
  · cases ov1 with
    | none =>
      cases ex <;> cases kt1 <;> cases kt2 <;> cases et1 <;> cases et2 <;>
        simp [resolveModules, SystemSelfInit.new, Except.map, Resolved.stateAffecting]
    | some o =>
      obtain ⟨dc, dl, da, ab, nd, co, lo⟩ := o
      cases ex <;> cases kt1 <;> cases kt2 <;> cases et1 <;> cases et2 <;>
        cases dc <;> cases dl <;> cases da <;>
        simp [resolveModules, SystemSelfInit.new, Except.map, Resolved.stateAffecting]

/-- non-vacuity: the test configuration and the preview configuration differ only in diagnostics -/
example :
    let c1 : ExecutionConfig := { enableKernelTrace := true, enableCostBreakdown := true, executionTrace := none,
                                  enableDebugInformation := false, systemOverrides := none }
    let c2 : ExecutionConfig := { enableKernelTrace := false, enableCostBreakdown := true, executionTrace := some 16,
                                  enableDebugInformation := true, systemOverrides := none }
    c1.systemOverrides = c2.systemOverrides ∧ c1 ≠ c2 := by decide

/-- The diagnostic settings switch exactly their own module / bookkeeping: the kernel-trace module is
enabled iff `enable_kernel_trace`, the execution-trace module iff `execution_trace.is_some()`, the
cost breakdown iff `enable_cost_breakdown`, the detailed breakdown iff `enable_debug_information`. -/
theorem diagnostics_switch_only_their_own_parts (c : ExecutionConfig) (ex : Bool) (version : Nat)
    (params : SystemParameters) (r : Resolved)
    (hr : resolveModules ex true (SystemSelfInit.new c version params) = .ok r) :
    r.enabled.kernelTrace = c.enableKernelTrace ∧
    r.enabled.executionTrace = c.executionTrace.isSome ∧
    r.costBreakdown = c.enableCostBreakdown ∧
    r.detailedCostBreakdown = c.enableDebugInformation ∧
    r.enabled.transactionRuntime = true := by
  obtain ⟨kt, cb, et, dbg, ov⟩ := c
  cases ov with
  | none =>
    cases ex <;> cases kt <;> cases et <;>
      simp [resolveModules, SystemSelfInit.new] at hr <;> subst hr <;> simp
  | some o =>
    obtain ⟨dc, dl, da, ab, nd, co, lo⟩ := o
    cases ex <;> cases kt <;> cases et <;> cases dc <;> cases dl <;> cases da <;>
      simp [resolveModules, SystemSelfInit.new] at hr <;> subst hr <;> simp

/-- Exactly which state-affecting modules are on: limits/costing unless the executable or the overrides
disable them, auth unless the overrides disable it. -/
theorem state_affecting_modules_spec (c : ExecutionConfig) (ex : Bool) (version : Nat)
    (params : SystemParameters) (r : Resolved)
    (hr : resolveModules ex true (SystemSelfInit.new c version params) = .ok r) :
    r.enabled.limits = (!ex && !(match c.systemOverrides with | some o => o.disableLimits | none => false)) ∧
    r.enabled.costing = (!ex && !(match c.systemOverrides with | some o => o.disableCosting | none => false)) ∧
    r.enabled.auth = !(match c.systemOverrides with | some o => o.disableAuth | none => false) ∧
    r.abortWhenLoanRepaid = (match c.systemOverrides with | some o => o.abortWhenLoanRepaid | none => false) := by
  obtain ⟨kt, cb, et, dbg, ov⟩ := c
  cases ov with
  | none =>
    cases ex <;> cases kt <;> cases et <;>
      simp [resolveModules, SystemSelfInit.new] at hr <;> subst hr <;> simp
  | some o =>
    obtain ⟨dc, dl, da, ab, nd, co, lo⟩ := o
    cases ex <;> cases kt <;> cases et <;> cases dc <;> cases dl <;> cases da <;>
      simp [resolveModules, SystemSelfInit.new] at hr <;> subst hr <;> simp

/-! ### dispatch: the two trace modules are invisible in the state-affecting projection

FULL statement wanted: for the real hooks of `KernelTraceModule` and `ExecutionTraceModule`. Proved
here (`_partial`): for *any* hooks satisfying the two frame hypotheses below; that the real trace
modules satisfy them (they only print / only write their own module state, never fail, and no other
module reads that state) is what the `c01d` differential explores on the implementation. -/

/-- `hDiag`: a diagnostic module never fails and leaves the projection `π` alone.
`hOther`: a non-diagnostic module's effect on `π` (and its error) depends on `π` only. -/
theorem dispatch_diag_invisible_partial {σ τ ε : Type} (π : σ → τ)
    (hook : Module → σ → Except ε σ)
    (hDiag : ∀ m s, m.isDiagnostic = true → ∃ s', hook m s = .ok s' ∧ π s' = π s)
    (hOther : ∀ m s1 s2, m.isDiagnostic = false → π s1 = π s2 →
        (hook m s1).map π = (hook m s2).map π)
    (en1 en2 : EnabledModules)
    (hen : ∀ m, m.isDiagnostic = false → en1.has m = en2.has m)
    (s1 s2 : σ) (hs : π s1 = π s2) :
    (dispatch en1 hook s1).map π = (dispatch en2 hook s2).map π :=
  dispatchTo_invisible π hook hDiag hOther en1 en2 hen dispatchOrder s1 s2 hs

/-- The same for a whole run: a sequence of kernel events, each offered to the modules and then acted
upon by the kernel (whose action on `π` depends on `π` only). Two runs that start from `π`-equal
states under module sets that differ only in the trace modules end in `π`-equal states, or fail with
the same error. -/
theorem run_diag_invisible_partial {σ τ ε Ev : Type} (π : σ → τ)
    (hooks : Ev → Module → σ → Except ε σ) (act : Ev → σ → Except ε σ)
    (hDiag : ∀ ev m s, m.isDiagnostic = true → ∃ s', hooks ev m s = .ok s' ∧ π s' = π s)
    (hOther : ∀ ev m s1 s2, m.isDiagnostic = false → π s1 = π s2 →
        (hooks ev m s1).map π = (hooks ev m s2).map π)
    (hAct : ∀ ev s1 s2, π s1 = π s2 → (act ev s1).map π = (act ev s2).map π)
    (en1 en2 : EnabledModules)
    (hen : ∀ m, m.isDiagnostic = false → en1.has m = en2.has m)
    (evs : List Ev) (s1 s2 : σ) (hs : π s1 = π s2) :
    (runEvents en1 hooks act evs s1).map π = (runEvents en2 hooks act evs s2).map π :=
  runEvents_invisible π hooks act hDiag hOther hAct en1 en2 hen evs s1 s2 hs

/-- non-vacuity: a state with a trace log next to a counter; the trace modules append to the log, the
costing module counts and fails above a limit, the projection forgets the log. -/
example :
    let π : Nat × List Nat → Nat := fun s => s.1
    let hook : Module → Nat × List Nat → Except String (Nat × List Nat) := fun m s =>
      match m with
      | .kernelTrace => .ok (s.1, 1 :: s.2)
      | .executionTrace => .ok (s.1, 2 :: s.2)
      | .costing => if s.1 < 3 then .ok (s.1 + 1, s.2) else .error "limit"
      | _ => .ok s
    let en1 : EnabledModules := ⟨true, true, true, true, true, true⟩
    let en2 : EnabledModules := ⟨false, true, true, true, true, false⟩
    (dispatch en1 hook (0, [])).toOption.map π = (dispatch en2 hook (0, [])).toOption.map π ∧
    (dispatch en1 hook (0, [])).toOption ≠ (dispatch en2 hook (0, [])).toOption := by decide

/-- The resolved module sets of two configurations that differ only in diagnostics satisfy the
hypothesis `hen` of the two theorems above. -/
theorem resolved_sets_agree_off_diagnostics (c1 c2 : ExecutionConfig)
    (h : c1.systemOverrides = c2.systemOverrides) (ex : Bool) (version : Nat) (params : SystemParameters)
    (r1 r2 : Resolved)
    (h1 : resolveModules ex true (SystemSelfInit.new c1 version params) = .ok r1)
    (h2 : resolveModules ex true (SystemSelfInit.new c2 version params) = .ok r2) :
    ∀ m, m.isDiagnostic = false → r1.enabled.has m = r2.enabled.has m := by
  have hsa := diagnostics_do_not_select_modules c1 c2 h ex true version params
  rw [h1, h2] at hsa
  simp only [Except.map] at hsa
  have hsa' : r1.stateAffecting = r2.stateAffecting := by injection hsa
  intro m hm
  have e1 : r1.enabled.limits = r2.enabled.limits := congrArg StateAffecting.limits hsa'
  have e2 : r1.enabled.costing = r2.enabled.costing := congrArg StateAffecting.costing hsa'
  have e3 : r1.enabled.auth = r2.enabled.auth := congrArg StateAffecting.auth hsa'
  have e4 : r1.enabled.transactionRuntime = r2.enabled.transactionRuntime :=
    congrArg StateAffecting.transactionRuntime hsa'
  cases m <;> simp_all [EnabledModules.has, Module.isDiagnostic]

/-! ## (b) emission order of state updates (on C12's model of `Track`) -/

open Radix.Track Radix.KV Radix.SubstateDb


/-- `tracked_nodes` is append-only: every `CommitableSubstateStore` operation except the revert of a
failed transaction keeps the existing nodes in place and can only add a node at the end — the order
of `tracked_nodes` is the order of first touch. -/
theorem tracked_order_append_only (t : Track) (op : Track.Op) (hop : op ≠ .revert) :
    ∃ suffix, (Track.step t op).1.nodes.map (·.1) = t.nodes.map (·.1) ++ suffix :=
  step_nodes_append_only t op hop


/-- The node order of the emitted `StateUpdates`: first-occurrence order of the nodes of the deleted
partitions (in deletion order) followed by the tracked nodes that carry at least one update (in
first-touch order). Nothing else — in particular no hash-map iteration — enters. -/
theorem state_updates_node_order (t : Track) :
    (Track.toStateUpdates t).2.map (·.1) =
      ((t.deleted.map (·.1)) ++ ((t.nodes.filter nodeHasUpdates).map (·.1))).foldl ISet.insert [] :=
  toStateUpdates_keys t

end Radix.C01.Props
