/-
C14 — A database overlay behaves like the database with the commits applied.

Property theorems only. Models: `Model/Overlay.lean` (`SubstateDatabaseOverlay`),
`Model/SubstateDb.lean` (`InMemorySubstateDatabase`), `Model/KV.lean` (`OverlayingIterator`).

Well-formedness hypotheses are the representation invariants of the real types:
`Db.WF` — every partition `BTreeMap` is strictly sorted; `UpdWF` — the `IndexMap`s of a
`DatabaseUpdates` value have no duplicate partition numbers.
-/
import RadixModel.Model.Overlay
import RadixModel.Lemmas.Overlay

namespace Radix.Overlay
open Radix.KV Radix.SubstateDb

/-- the reference: the base database with the same commits applied directly
(`commit_overlay_into_root_store` is not a commit: it leaves the reference unchanged) -/
def refStep (db : Db) : Op → Db
  | .commit u => db.commit u
  | .commitIntoRoot => db

def OpWF : Op → Prop
  | .commit u => UpdWF u
  | .commitIntoRoot => True

/-- The refinement relation between an overlay and the reference database. -/
structure Inv (o : Overlay) (ref : Db) : Prop where
  swf : SWF o.staging
  rootWF : Db.WF o.root
  refWF : Db.WF ref
  abs : ∀ pk k, absF (stagedPart o.staging pk) (SMap.get? (o.root pk)) k = SMap.get? (ref pk) k

/-- `overlayIter_spec`: on strictly sorted inputs `OverlayingIterator` yields exactly the strictly
sorted listing of "underlying with the changes applied" (upserts override/insert, `None` deletes). -/
theorem overlayIter_is_sorted_listing {V : Type} (us : List (Nat × V)) (os : List (Nat × Option V))
    (hu : SMap.Sorted us) (ho : SMap.Sorted os) :
    SMap.Sorted (overlayIter us os) ∧
    (∀ k, SMap.get? (overlayIter us os) k = match SMap.get? os k with | some c => c | none => SMap.get? us k) ∧
    (∀ l, SMap.Sorted l → (∀ k, SMap.get? l k = overlayGet us os k) → overlayIter us os = l) :=
  ⟨overlayIter_sorted us os hu ho, fun k => overlayIter_get? us os hu ho k,
   fun l hl h => overlayIter_spec us os hu ho l hl h⟩

example : overlayIter [(1, 10), (2, 20), (5, 50), (7, 70)]
    [(0, some 1), (2, none), (3, some 3), (4, none), (5, some 55), (10, some 100)]
    = [(0, 1), (1, 10), (3, 3), (5, 55), (7, 70), (10, 100)] := by simp [overlayIter]

theorem inv_new (root : Db) (h : Db.WF root) : Inv (new root) root :=
  ⟨swf_nil, h, h, fun _ _ => rfl⟩

/-- `commit_refines` / `merge_spec`: one overlay commit (`merge_database_updates`) corresponds to
one commit on the reference; merging into the root keeps the correspondence. -/
theorem inv_step (o : Overlay) (ref : Db) (op : Op) (hop : OpWF op) (h : Inv o ref) :
    Inv (step o op) (refStep ref op) := by
  cases op with
  | commit u =>
    refine ⟨swf_mergeUpdates o.staging u h.swf, h.rootWF, wf_commit ref u h.refWF, ?_⟩
    intro pk k
    show absF (stagedPart (mergeUpdates o.staging u) pk) (SMap.get? (o.root pk)) k
      = SMap.get? (Db.commit ref u pk) k
    rw [absF_mergeUpdates o.staging u hop, get?_commit]
    exact applyF_congr _ _ pk u (fun k' => h.abs pk k') k
  | commitIntoRoot =>
    refine ⟨swf_nil, wf_commit o.root _ h.rootWF, h.refWF, ?_⟩
    intro pk k
    show SMap.get? (Db.commit o.root (Staging.toUpdates o.staging) pk) k = SMap.get? (ref pk) k
    rw [get?_commit, applyF_toUpdates o.staging h.swf]
    exact h.abs pk k

/-- `merge_spec`: committing the merged staged updates equals committing the staged updates and
then the new updates, for all four Delta/Reset combinations (pointwise on every partition). -/
theorem merge_spec (root : Db) (s : Staging) (u : DbUpdates) (hs : SWF s) (hu : UpdWF u)
    (pk : PKey) (k : Nat) :
    (root.commit (Staging.toUpdates (mergeUpdates s u))).get pk k
      = ((root.commit (Staging.toUpdates s)).commit u).get pk k := by
  unfold Db.get
  rw [get?_commit, get?_commit, applyF_toUpdates _ (swf_mergeUpdates s u hs), absF_mergeUpdates s u hu]
  apply applyF_congr
  intro k'
  rw [get?_commit, applyF_toUpdates s hs]

example : SWF (mergeUpdates [] [(0, [(1, .reset [(3, 30), (1, 10)])])]) ∧ UpdWF [(0, [(1, PUpd.delta [(1, none), (2, some 5)])])] :=
  ⟨swf_mergeUpdates _ _ swf_nil, by intro x hx; simp at hx; subst hx; simp [IMap.Nodup]⟩

/-- `get_refines`: a read through the overlay returns what the reference database holds. -/
theorem get_refines (o : Overlay) (ref : Db) (h : Inv o ref) (pk : PKey) (k : Nat) :
    get o pk k = ref.get pk k := by
  have habs := h.abs pk k
  rw [stagedPart_eq] at habs
  unfold get Db.get
  cases hsn : IMap.get? o.staging pk.1 with
  | none => rw [hsn] at habs; exact habs
  | some sn =>
    rw [hsn] at habs
    simp only [] at habs ⊢
    cases hsp : IMap.get? sn pk.2 with
    | none => rw [hsp] at habs; exact habs
    | some sp =>
      rw [hsp] at habs
      cases sp with
      | delta us =>
        simp only [absF] at habs ⊢
        rw [← habs]
        cases SMap.get? us k with
        | none => rfl
        | some c => cases c <;> rfl
      | reset vs =>
        simp only [absF] at habs ⊢
        rw [← habs]
        cases SMap.get? vs k <;> rfl

theorem from_eq_list (db : Db) (pk : PKey) (f : Nat) : SMap.from (db pk) f = db.list pk (some f) := rfl

/-- `list_refines`: an ordered partition listing through the overlay, from the start or from any
cursor, is the listing of the reference database. -/
theorem list_refines (o : Overlay) (ref : Db) (h : Inv o ref) (pk : PKey) (from? : Option Nat) :
    list o pk from? = ref.list pk from? := by
  have habs := h.abs pk
  have hr := h.rootWF pk
  have hf := h.refWF pk
  have hpart := swf_part o.staging h.swf pk
  rw [stagedPart_eq] at habs hpart
  -- when nothing is staged for the partition the root partition is the reference partition
  have hnone : (∀ k, SMap.get? (o.root pk) k = SMap.get? (ref pk) k) → o.root.list pk from? = ref.list pk from? := by
    intro hh
    have : o.root pk = ref pk := SMap.ext _ _ hr hf hh
    unfold Db.list; rw [this]
  unfold list
  cases hsn : IMap.get? o.staging pk.1 with
  | none => rw [hsn] at habs; exact hnone habs
  | some sn =>
    rw [hsn] at habs hpart
    simp only [] at habs hpart ⊢
    cases hsp : IMap.get? sn pk.2 with
    | none => rw [hsp] at habs; exact hnone habs
    | some sp =>
      rw [hsp] at habs
      have hwf := hpart sp hsp
      cases sp with
      | reset vs =>
        simp only [absF] at habs
        have : vs = ref pk := SMap.ext _ _ hwf hf habs
        simp only []
        rw [this]
        cases from? <;> rfl
      | delta us =>
        replace habs : ∀ k, overlayGet (o.root pk) us k = SMap.get? (ref pk) k := by
          intro k
          rw [← habs k]
          unfold overlayGet
          simp only [absF]
          cases SMap.get? us k <;> rfl
        cases from? with
        | none =>
          simp only [Db.list]
          exact overlayIter_spec _ _ hr hwf _ hf (fun k => (habs k).symm)
        | some f =>
          simp only [Db.list]
          apply overlayIter_spec _ _ (SMap.sorted_from _ f hr) (SMap.sorted_from _ f hwf) _
            (SMap.sorted_from _ f hf)
          intro k
          unfold overlayGet
          rw [SMap.get?_from _ f hf, SMap.get?_from _ f hwf, SMap.get?_from _ f hr]
          by_cases hk : k < f
          · simp [hk]
          · simp only [hk, if_false]
            exact (habs k).symm

/-- `commit_into_root_refines`: merging the overlay into the base yields the reference database. -/
theorem commit_into_root_refines (o : Overlay) (ref : Db) (h : Inv o ref) :
    (commitIntoRoot o).root = ref ∧ (commitIntoRoot o).staging = [] := by
  refine ⟨?_, rfl⟩
  funext pk
  have h' := inv_step o ref .commitIntoRoot trivial h
  apply SMap.ext _ _ (h'.rootWF pk) (h.refWF pk)
  intro k
  exact h'.abs pk k

def runOverlay (root : Db) (ops : List Op) : Overlay := ops.foldl step (new root)
def runRef (root : Db) (ops : List Op) : Db := ops.foldl refStep root

theorem inv_run (root : Db) (hroot : Db.WF root) (ops : List Op) (hops : ∀ op ∈ ops, OpWF op) :
    Inv (runOverlay root ops) (runRef root ops) := by
  unfold runOverlay runRef
  have : ∀ (o : Overlay) (ref : Db), Inv o ref → Inv (ops.foldl step o) (ops.foldl refStep ref) := by
    induction ops with
    | nil => intro o ref h; exact h
    | cons op t ih =>
      intro o ref h
      exact ih (fun x hx => hops x (List.mem_cons_of_mem _ hx)) _ _
        (inv_step o ref op (hops op (List.mem_cons_self ..)) h)
  exact this _ _ (inv_new root hroot)

/-- **C14.** For every base database and every sequence of commits to an overlay (substate sets,
deletes, whole-partition resets, in any order, with merges into the base in between), every read
and every ordered partition listing — from the start or from any cursor — through the overlay
equals that of the base database with the same commits applied, and merging the overlay into the
base yields exactly that database. -/
theorem overlay_behaves_like_committed_database (root : Db) (hroot : Db.WF root) (ops : List Op)
    (hops : ∀ op ∈ ops, OpWF op) :
    (∀ pk k, get (runOverlay root ops) pk k = (runRef root ops).get pk k) ∧
    (∀ pk from?, list (runOverlay root ops) pk from? = (runRef root ops).list pk from?) ∧
    (commitIntoRoot (runOverlay root ops)).root = runRef root ops := by
  have h := inv_run root hroot ops hops
  exact ⟨get_refines _ _ h, list_refines _ _ h, (commit_into_root_refines _ _ h).1⟩

/-- non-vacuity: a sorted base, a reset followed by a delta on the same partition and a delta on
another one -/
example : Db.WF (Db.empty.set (0, 0) [(1, 10), (4, 40)]) ∧
    (∀ op ∈ [Op.commit [(0, [(0, .reset [(2, 20)])])], Op.commit [(0, [(0, .delta [(2, none), (3, some 30)]), (1, .delta [(9, some 9)])])]], OpWF op) := by
  constructor
  · intro pk; unfold Db.set Db.empty; split <;> simp [SMap.Sorted]
  · intro op hop
    simp at hop
    rcases hop with rfl | rfl
    · intro x hx; simp at hx; subst hx; simp [IMap.Nodup]
    · intro x hx; simp at hx; subst hx; simp [IMap.Nodup]

end Radix.Overlay
