/-
C22 — Typed SBOR codecs agree with their generated schemas  (partial).

Property theorems only. Models: `Model/SborSchema.lean` (schemas and `validate`, transcribing the typed
traverser + payload validator), `Model/SborTyped.lean` (a universe of Rust type expressions with the
value-level image of their typed codecs and the specification `describes` of their generated schema).

Full statement: for every SBOR-derived type `T`, every `x : T`: `encode x` validates against
`schema(T)` and decodes back to `x`; every payload the typed decoder of `T` accepts validates against
`schema(T)`.

Proved here (`_partial` = for the type universe `Ty`, relative to the specification `describes` of what
`Describe` generates): `encoded_validates_partial`, `typed_decode_validates_partial`. What is missing for
the full statement: the derive macros and the `Describe`/`Encode`/`Decode` impls of the engine types are
not modelled; that real generated schemas satisfy `describes` (op `desc`) and that real typed codecs
agree with the real validator (op `tval`, oracle keys `typed-accepts-schema-rejects`, `encoded-rejected`,
`typed-roundtrip`) is explored on the implementation by the correspondence/oracle run.
`decode (encode x) = x` at the untyped level is C20.
-/
import RadixModel.Lemmas.SborTyped
import RadixModel.Lemmas.SchemaGen

namespace Radix.Schema
open Radix.Sbor

/-- **encoded_validates (type universe).** If type id `tid` of schema `S` describes the type
expression `ty` (the shape `Describe` must generate: same structure, no validation), then every value
the typed codec of `ty` produces validates against `(S, tid)`. Holds for every environment and every
schema, whatever else `S` contains and however its local types are ordered. -/
theorem encoded_validates_partial (env : Env) (S : Schema) (ty : Ty) (tid : TypeId) (v : SV)
    (hd : describes env S tid ty = true) (hv : inhabits ty v = true) : validate env S tid v = .ok () :=
  typed_validates ty tid v hd hv

/-- **typed_decode_validates (type universe), payload level.** Every payload whose decoded value the
typed decoder of `ty` accepts is accepted by `validate_payload_against_schema` (every depth limit). -/
theorem typed_decode_validates_partial (env : Env) (S : Schema) (ty : Ty) (tid : TypeId) (depth : Nat)
    (payload : Bytes) (v : SV) (hd : describes env S tid ty = true)
    (hdec : decodePayload scrypto depth payload = .ok v) (hv : inhabits ty v = true) :
    validatePayload env S tid depth payload = .ok := by
  simp [validatePayload, hdec, typed_validates ty tid v hd hv]

/-- The validator accepts only decodable payloads, and accepts exactly when the decoded value passes
the typed walk. -/
theorem accepted_iff (env : Env) (S : Schema) (tid : TypeId) (depth : Nat) (payload : Bytes) :
    validatePayload env S tid depth payload = .ok ↔
      ∃ v, decodePayload scrypto depth payload = .ok v ∧ validate env S tid v = .ok () := by
  unfold validatePayload
  cases hd : decodePayload scrypto depth payload with
  | error e => simp
  | ok v =>
    cases hv : validate env S tid v with
    | error e => simp [hv]
    | ok u => cases u; simp [hv]

/-- Every value validates against the well-known `Any` type of the current tree, in every schema. -/
theorem any_accepts_everything (S : Schema) (v : SV) : validate genEnv S (anyTid genEnv) v = .ok () :=
  validate_any genEnv_ok S v

/-- The well-known table of the current tree describes the primitive types at the ids the `Describe`
impls of the primitives use (so `describes` can be met with an empty schema). -/
example : describes genEnv ⟨[], [], []⟩ (.wk 7) (.int .u8) = true := by decide
example : describes genEnv ⟨[], [], []⟩ (.wk 12) .string = true := by decide
example : describes genEnv ⟨[], [], []⟩ (.wk 0x41) (.array (.int .u8)) = true := by decide
example : describes genEnv ⟨[], [], []⟩ (.wk 0x42) .unit = true := by decide

/-- Non-vacuity: `Option<(u8, String)>` described by a two-type schema, with an inhabitant. -/
example :
    let S : Schema := ⟨[.enum [(0, []), (1, [.loc 1])], .tuple [.wk 7, .wk 12]],
                       [⟨some 1, .none⟩, ⟨none, .none⟩], [.none, .none]⟩
    describes genEnv S (.loc 0) (.option (.pair (.int .u8) .string)) = true ∧
      inhabits (.option (.pair (.int .u8) .string)) (.enum 1 [.tuple [.int .u8 5, .string [0x61]]]) = true := by
  decide

end Radix.Schema
