/-
C27 — history (NOT part of the verdict; not listed in `lean_props`).

Before the repair `fix: reject non-digit characters in the fractional part of Decimal/PreciseDecimal
text` (/repo commit 42bbb10c68) the fractional part was handed to the *signed* integer parser without
the all-ASCII-digits test. `fromStrOld` is the transcription of that code: `fromStr` of
Model/DecimalText.lean minus the line `if !(v1.all isDigitByte) then .err .invalidDigit`.
The kernel evaluates it on the witnesses of DESIGN §5: the old code accepted the non-numerals "1.-5"
and "1.+5" (as 0.95 and 1.05); the current model rejects both.
-/
import RadixModel.Model.DecimalText

namespace Radix.DecimalText

def fromStrOld (bits scale : Nat) (s : List Nat) : Res :=
  match splitDot s with
  | [] => .panic
  | v0 :: tl =>
    if tl.length > 1 then .err .moreThanOnePoint
    else
      match parseInt bits v0 with
      | .error e => .err (mapIErr .emptyIntegralPart e)
      | .ok ip =>
        match chkI bits (ip * (10 : Int) ^ scale) with
        | none => .err .overflow
        | some su =>
          match tl with
          | [] => .ok su
          | v1 :: _ =>
            let len32 := v1.length % 2 ^ 32
            if scale < len32 then .err .tooManyPlaces
            else
              let sc := scale - len32
              match parseInt bits v1 with
              | .error e => .err (mapIErr .emptyFractionalPart e)
              | .ok fp =>
                match chkI bits ((10 : Int) ^ sc) with
                | none => .panic
                | some p =>
                  match chkI bits (fp * p) with
                  | none => .panic
                  | some fs =>
                    if ip < 0 ∨ v0.head? = some 45 then
                      match chkI bits (su - fs) with
                      | none => .err .overflow
                      | some r => .ok r
                    else
                      match chkI bits (su + fs) with
                      | none => .err .overflow
                      | some r => .ok r

/-- "1.-5" was accepted as 0.95 -/
theorem old_accepts_one_dot_minus_five :
    fromStrOld 192 18 [49, 46, 45, 53] = .ok 950000000000000000 := by decide +kernel

/-- "1.+5" was accepted as 1.05 -/
theorem old_accepts_one_dot_plus_five :
    fromStrOld 192 18 [49, 46, 43, 53] = .ok 1050000000000000000 := by decide +kernel

/-- same for PreciseDecimal -/
theorem old_accepts_one_dot_minus_five_pdec :
    fromStrOld 256 36 [49, 46, 45, 53] = .ok 950000000000000000000000000000000000 := by decide +kernel

/-- the current code rejects both -/
theorem new_rejects_one_dot_minus_five : fromStr 192 18 [49, 46, 45, 53] = .err .invalidDigit := by
  decide +kernel

theorem new_rejects_one_dot_plus_five : fromStr 192 18 [49, 46, 43, 53] = .err .invalidDigit := by
  decide +kernel

end Radix.DecimalText
