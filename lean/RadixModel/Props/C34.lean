import RadixModel.Model.TxValidation
import RadixModel.Lemmas.TxValidation
/-
C34 — Transaction validation enforces exactly the configured limits.

Every validator of the model (a transcription of `radix-transactions/src/validation/*`, tied to the
real functions by the `c34` correspondence stream) is characterised by an `accept_iff` theorem:
accepted ⇔ the conjunction of the documented inequalities, each at its exact boundary, for *every*
configuration (not only the two tables in use) and every input. The overall validity window of a V2
transaction is proved to be exactly the intersection of the windows of all its intents, non-empty,
and no longer than `max_epoch_range`.
-/
namespace Radix.TxValidation

/-! ### V1 header, V2 transaction header -/

/-- **`accept_iff` (header V1)**: network matches (if one is required), `start < end`,
`end ≤ start + max_epoch_range` computed without `u64` overflow, `min_tip ≤ tip ≤ max_tip`. -/
theorem headerV1_accept_iff (c : Config) (req : Option Nat) (h : HeaderV1) :
    validateHeaderV1 c req h = .ok () ↔
      NetOk req h.net ∧ EpochsOk c h.startEpoch h.endEpoch ∧
      c.minTipPct ≤ h.tipPct ∧ h.tipPct ≤ c.maxTipPct := by
  unfold validateHeaderV1
  cases hc : checkNetEpoch c req h.net h.startEpoch h.endEpoch with
  | error e =>
    have : ¬ (NetOk req h.net ∧ EpochsOk c h.startEpoch h.endEpoch) := by
      rw [← checkNetEpoch_ok_iff, hc]; simp
    refine ⟨fun h => (by cases h), ?_⟩
    rintro ⟨h1, h2, _⟩
    exact absurd ⟨h1, h2⟩ this
  | ok u =>
    have hne := (checkNetEpoch_ok_iff c req h.net h.startEpoch h.endEpoch).mp hc
    simp only
    by_cases ct : h.tipPct < c.minTipPct ∨ h.tipPct > c.maxTipPct
    · rw [if_pos ct]
      refine ⟨fun h => (by cases h), ?_⟩
      rintro ⟨_, _, h3, h4⟩; omega
    · rw [if_neg ct]
      simp only [true_iff]
      exact ⟨hne.1, hne.2, by omega, by omega⟩

/-- the rejection reason follows the order of the checks: network, epoch range, tip -/
theorem headerV1_reject_reason (c : Config) (req : Option Nat) (h : HeaderV1) :
    (validateHeaderV1 c req h = .error .invalidNetwork ↔ ¬ NetOk req h.net) ∧
    (validateHeaderV1 c req h = .error .invalidEpochRange ↔
      NetOk req h.net ∧ ¬ EpochsOk c h.startEpoch h.endEpoch) ∧
    (validateHeaderV1 c req h = .error .invalidTip ↔
      NetOk req h.net ∧ EpochsOk c h.startEpoch h.endEpoch ∧
      (h.tipPct < c.minTipPct ∨ c.maxTipPct < h.tipPct)) := by
  obtain ⟨e1, e2⟩ := checkNetEpoch_error c req h.net h.startEpoch h.endEpoch
  have e0 := checkNetEpoch_ok_iff c req h.net h.startEpoch h.endEpoch
  unfold validateHeaderV1
  cases hc : checkNetEpoch c req h.net h.startEpoch h.endEpoch with
  | error e =>
    rw [hc] at e0 e1 e2
    have hno : ¬ (NetOk req h.net ∧ EpochsOk c h.startEpoch h.endEpoch) := by
      intro hh; have := e0.mpr hh; cases this
    simp only
    refine ⟨e1, e2, ?_⟩
    constructor
    · intro hh
      cases e with
      | invalidTip =>
        -- `checkNetEpoch` never returns `invalidTip`
        exfalso
        unfold checkNetEpoch at hc
        split at hc <;> (try cases hc)
        split at hc <;> (try cases hc)
        split at hc <;> (try cases hc)
        split at hc <;> cases hc
      | _ => cases hh
    · rintro ⟨h1, h2, _⟩; exact absurd ⟨h1, h2⟩ hno
  | ok u =>
    rw [hc] at e0 e1 e2
    have hne := e0.mp rfl
    simp only
    by_cases ct : h.tipPct < c.minTipPct ∨ h.tipPct > c.maxTipPct
    · rw [if_pos ct]
      refine ⟨⟨fun hh => (by cases hh), fun hh => absurd hne.1 hh⟩,
              ⟨fun hh => (by cases hh), fun hh => absurd hne.2 hh.2⟩, ?_⟩
      simp only [true_iff]
      exact ⟨hne.1, hne.2, by omega⟩
    · rw [if_neg ct]
      refine ⟨⟨fun hh => (by cases hh), fun hh => absurd hne.1 hh⟩,
              ⟨fun hh => (by cases hh), fun hh => absurd hne.2 hh.2⟩, ?_⟩
      refine ⟨fun hh => (by cases hh), ?_⟩
      rintro ⟨_, _, h3⟩; omega

/-- **`accept_iff` (transaction header V2)**: `min_tip_basis_points ≤ tip ≤ max_tip_basis_points` -/
theorem txHeaderV2_accept_iff (c : Config) (tip : Nat) :
    validateTxHeaderV2 c tip = .ok () ↔ c.minTipBps ≤ tip ∧ tip ≤ c.maxTipBps := by
  unfold validateTxHeaderV2
  by_cases ct : tip < c.minTipBps ∨ tip > c.maxTipBps
  · rw [if_pos ct]
    refine ⟨fun h => (by cases h), ?_⟩
    rintro ⟨h3, h4⟩; omega
  · rw [if_neg ct]
    simp only [true_iff]; omega

example : validateHeaderV1 cuttlefish (some 242)
    { net := 242, startEpoch := 100, endEpoch := 100 + cuttlefish.maxEpochRange, tipPct := 0 } = .ok () := by decide
example : validateHeaderV1 cuttlefish (some 242)
    { net := 242, startEpoch := 100, endEpoch := 101 + cuttlefish.maxEpochRange, tipPct := 0 } = .error .invalidEpochRange := by decide
example : validateHeaderV1 cuttlefish (some 242)
    { net := 242, startEpoch := U64MAX - 5, endEpoch := U64MAX, tipPct := 0 } = .error .invalidEpochRange := by decide

/-! ### Intent headers V2 and the overall validity window -/

/-- **`accept_iff` (intent headers V2, folded over the whole transaction)**: the headers of all
intents are accepted, starting from aggregation `a`, iff each header is within the limits (network,
non-empty epoch window no longer than `max_epoch_range`, non-empty timestamp window) and — when there
is at least one intent — the epoch windows (and `a`) have a common epoch and the timestamp windows
(and `a`) have a common instant. -/
theorem intentHeaders_accept_iff (c : Config) (req : Option Nat) (hs : List IntentHeaderV2) (i : Nat) (a : Agg) :
    (∃ a', foldHeaders c req i a hs = .ok a') ↔
      (∀ h ∈ hs, HeaderOk c req h) ∧
      (hs ≠ [] → (∃ x, inAgg a x ∧ ∀ h ∈ hs, inHeader h x) ∧ (∃ t, tsInAgg a t ∧ ∀ h ∈ hs, tsInHeader h t)) := by
  induction hs generalizing i a with
  | nil => simp [foldHeaders]
  | cons h hs ih =>
    unfold foldHeaders
    constructor
    · rintro ⟨a', hf⟩
      cases hv : validateIntentHeaderV2 c req h a with
      | error e => simp [hv] at hf
      | ok a1 =>
        simp only [hv] at hf
        obtain ⟨hok, ⟨x, hx1, hx2⟩, ⟨t, ht1, ht2⟩, ha1⟩ := (validateIntentHeaderV2_ok_iff c req h a a1).mp hv
        obtain ⟨hall, hne⟩ := (ih (i + 1) a1).mp ⟨a', hf⟩
        refine ⟨?_, fun _ => ?_⟩
        · intro h' hm
          rcases List.mem_cons.mp hm with rfl | hm
          · exact hok
          · exact hall h' hm
        · by_cases hnil : hs = []
          · subst hnil
            exact ⟨⟨x, hx1, by simpa using hx2⟩, ⟨t, ht1, by simpa using ht2⟩⟩
          · obtain ⟨⟨x', hx1', hx2'⟩, ⟨t', ht1', ht2'⟩⟩ := hne hnil
            rw [ha1, inAgg_step] at hx1'
            rw [ha1, tsInAgg_step] at ht1'
            refine ⟨⟨x', hx1'.1, ?_⟩, ⟨t', ht1'.1, ?_⟩⟩
            · intro h' hm
              rcases List.mem_cons.mp hm with rfl | hm
              · exact hx1'.2
              · exact hx2' h' hm
            · intro h' hm
              rcases List.mem_cons.mp hm with rfl | hm
              · exact ht1'.2
              · exact ht2' h' hm
    · rintro ⟨hall, hne⟩
      obtain ⟨⟨x, hx1, hx2⟩, ⟨t, ht1, ht2⟩⟩ := hne (by simp)
      have hstep := (validateIntentHeaderV2_ok_iff c req h a _).mpr
        ⟨hall h (List.mem_cons_self ..), ⟨x, hx1, hx2 h (List.mem_cons_self ..)⟩,
         ⟨t, ht1, ht2 h (List.mem_cons_self ..)⟩, rfl⟩
      rw [hstep]
      simp only
      apply (ih (i + 1) _).mpr
      refine ⟨fun h' hm => hall h' (List.mem_cons_of_mem _ hm), fun _ => ⟨⟨x, ?_, ?_⟩, ⟨t, ?_, ?_⟩⟩⟩
      · rw [inAgg_step]; exact ⟨hx1, hx2 h (List.mem_cons_self ..)⟩
      · exact fun h' hm => hx2 h' (List.mem_cons_of_mem _ hm)
      · rw [tsInAgg_step]; exact ⟨ht1, ht2 h (List.mem_cons_self ..)⟩
      · exact fun h' hm => ht2 h' (List.mem_cons_of_mem _ hm)

/-- the aggregation after accepting all headers is the intersection of everything seen -/
theorem foldHeaders_is_intersection (c : Config) (req : Option Nat) (hs : List IntentHeaderV2) (i : Nat) (a a' : Agg)
    (hf : foldHeaders c req i a hs = .ok a') :
    (∀ x, inAgg a' x ↔ inAgg a x ∧ ∀ h ∈ hs, inHeader h x) ∧
    (∀ t, tsInAgg a' t ↔ tsInAgg a t ∧ ∀ h ∈ hs, tsInHeader h t) ∧
    a'.totalRefs = a.totalRefs := by
  induction hs generalizing i a with
  | nil => simp only [foldHeaders, Except.ok.injEq] at hf; subst hf; simp
  | cons h hs ih =>
    unfold foldHeaders at hf
    cases hv : validateIntentHeaderV2 c req h a with
    | error e => simp [hv] at hf
    | ok a1 =>
      simp only [hv] at hf
      obtain ⟨_, _, _, ha1⟩ := (validateIntentHeaderV2_ok_iff c req h a a1).mp hv
      obtain ⟨r1, r2, r3⟩ := ih (i + 1) a1 hf
      refine ⟨fun x => ?_, fun t => ?_, ?_⟩
      · rw [r1 x, ha1, inAgg_step]
        simp only [List.mem_cons, forall_eq_or_imp]
        exact ⟨fun ⟨⟨p, q⟩, r⟩ => ⟨p, q, r⟩, fun ⟨p, q, r⟩ => ⟨⟨p, q⟩, r⟩⟩
      · rw [r2 t, ha1, tsInAgg_step]
        simp only [List.mem_cons, forall_eq_or_imp]
        exact ⟨fun ⟨⟨p, q⟩, r⟩ => ⟨p, q, r⟩, fun ⟨p, q, r⟩ => ⟨⟨p, q⟩, r⟩⟩
      · rw [r3, ha1]

/-- **`overall_range_is_intersection_and_nonempty`**: for an accepted V2 transaction (headers of the
root intent and all subintents, `u64` epochs) the overall validity range returned by validation
* contains exactly the epochs that lie in the window of *every* intent, and exactly the instants
  allowed by every intent's timestamp bounds,
* is non-empty and no longer than `max_epoch_range`,
* and every intent's expiry (`end_epoch_exclusive`) is at or after the overall end and at most
  `max_epoch_range` after the overall start — the fact the replay-protection ring (C07) relies on. -/
theorem overall_range_is_intersection_and_nonempty (c : Config) (req : Option Nat)
    (hs : List IntentHeaderV2) (hne : hs ≠ []) (hu64 : ∀ h ∈ hs, h.endEpoch ≤ U64MAX) (a : Agg) (o : Overall)
    (hf : foldHeaders c req 0 Agg.start hs = .ok a) (ho : a.finalize c = .ok o) :
    (∀ x, (o.startEpoch ≤ x ∧ x < o.endEpoch) ↔ ∀ h ∈ hs, inHeader h x) ∧
    (∀ t, (loOk o.startTs t ∧ hiOk o.endTs t) ↔ ∀ h ∈ hs, tsInHeader h t) ∧
    o.startEpoch < o.endEpoch ∧ o.endEpoch ≤ o.startEpoch + c.maxEpochRange ∧
    (∀ h ∈ hs, h.startEpoch ≤ o.startEpoch ∧ o.endEpoch ≤ h.endEpoch ∧
      h.endEpoch ≤ o.startEpoch + c.maxEpochRange) := by
  obtain ⟨r1, r2, _⟩ := foldHeaders_is_intersection c req hs 0 Agg.start a hf
  obtain ⟨hall, hcommon⟩ := (intentHeaders_accept_iff c req hs 0 Agg.start).mp ⟨a, hf⟩
  obtain ⟨⟨x0, _, hx0⟩, _⟩ := hcommon hne
  have hoa : o.startEpoch = a.startEpoch ∧ o.endEpoch = a.endEpoch ∧ o.startTs = a.startTs ∧ o.endTs = a.endTs := by
    unfold Agg.finalize at ho
    split at ho
    · cases ho
    · simp only [Except.ok.injEq] at ho; subst ho; exact ⟨rfl, rfl, rfl, rfl⟩
  obtain ⟨o1, o2, o3, o4⟩ := hoa
  obtain ⟨h0, hm0⟩ := List.exists_mem_of_ne_nil hs hne
  have hstart : ∀ x, inAgg Agg.start x ↔ x < U64MAX := by
    intro x; simp [inAgg, Agg.start]
  have hts0 : ∀ t, tsInAgg Agg.start t := by
    intro t; simp [tsInAgg, Agg.start, loOk, hiOk]
  have hin : ∀ x, (o.startEpoch ≤ x ∧ x < o.endEpoch) ↔ ∀ h ∈ hs, inHeader h x := by
    intro x
    rw [o1, o2]
    have := r1 x
    unfold inAgg at this
    rw [this]
    constructor
    · exact fun h => h.2
    · intro h
      refine ⟨?_, h⟩
      have := (h h0 hm0).2
      have := hu64 h0 hm0
      simp only [Agg.start]; omega
  have hnonempty : o.startEpoch < o.endEpoch := by
    have := (hin x0).mpr hx0
    omega
  have hsub : ∀ h ∈ hs, h.startEpoch ≤ o.startEpoch ∧ o.endEpoch ≤ h.endEpoch := by
    intro h hm
    have p1 := (hin o.startEpoch).mp ⟨Nat.le_refl _, hnonempty⟩ h hm
    have p2 := (hin (o.endEpoch - 1)).mp ⟨by omega, by omega⟩ h hm
    unfold inHeader at p1 p2
    omega
  refine ⟨hin, ?_, hnonempty, ?_, ?_⟩
  · intro t
    rw [o3, o4]
    have := r2 t
    unfold tsInAgg at this
    rw [this]
    exact ⟨fun h => h.2, fun h => ⟨hts0 t, h⟩⟩
  · have := hsub h0 hm0
    have := (hall h0 hm0).2.1
    unfold EpochsOk at this
    omega
  · intro h hm
    have := hsub h hm
    have := (hall h hm).2.1
    unfold EpochsOk at this
    omega

/-- two intents with windows `[10,20)` and `[15,30)`: accepted, overall window `[15,20)` -/
example : (foldHeaders cuttlefish none 0 Agg.start
    [{ net := 1, startEpoch := 10, endEpoch := 20, minTs := none, maxTs := some 50 },
     { net := 1, startEpoch := 15, endEpoch := 30, minTs := some 7, maxTs := none }]).toOption.map
      (fun a => (a.startEpoch, a.endEpoch, a.startTs, a.endTs)) = some (15, 20, some 7, some 50) := by decide
/-- touching windows `[10,20)` and `[20,30)` have no common epoch: rejected at the second intent -/
example : foldHeaders cuttlefish none 0 Agg.start
    [{ net := 1, startEpoch := 10, endEpoch := 20, minTs := none, maxTs := none },
     { net := 1, startEpoch := 20, endEpoch := 30, minTs := none, maxTs := none }]
      = .error (1, .noValidEpochRangeAcrossAllIntents) := by decide

/-! ### Messages -/

/-- what the documentation of the message limits says -/
def MessageOk (v : MsgCfg) : Message → Prop
  | .none => True
  | .plaintext mime msg => mime ≤ v.maxMime ∧ msg ≤ v.maxPlaintext
  | .encrypted enc decs =>
    enc ≤ v.maxEncrypted ∧ decs ≠ [] ∧ (∀ d ∈ decs, d.val = d.key ∧ 0 < d.count) ∧
    decSum decs ≤ v.maxDecryptors

/-- **`accept_iff` (messages V1 and V2)** -/
theorem message_accept_iff (v : MsgCfg) (m : Message) :
    validateMessage v m = .ok () ↔ MessageOk v m := by
  cases m with
  | none => simp [validateMessage, MessageOk]
  | plaintext mime msg =>
    simp only [validateMessage, MessageOk]
    by_cases c1 : mime > v.maxMime
    · rw [if_pos c1]
      exact ⟨fun h => (by cases h), fun h => by omega⟩
    · rw [if_neg c1]
      by_cases c2 : msg > v.maxPlaintext
      · rw [if_pos c2]
        exact ⟨fun h => (by cases h), fun h => by omega⟩
      · rw [if_neg c2]
        simp only [true_iff]; omega
  | encrypted enc decs =>
    simp only [validateMessage, MessageOk]
    by_cases c1 : enc > v.maxEncrypted
    · rw [if_pos c1]
      exact ⟨fun h => (by cases h), fun h => by omega⟩
    · rw [if_neg c1]
      by_cases c2 : decs.isEmpty = true
      · rw [if_pos c2]
        refine ⟨fun h => (by cases h), fun h => ?_⟩
        exact absurd (List.isEmpty_iff.mp c2) h.2.1
      · rw [if_neg c2]
        have hne : decs ≠ [] := fun h => c2 (List.isEmpty_iff.mpr h)
        cases hl : decLoop 0 decs with
        | error e =>
          simp only
          refine ⟨fun h => (by cases h), fun h => ?_⟩
          have := (decLoop_ok_iff 0 decs (0 + decSum decs)).mpr ⟨h.2.2.1, rfl⟩
          rw [hl] at this; cases this
        | ok total =>
          obtain ⟨hall, ht⟩ := (decLoop_ok_iff 0 decs total).mp hl
          simp only
          by_cases c3 : total > v.maxDecryptors
          · rw [if_pos c3]
            refine ⟨fun h => (by cases h), fun h => ?_⟩
            have := h.2.2.2; omega
          · rw [if_neg c3]
            simp only [true_iff]
            exact ⟨by omega, hne, hall, by omega⟩

example : validateMessage cuttlefish.msg (.plaintext 128 2048) = .ok () := by decide
example : validateMessage cuttlefish.msg (.plaintext 129 0) = .error (.mimeTooLong 129 128) := by decide
example : validateMessage cuttlefish.msg (.encrypted 2076 [⟨.ed25519, .ed25519, 12⟩, ⟨.secp256k1, .secp256k1, 8⟩]) = .ok () := by decide
example : validateMessage cuttlefish.msg (.encrypted 2076 [⟨.ed25519, .ed25519, 12⟩, ⟨.secp256k1, .secp256k1, 9⟩])
    = .error (.tooManyDecryptors 21 20) := by decide

/-! ### Counts: references, instructions, signatures -/

/-- **`accept_iff` (references)**: every intent's count is within `max_references_per_intent` and the
(saturating) total within `max_total_references`. -/
theorem references_accept_iff (c : Config) (cs : List Nat) :
    (∃ a o, foldRefs c 0 Agg.start cs = .ok a ∧ a.finalize c = .ok o) ↔
      (∀ n ∈ cs, n ≤ c.maxRefsPerIntent) ∧ min (natSum cs) USIZEMAX ≤ c.maxTotalRefs := by
  have h0 : Agg.start.totalRefs ≤ USIZEMAX := by simp [Agg.start]
  constructor
  · rintro ⟨a, o, hf, ho⟩
    obtain ⟨hall, ha⟩ := (foldRefs_ok_iff c 0 Agg.start cs a h0).mp hf
    refine ⟨hall, ?_⟩
    unfold Agg.finalize at ho
    split at ho
    · cases ho
    · rename_i hle
      rw [ha] at hle
      simp only [Agg.start, Nat.zero_add] at hle
      omega
  · rintro ⟨hall, hsum⟩
    refine ⟨{ Agg.start with totalRefs := min (Agg.start.totalRefs + natSum cs) USIZEMAX },
      { startEpoch := 0, endEpoch := U64MAX, startTs := none, endTs := none },
      (foldRefs_ok_iff c 0 Agg.start cs _ h0).mpr ⟨hall, rfl⟩, ?_⟩
    unfold Agg.finalize
    simp only [Agg.start, Nat.zero_add]
    rw [if_neg (by omega)]

/-- **`accept_iff` (instruction count)** -/
theorem instructions_accept_iff (c : Config) (n : Nat) :
    tooManyInstructions c n = false ↔ n ≤ c.maxInstructions := by
  simp [tooManyInstructions]

/-- **`accept_iff` (signature counts)**: the root intent and every subintent carry at most
`max_signer_signatures_per_intent` signatures, and all of them plus the notary signature are at most
`max_total_signature_validations`; the reported total is their sum. -/
theorem signatures_accept_iff (c : Config) (rootSigs notary : Nat) (subs : List Nat) (t : Nat) :
    (∃ t0, sigPending c rootSigs notary subs = .ok t0 ∧ sigTotalCheck c t0 = .ok t) ↔
      rootSigs ≤ c.maxSignerSigsPerIntent ∧ (∀ n ∈ subs, n ≤ c.maxSignerSigsPerIntent) ∧
      t = rootSigs + notary + natSum subs ∧ t ≤ c.maxTotalSigValidations := by
  unfold sigPending sigTotalCheck
  by_cases c1 : rootSigs > c.maxSignerSigsPerIntent
  · rw [if_pos c1]
    constructor
    · rintro ⟨t0, h, _⟩; cases h
    · rintro ⟨h, _⟩; omega
  · rw [if_neg c1]
    constructor
    · rintro ⟨t0, h1, h2⟩
      obtain ⟨hall, ht0⟩ := (sigSubs_ok_iff c 0 _ subs t0).mp h1
      split at h2
      · cases h2
      · simp only [Except.ok.injEq] at h2
        subst h2
        exact ⟨by omega, hall, ht0, by omega⟩
    · rintro ⟨_, hall, ht, hle⟩
      refine ⟨t, (sigSubs_ok_iff c 0 _ subs t).mpr ⟨hall, ht⟩, ?_⟩
      rw [if_neg (by omega)]

example : (sigPending cuttlefish 16 1 [16, 16, 15]).bind (sigTotalCheck cuttlefish) = .ok 64 := by decide
example : (sigPending cuttlefish 16 1 [16, 16, 16]).bind (sigTotalCheck cuttlefish)
    = .error { loc := .across, total := 65, limit := 64 } := by decide
example : sigPending cuttlefish 16 1 [17] = .error { loc := .nonRoot 0, total := 17, limit := 16 } := by decide

/-! ### The configuration tables of the compiled tree (`Generated/C34`) -/

/-- Both tables in use are satisfiable: their lower limits do not exceed their upper limits and the
epoch window limit is positive, so every check above can be passed (a table edited into an
unsatisfiable state breaks this obligation). -/
theorem config_tables_satisfiable :
    (babylon.minTipPct ≤ babylon.maxTipPct ∧ babylon.minTipBps ≤ babylon.maxTipBps ∧
      0 < babylon.maxEpochRange ∧ babylon.maxEpochRange < U64MAX) ∧
    (cuttlefish.minTipPct ≤ cuttlefish.maxTipPct ∧ cuttlefish.minTipBps ≤ cuttlefish.maxTipBps ∧
      0 < cuttlefish.maxEpochRange ∧ cuttlefish.maxEpochRange < U64MAX ∧
      0 < cuttlefish.maxInstructions ∧ 0 < cuttlefish.maxTotalSigValidations ∧
      cuttlefish.maxSignerSigsPerIntent + 1 ≤ cuttlefish.maxTotalSigValidations) := by
  decide

/-- `latest()` is the cuttlefish table -/
theorem latest_is_cuttlefish :
    open Radix.Generated.C34 in
    [LATEST_MAX_SIGNER_SIGNATURES_PER_INTENT, LATEST_MAX_REFERENCES_PER_INTENT, LATEST_MIN_TIP_PERCENTAGE,
     LATEST_MAX_TIP_PERCENTAGE, LATEST_MAX_EPOCH_RANGE, LATEST_MAX_INSTRUCTIONS, LATEST_MSG_MAX_PLAINTEXT,
     LATEST_MSG_MAX_ENCRYPTED, LATEST_MSG_MAX_MIME, LATEST_MSG_MAX_DECRYPTORS, LATEST_V2_ALLOWED,
     LATEST_MIN_TIP_BASIS_POINTS, LATEST_MAX_TIP_BASIS_POINTS, LATEST_MAX_SUBINTENT_DEPTH,
     LATEST_MAX_TOTAL_SIGNATURE_VALIDATIONS, LATEST_MAX_TOTAL_REFERENCES] =
    [CUTTLEFISH_MAX_SIGNER_SIGNATURES_PER_INTENT, CUTTLEFISH_MAX_REFERENCES_PER_INTENT, CUTTLEFISH_MIN_TIP_PERCENTAGE,
     CUTTLEFISH_MAX_TIP_PERCENTAGE, CUTTLEFISH_MAX_EPOCH_RANGE, CUTTLEFISH_MAX_INSTRUCTIONS, CUTTLEFISH_MSG_MAX_PLAINTEXT,
     CUTTLEFISH_MSG_MAX_ENCRYPTED, CUTTLEFISH_MSG_MAX_MIME, CUTTLEFISH_MSG_MAX_DECRYPTORS, CUTTLEFISH_V2_ALLOWED,
     CUTTLEFISH_MIN_TIP_BASIS_POINTS, CUTTLEFISH_MAX_TIP_BASIS_POINTS, CUTTLEFISH_MAX_SUBINTENT_DEPTH,
     CUTTLEFISH_MAX_TOTAL_SIGNATURE_VALIDATIONS, CUTTLEFISH_MAX_TOTAL_REFERENCES] := by
  decide

end Radix.TxValidation
