/-
C28 — Addresses and identifiers have lossless, network-bound text forms.

Property theorems only.  Model: `RadixModel/Model/AddrText.lean`; lemmas:
`RadixModel/Lemmas/AddrText.lean`, `RadixModel/Lemmas/NfIdText.lean`.

Bech32m (the `bech32` crate) is a parameter `B : Codec` of every address theorem, assumed `Lawful`
(decode ∘ write = id on checked lower-case HRPs; shape `hrp ++ "1" ++ charset*`).  The EntityType table
and HRP prefixes are the regenerated `Generated/C28.lean`; the side conditions on them (`every prefix has
a lower-case letter`, `no ':'`, class tables) are decided on every build.

PARTIAL (what is not a theorem): the Bech32m checksum algebra and base-32 regrouping are trusted
(parameter `B`; the concrete Lean transcription used by the driver is validated by correspondence
only); "parsing never panics" is a theorem for the Radix-written parsers (`parseLocalId`,
`parseGlobalId` given `B`), while panics inside the `bech32` crate are only searched for by the oracle.
-/
import RadixModel.Model.AddrText
import RadixModel.Lemmas.AddrText
import RadixModel.Lemmas.NfIdText
import RadixModel.Lemmas.NfIdParse
import RadixModel.Lemmas.NfIdBin
import RadixModel.Lemmas.NfGlobalId

namespace Radix.AddrText
open Radix.Bech32 (Str Bytes Variant Case checkHrp lowerStr utf8Len u8len isAsciiLower)

/-- The assumed behaviour of Bech32m. -/
structure Codec.Lawful (B : Codec) : Prop where
  /-- decoding what the writer wrote gives back the HRP, the Bech32m variant and the data -/
  roundtrip : ∀ hrp data, (checkHrp hrp = some .lower ∨ checkHrp hrp = some .none) →
    ∃ d5, B.decode (B.write hrp data) = some (hrp, d5, .bech32m) ∧ B.fromBase32 d5 = some data
  /-- the text is `hrp ++ "1" ++ body` with `body` over the Bech32 alphabet -/
  shape : ∀ hrp data, ∃ body, B.write hrp data = hrp ++ '1' :: body ∧ ∀ c ∈ body, c ∈ Radix.Bech32.CHARSET

/-- One instance of the assumed law, evaluated by the kernel on the concrete transcription of the
`bech32` crate that the driver uses (the universal statement is the trusted part). -/
example : (match bech32Codec.decode
      (bech32Codec.write ['r', 'e', 's', 'o', 'u', 'r', 'c', 'e', '_', 's', 'i', 'm'] [93, 0, 255]) with
    | some (h, d5, v) => h == ['r', 'e', 's', 'o', 'u', 'r', 'c', 'e', '_', 's', 'i', 'm'] && v == .bech32m &&
        bech32Codec.fromBase32 d5 == some [93, 0, 255]
    | none => false) = true := by decide +kernel

example : checkHrp ['r', 'e', 's', 'o', 'u', 'r', 'c', 'e', '_', 's', 'i', 'm'] = some .lower := by decide

/-! ## Addresses -/

/-- `addr_roundtrip`: whatever `encode` produces decodes, on the same network, to the same bytes
(and their entity byte). -/
theorem addr_roundtrip (B : Codec) (hB : B.Lawful) (sfx : Str) (data : Bytes) (t : Str)
    (h : encodeAddr B sfx data = .ok t) :
    ∃ b rest, data = b :: rest ∧ decodeAddr B sfx t = .ok (b, data) := by
  obtain ⟨b, rest, pre, hd, hp, hk, ht⟩ := encodeAddr_ok h
  obtain ⟨d5, h1, h2⟩ := hB.roundtrip (pre ++ sfx) data hk
  refine ⟨b, rest, hd, ?_⟩
  subst ht
  simp only [decodeAddr, h1, h2]
  subst hd
  simp [hp, hrpFor]

/-- the text form is injective: two byte strings with the same text on a network are equal -/
theorem addr_text_injective (B : Codec) (hB : B.Lawful) (sfx : Str) (d₁ d₂ : Bytes) (t : Str)
    (h₁ : encodeAddr B sfx d₁ = .ok t) (h₂ : encodeAddr B sfx d₂ = .ok t) : d₁ = d₂ := by
  obtain ⟨_, _, _, r₁⟩ := addr_roundtrip B hB sfx d₁ t h₁
  obtain ⟨_, _, _, r₂⟩ := addr_roundtrip B hB sfx d₂ t h₂
  rw [r₁] at r₂
  simp only [Except.ok.injEq, Prod.mk.injEq] at r₂
  exact r₂.2

/-- `wrong_network_rejected`: a text produced for one network suffix is rejected with `InvalidHrp`
by the decoder of every network with a different suffix. -/
theorem wrong_network_rejected (B : Codec) (hB : B.Lawful) (sfx₁ sfx₂ : Str) (hne : sfx₁ ≠ sfx₂)
    (data : Bytes) (t : Str) (h : encodeAddr B sfx₁ data = .ok t) :
    decodeAddr B sfx₂ t = .error .hrp := by
  obtain ⟨b, rest, pre, hd, hp, hk, ht⟩ := encodeAddr_ok h
  obtain ⟨d5, h1, h2⟩ := hB.roundtrip (pre ++ sfx₁) data hk
  subst ht
  simp only [decodeAddr, h1, h2]
  subst hd
  have : pre ++ sfx₁ ≠ pre ++ sfx₂ := fun e => hne (List.append_cancel_left e)
  simp [hp, hrpFor, this]

/-- `wrong_entity_rejected` (HRP vs entity byte): a well-formed Bech32m text whose HRP is not the one
belonging to the entity byte of its payload is rejected — in particular the HRP of another entity
class put in front of these bytes. -/
theorem wrong_entity_rejected (B : Codec) (hB : B.Lawful) (sfx hrp' : Str) (b : UInt8) (rest : Bytes)
    (pre : Str) (hp : entityPrefix b = some pre) (hne : hrp' ≠ pre ++ sfx)
    (hk : checkHrp hrp' = some .lower ∨ checkHrp hrp' = some .none) :
    decodeAddr B sfx (B.write hrp' (b :: rest)) = .error .hrp := by
  obtain ⟨d5, h1, h2⟩ := hB.roundtrip hrp' (b :: rest) hk
  simp [decodeAddr, h1, h2, hp, hrpFor, hne]

/-- `wrong_entity_rejected` (typed addresses): `XAddress::try_from_bech32` on an encoded address
answers `Some` exactly when the bytes are a node id whose entity byte is in X's class. -/
theorem typed_accepts_iff (cls : List Nat) (B : Codec) (hB : B.Lawful) (sfx : Str) (data : Bytes) (t : Str)
    (h : encodeAddr B sfx data = .ok t) :
    typedFromBech32 cls B sfx t = typedFromBytes cls data := by
  obtain ⟨b, rest, hd, hr⟩ := addr_roundtrip B hB sfx data t h
  simp [typedFromBech32, hr]

/-- a typed address never comes out with another length or class -/
theorem typed_sound (cls : List Nat) (B : Codec) (sfx text : Str) (raw : Bytes)
    (h : typedFromBech32 cls B sfx text = some raw) :
    raw.length = NODE_LEN ∧ ∃ b rest, raw = b :: rest ∧ b.toNat ∈ cls := by
  unfold typedFromBech32 at h
  split at h
  · rename_i e data _
    unfold typedFromBytes at h
    split at h
    · rename_i hl
      cases data with
      | nil => simp at h
      | cons b rest =>
        simp only at h
        split at h
        · rename_i hc
          cases h
          exact ⟨hl, b, rest, rfl, by simpa using hc⟩
        · exact absurd h (by simp)
    · exact absurd h (by simp)
  · exact absurd h (by simp)

/-- the typed classes of the regenerated tables: a resource text is not a package/internal address,
globals and internals are disjoint, every class consists of entity types. -/
theorem classes_disjoint :
    (∀ b ∈ Radix.Generated.C28.RESOURCE_BYTES, b ∉ Radix.Generated.C28.PACKAGE_BYTES ∧
        b ∉ Radix.Generated.C28.COMPONENT_BYTES ∧ b ∉ Radix.Generated.C28.INTERNAL_BYTES) ∧
    (∀ b ∈ Radix.Generated.C28.PACKAGE_BYTES, b ∉ Radix.Generated.C28.COMPONENT_BYTES ∧
        b ∉ Radix.Generated.C28.INTERNAL_BYTES) ∧
    (∀ b ∈ Radix.Generated.C28.GLOBAL_BYTES, b ∉ Radix.Generated.C28.INTERNAL_BYTES) ∧
    (∀ b ∈ Radix.Generated.C28.GLOBAL_BYTES ++ Radix.Generated.C28.INTERNAL_BYTES,
        b ∈ Radix.Generated.C28.ENTITY_TABLE.map (·.1)) ∧
    Radix.Generated.C28.HRP_IS_PREFIX_PLUS_SUFFIX = 1 ∧
    Radix.Generated.C28.TYPED_LENGTH_IS_NODE_ID_LENGTH = 1 := by decide

/-! ## Non-fungible local ids -/

/-- `nfid_text_roundtrip`: every value of the type (validated string, u64, 1..64 bytes, 32-byte RUID)
parses back from its `Display` text. -/
theorem nfid_text_roundtrip (id : LocalId) (hv : id.Valid) :
    parseLocalId (printLocalId id) = .ok id := by
  cases id with
  | str cs => exact parse_print_str cs hv
  | int n => exact parse_print_int n hv
  | bytes b => exact parse_print_bytes b hv
  | ruid b => exact parse_print_ruid b hv

example : (LocalId.str ['A', 'b', 'c', '_', '9']).Valid := by simp [LocalId.Valid]; decide
example : (LocalId.int 18446744073709551615).Valid := by simp [LocalId.Valid]
example : (LocalId.ruid (List.replicate 32 7)).Valid := by simp [LocalId.Valid]

/-- the text form is injective on valid ids -/
theorem nfid_text_injective (a b : LocalId) (ha : a.Valid) (hb : b.Valid)
    (h : printLocalId a = printLocalId b) : a = b := by
  have h1 := nfid_text_roundtrip a ha
  rw [h, nfid_text_roundtrip b hb] at h1
  cases h1; rfl

/-- `integer_only_canonical`: a text is accepted as an integer id `n` only if it is exactly
`#` + the canonical decimal of `n` + `#` (no sign, no leading zeros, no other digits), and `n` fits `u64`. -/
theorem integer_only_canonical (s : Str) (n : Nat) (h : parseLocalId s = .ok (.int n)) :
    s = printLocalId (.int n) ∧ n < 2 ^ 64 :=
  parseLocalId_int h

/-- the canonical-integer test accepts exactly the decimal prints of naturals -/
theorem canonical_iff_print (ds : Str) : isCanonicalInt ds = true ↔ ∃ n, ds = printNat n :=
  ⟨fun h => ⟨parseNat ds, (printNat_parseNat_of_canonical ds h).symm⟩,
   fun ⟨n, e⟩ => e ▸ isCanonicalInt_printNat n⟩

/-- `parse_total`: `NonFungibleLocalId::from_str` never panics (every slice is on a char boundary and in
range, every index is in range, the `[u8; 32]` conversion always fits) — for every string. -/
theorem parse_total (s : Str) : parseLocalId s ≠ .panic := parseLocalId_ne_panic s

/-- `nfid_bin_roundtrip`: the SBOR body of every valid id decodes to the id, consuming exactly the
body (arbitrary trailing bytes are left unread); encoding never hits the size-limit `unwrap`. -/
theorem nfid_bin_roundtrip (id : LocalId) (hv : id.Valid) :
    ∃ bs, encodeBody id = some bs ∧ ∀ rest, decodeBody (bs ++ rest) = .ok (id, rest) :=
  decodeBody_encodeBody id hv

/-- binary form injective on valid ids -/
theorem nfid_bin_injective (a b : LocalId) (ha : a.Valid) (hb : b.Valid)
    (h : encodeBody a = encodeBody b) : a = b := by
  obtain ⟨x, ex, rx⟩ := nfid_bin_roundtrip a ha
  obtain ⟨y, ey, ry⟩ := nfid_bin_roundtrip b hb
  rw [ex, ey] at h
  cases h
  have := rx []
  rw [ry []] at this
  cases this; rfl

/-! ## Non-fungible global ids -/

/-- `gid_roundtrip`: for a network whose suffix contains no ':', the canonical string of a global id
(resource address + valid local id) parses back to the same pair; parsing never panics. -/
theorem gid_roundtrip (B : Codec) (hB : B.Lawful) (sfx : Str) (hs : ∀ c ∈ sfx, c ≠ ':')
    (node : Bytes) (hn : typedFromBytes Radix.Generated.C28.RESOURCE_BYTES node = some node)
    (id : LocalId) (hv : id.Valid) (t : Str) (ht : printGlobalId B sfx node id = some t) :
    parseGlobalId B sfx t = .ok node id := by
  unfold printGlobalId at ht
  cases he : encodeAddr B sfx node with
  | error e => simp [he] at ht
  | ok a =>
    simp only [he, Option.some.injEq] at ht
    subst ht
    obtain ⟨b, rest, pre, hd, hp, hk, ha⟩ := encodeAddr_ok he
    obtain ⟨body, hsh, hbody⟩ := hB.shape (pre ++ sfx) node
    have hpre : ∀ c ∈ pre, c ≠ ':' := by
      have := table_prefix_no_colon _ (entityPrefix_mem hp)
      simpa [List.all_eq_true] using this
    have hno : ∀ c ∈ a, c ≠ ':' := by
      rw [ha, hsh]
      intro c hc
      simp only [List.mem_append, List.mem_cons] at hc
      rcases hc with (hc | hc) | rfl | hc
      · exact hpre c hc
      · exact hs c hc
      · decide
      · exact charset_no_colon c (hbody c hc)
    unfold parseGlobalId
    rw [splitColon_append a _ hno, splitColon_no_colon _ (printLocalId_no_colon id hv)]
    simp only
    rw [typed_accepts_iff _ B hB sfx node a he, hn, nfid_text_roundtrip id hv]

/-- global-id parsing never panics, whatever the codec answers -/
theorem gid_parse_total (B : Codec) (sfx s : Str) : parseGlobalId B sfx s ≠ .panic := by
  unfold parseGlobalId
  split
  · rename_i p0 p1 _
    split
    · simp
    · have := parse_total p1
      split <;> simp_all
  · simp

end Radix.AddrText
