/-
C28 — Addresses and identifiers have lossless, network-bound text forms.

Property theorems only.  Model: `RadixModel/Model/AddrText.lean`; lemmas:
`RadixModel/Lemmas/AddrText.lean`, `RadixModel/Lemmas/NfIdText.lean`.

Bech32m (the `bech32` crate) is a parameter `B : Codec` of every address theorem, assumed `Lawful`
(decode ∘ write = id on checked lower-case HRPs; shape `hrp ++ "1" ++ charset*`).  The EntityType table
and HRP prefixes are the regenerated `Generated/C28.lean`; the side conditions on them (`every prefix has
a lower-case letter`, `no ':'`, class tables) are decided on every build.

PARTIAL (what is not a theorem): the Bech32m checksum algebra and base-32 regrouping are trusted
(parameter `B`; the concrete Lean transcription used by the driver is validated by correspondence
only); "parsing never panics" is a theorem for the Radix-written parsers (`parseLocalId`,
`parseGlobalId` given `B`), while panics inside the `bech32` crate are only searched for by the oracle.
-/
import RadixModel.Model.AddrText
import RadixModel.Lemmas.AddrText
import RadixModel.Lemmas.NfIdText

namespace Radix.AddrText
open Radix.Bech32 (Str Bytes Variant Case checkHrp lowerStr utf8Len u8len isAsciiLower)

/-- The assumed behaviour of Bech32m. -/
structure Codec.Lawful (B : Codec) : Prop where
  /-- decoding what the writer wrote gives back the HRP, the Bech32m variant and the data -/
  roundtrip : ∀ hrp data, (checkHrp hrp = some .lower ∨ checkHrp hrp = some .none) →
    ∃ d5, B.decode (B.write hrp data) = some (hrp, d5, .bech32m) ∧ B.fromBase32 d5 = some data
  /-- the text is `hrp ++ "1" ++ body` with `body` over the Bech32 alphabet -/
  shape : ∀ hrp data, ∃ body, B.write hrp data = hrp ++ '1' :: body ∧ ∀ c ∈ body, c ∈ Radix.Bech32.CHARSET

/-! ## Addresses -/

/-- `addr_roundtrip`: whatever `encode` produces decodes, on the same network, to the same bytes
(and their entity byte). -/
theorem addr_roundtrip (B : Codec) (hB : B.Lawful) (sfx : Str) (data : Bytes) (t : Str)
    (h : encodeAddr B sfx data = .ok t) :
    ∃ b rest, data = b :: rest ∧ decodeAddr B sfx t = .ok (b, data) := by
  obtain ⟨b, rest, pre, hd, hp, hk, ht⟩ := encodeAddr_ok h
  obtain ⟨d5, h1, h2⟩ := hB.roundtrip (pre ++ sfx) data hk
  refine ⟨b, rest, hd, ?_⟩
  subst ht
  simp only [decodeAddr, h1, h2]
  subst hd
  simp [hp, hrpFor]

/-- the text form is injective: two byte strings with the same text on a network are equal -/
theorem addr_text_injective (B : Codec) (hB : B.Lawful) (sfx : Str) (d₁ d₂ : Bytes) (t : Str)
    (h₁ : encodeAddr B sfx d₁ = .ok t) (h₂ : encodeAddr B sfx d₂ = .ok t) : d₁ = d₂ := by
  obtain ⟨_, _, _, r₁⟩ := addr_roundtrip B hB sfx d₁ t h₁
  obtain ⟨_, _, _, r₂⟩ := addr_roundtrip B hB sfx d₂ t h₂
  rw [r₁] at r₂
  simp only [Except.ok.injEq, Prod.mk.injEq] at r₂
  exact r₂.2

/-- `wrong_network_rejected`: a text produced for one network suffix is rejected with `InvalidHrp`
by the decoder of every network with a different suffix. -/
theorem wrong_network_rejected (B : Codec) (hB : B.Lawful) (sfx₁ sfx₂ : Str) (hne : sfx₁ ≠ sfx₂)
    (data : Bytes) (t : Str) (h : encodeAddr B sfx₁ data = .ok t) :
    decodeAddr B sfx₂ t = .error .hrp := by
  obtain ⟨b, rest, pre, hd, hp, hk, ht⟩ := encodeAddr_ok h
  obtain ⟨d5, h1, h2⟩ := hB.roundtrip (pre ++ sfx₁) data hk
  subst ht
  simp only [decodeAddr, h1, h2]
  subst hd
  have : pre ++ sfx₁ ≠ pre ++ sfx₂ := fun e => hne (List.append_cancel_left e)
  simp [hp, hrpFor, this]

/-- `wrong_entity_rejected` (HRP vs entity byte): a well-formed Bech32m text whose HRP is not the one
belonging to the entity byte of its payload is rejected — in particular the HRP of another entity
class put in front of these bytes. -/
theorem wrong_entity_rejected (B : Codec) (hB : B.Lawful) (sfx hrp' : Str) (b : UInt8) (rest : Bytes)
    (pre : Str) (hp : entityPrefix b = some pre) (hne : hrp' ≠ pre ++ sfx)
    (hk : checkHrp hrp' = some .lower ∨ checkHrp hrp' = some .none) :
    decodeAddr B sfx (B.write hrp' (b :: rest)) = .error .hrp := by
  obtain ⟨d5, h1, h2⟩ := hB.roundtrip hrp' (b :: rest) hk
  simp [decodeAddr, h1, h2, hp, hrpFor, hne]

/-- `wrong_entity_rejected` (typed addresses): `XAddress::try_from_bech32` on an encoded address
answers `Some` exactly when the bytes are a node id whose entity byte is in X's class. -/
theorem typed_accepts_iff (cls : List Nat) (B : Codec) (hB : B.Lawful) (sfx : Str) (data : Bytes) (t : Str)
    (h : encodeAddr B sfx data = .ok t) :
    typedFromBech32 cls B sfx t = typedFromBytes cls data := by
  obtain ⟨b, rest, hd, hr⟩ := addr_roundtrip B hB sfx data t h
  simp [typedFromBech32, hr]

/-- a typed address never comes out with another length or class -/
theorem typed_sound (cls : List Nat) (B : Codec) (sfx text : Str) (raw : Bytes)
    (h : typedFromBech32 cls B sfx text = some raw) :
    raw.length = NODE_LEN ∧ ∃ b rest, raw = b :: rest ∧ b.toNat ∈ cls := by
  unfold typedFromBech32 at h
  split at h
  · rename_i e data _
    unfold typedFromBytes at h
    split at h
    · rename_i hl
      cases data with
      | nil => simp at h
      | cons b rest =>
        simp only at h
        split at h
        · rename_i hc
          cases h
          exact ⟨hl, b, rest, rfl, by simpa using hc⟩
        · exact absurd h (by simp)
    · exact absurd h (by simp)
  · exact absurd h (by simp)

/-- the typed classes of the regenerated tables: a resource text is not a package/internal address,
globals and internals are disjoint, every class consists of entity types. -/
theorem classes_disjoint :
    (∀ b ∈ Radix.Generated.C28.RESOURCE_BYTES, b ∉ Radix.Generated.C28.PACKAGE_BYTES ∧
        b ∉ Radix.Generated.C28.COMPONENT_BYTES ∧ b ∉ Radix.Generated.C28.INTERNAL_BYTES) ∧
    (∀ b ∈ Radix.Generated.C28.PACKAGE_BYTES, b ∉ Radix.Generated.C28.COMPONENT_BYTES ∧
        b ∉ Radix.Generated.C28.INTERNAL_BYTES) ∧
    (∀ b ∈ Radix.Generated.C28.GLOBAL_BYTES, b ∉ Radix.Generated.C28.INTERNAL_BYTES) ∧
    (∀ b ∈ Radix.Generated.C28.GLOBAL_BYTES ++ Radix.Generated.C28.INTERNAL_BYTES,
        b ∈ Radix.Generated.C28.ENTITY_TABLE.map (·.1)) ∧
    Radix.Generated.C28.HRP_IS_PREFIX_PLUS_SUFFIX = 1 ∧
    Radix.Generated.C28.TYPED_LENGTH_IS_NODE_ID_LENGTH = 1 := by decide

end Radix.AddrText
