/-
C15 — All substate store implementations are observationally equivalent.

The in-memory store is the specification (`Spec`: node → partition → sort key → value);
the RocksDB-backed stores keep everything in ONE ordered byte-key map under
`encodeKey = be32 |node| ++ node ++ [partition] ++ sort key`. Theorems here:

* the key layout is lossless and injective (`decode_encode`, `encode_injective`);
* inside a partition the encoded order is the sort-key order (`encode_order`);
* the entries of a partition are contiguous (`partition_contiguous`);
* the range delete used for a partition reset removes exactly that partition (`reset_range_exact`);
* hence, for EVERY commit history, reads of the flat map equal reads of the specification
  (`flat_refines_spec`, by induction over the history).

Partial (see checks/C15.json): the sorted listing from a cursor and the partition listing are tied to the
real stores by correspondence; their order/extent facts are `encode_order`, `partition_contiguous`.
Model: `RadixModel/Model/Stores.lean`.
-/
import RadixModel.Model.Stores
import RadixModel.Lemmas.Stores
import RadixModel.Generated.C15

namespace Radix.Stores

/-- keys the real code can be given: node-key length fits the 4-byte length prefix, bytes are bytes,
sort keys are shorter than `2 * MAX_SUBSTATE_KEY_SIZE` (the engine's longest is 2 + 20 + 1024) -/
structure WfKey (node : Bytes) (sk : Bytes) : Prop where
  nodeLen : node.length < 4294967296
  skLen : sk.length < 2 * maxSubstateKeySize
  skBytes : ∀ b ∈ sk, b ≤ 255

theorem decode_encode (node : Bytes) (pn : Nat) (sk : Bytes) (h : node.length < 4294967296) :
    decodeKey (encodeKey node pn sk) = some (node, pn, sk) := decode_prefix node pn sk h

theorem encode_injective (n₁ n₂ : Bytes) (p₁ p₂ : Nat) (s₁ s₂ : Bytes)
    (h₁ : n₁.length < 4294967296) (h₂ : n₂.length < 4294967296)
    (e : encodeKey n₁ p₁ s₁ = encodeKey n₂ p₂ s₂) : n₁ = n₂ ∧ p₁ = p₂ ∧ s₁ = s₂ := by
  have a := decode_encode n₁ p₁ s₁ h₁
  have b := decode_encode n₂ p₂ s₂ h₂
  rw [e, b] at a
  simp only [Option.some.injEq, Prod.mk.injEq] at a
  exact ⟨a.1.symm, a.2.1.symm, a.2.2.symm⟩

/-- Within one partition the byte order of the encoded keys is the order of the sort keys. -/
theorem encode_order (node : Bytes) (pn : Nat) (s₁ s₂ : Bytes) :
    ltB (encodeKey node pn s₁) (encodeKey node pn s₂) = ltB s₁ s₂ := by
  unfold encodeKey
  exact ltB_append_left _ _ _

/-- Every key lying between two encoded keys of partition `(node, pn)` is itself an encoded key of
that partition: a partition's entries are contiguous in the flat map. -/
theorem partition_contiguous (node : Bytes) (pn : Nat) (s₁ s₂ k : Bytes)
    (h₁ : leB (encodeKey node pn s₁) k = true) (h₂ : ltB k (encodeKey node pn s₂) = true) :
    ∃ s, k = encodeKey node pn s := by
  unfold encodeKey at *
  exact prefix_of_between _ _ _ _ h₁ h₂

/-- The range `[encode(pk, []), encode(pk, 0xFF^(2·MAX)))` deleted by a partition reset contains the
key of `(node', pn', sk')` exactly when it belongs to the partition being reset. -/
theorem reset_range_exact (node node' : Bytes) (pn pn' : Nat) (sk' : Bytes)
    (hn : node.length < 4294967296) (hk : WfKey node' sk') :
    inRange (encodeKey node pn []) (encodeKey node pn resetHi) (encodeKey node' pn' sk')
      = decide (node' = node ∧ pn' = pn) := by
  by_cases hp : node' = node ∧ pn' = pn
  · obtain ⟨rfl, rfl⟩ := hp
    simp only [inRange, and_self, decide_true, Bool.and_eq_true]
    constructor
    · simp only [leB, encode_order, Bool.not_eq_true']
      cases sk' <;> simp [ltB]
    · rw [encode_order]
      exact ltB_replicate _ _ hk.skLen hk.skBytes
  · simp only [hp, decide_false]
    cases hr : inRange (encodeKey node pn []) (encodeKey node pn resetHi) (encodeKey node' pn' sk')
    · rfl
    · exfalso
      simp only [inRange, Bool.and_eq_true] at hr
      obtain ⟨s, hs⟩ := partition_contiguous node pn [] resetHi _ hr.1 hr.2
      have := encode_injective node' node pn' pn sk' s hk.nodeLen hn hs
      exact hp ⟨this.1, this.2.1⟩

/-! ### reads of the flat map vs the specification, for every history -/

theorem fget_fput (m : Flat) (k v k' : Bytes) :
    fget (fput m k v) k' = if k' = k then some v else fget m k' := by
  unfold fget fput
  by_cases h : k = k'
  · subst h; simp
  · have h' : ¬ k' = k := fun e => h e.symm
    simp [List.find?_cons, h, h']

theorem fget_fdel (m : Flat) (k k' : Bytes) :
    fget (fdel m k) k' = if k' = k then none else fget m k' := by
  unfold fget fdel
  by_cases h : k = k'
  · subst h; simp
  · have h' : ¬ k' = k := fun e => h e.symm
    simp [List.find?_cons, h, h']

theorem fget_fdelRange (m : Flat) (lo hi k' : Bytes) :
    fget (fdelRange m lo hi) k' = if inRange lo hi k' then none else fget m k' := by
  unfold fget fdelRange
  induction m with
  | nil => simp
  | cons e t ih =>
    by_cases he : e.1 = k'
    · subst he
      by_cases hr : inRange lo hi e.1 = true
      · simp only [List.filter_cons, hr, Bool.not_true, Bool.false_eq_true, if_false, if_true]
        simp only [hr, if_true] at ih
        exact ih
      · have hr' : inRange lo hi e.1 = false := by simpa using hr
        simp [List.filter_cons, hr', List.find?_cons]
    · by_cases hr : inRange lo hi e.1 = true
      · simp only [List.filter_cons, hr, Bool.not_true, Bool.false_eq_true, if_false]
        rw [ih]
        simp [List.find?_cons, he]
      · have hr' : inRange lo hi e.1 = false := by simpa using hr
        simp only [List.filter_cons, hr', Bool.not_false, if_true, List.find?_cons]
        have : (e.1 == k') = false := by simpa using he
        simp only [this]
        exact ih

/-- The flat map and the specification agree on every well-formed key. -/
def Agree (m : Flat) (s : Spec) : Prop :=
  ∀ node pn sk, WfKey node sk → get m node pn sk = s node pn sk

/-- well-formed updates: every key they mention is well-formed -/
def WfPart (node : Bytes) : PartUpd → Prop
  | .delta ups => ∀ e ∈ ups, WfKey node e.1
  | .reset vals => ∀ e ∈ vals, WfKey node e.1

def WfUpdates (u : Updates) : Prop := ∀ e ∈ u, e.1.length < 4294967296 ∧ WfPart e.1 e.2.2

private theorem agree_delta (node : Bytes) (pn : Nat) (hn : node.length < 4294967296)
    (ups : List (Bytes × Option Bytes)) :
    ∀ (m : Flat) (s : Spec), Agree m s → (∀ e ∈ ups, WfKey node e.1) →
      Agree (commitPart m node pn (.delta ups)) (specCommitPart s node pn (.delta ups)) := by
  induction ups with
  | nil => intro m s h _; exact h
  | cons e t ih =>
    intro m s h hw
    simp only [commitPart, specCommitPart, List.foldl_cons] at *
    apply ih
    · intro n p k hk
      have he := hw e (by simp)
      cases hv : e.2 with
      | some v =>
        simp only [get, fget_fput]
        by_cases hc : n = node ∧ p = pn ∧ k = e.1
        · obtain ⟨rfl, rfl, rfl⟩ := hc; simp
        · have : ¬ encodeKey n p k = encodeKey node pn e.1 := by
            intro eq
            have := encode_injective n node p pn k e.1 hk.nodeLen hn eq
            exact hc this
          simp only [this, if_false, hc]
          exact h n p k hk
      | none =>
        simp only [get, fget_fdel]
        by_cases hc : n = node ∧ p = pn ∧ k = e.1
        · obtain ⟨rfl, rfl, rfl⟩ := hc; simp
        · have : ¬ encodeKey n p k = encodeKey node pn e.1 := by
            intro eq
            have := encode_injective n node p pn k e.1 hk.nodeLen hn eq
            exact hc this
          simp only [this, if_false, hc]
          exact h n p k hk
    · intro e' he'; exact hw e' (by simp [he'])

private theorem agree_puts (node : Bytes) (pn : Nat) (hn : node.length < 4294967296)
    (vals : List (Bytes × Bytes)) :
    ∀ (m : Flat) (s : Spec), Agree m s → (∀ e ∈ vals, WfKey node e.1) →
      Agree (vals.foldl (fun m (e : Bytes × Bytes) => fput m (encodeKey node pn e.1) e.2) m)
        (vals.foldl (fun s (e : Bytes × Bytes) =>
          fun n p k => if n = node ∧ p = pn ∧ k = e.1 then some e.2 else s n p k) s) := by
  induction vals with
  | nil => intro m s h _; exact h
  | cons e t ih =>
    intro m s h hw
    simp only [List.foldl_cons]
    apply ih
    · intro n p k hk
      simp only [get, fget_fput]
      by_cases hc : n = node ∧ p = pn ∧ k = e.1
      · obtain ⟨rfl, rfl, rfl⟩ := hc; simp
      · have : ¬ encodeKey n p k = encodeKey node pn e.1 := by
          intro eq
          have := encode_injective n node p pn k e.1 hk.nodeLen hn eq
          exact hc this
        simp only [this, if_false, hc]
        exact h n p k hk
    · intro e' he'; exact hw e' (by simp [he'])

theorem agree_commitPart (m : Flat) (s : Spec) (node : Bytes) (pn : Nat) (pu : PartUpd)
    (hn : node.length < 4294967296) (hw : WfPart node pu) (h : Agree m s) :
    Agree (commitPart m node pn pu) (specCommitPart s node pn pu) := by
  cases pu with
  | delta ups => exact agree_delta node pn hn ups m s h hw
  | reset vals =>
    simp only [commitPart, specCommitPart]
    apply agree_puts node pn hn vals _ _ _ hw
    intro n p k hk
    simp only [get, fget_fdelRange, reset_range_exact node n pn p k hn hk]
    by_cases hc : n = node ∧ p = pn
    · simp [hc]
    · simp only [hc, decide_false, Bool.false_eq_true, if_false]
      exact h n p k hk

theorem agree_commit (u : Updates) : ∀ (m : Flat) (s : Spec), WfUpdates u → Agree m s →
    Agree (commit m u) (specCommit s u) := by
  induction u with
  | nil => intro m s _ h; exact h
  | cons e t ih =>
    intro m s hw h
    simp only [commit, specCommit, List.foldl_cons]
    have he := hw e (by simp)
    exact ih _ _ (fun e' he' => hw e' (by simp [he'])) (agree_commitPart m s e.1 e.2.1 e.2.2 he.1 he.2 h)

/-- **Observational equivalence of reads, for every commit history**: after any sequence of commits
(deltas and resets, in any order, over any well-formed keys) a read of the RocksDB key layout returns
what the in-memory specification returns. -/
theorem flat_refines_spec (hist : List Updates) (hw : ∀ u ∈ hist, WfUpdates u)
    (node : Bytes) (pn : Nat) (sk : Bytes) (hk : WfKey node sk) :
    get (hist.foldl commit []) node pn sk = (hist.foldl specCommit specEmpty) node pn sk := by
  suffices ∀ (m : Flat) (s : Spec), Agree m s → Agree (hist.foldl commit m) (hist.foldl specCommit s) from
    this [] specEmpty (fun _ _ _ _ => rfl) node pn sk hk
  induction hist with
  | nil => intro m s h; exact h
  | cons u t ih =>
    intro m s h
    simp only [List.foldl_cons]
    exact ih (fun u' hu' => hw u' (by simp [hu'])) _ _ (agree_commit u m s (hw u (by simp)) h)

/-- Deleting a partition's last substate leaves no readable entry of it (the case the property names). -/
theorem reset_to_empty_reads_none (m : Flat) (node : Bytes) (pn : Nat) (sk : Bytes) (hk : WfKey node sk) :
    get (commitPart m node pn (.reset [])) node pn sk = none := by
  simp only [commitPart, List.foldl_nil, get, fget_fdelRange, reset_range_exact node node pn pn sk hk.nodeLen hk]
  simp

/-! ### the constants of the current tree -/

/-- the model's limit is the one the compiled code uses -/
theorem generated_agrees : Generated.C15.MAX_SUBSTATE_KEY_SIZE = maxSubstateKeySize := by decide

/-- the longest sort key the engine's key mapper produces (sorted index: 2-byte prefix, hashed prefix,
substate key of maximal size) is strictly inside the reset range bound -/
theorem engine_sort_keys_in_reset_range :
    2 + Generated.C15.HASHED_PREFIX_LENGTH + Generated.C15.MAX_SUBSTATE_KEY_SIZE
      < 2 * Generated.C15.MAX_SUBSTATE_KEY_SIZE := by decide

/-! ### non-vacuity -/
example : WfKey [1, 2, 3] [0, 255] := ⟨by decide, by decide, by decide⟩
example : get (commit [] [([7], 1, .delta [([5], some [9])])]) [7] 1 [5] = some [9] := by decide
example : get (commit (commit [] [([7], 1, .delta [([5], some [9])])]) [([7], 1, .reset [])]) [7] 1 [5] = none := by
  decide
example : inRange (encodeKey [7] 1 []) (encodeKey [7] 1 resetHi) (encodeKey [7] 2 [5]) = false := by
  rw [reset_range_exact [7] [7] 1 2 [5] (by decide) ⟨by decide, by decide, by decide⟩]; decide

end Radix.Stores
