/-
C38 — Static resource movement bounds are sound (abstract-domain half).

Property theorems only.  Model: `RadixModel/Model/ResBounds.lean` (the `ResourceBounds` domain of
`static_resource_movements/types.rs`) on top of the C37 model of `GeneralResourceConstraint`;
helper lemmas: `RadixModel/Lemmas/ResBounds.lean`.

Concretisation.  A concrete balance of one resource is an amount `a ≥ 0` (fungible) or a
duplicate-free id list (non-fungible).  `GammaF b a` / `GammaN b ids`: the balance is one the
bounds `b` stand for — stated with the C37 *meaning* (`MeansF` / `MeansNF`: `≤`, `∈`, `⊆` only),
which C37 proves equal to what the run-time `validate_fungible` / `validate_non_fungible_ids` accept.

FULL STATEMENT of the property (kept for reference; only the domain half is proved here):
  for every manifest the analyser accepts and every ledger state, every successful execution
  deposits into / withdraws from each account amounts within the bounds the analyser reports.
Proved: each domain operation the analyser is built from (`add`, `take`, `handle_assertion`,
`new_for_manifest_constraint`, `normalize`) maps concrete balances inside its input bounds to
concrete results inside its output bounds.  NOT proved in Lean: the visitor's bookkeeping over whole
manifests (`mini_analysis_sound`) and the typed native-invocation table — explored on the
implementation by the `c38e` engine oracle.
-/
import RadixModel.Model.ResBounds
import RadixModel.Lemmas.ResBounds
import RadixModel.Props.C37

namespace Radix.ResBounds
open Radix.ResConstraint

/-- concretisation, fungible -/
def GammaF (b : Bounds) (a : Int) : Prop := 0 ≤ a ∧ b.MeansF a
/-- concretisation, non-fungible -/
def GammaN (b : Bounds) (ids : List Nat) : Prop := ids.Nodup ∧ b.MeansNF ids

/-! ## add -/

/-- **add_sound (non-fungible)**: disjoint concrete id sets inside `b1`, `b2` ⇒ their union is inside
`b1.add b2` (whenever the analyser does not reject the addition). -/
theorem add_sound_nf (b1 b2 b : Bounds) (ids1 ids2 : List Nat)
    (w1 : WFn b1) (w2 : WFn b2) (g1 : GammaN b1 ids1) (g2 : GammaN b2 ids2)
    (hd : ∀ x ∈ ids1, x ∉ ids2) (h : add b1 b2 = .ok b) : GammaN b (ids1 ++ ids2) := by
  obtain ⟨n1, l1, u1, r1, a1⟩ := g1
  obtain ⟨n2, l2, u2, r2, a2⟩ := g2
  have hn : (ids1 ++ ids2).Nodup := List.nodup_append.mpr ⟨n1, n2, fun a ha b hb hab => hd a ha (hab ▸ hb)⟩
  refine ⟨hn, ?_⟩
  unfold add at h
  cases hl : lowerAdd b1.lower b2.lower with
  | error e => rw [hl] at h; cases h
  | ok lo =>
    rw [hl] at h; dsimp only at h
    cases hu : upperAdd b1.upper b2.upper with
    | error e => rw [hu] at h; cases h
    | ok up =>
      rw [hu] at h; dsimp only at h
      cases hr : insertAllNew b1.required b2.required with
      | error e => rw [hr] at h; cases h
      | ok req =>
        rw [hr] at h; dsimp only at h
        injection h with h; subst h
        obtain ⟨rfl, hdis⟩ := insertAllNew_ok _ _ hr
        have hreqn : (b1.required ++ b2.required).Nodup :=
          List.nodup_append.mpr ⟨w1.1, w2.1, fun a ha b hb hab => hdis b hb (hab ▸ ha)⟩
        apply normalize_sound_nf _ hreqn _ hn
        have hlen : fromLen (ids1 ++ ids2).length = fromLen ids1.length + fromLen ids2.length := by
          rw [List.length_append, fromLen_add]
        refine ⟨?_, ?_, ?_, ?_⟩
        · show lo.Sat _
          rw [hlen]; exact lowerAdd_sound hl l1 l2 (fromLen_nonneg _) (fromLen_nonneg _)
        · show up.Sat _
          rw [hlen]; exact upperAdd_sound hu u1 u2
        · intro x hx
          show x ∈ ids1 ++ ids2
          rcases List.mem_append.mp hx with hx | hx
          · exact List.mem_append.mpr (.inl (r1 x hx))
          · exact List.mem_append.mpr (.inr (r2 x hx))
        · show AllowedIds.Sat _ _
          cases h1 : b1.allowed with
          | any => simp only [AllowedIds.Sat]
          | allowlist la =>
            cases h2 : b2.allowed with
            | any => simp only [AllowedIds.Sat]
            | allowlist lb =>
              simp only [AllowedIds.Sat]
              rw [h1] at a1; rw [h2] at a2
              intro x hx
              rw [mem_extend]
              rcases List.mem_append.mp hx with hx | hx
              · exact .inl (a1 x hx)
              · exact .inr (a2 x hx)

/-- non-vacuity for `add_sound_nf` -/
example : ∃ b, add (exactNF [1, 2]) (atLeastNF [5]) = .ok b ∧ GammaN (exactNF [1, 2]) [2, 1]
    ∧ GammaN (atLeastNF [5]) [5, 7] := by
  exact ⟨_, rfl, ⟨by decide, (general_validate_nf_iff _ _).mp (by decide)⟩,
         ⟨by decide, (general_validate_nf_iff _ _).mp (by decide)⟩⟩

/-- **add_sound (fungible)** (+ the fungible well-formedness is kept). -/
theorem add_sound_f (b1 b2 b : Bounds) (a1 a2 : Int) (w1 : WFf b1) (w2 : WFf b2)
    (g1 : GammaF b1 a1) (g2 : GammaF b2 a2) (h : add b1 b2 = .ok b) :
    GammaF b (a1 + a2) ∧ WFf b := by
  obtain ⟨p1, l1, u1⟩ := g1
  obtain ⟨p2, l2, u2⟩ := g2
  unfold add at h
  cases hl : lowerAdd b1.lower b2.lower with
  | error e => rw [hl] at h; cases h
  | ok lo =>
    rw [hl] at h; dsimp only at h
    cases hu : upperAdd b1.upper b2.upper with
    | error e => rw [hu] at h; cases h
    | ok up =>
      rw [hu] at h; dsimp only at h
      rw [w1.1, w2.1] at h
      simp only [insertAllNew] at h
      injection h with h; subst h
      -- the constraint before `normalize` is fungible-well-formed
      have hw : WFf ⟨[], lo, up, (match b1.allowed, b2.allowed with
          | .any, _ => .any
          | .allowlist _, .any => .any
          | .allowlist a, .allowlist b => .allowlist (extend a b))⟩ := by
        refine ⟨rfl, ?_⟩
        intro l hl'
        cases h1 : b1.allowed with
        | any => rw [h1] at hl'; cases hl'
        | allowlist la =>
          cases h2 : b2.allowed with
          | any => rw [h1, h2] at hl'; cases hl'
          | allowlist lb =>
            rw [h1, h2] at hl'
            simp only [AllowedIds.allowlist.injEq] at hl'
            obtain ⟨rfl, k1⟩ := w1.2 la h1
            obtain ⟨rfl, k2⟩ := w2.2 lb h2
            subst hl'
            refine ⟨rfl, ?_⟩
            -- both upper bounds are ≤ 0 and accept a non-negative amount: they are `Inclusive(0)`-like
            show up.equiv ≤ 0
            cases hb1 : b1.upper with
            | unbounded => rw [hb1] at k1; simp only [UpperBound.equiv, DMAX] at k1; omega
            | inclusive x =>
              cases hb2 : b2.upper with
              | unbounded => rw [hb2] at k2; simp only [UpperBound.equiv, DMAX] at k2; omega
              | inclusive y =>
                rw [hb1, hb2] at hu
                rw [hb1] at k1; rw [hb2] at k2
                simp only [UpperBound.equiv] at k1 k2
                simp only [upperAdd, checkedAdd] at hu
                split at hu
                · rename_i s hs
                  injection hu with hu; subst hu
                  split at hs
                  · cases hs
                  · injection hs with hs; subst hs
                    simp only [UpperBound.equiv]; omega
                · cases hu
      refine ⟨⟨by omega, ?_⟩, normalize_WFf _ hw⟩
      apply normalize_sound_f _ hw _ (by omega)
      exact ⟨lowerAdd_sound hl l1 l2 p1 p2, upperAdd_sound hu u1 u2⟩

/-! ## take -/

/-- **take_sound (fungible, by amount)**: the taken part and the remainder are both inside the
returned bounds. -/
theorem take_sound_f (b rem taken : Bounds) (a t : Int) (w : WFf b) (g : GammaF b a)
    (ht : 0 ≤ t) (hta : t ≤ a) (h : take b (.amount t) = .ok (rem, taken)) :
    GammaF rem (a - t) ∧ GammaF taken t ∧ WFf rem := by
  obtain ⟨pa, la, ua⟩ := g
  unfold take at h
  have hneg : ¬ t < 0 := by omega
  simp only [hneg, if_false] at h
  cases hu : upperTake b.upper t with
  | error e => rw [hu] at h; cases h
  | ok up =>
    rw [hu] at h; dsimp only at h
    simp only [exactAmount, hneg, if_false] at h
    injection h with h
    injection h with h1 h2
    subst h1; subst h2
    have hreq : (if t > 0 then [] else b.required) = [] := by
      split
      · rfl
      · exact w.1
    have hw : WFf ⟨(if t > 0 then [] else b.required), lowerTake b.lower t, up, b.allowed⟩ := by
      refine ⟨hreq, ?_⟩
      intro l hl
      obtain ⟨rfl, k⟩ := w.2 l hl
      refine ⟨rfl, ?_⟩
      show up.equiv ≤ 0
      cases hb : b.upper with
      | unbounded => rw [hb] at k; simp only [UpperBound.equiv, DMAX] at k; omega
      | inclusive x =>
        rw [hb] at hu k
        simp only [upperTake] at hu
        split at hu
        · cases hu
        · injection hu with hu; subst hu
          simp only [UpperBound.equiv] at *; omega
    refine ⟨⟨by omega, ?_⟩, ⟨ht, ?_⟩, normalize_WFf _ hw⟩
    · apply normalize_sound_f _ hw _ (by omega)
      exact ⟨lowerTake_sound la ht hta, upperTake_sound hu ua⟩
    · simp only [General.MeansF, LowerBound.Sat, UpperBound.Sat]; omega

/-- **take completeness (fungible)**: the analyser answers `TakeCannotBeSatisfied` for an amount-take
only when no balance inside the bounds could give that amount. -/
theorem take_amount_error_complete (b : Bounds) (t : Int) (e : BErr) (ht : 0 ≤ t)
    (h : take b (.amount t) = .error e) : e = .takeCannotBeSatisfied ∧ ∀ a, b.MeansF a → a < t := by
  unfold take at h
  have hneg : ¬ t < 0 := by omega
  simp only [hneg, if_false] at h
  cases hu : upperTake b.upper t with
  | error e' =>
    rw [hu] at h
    injection h with h; subst h
    obtain ⟨k1, k2⟩ := upperTake_error_complete hu
    exact ⟨k1, fun a ha => k2 a ha.2⟩
  | ok up =>
    rw [hu] at h; dsimp only at h
    simp [exactAmount, hneg] at h

/-- **take_sound (non-fungible, by ids)**: `raw` is the id list written in the manifest (collected
into an `IndexSet`, i.e. de-duplicated), all of it present in the concrete balance. -/
theorem take_sound_nf (b rem taken : Bounds) (ids raw : List Nat) (w : WFn b) (g : GammaN b ids)
    (hsub : ∀ x ∈ raw, x ∈ ids) (h : take b (.ids raw) = .ok (rem, taken)) :
    GammaN rem (ids.filter (fun x => !(dedup raw).contains x)) ∧ GammaN taken (dedup raw) := by
  obtain ⟨nid, la, ua, ra, aa⟩ := g
  have ht := nodup_dedup raw
  have hsub' : ∀ x ∈ dedup raw, x ∈ ids := fun x hx => hsub x (mem_dedup.mp hx)
  generalize htk : dedup raw = t at ht hsub' ⊢
  have hlen := filter_notin_length_eq nid ht hsub'
  have hle : t.length ≤ ids.length := by omega
  have hfl : fromLen (ids.filter (fun x => !t.contains x)).length = fromLen ids.length - fromLen t.length := by
    have : (ids.filter (fun x => !t.contains x)).length = ids.length - t.length := by omega
    rw [this, fromLen_sub hle]
  unfold take at h
  simp only [htk] at h
  cases hu : upperTake b.upper (fromLen t.length) with
  | error e => rw [hu] at h; cases h
  | ok up =>
    rw [hu] at h; dsimp only at h
    -- the allowlist branch
    cases hal : b.allowed with
    | any =>
      rw [hal] at h; dsimp only at h
      split at h
      · cases h
      · injection h with h; injection h with h1 h2; subst h1; subst h2
        refine ⟨⟨nid.filter _, ?_⟩, ?_⟩
        · apply normalize_sound_nf _ (nodup_difference w.1) _ (nid.filter _)
          refine ⟨?_, ?_, ?_, trivial⟩
          · show (lowerTake b.lower _).Sat _
            rw [hfl]; exact lowerTake_sound la (fromLen_nonneg _) (fromLen_le.mpr hle)
          · show up.Sat _
            rw [hfl]; exact upperTake_sound hu ua
          · intro x hx
            obtain ⟨k1, k2⟩ := mem_difference.mp hx
            simp only [List.mem_filter, List.contains_eq_mem, Bool.not_eq_eq_eq_not, Bool.not_true,
              decide_eq_false_iff_not]
            exact ⟨ra x k1, k2⟩
        · -- taken
          refine ⟨ht, ?_⟩
          have e : (dedup t).length = t.length :=
            length_eq_of_same_mem (nodup_dedup t) ht (fun x => mem_dedup)
          simp only [exactNF, General.MeansNF, LowerBound.Sat, UpperBound.Sat, AllowedIds.Sat, e]
          exact ⟨Int.le_refl _, Int.le_refl _, fun x hx => mem_dedup.mp hx, fun x hx => mem_dedup.mpr hx⟩
    | allowlist al =>
      rw [hal] at h aa; dsimp only at h
      by_cases hs : (!isSubset t al) = true
      · rw [if_pos hs] at h; cases h
      · rw [if_neg hs] at h; dsimp only at h
        split at h
        · cases h
        · injection h with h; injection h with h1 h2; subst h1; subst h2
          refine ⟨⟨nid.filter _, ?_⟩, ?_⟩
          · apply normalize_sound_nf _ (nodup_difference w.1) _ (nid.filter _)
            refine ⟨?_, ?_, ?_, ?_⟩
            · show (lowerTake b.lower _).Sat _
              rw [hfl]; exact lowerTake_sound la (fromLen_nonneg _) (fromLen_le.mpr hle)
            · show up.Sat _
              rw [hfl]; exact upperTake_sound hu ua
            · intro x hx
              obtain ⟨k1, k2⟩ := mem_difference.mp hx
              simp only [List.mem_filter, List.contains_eq_mem, Bool.not_eq_eq_eq_not, Bool.not_true,
                decide_eq_false_iff_not]
              exact ⟨ra x k1, k2⟩
            · show AllowedIds.Sat (.allowlist (difference al t)) _
              simp only [AllowedIds.Sat] at aa ⊢
              intro x hx
              simp only [List.mem_filter, List.contains_eq_mem, Bool.not_eq_eq_eq_not, Bool.not_true,
                decide_eq_false_iff_not] at hx
              exact mem_difference.mpr ⟨aa x hx.1, hx.2⟩
          · refine ⟨ht, ?_⟩
            have e : (dedup t).length = t.length :=
              length_eq_of_same_mem (nodup_dedup t) ht (fun x => mem_dedup)
            simp only [exactNF, General.MeansNF, LowerBound.Sat, UpperBound.Sat, AllowedIds.Sat, e]
            exact ⟨Int.le_refl _, Int.le_refl _, fun x hx => mem_dedup.mp hx, fun x hx => mem_dedup.mpr hx⟩

/-- **take all**: the taken bounds are the old bounds, the remainder is `zero`. -/
theorem take_all_sound (b : Bounds) : take b .all = .ok (zero, b) ∧ GammaF zero 0 ∧ GammaN zero [] := by
  refine ⟨rfl, ?_, ?_⟩
  · unfold GammaF General.MeansF zero; simp [LowerBound.Sat, UpperBound.Sat]
  · unfold GammaN General.MeansNF zero; simp [LowerBound.Sat, UpperBound.Sat, AllowedIds.Sat, fromLen]

/-- The id-take is NOT complete: `TakeCannotBeSatisfied` is also answered for takes that a concrete
balance inside the bounds can satisfy (bounds "at least {#1#}", balance {#1#,#2#,#3#}, take {#2#,#3#}).
This over-rejects legal manifests but does not affect soundness. -/
theorem take_ids_error_not_complete :
    ∃ (b : Bounds) (ids raw : List Nat), GammaN b ids ∧ (∀ x ∈ raw, x ∈ ids) ∧
      take b (.ids raw) = .error .takeCannotBeSatisfied :=
  ⟨atLeastNF [1], [1, 2, 3], [2, 3], ⟨by decide, (general_validate_nf_iff _ _).mp (by decide)⟩,
   by decide, rfl⟩

/-! ## handle_assertion -/

/-- `AssertionCannotBeSatisfied` is likewise NOT complete: bounds "at most 3 of {#1#,#2#,#3#}" refined
by the assertion "at most 3 of {#3#,#4#,#5#}" are rejected although the balance {#3#} satisfies both
(the upper bound 3 is compared with the size of the intersected allowlist instead of being capped by
it).  Over-rejection only; soundness is not affected. -/
theorem assert_error_not_complete :
    ∃ (b a : Bounds) (ids : List Nat), GammaN b ids ∧ a.MeansNF ids ∧
      handleAssertion b a = .error .assertionCannotBeSatisfied :=
  ⟨⟨[], .inclusive 0, .inclusive (fromLen 3), .allowlist [1, 2, 3]⟩,
   ⟨[], .inclusive 0, .inclusive (fromLen 3), .allowlist [3, 4, 5]⟩, [3],
   ⟨by decide, (general_validate_nf_iff _ _).mp (by decide)⟩,
   (general_validate_nf_iff _ _).mp (by decide), rfl⟩


/-- **assert_sound (non-fungible)**: if the concrete balance is inside the current bounds and inside
the assertion's bounds (i.e. the assertion passed at run time), it is inside the refined bounds. -/
theorem assert_sound_nf (b a b' : Bounds) (ids : List Nat) (w : WFn b) (g : GammaN b ids)
    (ga : a.MeansNF ids) (h : handleAssertion b a = .ok b') : GammaN b' ids := by
  obtain ⟨nid, lb, ub, rb, ab⟩ := g
  obtain ⟨la, ua, ra, aa⟩ := ga
  refine ⟨nid, ?_⟩
  unfold handleAssertion at h
  dsimp only at h
  -- common tail once the allowlist is known
  have tail : ∀ (al : AllowedIds) (tooMany : Bool), al.Sat ids →
      (if (lowerMax b.lower a.lower).equiv > (upperMin b.upper a.upper).equiv then Except.error BErr.assertionCannotBeSatisfied
       else if tooMany = true then Except.error BErr.assertionCannotBeSatisfied
       else Except.ok (General.normalize ⟨extend b.required a.required, lowerMax b.lower a.lower,
              upperMin b.upper a.upper, al⟩)) = Except.ok b' → b'.MeansNF ids := by
    intro al tooMany hal hh
    split at hh
    · cases hh
    · split at hh
      · cases hh
      · injection hh with hh; subst hh
        apply normalize_sound_nf _ (nodup_extend _ _ w.1) _ nid
        refine ⟨lowerMax_sound lb la, upperMin_sound ub ua, ?_, hal⟩
        intro x hx
        rcases (mem_extend _ _).mp hx with k | k
        · exact rb x k
        · exact ra x k
  split at h
  · cases h
  · rename_i al heq
    refine tail al _ ?_ h
    cases haa : a.allowed with
    | any => rw [haa] at heq; injection heq with heq; subst heq; exact ab
    | allowlist l =>
      rw [haa] at heq aa
      dsimp only at heq
      split at heq
      · cases heq
      · cases hba : b.allowed with
        | any => rw [hba] at heq; injection heq with heq; subst heq; exact aa
        | allowlist x =>
          rw [hba] at heq ab
          injection heq with heq; subst heq
          simp only [AllowedIds.Sat] at ab aa ⊢
          intro y hy
          exact mem_intersection.mpr ⟨ab y hy, aa y hy⟩

/-- the bounds built from a manifest constraint contain every id set the constraint accepts at run
time (`validate_non_fungible`) -/
theorem ofConstraint_sound_nf (c : Constraint) (a : Bounds) (ids : List Nat) (hids : ids.Nodup)
    (hreq : ∀ g, c = .general g → g.required.Nodup)
    (hv : c.validateNonFungible ids = .ok ()) (h : ofConstraint c = .ok a) : a.MeansNF ids := by
  have hm := (validate_non_fungible_iff_meaning c ids).mp hv
  cases c with
  | nonZeroAmount =>
    simp only [ofConstraint] at h; injection h with h; subst h
    simp only [Constraint.MeansNF] at hm
    refine ⟨?_, trivial, by simp [nonZero], trivial⟩
    simp only [nonZero, LowerBound.Sat, fromLen_def]
    cases ids with
    | nil => exact absurd rfl hm
    | cons x xs => simp only [List.length_cons]; omega
  | exactAmount d =>
    simp only [ofConstraint, exactAmount] at h
    split at h
    · cases h
    · injection h with h; subst h
      simp only [Constraint.MeansNF] at hm
      exact ⟨by simp only [LowerBound.Sat]; omega, by simp only [UpperBound.Sat]; omega, by simp, trivial⟩
  | atLeastAmount d =>
    simp only [ofConstraint, atLeastAmount] at h
    split at h
    · cases h
    · injection h with h; subst h
      simp only [Constraint.MeansNF] at hm
      exact ⟨by simp only [LowerBound.Sat]; omega, trivial, by simp, trivial⟩
  | exactNF exp =>
    simp only [ofConstraint] at h; injection h with h; subst h
    simp only [Constraint.MeansNF] at hm
    have e : (dedup exp).length = ids.length :=
      length_eq_of_same_mem (nodup_dedup exp) hids (fun x => by rw [mem_dedup]; exact (hm x).symm)
    simp only [exactNF, General.MeansNF, LowerBound.Sat, UpperBound.Sat, AllowedIds.Sat, e]
    exact ⟨Int.le_refl _, Int.le_refl _, fun x hx => (hm x).mpr (mem_dedup.mp hx),
           fun x hx => mem_dedup.mpr ((hm x).mp hx)⟩
  | atLeastNF exp =>
    simp only [ofConstraint] at h; injection h with h; subst h
    simp only [Constraint.MeansNF] at hm
    have e : (dedup exp).length ≤ ids.length :=
      length_le_of_subset (nodup_dedup exp) (fun x hx => hm x (mem_dedup.mp hx))
    simp only [atLeastNF, General.MeansNF, LowerBound.Sat, UpperBound.Sat, AllowedIds.Sat]
    exact ⟨fromLen_le.mpr e, trivial, fun x hx => hm x (mem_dedup.mp hx), trivial⟩
  | general g =>
    simp only [ofConstraint] at h
    split at h
    · cases h
    · injection h with h; subst h
      exact normalize_sound_nf g (hreq g rfl) ids hids hm

/-- **assert_sound (fungible), PARTIAL.**  Full statement (FALSE on the current code, see
`assert_unsound_fungible_empty_allowlist`): the same with `a` = the bounds built from ANY manifest
constraint valid for fungible use that the balance passes at run time.  Proved for assertion bounds
that are fungible-well-formed (`WFf`: an allowlist only with upper bound 0) — true of every
constructor and of `General` constraints whose allowlist, if any, comes with upper bound 0. -/
theorem assert_sound_f_partial (b a b' : Bounds) (x : Int) (w : WFf b) (wa : WFf a)
    (g : GammaF b x) (ga : a.MeansF x) (h : handleAssertion b a = .ok b') : GammaF b' x ∧ WFf b' := by
  obtain ⟨px, lb, ub⟩ := g
  obtain ⟨la, ua⟩ := ga
  unfold handleAssertion at h
  dsimp only at h
  have hup0 : ∀ l, a.allowed = .allowlist l → (upperMin b.upper a.upper).equiv ≤ 0 := by
    intro l hl
    obtain ⟨_, k⟩ := wa.2 l hl
    unfold upperMin
    split
    · exact k
    · rename_i hgt
      cases hb : b.upper with
      | unbounded =>
        cases ha : a.upper with
        | unbounded => rw [ha] at k; simp only [UpperBound.equiv, DMAX] at k; omega
        | inclusive y => rw [hb, ha] at hgt; simp [upperGt] at hgt
      | inclusive z =>
        cases ha : a.upper with
        | unbounded => rw [ha] at k; simp only [UpperBound.equiv, DMAX] at k; omega
        | inclusive y =>
          rw [hb, ha] at hgt; rw [ha] at k
          simp only [upperGt, decide_eq_true_eq, UpperBound.equiv] at hgt k ⊢
          omega
  have hup0' : ∀ l, b.allowed = .allowlist l → (upperMin b.upper a.upper).equiv ≤ 0 := by
    intro l hl
    obtain ⟨_, k⟩ := w.2 l hl
    unfold upperMin
    split
    · rename_i hgt
      cases hb : b.upper with
      | unbounded => rw [hb] at k; simp only [UpperBound.equiv, DMAX] at k; omega
      | inclusive z =>
        cases ha : a.upper with
        | unbounded => rw [hb, ha] at hgt; simp [upperGt] at hgt
        | inclusive y =>
          rw [hb, ha] at hgt; rw [hb] at k
          simp only [upperGt, decide_eq_true_eq, UpperBound.equiv] at hgt k ⊢
          omega
    · exact k
  have hext : extend b.required a.required = [] := by rw [w.1, wa.1]; rfl
  have tail : ∀ (al : AllowedIds) (tooMany : Bool), (∀ l, al = .allowlist l → l = [] ∧ (upperMin b.upper a.upper).equiv ≤ 0) →
      (if (lowerMax b.lower a.lower).equiv > (upperMin b.upper a.upper).equiv then Except.error BErr.assertionCannotBeSatisfied
       else if tooMany = true then Except.error BErr.assertionCannotBeSatisfied
       else Except.ok (General.normalize ⟨extend b.required a.required, lowerMax b.lower a.lower,
              upperMin b.upper a.upper, al⟩)) = Except.ok b' → GammaF b' x ∧ WFf b' := by
    intro al tooMany hal hh
    split at hh
    · cases hh
    · split at hh
      · cases hh
      · injection hh with hh; subst hh
        have hw : WFf ⟨extend b.required a.required, lowerMax b.lower a.lower, upperMin b.upper a.upper, al⟩ :=
          ⟨hext, hal⟩
        exact ⟨⟨px, normalize_sound_f _ hw x px ⟨lowerMax_sound lb la, upperMin_sound ub ua⟩⟩,
               normalize_WFf _ hw⟩
  split at h
  · cases h
  · rename_i al heq
    refine tail al _ ?_ h
    cases haa : a.allowed with
    | any =>
      rw [haa] at heq; injection heq with heq; subst heq
      intro l hl
      exact ⟨(w.2 l hl).1, hup0' l hl⟩
    | allowlist l0 =>
      rw [haa] at heq
      dsimp only at heq
      obtain ⟨rfl, _⟩ := wa.2 l0 haa
      split at heq
      · cases heq
      · cases hba : b.allowed with
        | any =>
          rw [hba] at heq; injection heq with heq; subst heq
          intro l hl
          simp only [AllowedIds.allowlist.injEq] at hl
          exact ⟨hl.symm, hup0 [] haa⟩
        | allowlist y =>
          rw [hba] at heq
          injection heq with heq; subst heq
          obtain ⟨rfl, _⟩ := w.2 y hba
          intro l hl
          simp only [AllowedIds.allowlist.injEq] at hl
          exact ⟨by rw [← hl]; rfl, hup0 [] haa⟩

/-- **The corner where the analyser is unsound** (related to known finding C37): a `General`
constraint with an EMPTY allowlist and a positive/unbounded upper bound is valid for fungible use and
its run-time check (`validate_fungible`) only looks at the numeric bounds — the balance `1` passes —
but `new_for_manifest_constraint` normalises it to "exactly zero", so after the assertion the
analyser believes the worktop holds none of the resource. -/
theorem assert_unsound_fungible_empty_allowlist :
    ∃ (b a b' : Bounds) (c : Constraint) (x : Int),
      c.validFungible = true ∧ GammaF b x ∧ c.validateFungible x = .ok () ∧
      ofConstraint c = .ok a ∧ assertResource true b a = .ok b' ∧ ¬ GammaF b' x :=
  ⟨zeroOrMore, _, _, .general ⟨[], .inclusive 0, .unbounded, .allowlist []⟩, 1,
   by decide, ⟨by decide, (general_validate_fungible_iff _ _).mp (by decide)⟩, by decide, rfl, rfl,
   fun h => absurd ((general_validate_fungible_iff _ _).mpr h.2) (by decide)⟩

/-- the bounds built from a manifest constraint contain every amount the constraint accepts at run
time — for the simple constraints always, for `General` when fungible-well-formed -/
theorem ofConstraint_sound_f_partial (c : Constraint) (a : Bounds) (x : Int) (hx : 0 ≤ x)
    (hw : ∀ g, c = .general g → WFf g)
    (hv : c.validateFungible x = .ok ()) (h : ofConstraint c = .ok a) : a.MeansF x ∧ WFf a := by
  have hm := (validate_fungible_iff_meaning c x).mp hv
  cases c with
  | nonZeroAmount =>
    simp only [ofConstraint] at h; injection h with h; subst h
    exact ⟨⟨hm, trivial⟩, rfl, by intro l hl; cases hl⟩
  | exactAmount d =>
    simp only [ofConstraint, exactAmount] at h
    split at h
    · cases h
    · injection h with h; subst h
      simp only [Constraint.MeansF] at hm
      exact ⟨⟨by simp only [LowerBound.Sat]; omega, by simp only [UpperBound.Sat]; omega⟩, rfl,
             by intro l hl; cases hl⟩
  | atLeastAmount d =>
    simp only [ofConstraint, atLeastAmount] at h
    split at h
    · cases h
    · injection h with h; subst h
      simp only [Constraint.MeansF] at hm
      exact ⟨⟨by simp only [LowerBound.Sat]; omega, trivial⟩, rfl, by intro l hl; cases hl⟩
  | exactNF exp => simp only [Constraint.MeansF] at hm
  | atLeastNF exp => simp only [Constraint.MeansF] at hm
  | general g =>
    simp only [ofConstraint] at h
    split at h
    · cases h
    · injection h with h; subst h
      exact ⟨normalize_sound_f g (hw g rfl) x hx hm, normalize_WFf g (hw g rfl)⟩


/-! ## the `IndexSet` invariant is kept, and soundness over op sequences -/

theorem add_WFn (b1 b2 b : Bounds) (w1 : WFn b1) (w2 : WFn b2) (h : add b1 b2 = .ok b) : WFn b := by
  unfold add at h
  cases hl : lowerAdd b1.lower b2.lower with
  | error e => rw [hl] at h; cases h
  | ok lo =>
    rw [hl] at h; dsimp only at h
    cases hu : upperAdd b1.upper b2.upper with
    | error e => rw [hu] at h; cases h
    | ok up =>
      rw [hu] at h; dsimp only at h
      cases hr : insertAllNew b1.required b2.required with
      | error e => rw [hr] at h; cases h
      | ok req =>
        rw [hr] at h; dsimp only at h
        injection h with h; subst h
        obtain ⟨rfl, hdis⟩ := insertAllNew_ok _ _ hr
        apply normalize_WFn
        refine ⟨List.nodup_append.mpr ⟨w1.1, w2.1, fun a ha b hb hab => hdis b hb (hab ▸ ha)⟩, ?_⟩
        intro l hl'
        cases h1 : b1.allowed with
        | any => rw [h1] at hl'; cases hl'
        | allowlist la =>
          cases h2 : b2.allowed with
          | any => rw [h1, h2] at hl'; cases hl'
          | allowlist lb =>
            rw [h1, h2] at hl'
            simp only [AllowedIds.allowlist.injEq] at hl'
            subst hl'
            exact nodup_extend _ _ (w1.2 la h1)

theorem take_ids_WFn (b rem taken : Bounds) (raw : List Nat) (w : WFn b)
    (h : take b (.ids raw) = .ok (rem, taken)) : WFn rem ∧ WFn taken := by
  unfold take at h
  dsimp only at h
  cases hu : upperTake b.upper (fromLen (dedup raw).length) with
  | error e => rw [hu] at h; cases h
  | ok up =>
    rw [hu] at h; dsimp only at h
    have htaken : WFn (exactNF (dedup raw)) := by
      refine ⟨nodup_dedup _, ?_⟩
      intro l hl
      simp only [exactNF, AllowedIds.allowlist.injEq] at hl
      subst hl; exact nodup_dedup _
    cases hal : b.allowed with
    | any =>
      rw [hal] at h; dsimp only at h
      split at h
      · cases h
      · injection h with h; injection h with h1 h2; subst h1; subst h2
        exact ⟨normalize_WFn _ ⟨nodup_difference w.1, by intro l hl; cases hl⟩, htaken⟩
    | allowlist al =>
      rw [hal] at h; dsimp only at h
      by_cases hs : (!isSubset (dedup raw) al) = true
      · rw [if_pos hs] at h; cases h
      · rw [if_neg hs] at h; dsimp only at h
        split at h
        · cases h
        · injection h with h; injection h with h1 h2; subst h1; subst h2
          refine ⟨normalize_WFn _ ⟨nodup_difference w.1, ?_⟩, htaken⟩
          intro l hl
          simp only [AllowedIds.allowlist.injEq] at hl
          subst hl
          exact nodup_difference (w.2 al hal)

theorem assert_WFn (b a b' : Bounds) (w : WFn b) (wa : WFn a) (h : handleAssertion b a = .ok b') :
    WFn b' := by
  unfold handleAssertion at h
  dsimp only at h
  split at h
  · cases h
  · rename_i al heq
    have hal : ∀ l, al = .allowlist l → l.Nodup := by
      cases haa : a.allowed with
      | any => rw [haa] at heq; injection heq with heq; subst heq; exact w.2
      | allowlist l0 =>
        rw [haa] at heq
        dsimp only at heq
        split at heq
        · cases heq
        · cases hba : b.allowed with
          | any =>
            rw [hba] at heq; injection heq with heq; subst heq
            intro l hl; simp only [AllowedIds.allowlist.injEq] at hl; subst hl; exact wa.2 l0 haa
          | allowlist x =>
            rw [hba] at heq
            injection heq with heq; subst heq
            intro l hl; simp only [AllowedIds.allowlist.injEq] at hl; subst hl
            exact nodup_intersection (w.2 x hba)
    have fin : ∀ (tooMany : Bool),
        (if (lowerMax b.lower a.lower).equiv > (upperMin b.upper a.upper).equiv then Except.error BErr.assertionCannotBeSatisfied
         else if tooMany = true then Except.error BErr.assertionCannotBeSatisfied
         else Except.ok (General.normalize ⟨extend b.required a.required, lowerMax b.lower a.lower,
                upperMin b.upper a.upper, al⟩)) = Except.ok b' → WFn b' := by
      intro tm hh
      split at hh
      · cases hh
      · split at hh
        · cases hh
        · injection hh with hh; subst hh
          exact normalize_WFn _ ⟨nodup_extend _ _ w.1, hal⟩
    exact fin _ h

/-- operations on the tracked bounds of one non-fungible resource (the worktop entry of that
resource as the visitor drives it) -/
inductive OpN where
  | add (amount : Bounds) (c : List Nat)
  | takeIds (raw : List Nat)
  | takeAll
  | assertB (a : Bounds)

/-- abstract step = what the analyser does -/
def stepA (b : Bounds) : OpN → Except BErr Bounds
  | .add amount _ => add b amount
  | .takeIds raw => (match take b (.ids raw) with | .ok (rem, _) => .ok rem | .error e => .error e)
  | .takeAll => .ok zero
  | .assertB a => handleAssertion b a

def runA : Bounds → List OpN → Except BErr Bounds
  | b, [] => .ok b
  | b, op :: rest => match stepA b op with | .ok b' => runA b' rest | .error e => .error e

/-- concrete step = a run-time execution that does not fail: an addition of new ids described by
`amount`, a take of ids that are present, a take-all, an assertion that passes -/
inductive StepC : List Nat → OpN → List Nat → Prop where
  | add {ids c amount} : GammaN amount c → WFn amount → (∀ x ∈ ids, x ∉ c) → StepC ids (.add amount c) (ids ++ c)
  | takeIds {ids raw} : (∀ x ∈ raw, x ∈ ids) →
      StepC ids (.takeIds raw) (ids.filter (fun x => !(dedup raw).contains x))
  | takeAll {ids} : StepC ids .takeAll []
  | assertB {ids a} : a.MeansNF ids → WFn a → StepC ids (.assertB a) ids

inductive RunC : List Nat → List OpN → List Nat → Prop where
  | nil {ids} : RunC ids [] ids
  | cons {ids ids1 ids2 op rest} : StepC ids op ids1 → RunC ids1 rest ids2 → RunC ids (op :: rest) ids2

/-- **chain_sound (non-fungible)** — the single-resource core of `mini_analysis_sound`: for EVERY
sequence of add / take-ids / take-all / assert operations, if the analyser does not reject the
sequence then every concrete execution that does not fail ends with a balance inside the bounds the
analyser ends with (induction over the op sequence; the `IndexSet` invariant is carried along). -/
theorem chain_sound_nf : ∀ (ops : List OpN) (b b' : Bounds) (ids ids' : List Nat),
    WFn b → GammaN b ids → runA b ops = .ok b' → RunC ids ops ids' → GammaN b' ids' ∧ WFn b' := by
  intro ops
  induction ops with
  | nil =>
    intro b b' ids ids' w g h hc
    simp only [runA] at h; injection h with h; subst h
    cases hc; exact ⟨g, w⟩
  | cons op rest ih =>
    intro b b' ids ids' w g h hc
    simp only [runA] at h
    cases hs : stepA b op with
    | error e => rw [hs] at h; cases h
    | ok b1 =>
      rw [hs] at h; dsimp only at h
      cases hc with
      | cons hstep hrest =>
        have key : ∀ ids1, StepC ids op ids1 → GammaN b1 ids1 ∧ WFn b1 := by
          intro ids1 hst
          cases hst with
          | add ga wa hd =>
            simp only [stepA] at hs
            exact ⟨add_sound_nf _ _ _ _ _ w wa g ga hd hs, add_WFn _ _ _ w wa hs⟩
          | takeIds hsub =>
            simp only [stepA] at hs
            split at hs
            · rename_i rem taken ht
              injection hs with hs; subst hs
              exact ⟨(take_sound_nf _ _ _ _ _ w g hsub ht).1, (take_ids_WFn _ _ _ _ w ht).1⟩
            · cases hs
          | takeAll =>
            simp only [stepA] at hs; injection hs with hs; subst hs
            exact ⟨(take_all_sound b).2.2, ⟨List.nodup_nil, by intro l hl; simp only [zero, AllowedIds.allowlist.injEq] at hl; subst hl; exact List.nodup_nil⟩⟩
          | assertB ga wa =>
            simp only [stepA] at hs
            exact ⟨assert_sound_nf _ _ _ _ w g ga hs, assert_WFn _ _ _ w wa hs⟩
        obtain ⟨g1, w1⟩ := key _ hstep
        exact ih b1 b' _ ids' w1 g1 h hrest

/-- non-vacuity: a three-step chain accepted by the analyser with a concrete run -/
example : ∃ b, runA zero [.add (exactNF [1, 2]) [1, 2], .takeIds [2], .assertB (atLeastNF [1])] = .ok b := ⟨_, rfl⟩


/-! ## soundness over op sequences, fungible -/

inductive OpF where
  | add (amount : Bounds) (c : Int)
  | takeAmt (t : Int)
  | takeAll
  | assertB (a : Bounds)

def stepAF (b : Bounds) : OpF → Except BErr Bounds
  | .add amount _ => add b amount
  | .takeAmt t => (match take b (.amount t) with | .ok (rem, _) => .ok rem | .error e => .error e)
  | .takeAll => .ok zero
  | .assertB a => handleAssertion b a

def runAF : Bounds → List OpF → Except BErr Bounds
  | b, [] => .ok b
  | b, op :: rest => match stepAF b op with | .ok b' => runAF b' rest | .error e => .error e

/-- a run-time execution that does not fail; the bounds added / asserted are fungible-well-formed
(`WFf`) — which excludes exactly the empty-allowlist corner of `assert_unsound_fungible_empty_allowlist` -/
inductive StepCF : Int → OpF → Int → Prop where
  | add {x c amount} : GammaF amount c → WFf amount → StepCF x (.add amount c) (x + c)
  | takeAmt {x t} : 0 ≤ t → t ≤ x → StepCF x (.takeAmt t) (x - t)
  | takeAll {x} : StepCF x .takeAll 0
  | assertB {x a} : a.MeansF x → WFf a → StepCF x (.assertB a) x

inductive RunCF : Int → List OpF → Int → Prop where
  | nil {x} : RunCF x [] x
  | cons {x x1 x2 op rest} : StepCF x op x1 → RunCF x1 rest x2 → RunCF x (op :: rest) x2

/-- **chain_sound (fungible), PARTIAL** (assertion / addend bounds restricted to `WFf`, see
`assert_sound_f_partial`): for every op sequence the analyser accepts, every non-failing concrete
execution ends with an amount inside the final bounds. -/
theorem chain_sound_f_partial : ∀ (ops : List OpF) (b b' : Bounds) (x x' : Int),
    WFf b → GammaF b x → runAF b ops = .ok b' → RunCF x ops x' → GammaF b' x' ∧ WFf b' := by
  intro ops
  induction ops with
  | nil =>
    intro b b' x x' w g h hc
    simp only [runAF] at h; injection h with h; subst h
    cases hc; exact ⟨g, w⟩
  | cons op rest ih =>
    intro b b' x x' w g h hc
    simp only [runAF] at h
    cases hs : stepAF b op with
    | error e => rw [hs] at h; cases h
    | ok b1 =>
      rw [hs] at h; dsimp only at h
      cases hc with
      | cons hstep hrest =>
        have key : ∀ x1, StepCF x op x1 → GammaF b1 x1 ∧ WFf b1 := by
          intro x1 hst
          cases hst with
          | add ga wa =>
            simp only [stepAF] at hs
            exact add_sound_f _ _ _ _ _ w wa g ga hs
          | takeAmt h0 h1 =>
            simp only [stepAF] at hs
            split at hs
            · rename_i rem taken ht
              injection hs with hs; subst hs
              obtain ⟨k1, _, k3⟩ := take_sound_f _ _ _ _ _ w g h0 h1 ht
              exact ⟨k1, k3⟩
            · cases hs
          | takeAll =>
            simp only [stepAF] at hs; injection hs with hs; subst hs
            refine ⟨(take_all_sound b).2.1, rfl, ?_⟩
            intro l hl
            simp only [zero, AllowedIds.allowlist.injEq] at hl
            subst hl
            exact ⟨rfl, by simp [zero, UpperBound.equiv]⟩
          | assertB ga wa =>
            simp only [stepAF] at hs
            exact assert_sound_f_partial _ _ _ _ w wa g ga hs
        obtain ⟨g1, w1⟩ := key _ hstep
        exact ih b1 b' _ x' w1 g1 h hrest

end Radix.ResBounds
