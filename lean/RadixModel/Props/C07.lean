import RadixModel.Model.Tracker
import RadixModel.Lemmas.Tracker
import RadixModel.Generated.C07
/-
C07 — An intent can be committed at most once before it expires.

Property (full strength, as proved below):
  For every ledger whose tracker is well-formed, every history of user transactions (committing as
  success or failure), system transactions and epoch overwrites in which the epoch never decreases:
  once a transaction carrying intent `(hash, expiry)` has committed (any outcome for a transaction
  intent, success for a subintent), no later transaction carrying the same intent whose validity
  window ends at or before that expiry can ever commit — it is rejected (previously committed while
  `epoch < expiry`, epoch-range afterwards) or the engine panics; and in histories where the epoch
  moves one step at a time and expiries respect the validation limit `max_epoch_range`, no panic is
  possible, the ring stays anchored to the current epoch, and every admissible expiry has a partition
  (this last part depends on the constants of the compiled tree through `Generated/C07`).
-/
namespace Radix.Tracker

/-! ### Definitions used by the statements -/

def Committed (st : Store) (p h : Nat) : Prop :=
  st p h = some .success ∨ st p h = some .failure

/-- the replay record of intent `(h, E)` is present for as long as the intent has not expired -/
def Rec (l : Ledger) (h E : Nat) : Prop :=
  l.epoch < E → InWindow l.tracker E ∧ Committed l.store (phys l.tracker E) h

/-- the epoch does not decrease in this step -/
def StepMono (l : Ledger) : Step → Prop
  | .user _ _ => True
  | .system e' => l.epoch ≤ e'
  | .jump e' => l.epoch ≤ e'

/-- the epoch never decreases along the history -/
def Mono : Ledger → List Step → Prop
  | _, [] => True
  | l, s :: ss => StepMono l s ∧ ∀ l', next l s = some l' → Mono l' ss

/-! ### Boot-time checks -/

/-- `validate_epoch_range` accepts exactly the epochs inside the window. -/
theorem epoch_window_accept_iff (cur s e : Nat) :
    validateEpochRange cur s e = none ↔ s ≤ cur ∧ cur < e := by
  unfold validateEpochRange
  by_cases c1 : cur < s
  · simp [c1] <;> omega
  · by_cases c2 : cur ≥ e
    · simp [c1, c2] <;> omega
    · simp [c1, c2] <;> omega

/-- the two rejection reasons, each at its exact boundary -/
theorem epoch_window_reject (cur s e : Nat) :
    (cur < s → validateEpochRange cur s e = some (.notYetValid s cur)) ∧
    (s ≤ cur → e ≤ cur → validateEpochRange cur s e = some (.noLongerValid (e - 1) cur)) := by
  unfold validateEpochRange
  constructor
  · intro h; simp [h]
  · intro h1 h2
    have c1 : ¬ cur < s := by omega
    by_cases c3 : e = 0
    · simp [c1, c3]
    · simp [c1, h2, c3]

example : validateEpochRange 10 10 11 = none := by decide
example : validateEpochRange 11 10 11 = some (.noLongerValid 10 11) := by decide
example : validateEpochRange 9 10 11 = some (.notYetValid 10 9) := by decide

/-- a nullification whose check does not pass makes the whole boot not pass -/
theorem bootNulls_not_ok (l : Ledger) (ns : List Nullif) (n : Nullif) (hn : n ∈ ns)
    (hbad : validateIntentHash l n.hash n.expiry ≠ .ok) : bootNulls l ns ≠ .ok := by
  induction ns with
  | nil => cases hn
  | cons m ms ih =>
    unfold bootNulls
    rcases List.mem_cons.mp hn with rfl | hm
    · cases hv : validateIntentHash l n.hash n.expiry with
      | ok => exact absurd hv hbad
      | reject r => simp
      | panic => simp
    · cases hv : validateIntentHash l m.hash m.expiry with
      | ok => simpa using ih hm
      | reject r => simp
      | panic => simp

/-- a present record makes the lookup fail -/
theorem validateIntentHash_of_rec (l : Ledger) (hwf : l.tracker.WF) (h E : Nat)
    (_hw : InWindow l.tracker E) (hc : Committed l.store (phys l.tracker E) h) :
    validateIntentHash l h E = .reject (.prevCommitted h) ∨ validateIntentHash l h E = .panic := by
  unfold validateIntentHash
  rcases pfe_cases l.tracker hwf E with hp | hp | ⟨hp, _⟩
  · simp [hp]
  · simp [hp]
  · rcases hc with hc | hc <;> simp [hp, hc]

/-! ### Commit: what `update_transaction_tracker` does to records -/

theorem set_committed {st : Store} {p h : Nat} (p' h' : Nat) (succ : Bool)
    (hc : Committed st p h) :
    Committed (st.set p' h' (if succ then .success else .failure)) p h := by
  unfold Committed Store.set at *
  by_cases c : p = p' ∧ h = h'
  · cases succ <;> simp [c]
  · simp [c]; exact hc

theorem set_self_committed (st : Store) (p h : Nat) (succ : Bool) :
    Committed (st.set p h (if succ then .success else .failure)) p h := by
  unfold Committed Store.set
  cases succ <;> simp

/-- writing nullifications never removes a record -/
theorem writeNulls_keeps (t : Tracker) (succ : Bool) (ns : List Nullif) (st st' : Store)
    (hw : writeNulls t succ st ns = some st') (p h : Nat) (hc : Committed st p h) :
    Committed st' p h := by
  induction ns generalizing st with
  | nil => simp [writeNulls] at hw; subst hw; exact hc
  | cons n ns ih =>
    unfold writeNulls at hw
    by_cases c : n.kind = .sub ∧ succ = false
    · rw [if_pos c] at hw
      exact ih st hw hc
    · rw [if_neg c] at hw
      cases hp : partitionForExpiry t n.expiry with
      | panic => simp [hp] at hw
      | none => simp [hp] at hw
      | some q =>
        simp only [hp] at hw
        exact ih _ hw (set_committed q n.hash succ hc)

/-- every nullification that `Nullification::of_intent` keeps gets its record written, in the
physical partition of its expiry, which is covered by the ring -/
theorem writeNulls_records (t : Tracker) (hwf : t.WF) (succ : Bool) (ns : List Nullif) (st st' : Store)
    (hw : writeNulls t succ st ns = some st') (n : Nullif) (hn : n ∈ ns)
    (heff : n.kind = .tx ∨ succ = true) :
    InWindow t n.expiry ∧ Committed st' (phys t n.expiry) n.hash := by
  induction ns generalizing st with
  | nil => cases hn
  | cons m ms ih =>
    unfold writeNulls at hw
    by_cases c : m.kind = .sub ∧ succ = false
    · rw [if_pos c] at hw
      rcases List.mem_cons.mp hn with rfl | hm
      · rcases heff with h | h
        · rw [h] at c; exact absurd c.1 (by decide)
        · rw [h] at c; exact absurd c.2 (by decide)
      · exact ih st hw hm
    · rw [if_neg c] at hw
      cases hp : partitionForExpiry t m.expiry with
      | panic => simp [hp] at hw
      | none => simp [hp] at hw
      | some q =>
        simp only [hp] at hw
        rcases List.mem_cons.mp hn with rfl | hm
        · rcases pfe_cases t hwf n.expiry with h | h | ⟨h, hwin⟩
          · rw [h] at hp; cases hp
          · rw [h] at hp; cases hp
          · rw [h] at hp
            injection hp with hq
            subst hq
            exact ⟨hwin, writeNulls_keeps t succ ms _ st' hw _ _ (set_self_committed st _ _ succ)⟩
        · exact ih _ hw hm

/-- `commit` = write the records, then the ring maintenance of a commit without nullifications -/
theorem commit_split (l : Ledger) (e' : Nat) (ns : List Nullif) (succ : Bool) :
    commit l e' ns succ =
      match writeNulls l.tracker succ l.store ns with
      | none => none
      | some st => commit { l with store := st } e' [] true := by
  unfold commit
  cases writeNulls l.tracker succ l.store ns with
  | none => rfl
  | some st => simp [writeNulls]

/-- ring maintenance: a record of a not-yet-expired intent survives, well-formedness is kept -/
theorem commit_nil_keeps (l l' : Ledger) (hwf : l.tracker.WF) (e' : Nat)
    (hc : commit l e' [] true = some l') :
    l'.tracker.WF ∧ l'.epoch = e' ∧
    ∀ h E, e' < E → InWindow l.tracker E → Committed l.store (phys l.tracker E) h →
      InWindow l'.tracker E ∧ Committed l'.store (phys l'.tracker E) h := by
  unfold commit at hc
  simp only [writeNulls] at hc
  by_cases c1 : l.tracker.startEpoch + l.tracker.epp > U64MAX
  · simp [c1] at hc
  by_cases c2 : e' ≥ l.tracker.startEpoch + l.tracker.epp
  · simp only [c1, c2, if_false, if_true] at hc
    rcases advance_cases l.tracker with ha | ha
    · simp [ha] at hc
    · simp only [ha, Option.some.injEq] at hc
      subst hc
      refine ⟨adv_wf hwf, rfl, ?_⟩
      intro h E hE hw hcm
      have hE' : l.tracker.startEpoch + l.tracker.epp ≤ E := by omega
      refine ⟨inWindow_adv hw hE', ?_⟩
      simp only [phys_adv hwf hw hE']
      have hne := phys_ne_start hwf hw hE'
      unfold Committed Store.deletePartition at *
      simp [hne]
      exact hcm
  · simp only [c1, c2, if_false, Option.some.injEq] at hc
    subst hc
    exact ⟨hwf, rfl, fun h E _ hw hcm => ⟨hw, hcm⟩⟩

/-- a commit keeps every record of an intent that is still unexpired afterwards -/
theorem commit_keeps_rec (l l' : Ledger) (hwf : l.tracker.WF) (e' : Nat) (ns : List Nullif) (succ : Bool)
    (hmono : l.epoch ≤ e') (hc : commit l e' ns succ = some l') (h E : Nat) (hr : Rec l h E) :
    l'.tracker.WF ∧ l'.epoch = e' ∧ Rec l' h E := by
  rw [commit_split] at hc
  cases hw : writeNulls l.tracker succ l.store ns with
  | none => simp [hw] at hc
  | some st =>
    simp only [hw] at hc
    obtain ⟨hwf', he, hk⟩ := commit_nil_keeps { l with store := st } l' hwf e' hc
    refine ⟨hwf', he, ?_⟩
    intro hlt
    rw [he] at hlt
    obtain ⟨hwin, hcm⟩ := hr (by omega)
    exact hk h E hlt hwin (writeNulls_keeps l.tracker succ ns l.store st hw _ _ hcm)

/-- a commit records every intent it nullifies -/
theorem commit_records (l l' : Ledger) (hwf : l.tracker.WF) (e' : Nat) (ns : List Nullif) (succ : Bool)
    (hc : commit l e' ns succ = some l') (n : Nullif) (hn : n ∈ ns) (heff : n.kind = .tx ∨ succ = true) :
    Rec l' n.hash n.expiry := by
  rw [commit_split] at hc
  cases hw : writeNulls l.tracker succ l.store ns with
  | none => simp [hw] at hc
  | some st =>
    simp only [hw] at hc
    obtain ⟨_, he, hk⟩ := commit_nil_keeps { l with store := st } l' hwf e' hc
    obtain ⟨hwin, hcm⟩ := writeNulls_records l.tracker hwf succ ns l.store st hw n hn heff
    intro hlt
    rw [he] at hlt
    exact hk _ _ hlt hwin hcm

/-! ### The invariant along histories -/

/-- **`ring_inv`, record half**: one step of any history with a non-decreasing epoch keeps the
tracker well-formed and keeps the record of every intent that has not expired. -/
theorem next_keeps_rec (l l' : Ledger) (hwf : l.tracker.WF) (s : Step) (hm : StepMono l s)
    (hn : next l s = some l') (h E : Nat) (hr : Rec l h E) :
    l'.tracker.WF ∧ l.epoch ≤ l'.epoch ∧ Rec l' h E := by
  unfold next step at hn
  cases s with
  | user tx succ =>
    simp only at hn
    cases hb : boot l tx with
    | ok =>
      simp only [hb] at hn
      cases hc : commit l l.epoch tx.nulls succ with
      | none => simp [hc] at hn
      | some l'' =>
        simp only [hc, Option.some.injEq] at hn
        subst hn
        obtain ⟨a, b, c⟩ := commit_keeps_rec l l'' hwf l.epoch tx.nulls succ (Nat.le_refl _) hc h E hr
        exact ⟨a, by omega, c⟩
    | reject r => simp only [hb, Option.some.injEq] at hn; subst hn; exact ⟨hwf, Nat.le_refl _, hr⟩
    | panic => simp [hb] at hn
  | system e' =>
    simp only at hn
    cases hc : commit l e' [] true with
    | none => simp [hc] at hn
    | some l'' =>
      simp only [hc, Option.some.injEq] at hn
      subst hn
      obtain ⟨a, b, c⟩ := commit_keeps_rec l l'' hwf e' [] true hm hc h E hr
      exact ⟨a, by simp only [StepMono] at hm; omega, c⟩
  | jump e' =>
    simp only [Option.some.injEq] at hn
    subst hn
    simp only [StepMono] at hm
    refine ⟨hwf, hm, ?_⟩
    intro hlt
    exact hr (by simp only at hlt; omega)

theorem run_keeps_rec (l l' : Ledger) (hwf : l.tracker.WF) (ss : List Step) (hm : Mono l ss)
    (hr : run l ss = some l') (h E : Nat) (hrec : Rec l h E) :
    l'.tracker.WF ∧ l.epoch ≤ l'.epoch ∧ Rec l' h E := by
  induction ss generalizing l with
  | nil => simp only [run, Option.some.injEq] at hr; subst hr; exact ⟨hwf, Nat.le_refl _, hrec⟩
  | cons s ss ih =>
    unfold run at hr
    cases hn : next l s with
    | none => simp [hn] at hr
    | some l1 =>
      simp only [hn] at hr
      obtain ⟨hm1, hm2⟩ := hm
      obtain ⟨a, b, c⟩ := next_keeps_rec l l1 hwf s hm1 hn h E hrec
      obtain ⟨a', b', c'⟩ := ih l1 a (hm2 l1 hn) hr c
      exact ⟨a', by omega, c'⟩

/-- **`no_double_commit`**. After a transaction carrying intent `n = (hash, expiry)` has committed
(transaction intent: success or failure; subintent: success), then — whatever happens in between, as
long as the epoch never decreases — no transaction that carries the same intent and whose validity
window ends no later than that expiry commits again: it is rejected at boot or the engine panics. -/
theorem no_double_commit
    (l0 l1 l2 : Ledger) (hwf : l0.tracker.WF)
    (tx1 : Tx) (succ1 : Bool) (hstep : step l0 (.user tx1 succ1) = .committed l1)
    (n : Nullif) (hn : n ∈ tx1.nulls) (heff : n.kind = .tx ∨ succ1 = true)
    (mid : List Step) (hmono : Mono l1 mid) (hrun : run l1 mid = some l2)
    (tx2 : Tx) (succ2 : Bool) (n2 : Nullif) (hn2 : n2 ∈ tx2.nulls)
    (hsame : n2.hash = n.hash ∧ n2.expiry = n.expiry)
    (s e : Nat) (hrange : tx2.range = some (s, e)) (hend : e ≤ n.expiry) :
    (∃ r, step l2 (.user tx2 succ2) = .rejected r) ∨ step l2 (.user tx2 succ2) = .panic := by
  -- the first commit wrote the record
  have hrec1 : l1.tracker.WF ∧ Rec l1 n.hash n.expiry := by
    unfold step at hstep
    cases hb : boot l0 tx1 with
    | ok =>
      simp only [hb] at hstep
      cases hc : commit l0 l0.epoch tx1.nulls succ1 with
      | none => simp [hc] at hstep
      | some l'' =>
        simp only [hc, StepRes.committed.injEq] at hstep
        subst hstep
        have r0 : Rec l0 0 0 := fun h => absurd h (Nat.not_lt_zero _)
        exact ⟨(commit_keeps_rec l0 l'' hwf l0.epoch tx1.nulls succ1 (Nat.le_refl _) hc 0 0 r0).1,
               commit_records l0 l'' hwf l0.epoch tx1.nulls succ1 hc n hn heff⟩
    | reject r => simp [hb] at hstep
    | panic => simp [hb] at hstep
  -- the record survives the history in between
  obtain ⟨hwf2, _, hrec2⟩ := run_keeps_rec l1 l2 hrec1.1 mid hmono hrun n.hash n.expiry hrec1.2
  -- the second transaction does not boot
  have hboot : boot l2 tx2 ≠ .ok := by
    unfold boot
    simp only [hrange]
    cases hv : validateEpochRange l2.epoch s e with
    | some r => simp
    | none =>
      simp only
      have hwin := (epoch_window_accept_iff l2.epoch s e).mp hv
      obtain ⟨hw, hc⟩ := hrec2 (by omega)
      apply bootNulls_not_ok l2 tx2.nulls n2 hn2
      rw [hsame.1, hsame.2]
      rcases validateIntentHash_of_rec l2 hwf2 n.hash n.expiry hw hc with h | h <;> simp [h]
  cases hb : boot l2 tx2 with
  | ok => exact absurd hb hboot
  | reject r => left; exact ⟨r, by simp only [step, hb]⟩
  | panic => right; simp only [step, hb]

/-! ### No panic and ring anchoring in single-step histories (needs the constants) -/

/-- the ring is anchored to the current epoch -/
structure Inv (l : Ledger) : Prop where
  wf : l.tracker.WF
  lo : l.tracker.startEpoch ≤ l.epoch
  hi : l.epoch < l.tracker.startEpoch + l.tracker.epp

/-- what static validation guarantees about an executable (C34): every intent's expiry is at or after
the end of the overall window and at most `maxR` after its start -/
def TxAdmissible (maxR : Nat) (tx : Tx) : Prop :=
  ∃ s e, tx.range = some (s, e) ∧ ∀ n ∈ tx.nulls, e ≤ n.expiry ∧ n.expiry ≤ s + maxR

/-- single-step histories: user transactions admitted by validation; system transactions that leave
the epoch unchanged or move it to the next one -/
def StepSingle (maxR : Nat) (l : Ledger) : Step → Prop
  | .user tx _ => TxAdmissible maxR tx
  | .system e' => e' = l.epoch ∨ e' = l.epoch + 1
  | .jump _ => False

/-- the ring covers the longest admissible validity window plus one partition of slack -/
def Covers (t : Tracker) (maxR : Nat) : Prop := maxR + t.epp ≤ t.n * t.epp

/-- **`partition_total`** (general form): while the ring is anchored to the current epoch and covers
`maxR`, every expiry that validation admits at this epoch has a partition inside the range. -/
theorem partition_total_of_covers (l : Ledger) (hinv : Inv l) (maxR : Nat) (hcov : Covers l.tracker maxR)
    (hov : l.tracker.startEpoch + l.tracker.n * l.tracker.epp ≤ U64MAX)
    (E : Nat) (h1 : l.epoch < E) (h2 : E ≤ l.epoch + maxR) :
    partitionForExpiry l.tracker E = .some (phys l.tracker E) ∧
      l.tracker.rs ≤ phys l.tracker E ∧ phys l.tracker E ≤ l.tracker.re := by
  obtain ⟨hwf, hlo, hhi⟩ := hinv
  have hw : InWindow l.tracker E := by
    unfold InWindow; unfold Covers at hcov; omega
  rw [pfe_spec l.tracker hwf hov E]
  simp only [hw, if_true, true_and]
  exact phys_range hwf hw

theorem bootNulls_no_panic (l : Ledger) (ns : List Nullif)
    (h : ∀ n ∈ ns, ∃ p, partitionForExpiry l.tracker n.expiry = .some p) : bootNulls l ns ≠ .panic := by
  induction ns with
  | nil => simp [bootNulls]
  | cons m ms ih =>
    unfold bootNulls
    obtain ⟨p, hp⟩ := h m (List.mem_cons_self ..)
    have hv : validateIntentHash l m.hash m.expiry ≠ .panic := by
      unfold validateIntentHash
      rw [hp]
      simp only
      cases hs : l.store p m.hash with
      | none => simp
      | some st => cases st <;> simp
    cases hv' : validateIntentHash l m.hash m.expiry with
    | ok => simpa using ih (fun n hn => h n (List.mem_cons_of_mem _ hn))
    | reject r => simp
    | panic => exact absurd hv' hv

theorem writeNulls_no_panic (t : Tracker) (succ : Bool) (ns : List Nullif) (st : Store)
    (h : ∀ n ∈ ns, ∃ p, partitionForExpiry t n.expiry = .some p) : writeNulls t succ st ns ≠ none := by
  induction ns generalizing st with
  | nil => simp [writeNulls]
  | cons m ms ih =>
    unfold writeNulls
    obtain ⟨p, hp⟩ := h m (List.mem_cons_self ..)
    by_cases c : m.kind = .sub ∧ succ = false
    · rw [if_pos c]
      exact ih st (fun n hn => h n (List.mem_cons_of_mem _ hn))
    · rw [if_neg c]
      simp only [hp]
      exact ih _ (fun n hn => h n (List.mem_cons_of_mem _ hn))

/-- **`ring_inv`, anchoring half + no panic**: in a single-step history with expiries admitted by
validation, a step never panics and keeps the ring anchored to the current epoch. -/
theorem step_single_safe (l : Ledger) (hinv : Inv l) (maxR : Nat) (hcov : Covers l.tracker maxR)
    (hov : l.tracker.startEpoch + (l.tracker.n + 1) * l.tracker.epp ≤ U64MAX)
    (s : Step) (hs : StepSingle maxR l s) :
    ∃ l', next l s = some l' ∧ Inv l' ∧ Covers l'.tracker maxR ∧
      l'.tracker.n = l.tracker.n ∧ l'.tracker.epp = l.tracker.epp ∧
      l'.epoch ≤ l.epoch + 1 ∧ l.epoch ≤ l'.epoch ∧ l'.tracker.startEpoch ≤ l'.epoch := by
  have hov' : l.tracker.startEpoch + l.tracker.n * l.tracker.epp ≤ U64MAX := by
    rw [Nat.add_mul] at hov; omega
  have hov1 : ¬ l.tracker.startEpoch + l.tracker.epp > U64MAX := by
    rw [Nat.add_mul] at hov
    have : 0 < l.tracker.n := by unfold Tracker.n; omega
    have : l.tracker.epp ≤ l.tracker.n * l.tracker.epp := Nat.le_mul_of_pos_left _ this
    omega
  obtain ⟨hwf, hlo, hhi⟩ := hinv
  have hinv : Inv l := ⟨hwf, hlo, hhi⟩
  cases s with
  | user tx succ =>
    obtain ⟨s0, e0, hr, hall⟩ := hs
    unfold next step
    simp only
    -- partitions exist for every nullification once the epoch check has passed
    have hparts : s0 ≤ l.epoch → l.epoch < e0 →
        ∀ n ∈ tx.nulls, ∃ p, partitionForExpiry l.tracker n.expiry = .some p := by
      intro ha hb n hn
      obtain ⟨h1, h2⟩ := hall n hn
      exact ⟨_, (partition_total_of_covers l hinv maxR hcov hov' n.expiry (by omega) (by omega)).1⟩
    cases hb : boot l tx with
    | reject r => exact ⟨l, rfl, hinv, hcov, rfl, rfl, by omega, Nat.le_refl _, hlo⟩
    | panic =>
      exfalso
      unfold boot at hb
      simp only [hr] at hb
      cases hv : validateEpochRange l.epoch s0 e0 with
      | some r => simp [hv] at hb
      | none =>
        simp only [hv] at hb
        have hwin := (epoch_window_accept_iff l.epoch s0 e0).mp hv
        exact bootNulls_no_panic l tx.nulls (hparts hwin.1 hwin.2) hb
    | ok =>
      simp only
      have hwin : s0 ≤ l.epoch ∧ l.epoch < e0 := by
        unfold boot at hb
        simp only [hr] at hb
        cases hv : validateEpochRange l.epoch s0 e0 with
        | some r => simp [hv] at hb
        | none => exact (epoch_window_accept_iff l.epoch s0 e0).mp hv
      have hw := writeNulls_no_panic l.tracker succ tx.nulls l.store (hparts hwin.1 hwin.2)
      cases hwn : writeNulls l.tracker succ l.store tx.nulls with
      | none => exact absurd hwn hw
      | some st =>
        have hc2 : ¬ l.epoch ≥ l.tracker.startEpoch + l.tracker.epp := by omega
        have : commit l l.epoch tx.nulls succ = some { tracker := l.tracker, store := st, epoch := l.epoch } := by
          unfold commit
          simp [hwn, hov1, hc2]
        rw [this]
        exact ⟨_, rfl, ⟨hwf, hlo, hhi⟩, hcov, rfl, rfl, by simp, by simp, hlo⟩
  | system e' =>
    unfold next step
    simp only
    unfold commit
    simp only [writeNulls, hov1, if_false]
    by_cases c2 : e' ≥ l.tracker.startEpoch + l.tracker.epp
    · have he : e' = l.tracker.startEpoch + l.tracker.epp := by
        rcases hs with h | h <;> omega
      have hadv := advance_spec l.tracker hwf (by omega)
      simp only [c2, if_true, hadv]
      refine ⟨_, rfl, ⟨adv_wf hwf, ?_, ?_⟩, ?_, rfl, rfl, ?_, ?_, ?_⟩
      · simp only [adv_startEpoch]; omega
      · simp only [adv_startEpoch, adv_epp]; have := hwf.epp_pos; omega
      · unfold Covers at *; simpa using hcov
      · simp only; rcases hs with h | h <;> omega
      · simp only; omega
      · simp only [adv_startEpoch]; omega
    · simp only [c2, if_false]
      refine ⟨_, rfl, ⟨hwf, ?_, ?_⟩, hcov, rfl, rfl, ?_, ?_, ?_⟩
      · simp only; rcases hs with h | h <;> omega
      · simp only; omega
      · simp only; rcases hs with h | h <;> omega
      · simp only; rcases hs with h | h <;> omega
      · simp only; rcases hs with h | h <;> omega
  | jump e' => exact absurd hs (by simp [StepSingle])

/-- single-step histories -/
def Single (maxR : Nat) : Ledger → List Step → Prop
  | _, [] => True
  | l, s :: ss => StepSingle maxR l s ∧ ∀ l', next l s = some l' → Single maxR l' ss

/-- **no panic along whole histories**: from an anchored ledger, a single-step history of admissible
transactions that stays `len` epochs away from the `u64` limit runs to the end without panic and ends
anchored. -/
theorem run_single_safe (maxR : Nat) (ss : List Step) (l : Ledger) (hinv : Inv l)
    (hcov : Covers l.tracker maxR)
    (hov : l.epoch + ss.length + (l.tracker.n + 1) * l.tracker.epp ≤ U64MAX)
    (hs : Single maxR l ss) : ∃ l', run l ss = some l' ∧ Inv l' := by
  induction ss generalizing l with
  | nil => exact ⟨l, rfl, hinv⟩
  | cons s ss ih =>
    obtain ⟨h1, h2⟩ := hs
    have hlo := hinv.lo
    obtain ⟨l1, hn, hinv1, hcov1, hn1, hepp1, hup, _, _⟩ :=
      step_single_safe l hinv maxR hcov (by simp only [List.length_cons] at hov; omega) s h1
    unfold run
    simp only [hn]
    apply ih l1 hinv1 hcov1 _ (h2 l1 hn)
    rw [hn1, hepp1]
    simp only [List.length_cons] at hov
    omega

/-! ### The constants of the compiled tree -/

open Radix.Generated.C07

/-- the tracker created at genesis (`TransactionTrackerBlueprint::create`) with the package constants -/
def genesisTracker (e : Nat) : Tracker :=
  Tracker.create e PARTITION_RANGE_START PARTITION_RANGE_END EPOCHS_PER_PARTITION

/-- the constants give a well-formed ring … -/
theorem genesis_wf (e : Nat) : (genesisTracker e).WF := by
  refine ⟨?_, ?_, ?_, ?_, ?_⟩ <;> simp only [genesisTracker, Tracker.create] <;> decide

/-- … which covers the maximal validity window of every validation configuration in use, with one
partition of slack: `num_partitions * epochs_per_partition ≥ max_epoch_range + epochs_per_partition`.
(Re-checked against the constants of the current tree on every run.) -/
theorem genesis_covers (e : Nat) :
    Covers (genesisTracker e) MAX_EPOCH_RANGE_BABYLON ∧
    Covers (genesisTracker e) MAX_EPOCH_RANGE_CUTTLEFISH ∧
    Covers (genesisTracker e) MAX_EPOCH_RANGE_LATEST := by
  refine ⟨?_, ?_, ?_⟩ <;> simp only [Covers, Tracker.n, genesisTracker, Tracker.create] <;> decide

/-- **`partition_total`** for the real constants: on any ledger reached from genesis by a single-step
history, every expiry epoch that validation admits (`epoch < E ≤ epoch + max_epoch_range`) has a
partition — the `.expect(..)`s in `validate_intent_hash_uncosted` / `update_transaction_tracker`
cannot fire. -/
theorem partition_total (e0 : Nat) (st0 : Store) (ss : List Step) (maxR : Nat)
    (hmax : maxR = MAX_EPOCH_RANGE_BABYLON ∨ maxR = MAX_EPOCH_RANGE_CUTTLEFISH ∨ maxR = MAX_EPOCH_RANGE_LATEST)
    (hs : Single maxR { tracker := genesisTracker e0, store := st0, epoch := e0 } ss)
    (hov : e0 + ss.length + ((genesisTracker e0).n + 1) * (genesisTracker e0).epp ≤ U64MAX) :
    ∃ l, run { tracker := genesisTracker e0, store := st0, epoch := e0 } ss = some l ∧ Inv l ∧
      ∀ E, l.epoch < E → E ≤ l.epoch + maxR →
        l.tracker.startEpoch + l.tracker.n * l.tracker.epp ≤ U64MAX →
        ∃ p, partitionForExpiry l.tracker E = .some p ∧ l.tracker.rs ≤ p ∧ p ≤ l.tracker.re := by
  have hcov : Covers (genesisTracker e0) maxR := by
    rcases hmax with h | h | h <;> rw [h]
    · exact (genesis_covers e0).1
    · exact (genesis_covers e0).2.1
    · exact (genesis_covers e0).2.2
  have hinv0 : Inv { tracker := genesisTracker e0, store := st0, epoch := e0 } :=
    ⟨genesis_wf e0, Nat.le_refl _, by
      simp only [genesisTracker, Tracker.create]
      have : 0 < EPOCHS_PER_PARTITION := by decide
      omega⟩
  -- strengthen: Covers is preserved along the run
  have key : ∀ (ss : List Step) (l : Ledger), Inv l → Covers l.tracker maxR →
      l.epoch + ss.length + (l.tracker.n + 1) * l.tracker.epp ≤ U64MAX → Single maxR l ss →
      ∃ l', run l ss = some l' ∧ Inv l' ∧ Covers l'.tracker maxR := by
    intro ss
    induction ss with
    | nil => intro l hi hc _ _; exact ⟨l, rfl, hi, hc⟩
    | cons s ss ih =>
      intro l hi hc hov hs
      obtain ⟨h1, h2⟩ := hs
      have hlo := hi.lo
      obtain ⟨l1, hn, hinv1, hcov1, hn1, hepp1, hup, _, _⟩ :=
        step_single_safe l hi maxR hc (by simp only [List.length_cons] at hov; omega) s h1
      unfold run
      simp only [hn]
      apply ih l1 hinv1 hcov1 _ (h2 l1 hn)
      rw [hn1, hepp1]
      simp only [List.length_cons] at hov
      omega
  obtain ⟨l, hr, hi, hc⟩ := key ss _ hinv0 hcov hov hs
  refine ⟨l, hr, hi, ?_⟩
  intro E h1 h2 hov'
  obtain ⟨a, b, c⟩ := partition_total_of_covers l hi maxR hc hov' E h1 h2
  exact ⟨_, a, b, c⟩

/-- The tracker substate found in the database right after the real genesis (read from a freshly
bootstrapped `LedgerSimulator` on every run) *is* `genesisTracker` of its start epoch, and the ledger
is anchored: the hypotheses of `partition_total` / `run_single_safe` hold for the real initial state. -/
theorem real_genesis_is_anchored :
    ({ startEpoch := GENESIS_START_EPOCH, startPartition := GENESIS_START_PARTITION,
       rs := GENESIS_RANGE_START, re := GENESIS_RANGE_END, epp := GENESIS_EPOCHS_PER_PARTITION } : Tracker)
      = genesisTracker GENESIS_START_EPOCH ∧
    Inv { tracker := genesisTracker GENESIS_START_EPOCH, store := Store.empty, epoch := GENESIS_EPOCH } := by
  refine ⟨by decide, genesis_wf _, by decide, by decide⟩

/-! ### Non-vacuity: concrete states satisfying the hypotheses -/

/-- a ledger at epoch 1234 on the real ring, with the replay record of intent `(7, 1300)` -/
def exLedger : Ledger :=
  { tracker := { startEpoch := 1200, startPartition := 254, rs := 65, re := 255, epp := 100 },
    store := Store.empty, epoch := 1234 }

def exTx : Tx := { range := some (1230, 1300), nulls := [{ kind := .tx, hash := 7, expiry := 1300 }] }

example : exLedger.tracker.WF := by refine ⟨?_, ?_, ?_, ?_, ?_⟩ <;> decide
example : Inv exLedger := ⟨by refine ⟨?_, ?_, ?_, ?_, ?_⟩ <;> decide, by decide, by decide⟩
example : TxAdmissible 8640 exTx := ⟨1230, 1300, rfl, by simp [exTx]⟩
-- the expiry 1300 lives in the wrapped-around partition 65 (254 → 255 → 65)
example : partitionForExpiry exLedger.tracker 1300 = .some 255 := by decide
example : partitionForExpiry exLedger.tracker 1400 = .some 65 := by decide
-- first submission commits, the identical resubmission is rejected as previously committed,
-- also after the ring has advanced past a partition boundary
example : (match step exLedger (.user exTx false) with | .committed _ => true | _ => false) = true := by decide
example : (match step exLedger (.user exTx false) with
    | .committed l1 => (match step l1 (.user exTx true) with | .rejected (.prevCommitted 7) => true | _ => false)
    | _ => false) = true := by decide
example : (match step exLedger (.user exTx false) with
    | .committed l1 => (match run l1 [.jump 1299, .system 1299, .system 1300] with
      | some l2 => decide (l2.tracker.startEpoch = 1300) && (match step l2 (.user exTx true) with | .rejected (.noLongerValid 1299 1300) => true | _ => false)
      | none => false)
    | _ => false) = true := by decide
example : (match step exLedger (.user exTx false) with
    | .committed l1 => (match run l1 [.jump 1299, .system 1299] with
      | some l2 => (match step l2 (.user exTx true) with | .rejected (.prevCommitted 7) => true | _ => false)
      | none => false)
    | _ => false) = true := by decide
-- a failed subintent is *not* recorded (so the statement's `heff` hypothesis is needed)
example : (match step exLedger (.user { exTx with nulls := [{ kind := .sub, hash := 7, expiry := 1300 }] } false) with
    | .committed l1 => (match step l1 (.user exTx true) with | .committed _ => true | _ => false)
    | _ => false) = true := by decide

end Radix.Tracker
