/-
C20 — SBOR values round-trip and have a unique encoding.

Property theorems only. Model: `RadixModel/Model/Sbor.lean`; lemmas: `Lemmas/SborSize.lean`,
`Lemmas/Sbor.lean`, `Lemmas/SborFlavours.lean`.

The theorems are stated for an arbitrary flavour `F` satisfying `Flavour.Lawful` (custom value kind
bytes and custom value bodies round-trip) and then instantiated for the three real flavours
(`basic`, `scrypto`, `manifest`), whose lawfulness is proved from the transcribed custom codecs and
the constants regenerated from the code (`Generated/Sbor.lean`).

`Value.WF utf8 wfc v` are the invariants the Rust *types* are meant to guarantee: strings are
UTF-8 and custom values have valid content (`wfc`). For the Scrypto flavour the constructors
enforce `wfc`; for the manifest flavour they do NOT (public enum variants) — that is the recorded
finding `unvalidated-custom-content:m`, witnessed below by `manifest_unvalidated_not_roundtrip`.
-/
import RadixModel.Model.Sbor
import RadixModel.Lemmas.SborSize
import RadixModel.Lemmas.Sbor
import RadixModel.Lemmas.SborFlavours
import RadixModel.Lemmas.SborDepth

set_option linter.unusedSectionVars false

namespace Radix.Sbor
open Radix.Generated

/-! ## Length prefixes -/

/-- Every size up to the cap that `write_size` accepts is read back by `read_size`, consuming
exactly the bytes written. -/
theorem size_roundtrip (n : Nat) (bs rest : Bytes) (h : writeSize n = .ok bs) :
    readSize (bs ++ rest) = .ok (n, rest) := by
  obtain ⟨hmax, rfl⟩ := (writeSize_ok_iff n bs).1 h
  exact readSize_sizeBytes n rest hmax

/-- Length prefixes are canonical: whatever `read_size` accepts is exactly what `write_size`
would have written for that number (no over-long forms, no trailing zero byte, at most 4 bytes). -/
theorem size_canonical (bs : Bytes) (n : Nat) (rest : Bytes) (h : readSize bs = .ok (n, rest)) :
    ∃ enc, writeSize n = .ok enc ∧ bs = enc ++ rest := by
  obtain ⟨hmax, hb⟩ := readSize_canonical bs n rest h
  exact ⟨sizeBytes n, writeSize_ok n hmax, hb⟩

/-- `write_size` succeeds exactly up to the cap found in the compiled code. -/
theorem size_cap (n : Nat) : (∃ bs, writeSize n = .ok bs) ↔ n ≤ Sbor.SBOR_MAX_SIZE := by
  constructor
  · rintro ⟨bs, h⟩; exact ((writeSize_ok_iff n bs).1 h).1
  · intro h; exact ⟨_, writeSize_ok n h⟩

example : writeSize 300 = .ok [0xAC, 0x02] := by rfl
example : readSize [0xAC, 0x02, 0x07] = .ok (300, [0x07]) := by rfl
example : readSize [0x80, 0x00] = .error (.invalidSize, 0) := by rfl          -- non-canonical 0
example : readSize [0xFF, 0xFF, 0xFF, 0xFF, 0x00] = .error (.invalidSize, 1) := by rfl  -- 5 bytes

/-! ## Values: generic flavour -/

section generic
variable {X Y : Type} [DecidableEq X] (F : Flavour X Y) (wfc : Y → Prop) (hF : F.Lawful wfc)
include hF

/-- **decode ∘ encode.** Any well-formed value that the encoder accepts (with depth limit `d`)
is decoded back to the same value by the decoder with the same limit. -/
theorem decode_encode (d : Nat) (v : Value X Y) (bs : Bytes) (hwf : v.WF F.utf8 wfc)
    (h : encodePayload F d v = .ok bs) : decodePayload F d bs = .ok v := by
  simp only [encodePayload, encValue, encField] at h
  split at h
  · simp at h
  · rename_i b hb
    split at hb
    · simp at hb
    · rename_i body hbody
      simp at hb h
      subst hb; subst h
      have := decBody_encBody F wfc hF d d d v body [] hwf hbody
      simp only [List.append_nil] at this
      simp [decodePayload, readByte, decValue, decField, readValueKind_toU8 F.kc hF.kinds, this]

/-- **encode ∘ decode (unique encoding).** Any byte string the decoder accepts as a payload
re-encodes to exactly the same bytes, and the decoded value is well-formed. -/
theorem encode_decode (d : Nat) (bs : Bytes) (v : Value X Y) (h : decodePayload F d bs = .ok v) :
    encodePayload F d v = .ok bs ∧ v.WF F.utf8 wfc := by
  simp only [decodePayload] at h
  cases bs with
  | nil => simp [readByte] at h
  | cons p t =>
    simp only [readByte] at h
    split at h
    · simp at h
    · rename_i hp
      simp at hp
      subst hp
      split at h
      · simp at h
      · rename_i v' rest hv
        split at h
        · simp at h
        · rename_i hrest
          simp at h hrest
          subst h
          simp only [decValue, decField] at hv
          split at hv
          · simp at hv
          · rename_i vk bs' hvk
            have := readValueKind_ok F.kc hF.kinds _ _ _ hvk
            subst this
            obtain ⟨hkind, hwf, body, hbody, rfl⟩ := encBody_decBody F wfc hF d d d _ _ _ _ hv
            subst hrest
            refine ⟨?_, hwf⟩
            simp [encodePayload, encValue, encField, hbody, hkind]

/-- The accepted payloads are exactly the encodings of well-formed values (within the depth limit):
the wire format accepted by the decoder is the image of the encoder. -/
theorem accepted_iff_encoding (d : Nat) (bs : Bytes) (v : Value X Y) :
    decodePayload F d bs = .ok v ↔ (encodePayload F d v = .ok bs ∧ v.WF F.utf8 wfc) :=
  ⟨encode_decode F wfc hF d bs v, fun h => decode_encode F wfc hF d v bs h.2 h.1⟩

/-- The encoder's output does not depend on the depth limit (as long as it accepts). -/
theorem encoding_limit_independent (d d' : Nat) (v : Value X Y) (bs : Bytes)
    (h : encodePayload F d v = .ok bs) (hd : d ≤ d') : encodePayload F d' v = .ok bs := by
  simp only [encodePayload, encValue, encField] at h ⊢
  split at h
  · simp at h
  · rename_i b hb
    split at hb
    · simp at hb
    · rename_i body hbody
      have hdep := encBody_depth F d d v body hbody
      rw [encBody_of_depth F d d' d v body d' hbody (by omega)]
      simp at hb h
      subst hb
      simpa using h

/-- **Unique encoding.** Two well-formed values with the same encoding (under any limits) are equal:
together with `encode_decode` every value has exactly one encoding and every accepted byte string
exactly one value. -/
theorem encoding_injective (d d' : Nat) (v w : Value X Y) (bs : Bytes)
    (hv : v.WF F.utf8 wfc) (hw : w.WF F.utf8 wfc)
    (h1 : encodePayload F d v = .ok bs) (h2 : encodePayload F d' w = .ok bs) : v = w := by
  have e1 := encoding_limit_independent F wfc hF d (max d d') v bs h1 (Nat.le_max_left _ _)
  have e2 := encoding_limit_independent F wfc hF d' (max d d') w bs h2 (Nat.le_max_right _ _)
  have r1 := decode_encode F wfc hF (max d d') v bs hv e1
  have r2 := decode_encode F wfc hF (max d d') w bs hw e2
  rw [r1] at r2
  exact Except.ok.inj r2

end generic

/-! ## The three real flavours -/

/-- Basic SBOR (`basic_encode` / `basic_decode` of `BasicValue`): both round trips. -/
theorem basic_roundtrip (d : Nat) (bs : Bytes) (v : Value Empty Empty) :
    decodePayload basic d bs = .ok v ↔ (encodePayload basic d v = .ok bs ∧ v.WF utf8Valid (fun _ => True)) :=
  accepted_iff_encoding basic _ basic_lawful d bs v

/-- Scrypto SBOR (`scrypto_encode` / `scrypto_decode` of `ScryptoValue`): both round trips. -/
theorem scrypto_roundtrip (d : Nat) (bs : Bytes) (v : Value ScryptoKind ScryptoCustom) :
    decodePayload scrypto d bs = .ok v ↔ (encodePayload scrypto d v = .ok bs ∧ v.WF utf8Valid ScryptoCustom.WF) :=
  accepted_iff_encoding scrypto _ scrypto_lawful d bs v

/-- Manifest SBOR (`manifest_encode` / `manifest_decode` of `ManifestValue`): both round trips,
for values whose custom content is valid (`ManifestCustom.WF`). -/
theorem manifest_roundtrip (d : Nat) (bs : Bytes) (v : Value ManifestKind ManifestCustom) :
    decodePayload manifest d bs = .ok v ↔ (encodePayload manifest d v = .ok bs ∧ v.WF utf8Valid ManifestCustom.WF) :=
  accepted_iff_encoding manifest _ manifest_lawful d bs v

/-- Unique encoding, Scrypto flavour (the one used for substates and keys). -/
theorem scrypto_encoding_injective (d d' : Nat) (v w : Value ScryptoKind ScryptoCustom) (bs : Bytes)
    (hv : v.WF utf8Valid ScryptoCustom.WF) (hw : w.WF utf8Valid ScryptoCustom.WF)
    (h1 : encodePayload scrypto d v = .ok bs) (h2 : encodePayload scrypto d' w = .ok bs) : v = w :=
  encoding_injective scrypto _ scrypto_lawful d d' v w bs hv hw h1 h2

/-- The recorded finding (the hypothesis `ManifestCustom.WF` cannot be dropped): the manifest value
`NonFungibleLocalId(String(""))` is encodable, but its encoding is rejected by the decoder. -/
theorem manifest_unvalidated_not_roundtrip :
    ∃ (v : Value ManifestKind ManifestCustom) (bs : Bytes),
      encodePayload manifest 24 v = .ok bs ∧ decodePayload manifest 24 bs = .error (.invalidCustomValue, 0) :=
  ⟨.custom (.nonFungibleLocalId (.string [])), [0x4d, 0x87, 0x00, 0x00], by rfl, by rfl⟩

/-! ## Non-vacuity -/

-- a well-formed basic value with every container kind, its encoding, and the decoding of that
example :
    let v : Value Empty Empty :=
      .tuple [.int .u8 5, .string [0x68, 0x69], .enum 1 [.bool true],
              .array (.int .u16) [.int .u16 258], .map (.int .u8) .string [(.int .u8 1, .string [])]]
    encodePayload basic 64 v = .ok [0x5b, 0x21, 0x05, 0x07, 0x05, 0x0c, 0x02, 0x68, 0x69, 0x22, 0x01, 0x01, 0x01, 0x01,
        0x20, 0x08, 0x01, 0x02, 0x01, 0x23, 0x07, 0x0c, 0x01, 0x01, 0x00]
    ∧ v.WF utf8Valid (fun _ => True) := by
  constructor
  · rfl
  · simp [Value.WF, WFList, WFEntries, utf8Valid]

example : decodePayload basic 64 [0x5b, 0x21, 0x01, 0x20, 0x07, 0x02, 0xaa, 0xbb]
    = .ok (.tuple [.array (.int .u8) [.int .u8 0xaa, .int .u8 0xbb]]) := by rfl

-- a non-canonical length prefix, an invalid bool, invalid UTF-8, a trailing byte: all rejected
example : decodePayload basic 64 [0x5b, 0x21, 0x80, 0x00] = .error (.invalidSize, 0) := by rfl
example : decodePayload basic 64 [0x5b, 0x01, 0x02] = .error (.invalidBool 2, 0) := by rfl
example : decodePayload basic 64 [0x5b, 0x0c, 0x01, 0xff] = .error (.invalidUtf8, 0) := by rfl
example : decodePayload basic 64 [0x5b, 0x21, 0x00, 0x00] = .error (.extraTrailingBytes 1, 1) := by rfl

-- Scrypto: an integer non-fungible local id inside an array
example : encodePayload scrypto 64 (.array (.custom .nonFungibleLocalId) [.custom (.nonFungibleLocalId (.integer 7))])
    = .ok [0x5c, 0x20, 0xc0, 0x01, 0x01, 0, 0, 0, 0, 0, 0, 0, 7] := by rfl
example : (Value.custom (.nonFungibleLocalId (.integer 7)) : Value ScryptoKind ScryptoCustom).WF utf8Valid ScryptoCustom.WF := by
  simp [Value.WF, ScryptoCustom.WF, NFId.WF]

end Radix.Sbor
