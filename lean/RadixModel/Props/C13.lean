/-
C13 — Substate locks are exclusive for writers.

Property theorems only. Model: `RadixModel/Model/Locks.lean`.
-/
import RadixModel.Model.Locks
import RadixModel.Lemmas.Locks

namespace Radix.Locks

/-- Open handles on substate `k`. -/
def on (s : Locks) (k : Key) : List Handle := s.handles.filter (fun hd => hd.key == k)

/-- Open handles on node `n`. -/
def onNode (s : Locks) (n : Nat) : List Handle := s.handles.filter (fun hd => hd.key.1 == n)

/-- The reader/writer invariant relating the counting state to the set of open handles. -/
structure Inv (s : Locks) : Prop where
  fresh : ∀ hd ∈ s.handles, hd.id < s.next
  nodup : s.handles.Pairwise (fun a b => a.id ≠ b.id)
  state : ∀ k, match s.st k with
    | .write => ∃ hd, on s k = [hd] ∧ hd.ro = false
    | .read n => (on s k).length = n ∧ ∀ hd ∈ on s k, hd.ro = true
  node : ∀ n, s.nodeCnt n = (onNode s n).length

theorem inv_init : Inv init := by
  refine ⟨?_, ?_, ?_, ?_⟩ <;> simp [init, on, onNode]

private theorem on_cons (s : Locks) (hd : Handle) (k : Key) (st nc nx) :
    on { handles := hd :: s.handles, st := st, nodeCnt := nc, next := nx } k
      = if hd.key = k then hd :: on s k else on s k := by
  unfold on; simp only [List.filter_cons, beq_iff_eq]

theorem inv_lock (s : Locks) (k : Key) (ro : Bool) (h : Inv s) : Inv (lock s k ro).1 := by
  unfold lock
  cases hst : s.st k with
  | write => simp [LState.tryLock]; exact h
  | read n =>
    have hk := h.state k
    rw [hst] at hk
    cases ro with
    | true =>
      simp only [LState.tryLock]
      refine ⟨?_, ?_, ?_, ?_⟩
      · intro hd hmem
        simp only [List.mem_cons] at hmem
        rcases hmem with rfl | hmem
        · simp
        · have := h.fresh hd hmem; simp; omega
      · simp only [List.pairwise_cons]
        refine ⟨?_, h.nodup⟩
        intro b hb; have := h.fresh b hb; simp; omega
      · intro k'
        simp only [upd]
        by_cases hkk : k' = k
        · subst hkk
          simp only [if_true]
          rw [on_cons]; simp only [if_true]
          refine ⟨by simp [hk.1], ?_⟩
          intro hd hmem
          simp only [List.mem_cons] at hmem
          rcases hmem with rfl | hmem
          · rfl
          · exact hk.2 hd hmem
        · simp only [hkk, if_false]
          have := h.state k'
          rw [on_cons]
          have hne : ¬ (k = k') := fun e => hkk e.symm
          simp only [hne, if_false]
          exact this
      · intro n'
        simp only [upd, onNode, List.filter_cons]
        by_cases hn : n' = k.1
        · subst hn; simp; exact h.node _
        · have hne : ¬ (k.1 = n') := fun e => hn e.symm
          simp [hn, hne]; exact h.node _
    | false =>
      cases n with
      | succ m => simp [LState.tryLock]; exact h
      | zero =>
        simp only [LState.tryLock]
        have hnil : on s k = [] := List.eq_nil_of_length_eq_zero hk.1
        refine ⟨?_, ?_, ?_, ?_⟩
        · intro hd hmem
          simp only [List.mem_cons] at hmem
          rcases hmem with rfl | hmem
          · simp
          · have := h.fresh hd hmem; simp; omega
        · simp only [List.pairwise_cons]
          refine ⟨?_, h.nodup⟩
          intro b hb; have := h.fresh b hb; simp; omega
        · intro k'
          simp only [upd]
          by_cases hkk : k' = k
          · subst hkk
            simp only [if_true]
            rw [on_cons]; simp only [if_true, hnil]
            exact ⟨_, rfl, rfl⟩
          · simp only [hkk, if_false]
            have := h.state k'
            rw [on_cons]
            have hne : ¬ (k = k') := fun e => hkk e.symm
            simp only [hne, if_false]
            exact this
        · intro n'
          simp only [upd, onNode, List.filter_cons]
          by_cases hn : n' = k.1
          · subst hn; simp; exact h.node _
          · have hne : ¬ (k.1 = n') := fun e => hn e.symm
            simp [hn, hne]; exact h.node _


private theorem on_filter (s : Locks) (h : Nat) (k : Key) (st nc nx) :
    on { handles := s.handles.filter (fun x => x.id != h), st := st, nodeCnt := nc, next := nx } k
      = (on s k).filter (fun x => x.id != h) := by
  unfold on; simp only [List.filter_filter]; congr 1; funext x; exact Bool.and_comm _ _

private theorem onNode_filter (s : Locks) (h : Nat) (n : Nat) (st nc nx) :
    onNode { handles := s.handles.filter (fun x => x.id != h), st := st, nodeCnt := nc, next := nx } n
      = (onNode s n).filter (fun x => x.id != h) := by
  unfold onNode; simp only [List.filter_filter]; congr 1; funext x; exact Bool.and_comm _ _

theorem on_pairwise (s : Locks) (h : Inv s) (k : Key) :
    (on s k).Pairwise (fun a b => a.id ≠ b.id) := h.nodup.sublist List.filter_sublist

theorem onNode_pairwise (s : Locks) (h : Inv s) (n : Nat) :
    (onNode s n).Pairwise (fun a b => a.id ≠ b.id) := h.nodup.sublist List.filter_sublist

theorem inv_unlock (s : Locks) (h : Nat) (hi : Inv s) {s' : Locks} {k : Key}
    (hu : unlock s h = some (s', k)) : Inv s' := by
  unfold unlock at hu
  cases hf : s.handles.find? (fun hd => hd.id == h) with
  | none => simp [hf] at hu
  | some hd =>
    simp only [hf] at hu
    have hmem : hd ∈ s.handles := List.mem_of_find?_eq_some hf
    have hid : hd.id = h := by have := List.find?_some hf; simpa using this
    subst hid
    have hon : hd ∈ on s hd.key := by simp [on, hmem]
    have honN : hd ∈ onNode s hd.key.1 := by simp [onNode, hmem]
    have huniq : ∀ x ∈ s.handles, x.id = hd.id → x = hd :=
      fun x hx e => uniq_of_pairwise hi.nodup hx hmem e
    cases hls : (s.st hd.key).unlock with
    | none => simp [hls] at hu
    | some ls =>
      simp only [hls] at hu
      split at hu
      · cases hu
      · rename_i hcnt
        simp only [Option.some.injEq, Prod.mk.injEq] at hu
        obtain ⟨rfl, rfl⟩ := hu
        refine ⟨?_, ?_, ?_, ?_⟩
        · intro x hx
          exact hi.fresh x ((List.mem_filter.mp hx).1)
        · exact hi.nodup.sublist List.filter_sublist
        · intro k'
          simp only [upd]
          rw [on_filter]
          by_cases hkk : k' = hd.key
          · subst hkk
            simp only [if_true]
            have hst := hi.state hd.key
            have hlen := filter_ne_length (on_pairwise s hi hd.key) hon
            cases hcur : s.st hd.key with
            | write =>
              rw [hcur] at hst hls
              simp only [LState.unlock, Option.some.injEq] at hls
              subst hls
              obtain ⟨hd', hl, _⟩ := hst
              rw [hl] at hlen
              simp only [List.length_cons, List.length_nil] at hlen
              have : (List.filter (fun x => x.id != hd.id) (on s hd.key)).length = 0 := by
                rw [hl]; omega
              have hnil := List.eq_nil_of_length_eq_zero this
              simp [hnil]
            | read n =>
              rw [hcur] at hst hls
              cases n with
              | zero => simp [LState.unlock] at hls
              | succ m =>
                simp only [LState.unlock, Option.some.injEq] at hls
                subst hls
                refine ⟨by omega, ?_⟩
                intro x hx
                exact hst.2 x ((List.mem_filter.mp hx).1)
          · simp only [hkk, if_false]
            have hno : ∀ x ∈ on s k', x.id ≠ hd.id := by
              intro x hx e
              have hx' : x ∈ s.handles := (List.mem_filter.mp hx).1
              have := huniq x hx' e
              subst this
              simp [on] at hx
              exact hkk hx.2.symm
            rw [filter_ne_self hno]
            exact hi.state k'
        · intro n'
          simp only [upd]
          rw [onNode_filter]
          by_cases hn : n' = hd.key.1
          · subst hn
            simp only [if_true]
            have hlen := filter_ne_length (onNode_pairwise s hi hd.key.1) honN
            have := hi.node hd.key.1
            omega
          · simp only [hn, if_false]
            have hno : ∀ x ∈ onNode s n', x.id ≠ hd.id := by
              intro x hx e
              have hx' : x ∈ s.handles := (List.mem_filter.mp hx).1
              have := huniq x hx' e
              subst this
              simp [onNode] at hx
              exact hn hx.2.symm
            rw [filter_ne_self hno]
            exact hi.node n'

/-- The invariant holds in every reachable state. -/
theorem inv_step (s : Locks) (op : Op) (h : Inv s) : Inv (step s op) := by
  cases op with
  | lock k ro => exact inv_lock s k ro h
  | unlock hnd =>
    simp only [step]
    cases hu : unlock s hnd with
    | none => exact h
    | some p => obtain ⟨s', k⟩ := p; exact inv_unlock s hnd h hu

theorem inv_reachable (ops : List Op) : Inv (run ops) := by
  unfold run
  suffices ∀ s, Inv s → Inv (ops.foldl step s) from this _ inv_init
  induction ops with
  | nil => intro s h; exact h
  | cons op t ih => intro s h; exact ih _ (inv_step s op h)

/-! ### The property, as corollaries of the invariant (for every reachable state) -/

/-- A substate is never open for writing while any other handle to it is open. -/
theorem writer_exclusive (ops : List Op) (w x : Handle)
    (hw : w ∈ (run ops).handles) (hx : x ∈ (run ops).handles)
    (hwr : w.ro = false) (hk : x.key = w.key) : x = w := by
  have hi := inv_reachable ops
  have hwon : w ∈ on (run ops) w.key := by simp [on, hw]
  have hxon : x ∈ on (run ops) w.key := by simp [on, hx, hk]
  have hst := hi.state w.key
  cases hcur : (run ops).st w.key with
  | write =>
    rw [hcur] at hst
    obtain ⟨hd, hl, _⟩ := hst
    rw [hl] at hwon hxon
    simp at hwon hxon
    rw [hwon, hxon]
  | read n =>
    rw [hcur] at hst
    have := hst.2 w hwon
    rw [hwr] at this; cases this

/-- `lock` is granted exactly when the reader/writer discipline allows it: a read lock iff no
writer is open on the substate, a write lock iff no handle at all is open on it. -/
theorem lock_granted_iff (ops : List Op) (k : Key) (ro : Bool) :
    (lock (run ops) k ro).2.isSome =
      (if ro then (on (run ops) k).all (fun hd => hd.ro) else (on (run ops) k).isEmpty) := by
  have hi := inv_reachable ops
  have hst := hi.state k
  unfold lock
  cases hcur : (run ops).st k with
  | write =>
    rw [hcur] at hst
    obtain ⟨hd, hl, hro⟩ := hst
    cases ro <;> simp [LState.tryLock, hl, hro]
  | read n =>
    rw [hcur] at hst
    cases ro with
    | true =>
      simp only [LState.tryLock, Option.isSome_some, if_true]
      symm; rw [List.all_eq_true]; exact hst.2
    | false =>
      cases n with
      | zero =>
        have := List.eq_nil_of_length_eq_zero hst.1
        simp [LState.tryLock, this]
      | succ m =>
        have : on (run ops) k ≠ [] := by
          intro e; rw [e] at hst; simp at hst
        simp [LState.tryLock, this]

/-- Any number of read handles may coexist: a read request on a substate with only readers
is always granted and returns a fresh handle. -/
theorem readers_coexist (ops : List Op) (k : Key)
    (h : ∀ hd ∈ on (run ops) k, hd.ro = true) :
    ∃ hnd, (lock (run ops) k true).2 = some hnd ∧ ∀ hd ∈ (run ops).handles, hd.id ≠ hnd := by
  have hi := inv_reachable ops
  have hg := lock_granted_iff ops k true
  simp only [if_true] at hg
  have : (on (run ops) k).all (fun hd => hd.ro) = true := by rw [List.all_eq_true]; exact h
  rw [this] at hg
  unfold lock at hg ⊢
  cases ht : ((run ops).st k).tryLock true with
  | none => simp [ht] at hg
  | some ls =>
    refine ⟨(run ops).next, by simp, ?_⟩
    intro hd hm; have := hi.fresh hd hm; omega

/-- A handle is usable (can be closed, returning the substate it was opened on) exactly from
open until close. -/
theorem handle_usable_iff_open (ops : List Op) (h : Nat) :
    (unlock (run ops) h).isSome = (run ops).handles.any (fun hd => hd.id == h) := by
  have hi := inv_reachable ops
  unfold unlock
  cases hf : (run ops).handles.find? (fun hd => hd.id == h) with
  | none =>
    simp only [Option.isSome_none]
    symm; rw [Bool.eq_false_iff]; intro hany
    rw [List.any_eq_true] at hany
    obtain ⟨x, hx, hxe⟩ := hany
    have := List.find?_eq_none.mp hf x hx
    exact this hxe
  | some hd =>
    have hmem : hd ∈ (run ops).handles := List.mem_of_find?_eq_some hf
    have hid : (hd.id == h) = true := by have := List.find?_some hf; simpa using this
    have hany : (run ops).handles.any (fun hd => hd.id == h) = true :=
      List.any_eq_true.mpr ⟨hd, hmem, hid⟩
    rw [hany]
    have hon : hd ∈ on (run ops) hd.key := by simp [on, hmem]
    have honN : hd ∈ onNode (run ops) hd.key.1 := by simp [onNode, hmem]
    have hst := hi.state hd.key
    have hnode := hi.node hd.key.1
    have hpos : (onNode (run ops) hd.key.1).length > 0 := List.length_pos_of_mem honN
    have hne : (run ops).nodeCnt hd.key.1 ≠ 0 := by omega
    cases hcur : (run ops).st hd.key with
    | write => simp [hcur, LState.unlock, hne]
    | read n =>
      rw [hcur] at hst
      cases n with
      | zero =>
        have := List.eq_nil_of_length_eq_zero hst.1
        rw [this] at hon; cases hon
      | succ m => simp [hcur, LState.unlock, hne]

/-- After a successful close the handle is no longer open (so it is not usable again),
and closing returns the substate the handle was opened on. -/
theorem closed_handle_not_open (ops : List Op) (h : Nat) (s' : Locks) (k : Key)
    (hu : unlock (run ops) h = some (s', k)) :
    (∀ hd ∈ s'.handles, hd.id ≠ h) ∧ (∃ hd ∈ (run ops).handles, hd.id = h ∧ hd.key = k) := by
  unfold unlock at hu
  cases hf : (run ops).handles.find? (fun hd => hd.id == h) with
  | none => simp [hf] at hu
  | some hd =>
    simp only [hf] at hu
    have hmem : hd ∈ (run ops).handles := List.mem_of_find?_eq_some hf
    have hid : hd.id = h := by have := List.find?_some hf; simpa using this
    cases hls : ((run ops).st hd.key).unlock with
    | none => simp [hls] at hu
    | some ls =>
      simp only [hls] at hu
      split at hu
      · cases hu
      · simp only [Option.some.injEq, Prod.mk.injEq] at hu
        obtain ⟨rfl, rfl⟩ := hu
        refine ⟨?_, hd, hmem, hid, rfl⟩
        intro x hx
        simp only [List.mem_filter, bne_iff_ne, ne_eq] at hx
        exact hx.2

/-- `is_locked` reports exactly whether some handle on the substate is open. -/
theorem isLocked_iff (ops : List Op) (k : Key) :
    isLocked (run ops) k = !(on (run ops) k).isEmpty := by
  have hst := (inv_reachable ops).state k
  unfold isLocked
  cases hcur : (run ops).st k with
  | write =>
    rw [hcur] at hst; obtain ⟨hd, hl, _⟩ := hst
    simp [LState.isLocked, hl]
  | read n =>
    rw [hcur] at hst
    cases n with
    | zero =>
      have := List.eq_nil_of_length_eq_zero hst.1
      simp [LState.isLocked, this]
    | succ m =>
      have : on (run ops) k ≠ [] := by intro e; rw [e] at hst; simp at hst
      simp [LState.isLocked, this]

/-- A node is reported locked exactly while some handle on one of its substates is open. -/
theorem nodeIsLocked_iff (ops : List Op) (n : Nat) :
    nodeIsLocked (run ops) n = !(onNode (run ops) n).isEmpty := by
  have := (inv_reachable ops).node n
  unfold nodeIsLocked
  rw [this]
  cases h : onNode (run ops) n <;> simp

/-! ### Non-vacuity: concrete reachable states exercising the hypotheses -/

example : (run [.lock (0,0,0) true, .lock (0,0,0) true]).handles.length = 2 := by decide
example : (lock (run [.lock (0,0,0) true]) (0,0,0) false).2 = none := by decide
example : (lock (run [.lock (0,0,0) false]) (0,0,0) true).2 = none := by decide
example : (lock (run [.lock (0,0,0) false, .unlock 0]) (0,0,0) false).2 = some 1 := by decide
example : (unlock (run [.lock (0,0,0) false, .unlock 0]) 0).isSome = false := by decide

end Radix.Locks
