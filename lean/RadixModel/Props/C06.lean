/-
C06 — Fees are fully paid and exactly distributed.

Property theorems only. Model: `RadixModel/Model/FeeReserve.lean`; invariant and arithmetic lemmas:
`RadixModel/Lemmas/FeeReserve.lean`; protocol constants: `Generated/C06.lean` (rewritten on every
check from the compiled tree).
-/
import RadixModel.Model.FeeReserve
import RadixModel.Lemmas.FeeReserve
import RadixModel.Generated.C06

namespace Radix.Fee
open Radix.Generated.C06

/-! ## 1. Every sequence of fee-reserve calls keeps the accounting invariant -/

/-- the public mutating methods of `SystemLoanFeeReserve` -/
inductive Op where
  | exec (cu : Nat)
  | fin (cu : Nat)
  | storage (t : Storage) (n : Nat)
  | royalty (ra : Royalty) (recipient : Nat)
  | lock (vault : Nat) (amount : Int) (contingent : Bool)
  | repay
  | revert
  | dexec (cu : Nat)
  | dfin (cu : Nat)
  | dstorage (t : Storage) (n : Nat)

def applyOp (r : Reserve) : Op → Reserve × Res
  | .exec cu => consumeExecution r cu
  | .fin cu => consumeFinalization r cu
  | .storage t n => consumeStorage r t n
  | .royalty ra rcp => consumeRoyalty r ra rcp
  | .lock v a c => lockFee r v a c
  | .repay => repayAll r
  | .revert => revertRoyalty r
  | .dexec cu => deferExecution r cu
  | .dfin cu => deferFinalization r cu
  | .dstorage t n => deferStorage r t n

/-- vaults lock non-negative amounts (`FungibleVault::lock_fee` takes from the vault's balance) -/
def Op.admissible : Op → Prop
  | .lock _ a _ => 0 ≤ a
  | _ => True

/-- a whole call sequence; errors are returned to the caller and the reserve lives on, a panic
ends the transaction execution (`none`) -/
def run : Reserve → List Op → Option Reserve
  | r, [] => some r
  | r, op :: ops =>
    match applyOp r op with
    | (_, .panic) => none
    | (r', _) => run r' ops

theorem inv_applyOp (r : Reserve) (op : Op) (h : Inv r) (ha : op.admissible)
    (hp : (applyOp r op).2 ≠ .panic) : Inv (applyOp r op).1 := by
  cases op with
  | exec cu => exact inv_consumeExecution r cu h hp
  | fin cu => exact inv_consumeFinalization r cu h
  | storage t n => exact inv_consumeStorage r t n h hp
  | royalty ra rcp => exact inv_consumeRoyalty r ra rcp h hp
  | lock v a c => exact inv_lockFee r v a c ha h
  | repay => exact inv_repayAll r h hp
  | revert => exact inv_revertRoyalty r h
  | dexec cu => exact inv_deferExecution r cu h
  | dfin cu => exact inv_deferFinalization r cu h
  | dstorage t n => exact inv_deferStorage r t n h

/-- **The accounting invariant holds in every reachable reserve state**: for every costing
parameter set and tip accepted by `new` and every sequence of calls,
`balance − owed = free credit + Σ non-contingent locks − (effective price × units + storage + royalties)`,
with `balance ≥ 0`, `owed ≥ 0`, and the royalty breakdown summing to the royalty cost. -/
theorem invariant_reachable (cp : Costing) (tip : Tip) (free : Int) (ab : Bool) (r0 : Reserve)
    (hnew : Reserve.new cp tip free ab = some r0) (ops : List Op) (hops : ∀ op ∈ ops, op.admissible)
    (r : Reserve) (hrun : run r0 ops = some r) : Inv r := by
  have h0 := (inv_new cp tip free ab r0 hnew).1
  clear hnew
  induction ops generalizing r0 with
  | nil => simp [run] at hrun; subst hrun; exact h0
  | cons op ops ih =>
    unfold run at hrun
    have hadm := hops op (List.mem_cons_self)
    have hrest : ∀ o ∈ ops, o.admissible := fun o ho => hops o (List.mem_cons_of_mem _ ho)
    split at hrun
    · cases hrun
    · rename_i r' res hne heq
      have hp : (applyOp r0 op).2 ≠ .panic := by
        rw [heq]; intro hc; exact hne hc
      have := inv_applyOp r0 op h0 hadm hp
      rw [heq] at this
      exact ih r' hrest hrun this

/-- **limits_never_exceeded**: execution and finalization cost units committed never exceed the
limits of the reserve's costing parameters, whatever is called on it. -/
theorem limits_never_exceeded (cp : Costing) (tip : Tip) (free : Int) (ab : Bool) (r0 : Reserve)
    (hnew : Reserve.new cp tip free ab = some r0) (ops : List Op) (hops : ∀ op ∈ ops, op.admissible)
    (r : Reserve) (hrun : run r0 ops = some r) :
    r.execCommitted ≤ r.cp.execLimit ∧ r.finCommitted ≤ r.cp.finLimit :=
  (invariant_reachable cp tip free ab r0 hnew ops hops r hrun).limits

/-- non-vacuity: protocol parameters, 10 % tip, lock 10 XRD, spend, repay. -/
def exCosting : Costing := ⟨50000000000, 100000000, 4000000, 50000000000, 50000000, 16666666666666666666, 95367430000000, 95367430000000⟩
def exOps : List Op := [.lock 1 10000000000000000000 false, .exec 5000000, .storage .state 100, .royalty (.xrd 1000000000000000000) 7, .fin 1000, .repay]
def exFinal : Option (Int × Int × Nat) :=
  match Reserve.new exCosting (.pct 10) 0 false with
  | some r0 => (run r0 exOps).map (fun r => (r.owed, r.balance, r.execCommitted))
  | none => none
example : exFinal = some (0, 8715408257000000000, 5000000) := by decide +kernel

/-! ## 2. A transaction whose loan is not repaid is never committed -/

theorem repayAll_ok_owed (r r' : Reserve) (h : repayAll r = (r', .ok)) : r'.owed = 0 := by
  unfold repayAll at h
  split at h
  · simp only at h
    split at h
    · split at h
      · split at h
        · split at h
          · cases h
          · rename_i hz
            split at h
            · cases h
            · cases h; simpa using hz
        · cases h
        · cases h
      · rename_i hne _
        cases h; exact (hne rfl).elim
    · rename_i hne _
      cases h; exact (hne rfl).elim
  · rename_i hne _
    cases h; exact (hne rfl).elim

/-- **unrepaid_loan_never_commits**: whatever the interpretation result, `determine_result_type`
yields a commit (success or failure) only for a reserve whose loan is fully repaid — so the
bad debt reported by `finalize` is zero and the executor's first sanity assertion cannot fire. -/
theorem unrepaid_loan_never_commits (i : Interp) (r r' : Reserve) (t : ResultType)
    (h : determineResultType i r = (r', t)) (hc : t = .commitSuccess ∨ t = .commitFailure) :
    r'.owed = 0 ∧ ∀ s, finalize r' = some s → s.badDebt = 0 := by
  have howed : r'.owed = 0 := by
    unfold determineResultType at h
    split at h
    · cases h; rcases hc with hc | hc <;> cases hc
    · rename_i r1 res hne heq
      cases i with
      | ok =>
        simp only at h
        split at h
        · cases h; exact repayAll_ok_owed r r' heq
        · cases h; rcases hc with hc | hc <;> cases hc
        · cases h; rcases hc with hc | hc <;> cases hc
      | bootloadErr => cases h; rcases hc with hc | hc <;> cases hc
      | runtimeAbort => cases h; rcases hc with hc | hc <;> cases hc
      | runtimeErr =>
        simp only at h
        split at h
        · rename_i hf
          cases h
          simpa [Reserve.fullyRepaid] using hf
        · cases h; rcases hc with hc | hc <;> cases hc
  refine ⟨howed, ?_⟩
  intro s hs
  unfold finalize at hs
  split at hs
  · split at hs
    · split at hs
      · cases hs; exact howed
      · cases hs
    · cases hs
  · cases hs

/-- …and conversely a successful interpretation whose final `repay_all` fails for lack of funds is rejected. -/
theorem loan_repayment_failure_is_rejected (r r' : Reserve) (o : Int)
    (h : repayAll r = (r', .err (.loanRepaymentFailed o))) :
    determineResultType .ok r = (r', .reject) := by
  unfold determineResultType
  rw [h]

/-! ## 3. What the reserve charged is what the summary reports (under the exactness side condition) -/

theorem finalize_spec (r : Reserve) (s : Summary) (h : Inv r) (hf : finalize r = some s) :
    s.execCost = r.cp.execPrice * r.execCommitted ∧ s.finCost = r.cp.finPrice * r.finCommitted ∧
    s.tipCost = (s.execCost * r.tip.proportion) / ONE + (s.finCost * r.tip.proportion) / ONE ∧
    s.storageCost = r.storageCommitted ∧ s.royaltyCost = r.royaltyCommitted ∧ s.badDebt = r.owed ∧
    s.locked = r.locked ∧ s.royaltyBreakdown = r.royaltyBreakdown ∧
    s.execUnits = r.execCommitted ∧ s.finUnits = r.finCommitted := by
  unfold finalize at hf
  split at hf
  · rename_i ec fc hec hfc
    have hec := dmulNat_some hec
    have hfc := dmulNat_some hfc
    have hq := proportion_nonneg r.tip
    have ec0 : 0 ≤ ec := by rw [hec]; exact Int.mul_nonneg h.prices.1 (Int.natCast_nonneg _)
    have fc0 : 0 ≤ fc := by rw [hfc]; exact Int.mul_nonneg h.prices.2.1 (Int.natCast_nonneg _)
    split at hf
    · rename_i te tf hte htf
      have hte := dmul_some_nonneg ec0 hq hte
      have htf := dmul_some_nonneg fc0 hq htf
      split at hf
      · rename_i tc htc
        have htc := dadd_some htc
        cases hf
        exact ⟨hec, hfc, by simp only [htc, hte, htf], rfl, rfl, rfl, rfl, rfl, rfl, rfl⟩
      · cases hf
    · cases hf
  · cases hf

theorem totalCost_some (s : Summary) (total : Int) (h : s.totalCost = some total) :
    total = s.execCost + s.finCost + s.tipCost + s.storageCost + s.royaltyCost := by
  unfold Summary.totalCost at h
  simp only [daddAll] at h
  split at h
  · rename_i a ha
    split at h
    · rename_i b hb
      split at h
      · rename_i c hc
        split at h
        · rename_i d hd
          cases h
          rw [dadd_some hd, dadd_some hc, dadd_some hb, dadd_some ha]
        · cases h
      · cases h
    · cases h
  · cases h

theorem networkFees_some (s : Summary) (nf : Int) (h : s.networkFees = some nf) :
    nf = s.execCost + s.finCost + s.storageCost := by
  unfold Summary.networkFees at h
  simp only [daddAll] at h
  split at h
  · rename_i a ha
    split at h
    · rename_i b hb
      cases h
      rw [dadd_some hb, dadd_some ha]
    · cases h
  · cases h

/-- Without any side condition the reported total cost is **at least** what the reserve charged
(the tip is recomputed from the un-truncated totals) … -/
theorem total_cost_ge_charged (r : Reserve) (s : Summary) (total : Int) (h : Inv r)
    (hf : finalize r = some s) (ht : s.totalCost = some total) : r.spent ≤ total := by
  obtain ⟨h1, h2, h3, h4, h5, -⟩ := finalize_spec r s h hf
  rw [totalCost_some s total ht, h3, h1, h2, h4, h5]
  have hq := proportion_nonneg r.tip
  have e := charged_le_reported r.cp.execPrice r.tip.proportion r.execCommitted h.prices.1 hq
  have f := charged_le_reported r.cp.finPrice r.tip.proportion r.finCommitted h.prices.2.1 hq
  unfold Reserve.spent
  rw [h.eff.1, h.eff.2]
  linarith

/-- … and **equal** to it when `price × tip` has at most 18 decimals for both unit prices. -/
theorem total_cost_eq_charged (r : Reserve) (s : Summary) (total : Int) (h : Inv r)
    (hx : Exact r.cp.execPrice r.tip) (hy : Exact r.cp.finPrice r.tip)
    (hf : finalize r = some s) (ht : s.totalCost = some total) : total = r.spent := by
  obtain ⟨h1, h2, h3, h4, h5, -⟩ := finalize_spec r s h hf
  rw [totalCost_some s total ht, h3, h1, h2, h4, h5]
  have e := charged_eq_reported r.cp.execPrice r.tip.proportion r.execCommitted hx
  have f := charged_eq_reported r.cp.finPrice r.tip.proportion r.finCommitted hy
  unfold Reserve.spent
  rw [h.eff.1, h.eff.2]
  linarith

/-- Hence a repaid reserve has always reserved the whole reported cost: `total_cost ≤ free credit +
Σ non-contingent locks`. -/
theorem repaid_reserve_covers_total_cost (r : Reserve) (s : Summary) (total : Int) (h : Inv r)
    (hrep : r.owed = 0) (hx : Exact r.cp.execPrice r.tip) (hy : Exact r.cp.finPrice r.tip)
    (hf : finalize r = some s) (ht : s.totalCost = some total) :
    total ≤ r.freeCredit + ncLocked r.locked := by
  rw [total_cost_eq_charged r s total h hx hy hf ht]
  have := h.acct
  have := h.bal
  omega

/-! ## 4. The side condition holds for the protocol's prices and *every* tip; outside it the identity fails -/

/-- **exact_holds_for_protocol_params**: for the generated protocol unit prices, `price × tip` has at
most 18 decimals for every tip specifier — none, every percentage (u16), every basis-point value (u32).
Decided by the lifting lemma `exact_of_multiple` (prices are multiples of 10^4 attos), not by enumeration. -/
theorem exact_holds_for_protocol_params (t : Tip) :
    Exact EXECUTION_COST_UNIT_PRICE t ∧ Exact FINALIZATION_COST_UNIT_PRICE t :=
  ⟨exact_of_multiple _ (by decide) t, exact_of_multiple _ (by decide) t⟩

/-- the model's constants are the compiled ones -/
theorem constants_match_code :
    ONE = DECIMAL_ONE ∧ DEC_MAX = DECIMAL_MAX ∧ DEC_MIN = DECIMAL_MIN ∧
    (Tip.pct 1).proportion = PROPORTION_OF_1_PERCENT ∧ (Tip.bp 1).proportion = PROPORTION_OF_1_BASIS_POINT ∧
    Tip.none.multiplier = MULTIPLIER_OF_NO_TIP ∧ MAX_TIP_PERCENTAGE = 65535 ∧ MAX_TIP_BASIS_POINTS = U32_MAX := by
  decide

/-- the protocol's costing parameters are accepted by `new` for every tip, with or without free credit 0 -/
def protocolCosting : Costing :=
  ⟨EXECUTION_COST_UNIT_PRICE, EXECUTION_COST_UNIT_LIMIT, EXECUTION_COST_UNIT_LOAN, FINALIZATION_COST_UNIT_PRICE,
   FINALIZATION_COST_UNIT_LIMIT, USD_PRICE, STATE_STORAGE_PRICE, ARCHIVE_STORAGE_PRICE⟩

example : (Reserve.new protocolCosting (.bp 4294967295) 0 false).isSome = true := by decide +kernel

/-- **inexact_counterexample**: a unit price of 0.000000050000000001 XRD with a 1 basis-point tip.
The reserve accepts `lock 0.050005000001 ; consume_execution(1_000_000) ; repay_all` (loan repaid,
balance 0), yet `finalize` reports a total cost 100 attos higher than everything that was locked, and
the executor's assertion "Locked fee does not cover transaction cost" would fire. -/
def inexactCosting : Costing := ⟨50000000001, 100000000, 0, 50000000001, 50000000, 0, 0, 0⟩
def inexactOutcome : Option (Int × Int × FinOutcome) :=
  match Reserve.new inexactCosting (.bp 1) 0 false with
  | none => none
  | some r0 =>
    match run r0 [.lock 1 50005000001000000 false, .exec 1000000, .repay] with
    | none => none
    | some r =>
      match finalize r with
      | none => none
      | some s => some (r.owed, r.balance, finalizeFees s ⟨100, 0, 25, 25⟩ 0 true)
theorem inexact_counterexample :
    inexactOutcome = some (0, 0, .panicNotCovered 100) ∧ ¬ Exact inexactCosting.execPrice (.bp 1) := by
  refine ⟨by decide +kernel, ?_⟩
  unfold Exact inexactCosting Tip.proportion ONE
  decide


/-! ## 5. Collection from the locks and the proposer / validator-set / burn split -/

theorem DEC_MIN_le_zero : DEC_MIN ≤ 0 := by decide

theorem dsub_of_range {a b : Int} (h0 : 0 ≤ a - b) (h1 : a - b ≤ DEC_MAX) : dsub a b = some (a - b) := by
  have := DEC_MIN_le_zero
  unfold dsub inDec
  rw [if_pos]
  simp only [decide_eq_true_eq]
  omega

theorem dadd_of_range {a b : Int} (h0 : 0 ≤ a + b) (h1 : a + b ≤ DEC_MAX) : dadd a b = some (a + b) := by
  have := DEC_MIN_le_zero
  unfold dadd inDec
  rw [if_pos]
  simp only [decide_eq_true_eq]
  omega

/-- what a lock can contribute: contingent locks only when the transaction succeeded -/
def eligible (success : Bool) : List (Nat × Int × Bool) → Int
  | [] => 0
  | l :: ls => (if l.2.2 && !success then 0 else l.2.1) + eligible success ls

/-- every payment is taken from the vault that locked it and lies between 0 and the locked amount
(the difference is refunded to that vault) -/
def PayBounded : List (Nat × Int) → List (Nat × Int × Bool) → Prop
  | [], [] => True
  | p :: ps, l :: ls => p.1 = l.1 ∧ 0 ≤ p.2 ∧ p.2 ≤ l.2.1 ∧ PayBounded ps ls
  | _, _ => False

theorem eligible_nonneg (success : Bool) (ls : List (Nat × Int × Bool)) (h : ∀ l ∈ ls, 0 ≤ l.2.1) :
    0 ≤ eligible success ls := by
  induction ls with
  | nil => simp [eligible]
  | cons l ls ih =>
    have h1 := h l List.mem_cons_self
    have h2 := ih (fun x hx => h x (List.mem_cons_of_mem _ hx))
    simp only [eligible]
    split <;> omega

/-- **The collection loop**: for every lock list (non-negative amounts) and every requirement it
never panics, each vault pays `min(locked, still required)` (contingent locks only on success), the
payments add up to `required − remaining`, and `remaining = max 0 (required − Σ eligible locks)`. -/
theorem takeLoop_spec (success : Bool) : ∀ (ls : List (Nat × Int × Bool)) (req : Int), 0 ≤ req → req ≤ DEC_MAX →
    (∀ l ∈ ls, 0 ≤ l.2.1 ∧ l.2.1 ≤ DEC_MAX) →
    ∃ ps rem, takeLoop success req ls = some (ps, rem) ∧ rem = max 0 (req - eligible success ls) ∧
      sumPayments ps = req - rem ∧ PayBounded ps ls := by
  intro ls
  induction ls with
  | nil =>
    intro req h0 _ _
    exact ⟨[], req, rfl, by simp [eligible]; omega, by simp [sumPayments], trivial⟩
  | cons l ls ih =>
    intro req h0 h1 hl
    obtain ⟨v, a, c⟩ := l
    have ha := hl (v, a, c) List.mem_cons_self
    simp only at ha
    have hrest : ∀ l ∈ ls, 0 ≤ l.2.1 ∧ l.2.1 ≤ DEC_MAX := fun x hx => hl x (List.mem_cons_of_mem _ hx)
    have hE := eligible_nonneg success ls (fun x hx => (hrest x hx).1)
    -- the amount taken from this lock
    generalize hamt : (if c then (if success then min a req else 0) else min a req) = amount
    have hb : 0 ≤ amount ∧ amount ≤ a ∧ amount ≤ req ∧
        amount = min (if c && !success then 0 else a) req := by
      cases c <;> cases success <;> simp at hamt ⊢ <;> omega
    have hone : takeOne success req (v, a, c) = some (amount, req - amount) := by
      unfold takeOne
      simp only [hamt]
      rw [if_neg (by omega), dsub_of_range (by omega) (by omega), dsub_of_range (by omega) (by omega)]
    obtain ⟨ps, rem, hps, hrem, hsum, hpb⟩ := ih (req - amount) (by omega) (by omega) hrest
    refine ⟨(v, amount) :: ps, rem, ?_, ?_, ?_, ?_⟩
    · simp only [takeLoop, hone, hps]
    · rw [hrem]; simp only [eligible]
      obtain ⟨_, _, _, h4⟩ := hb
      rw [h4]
      split <;> omega
    · simp only [sumPayments, hsum]; omega
    · exact ⟨rfl, hb.1, hb.2.1, hpb⟩

theorem ncLocked_le_eligible (success : Bool) (ls : List (Nat × Int × Bool)) (h : ∀ l ∈ ls, 0 ≤ l.2.1) :
    ncLocked ls ≤ eligible success ls := by
  induction ls with
  | nil => simp [ncLocked, eligible]
  | cons l ls ih =>
    have h1 := h l List.mem_cons_self
    have h2 := ih (fun x hx => h x (List.mem_cons_of_mem _ hx))
    obtain ⟨v, a, c⟩ := l
    simp only [ncLocked, eligible] at h1 ⊢
    cases c <;> cases success <;> simp <;> omega

theorem ncLocked_reverse (ls : List (Nat × Int × Bool)) : ncLocked ls.reverse = ncLocked ls := by
  induction ls with
  | nil => rfl
  | cons l ls ih => rw [List.reverse_cons, ncLocked_append, ih]; simp only [ncLocked]; ring

/-- share of a non-negative amount: two floors never exceed the whole when the percentages add up to ≤ 100 -/
theorem floor_shares (t : Int) (a b : Nat) (ht : 0 ≤ t) (hab : a + b ≤ 100) :
    0 ≤ (t * (10000000000000000 * (a : Int))) / ONE ∧ 0 ≤ (t * (10000000000000000 * (b : Int))) / ONE ∧
    (t * (10000000000000000 * (a : Int))) / ONE + (t * (10000000000000000 * (b : Int))) / ONE ≤ t := by
  have ha : (0 : Int) ≤ a := Int.natCast_nonneg a
  have hb : (0 : Int) ≤ b := Int.natCast_nonneg b
  have hab' : (a : Int) + b ≤ 100 := by exact_mod_cast hab
  have hx : 0 ≤ t * (10000000000000000 * (a : Int)) := by positivity
  have hy : 0 ≤ t * (10000000000000000 * (b : Int)) := by positivity
  refine ⟨Int.ediv_nonneg hx (le_of_lt ONE_pos), Int.ediv_nonneg hy (le_of_lt ONE_pos), ?_⟩
  have e1 := Int.ediv_mul_le (t * (10000000000000000 * (a : Int))) ONE_ne
  have e2 := Int.ediv_mul_le (t * (10000000000000000 * (b : Int))) ONE_ne
  have hsum : t * (10000000000000000 * (a : Int)) + t * (10000000000000000 * (b : Int)) ≤ t * ONE := by
    have : t * (10000000000000000 * ((a : Int) + b)) ≤ t * (10000000000000000 * 100) :=
      Int.mul_le_mul_of_nonneg_left (by omega) ht
    simp only [ONE]; linarith
  have := ONE_pos
  nlinarith

theorem bind_some {α β : Type} {o : Option α} {f : α → Option β} {y : β} (h : o.bind f = some y) :
    ∃ a, o = some a ∧ f a = some y := by
  cases o with
  | none => cases h
  | some a => exact ⟨a, rfl, h⟩

theorem shareAmount_spec (s : Summary) (pt pf : Nat) (x nf : Int) (ht : 0 ≤ s.tipCost) (hnf0 : 0 ≤ nf)
    (hnf : s.networkFees = some nf) (h : shareAmount s pt pf = some x) :
    x = (s.tipCost * (10000000000000000 * (pt : Int))) / ONE + (nf * (10000000000000000 * (pf : Int))) / ONE := by
  unfold shareAmount at h
  obtain ⟨ft, hft, h1⟩ := bind_some h
  obtain ⟨ff, hff, h2⟩ := bind_some h1
  obtain ⟨nf', hnf', h3⟩ := bind_some h2
  obtain ⟨a, ha, h4⟩ := bind_some h3
  obtain ⟨b, hb, h5⟩ := bind_some h4
  rw [hnf] at hnf'
  simp only [Option.some.injEq] at hnf'
  subst hnf'
  have hft := dmulNat_some hft
  have hff := dmulNat_some hff
  have hpt : (0 : Int) ≤ pt := Int.natCast_nonneg pt
  have hpf : (0 : Int) ≤ pf := Int.natCast_nonneg pf
  have ft0 : 0 ≤ ft := by rw [hft]; exact Int.mul_nonneg (by decide) hpt
  have ff0 : 0 ≤ ff := by rw [hff]; exact Int.mul_nonneg (by decide) hpf
  have ha := dmul_some_nonneg ht ft0 ha
  have hb := dmul_some_nonneg hnf0 ff0 hb
  have hx := dadd_some h5
  rw [hx, ha, hb, hft, hff]

/-- **split_exact**: whenever the three amounts are computed, proposer + validator set + burn is
exactly tips + network fees, and for share percentages adding up to at most 100 % each of the
three is non-negative. -/
theorem split_exact (s : Summary) (sh : Shares) (p v b nf : Int)
    (ht : 0 ≤ s.tipCost) (hnf0 : 0 ≤ nf) (hnf : s.networkFees = some nf)
    (hp : s.toProposer sh = some p) (hv : s.toValidators sh = some v) (hb : s.toBurn sh = some b)
    (h1 : sh.tipsProposer + sh.tipsValidators ≤ 100) (h2 : sh.feesProposer + sh.feesValidators ≤ 100) :
    p + v + b = s.tipCost + nf ∧ 0 ≤ p ∧ 0 ≤ v ∧ 0 ≤ b := by
  have ep := shareAmount_spec s _ _ p nf ht hnf0 hnf hp
  have ev := shareAmount_spec s _ _ v nf ht hnf0 hnf hv
  have hbe : b = s.tipCost + nf - p - v := by
    unfold Summary.toBurn at hb
    obtain ⟨nf', e1, g1⟩ := bind_some hb
    obtain ⟨p', e2, g2⟩ := bind_some g1
    obtain ⟨v', e3, g3⟩ := bind_some g2
    obtain ⟨t, e4, g4⟩ := bind_some g3
    obtain ⟨u, e5, g5⟩ := bind_some g4
    rw [hnf] at e1; rw [hp] at e2; rw [hv] at e3
    simp only [Option.some.injEq] at e1 e2 e3
    subst e1 e2 e3
    rw [dsub_some g5, dsub_some e5, dadd_some e4]
  obtain ⟨a1, a2, a3⟩ := floor_shares s.tipCost _ _ ht h1
  obtain ⟨b1, b2, b3⟩ := floor_shares nf _ _ hnf0 h2
  refine ⟨by omega, by omega, by omega, by omega⟩

/-- the compiled share percentages satisfy the side conditions of `split_exact` -/
theorem protocol_shares_at_most_100 :
    TIPS_PROPOSER_SHARE_PERCENTAGE + TIPS_VALIDATOR_SET_SHARE_PERCENTAGE ≤ 100 ∧
    NETWORK_FEES_PROPOSER_SHARE_PERCENTAGE + NETWORK_FEES_VALIDATOR_SET_SHARE_PERCENTAGE ≤ 100 := by decide


/-- **collected_equals_total_cost** (the property, on the model): for every reachable reserve that is
eligible for commit (loan repaid) and whose unit prices satisfy the exactness side condition, for both
outcomes (success / failure), `finalize_fees_for_commit` passes all three sanity assertions and
* the XRD taken from the locking vaults plus the free credit used equals the reported total cost,
* every vault pays between 0 and what it locked (the rest is refunded to it),
* proposer + validator set + burn + royalties = total cost, each share non-negative.
Hypotheses `hp hv hb`: the three share computations do not overflow `Decimal` (they are `unwrap`s in
the code: "no chance to overflow considering current costing parameters"). -/
theorem collected_equals_total_cost (r : Reserve) (s : Summary) (sh : Shares) (success : Bool) (total p v b : Int)
    (h : Inv r) (hrep : r.owed = 0)
    (hx : Exact r.cp.execPrice r.tip) (hy : Exact r.cp.finPrice r.tip)
    (hrange : ∀ l ∈ r.locked, l.2.1 ≤ DEC_MAX)
    (hf : finalize r = some s) (ht : s.totalCost = some total)
    (hp : s.toProposer sh = some p) (hv : s.toValidators sh = some v) (hb : s.toBurn sh = some b)
    (h1 : sh.tipsProposer + sh.tipsValidators ≤ 100) (h2 : sh.feesProposer + sh.feesValidators ≤ 100) :
    ∃ d, finalizeFees s sh r.freeCredit success = .ok d ∧
      d.collected = total ∧ sumPayments d.payments + d.fromFreeCredit = total ∧
      0 ≤ d.fromFreeCredit ∧ d.fromFreeCredit ≤ r.freeCredit ∧
      PayBounded d.payments s.locked.reverse ∧
      d.toProposer + d.toValidators + d.toBurn + s.royaltyCost = total ∧
      0 ≤ d.toProposer ∧ 0 ≤ d.toValidators ∧ 0 ≤ d.toBurn := by
  obtain ⟨f1, f2, f3, f4, f5, f6, f7, -⟩ := finalize_spec r s h hf
  have hq := proportion_nonneg r.tip
  have ec0 : 0 ≤ s.execCost := by rw [f1]; exact Int.mul_nonneg h.prices.1 (Int.natCast_nonneg _)
  have fc0 : 0 ≤ s.finCost := by rw [f2]; exact Int.mul_nonneg h.prices.2.1 (Int.natCast_nonneg _)
  have tc0 : 0 ≤ s.tipCost := by
    rw [f3]
    have a := Int.ediv_nonneg (Int.mul_nonneg ec0 hq) (le_of_lt ONE_pos)
    have b := Int.ediv_nonneg (Int.mul_nonneg fc0 hq) (le_of_lt ONE_pos)
    omega
  have st0 : 0 ≤ s.storageCost := by rw [f4]; exact h.sto
  have ro0 : 0 ≤ s.royaltyCost := by rw [f5]; exact h.roy.2
  have htot := totalCost_some s total ht
  -- total ≤ DEC_MAX because the last checked_add succeeded
  have htmax : total ≤ DEC_MAX := by
    unfold Summary.totalCost at ht
    simp only [daddAll] at ht
    split at ht
    · split at ht
      · split at ht
        · split at ht
          · rename_i d hd
            cases ht
            unfold dadd inDec at hd
            split at hd
            · rename_i hin; simp only [decide_eq_true_eq] at hin; cases hd; exact hin.2
            · cases hd
          · cases ht
        · cases ht
      · cases ht
    · cases ht
  have hcover := repaid_reserve_covers_total_cost r s total h hrep hx hy hf ht
  have hlocks : ∀ l ∈ s.locked.reverse, 0 ≤ l.2.1 ∧ l.2.1 ≤ DEC_MAX := by
    intro l hl
    rw [f7] at hl
    have hl' := List.mem_reverse.mp hl
    exact ⟨h.locks l hl', hrange l hl'⟩
  obtain ⟨ps, rem, hps, hrem, hsum, hpb⟩ := takeLoop_spec success s.locked.reverse total (by omega) htmax hlocks
  have hel : ncLocked r.locked ≤ eligible success s.locked.reverse := by
    have := ncLocked_le_eligible success s.locked.reverse (fun l hl => (hlocks l hl).1)
    rw [f7, ncLocked_reverse] at this
    rw [f7]; exact this
  have hfree0 := h.prices.2.2.2.2.2
  -- network fees
  obtain ⟨nf, hnf⟩ : ∃ nf, s.networkFees = some nf := by
    unfold Summary.toBurn at hb
    obtain ⟨nf, e1, -⟩ := bind_some hb
    exact ⟨nf, e1⟩
  have hnfe := networkFees_some s nf hnf
  have hnf0 : 0 ≤ nf := by omega
  obtain ⟨hs1, hs2, hs3, hs4⟩ := split_exact s sh p v b nf tc0 hnf0 hnf hp hv hb h1 h2
  -- free credit part
  generalize hff : (if r.freeCredit > 0 then min r.freeCredit rem else 0) = fromFree
  have hrem0 : 0 ≤ rem := by rw [hrem]; omega
  have hfrom : 0 ≤ fromFree ∧ fromFree ≤ r.freeCredit ∧ fromFree ≤ rem ∧ rem - fromFree = 0 := by
    rw [← hff]
    split
    · rename_i hpos
      refine ⟨by omega, by omega, by omega, ?_⟩
      rw [hrem]; omega
    · rename_i hnpos
      have : r.freeCredit = 0 := by omega
      refine ⟨le_refl _, by omega, hrem0, ?_⟩
      rw [hrem]; omega
  refine ⟨⟨ps, fromFree, sumPayments ps + fromFree, p, v, b⟩, ?_, ?_, ?_, hfrom.1, hfrom.2.1, hpb, ?_, hs2, hs3, hs4⟩
  · unfold finalizeFees
    rw [ht]
    simp only []
    rw [hps]
    simp only []
    rw [hff]
    rw [dsub_of_range (by omega) (by omega)]
    rw [hp, hv, hb]
    simp only []
    have hbd : ¬ (s.badDebt ≠ 0) := by rw [f6, hrep]; exact fun hh => hh rfl
    have hrq : ¬ (rem - fromFree ≠ 0) := by rw [hfrom.2.2.2]; exact fun hh => hh rfl
    rw [if_neg hbd, if_neg hrq]
    rw [dsub_of_range (by omega) (by omega), dadd_of_range (by omega) (by omega)]
    simp only []
    rw [dadd_of_range (by omega) (by omega)]
    simp only []
    rw [if_pos (by omega)]
  · simp only; omega
  · simp only; omega
  · simp only; omega

end Radix.Fee
