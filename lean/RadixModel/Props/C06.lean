/-
C06 — Fees are fully paid and exactly distributed.

Property theorems only. Model: `RadixModel/Model/FeeReserve.lean`; invariant and arithmetic lemmas:
`RadixModel/Lemmas/FeeReserve.lean`; protocol constants: `Generated/C06.lean` (rewritten on every
check from the compiled tree).
-/
import RadixModel.Model.FeeReserve
import RadixModel.Lemmas.FeeReserve
import RadixModel.Generated.C06

namespace Radix.Fee
open Radix.Generated.C06

/-! ## 1. Every sequence of fee-reserve calls keeps the accounting invariant -/

/-- the public mutating methods of `SystemLoanFeeReserve` -/
inductive Op where
  | exec (cu : Nat)
  | fin (cu : Nat)
  | storage (t : Storage) (n : Nat)
  | royalty (ra : Royalty) (recipient : Nat)
  | lock (vault : Nat) (amount : Int) (contingent : Bool)
  | repay
  | revert
  | dexec (cu : Nat)
  | dfin (cu : Nat)
  | dstorage (t : Storage) (n : Nat)

def applyOp (r : Reserve) : Op → Reserve × Res
  | .exec cu => consumeExecution r cu
  | .fin cu => consumeFinalization r cu
  | .storage t n => consumeStorage r t n
  | .royalty ra rcp => consumeRoyalty r ra rcp
  | .lock v a c => lockFee r v a c
  | .repay => repayAll r
  | .revert => revertRoyalty r
  | .dexec cu => deferExecution r cu
  | .dfin cu => deferFinalization r cu
  | .dstorage t n => deferStorage r t n

/-- vaults lock non-negative amounts (`FungibleVault::lock_fee` takes from the vault's balance) -/
def Op.admissible : Op → Prop
  | .lock _ a _ => 0 ≤ a
  | _ => True

/-- a whole call sequence; errors are returned to the caller and the reserve lives on, a panic
ends the transaction execution (`none`) -/
def run : Reserve → List Op → Option Reserve
  | r, [] => some r
  | r, op :: ops =>
    match applyOp r op with
    | (_, .panic) => none
    | (r', _) => run r' ops

theorem inv_applyOp (r : Reserve) (op : Op) (h : Inv r) (ha : op.admissible)
    (hp : (applyOp r op).2 ≠ .panic) : Inv (applyOp r op).1 := by
  cases op with
  | exec cu => exact inv_consumeExecution r cu h hp
  | fin cu => exact inv_consumeFinalization r cu h
  | storage t n => exact inv_consumeStorage r t n h hp
  | royalty ra rcp => exact inv_consumeRoyalty r ra rcp h hp
  | lock v a c => exact inv_lockFee r v a c ha h
  | repay => exact inv_repayAll r h hp
  | revert => exact inv_revertRoyalty r h
  | dexec cu => exact inv_deferExecution r cu h
  | dfin cu => exact inv_deferFinalization r cu h
  | dstorage t n => exact inv_deferStorage r t n h

/-- **The accounting invariant holds in every reachable reserve state**: for every costing
parameter set and tip accepted by `new` and every sequence of calls,
`balance − owed = free credit + Σ non-contingent locks − (effective price × units + storage + royalties)`,
with `balance ≥ 0`, `owed ≥ 0`, and the royalty breakdown summing to the royalty cost. -/
theorem invariant_reachable (cp : Costing) (tip : Tip) (free : Int) (ab : Bool) (r0 : Reserve)
    (hnew : Reserve.new cp tip free ab = some r0) (ops : List Op) (hops : ∀ op ∈ ops, op.admissible)
    (r : Reserve) (hrun : run r0 ops = some r) : Inv r := by
  have h0 := (inv_new cp tip free ab r0 hnew).1
  clear hnew
  induction ops generalizing r0 with
  | nil => simp [run] at hrun; subst hrun; exact h0
  | cons op ops ih =>
    unfold run at hrun
    have hadm := hops op (List.mem_cons_self)
    have hrest : ∀ o ∈ ops, o.admissible := fun o ho => hops o (List.mem_cons_of_mem _ ho)
    split at hrun
    · cases hrun
    · rename_i r' res hne heq
      have hp : (applyOp r0 op).2 ≠ .panic := by
        rw [heq]; intro hc; exact hne hc
      have := inv_applyOp r0 op h0 hadm hp
      rw [heq] at this
      exact ih r' hrest hrun this

/-- **limits_never_exceeded**: execution and finalization cost units committed never exceed the
limits of the reserve's costing parameters, whatever is called on it. -/
theorem limits_never_exceeded (cp : Costing) (tip : Tip) (free : Int) (ab : Bool) (r0 : Reserve)
    (hnew : Reserve.new cp tip free ab = some r0) (ops : List Op) (hops : ∀ op ∈ ops, op.admissible)
    (r : Reserve) (hrun : run r0 ops = some r) :
    r.execCommitted ≤ r.cp.execLimit ∧ r.finCommitted ≤ r.cp.finLimit :=
  (invariant_reachable cp tip free ab r0 hnew ops hops r hrun).limits

/-- non-vacuity: protocol parameters, 10 % tip, lock 10 XRD, spend, repay. -/
def exCosting : Costing := ⟨50000000000, 100000000, 4000000, 50000000000, 50000000, 16666666666666666666, 95367430000000, 95367430000000⟩
def exOps : List Op := [.lock 1 10000000000000000000 false, .exec 5000000, .storage .state 100, .royalty (.xrd 1000000000000000000) 7, .fin 1000, .repay]
def exFinal : Option (Int × Int × Nat) :=
  match Reserve.new exCosting (.pct 10) 0 false with
  | some r0 => (run r0 exOps).map (fun r => (r.owed, r.balance, r.execCommitted))
  | none => none
example : exFinal = some (0, 8715408257000000000, 5000000) := by decide +kernel

/-! ## 2. A transaction whose loan is not repaid is never committed -/

theorem repayAll_ok_owed (r r' : Reserve) (h : repayAll r = (r', .ok)) : r'.owed = 0 := by
  unfold repayAll at h
  split at h
  · simp only at h
    split at h
    · split at h
      · split at h
        · split at h
          · cases h
          · rename_i hz
            split at h
            · cases h
            · cases h; simpa using hz
        · cases h
        · cases h
      · rename_i hne _
        cases h; exact (hne rfl).elim
    · rename_i hne _
      cases h; exact (hne rfl).elim
  · rename_i hne _
    cases h; exact (hne rfl).elim

/-- **unrepaid_loan_never_commits**: whatever the interpretation result, `determine_result_type`
yields a commit (success or failure) only for a reserve whose loan is fully repaid — so the
bad debt reported by `finalize` is zero and the executor's first sanity assertion cannot fire. -/
theorem unrepaid_loan_never_commits (i : Interp) (r r' : Reserve) (t : ResultType)
    (h : determineResultType i r = (r', t)) (hc : t = .commitSuccess ∨ t = .commitFailure) :
    r'.owed = 0 ∧ ∀ s, finalize r' = some s → s.badDebt = 0 := by
  have howed : r'.owed = 0 := by
    unfold determineResultType at h
    split at h
    · cases h; rcases hc with hc | hc <;> cases hc
    · rename_i r1 res hne heq
      cases i with
      | ok =>
        simp only at h
        split at h
        · cases h; exact repayAll_ok_owed r r' heq
        · cases h; rcases hc with hc | hc <;> cases hc
        · cases h; rcases hc with hc | hc <;> cases hc
      | bootloadErr => cases h; rcases hc with hc | hc <;> cases hc
      | runtimeAbort => cases h; rcases hc with hc | hc <;> cases hc
      | runtimeErr =>
        simp only at h
        split at h
        · rename_i hf
          cases h
          simpa [Reserve.fullyRepaid] using hf
        · cases h; rcases hc with hc | hc <;> cases hc
  refine ⟨howed, ?_⟩
  intro s hs
  unfold finalize at hs
  split at hs
  · split at hs
    · split at hs
      · cases hs; exact howed
      · cases hs
    · cases hs
  · cases hs

/-- …and conversely a successful interpretation whose final `repay_all` fails for lack of funds is rejected. -/
theorem loan_repayment_failure_is_rejected (r r' : Reserve) (o : Int)
    (h : repayAll r = (r', .err (.loanRepaymentFailed o))) :
    determineResultType .ok r = (r', .reject) := by
  unfold determineResultType
  rw [h]

/-! ## 3. What the reserve charged is what the summary reports (under the exactness side condition) -/

theorem finalize_spec (r : Reserve) (s : Summary) (h : Inv r) (hf : finalize r = some s) :
    s.execCost = r.cp.execPrice * r.execCommitted ∧ s.finCost = r.cp.finPrice * r.finCommitted ∧
    s.tipCost = (s.execCost * r.tip.proportion) / ONE + (s.finCost * r.tip.proportion) / ONE ∧
    s.storageCost = r.storageCommitted ∧ s.royaltyCost = r.royaltyCommitted ∧ s.badDebt = r.owed ∧
    s.locked = r.locked ∧ s.royaltyBreakdown = r.royaltyBreakdown ∧
    s.execUnits = r.execCommitted ∧ s.finUnits = r.finCommitted := by
  unfold finalize at hf
  split at hf
  · rename_i ec fc hec hfc
    have hec := dmulNat_some hec
    have hfc := dmulNat_some hfc
    have hq := proportion_nonneg r.tip
    have ec0 : 0 ≤ ec := by rw [hec]; exact Int.mul_nonneg h.prices.1 (Int.natCast_nonneg _)
    have fc0 : 0 ≤ fc := by rw [hfc]; exact Int.mul_nonneg h.prices.2.1 (Int.natCast_nonneg _)
    split at hf
    · rename_i te tf hte htf
      have hte := dmul_some_nonneg ec0 hq hte
      have htf := dmul_some_nonneg fc0 hq htf
      split at hf
      · rename_i tc htc
        have htc := dadd_some htc
        cases hf
        exact ⟨hec, hfc, by simp only [htc, hte, htf], rfl, rfl, rfl, rfl, rfl, rfl, rfl⟩
      · cases hf
    · cases hf
  · cases hf

theorem totalCost_some (s : Summary) (total : Int) (h : s.totalCost = some total) :
    total = s.execCost + s.finCost + s.tipCost + s.storageCost + s.royaltyCost := by
  unfold Summary.totalCost at h
  simp only [daddAll] at h
  split at h
  · rename_i a ha
    split at h
    · rename_i b hb
      split at h
      · rename_i c hc
        split at h
        · rename_i d hd
          cases h
          rw [dadd_some hd, dadd_some hc, dadd_some hb, dadd_some ha]
        · cases h
      · cases h
    · cases h
  · cases h

theorem networkFees_some (s : Summary) (nf : Int) (h : s.networkFees = some nf) :
    nf = s.execCost + s.finCost + s.storageCost := by
  unfold Summary.networkFees at h
  simp only [daddAll] at h
  split at h
  · rename_i a ha
    split at h
    · rename_i b hb
      cases h
      rw [dadd_some hb, dadd_some ha]
    · cases h
  · cases h

/-- Without any side condition the reported total cost is **at least** what the reserve charged
(the tip is recomputed from the un-truncated totals) … -/
theorem total_cost_ge_charged (r : Reserve) (s : Summary) (total : Int) (h : Inv r)
    (hf : finalize r = some s) (ht : s.totalCost = some total) : r.spent ≤ total := by
  obtain ⟨h1, h2, h3, h4, h5, -⟩ := finalize_spec r s h hf
  rw [totalCost_some s total ht, h3, h1, h2, h4, h5]
  have hq := proportion_nonneg r.tip
  have e := charged_le_reported r.cp.execPrice r.tip.proportion r.execCommitted h.prices.1 hq
  have f := charged_le_reported r.cp.finPrice r.tip.proportion r.finCommitted h.prices.2.1 hq
  unfold Reserve.spent
  rw [h.eff.1, h.eff.2]
  linarith

/-- … and **equal** to it when `price × tip` has at most 18 decimals for both unit prices. -/
theorem total_cost_eq_charged (r : Reserve) (s : Summary) (total : Int) (h : Inv r)
    (hx : Exact r.cp.execPrice r.tip) (hy : Exact r.cp.finPrice r.tip)
    (hf : finalize r = some s) (ht : s.totalCost = some total) : total = r.spent := by
  obtain ⟨h1, h2, h3, h4, h5, -⟩ := finalize_spec r s h hf
  rw [totalCost_some s total ht, h3, h1, h2, h4, h5]
  have e := charged_eq_reported r.cp.execPrice r.tip.proportion r.execCommitted hx
  have f := charged_eq_reported r.cp.finPrice r.tip.proportion r.finCommitted hy
  unfold Reserve.spent
  rw [h.eff.1, h.eff.2]
  linarith

/-- Hence a repaid reserve has always reserved the whole reported cost: `total_cost ≤ free credit +
Σ non-contingent locks`. -/
theorem repaid_reserve_covers_total_cost (r : Reserve) (s : Summary) (total : Int) (h : Inv r)
    (hrep : r.owed = 0) (hx : Exact r.cp.execPrice r.tip) (hy : Exact r.cp.finPrice r.tip)
    (hf : finalize r = some s) (ht : s.totalCost = some total) :
    total ≤ r.freeCredit + ncLocked r.locked := by
  rw [total_cost_eq_charged r s total h hx hy hf ht]
  have := h.acct
  have := h.bal
  omega

/-! ## 4. The side condition holds for the protocol's prices and *every* tip; outside it the identity fails -/

/-- **exact_holds_for_protocol_params**: for the generated protocol unit prices, `price × tip` has at
most 18 decimals for every tip specifier — none, every percentage (u16), every basis-point value (u32).
Decided by the lifting lemma `exact_of_multiple` (prices are multiples of 10^4 attos), not by enumeration. -/
theorem exact_holds_for_protocol_params (t : Tip) :
    Exact EXECUTION_COST_UNIT_PRICE t ∧ Exact FINALIZATION_COST_UNIT_PRICE t :=
  ⟨exact_of_multiple _ (by decide) t, exact_of_multiple _ (by decide) t⟩

/-- the model's constants are the compiled ones -/
theorem constants_match_code :
    ONE = DECIMAL_ONE ∧ DEC_MAX = DECIMAL_MAX ∧ DEC_MIN = DECIMAL_MIN ∧
    (Tip.pct 1).proportion = PROPORTION_OF_1_PERCENT ∧ (Tip.bp 1).proportion = PROPORTION_OF_1_BASIS_POINT ∧
    Tip.none.multiplier = MULTIPLIER_OF_NO_TIP ∧ MAX_TIP_PERCENTAGE = 65535 ∧ MAX_TIP_BASIS_POINTS = U32_MAX := by
  decide

/-- the protocol's costing parameters are accepted by `new` for every tip, with or without free credit 0 -/
def protocolCosting : Costing :=
  ⟨EXECUTION_COST_UNIT_PRICE, EXECUTION_COST_UNIT_LIMIT, EXECUTION_COST_UNIT_LOAN, FINALIZATION_COST_UNIT_PRICE,
   FINALIZATION_COST_UNIT_LIMIT, USD_PRICE, STATE_STORAGE_PRICE, ARCHIVE_STORAGE_PRICE⟩

example : (Reserve.new protocolCosting (.bp 4294967295) 0 false).isSome = true := by decide +kernel

/-- **inexact_counterexample**: a unit price of 0.000000050000000001 XRD with a 1 basis-point tip.
The reserve accepts `lock 0.050005000001 ; consume_execution(1_000_000) ; repay_all` (loan repaid,
balance 0), yet `finalize` reports a total cost 100 attos higher than everything that was locked, and
the executor's assertion "Locked fee does not cover transaction cost" would fire. -/
def inexactCosting : Costing := ⟨50000000001, 100000000, 0, 50000000001, 50000000, 0, 0, 0⟩
def inexactOutcome : Option (Int × Int × FinOutcome) :=
  match Reserve.new inexactCosting (.bp 1) 0 false with
  | none => none
  | some r0 =>
    match run r0 [.lock 1 50005000001000000 false, .exec 1000000, .repay] with
    | none => none
    | some r =>
      match finalize r with
      | none => none
      | some s => some (r.owed, r.balance, finalizeFees s ⟨100, 0, 25, 25⟩ 0 true)
theorem inexact_counterexample :
    inexactOutcome = some (0, 0, .panicNotCovered 100) ∧ ¬ Exact inexactCosting.execPrice (.bp 1) := by
  refine ⟨by decide +kernel, ?_⟩
  unfold Exact inexactCosting Tip.proportion ONE
  decide


end Radix.Fee
