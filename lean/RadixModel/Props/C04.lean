/-
C04 — Total supply always equals the sum of all vaults.

Property theorems only. Model: `RadixModel/Model/Ledger.lean`; lemmas: `Lemmas/Ledger*.lean`.

Full statement: after any history of committed transactions (successful or failed) from the
genesis state, `Inv` holds: every tracked resource's recorded supply = Σ of its vault balances; no
vault balance is negative; every non-fungible vault's amount = number of ids in its index; and the
replay of all emitted events reproduces the stored supplies and balances.
Proved below: `inv_init`, `inv_commit_success` (any op list), `inv_reachable` over histories of
commits, `commitTx_success_shape` tying the relation to the executable `commitTx`.
Partial (named `_partial` or not proved):
* failed transactions preserve `Inv` under the assumption `hrev` on `revert` (see C03);
* non-negativity of balances, `amount = |ids|` for non-fungible vaults and the event-replay
  identity are NOT proved in Lean; they are evaluated on the implementation after every commit by
  the oracle (`negative-balance`, `nf-count`, `nf-id-in-two-vaults`, `event-replay-*`), and the model's
  predicted balances/finalisation events are compared with the database by the correspondence.
-/
import RadixModel.Lemmas.LedgerTx
import RadixModel.Props.C03

namespace Radix.Ledger

/-- the ledger holding only the XRD resource manager (no vaults yet) -/
def genesis : St := { empty with res := fun r => if r = XRD then some xrdInfo else none }

theorem inv_init : Inv genesis := by
  refine ⟨by simp [genesis, empty], ?_, ?_, ?_, ⟨xrdInfo, by simp [genesis], rfl⟩⟩
  · intro v r h; simp [genesis, empty] at h
  · intro v r h; simp [genesis, empty] at h
  · intro r info hr ht
    simp only [genesis] at hr
    split at hr
    · injection hr with hr; subst hr; cases ht
    · cases hr

/-- **inv_step** (success path): a successfully committed transaction — any instruction list —
preserves the invariant. -/
theorem inv_commit_success {s s1 s' : St} {t : Tx} (hi : Inv s)
    (hr : runOps (beginTx s) t.ops = (s1, none)) (hn : noBuckets s1 = true)
    (hf : FinOk s1 t.fin) (hfin : finalize s1 t.fin true = .ok s') : Inv s' := by
  obtain ⟨g, _, m⟩ := runOps_good (good_beginTx hi) hr
  have hl : XrdVaults s1 (s1.locks.map (·.vault)) := by
    intro v hv
    simp only [List.mem_map] at hv
    obtain ⟨l, hl, rfl⟩ := hv
    exact g.lockXrd l hl
  obtain ⟨fr, _, hv, _⟩ := finalize_eff ⟨g.vnodup, g.vdom⟩ hl hf hfin
  obtain ⟨i0, hx0, hx1⟩ := hi.xrd
  have hx : s1.res XRD = some i0 := m XRD i0 hx0
  refine ⟨by rw [fr.vaults]; exact g.vnodup, by rw [fr.vaults, fr.vres]; exact g.vdom,
    by rw [fr.vres, fr.res]; exact g.vresDom, ?_, ⟨i0, by rw [fr.res]; exact hx, hx1⟩⟩
  intro r info hres ht
  rw [fr.res] at hres
  have hne : r ≠ XRD := by
    intro e; subst e; rw [hx] at hres; injection hres with hres; subst hres; rw [hx1] at ht; cases ht
  have := g.acc r info hres ht
  rw [fr.supply, hv r, this, bsum_of_noBuckets hn r]
  simp [fsum, hne]

/-- Failure path, PARTIAL (assumption `hrev`, see C03): the state after a failed transaction
satisfies the invariant again. -/
theorem inv_commit_failure_partial {s pre s' : St} {f : Fin} (hi : Inv s)
    (hvs : pre.vaults = s.vaults) (hvr : pre.vres = s.vres) (hres : pre.res = s.res) (hsup : pre.supply = s.supply)
    (hl : XrdVaults pre (pre.locks.map (·.vault))) (hf : FinOk pre f)
    (hrev : ∀ r, vsum pre r = vsum s r - (if r = XRD then sumLocks pre.locks else 0))
    (hfin : finalize pre f false = .ok s') : Inv s' := by
  have hv : VWF pre := ⟨by rw [hvs]; exact hi.vnodup, by rw [hvs, hvr]; exact hi.vdom⟩
  obtain ⟨fr, _, hvv, _⟩ := finalize_eff hv hl hf hfin
  obtain ⟨i0, hx0, hx1⟩ := hi.xrd
  refine ⟨by rw [fr.vaults, hvs]; exact hi.vnodup, by rw [fr.vaults, fr.vres, hvs, hvr]; exact hi.vdom,
    by rw [fr.vres, fr.res, hvr, hres]; exact hi.vresDom, ?_, ⟨i0, by rw [fr.res, hres]; exact hx0, hx1⟩⟩
  intro r info hr ht
  rw [fr.res, hres] at hr
  have hne : r ≠ XRD := by
    intro e; subst e; rw [hx0] at hr; injection hr with hr; subst hr; rw [hx1] at ht; cases ht
  rw [fr.supply, hsup, hvv r, hrev r, hi.supply_eq r info hr ht]
  simp [hne]

/-- one committed transaction, with the side conditions of the theorems above -/
inductive Commits : St → Tx → St → Prop where
  | success {s s1 s' : St} {t : Tx} (hr : runOps (beginTx s) t.ops = (s1, none)) (hn : noBuckets s1 = true)
      (hf : FinOk s1 t.fin) (hfin : finalize s1 t.fin true = .ok s') : Commits s t s'
  | failure {s pre s' : St} {t : Tx}
      (hvs : pre.vaults = s.vaults) (hvr : pre.vres = s.vres) (hres : pre.res = s.res) (hsup : pre.supply = s.supply)
      (hl : XrdVaults pre (pre.locks.map (·.vault))) (hf : FinOk pre t.fin)
      (hrev : ∀ r, vsum pre r = vsum s r - (if r = XRD then sumLocks pre.locks else 0))
      (hfin : finalize pre t.fin false = .ok s') : Commits s t s'

/-- a history of committed transactions -/
inductive History : St → List Tx → St → Prop where
  | nil (s : St) : History s [] s
  | cons {s s1 s2 : St} {t : Tx} {ts : List Tx} (h : Commits s t s1) (rest : History s1 ts s2) : History s (t :: ts) s2

/-- **inv_reachable**: the invariant holds after every history of committed transactions. -/
theorem inv_reachable {s s' : St} {ts : List Tx} (hi : Inv s) (h : History s ts s') : Inv s' := by
  induction h with
  | nil _ => exact hi
  | cons hc _ ih =>
    apply ih
    cases hc with
    | success hr hn hf hfin => exact inv_commit_success hi hr hn hf hfin
    | failure hvs hvr hres hsup hl hf hrev hfin => exact inv_commit_failure_partial hi hvs hvr hres hsup hl hf hrev hfin

/-- in particular: after any history from genesis, recorded supply = Σ vaults for every tracked resource -/
theorem supply_eq_vaults_always {s' : St} {ts : List Tx} (h : History genesis ts s')
    (r : Nat) (info : ResInfo) (hr : s'.res r = some info) (ht : info.tracks = true) : s'.supply r = vsum s' r :=
  (inv_reachable inv_init h).supply_eq r info hr ht

/-- the executable `commitTx` reports success exactly along the `Commits.success` shape -/
theorem commitTx_success_shape {s s' : St} {t : Tx} (h : commitTx s t = .ok (s', true)) :
    ∃ s1, runOps (beginTx s) t.ops = (s1, none) ∧ noBuckets s1 = true ∧ finalize s1 t.fin true = .ok s' := by
  unfold commitTx at h
  simp only at h
  generalize hro : runOps (beginTx s) t.ops = p at h
  obtain ⟨s1, e⟩ := p
  simp only at h
  split at h
  · rename_i hsucc
    split at h; · cases h
    rename_i s2 hf
    injection h with h
    simp only [Prod.mk.injEq] at h
    obtain ⟨rfl, _⟩ := h
    have : e.isNone = true ∧ noBuckets s1 = true := by simpa using hsucc
    have he : e = none := by cases e <;> simp_all
    subst he
    exact ⟨s1, rfl, this.2, hf⟩
  · split at h; · cases h
    injection h with h
    simp only [Prod.mk.injEq] at h
    exact absurd h.2 (by simp)

/-! ### Non-vacuity: the demo transaction of C03 commits along `Commits.success` -/

example : ∃ s', commitTx demo demoTx = .ok (s', true) := by
  cases h : commitTx demo demoTx with
  | error p => have : (match commitTx demo demoTx with | .ok (_, ok) => ok | .error _ => false) = true := by decide
               rw [h] at this; cases this
  | ok p =>
    obtain ⟨s', ok⟩ := p
    have : (match commitTx demo demoTx with | .ok (_, ok) => ok | .error _ => false) = true := by decide
    rw [h] at this
    simp at this; subst this
    exact ⟨s', rfl⟩

/-! ### The revert assumption `hrev` holds for the model's own `revert`

`inv_commit_failure_partial` takes `hrev` (vault sums after revert = sums at the start of the
transaction minus the locked fees, XRD only) as a hypothesis. It is a theorem for
`revert (beginTx s) s1` whenever every fee lock was taken on an XRD vault that already existed at
the start of the transaction (a lock on a vault created by the failed transaction makes the real
`revert_non_force_write_changes` panic: C02 `revert:panic`). -/

-- `revert_sum_aux` and `revert_vsum` live in Props/C03.lean (shared with C03's failure path)

/-- Failure path with `hrev` discharged: a failed transaction whose fee locks were all taken on
XRD vaults existing before the transaction re-establishes the invariant. -/
theorem inv_commit_failure {s s1 s' : St} {f : Fin} (hi : Inv s)
    (hlk : ∀ l ∈ s1.locks, l.vault ∈ s.vaults ∧ s.vres l.vault = some XRD)
    (hl : XrdVaults (revert (beginTx s) s1) ((revert (beginTx s) s1).locks.map (·.vault)))
    (hf : FinOk (revert (beginTx s) s1) f)
    (hfin : finalize (revert (beginTx s) s1) f false = .ok s') : Inv s' :=
  inv_commit_failure_partial (pre := revert (beginTx s) s1) hi rfl rfl rfl rfl hl hf
    (revert_vsum s s1 hi.vnodup hlk) hfin

/-- the executable `commitTx` reports failure exactly along the revert-then-finalize shape -/
theorem commitTx_failure_shape {s s' : St} {t : Tx} (h : commitTx s t = .ok (s', false)) :
    ∃ s1 e, runOps (beginTx s) t.ops = (s1, e) ∧
      finalize (revert (beginTx s) s1) t.fin false = .ok s' := by
  unfold commitTx at h
  simp only at h
  generalize hro : runOps (beginTx s) t.ops = p at h
  obtain ⟨s1, e⟩ := p
  simp only at h
  split at h
  · split at h; · cases h
    injection h with h
    simp only [Prod.mk.injEq] at h
    exact absurd h.2 (by simp)
  · split at h; · cases h
    rename_i s2 hf
    injection h with h
    simp only [Prod.mk.injEq] at h
    obtain ⟨rfl, _⟩ := h
    exact ⟨s1, e, rfl, hf⟩

/-- a failed run of the executable model is a `Commits.failure` step (so `inv_reachable` applies to
it) as soon as the fee locks it took sit on XRD vaults that existed before the transaction -/
theorem commitTx_failure_commits {s s' : St} {t : Tx} (hi : Inv s)
    (h : commitTx s t = .ok (s', false))
    (hlk : ∀ s1 e, runOps (beginTx s) t.ops = (s1, e) →
      (∀ l ∈ s1.locks, l.vault ∈ s.vaults ∧ s.vres l.vault = some XRD) ∧
      FinOk (revert (beginTx s) s1) t.fin) : Commits s t s' := by
  obtain ⟨s1, e, hr, hfin⟩ := commitTx_failure_shape h
  obtain ⟨hl, hf⟩ := hlk s1 e hr
  exact Commits.failure (pre := revert (beginTx s) s1) rfl rfl rfl rfl
    (by intro v hvm
        simp only [List.mem_map] at hvm
        obtain ⟨l, hl', rfl⟩ := hvm
        exact (hl l hl').2)
    hf (revert_vsum s s1 hi.vnodup hl) hfin

end Radix.Ledger
