/-
C10 — Funds behind a live proof cannot be withdrawn.

Property theorems only. Model: `RadixModel/Model/ResContainer.lean` (vault and bucket containers run
the same `lock_amount` / `unlock_amount` / `take` code; `Who` only selects the error wrapper).

Reading guide: a *live proof* of amount `a` on a container is one element `a` of `c.locked`
(`create_proof_of_amount` / `clone` add one, dropping the proof removes one). `c.amount` is what the
container holds (`get_amount` = liquid + locked maximum).
-/
import RadixModel.Model.ResContainer
import RadixModel.Lemmas.ResContainer

namespace Radix.Res

/-- Well-formed fungible container: non-negative liquid balance and non-negative locked amounts. -/
structure FCont.WF (c : FCont) : Prop where
  liquid : 0 ≤ c.liquid
  locked : ∀ a ∈ c.locked, 0 ≤ a

/-! ### single operations -/

/-- Creating (or cloning) a proof does not change what the container holds. -/
theorem lock_total_const (c c' : FCont) (a : Int) (w : Who) (h : c.lock a w = .ok c') :
    c'.amount = c.amount ∧ c'.locked = a :: c.locked := by
  have hn := maxL_nonneg c.locked
  rcases lock_cases c c' a w h with ⟨hgt, _, rfl⟩ | ⟨hle, rfl⟩
  · refine ⟨?_, rfl⟩
    simp only [FCont.amount, maxL_cons]
    split <;> omega
  · refine ⟨?_, rfl⟩
    simp only [FCont.amount, maxL_cons]
    split <;> omega

/-- Dropping a proof does not change what the container holds. -/
theorem unlock_total_const (c c' : FCont) (a : Int) (h : c.unlock a = .ok c') :
    c'.amount = c.amount ∧ c'.locked = c.locked.erase a := by
  unfold FCont.unlock at h
  by_cases hm : a ∈ c.locked
  · simp only [hm, if_true, Except.ok.injEq] at h
    subst h
    simp only [FCont.amount]
    exact ⟨by omega, trivial⟩
  · simp [hm] at h

/-- A live proof can always be dropped, and only a live proof can (`expect` never fires for one). -/
theorem unlock_ok_iff (c : FCont) (a : Int) : (∃ c', c.unlock a = .ok c') ↔ a ∈ c.locked := by
  unfold FCont.unlock
  constructor
  · rintro ⟨c', h⟩; split at h
    · assumption
    · cases h
  · intro h; simp [h]

/-- `take w` succeeds exactly when `w` respects the divisibility and is at most the *liquid* part:
whatever is behind a proof is out of reach. -/
theorem take_ok_iff (c : FCont) (a : Int) (d : Nat) (w : Who) :
    (∃ c', c.take a d w = .ok c') ↔ (checkAmount a d = true ∧ a ≤ c.liquid) := by
  unfold FCont.take FCont.takeRaw
  constructor
  · rintro ⟨c', h⟩
    split at h
    · rename_i hc
      split at h
      · cases h
      · exact ⟨hc, by omega⟩
    · cases h
  · rintro ⟨hc, hle⟩
    have : ¬ c.liquid < a := by omega
    simp [hc, this]

/-- The failure of `take` is the one the code reports: wrong divisibility first, then
`InsufficientBalance { requested, actual = liquid }`. -/
theorem take_err (c : FCont) (a : Int) (d : Nat) (w : Who) (e : Err) (h : c.take a d w = .error e) :
    (checkAmount a d = false ∧ e = .invalidAmount w a) ∨
    (checkAmount a d = true ∧ c.liquid < a ∧ e = .insufficient w a c.liquid) := by
  unfold FCont.take FCont.takeRaw at h
  split at h
  · rename_i hc
    split at h
    · rename_i hlt
      simp only [Except.error.injEq] at h
      exact Or.inr ⟨hc, hlt, h.symm⟩
    · cases h
  · rename_i hc
    simp only [Except.error.injEq] at h
    exact Or.inl ⟨by simpa using hc, h.symm⟩

/-- A successful `take` removes exactly `w`, leaves every lock in place, and the container still holds
at least every proven amount. -/
theorem take_respects_lock (c c' : FCont) (a : Int) (d : Nat) (w : Who) (hwf : c.WF)
    (h : c.take a d w = .ok c') :
    c'.amount = c.amount - a ∧ c'.locked = c.locked ∧ c'.WF ∧ ∀ p ∈ c'.locked, p ≤ c'.amount := by
  unfold FCont.take FCont.takeRaw at h
  split at h
  · split at h
    · cases h
    · rename_i hlt
      simp only [Except.ok.injEq] at h
      subst h
      refine ⟨by simp only [FCont.amount]; omega, rfl, ⟨by simp only; omega, hwf.locked⟩, ?_⟩
      intro p hp
      have := le_maxL_of_mem hp
      simp only [FCont.amount]
      simp only at this
      omega
  · cases h

/-- A new proof of `a` can be created exactly when `a` is at most the *whole* amount of the
container — the amounts already locked by other proofs are reused, not added
(overlapping proofs lock the maximum, not the sum). -/
theorem lock_ok_iff (c : FCont) (a : Int) (w : Who) (hwf : c.WF) :
    (∃ c', c.lock a w = .ok c') ↔ a ≤ c.amount := by
  have hl := hwf.liquid
  constructor
  · rintro ⟨c', h⟩
    simp only [FCont.amount]
    rcases lock_cases c c' a w h with ⟨hgt, hlt, _⟩ | ⟨hle, _⟩ <;> omega
  · intro hle
    simp only [FCont.amount] at hle
    unfold FCont.lock FCont.takeRaw
    by_cases hgt : a > maxL c.locked
    · have : ¬ c.liquid < a - maxL c.locked := by omega
      simp [hgt, this]
    · simp [hgt]

/-- … and the liquid part after the lock is the total minus the new maximum. -/
theorem lock_liquid (c c' : FCont) (a : Int) (w : Who) (h : c.lock a w = .ok c') :
    c'.liquid = c.amount - maxL (a :: c.locked) := by
  have := lock_total_const c c' a w h
  have h2 : c'.amount = c'.liquid + maxL c'.locked := rfl
  rw [this.2] at h2
  omega

theorem lock_wf (c c' : FCont) (a : Int) (w : Who) (hwf : c.WF) (ha : 0 ≤ a) (h : c.lock a w = .ok c') :
    c'.WF := by
  have ht := lock_total_const c c' a w h
  have hl := hwf.liquid
  refine ⟨?_, ?_⟩
  · rcases lock_cases c c' a w h with ⟨hgt, hlt, rfl⟩ | ⟨hle, rfl⟩
    · simp only; omega
    · exact hl
  · rw [ht.2]; intro x hx
    rcases List.mem_cons.mp hx with rfl | hx
    · exact ha
    · exact hwf.locked x hx

theorem unlock_wf (c c' : FCont) (a : Int) (hwf : c.WF) (h : c.unlock a = .ok c') : c'.WF := by
  unfold FCont.unlock at h
  split at h
  · simp only [Except.ok.injEq] at h
    subst h
    refine ⟨?_, ?_⟩
    · have := maxL_erase_le c.locked a
      have := hwf.liquid
      simp only; omega
    · intro x hx; exact hwf.locked x (List.mem_of_mem_erase hx)
  · cases h

/-- `create_proof_of_amount` = divisibility check + lock + non-zero check. -/
theorem createProof_ok (c c' : FCont) (a : Int) (d : Nat) (w : Who) (h : c.createProof a d w = .ok c') :
    checkAmount a d = true ∧ a ≠ 0 ∧ c.lock a w = .ok c' := by
  unfold FCont.createProof at h
  split at h
  · rename_i hc
    split at h
    · cases h
    · rename_i c1 hl
      split at h
      · cases h
      · simp only [Except.ok.injEq] at h; subst h; exact ⟨hc, by assumption, hl⟩
  · cases h

theorem checkAmount_nonneg {a : Int} {d : Nat} (h : checkAmount a d = true) : 0 ≤ a := by
  unfold checkAmount at h
  simp only [Bool.and_eq_true, decide_eq_true_eq] at h
  exact h.1

/-! ### every interleaving: an operation machine on one container -/

/-- Operations on one container. `create`/`clone`/`drop` are the proof life cycle, `take` stands for
withdraw / burn / recall (they share the code path), `put` for a deposit of a non-negative amount. -/
inductive COp where
  | create (a : Int)
  | clone (a : Int)    -- clone a proof of amount `a`; only possible when such a proof is alive
  | drop (a : Int)
  | take (a : Int)
  | put (a : Int)

/-- One step on (container, net amount taken out so far); a failing operation leaves the state
unchanged (the real transaction aborts; here we keep going to cover *all* interleavings of successful
operations). -/
def cstep (d : Nat) (w : Who) (s : FCont × Int) : COp → FCont × Int
  | .create a => match s.1.createProof a d w with | .ok c => (c, s.2) | .error _ => s
  | .clone a => if a ∈ s.1.locked then (match s.1.lock a w with | .ok c => (c, s.2) | .error _ => s) else s
  | .drop a => match s.1.unlock a with | .ok c => (c, s.2) | .error _ => s
  | .take a => match s.1.take a d w with | .ok c => (c, s.2 + a) | .error _ => s
  | .put a => if 0 ≤ a then (s.1.put a, s.2 - a) else s

def crun (d : Nat) (w : Who) (s : FCont × Int) (ops : List COp) : FCont × Int := ops.foldl (cstep d w) s

/-- Invariant: well-formedness, and the amount held = initial amount − net amount taken out. -/
def CInv (total0 : Int) (s : FCont × Int) : Prop := s.1.WF ∧ s.1.amount = total0 - s.2

theorem cinv_step (d : Nat) (w : Who) (t : Int) (s : FCont × Int) (op : COp) (h : CInv t s) :
    CInv t (cstep d w s op) := by
  obtain ⟨hwf, hamt⟩ := h
  cases op with
  | create a =>
    simp only [cstep]
    cases hc : s.1.createProof a d w with
    | error e => exact ⟨hwf, hamt⟩
    | ok c =>
      obtain ⟨hchk, _, hl⟩ := createProof_ok _ _ _ _ _ hc
      exact ⟨lock_wf _ _ _ _ hwf (checkAmount_nonneg hchk) hl, by
        have := (lock_total_const _ _ _ _ hl).1; simp only; omega⟩
  | clone a =>
    simp only [cstep]
    split
    · rename_i hm
      cases hl : s.1.lock a w with
      | error e => exact ⟨hwf, hamt⟩
      | ok c =>
        exact ⟨lock_wf _ _ _ _ hwf (hwf.locked a hm) hl, by
          have := (lock_total_const _ _ _ _ hl).1; simp only; omega⟩
    · exact ⟨hwf, hamt⟩
  | drop a =>
    simp only [cstep]
    cases hu : s.1.unlock a with
    | error e => exact ⟨hwf, hamt⟩
    | ok c =>
      exact ⟨unlock_wf _ _ _ hwf hu, by have := (unlock_total_const _ _ _ hu).1; simp only; omega⟩
  | take a =>
    simp only [cstep]
    cases ht : s.1.take a d w with
    | error e => exact ⟨hwf, hamt⟩
    | ok c =>
      have := take_respects_lock _ _ _ _ _ hwf ht
      exact ⟨this.2.2.1, by simp only; omega⟩
  | put a =>
    simp only [cstep]
    split
    · rename_i ha
      refine ⟨⟨?_, hwf.locked⟩, ?_⟩
      · have := hwf.liquid; simp only [FCont.put]; omega
      · simp only [FCont.put, FCont.amount] at *; omega
    · exact ⟨hwf, hamt⟩

theorem cinv_run (d : Nat) (w : Who) (t : Int) (ops : List COp) (s : FCont × Int) (h : CInv t s) :
    CInv t (crun d w s ops) := by
  unfold crun
  induction ops generalizing s with
  | nil => exact h
  | cons op rest ih => exact ih _ (cinv_step d w t s op h)

/-- **total_const, for every interleaving.** Starting from a container holding `T` with no proofs,
after any sequence of proof creations, clones, drops, takes and puts the container holds exactly
`T − (taken − put)`: creating, cloning and dropping proofs never changes the amount. -/
theorem total_const (d : Nat) (w : Who) (T : Int) (hT : 0 ≤ T) (ops : List COp) :
    (crun d w (⟨T, []⟩, 0) ops).1.amount = T - (crun d w (⟨T, []⟩, 0) ops).2 := by
  have : CInv T ((⟨T, []⟩ : FCont), (0 : Int)) :=
    ⟨⟨hT, by intro a ha; cases ha⟩, by simp [FCont.amount, maxL]⟩
  exact (cinv_run d w T ops _ this).2

/-- **Funds behind a live proof stay in the container, in every reachable state**: every live proof's
amount is at most what the container holds, and the liquid (withdrawable) part is exactly the amount
held minus the largest live proof — so no `take` can reach below it (`take_ok_iff`). -/
theorem proven_amount_stays (d : Nat) (w : Who) (T : Int) (hT : 0 ≤ T) (ops : List COp) :
    let c := (crun d w (⟨T, []⟩, 0) ops).1
    (∀ p ∈ c.locked, p ≤ c.amount) ∧ c.liquid = c.amount - maxL c.locked ∧ 0 ≤ c.liquid := by
  have : CInv T ((⟨T, []⟩ : FCont), (0 : Int)) :=
    ⟨⟨hT, by intro a ha; cases ha⟩, by simp [FCont.amount, maxL]⟩
  have hinv := (cinv_run d w T ops _ this).1
  refine ⟨?_, by simp only [FCont.amount]; omega, hinv.liquid⟩
  intro p hp
  have := le_maxL_of_mem hp
  have := hinv.liquid
  simp only [FCont.amount]; omega

/-- In every reachable state a withdrawal of `x` succeeds iff `x` is valid and
`x ≤ held − max live proof`. -/
theorem take_iff_reachable (d : Nat) (w : Who) (T : Int) (hT : 0 ≤ T) (ops : List COp) (x : Int) :
    let c := (crun d w (⟨T, []⟩, 0) ops).1
    (∃ c', c.take x d w = .ok c') ↔ (checkAmount x d = true ∧ x ≤ c.amount - maxL c.locked) := by
  have h := (proven_amount_stays d w T hT ops).2.1
  simp only at h ⊢
  rw [take_ok_iff, h]

/-- **all_dropped_restores.** Whenever all proofs have been dropped the full amount is liquid again,
so a valid withdrawal of the whole amount succeeds. -/
theorem all_dropped_restores (d : Nat) (w : Who) (T : Int) (hT : 0 ≤ T) (ops : List COp)
    (hnone : (crun d w (⟨T, []⟩, 0) ops).1.locked = []) :
    let c := (crun d w (⟨T, []⟩, 0) ops).1
    c.liquid = T - (crun d w (⟨T, []⟩, 0) ops).2 ∧
    (checkAmount c.amount d = true → ∃ c', c.take c.amount d w = .ok c' ∧ c'.amount = 0) := by
  have ht := total_const d w T hT ops
  have hp := proven_amount_stays d w T hT ops
  simp only at hp ⊢
  have hliq : (crun d w (⟨T, []⟩, 0) ops).1.liquid = (crun d w (⟨T, []⟩, 0) ops).1.amount := by
    have := hp.2.1; rw [hnone] at this; simp only [maxL] at this; omega
  refine ⟨by omega, ?_⟩
  intro hc
  have hok : ∃ c', (crun d w (⟨T, []⟩, 0) ops).1.take (crun d w (⟨T, []⟩, 0) ops).1.amount d w = .ok c' :=
    (take_ok_iff _ _ _ _).mpr ⟨hc, by omega⟩
  obtain ⟨c', hc'⟩ := hok
  have hinv : CInv T ((⟨T, []⟩ : FCont), (0 : Int)) :=
    ⟨⟨hT, by intro a ha; cases ha⟩, by simp [FCont.amount, maxL]⟩
  have hwf := (cinv_run d w T ops _ hinv).1
  exact ⟨c', hc', by have := (take_respects_lock _ _ _ _ _ hwf hc').1; omega⟩

/-- **overlap_is_max_not_sum.** From a container holding `T` without proofs, any list of valid
non-zero proof amounts that are each at most `T` can all be alive at once — even if their sum exceeds
`T` — and the liquid part is then `T − max`, not `T − sum`. -/
theorem overlap_is_max_not_sum (d : Nat) (w : Who) (T : Int) (hT : 0 ≤ T) (as : List Int)
    (hvalid : ∀ a ∈ as, checkAmount a d = true ∧ a ≠ 0 ∧ a ≤ T) :
    let c := (crun d w (⟨T, []⟩, 0) (as.map COp.create)).1
    c.locked.Perm as ∧ c.liquid = T - maxL as ∧ c.amount = T := by
  suffices ∀ (c0 : FCont), c0.WF → c0.amount = T →
      let c := (crun d w (c0, 0) (as.map COp.create)).1
      c.locked.Perm (as.reverse ++ c0.locked) ∧ c.amount = T ∧ c.WF by
    have h := this ⟨T, []⟩ ⟨hT, by intro a ha; cases ha⟩ (by simp [FCont.amount, maxL])
    simp only at h ⊢
    have hperm : ((crun d w (⟨T, []⟩, 0) (as.map COp.create)).1).locked.Perm as := by
      have := h.1; simp only [List.append_nil] at this
      exact this.trans (List.reverse_perm as)
    refine ⟨hperm, ?_, h.2.1⟩
    have hm := maxL_perm hperm
    have := h.2.1
    simp only [FCont.amount] at this
    omega
  induction as with
  | nil => intro c0 hwf hamt; simp [crun, hwf, hamt]
  | cons a rest ih =>
    intro c0 hwf hamt
    obtain ⟨hchk, hne, hle⟩ := hvalid a List.mem_cons_self
    have hok : ∃ c1, c0.lock a w = .ok c1 := (lock_ok_iff c0 a w hwf).mpr (by omega)
    obtain ⟨c1, hc1⟩ := hok
    have hcp : c0.createProof a d w = .ok c1 := by
      unfold FCont.createProof; simp [hchk, hc1, hne]
    have hstep : crun d w (c0, 0) ((a :: rest).map COp.create) = crun d w (c1, 0) (rest.map COp.create) := by
      simp only [crun, List.map_cons, List.foldl_cons, cstep, hcp]
    have ht := lock_total_const _ _ _ _ hc1
    have hwf1 := lock_wf _ _ _ _ hwf (checkAmount_nonneg hchk) hc1
    have := ih (fun x hx => hvalid x (List.mem_cons_of_mem _ hx)) c1 hwf1 (by omega)
    simp only at this ⊢
    rw [hstep]
    refine ⟨?_, this.2⟩
    have hp := this.1
    rw [ht.2] at hp
    refine hp.trans ?_
    simp only [List.reverse_cons, List.append_assoc, List.singleton_append]
    exact List.Perm.refl _

/-! ### divisibility -/

/-- every amount stored in the container is a multiple of the resource's unit -/
def FCont.Div (u : Int) (c : FCont) : Prop := u ∣ c.liquid ∧ ∀ a ∈ c.locked, u ∣ a

theorem checkAmount_dvd {a : Int} {d : Nat} (h : checkAmount a d = true) : ((10 : Int) ^ (18 - d)) ∣ a := by
  unfold checkAmount at h
  simp only [Bool.and_eq_true, decide_eq_true_eq] at h
  exact Int.dvd_of_tmod_eq_zero h.2

theorem dvd_maxL {u : Int} {l : List Int} (h : ∀ a ∈ l, u ∣ a) : u ∣ maxL l := by
  rcases maxL_zero_or_mem l with h0 | hm
  · rw [h0]; exact Int.dvd_zero u
  · exact h _ hm

/-- **Amounts always respect the divisibility**: `take`, `create_proof`, clone and drop keep every
stored amount a multiple of `10^(18-d)`, and a successful `take`/`create_proof` amount is one. -/
theorem div_step (d : Nat) (w : Who) (s : FCont × Int) (op : COp)
    (hput : ∀ a, op = .put a → ((10 : Int) ^ (18 - d)) ∣ a)
    (h : s.1.Div ((10 : Int) ^ (18 - d))) : (cstep d w s op).1.Div ((10 : Int) ^ (18 - d)) := by
  obtain ⟨hl, hk⟩ := h
  have hmax := dvd_maxL hk
  cases op with
  | create a =>
    simp only [cstep]
    cases hc : s.1.createProof a d w with
    | error e => exact ⟨hl, hk⟩
    | ok c =>
      obtain ⟨hchk, _, hlk⟩ := createProof_ok _ _ _ _ _ hc
      have hda := checkAmount_dvd hchk
      have hliq := lock_liquid _ _ _ _ hlk
      have ht := lock_total_const _ _ _ _ hlk
      have hk' : ∀ x ∈ a :: s.1.locked, (10 : Int) ^ (18 - d) ∣ x := by
        intro x hx; rcases List.mem_cons.mp hx with rfl | hx
        · exact hda
        · exact hk x hx
      refine ⟨?_, by rw [ht.2]; exact hk'⟩
      simp only; rw [hliq]
      exact Int.dvd_sub (Int.dvd_add hl hmax) (dvd_maxL hk')
  | clone a =>
    simp only [cstep]
    split
    · rename_i hm
      cases hlk : s.1.lock a w with
      | error e => exact ⟨hl, hk⟩
      | ok c =>
        have hliq := lock_liquid _ _ _ _ hlk
        have ht := lock_total_const _ _ _ _ hlk
        have hk' : ∀ x ∈ a :: s.1.locked, (10 : Int) ^ (18 - d) ∣ x := by
          intro x hx; rcases List.mem_cons.mp hx with rfl | hx
          · exact hk _ hm
          · exact hk x hx
        refine ⟨?_, by rw [ht.2]; exact hk'⟩
        simp only; rw [hliq]
        exact Int.dvd_sub (Int.dvd_add hl hmax) (dvd_maxL hk')
    · exact ⟨hl, hk⟩
  | drop a =>
    simp only [cstep]
    cases hu : s.1.unlock a with
    | error e => exact ⟨hl, hk⟩
    | ok c =>
      unfold FCont.unlock at hu
      split at hu
      · simp only [Except.ok.injEq] at hu
        subst hu
        have hk' : ∀ x ∈ s.1.locked.erase a, (10 : Int) ^ (18 - d) ∣ x :=
          fun x hx => hk x (List.mem_of_mem_erase hx)
        exact ⟨Int.dvd_add hl (Int.dvd_sub hmax (dvd_maxL hk')), hk'⟩
      · cases hu
  | take a =>
    simp only [cstep]
    cases ht : s.1.take a d w with
    | error e => exact ⟨hl, hk⟩
    | ok c =>
      have hchk := ((take_ok_iff _ _ _ _).mp ⟨c, ht⟩).1
      unfold FCont.take FCont.takeRaw at ht
      rw [hchk] at ht
      simp only [if_true] at ht
      split at ht
      · cases ht
      · simp only [Except.ok.injEq] at ht; subst ht
        exact ⟨Int.dvd_sub hl (checkAmount_dvd hchk), hk⟩
  | put a =>
    simp only [cstep]
    split
    · exact ⟨Int.dvd_add hl (hput a rfl), hk⟩
    · exact ⟨hl, hk⟩

/-! ### Non-vacuity -/

def u18 : Int := (10 : Int) ^ 18

-- two overlapping proofs of 60 and 70 on 100: both alive, 30 liquid (not −30), total still 100
example : (crun 18 .vault (⟨100 * u18, []⟩, 0) [.create (60 * u18), .create (70 * u18)]).1
    = ⟨30 * u18, [70 * u18, 60 * u18]⟩ := by decide
-- withdrawing 31 fails, 30 succeeds
example : (FCont.take ⟨30 * u18, [70 * u18, 60 * u18]⟩ (31 * u18) 18 .vault)
    = .error (.insufficient .vault (31 * u18) (30 * u18)) := by decide
example : (FCont.take ⟨30 * u18, [70 * u18, 60 * u18]⟩ (30 * u18) 18 .vault)
    = .ok ⟨0, [70 * u18, 60 * u18]⟩ := by decide
-- dropping the 70 proof frees 10; dropping both restores everything
example : (crun 18 .vault (⟨100 * u18, []⟩, 0)
    [.create (60 * u18), .create (70 * u18), .drop (70 * u18)]).1 = ⟨40 * u18, [60 * u18]⟩ := by decide
example : (crun 18 .vault (⟨100 * u18, []⟩, 0)
    [.create (60 * u18), .clone (60 * u18), .drop (60 * u18), .drop (60 * u18)]).1 = ⟨100 * u18, []⟩ := by decide
-- divisibility 2: 1 atto is rejected
example : FCont.take ⟨100 * u18, []⟩ 1 2 .vault = .error (.invalidAmount .vault 1) := by decide
example : FCont.WF ⟨30 * u18, [70 * u18, 60 * u18]⟩ := ⟨by decide, by decide⟩

/-! ### non-fungible containers -/

/-- **NF: only liquid ids can be taken, and taking never touches the locks.** A successful
`take_non_fungibles` (withdraw / burn / recall by ids) needs every requested id in the *liquid* set, removes
nothing but liquid ids, and leaves the lock table unchanged — an id behind a live proof is not liquid
(it was moved out by `lock_non_fungibles`), so it stays in the container. -/
theorem nf_take_needs_liquid (c c' : NCont) (ids : List Nat) (w : Who) (h : c.take ids w = .ok c') :
    (∀ i ∈ ids, i ∈ c.liquid) ∧ (∀ y ∈ c'.liquid, y ∈ c.liquid) ∧ c'.locked = c.locked := by
  unfold NCont.take at h
  cases ht : takeIds c.liquid w ids with
  | error e => simp [ht] at h
  | ok l =>
    simp only [ht, Except.ok.injEq] at h; subst h
    obtain ⟨h1, h2⟩ := takeIds_needs_liquid w ids ht
    exact ⟨h1, h2, rfl⟩

/-- **NF: overlapping proofs share the locked ids.** Creating a proof over ids that are already locked
takes nothing more out of the liquid set (only the not-yet-locked ids must be liquid), and each id gets
one more lock. -/
theorem nf_lock_spec (c c' : NCont) (ids : List Nat) (w : Who) (h : c.lock ids w = .ok c') :
    c'.locked = c.locked ++ ids ∧ (∀ i ∈ ids, i ∈ c.locked ∨ i ∈ c.liquid) ∧ (∀ y ∈ c'.liquid, y ∈ c.liquid) := by
  unfold NCont.lock at h
  cases ht : takeIds c.liquid w (ids.filter (fun i => !(c.locked.contains i))) with
  | error e => rw [ht] at h; cases h
  | ok l =>
    simp only [ht, Except.ok.injEq] at h; subst h
    obtain ⟨h1, h2⟩ := takeIds_needs_liquid w _ ht
    refine ⟨rfl, ?_, h2⟩
    intro i hi
    by_cases hl : i ∈ c.locked
    · exact Or.inl hl
    · right; apply h1; simp [hi, hl]

/-- **NF: a proof of already locked ids is always possible** (max-not-sum for id sets). -/
theorem nf_lock_locked_ok (c : NCont) (ids : List Nat) (w : Who) (hall : ∀ i ∈ ids, i ∈ c.locked) :
    c.lock ids w = .ok { c with locked := c.locked ++ ids } := by
  unfold NCont.lock
  have : ids.filter (fun i => !(c.locked.contains i)) = [] := by
    rw [List.filter_eq_nil_iff]; intro i hi; simp [hall i hi]
  rw [this]; rfl

example : (NCont.lock ⟨[1, 2, 3], []⟩ [2, 3] .vault) = .ok ⟨[1], [2, 3]⟩ := by decide
example : (NCont.take ⟨[1], [2, 3]⟩ [2] .vault) = .error (.missingId .vault 2) := by decide
example : (NCont.lock ⟨[1], [2, 3]⟩ [3] .vault) = .ok ⟨[1], [2, 3, 3]⟩ := by decide
example : (NCont.unlock ⟨[1], [2, 3, 3]⟩ [2, 3]) = .ok ⟨[1, 2], [3]⟩ := by decide

end Radix.Res
