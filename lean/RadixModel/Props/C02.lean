/-
C02 — Failed, rejected and aborted transactions change nothing but fees.

Property theorems only. Model: `Model/FailureCommit.lean` (on top of `Model/Track.lean`, C12, and
`Model/FeeReserve.lean`, C06). Lemmas: `Lemmas/FailureCommit.lean`, `Lemmas/FailureCommitFwd.lean`.

Reading guide
* `revert_keeps_only_force_writes` — what `Track::revert_non_force_write_changes` leaves behind.
* `execution_invariant`, `lock_fee_never_panics` — what holds after *every* admissible op list, i.e. at
  every position where an execution can fail (a prefix of an op list is an op list).
* `failure_diff_shape` — the receipt of a Commit-failure, for every op list / failure position.
* `failure_events` — which events survive.
* `reject_abort_no_updates`, `classification_*`, `error_before_repay_is_reject` — the dispatch.
* `revert_keeps_deleted_partitions` — why `delete_partition` must not occur before the revert.
* `source_shape` — the facts about the source text the model's side conditions rest on,
  re-decided on every run on `Generated/C02.lean`.
-/
import RadixModel.Lemmas.FailureCommitFwd
import RadixModel.Generated.C02
namespace Radix.FailureCommit
open Radix.KV Radix.SubstateDb Radix.Track Radix.Fee

/-! ### revert -/

/-- **revert_keeps_only_force_writes.** After `revert_non_force_write_changes`, committing the
track's state updates to the base database yields the base database everywhere except at
force-written substates, which take the update recorded when they were force-written; and the
receipt lists no new node. (No partition deletion before the revert: see
`revert_keeps_deleted_partitions`.) -/
theorem revert_keeps_only_force_writes (t t' : Track) (hsh : Shape t) (hf : NodesNodup t.force)
    (hfs : ∀ n p, SMap.Sorted (partOf t.force n p)) (hd : t.deleted = []) (h : revert t = some t') :
    (∀ n p k, (t.db.commit (toStateUpdates t').2).get (n, p) k
        = match lookupIn t.force n p k with
          | some ftv => (match ftv.toUpdate with | some u => u | none => t.db.get (n, p) k)
          | none => t.db.get (n, p) k)
    ∧ (toStateUpdates t').1 = [] := by
  have hps : PartsSorted t.force := by
    intro x hx y hy
    have := hfs x.1 y.1
    unfold partOf at this
    rw [IMap.get?_of_mem t.force hf.outer x.1 x.2 hx] at this
    simp only [] at this
    rw [IMap.get?_of_mem x.2.parts (hf.inner x hx) y.1 y.2 hy] at this
    exact this
  obtain ⟨hsh', hnew⟩ := shape_revert t t' hsh h
  obtain ⟨hdb, hdel, _⟩ := revert_fields t t' h
  refine ⟨?_, newNodes_nil t' hnew hsh'.nodup.outer⟩
  intro n p k
  have hnd : (n, p) ∉ t'.deleted := by rw [hdel, hd]; simp
  rw [← hdb, state_updates_meaning_del t' hsh' n p k hnd, effCommit_revert t t' hsh.nodup hf hps h, hdb]
  rfl

example : ∃ t t', revert t = some t' ∧ lookupIn t.force 0 0 1 = some (.readExistAndWrite 10 (.update 7))
    ∧ lookupIn t'.nodes 0 0 2 = some (.readOnly (some 5)) := by
  refine ⟨(runTx ((Db.empty.set (0, 0) [(1, 10), (2, 5)])) [.lockFee 0 0 1 3, .store (.get 0 0 2), .store (.set 0 0 2 99), .store (.create 7 [(0, [(1, 1)])])]).track, _, rfl, by decide, by decide⟩

/-- `revert_non_force_write_changes` does not touch `deleted_partitions`: a partition deleted before
the revert would still be reset by the final state updates. The engine's only `delete_partition`
call site is `update_transaction_tracker`, which runs after the revert (`source_shape`). -/
theorem revert_keeps_deleted_partitions (t t' : Track) (h : revert t = some t') : t'.deleted = t.deleted :=
  (revert_fields t t' h).2.1

/-- the witness: the model itself shows the loss if a partition deletion preceded the revert -/
example :
    let db : Db := Db.empty.set (0, 0) [(1, 10)]
    let t := (step (Track.new db) (.deletePartition 0 0)).1
    ∃ t', revert t = some t' ∧ (db.commit (toStateUpdates t').2).get (0, 0) 1 = none ∧ db.get (0, 0) 1 = some 10 :=
  ⟨_, rfl, by decide, by decide⟩

/-! ### the execution phase -/

/-- **execution_invariant.** For every well-formed base database and every admissible op list (kernel
store calls, `lock_fee`s, event emissions — stopped anywhere), the transaction state satisfies
`FwdInv`: the track invariants of C12, no deleted partition, and every force-written substate
belongs to a recorded fee lock on a substate that exists in the base database with a value `old`
not below the locked amount, the recorded value being exactly `old - amount`. -/
theorem execution_invariant (db : Db) (hdb : Db.WF db) (ops : List TxOp) (hops : TxOpsOK (Tx.new db) ops) :
    FwdInv (runTx db ops) ∧ (runTx db ops).track.db = db :=
  fwdInv_fold ops (Tx.new db) hops (fwdInv_new db hdb)

example : TxOpsOK (Tx.new (Db.empty.set (0, 0) [(1, 10)]))
    [.lockFee 0 0 1 3, .store (.set 0 0 2 5), .emit false false 0 11 1, .store (.remove 0 0 1)] := by
  refine ⟨trivial, ⟨⟨trivial, trivial⟩, trivial, ⟨⟨trivial, trivial⟩, trivial⟩⟩⟩

/-- **lock_fee_never_panics.** In every reachable state the `force_write` issued when `lock_fee`
closes the balance substate finds the substate tracked (the `expect` cannot fire). -/
theorem lock_fee_never_panics (db : Db) (hdb : Db.WF db) (ops : List TxOp) (hops : TxOpsOK (Tx.new db) ops)
    (n p k a : Nat) : lockFeeWrite (runTx db ops).track n p k a ≠ none := by
  obtain ⟨t', r, h, _⟩ := lockFeeWrite_other (runTx db ops).track n p k a (execution_invariant db hdb ops hops).1.inv
  rw [h]; simp

/-- **lock_fee_needs_unmodified_base.** A successful `lock_fee` reads the base database value
(`UNMODIFIED_BASE`): the substate exists there and the new balance is `old - amount`. -/
theorem lock_fee_needs_unmodified_base (db : Db) (hdb : Db.WF db) (ops : List TxOp) (hops : TxOpsOK (Tx.new db) ops)
    (n p k a nb : Nat) (t3 : Track) (h : lockFeeWrite (runTx db ops).track n p k a = some (t3, .ok nb)) :
    ∃ old, db.get (n, p) k = some old ∧ a ≤ old ∧ nb = old - a := by
  obtain ⟨hinv, hdbeq⟩ := execution_invariant db hdb ops hops
  obtain ⟨old, h1, h2, h3, _⟩ := lockFeeWrite_ok _ t3 n p k a nb hinv.inv h
  exact ⟨old, by rw [← hdbeq]; exact h1, h2, h3⟩

/-! ### the receipt of a failed commit -/

/-- **failure_diff_shape.** For every well-formed base database, every admissible op list (hence every
failure position) and every finalization input: if the transaction commits as a failure, the receipt
says failure, lists no new node, and applying its state updates to the base database changes nothing
outside the allowed set — balance substates of vaults that locked a fee, the consensus manager's
validator-rewards field, the rewards vault, the transaction tracker's node. (Inside the allowed set
the fee vaults hold `base - fee + refund`, see `failure_fee_vault_base` and C06.) -/
theorem failure_diff_shape (db : Db) (hdb : Db.WF db) (ops : List TxOp) (hops : TxOpsOK (Tx.new db) ops)
    (sys : Sys) (fi : FinInput) (succ : Bool) (nn : List Nat) (su : DbUpdates) (evs : List Event)
    (h : commitReceipt false (runTx db ops) sys fi = .commit succ nn su evs) :
    succ = false ∧ nn = [] ∧
      ∀ n p k, ¬ Allowed sys (runTx db ops).locked (n, p, k) → (db.commit su).get (n, p) k = db.get (n, p) k := by
  obtain ⟨hinv, hdbeq⟩ := execution_invariant db hdb ops hops
  generalize hs : runTx db ops = s at *
  unfold commitReceipt at h
  simp only [Bool.false_eq_true, if_false] at h
  cases hr : revert s.track with
  | none => rw [hr] at h; simp at h
  | some t1 =>
    rw [hr] at h
    simp only [] at h
    cases hff : feeFinOps sys s.locked fi with
    | none => rw [hff] at h; simp at h
    | some fo =>
      obtain ⟨fops, fevs⟩ := fo
      rw [hff] at h
      simp only [] at h
      cases hfr : finRun t1 (fops ++ trackerFinOps sys fi) with
      | none => rw [hfr] at h; simp at h
      | some t2 =>
        rw [hfr] at h
        simp only [Receipt.commit.injEq] at h
        obtain ⟨rfl, rfl, rfl, _⟩ := h
        have hsh : Shape s.track := ⟨hinv.inv.nodup, hinv.inv.wf.sorted⟩
        have hps : PartsSorted s.track.force := by
          intro x hx y hy
          have := hinv.fsorted x.1 y.1
          unfold partOf at this
          rw [IMap.get?_of_mem s.track.force hinv.fnodup.outer x.1 x.2 hx] at this
          simp only [] at this
          rw [IMap.get?_of_mem x.2.parts (hinv.fnodup.inner x hx) y.1 y.2 hy] at this
          exact this
        obtain ⟨hsh1, hnew1⟩ := shape_revert s.track t1 hsh hr
        obtain ⟨hdb1, hdel1, _⟩ := revert_fields s.track t1 hr
        obtain ⟨hsh2, hdb2, heff2, hdel2⟩ := finRun_spec _ t1 t2 hsh1 hfr
        obtain ⟨fw, fd, _⟩ := feeFinOps_written sys s.locked fi fops fevs hff
        obtain ⟨tw, td⟩ := trackerFinOps_written sys fi
        refine ⟨rfl, ?_, ?_⟩
        · -- no new nodes: finalization writes never mark a node as new
          have hnew2 : ∀ n, isNewIn t2.nodes n = false := by
            have : ∀ (ops : List FinOp) (t t' : Track), finRun t ops = some t' →
                (∀ n, isNewIn t.nodes n = false) → ∀ n, isNewIn t'.nodes n = false := by
              intro ops
              induction ops with
              | nil => intro t t' h h0; simp only [finRun, Option.some.injEq] at h; subst h; exact h0
              | cons op rest ih =>
                intro t t' h h0
                simp only [finRun] at h
                cases hst : finStep t op with
                | none => rw [hst] at h; simp at h
                | some tm =>
                  rw [hst] at h
                  refine ih tm t' h ?_
                  intro n
                  cases op with
                  | read a b c =>
                    simp only [finStep, getSubstate] at hst
                    cases hv : (getTracked t a b c).2.get with
                    | none => rw [hv] at hst; simp at hst
                    | some bal =>
                      rw [hv] at hst; simp only [Option.some.injEq] at hst; subst hst
                      unfold getTracked; cases lookupTV t a b c with
                      | some tv => exact h0 n
                      | none => simp only []; unfold putIn; rw [isNewIn_alterPart]; exact h0 n
                  | credit a b c d =>
                    simp only [finStep, getSubstate] at hst
                    cases hv : (getTracked t a b c).2.get with
                    | none => rw [hv] at hst; simp at hst
                    | some bal =>
                      rw [hv] at hst; simp only [Option.some.injEq] at hst; subst hst
                      have hg : isNewIn (getTracked t a b c).1.nodes n = false := by
                        unfold getTracked; cases lookupTV t a b c with
                        | some tv => exact h0 n
                        | none => simp only []; unfold putIn; rw [isNewIn_alterPart]; exact h0 n
                      unfold setSubstate; cases lookupTV (getTracked t a b c).1 a b c with
                      | none => simp only []; unfold putIn; rw [isNewIn_alterPart]; exact hg
                      | some tv => simp only []; unfold putIn; rw [isNewIn_alterPart]; exact hg
                  | put a b c d =>
                    simp only [finStep, Option.some.injEq] at hst; subst hst
                    unfold setSubstate; cases lookupTV t a b c with
                    | none => simp only []; unfold putIn; rw [isNewIn_alterPart]; exact h0 n
                    | some tv => simp only []; unfold putIn; rw [isNewIn_alterPart]; exact h0 n
                  | delPart a b =>
                    simp only [finStep, Option.some.injEq] at hst; subst hst; exact h0 n
            exact this _ t1 t2 hfr hnew1
          exact newNodes_nil t2 hnew2 hsh2.nodup.outer
        · intro n p k hna
          -- the key is not written by the finalization, its partition is not deleted
          have hnw : ∀ op ∈ fops ++ trackerFinOps sys fi, op.written ≠ some (n, p, k) := by
            intro op hop hw
            rcases List.mem_append.mp hop with hop | hop
            · exact hna (fw op hop _ hw)
            · exact hna (Or.inr (Or.inr (Or.inr (tw op hop _ hw))))
          have hnd : (n, p) ∉ t2.deleted := by
            intro hm
            rcases hdel2 _ hm with hm' | ⟨op, hop, hod⟩
            · rw [hdel1, hinv.nodel] at hm'; simp at hm'
            · rcases List.mem_append.mp hop with hop | hop
              · rw [fd op hop] at hod; simp at hod
              · exact hna (Or.inr (Or.inr (Or.inr (td op hop _ hod))))
          have hdbs : s.track.db = db := hdbeq
          have e1 : (db.commit (toStateUpdates t2).2).get (n, p) k = effCommit t2 n p k := by
            have := state_updates_meaning_del t2 hsh2 n p k hnd
            rw [hdb2, hdb1, hdbs] at this; exact this
          rw [e1, heff2 n p k hnw, effCommit_revert s.track t1 hinv.inv.nodup hinv.fnodup hps hr, hdbs]
          -- not force-written: force-written substates belong to fee locks
          cases hl : lookupIn s.track.force n p k with
          | none => rfl
          | some ftv =>
            obtain ⟨l, old, hm, hk, _⟩ := hinv.forced n p k ftv hl
            exact absurd (Or.inl (List.mem_map.mpr ⟨l, hm, hk⟩)) hna

example : ∃ nn su evs, commitReceipt false
    (runTx (((Db.empty.set (0, 0) [(1, 10)]).set (4, 0) [(0, 1), (1, 2), (2, 3)]).set (4, 3) [(0, 7)])
      [.lockFee 0 0 1 3, .store (.set 0 0 2 5), .store (.create 9 [(0, [(1, 1)])])])
    { cmNode := 4, cmPart := 0, cmStateKey := 0, cmRewardsKey := 1, rewardsVault := (4, 0, 2), trNode := 4, trPart := 3, trFieldKey := 0 }
    { payments := [2], toProposer := 1, toValidatorSet := 0, toBurn := 1, newRewards := 9, nullifications := [(1, 5)],
      statusValue := 1, advance := none, newTracker := 8, hasEpoch := true } = .commit false nn su evs :=
  ⟨_, _, _, rfl⟩

/-- **failure_fee_vault_base.** The value that survives the revert at a fee vault is the base
database balance minus the locked fee (the refund of the unused part is added by the finalization). -/
theorem failure_fee_vault_base (db : Db) (hdb : Db.WF db) (ops : List TxOp) (hops : TxOpsOK (Tx.new db) ops)
    (t1 : Track) (hr : revert (runTx db ops).track = some t1) (n p k : Nat) (ftv : TV)
    (hl : lookupIn (runTx db ops).track.force n p k = some ftv) :
    ∃ l old, l ∈ (runTx db ops).locked ∧ l.key = (n, p, k) ∧ db.get (n, p) k = some old ∧ l.amount ≤ old
      ∧ effCommit t1 n p k = some (old - l.amount) := by
  obtain ⟨hinv, hdbeq⟩ := execution_invariant db hdb ops hops
  have hps : PartsSorted (runTx db ops).track.force := by
    intro x hx y hy
    have := hinv.fsorted x.1 y.1
    unfold partOf at this
    rw [IMap.get?_of_mem _ hinv.fnodup.outer x.1 x.2 hx] at this
    simp only [] at this
    rw [IMap.get?_of_mem x.2.parts (hinv.fnodup.inner x hx) y.1 y.2 hy] at this
    exact this
  obtain ⟨l, old, hm, hk, hd, hle, hv⟩ := hinv.forced n p k ftv hl
  refine ⟨l, old, hm, hk, by rw [← hdbeq]; exact hd, hle, ?_⟩
  rw [effCommit_revert _ t1 hinv.inv.nodup hinv.fnodup hps hr, hl, hv]
  rfl

/-- **failure_events.** The events of a failed commit are exactly the force-flagged events of the
execution, in order, followed by the finalization events (which are `PayFee` / `Deposit` / `Burn`,
not force-flagged); and when no fungible-vault actor emits a force-flagged event other than through
`lock_fee`, the force-flagged events are exactly the `LockFeeEvent`s of the recorded fee locks. -/
theorem failure_events (db : Db) (ops : List TxOp) (sys : Sys) (fi : FinInput)
    (succ : Bool) (nn : List Nat) (su : DbUpdates) (evs : List Event)
    (h : commitReceipt false (runTx db ops) sys fi = .commit succ nn su evs) :
    ∃ fevs, evs = (runTx db ops).events.filter (·.force) ++ fevs
      ∧ (∀ e ∈ fevs, e.force = false ∧ (e.name = EV_PAY_FEE ∨ e.name = EV_DEPOSIT ∨ e.name = EV_BURN))
      ∧ (NoVaultForcedEmit ops → (runTx db ops).events.filter (·.force) = (runTx db ops).locked.map lockEvent) := by
  have hforced : NoVaultForcedEmit ops →
      (runTx db ops).events.filter (·.force) = (runTx db ops).locked.map lockEvent := by
    intro hno
    have := forced_events_fold ops (Tx.new db) hno (by simp [filterEvents, Tx.new])
    simpa [filterEvents, runTx] using this
  generalize runTx db ops = s at *
  unfold commitReceipt at h
  simp only [Bool.false_eq_true, if_false] at h
  cases hr : revert s.track with
  | none => rw [hr] at h; simp at h
  | some t1 =>
    rw [hr] at h
    simp only [] at h
    cases hff : feeFinOps sys s.locked fi with
    | none => rw [hff] at h; simp at h
    | some fo =>
      obtain ⟨fops, fevs⟩ := fo
      rw [hff] at h
      simp only [] at h
      cases hfr : finRun t1 (fops ++ trackerFinOps sys fi) with
      | none => rw [hfr] at h; simp at h
      | some t2 =>
        rw [hfr] at h
        simp only [Receipt.commit.injEq] at h
        obtain ⟨_, _, _, rfl⟩ := h
        obtain ⟨_, _, hev⟩ := feeFinOps_written sys s.locked fi fops fevs hff
        refine ⟨fevs, ?_, hev, hforced⟩
        simp [filterEvents]

/-- the two blueprint guards: only a fungible-vault actor may open a field with `UNMODIFIED_BASE` /
`FORCE_WRITE` or emit an event flagged `FORCE_WRITE` -/
theorem force_flags_only_for_fungible_vault (ub fw : Bool) :
    (openFieldFlagsAllowed ub fw false = true ↔ (ub = false ∧ fw = false)) ∧ emitFlagsAllowed true false = false := by
  cases ub <;> cases fw <;> simp [openFieldFlagsAllowed, emitFlagsAllowed]

/-! ### the dispatch on the result type -/

/-- **reject_abort_no_updates.** A receipt carries state updates only when the result type is a
commit; applying a Reject / Abort receipt to the ledger leaves the database as it was. -/
theorem reject_abort_no_updates (cls : ResultType) (s : Tx) (sys : Sys) (fi : FinInput) (db : Db) :
    ((cls = .reject ∨ cls = .abort) → applyReceipt db (createReceipt cls s sys fi) = db)
    ∧ (∀ succ nn su evs, createReceipt cls s sys fi = .commit succ nn su evs →
        (cls = .commitSuccess ∧ succ = true) ∨ (cls = .commitFailure ∧ succ = false)) := by
  refine ⟨?_, ?_⟩
  · rintro (rfl | rfl) <;> rfl
  · intro succ nn su evs h
    have hc : ∀ b, commitReceipt b s sys fi = .commit succ nn su evs → succ = b := by
      intro b hb
      unfold commitReceipt at hb
      cases hrv : (if b = true then some s.track else revert s.track) with
      | none => rw [hrv] at hb; simp at hb
      | some t1 =>
        rw [hrv] at hb; simp only [] at hb
        cases hff : feeFinOps sys s.locked fi with
        | none => rw [hff] at hb; simp at hb
        | some fo =>
          rw [hff] at hb; simp only [] at hb
          cases hfr : finRun t1 (fo.1 ++ trackerFinOps sys fi) with
          | none => rw [hfr] at hb; simp at hb
          | some t2 => rw [hfr] at hb; simp only [Receipt.commit.injEq] at hb; exact hb.1.symm
    cases cls with
    | commitSuccess => exact Or.inl ⟨rfl, hc true h⟩
    | commitFailure => exact Or.inr ⟨rfl, hc false h⟩
    | reject => simp [createReceipt] at h
    | abort => simp [createReceipt] at h
    | panic => simp [createReceipt] at h

/-- **classification_total.** `determine_result_type` (C06's transcription, on the real fee-reserve
model) is decided by the interpretation result, the outcome of the final `repay_all` and
`fully_repaid`, by this table; in particular every case is covered and a panic can only come from
`repay_all` itself. -/
theorem classification_total (i : Interp) (r : Reserve) :
    let res := (repayAll r).2
    let r' := (repayAll r).1
    (determineResultType i r).1 = r' ∧
    (determineResultType i r).2 =
      (if res = .panic then ResultType.panic
       else match i with
         | .ok => if res = .ok then .commitSuccess else if res = .err .abort then .abort else .reject
         | .bootloadErr => .reject
         | .runtimeAbort => .abort
         | .runtimeErr => if r'.fullyRepaid then .commitFailure else .reject) := by
  simp only []
  unfold determineResultType
  cases hra : repayAll r with
  | mk r' res =>
    cases res with
    | panic => simp
    | ok =>
      cases i with
      | ok => simp
      | bootloadErr => simp
      | runtimeErr => by_cases hf : r'.fullyRepaid = true <;> simp [hf]
      | runtimeAbort => simp
    | err e =>
      cases i with
      | ok => cases e <;> simp
      | bootloadErr => simp
      | runtimeErr => by_cases hf : r'.fullyRepaid = true <;> simp [hf]
      | runtimeAbort => simp

/-- **error_before_repay_is_reject.** A (non-abort) runtime error while the system loan or deferred
costs are not fully repaid — in particular before any fee was locked — is a rejection, never a
commit; and a Commit-failure means the loan was fully repaid. -/
theorem error_before_repay_is_reject (r : Reserve) :
    ((repayAll r).2 ≠ .panic → (repayAll r).1.fullyRepaid = false → (determineResultType .runtimeErr r).2 = .reject)
    ∧ ((determineResultType .runtimeErr r).2 = .commitFailure → (repayAll r).1.fullyRepaid = true)
    ∧ (∀ i, (determineResultType i r).2 = .commitFailure → i = .runtimeErr) := by
  refine ⟨?_, ?_, ?_⟩
  · intro hp hf
    rw [(classification_total .runtimeErr r).2]
    simp [hp, hf]
  · intro h
    rw [(classification_total .runtimeErr r).2] at h
    by_cases hp : (repayAll r).2 = .panic
    · simp [hp] at h
    · simp only [hp, if_false] at h
      by_cases hf : (repayAll r).1.fullyRepaid = true
      · exact hf
      · simp [hf] at h
  · intro i h
    rw [(classification_total i r).2] at h
    by_cases hp : (repayAll r).2 = .panic
    · simp [hp] at h
    · simp only [hp, if_false] at h
      cases i with
      | runtimeErr => rfl
      | ok => simp only [] at h; split at h <;> (try split at h) <;> simp at h
      | bootloadErr => simp at h
      | runtimeAbort => simp at h

/-- **no_commit_no_change.** Putting the two together: whatever the execution did, if the result is
not a commit the ledger database is unchanged, and a commit of a failed execution requires a fully
repaid loan. -/
theorem no_commit_no_change (i : Interp) (r : Reserve) (s : Tx) (sys : Sys) (fi : FinInput) (db : Db)
    (h : (determineResultType i r).2 = .reject ∨ (determineResultType i r).2 = .abort) :
    applyReceipt db (createReceipt (determineResultType i r).2 s sys fi) = db :=
  (reject_abort_no_updates _ s sys fi db).1 h

/-! ### what the model assumes about the source text (re-decided on every run) -/

open Radix.Generated.C02 in
/-- **source_shape.** Facts of `Generated/C02.lean` (written by the harness from the current
working tree) the model's side conditions rest on: the flag bits are distinct single bits; the only
place that *passes* `LockFlags::FORCE_WRITE` is the fungible vault; the only places that pass
`EventFlags::FORCE_WRITE` are in `system.rs` (`lock_fee`); `delete_partition` and
`revert_non_force_write_changes` are each called once, in `system_callback.rs`; `force_write` is
called once, in `substate_io.rs::close_substate`, guarded by the lock's `FORCE_WRITE` flag; the three
lock-flag guards, the event-flag guard and the three `UNMODIFIED_BASE` refusals are present as
transcribed; `create_commit_receipt` reverts iff `!is_success`, before fee finalization, tracker
update, event filtering and `to_state_updates`; the event filter is the transcribed one. -/
theorem source_shape :
    LOCKFLAG_MUTABLE = 1 ∧ LOCKFLAG_UNMODIFIED_BASE = 2 ∧ LOCKFLAG_FORCE_WRITE = 4 ∧ EVENTFLAG_FORCE_WRITE = 1
    ∧ fwLockPassSites = 1 ∧ fwLockPassSitesInFungibleVault = 1
    ∧ fwEventPassSites = fwEventPassSitesInSystem
    ∧ deletePartitionCalls = 1 ∧ deletePartitionCallsInSystemCallback = 1
    ∧ revertCalls = 1 ∧ revertCallsInSystemCallback = 1
    ∧ forceWriteCalls = 1 ∧ forceWriteCallsInSubstateIo = 1 ∧ closeForceWritePresent = 1
    ∧ lockFlagGuards = 3 ∧ fieldGuardPresent = 1 ∧ kvGuardsPresent = 2 ∧ eventGuardPresent = 1
    ∧ unmodifiedBaseRefusals = 3
    ∧ revertOnFailurePresent = 1 ∧ commitReceiptOrderOk = 1 ∧ eventFilterPresent = 1 := by
  decide

end Radix.FailureCommit
