/-
C45 — WASM package validation is total and enforces the sandbox rules.

Property theorems only. Model: `RadixModel/Model/WasmValidate.lean` (`validate` = the pipeline of
`ScryptoV1WasmValidator::validate` over module summaries), lemmas: `RadixModel/Lemmas/WasmValidate.lean`,
limits and host-import table of the compiled tree: `RadixModel/Generated/C45.lean`.

Totality of the *model* is by construction (`validate` is a total function into `Except Err Output`); totality
of the real parser/transformers on arbitrary bytes is explored on the implementation (area `c45b`).

KNOWN FINDING (reproduced on the implementation, oracle key `params-unchecked-after-imports`):
`enforce_function_limit` indexes `function_map` — imported functions first — with `0..num_local_functions`,
so the parameter limit is checked for the imported functions and the first `local − imported` local
functions only.  Full statement that therefore does NOT hold for the code as it is:

    theorem accepted_implies_params_bound :
        validate c s = .ok o → ∀ f ∈ s.funcs, f.sig.params.length ≤ c.maxParams

Proved instead: `accepted_implies_params_bound_partial` (the checked prefix), the full bound when the module
imports nothing (`accepted_implies_params_bound_of_no_imports`), and the refutation `params_bound_refuted`
for the limits and host table of the compiled tree.
-/
import RadixModel.Model.WasmValidate
import RadixModel.Lemmas.WasmValidate
import RadixModel.Generated.C45

namespace Radix.WasmValidate

/-! ### 0. The configuration of the compiled tree -/

/-- `ScryptoV1WasmValidator::new(version)` with the limits and the host table regenerated from the tree -/
def realConfig (version : Nat) (required : List String) : Config :=
  { version := version
    maxMemPages := Generated.C45.MAX_MEMORY_SIZE_IN_PAGES
    maxTable := Generated.C45.MAX_INITIAL_TABLE_SIZE
    maxBrTable := Generated.C45.MAX_NUMBER_OF_BR_TABLE_TARGETS
    maxFuncs := Generated.C45.MAX_NUMBER_OF_FUNCTIONS
    maxParams := Generated.C45.MAX_NUMBER_OF_FUNCTION_PARAMS
    maxLocals := Generated.C45.MAX_NUMBER_OF_FUNCTION_LOCALS
    maxGlobals := Generated.C45.MAX_NUMBER_OF_GLOBALS
    host := hostOf Generated.C45.HOST_IMPORTS
    required := required }

/-- The sandbox specification (written from the Scrypto host API, independent of `prepare.rs`): the host
functions a package may import, their signatures (0 = i32, 1 = i64) and the Scrypto VM version that
introduced them (0 = genesis, 1 = anemone / crypto utils v1, 2 = cuttlefish / crypto utils v2). -/
def specHostImports : List (String × List Nat × List Nat × Nat) :=
  [("actor_emit_event", [0, 0, 0, 0, 0], [], 0), ("actor_get_blueprint_name", [], [1], 0),
   ("actor_get_object_id", [0], [1], 0), ("actor_get_package_address", [], [1], 0),
   ("actor_open_field", [0, 0, 0], [0], 0), ("address_allocate", [0, 0, 0, 0], [1], 0),
   ("address_get_reservation_address", [0, 0], [1], 0), ("blueprint_call", [0, 0, 0, 0, 0, 0, 0, 0], [1], 0),
   ("buffer_consume", [0, 0], [], 0), ("costing_get_execution_cost_unit_limit", [], [0], 0),
   ("costing_get_execution_cost_unit_price", [], [1], 0), ("costing_get_fee_balance", [], [1], 0),
   ("costing_get_finalization_cost_unit_limit", [], [0], 0),
   ("costing_get_finalization_cost_unit_price", [], [1], 0), ("costing_get_tip_percentage", [], [0], 0),
   ("costing_get_usd_price", [], [1], 0),
   ("crypto_utils_blake2b_256_hash", [0, 0], [1], 2),
   ("crypto_utils_bls12381_g2_signature_aggregate", [0, 0], [1], 1),
   ("crypto_utils_bls12381_v1_aggregate_verify", [0, 0, 0, 0], [0], 1),
   ("crypto_utils_bls12381_v1_fast_aggregate_verify", [0, 0, 0, 0, 0, 0], [0], 1),
   ("crypto_utils_bls12381_v1_verify", [0, 0, 0, 0, 0, 0], [0], 1),
   ("crypto_utils_ed25519_verify", [0, 0, 0, 0, 0, 0], [0], 2),
   ("crypto_utils_keccak256_hash", [0, 0], [1], 1),
   ("crypto_utils_secp256k1_ecdsa_verify", [0, 0, 0, 0, 0, 0], [0], 2),
   ("crypto_utils_secp256k1_ecdsa_verify_and_key_recover", [0, 0, 0, 0], [1], 2),
   ("crypto_utils_secp256k1_ecdsa_verify_and_key_recover_uncompressed", [0, 0, 0, 0], [1], 2),
   ("field_entry_close", [0], [], 0), ("field_entry_read", [0], [1], 0),
   ("field_entry_write", [0, 0, 0], [], 0), ("kv_entry_close", [0], [], 0), ("kv_entry_read", [0], [1], 0),
   ("kv_entry_remove", [0], [1], 0), ("kv_entry_write", [0, 0, 0], [], 0), ("kv_store_new", [0, 0], [1], 0),
   ("kv_store_open_entry", [0, 0, 0, 0, 0], [0], 0), ("kv_store_remove_entry", [0, 0, 0, 0], [1], 0),
   ("object_call", [0, 0, 0, 0, 0, 0], [1], 0), ("object_call_direct", [0, 0, 0, 0, 0, 0], [1], 0),
   ("object_call_module", [0, 0, 0, 0, 0, 0, 0], [1], 0), ("object_get_blueprint_id", [0, 0], [1], 0),
   ("object_get_outer_object", [0, 0], [1], 0), ("object_globalize", [0, 0, 0, 0, 0, 0], [1], 0),
   ("object_instance_of", [0, 0, 0, 0, 0, 0], [0], 0), ("object_new", [0, 0, 0, 0], [1], 0),
   ("sys_bech32_encode_address", [0, 0], [1], 0), ("sys_generate_ruid", [], [1], 0),
   ("sys_get_transaction_hash", [], [1], 0), ("sys_log", [0, 0, 0, 0], [], 0), ("sys_panic", [0, 0], [], 0)]

/-- The table probed from the compiled `enforce_import_constraints` (every `*_FUNCTION_NAME` constant × every
signature over i32/i64 with up to 9 parameters × every VM version) is exactly the specified host interface;
in particular the metering function `gas` and the test-only host functions are not importable. -/
theorem generated_host_table_is_spec :
    Generated.C45.HOST_IMPORTS = specHostImports ∧
    Generated.C45.NOT_IMPORTABLE =
      ["gas", "memory", "test_host_check_memory_is_clean", "test_host_read_memory", "test_host_write_memory"] :=
  ⟨rfl, rfl⟩

/-- the limits of the compiled tree are the documented sandbox limits, and they are `u32`-consistent -/
theorem generated_limits_agree :
    Generated.C45.MAX_MEMORY_SIZE_IN_PAGES = 64 ∧ Generated.C45.CONST_MAX_MEMORY_SIZE_IN_PAGES = 64 ∧
    Generated.C45.MAX_INITIAL_TABLE_SIZE = 1024 ∧ Generated.C45.MAX_NUMBER_OF_BR_TABLE_TARGETS = 256 ∧
    Generated.C45.MAX_NUMBER_OF_FUNCTIONS = 8192 ∧ Generated.C45.MAX_NUMBER_OF_FUNCTION_PARAMS = 32 ∧
    Generated.C45.MAX_NUMBER_OF_FUNCTION_LOCALS = 256 ∧ Generated.C45.MAX_NUMBER_OF_GLOBALS = 512 ∧
    Generated.C45.MAX_STACK_SIZE = 1024 ∧ Generated.C45.LATEST_VERSION = 2 ∧
    Generated.C45.MAX_MEMORY_SIZE_IN_PAGES * PAGE ≤ U32_MAX + 1 := by
  decide

/-- every host function of the compiled table has at most 8 parameters, all of them i32/i64: the parameter
limit can never reject an import, and no host signature mentions a float -/
theorem generated_host_sigs_small :
    ∀ e ∈ Generated.C45.HOST_IMPORTS,
      e.2.1.length ≤ 8 ∧ e.2.2.1.length ≤ 1 ∧ (∀ t ∈ e.2.1, t ≤ 1) ∧ (∀ t ∈ e.2.2.1, t ≤ 1) ∧
      e.2.2.2 ≤ Generated.C45.LATEST_VERSION := by
  decide

/-! ### 1. Imports -/

/-- The import loop accepts exactly the lists all of whose entries are permitted: module `env`, a name of the
host table, the table's signature, and a VM version not older than the function. -/
theorem imports_accepted_iff_permitted (c : Config) (is : List Import) :
    enforceImports c is = .ok () ↔ ∀ i ∈ is, Permitted c i :=
  enforceImports_ok_iff c is

example : Permitted (realConfig 1 []) ⟨"env", "crypto_utils_keccak256_hash", .func ⟨[.i32, .i32], [.i64]⟩⟩ := by
  refine ⟨rfl, ⟨"crypto_utils_keccak256_hash", ⟨[.i32, .i32], [.i64]⟩, 1⟩, ?_, by decide, rfl⟩
  simp [lookupHost, realConfig, hostOf, Generated.C45.HOST_IMPORTS, vtOfCode]

/-! ### 2. The sandbox -/

/-- what an accepted module is guaranteed to satisfy -/
structure Sandbox (c : Config) (s : Summary) (o : Output) : Prop where
  wellFormed : s.wf = .ok
  noFloat : s.usesFloat = false
  noStart : s.start = false
  importsPermitted : ∀ i ∈ s.imports, Permitted c i
  noImportedMemoryOrTable : importedMemories s = 0 ∧ importedTables s = 0
  oneMemory : ∃ m, s.memSection = some [m] ∧ m.initial ≤ c.maxMemPages ∧ o.mem.initial = m.initial ∧
      ∃ mx, o.mem.maximum = some mx ∧ mx ≤ c.maxMemPages ∧
        (m.maximum = some mx ∨ (m.maximum = none ∧ mx = c.maxMemPages))
  memoryExported : ∃ e ∈ exportsOf s, e.kind = .memory ∧ e.name = EXPORT_MEMORY
  tables : (s.tableSection.getD []).length ≤ 1 ∧ ∀ t ∈ s.tableSection.getD [], t ≤ c.maxTable
  brTables : ∀ b ∈ s.brTables, b ≤ c.maxBrTable
  funcCount : s.funcs.length ≤ c.maxFuncs
  locals : ∀ f ∈ s.funcs, f.localGroups.sum ≤ c.maxLocals
  globals : s.globals ≤ c.maxGlobals
  exportNames : ∀ e ∈ exportsOf s, isIdent e.name = true
  exportNamesDistinct : hasDup ((exportsOf s).map (·.name)) = false
  required : ∀ n ∈ c.required, ∃ e ∈ exportsOf s, exportMatches s n e = true
  segmentsFit : instantiatable s o.mem = true
  functionExports : o.functionExports = functionExports s

private theorem exportNames_of_ok (s : Summary) (h : enforceExportNames s = .ok ()) :
    ∀ e ∈ exportsOf s, isIdent e.name = true := by
  unfold enforceExportNames at h
  cases hm : minStr (((exportsOf s).map (·.name)).filter (fun n => !isIdent n)) with
  | some n => rw [hm] at h; cases h
  | none =>
    have := minStr_none _ hm
    rw [List.filter_eq_nil_iff] at this
    intro e he
    have := this e.name (List.mem_map_of_mem he)
    simpa using this

/-- **accepted ⇒ sandbox.** Every module summary the pipeline accepts is well-formed float-free MVP code
without start function, imports only permitted host functions (hence no memory/table/global import), defines
exactly one memory with `initial ≤ max ≤ limit` in the output (the maximum is injected when absent) exported
as `memory`, at most one table within the limit, `br_table`s, function count, locals and globals within the
limits, valid distinct export names, all blueprint exports present with type `(i64) → i64`, and active
segments that fit. (The parameter bound is `accepted_implies_params_bound_partial`.) -/
theorem accepted_implies_sandbox (c : Config) (s : Summary) (o : Output) (h : validate c s = .ok o) :
    Sandbox c s o := by
  unfold validate at h
  cases h0 : init s with
  | error e => rw [h0] at h; cases h
  | ok u0 =>
  rw [h0] at h; simp only at h
  cases h1 : enforceNoStart s with
  | error e => rw [h1] at h; cases h
  | ok u1 =>
  rw [h1] at h; simp only at h
  cases h2 : enforceImports c s.imports with
  | error e => rw [h2] at h; cases h
  | ok u2 =>
  rw [h2] at h; simp only at h
  cases h3 : enforceExportNames s with
  | error e => rw [h3] at h; cases h
  | ok u3 =>
  rw [h3] at h; simp only at h
  cases h4 : enforceMemory c s with
  | error e => rw [h4] at h; cases h
  | ok m =>
  rw [h4] at h; simp only at h
  cases h5 : enforceTable c s with
  | error e => rw [h5] at h; cases h
  | ok u5 =>
  rw [h5] at h; simp only at h
  cases h6 : enforceBrTable c s.brTables with
  | error e => rw [h6] at h; cases h
  | ok u6 =>
  rw [h6] at h; simp only at h
  cases h7 : enforceFunctions c s with
  | error e => rw [h7] at h; cases h
  | ok u7 =>
  rw [h7] at h; simp only at h
  cases h8 : enforceGlobals c s with
  | error e => rw [h8] at h; cases h
  | ok u8 =>
  rw [h8] at h; simp only at h
  cases h9 : enforceExportConstraints c s with
  | error e => rw [h9] at h; cases h
  | ok u9 =>
  rw [h9] at h; simp only at h
  cases h10 : ensureInstantiatable s m with
  | error e => rw [h10] at h; cases h
  | ok u10 =>
  rw [h10] at h; simp only at h
  cases h
  -- init
  have hinit : s.wf = .ok ∧ s.usesFloat = false ∧ hasDup ((exportsOf s).map (·.name)) = false := by
    unfold init at h0
    by_cases a : s.wf = .deser ∨ hasDup ((exportsOf s).map (·.name)) = true
    · rw [if_pos a] at h0; cases h0
    · rw [if_neg a] at h0
      by_cases b : s.wf = .invalid ∨ s.usesFloat = true ∨ numMemories s > 1 ∨ numTables s > 1
      · rw [if_pos b] at h0; cases h0
      · refine ⟨?_, ?_, ?_⟩
        · cases hw : s.wf <;> simp_all
        · cases hf : s.usesFloat <;> simp_all
        · cases hd : hasDup ((exportsOf s).map (·.name)) <;> simp_all
  have hperm := (enforceImports_ok_iff c s.imports).mp (by cases u2; exact h2)
  have hnomem : importedMemories s = 0 := by
    unfold importedMemories
    rw [filter_kind_nil_of_permitted .memory (by intro sg h; cases h) hperm]; rfl
  have hnotab : importedTables s = 0 := by
    unfold importedTables
    rw [filter_kind_nil_of_permitted .table (by intro sg h; cases h) hperm]; rfl
  -- memory
  have hmem := enforceMemory_ok h4
  -- table
  have htab : (s.tableSection.getD []).length ≤ 1 ∧ ∀ t ∈ s.tableSection.getD [], t ≤ c.maxTable := by
    unfold enforceTable at h5
    cases hs : s.tableSection with
    | none => simp
    | some sec =>
      rw [hs] at h5; simp only at h5
      by_cases a : sec.length > 1
      · rw [if_pos a] at h5; cases h5
      · rw [if_neg a] at h5
        cases sec with
        | nil => simp
        | cons t r =>
          simp only at h5
          by_cases b : t > c.maxTable
          · rw [if_pos b] at h5; cases h5
          · have : r = [] := by
              cases r with
              | nil => rfl
              | cons _ _ => simp at a
            subst this
            simp; omega
  -- functions
  have hfun : s.funcs.length ≤ c.maxFuncs ∧ ∀ f ∈ s.funcs, f.localGroups.sum ≤ c.maxLocals := by
    unfold enforceFunctions at h7
    by_cases a : s.funcs.length > c.maxFuncs
    · rw [if_pos a] at h7; cases h7
    · rw [if_neg a] at h7
      cases hp : checkParamsAt c (funcMap s) (List.range s.funcs.length) with
      | error e => rw [hp] at h7; cases h7
      | ok up =>
        rw [hp] at h7; simp only at h7
        exact ⟨by omega, checkLocals_ok c s.funcs (by cases u7; exact h7)⟩
  have hglob : s.globals ≤ c.maxGlobals := by
    unfold enforceGlobals at h8
    by_cases a : s.globals > c.maxGlobals
    · rw [if_pos a] at h8; cases h8
    · omega
  have hreq : ∀ n ∈ c.required, ∃ e ∈ exportsOf s, exportMatches s n e = true := by
    unfold enforceExportConstraints at h9
    cases hs : s.exportSection with
    | none => rw [hs] at h9; cases h9
    | some exps =>
      rw [hs] at h9; simp only at h9
      have := (checkRequired_ok_iff s exps c.required).mp (by cases u9; exact h9)
      simpa [exportsOf, hs] using this
  have hinst : instantiatable s m = true := by
    unfold ensureInstantiatable at h10
    by_cases a : instantiatable s m = true
    · exact a
    · rw [if_neg a] at h10; cases h10
  obtain ⟨hmem1, hexp⟩ := hmem
  refine
    { wellFormed := hinit.1, noFloat := hinit.2.1
      noStart := by
        unfold enforceNoStart at h1
        cases hs : s.start with
        | false => rfl
        | true => rw [hs] at h1; cases h1
      importsPermitted := hperm
      noImportedMemoryOrTable := ⟨hnomem, hnotab⟩
      oneMemory := hmem1
      memoryExported := by
        unfold memoryExported at hexp
        rw [List.any_eq_true] at hexp
        obtain ⟨e, he, hk⟩ := hexp
        refine ⟨e, he, ?_⟩
        simpa using hk
      tables := htab
      brTables := (enforceBrTable_ok_iff c s.brTables).mp (by cases u6; exact h6)
      funcCount := hfun.1, locals := hfun.2, globals := hglob
      exportNames := exportNames_of_ok s (by cases u3; exact h3)
      exportNamesDistinct := hinit.2.2
      required := hreq, segmentsFit := hinst, functionExports := rfl }

/-- non-vacuity: a module with a crypto-utils import (VM ≥ 1), a table, data/element segments, globals and a
required blueprint export is accepted by the compiled configuration; the maximum is injected -/
def goodSummary : Summary :=
  { wf := .ok, usesFloat := false, start := false
    imports := [⟨"env", "crypto_utils_keccak256_hash", .func ⟨[.i32, .i32], [.i64]⟩⟩]
    memSection := some [⟨1, none⟩], tableSection := some [4], brTables := [3, 256]
    funcs := [⟨⟨[.i64], [.i64]⟩, [2, 3]⟩, ⟨⟨List.replicate 32 .i32, []⟩, [256]⟩]
    globals := 512
    exportSection := some [⟨"memory", .memory, 0⟩, ⟨"Test_f", .func, 1⟩]
    data := [(65532, 4)], elems := [(1, 3)] }

example : validate (realConfig 1 ["Test_f"]) goodSummary = .ok ⟨⟨1, some 64⟩, ["Test_f"]⟩ := by
  simp [validate, init, goodSummary, exportsOf, hasDup, numMemories, numTables, importedMemories, importedTables,
    enforceNoStart, enforceImports, checkImport, ENV, lookupHost, realConfig, hostOf, Generated.C45.HOST_IMPORTS,
    vtOfCode, enforceExportNames, minStr, isIdent, isIdentStart, isIdentCont, keywords, enforceMemory,
    memoryExported, EXPORT_MEMORY, Generated.C45.MAX_MEMORY_SIZE_IN_PAGES, enforceTable,
    Generated.C45.MAX_INITIAL_TABLE_SIZE, enforceBrTable, Generated.C45.MAX_NUMBER_OF_BR_TABLE_TARGETS,
    enforceFunctions, Generated.C45.MAX_NUMBER_OF_FUNCTIONS, checkParamsAt, funcMap, importSig?,
    Generated.C45.MAX_NUMBER_OF_FUNCTION_PARAMS, checkLocals, sumLocalsFrom, U32_MAX,
    Generated.C45.MAX_NUMBER_OF_FUNCTION_LOCALS, enforceGlobals, Generated.C45.MAX_NUMBER_OF_GLOBALS,
    enforceExportConstraints, checkRequired, exportMatches, SIG_EXPORT, ensureInstantiatable, instantiatable,
    tableInitial, PAGE, functionExports, List.range, List.range.loop]

/-- … and the same module is rejected at VM version 0 with the version-mismatch error -/
example : validate (realConfig 0 ["Test_f"]) goodSummary =
    .error (.protocolMismatch "crypto_utils_keccak256_hash" 0 1) := by
  simp [validate, init, goodSummary, exportsOf, hasDup, numMemories, numTables, importedMemories, importedTables,
    enforceNoStart, enforceImports, checkImport, ENV, lookupHost, realConfig, hostOf, Generated.C45.HOST_IMPORTS,
    vtOfCode]

/-! ### 3. The parameter limit (known finding) -/

/-- What the loop really guarantees: the first `funcs.length` entries of the function index space
(imports first) have at most `maxParams` parameters. -/
theorem accepted_implies_params_bound_partial (c : Config) (s : Summary) (o : Output)
    (h : validate c s = .ok o) :
    ∀ i, i < s.funcs.length → ∀ sg, (funcMap s)[i]? = some sg → sg.params.length ≤ c.maxParams := by
  have h7 : enforceFunctions c s = .ok () := by
    unfold validate at h
    cases h0 : init s <;> rw [h0] at h <;> simp only at h <;> try cases h
    cases h1 : enforceNoStart s <;> rw [h1] at h <;> simp only at h <;> try cases h
    cases h2 : enforceImports c s.imports <;> rw [h2] at h <;> simp only at h <;> try cases h
    cases h3 : enforceExportNames s <;> rw [h3] at h <;> simp only at h <;> try cases h
    cases h4 : enforceMemory c s <;> rw [h4] at h <;> simp only at h <;> try cases h
    cases h5 : enforceTable c s <;> rw [h5] at h <;> simp only at h <;> try cases h
    cases h6 : enforceBrTable c s.brTables <;> rw [h6] at h <;> simp only at h <;> try cases h
    cases h7 : enforceFunctions c s <;> rw [h7] at h <;> simp only at h <;> try cases h
  unfold enforceFunctions at h7
  by_cases a : s.funcs.length > c.maxFuncs
  · rw [if_pos a] at h7; cases h7
  · rw [if_neg a] at h7
    cases hp : checkParamsAt c (funcMap s) (List.range s.funcs.length) with
    | error e => rw [hp] at h7; cases h7
    | ok up =>
      intro i hi sg hsg
      exact checkParamsAt_ok c _ _ (by cases up; exact hp) i (List.mem_range.mpr hi) sg hsg

/-- the local function number `j` is covered when `j + (number of imported functions) < funcs.length` -/
theorem accepted_implies_params_bound_prefix (c : Config) (s : Summary) (o : Output)
    (h : validate c s = .ok o) (j : Nat) (f : Func)
    (hj : s.funcs[j]? = some f) (hcov : j + (s.imports.filterMap importSig?).length < s.funcs.length) :
    f.sig.params.length ≤ c.maxParams := by
  apply accepted_implies_params_bound_partial c s o h (j + (s.imports.filterMap importSig?).length) hcov
  unfold funcMap
  rw [List.getElem?_append_right (by omega)]
  simp [hj]

/-- with no imports the loop covers every local function: the full bound holds -/
theorem accepted_implies_params_bound_of_no_imports (c : Config) (s : Summary) (o : Output)
    (h : validate c s = .ok o) (hni : s.imports = []) :
    ∀ f ∈ s.funcs, f.sig.params.length ≤ c.maxParams := by
  intro f hf
  obtain ⟨j, hj, hjf⟩ := List.getElem_of_mem hf
  have : s.funcs[j]? = some f := by rw [List.getElem?_eq_getElem hj, hjf]
  exact accepted_implies_params_bound_prefix c s o h j f this (by simp [hni]; exact hj)

/-- the counter-example to the full bound, for the limits and host table of the compiled tree: one permitted
import, one memory exported as `memory`, one local function with `MAX_NUMBER_OF_FUNCTION_PARAMS + 1` parameters -/
def paramsWitness : Summary :=
  { wf := .ok, usesFloat := false, start := false
    imports := [⟨"env", "sys_generate_ruid", .func ⟨[], [.i64]⟩⟩]
    memSection := some [⟨1, none⟩], tableSection := none, brTables := []
    funcs := [⟨⟨List.replicate 33 .i32, []⟩, []⟩]
    globals := 0, exportSection := some [⟨"memory", .memory, 0⟩], data := [], elems := [] }

/-- **Refutation of the full parameter bound** (the known finding): the witness is accepted by the model of the
pipeline as it is, with the compiled limits and host table, although its only local function has 33 > 32
parameters. The same module is accepted by the real validator (corpus line `c45-finding-params`). -/
theorem params_bound_refuted :
    ∃ o, validate (realConfig 0 []) paramsWitness = .ok o ∧
      ∃ f ∈ paramsWitness.funcs, f.sig.params.length > (realConfig 0 []).maxParams := by
  refine ⟨⟨⟨1, some 64⟩, []⟩, ?_, ⟨⟨List.replicate 33 .i32, []⟩, []⟩, by simp [paramsWitness], by decide⟩
  simp [validate, init, paramsWitness, exportsOf, hasDup, numMemories, numTables, importedMemories, importedTables,
    enforceNoStart, enforceImports, checkImport, ENV, lookupHost, realConfig, hostOf, Generated.C45.HOST_IMPORTS,
    vtOfCode, enforceExportNames, minStr, isIdent, isIdentStart, isIdentCont, keywords, enforceMemory,
    memoryExported, EXPORT_MEMORY, Generated.C45.MAX_MEMORY_SIZE_IN_PAGES, enforceTable, enforceBrTable,
    enforceFunctions, Generated.C45.MAX_NUMBER_OF_FUNCTIONS, checkParamsAt, funcMap, importSig?,
    Generated.C45.MAX_NUMBER_OF_FUNCTION_PARAMS, checkLocals, sumLocalsFrom,
    Generated.C45.MAX_NUMBER_OF_FUNCTION_LOCALS, enforceGlobals, Generated.C45.MAX_NUMBER_OF_GLOBALS,
    enforceExportConstraints, checkRequired, ensureInstantiatable, instantiatable, functionExports,
    List.range, List.range.loop]

/-! ### 4. Errors are reported in pipeline order; dead error branches -/

/-- the pipeline as a list of independent checks (the instantiation check sees the memory type produced by the
memory step) -/
def steps (c : Config) (s : Summary) : List (Except Err Unit) :=
  [ init s, enforceNoStart s, enforceImports c s.imports, enforceExportNames s,
    (match enforceMemory c s with | .ok _ => .ok () | .error e => .error e),
    enforceTable c s, enforceBrTable c s.brTables, enforceFunctions c s, enforceGlobals c s,
    enforceExportConstraints c s,
    (match enforceMemory c s with | .ok m => ensureInstantiatable s m | .error _ => .ok ()) ]

def firstError : List (Except Err Unit) → Option Err
  | [] => none
  | .error e :: _ => some e
  | .ok _ :: r => firstError r

/-- **first error is in pipeline order**: `validate` fails exactly with the error of the first failing step in
the order init, start, imports, export names, memory, table, br_table, functions (count, parameters, locals),
globals, blueprint exports, instantiation — and succeeds exactly when no step fails. -/
theorem first_error_is_pipeline_order (c : Config) (s : Summary) :
    (∀ e, validate c s = .error e ↔ firstError (steps c s) = some e) ∧
    ((∃ o, validate c s = .ok o) ↔ firstError (steps c s) = none) := by
  unfold validate steps
  cases init s with
  | error e0 => simp [firstError, eq_comm]
  | ok _ =>
  cases enforceNoStart s with
  | error e => simp [firstError, eq_comm]
  | ok _ =>
  cases enforceImports c s.imports with
  | error e => simp [firstError, eq_comm]
  | ok _ =>
  cases enforceExportNames s with
  | error e => simp [firstError, eq_comm]
  | ok _ =>
  cases enforceMemory c s with
  | error e => simp [firstError, eq_comm]
  | ok m =>
  cases enforceTable c s with
  | error e => simp [firstError, eq_comm]
  | ok _ =>
  cases enforceBrTable c s.brTables with
  | error e => simp [firstError, eq_comm]
  | ok _ =>
  cases enforceFunctions c s with
  | error e => simp [firstError, eq_comm]
  | ok _ =>
  cases enforceGlobals c s with
  | error e => simp [firstError, eq_comm]
  | ok _ =>
  cases enforceExportConstraints c s with
  | error e => simp [firstError, eq_comm]
  | ok _ =>
  cases hi : ensureInstantiatable s m with
  | error e => simp [firstError, hi, eq_comm]
  | ok _ => simp [firstError, hi]

/-- Error branches of the code that no input can reach through `validate`: a second memory or table is already
a validation error of `init`; a module without export section fails the memory-export check first; the function
index of the parameter loop is always in range. (`Overflow` needs > 2³² locals, which `wasmparser` rejects.) -/
theorem dead_error_branches (c : Config) (s : Summary) :
    validate c s ≠ .error .tooManyMemoryDefinition ∧ validate c s ≠ .error .moreThanOneTable ∧
    validate c s ≠ .error .noExportSection ∧ validate c s ≠ .error .moduleInfoError := by
  have key : ∀ e, validate c s = .error e →
      e ≠ .tooManyMemoryDefinition ∧ e ≠ .moreThanOneTable ∧ e ≠ .noExportSection ∧ e ≠ .moduleInfoError := by
    intro e h
    unfold validate at h
    cases h0 : init s with
    | error e0 =>
      rw [h0] at h; simp only at h; cases h
      unfold init at h0
      split at h0
      · cases h0; simp
      · split at h0
        · cases h0; simp
        · cases h0
    | ok u0 =>
    rw [h0] at h; simp only at h
    have hcount : numMemories s ≤ 1 ∧ numTables s ≤ 1 := by
      unfold init at h0
      split at h0
      · cases h0
      · split at h0
        · cases h0
        · rename_i hb; constructor <;> omega
    cases h1 : enforceNoStart s with
    | error e1 =>
      rw [h1] at h; simp only at h; cases h
      unfold enforceNoStart at h1; split at h1
      · cases h1; simp
      · cases h1
    | ok u1 =>
    rw [h1] at h; simp only at h
    cases h2 : enforceImports c s.imports with
    | error e2 =>
      rw [h2] at h; simp only at h; cases h
      rcases enforceImports_err h2 with ⟨n, rfl⟩ | ⟨n, a, b, rfl⟩ | ⟨n, rfl⟩ <;> simp
    | ok u2 =>
    rw [h2] at h; simp only at h
    cases h3 : enforceExportNames s with
    | error e3 =>
      rw [h3] at h; simp only at h; cases h
      unfold enforceExportNames at h3; split at h3
      · cases h3
      · cases h3; simp
    | ok u3 =>
    rw [h3] at h; simp only at h
    cases h4 : enforceMemory c s with
    | error e4 =>
      rw [h4] at h; simp only at h; cases h
      rcases enforceMemory_err h4 with rfl | rfl | rfl | rfl | ⟨rfl, hl⟩
      · simp
      · simp
      · simp
      · simp
      · exfalso
        have := hcount.1
        unfold numMemories at this
        omega
    | ok m =>
    rw [h4] at h; simp only at h
    have hexp : s.exportSection ≠ none := by
      intro hn
      have := (enforceMemory_ok h4).2
      unfold memoryExported exportsOf at this
      rw [hn] at this
      simp at this
    cases h5 : enforceTable c s with
    | error e5 =>
      rw [h5] at h; simp only at h; cases h
      rcases enforceTable_err h5 with rfl | ⟨rfl, hl⟩
      · simp
      · exfalso
        have := hcount.2
        unfold numTables at this
        omega
    | ok u5 =>
    rw [h5] at h; simp only at h
    cases h6 : enforceBrTable c s.brTables with
    | error e6 =>
      rw [h6] at h; simp only at h; cases h
      rw [enforceBrTable_err c _ _ h6]; simp
    | ok u6 =>
    rw [h6] at h; simp only at h
    cases h7 : enforceFunctions c s with
    | error e7 =>
      rw [h7] at h; simp only at h; cases h
      unfold enforceFunctions at h7
      split at h7
      · cases h7; simp
      · have hrange : ∀ i ∈ List.range s.funcs.length, i < (funcMap s).length := by
          intro i hi
          have := funcMap_length s
          have := List.mem_range.mp hi
          omega
        split at h7
        · rename_i e' hp
          cases h7
          have hne := checkParamsAt_not_moduleInfo c (funcMap s) _ hrange
          rcases checkParamsAt_err hp with rfl | rfl
          · exact absurd hp hne
          · simp
        · rcases checkLocals_err h7 with rfl | ⟨a, b, rfl⟩ <;> simp
    | ok u7 =>
    rw [h7] at h; simp only at h
    cases h8 : enforceGlobals c s with
    | error e8 =>
      rw [h8] at h; simp only at h; cases h
      unfold enforceGlobals at h8; split at h8
      · cases h8; simp
      · cases h8
    | ok u8 =>
    rw [h8] at h; simp only at h
    cases h9 : enforceExportConstraints c s with
    | error e9 =>
      rw [h9] at h; simp only at h; cases h
      unfold enforceExportConstraints at h9
      split at h9
      · obtain ⟨n, _, rfl⟩ := checkRequired_err _ _ _ _ h9
        simp
      · rename_i hn; exact absurd hn hexp
    | ok u9 =>
    rw [h9] at h; simp only at h
    cases h10 : ensureInstantiatable s m with
    | error e10 =>
      rw [h10] at h; simp only at h; cases h
      unfold ensureInstantiatable at h10; split at h10
      · cases h10
      · cases h10; simp
    | ok u10 =>
      rw [h10] at h; cases h
  refine ⟨fun h => (key _ h).1 rfl, fun h => (key _ h).2.1 rfl, fun h => (key _ h).2.2.1 rfl,
    fun h => (key _ h).2.2.2 rfl⟩

/-! ### 5. Newer VM versions accept everything older versions accepted -/

private theorem ver_mem (c : Config) (v : Nat) (s : Summary) :
    enforceMemory { c with version := v } s = enforceMemory c s := rfl
private theorem ver_table (c : Config) (v : Nat) (s : Summary) :
    enforceTable { c with version := v } s = enforceTable c s := rfl
private theorem ver_glob (c : Config) (v : Nat) (s : Summary) :
    enforceGlobals { c with version := v } s = enforceGlobals c s := rfl
private theorem ver_exp (c : Config) (v : Nat) (s : Summary) :
    enforceExportConstraints { c with version := v } s = enforceExportConstraints c s := rfl
private theorem ver_br (c : Config) (v : Nat) (l : List Nat) :
    enforceBrTable { c with version := v } l = enforceBrTable c l := by
  induction l with
  | nil => rfl
  | cons b r ih => simp [enforceBrTable, ih]
private theorem ver_params (c : Config) (v : Nat) (fm : List Sig) (idx : List Nat) :
    checkParamsAt { c with version := v } fm idx = checkParamsAt c fm idx := by
  induction idx with
  | nil => rfl
  | cons b r ih => simp [checkParamsAt, ih]
private theorem ver_locals (c : Config) (v : Nat) (fs : List Func) :
    checkLocals { c with version := v } fs = checkLocals c fs := by
  induction fs with
  | nil => rfl
  | cons b r ih => simp [checkLocals, ih]
private theorem ver_fun (c : Config) (v : Nat) (s : Summary) :
    enforceFunctions { c with version := v } s = enforceFunctions c s := by
  simp [enforceFunctions, ver_params, ver_locals]

/-- **version monotonicity**: a package accepted at VM version `v` is accepted, with the same output, at every
later version (host functions are only ever added). -/
theorem validate_mono_version (c : Config) (s : Summary) (o : Output) (v : Nat) (hv : c.version ≤ v)
    (h : validate c s = .ok o) : validate { c with version := v } s = .ok o := by
  have hs := accepted_implies_sandbox c s o h
  have hi : enforceImports { c with version := v } s.imports = .ok () :=
    (enforceImports_ok_iff _ _).mpr (fun i hi => (hs.importsPermitted i hi).mono hv)
  have hi0 : enforceImports c s.imports = .ok () := (enforceImports_ok_iff _ _).mpr hs.importsPermitted
  unfold validate at h ⊢
  rw [hi0] at h
  rw [hi, ver_mem, ver_table, ver_br, ver_fun, ver_glob, ver_exp]
  exact h

end Radix.WasmValidate
