/-
C32 — Transaction identifiers commit to the whole transaction.

Property theorems only. Model: `RadixModel/Model/TxHash.lean` (hash trees, `summary`, the structural
preparation `prepare` of the V1 / V2 / partial transaction payloads); lemmas: `Lemmas/TxHash.lean`
(+ the SBOR codec lemmas of C20 for the leaves).

The hash function is a parameter `H` of every theorem; the only assumption on it is its fixed output
length (`hashLen` = `Hash::LENGTH` from the compiled code). Binding results are *collision extraction*:
a counter-example to binding yields explicit `x ≠ y` with `H x = H y`.

Reading guide
* `hash_binds`                — on hash trees of the same transaction type, equal identifier ⇒ equal tree, or a collision.
* `discriminator_binds`       — identifiers of different payload types never coincide, or a collision.
* `reencode_same_bytes`       — an accepted payload IS the canonical encoding of its tree (unique encoding).
* `payload_determined_by_tree`— two accepted payloads with the same tree are the same bytes.
* `payload_hash_binds`        — END-TO-END: two different accepted payloads of one type with the same identifier
                                (root or any enclosing one) give a collision of `H`.
* `noncanonical_rejected_*`   — over-limit size; wrong prefix / enum kind / discriminator / field count; trailing bytes.
-/
import RadixModel.Model.TxHash
import RadixModel.Lemmas.TxHash

namespace Radix.TxHash
open Radix.Sbor Radix.Generated

/-! ## Hash trees -/

/-- **hash_binds (collision extraction).** Two hash trees of the same transaction type `s` with the same
identifier are equal — otherwise two different byte strings with the same `H`-image can be exhibited.
Covers every level: leaves (raw field bytes), already-hashed children, concatenation nodes with a fixed or a
variable number of children. -/
theorem hash_binds (H : Bytes → Bytes) (hl : ∀ x, (H x).length = hashLen) (s : Sch) (t1 t2 : HTree)
    (c1 : Conf s t1) (c2 : Conf s t2) (heq : summary H t1 = summary H t2) (hne : t1 ≠ t2) :
    ∃ x y, x ≠ y ∧ H x = H y := by
  apply Classical.byContradiction
  intro hno
  have hinj : ∀ x y, H x = H y → x = y := by
    intro x y h
    apply Classical.byContradiction
    intro hxy
    exact hno ⟨x, y, hxy, h⟩
  exact hne (binds H hl hinj s t1 t2 c1 c2 heq)

/-- The same for the children of a concatenation node: equal concatenated digests of two child lists of one
array type (possibly of different lengths) ⇒ equal lists, or a collision. This is where the fixed hash
width is used. -/
theorem hash_binds_array (H : Bytes → Bytes) (hl : ∀ x, (H x).length = hashLen) (e : Sch) (cs1 cs2 : List HTree)
    (c1 : ConfA e cs1) (c2 : ConfA e cs2) (heq : summaryCat H cs1 = summaryCat H cs2) (hne : cs1 ≠ cs2) :
    ∃ x y, x ≠ y ∧ H x = H y := by
  apply Classical.byContradiction
  intro hno
  have hinj : ∀ x y, H x = H y → x = y := by
    intro x y h
    apply Classical.byContradiction
    intro hxy
    exact hno ⟨x, y, hxy, h⟩
  exact hne (bindsA H hl hinj e cs1 cs2 c1 c2 heq)

/-- **discriminator_binds.** Identifiers of two payload types with different discriminators
(e.g. a V1 intent and a V2 subintent) coincide only through a collision: the discriminator is hashed. -/
theorem discriminator_binds (H : Bytes → Bytes) (d1 d2 : UInt8) (cs1 cs2 : List HTree) (hd : d1 ≠ d2)
    (heq : summary H (.node (payloadPrefix d1) cs1) = summary H (.node (payloadPrefix d2) cs2)) :
    ∃ x y, x ≠ y ∧ H x = H y := by
  refine ⟨_, _, ?_, heq⟩
  simp [payloadPrefix, hd]

-- non-vacuity: a conforming V1 intent tree with two blobs, and a different one
example : Conf intentV1 (.node (payloadPrefix 1) [.leaf [1], .leaf [2], .node [] [.leaf [], .leaf [7]], .leaf [3]]) := by
  simp [intentV1, blobsV1, Conf, ConfL, ConfA, u8, C32.V1_INTENT]
example : Conf intentV1 (.node (payloadPrefix 1) [.leaf [1], .leaf [2], .node [] [], .leaf [3]]) := by
  simp [intentV1, blobsV1, Conf, ConfL, ConfA, u8, C32.V1_INTENT]

/-! ## Accepted payloads are canonical -/

/-- the discriminator of the (resolved) payload type -/
def Kind.disc : Kind → UInt8
  | .v1intent => u8 C32.V1_INTENT
  | .v1signed => u8 C32.V1_SIGNED_INTENT
  | .v1notarized => u8 C32.V1_NOTARIZED
  | .v2subintent => u8 C32.V2_SUBINTENT
  | .v2txintent => u8 C32.V2_TRANSACTION_INTENT
  | .v2signed => u8 C32.V2_SIGNED_TRANSACTION_INTENT
  | .v2notarized => u8 C32.V2_NOTARIZED
  | .v2partial => u8 C32.V2_PARTIAL_TRANSACTION
  | .v2signedpartial => u8 C32.V2_SIGNED_PARTIAL_TRANSACTION
  | .user => u8 C32.V1_NOTARIZED

/-- the canonical payload of a tree of kind `k`: payload prefix, enum header, then the canonical body -/
def canonicalPayload (k : Kind) (t : HTree) : Bytes :=
  manifest.payloadPrefix :: kindByte .enum :: k.disc :: unparseB k.sch t

theorem prepEnum_spec (S : Settings) (rem : Nat) (d : UInt8) (fs : List Sch) (bs : Bytes) (p : Prep) (rest : Bytes)
    (h : prepEnum S rem (.payload d fs) bs = .ok (p, rest)) :
    Conf (.payload d fs) p.tree ∧ bs = kindByte .enum :: d :: (unparseB (.payload d fs) p.tree ++ rest) := by
  simp only [prepEnum] at h
  split at h
  · simp at h
  · rename_i rem'
    split at h
    · simp at h
    · rename_i bs0 hk
      split at h
      · simp at h
      · rename_i dd bs1 hb
        split at h
        · simp at h
        · rename_i hdd
          simp at hdd
          subst hdd
          have hv : VSpec (prepV S rem') := prepVWith_spec _ _ (prepB_spec S rem')
          obtain ⟨ts, ht, c, rfl⟩ := tupleRest_spec _ hv _ _ _ _ _ h
          have h1 := readKindExpect_ok _ _ _ hk
          subst h1
          cases bs0 with
          | nil => simp [readByte] at hb
          | cons b t =>
            simp [readByte] at hb
            obtain ⟨rfl, rfl⟩ := hb
            rw [ht]
            simp [Conf, unparseB, c]

theorem kind_sch_payload (k : Kind) : ∃ fs, k.sch = .payload k.disc fs := by
  cases k <;> simp [Kind.sch, Kind.disc, intentV1, signedIntentV1, notarizedV1, subintentV2, transactionIntentV2,
    signedTransactionIntentV2, notarizedV2, partialTransactionV2, signedPartialTransactionV2]

/-- **reencode_same_bytes.** Whatever `prepare` accepts is exactly the canonical encoding of the tree it
extracted (so re-encoding the decoded content reproduces the payload byte for byte), and that tree has the
shape of the resolved transaction type. Holds for every kind, every settings value, every payload. -/
theorem reencode_same_bytes (S : Settings) (k k' : Kind) (payload : Bytes) (r : Prep)
    (h : prepare S k payload = .ok (k', r)) :
    Conf k'.sch r.tree ∧ payload = canonicalPayload k' r.tree := by
  unfold prepare at h
  split at h
  · simp at h
  · split at h
    · simp at h
    · rename_i p bs hp
      split at h
      · simp at h
      · rename_i hpp
        simp at hpp
        subst hpp
        split at h
        · simp at h
        · rename_i k'' hres
          split at h
          · simp at h
          · rename_i r' rest hprep
            split at h
            · simp at h
            · rename_i hrest
              simp at h hrest
              obtain ⟨rfl, rfl⟩ := h
              subst hrest
              obtain ⟨fs, hk⟩ := kind_sch_payload k''
              rw [hk] at hprep
              obtain ⟨c, hb⟩ := prepEnum_spec S D _ fs bs r' [] hprep
              cases payload with
              | nil => simp [readByte] at hp
              | cons b t =>
                simp [readByte] at hp
                obtain ⟨rfl, rfl⟩ := hp
                refine ⟨by rw [hk]; exact c, ?_⟩
                simp [canonicalPayload, hk, hb]

/-- **payload_determined_by_tree.** The content (tree of raw field bytes) determines the payload bytes:
two accepted payloads of the same resolved type with the same tree are identical — even if they were
prepared under different settings. There is no second encoding of the same transaction. -/
theorem payload_determined_by_tree (S1 S2 : Settings) (k1 k2 k' : Kind) (p1 p2 : Bytes) (r1 r2 : Prep)
    (h1 : prepare S1 k1 p1 = .ok (k', r1)) (h2 : prepare S2 k2 p2 = .ok (k', r2)) (ht : r1.tree = r2.tree) :
    p1 = p2 := by
  rw [(reencode_same_bytes S1 k1 k' p1 r1 h1).2, (reencode_same_bytes S2 k2 k' p2 r2 h2).2, ht]

/-- **payload_hash_binds (end to end).** Two different byte strings that are both accepted as a transaction
of the same type and have the same root identifier (intent hash for an intent payload, signed-intent hash
for a signed intent, notarized hash for a notarized transaction, …) yield a collision of `H`.
Equivalently: changing anything in an accepted payload — any byte of any field, a count, a blob — either
makes it unacceptable or changes the identifier. -/
theorem payload_hash_binds (H : Bytes → Bytes) (hl : ∀ x, (H x).length = hashLen)
    (S1 S2 : Settings) (k1 k2 k' : Kind) (p1 p2 : Bytes) (r1 r2 : Prep)
    (h1 : prepare S1 k1 p1 = .ok (k', r1)) (h2 : prepare S2 k2 p2 = .ok (k', r2)) (hne : p1 ≠ p2)
    (heq : summary H r1.tree = summary H r2.tree) : ∃ x y, x ≠ y ∧ H x = H y := by
  have c1 := (reencode_same_bytes S1 k1 k' p1 r1 h1).1
  have c2 := (reencode_same_bytes S2 k2 k' p2 r2 h2).1
  refine hash_binds H hl k'.sch r1.tree r2.tree c1 c2 heq ?_
  intro ht
  exact hne (payload_determined_by_tree S1 S2 k1 k2 k' p1 p2 r1 r2 h1 h2 ht)

/-! ## Non-canonical payloads are rejected -/

/-- Over-limit size: a complete user transaction longer than `max_user_payload_length` is rejected with
`TransactionTooLarge` before anything else is looked at. -/
theorem noncanonical_rejected_too_large (S : Settings) (k : Kind) (payload : Bytes) (hk : k.isUser = true)
    (hlen : payload.length > S.maxUser) : prepare S k payload = .error .tooLarge := by
  simp [prepare, hk, hlen]

/-- Wrong payload prefix, wrong enum value kind, wrong discriminator or wrong field count are rejected:
every accepted payload starts with the manifest payload prefix, the `Enum` value kind, the discriminator
of the resolved transaction type and the canonical (shortest) encoding of its field count. -/
theorem noncanonical_rejected_framing (S : Settings) (k k' : Kind) (payload : Bytes) (r : Prep)
    (h : prepare S k payload = .ok (k', r)) :
    ∃ fs body, k'.sch = .payload k'.disc fs ∧
      payload = manifest.payloadPrefix :: kindByte .enum :: k'.disc :: (sizeBytes fs.length ++ body) := by
  obtain ⟨c, hp⟩ := reencode_same_bytes S k k' payload r h
  obtain ⟨fs, hk⟩ := kind_sch_payload k'
  rw [hk] at c
  cases ht : r.tree with
  | leaf b => rw [ht] at c; simp [Conf] at c
  | pre b => rw [ht] at c; simp [Conf] at c
  | node pfx cs =>
    refine ⟨fs, unparseL fs cs, hk, ?_⟩
    rw [hp, canonicalPayload, ht, hk]
    simp [unparseB]

theorem prepEnum_ext (S : Settings) (rem : Nat) (s : Sch) : Ext (prepEnum S rem s) := by
  intro bs p rest x h
  cases s with
  | payload d fs =>
    simp only [prepEnum] at h ⊢
    split at h
    · simp at h
    · rename_i rem'
      try simp only
      split at h
      · simp at h
      · rename_i bs0 hk
        rw [readKindExpect_ext _ _ _ x hk]
        try simp only
        split at h
        · simp at h
        · rename_i dd bs1 hb
          cases bs0 with
          | nil => simp [readByte] at hb
          | cons b t =>
            simp [readByte] at hb
            obtain ⟨rfl, rfl⟩ := hb
            simp only [readByte, List.cons_append]
            split at h
            · simp at h
            · rename_i hdd
              simp only [hdd, if_false]
              have hv : ∀ s, Ext (prepV S rem' s) := prepVWith_ext _ _ (prepB_ext S rem')
              exact tupleRest_ext _ hv _ _ _ _ _ x h
  | full => simp [prepEnum] at h
  | body vk => simp [prepEnum] at h
  | blob => simp [prepEnum] at h
  | rawHash => simp [prepEnum] at h
  | core fs => simp [prepEnum] at h
  | arr a b c d e => simp [prepEnum] at h

theorem resolveKind_ext (k k' : Kind) (bs x : Bytes) (h : resolveKind k bs = .ok k') :
    resolveKind k (bs ++ x) = .ok k' := by
  cases k <;> simp only [resolveKind] at h ⊢ <;> try exact h
  cases bs with
  | nil => simp at h
  | cons a t =>
    cases t with
    | nil => simp at h
    | cons d t' => simpa using h

/-- **noncanonical_rejected_trailing.** A payload that is accepted is never accepted again with bytes
appended: every reader of the preparation ignores what follows the bytes it consumed (`Ext`), so the
extended payload is decoded to the same point and then fails `check_complete` (`ExtraTrailingBytes`), unless
the size limit rejects it first. -/
theorem noncanonical_rejected_trailing (S : Settings) (k k' : Kind) (payload extra : Bytes) (r : Prep)
    (h : prepare S k payload = .ok (k', r)) (hx : extra ≠ []) :
    prepare S k (payload ++ extra) = .error .decode ∨ prepare S k (payload ++ extra) = .error .tooLarge := by
  unfold prepare at h
  split at h
  · simp at h
  · split at h
    · simp at h
    · rename_i p bs hp
      split at h
      · simp at h
      · rename_i hpp
        split at h
        · simp at h
        · rename_i k'' hres
          split at h
          · simp at h
          · rename_i r' rest hprep
            split at h
            · simp at h
            · rename_i hrest
              simp at hrest
              subst hrest
              cases payload with
              | nil => simp [readByte] at hp
              | cons b t =>
                simp [readByte] at hp
                obtain ⟨rfl, rfl⟩ := hp
                unfold prepare
                split
                · exact Or.inr rfl
                · left
                  simp only [List.cons_append, readByte, hpp, if_false]
                  rw [resolveKind_ext _ _ _ extra hres]
                  try simp only
                  rw [prepEnum_ext S D _ _ _ _ extra hprep]
                  simp [hx]

/-- Consequence in the form used by the oracle: the accepted payloads of one type are prefix free. -/
theorem accepted_prefix_free (S : Settings) (k k1 k2 : Kind) (payload extra : Bytes) (r1 r2 : Prep)
    (h1 : prepare S k payload = .ok (k1, r1)) (h2 : prepare S k (payload ++ extra) = .ok (k2, r2)) : extra = [] := by
  apply Classical.byContradiction
  intro hx
  rcases noncanonical_rejected_trailing S k k1 payload extra r1 h1 hx with h | h <;> rw [h] at h2 <;> simp at h2

/-- `prepare` only succeeds after `check_complete`: nothing of the payload is left unread. Together with
`reencode_same_bytes` (the bytes read are the canonical encoding) this is the no-trailing-bytes rule. -/
theorem accepted_length (S : Settings) (k k' : Kind) (payload : Bytes) (r : Prep)
    (h : prepare S k payload = .ok (k', r)) : payload.length = (canonicalPayload k' r.tree).length := by
  rw [← (reencode_same_bytes S k k' payload r h).2]

-- non-vacuity / concrete behaviour of the model on small inputs
example : prepare Settings.cuttlefish .v1notarized [] = .error .decode := by rfl
example : prepare Settings.cuttlefish .v1notarized [0x5c, 0x22, 0x03, 0x02] = .error .decode := by rfl
example : prepare Settings.cuttlefish .user [0x4d, 0x22, 0x04, 0x02] = .error (.unexpectedDisc (some 4)) := by rfl
example : prepare Settings.cuttlefish .user [0x4d] = .error (.unexpectedDisc none) := by rfl
example : prepare { Settings.cuttlefish with maxUser := 3 } .user [0x4d, 0x22, 0x03, 0x02] = .error .tooLarge := by rfl

end Radix.TxHash
