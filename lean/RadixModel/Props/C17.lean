/-
C17 — The state root commits exactly to the current substates.

Property theorems only. Model: `Model/Jmt.lean`, `Model/JmtStore.lean` (transcription of
`state_tree/{jellyfish,types,tier_framework,entity_tier,partition_tier,substate_tier}.rs`).
Lemmas: `Lemmas/JmtSpec.lean` (`smt`, `mh_eq_smt`), `Lemmas/JmtInv.lean` (`Inv`, `hash_of_inv`),
`Lemmas/JmtPut.lean` (the three recursive put functions), `Lemmas/JmtTier.lean`, `Lemmas/JmtUniq.lean`.

The hash `H` (BLAKE2b-256 in the code) is an arbitrary function in every theorem.

What is proved at full strength (all histories, all batchings, all keys):
* for ONE tier (the generic Jellyfish Merkle tree the three tiers are instances of): after any
  history of `putTier` calls that the code survives (no panic), the root hash equals the from-scratch
  sparse-Merkle commitment `smt` of the finite map obtained by applying the updates in order, for ANY
  enumeration of that map (`root_is_commitment`), two histories with the same final map have the same
  root however they were batched (`put_batch_irrelevant`), the empty map has root 0³²
  (`empty_root_zero`), the leaves listed from the tree are exactly the current `(key, value hash)`
  pairs (`list_hashes_are_value_hashes`);
* for the THREE tiers: whenever the nested invariant `Good3` holds, the state root is the nested
  commitment (entities ▸ partitions ▸ substates) of what `list_substate_hashes` lists
  (`root3_is_commitment`); `Good3` is preserved by `putAtNextVersion` (`good3_step`), hence holds
  after every history (`good3_history`).

Partial (see checks/C17.json): the *content* of the three-tier tree after a history (that the listed
substates are exactly the applied `DatabaseUpdates`) is proved per tier (`putTier_spec`) but the
composition across tiers is only checked on the implementation by the oracle (from-scratch
commitment over a shadow map) and on the model by the correspondence.
-/
import RadixModel.Lemmas.JmtThree

namespace Radix.Jmt

variable {α : Type}

/-! ## One tier, any history -/

/-- State of a tier: its `root_version` and its root node (`null` = no root / `Null` root). -/
abbrev TState (α : Type) := Option Nat × Tree α

/-- A history of commits `(version, leaf updates)` applied with the real algorithm; `none` = the code
panicked somewhere (keys that are prefixes of each other, see `LeafKey` docs). Versions are arbitrary. -/
def runTier (H : List UInt8 → Hash) (pfx : Path) : TState α → List (Nat × List (KV α)) → Option (TState α)
  | s, [] => some s
  | (rv, t), (v, ups) :: rest =>
    match putTier H v pfx rv t ups with
    | .ok (root, _) => runTier H pfx (some v, match root with | some r => r | none => .null) rest
    | .error _ => none

/-- The finite map a history denotes: all updates applied in order (`Some` = upsert, `None` = delete). -/
def finalMap (base : Key → Option (Val α)) (hist : List (Nat × List (KV α))) : Key → Option (Val α) :=
  hist.foldl (fun S c => applyUps S c.2) base

/-- Invariant of a tier state. -/
def TInv (H : List UInt8 → Hash) (s : TState α) : Prop := Inv H [] s.2 ∧ (s.1 = none → s.2 = .null)

theorem runTier_spec (H : List UInt8 → Hash) (pfx : Path) (hist : List (Nat × List (KV α))) :
    ∀ (s s' : TState α), TInv H s → runTier H pfx s hist = some s' →
      TInv H s' ∧ ∀ k, getT s'.2 k 0 = finalMap (fun k => getT s.2 k 0) hist k := by
  induction hist with
  | nil =>
    intro s s' hs h
    simp only [runTier] at h; injection h with h; subst h
    exact ⟨hs, fun _ => rfl⟩
  | cons c hist ih =>
    intro s s' hs h
    obtain ⟨rv, t⟩ := s
    obtain ⟨v, ups⟩ := c
    simp only [runTier] at h
    cases hp : putTier H v pfx rv t ups with
    | error e => rw [hp] at h; cases h
    | ok p =>
      obtain ⟨root, evs⟩ := p
      rw [hp] at h; simp only at h
      have hrep := putTier_spec H v pfx rv t ups root evs hp hs.1 hs.2
      have hnext : TInv H (some v, match root with | some r => r | none => Tree.null) ∧
          ∀ k, getT (match root with | some r => r | none => Tree.null) k 0 =
            applyUps (fun k => getT t k 0) ups k := by
        cases root with
        | none =>
          refine ⟨⟨trivial, fun h => by cases h⟩, fun k => ?_⟩
          exact (hrep k List.nil_prefix).symm
        | some r =>
          refine ⟨⟨hrep.2.1, fun h => by cases h⟩, fun k => ?_⟩
          exact hrep.2.2 k List.nil_prefix
      obtain ⟨h1, h2⟩ := ih _ s' hnext.1 h
      refine ⟨h1, fun k => ?_⟩
      rw [h2 k]
      have hfun : (fun k => getT (match root with | some r => r | none => Tree.null) k 0) =
          applyUps (fun k => getT t k 0) ups := funext hnext.2
      simp only [finalMap, List.foldl_cons]
      rw [hfun]

theorem init_inv (H : List UInt8 → Hash) : TInv H ((none, .null) : TState α) := ⟨trivial, fun _ => rfl⟩

/-- **root_is_commitment** (one tier). After any history from the empty tier that the code survives,
however it was batched and versioned, the root hash is the from-scratch sparse-Merkle commitment of
the resulting map — for any duplicate-free enumeration `L` of that map. -/
theorem root_is_commitment (H : List UInt8 → Hash) (pfx : Path) (hist : List (Nat × List (KV α)))
    (s' : TState α) (hrun : runTier H pfx (none, .null) hist = some s')
    (L : List (Key × Val α)) (hnd : (L.map (·.1)).Nodup)
    (henum : ∀ k val, (k, val) ∈ L ↔ finalMap (fun _ => none) hist k = some val) :
    hashOf H s'.2 = smt H (L.map (entOf H)) := by
  obtain ⟨hinv, hmap⟩ := runTier_spec H pfx hist _ s' (init_inv H) hrun
  apply root_eq_smt_of_enum H s'.2 hinv.1 L hnd
  intro k val
  rw [henum k val, hmap k]; rfl

/-- **put_batch_irrelevant.** Two histories (different batch boundaries, different versions, different
orders, overwritten or deleted intermediate values) denoting the same final map give the same root. -/
theorem put_batch_irrelevant (H : List UInt8 → Hash) (pfx1 pfx2 : Path)
    (hist1 hist2 : List (Nat × List (KV α))) (s1 s2 : TState α)
    (h1 : runTier H pfx1 (none, .null) hist1 = some s1)
    (h2 : runTier H pfx2 (none, .null) hist2 = some s2)
    (hsame : ∀ k, finalMap (fun _ => none) hist1 k = finalMap (fun _ => none) hist2 k) :
    hashOf H s1.2 = hashOf H s2.2 := by
  obtain ⟨i1, m1⟩ := runTier_spec H pfx1 hist1 _ s1 (init_inv H) h1
  obtain ⟨i2, m2⟩ := runTier_spec H pfx2 hist2 _ s2 (init_inv H) h2
  apply hash_unique H _ _ i1.1 i2.1
  intro k
  rw [m1 k, m2 k]
  exact hsame k

/-- **empty_root_zero.** A history that leaves nothing behind has the all-zero root. -/
theorem empty_root_zero (H : List UInt8 → Hash) (pfx : Path) (hist : List (Nat × List (KV α)))
    (s' : TState α) (hrun : runTier H pfx (none, .null) hist = some s')
    (hempty : ∀ k, finalMap (fun _ => none) hist k = (none : Option (Val α))) :
    hashOf H s'.2 = zeroHash := by
  have := root_is_commitment H pfx hist s' hrun [] (by simp) (by intro k val; simp [hempty k])
  rw [this]; simp [smt_nil]

/-- **list_hashes_are_value_hashes.** The leaves listed from the tree (what
`list_substate_hashes_at_version` iterates) are exactly the current `(key, value hash, …)` entries:
nothing missing, nothing stale, no key twice. -/
theorem list_hashes_are_value_hashes (H : List UInt8 → Hash) (pfx : Path)
    (hist : List (Nat × List (KV α))) (s' : TState α)
    (hrun : runTier H pfx (none, .null) hist = some s') :
    ((leaves s'.2).map (·.1)).Nodup ∧
    ∀ k val, (k, val) ∈ leaves s'.2 ↔ finalMap (fun _ => none) hist k = some val := by
  obtain ⟨hinv, hmap⟩ := runTier_spec H pfx hist _ s' (init_inv H) hrun
  refine ⟨leaves_nodup H [] s'.2 hinv.1, fun k val => ?_⟩
  have hmap' : finalMap (fun _ => none) hist k = getT s'.2 k 0 := (hmap k).symm
  rw [hmap']
  constructor
  · intro hl; exact mem_leaves_getT H [] s'.2 hinv.1 (k, val) hl
  · intro hg; exact getT_mem_leaves s'.2 k 0 val hg

/-- **node_hash_is_commitment** (`hash_of_canon`): at every depth, the cached hash of a subtree is the
commitment of the entries below it — `InternalNode::merkle_hash` agrees with the binary sparse Merkle
tree although it works on 16-ary nodes with single-leaf short-cuts. -/
theorem node_hash_is_commitment (H : List UInt8 → Hash) (p : Path) (d : Nat) (t : Tree α)
    (hi : Inv H p t) : hashOf H t = smt H (ents H d t) := hash_of_inv H p d t hi

/-! ## Three tiers -/

/-- The nested from-scratch commitment of everything the state tree lists
(entities ▸ partitions ▸ substates; `listSubstateHashes` enumerates exactly these leaves). -/
def commit3 (H : List UInt8 → Hash) (t : ETree) : Hash :=
  smt H ((leaves t).map fun le => (bits le.1, H (le.1 ++
    smt H ((leaves le.2.2.2).map fun lp => (bits lp.1, H (lp.1 ++
      smt H ((leaves lp.2.2.2).map (entOf H))))))))

/-- **root3_is_commitment.** Under the nested invariant the state root is the nested commitment:
an entity leaf commits to `(entity key, partition-tier commitment)`, a partition leaf to
`(partition byte, substate-tier commitment)`, a substate leaf to `(sort key, value hash)`. -/
theorem root3_is_commitment (H : List UInt8 → Hash) (t : ETree) (hg : Good3 H t) :
    hashOf H t = commit3 H t := by
  rw [root_eq_smt_leaves H t hg.1]
  unfold commit3
  congr 1
  apply List.map_congr_left
  intro le hle
  obtain ⟨hip, hvh, hgp⟩ := hg.2 le hle
  rw [hvh, root_eq_smt_leaves H _ hip]
  congr 4
  apply List.map_congr_left
  intro lp hlp
  obtain ⟨his, hvh'⟩ := hgp lp hlp
  rw [hvh', root_eq_smt_leaves H _ his]
  rfl

/-- A history of `put_at_next_version` calls from the empty store; `none` = the code panicked. -/
def runState (H : List UInt8 → Hash) : State × Hash → List DbUpdates → Option (State × Hash)
  | s, [] => some s
  | (st, _), ups :: rest =>
    match putAtNextVersion H st ups with
    | .ok (st', h, _) => runState H (st', h) rest
    | .error _ => none

/-- **good3_history.** After ANY history of commits (deltas, deletes, partition resets, whole-entity
deletions, re-creations; pruning on or off), the nested invariant holds, and the root returned by the
last `put_at_next_version` is the nested commitment of what the tree lists. -/
theorem good3_history (H : List UInt8 → Hash) (hist : List DbUpdates) :
    ∀ (st : State) (h : Hash) (st' : State) (h' : Hash),
    Good3 H st.tree → (st.rootVersion = none → st.tree = .null) → h = hashOf H st.tree →
    runState H (st, h) hist = some (st', h') →
    Good3 H st'.tree ∧ h' = commit3 H st'.tree := by
  induction hist with
  | nil =>
    intro st h st' h' hg _ hh hr
    simp only [runState] at hr; injection hr with hr; injection hr with h1 h2; subst h1; subst h2
    exact ⟨hg, by rw [hh, root3_is_commitment H _ hg]⟩
  | cons ups hist ih =>
    intro st h st' h' hg hrv _ hr
    simp only [runState] at hr
    cases hp : putAtNextVersion H st ups with
    | error e => rw [hp] at hr; cases hr
    | ok p =>
      obtain ⟨st1, h1, evs⟩ := p
      rw [hp] at hr; simp only at hr
      obtain ⟨hg1, hrv1, hh1⟩ := good3_step H st st1 ups h1 evs hg hrv hp
      exact ih st1 h1 st' h' hg1 hrv1 hh1 hr

theorem good3_init (H : List UInt8 → Hash) : Good3 H ({} : State).tree :=
  ⟨trivial, fun l hl => by simp [leaves] at hl⟩

/-! Non-vacuity: a concrete two-commit history on which everything above applies (the hash is a toy
function here; any function works). -/
section example_
def toyH : List UInt8 → Hash := fun l => [UInt8.ofNat l.length]
def kvSet (k : Key) (v : Hash) : KV Unit := ⟨k, some (v, 1, ())⟩
def kvDel (k : Key) : KV Unit := ⟨k, none⟩
def hist0 : List (Nat × List (KV Unit)) :=
  [(1, [kvSet [0x12] [1], kvSet [0x13] [2], kvSet [0x52] [3]]), (2, [kvDel [0x13], kvSet [0x12] [9]])]

example : (runTier toyH [] (none, .null) hist0).isSome = true := by decide

def db0 : List DbUpdates :=
  [[([0xab], [(5, .delta [([1, 2], some [0xff]), ([1, 3], some [0xaa])])])],
   [([0xab], [(5, .delta [([1, 2], none)])]), ([0xcd], [(0, .reset [([0], [1])])])]]

example : (runState toyH ({}, zeroHash) db0).isSome = true := by decide
end example_

end Radix.Jmt
