/-
C33 — Only valid signatures authorize a transaction.

Property theorems only. Model: `RadixModel/Model/SigValidation.lean`; lemmas: `Lemmas/SigValidation.lean`.
Cryptography is abstract (`Crypto.recover` = `verify_and_recover`, `Crypto.verify` = `verify`): the
theorems hold for every pair of such functions, every key/signature/hash type, every configuration.

* `intent_signatures_ok_iff`, `transaction_intent_ok_iff`, `preview_*_ok_iff` — `validate_signatures` accepts EXACTLY when
  every intent signature verifies (recovers a key), no recovered key repeats, the notary signature verifies
  over the notarized hash, and the notary-is-signatory rule holds; and the returned signer set is exactly the
  recovered keys in order, plus the notary when it is a signatory and not already a signer.
* `accepted_implies_all_verify` — whole transaction: acceptance ⇒ notary signature and every intent/subintent
  signature verify over the hash of the intent they are attached to.
* `signer_set_exact` — whole transaction: the signer sets handed on are exactly those key lists, duplicate free.
* `limits_boundary`, `root_over_limit_rejected`, `total_over_limit_rejected`, `batch_count_mismatch_rejected`.
-/
import RadixModel.Model.SigValidation
import RadixModel.Lemmas.SigValidation

set_option linter.unusedSectionVars false

namespace Radix.SigVal

variable {Key ISig NSig Hash : Type} [DecidableEq Key]

/-- the signer set the notary rule produces from the recovered keys `ks` -/
def withNotary (isSignatory : Bool) (nk : Key) (ks : List Key) : List Key :=
  if isSignatory ∧ nk ∉ ks then ks ++ [nk] else ks

/-- **Subintent (and any signature list):** accepted exactly when every signature verifies over the signed
hash and the recovered keys are pairwise different; the result is the list of recovered keys in order. -/
theorem intent_signatures_ok_iff (C : Crypto Key ISig NSig Hash) (allow : Bool) (sigs : List ISig) (sh : Hash)
    (out : List Key) :
    validateSignatures C allow (.subintent sigs sh) = .ok out ↔
      (sigs.map (C.recover sh) = out.map some ∧ out.Nodup) := by
  simp only [validateSignatures]
  constructor
  · intro h
    obtain ⟨ks, hm, ho, _, hd⟩ := collect_spec C sh sigs [] out h
    simp at ho
    subst ho
    exact ⟨hm, hd⟩
  · rintro ⟨hm, hd⟩
    simpa using collect_complete C sh sigs [] out hm (by simp) hd

/-- **Transaction intent:** accepted exactly when (1) every intent signature verifies over the transaction
intent hash, (2) the recovered keys are pairwise different, (3) the notary signature verifies over the signed
transaction intent hash with the notary key of the header, (4) if the notary is a signatory and also signed as
a signer, duplication is allowed (V1 exception only); the signer set is the recovered keys plus the notary
if it is a signatory and not among them. -/
theorem transaction_intent_ok_iff (C : Crypto Key ISig NSig Hash) (allow isSig : Bool) (nk : Key) (nsig : NSig)
    (nh sh : Hash) (sigs : List ISig) (out : List Key) :
    validateSignatures C allow (.txIntent isSig nk nsig nh sigs sh) = .ok out ↔
      ∃ ks, sigs.map (C.recover sh) = ks.map some ∧ ks.Nodup ∧ C.verify nh nk nsig = true ∧
        (isSig = true → nk ∈ ks → allow = true) ∧ out = withNotary isSig nk ks := by
  simp only [validateSignatures]
  constructor
  · intro h
    split at h
    · simp at h
    · rename_i keys hc
      obtain ⟨ks, hm, ho, _, hd⟩ := collect_spec C sh sigs [] keys hc
      simp at ho
      subst ho
      split at h
      · simp at h
      · rename_i hv
        simp at hv
        refine ⟨keys, hm, hd, hv, ?_⟩
        simp only [addNotary, withNotary] at *
        cases isSig <;> by_cases hmem : nk ∈ keys <;> cases allow <;> simp_all
  · rintro ⟨ks, hm, hd, hv, hrule, ho⟩
    have hc := collect_complete C sh sigs [] ks hm (by simp) hd
    simp at hc
    simp only [hc, hv]
    simp only [addNotary, withNotary] at *
    cases isSig <;> by_cases hmem : nk ∈ ks <;> cases allow <;> simp_all

/-- Preview of a transaction intent (public keys instead of signatures): duplicate rule and notary rule only. -/
theorem preview_transaction_intent_ok_iff (C : Crypto Key ISig NSig Hash) (allow isSig : Bool) (nk : Key)
    (keys out : List Key) :
    validateSignatures C allow (.previewTxIntent isSig nk keys : Pending Key ISig NSig Hash) = .ok out ↔
      (keys.Nodup ∧ (isSig = true → nk ∈ keys → allow = true) ∧ out = withNotary isSig nk keys) := by
  simp only [validateSignatures]
  constructor
  · intro h
    split at h
    · simp at h
    · rename_i ks hc
      obtain ⟨ho, _, hd⟩ := (collectKeys_iff keys [] ks).1 hc
      simp at ho
      subst ho
      refine ⟨hd, ?_⟩
      simp only [addNotary, withNotary] at *
      cases isSig <;> by_cases hmem : nk ∈ ks <;> cases allow <;> simp_all
  · rintro ⟨hd, hrule, ho⟩
    have hc := (collectKeys_iff keys [] keys).2 ⟨by simp, by simp, hd⟩
    simp only [hc]
    simp only [addNotary, withNotary] at *
    cases isSig <;> by_cases hmem : nk ∈ keys <;> cases allow <;> simp_all

theorem preview_subintent_ok_iff (C : Crypto Key ISig NSig Hash) (allow : Bool) (keys out : List Key) :
    validateSignatures C allow (.previewSubintent keys : Pending Key ISig NSig Hash) = .ok out ↔
      (keys.Nodup ∧ out = keys) := by
  simp only [validateSignatures, collectKeys_iff]
  simp
  exact and_comm

/-- the signer set never contains a key twice -/
theorem withNotary_nodup (isSig : Bool) (nk : Key) (ks : List Key) (h : ks.Nodup) : (withNotary isSig nk ks).Nodup := by
  unfold withNotary
  split
  · rename_i hc
    exact List.nodup_append.2 ⟨h, by simp, by intro a ha b hb; simp at hb; subst hb; intro e; subst e; exact hc.2 ha⟩
  · exact h

/-! ## Whole transaction -/

/-- "all signatures of `p` verify and `ks` is exactly its signer set" -/
def Verified (C : Crypto Key ISig NSig Hash) (allow : Bool) : Pending Key ISig NSig Hash → List Key → Prop
  | .txIntent isSig nk nsig nh sigs sh, out =>
    ∃ ks, sigs.map (C.recover sh) = ks.map some ∧ ks.Nodup ∧ C.verify nh nk nsig = true ∧
      (isSig = true → nk ∈ ks → allow = true) ∧ out = withNotary isSig nk ks
  | .previewTxIntent isSig nk keys, out =>
    keys.Nodup ∧ (isSig = true → nk ∈ keys → allow = true) ∧ out = withNotary isSig nk keys
  | .subintent sigs sh, out => sigs.map (C.recover sh) = out.map some ∧ out.Nodup
  | .previewSubintent keys, out => keys.Nodup ∧ out = keys

theorem validateSignatures_ok_iff (C : Crypto Key ISig NSig Hash) (allow : Bool) (p : Pending Key ISig NSig Hash)
    (out : List Key) : validateSignatures C allow p = .ok out ↔ Verified C allow p out := by
  cases p with
  | txIntent isSig nk nsig nh sigs sh => exact transaction_intent_ok_iff C allow isSig nk nsig nh sh sigs out
  | previewTxIntent isSig nk keys => exact preview_transaction_intent_ok_iff C allow isSig nk keys out
  | subintent sigs sh => exact intent_signatures_ok_iff C allow sigs sh out
  | previewSubintent keys => exact preview_subintent_ok_iff C allow keys out

/-- **accepted_implies_all_verify + signer_set_exact.** If `construct_pending_signature_validations` +
`validate_all` accept a transaction, then the root intent's signatures all verify and its signer set is
exact (`Verified`), there is exactly one signer set per non-root subintent, and each of them is `Verified`
against the signature batch with the same index (every signature verifies over *that* subintent's hash; the
set is the recovered keys, duplicate free). -/
theorem accepted_implies_all_verify (C : Crypto Key ISig NSig Hash) (cfg : Cfg) (isV1 : Bool)
    (root : Pending Key ISig NSig Hash) (n : Nat) (batches : List (Pending Key ISig NSig Hash)) (r : Summary Key)
    (h : validateAll C cfg isV1 root n batches = .ok r) :
    Verified C (allowDup cfg isV1) root r.rootKeys ∧
    r.nonRootKeys.length = batches.length ∧ n = batches.length ∧
    ∀ (j : Nat) (p : Pending Key ISig NSig Hash), batches[j]? = some p →
      ∃ ks, r.nonRootKeys[j]? = some ks ∧ Verified C (allowDup cfg isV1) p ks := by
  unfold validateAll at h
  split at h
  · simp at h
  · split at h
    · simp at h
    · rename_i hn
      split at h
      · simp at h
      · split at h
        · simp at h
        · split at h
          · simp at h
          · rename_i rk hroot
            split at h
            · simp at h
            · rename_i nrk hnr
              simp at h
              subst h
              obtain ⟨hl, hall⟩ := validateNonRoots_ok C _ batches 0 nrk hnr
              refine ⟨(validateSignatures_ok_iff C _ root rk).1 hroot, hl, by simpa using hn, ?_⟩
              intro j p hp
              obtain ⟨ks, hk, hv⟩ := hall j p hp
              exact ⟨ks, hk, (validateSignatures_ok_iff C _ p ks).1 hv⟩

/-- **signer_set_exact** (root of a real transaction, spelled out): the signer keys handed to execution are
the keys recovered from the intent signatures, in order, plus the notary key iff `notary_is_signatory` and it
is not already among them; no key occurs twice; a notary that duplicates a signer is only tolerated for V1
transactions under `v1_transactions_allow_notary_to_duplicate_signer`. -/
theorem signer_set_exact (C : Crypto Key ISig NSig Hash) (cfg : Cfg) (isV1 isSig : Bool) (nk : Key) (nsig : NSig)
    (nh sh : Hash) (sigs : List ISig) (n : Nat) (batches : List (Pending Key ISig NSig Hash)) (r : Summary Key)
    (h : validateAll C cfg isV1 (.txIntent isSig nk nsig nh sigs sh) n batches = .ok r) :
    ∃ ks, sigs.map (C.recover sh) = ks.map some ∧ r.rootKeys = withNotary isSig nk ks ∧ r.rootKeys.Nodup ∧
      C.verify nh nk nsig = true ∧
      (isSig = true → nk ∈ ks → (isV1 = true ∧ cfg.v1AllowNotaryDup = true)) := by
  obtain ⟨hv, _⟩ := accepted_implies_all_verify C cfg isV1 _ n batches r h
  obtain ⟨ks, hm, hd, hver, hrule, ho⟩ := hv
  refine ⟨ks, hm, ho, by rw [ho]; exact withNotary_nodup _ _ _ hd, hver, ?_⟩
  intro h1 h2
  have := hrule h1 h2
  simp only [allowDup] at this
  cases isV1 <;> simp_all

/-- **limits_boundary.** Acceptance implies: the root and every batch carry at most
`max_signer_signatures_per_intent` signatures, there is one batch per subintent, and the reported total
(all intent signatures + 1 for the notary of a transaction intent) is at most `max_total_signature_validations`. -/
theorem limits_boundary (C : Crypto Key ISig NSig Hash) (cfg : Cfg) (isV1 : Bool)
    (root : Pending Key ISig NSig Hash) (n : Nat) (batches : List (Pending Key ISig NSig Hash)) (r : Summary Key)
    (h : validateAll C cfg isV1 root n batches = .ok r) :
    root.intentCount ≤ cfg.maxPerIntent ∧ (∀ p ∈ batches, p.intentCount ≤ cfg.maxPerIntent) ∧
    r.total = root.intentCount + root.notaryCount + (batches.map Pending.intentCount).sum ∧
    r.total ≤ cfg.maxTotal := by
  unfold validateAll at h
  split at h
  · simp at h
  · rename_i hroot
    split at h
    · simp at h
    · split at h
      · simp at h
      · rename_i total hadd
        split at h
        · simp at h
        · rename_i htot
          split at h
          · simp at h
          · split at h
            · simp at h
            · simp at h
              subst h
              obtain ⟨hb, ht⟩ := (addNonRoots_iff cfg batches 0 _ total).1 hadd
              exact ⟨by omega, hb, ht, by simpa using htot⟩

/-- one signature too many on the root is rejected first, at the root, with the exact numbers -/
theorem root_over_limit_rejected (C : Crypto Key ISig NSig Hash) (cfg : Cfg) (isV1 : Bool)
    (root : Pending Key ISig NSig Hash) (n : Nat) (batches : List (Pending Key ISig NSig Hash))
    (h : root.intentCount > cfg.maxPerIntent) :
    validateAll C cfg isV1 root n batches = .error (.root, .tooManySignatures root.intentCount cfg.maxPerIntent) := by
  simp [validateAll, h]

/-- a wrong number of signature batches is rejected (after the root limit, before anything is verified) -/
theorem batch_count_mismatch_rejected (C : Crypto Key ISig NSig Hash) (cfg : Cfg) (isV1 : Bool)
    (root : Pending Key ISig NSig Hash) (n : Nat) (batches : List (Pending Key ISig NSig Hash))
    (h : root.intentCount ≤ cfg.maxPerIntent) (hn : n ≠ batches.length) :
    validateAll C cfg isV1 root n batches = .error (.across, .incorrectNumberOfSubintentSignatureBatches) := by
  have : ¬ root.intentCount > cfg.maxPerIntent := by omega
  simp [validateAll, this, hn]

/-- with every intent within its own limit, a total one above `max_total_signature_validations` is rejected
(before any signature is verified), with the exact total -/
theorem total_over_limit_rejected (C : Crypto Key ISig NSig Hash) (cfg : Cfg) (isV1 : Bool)
    (root : Pending Key ISig NSig Hash) (batches : List (Pending Key ISig NSig Hash))
    (h : root.intentCount ≤ cfg.maxPerIntent) (hb : ∀ p ∈ batches, p.intentCount ≤ cfg.maxPerIntent)
    (ht : root.intentCount + root.notaryCount + (batches.map Pending.intentCount).sum > cfg.maxTotal) :
    validateAll C cfg isV1 root batches.length batches =
      .error (.across, .tooManySignatures
        (root.intentCount + root.notaryCount + (batches.map Pending.intentCount).sum) cfg.maxTotal) := by
  have h1 : ¬ root.intentCount > cfg.maxPerIntent := by omega
  have hadd := (addNonRoots_iff cfg batches 0 (root.intentCount + root.notaryCount) _).2 ⟨hb, rfl⟩
  simp [validateAll, h1, hadd, ht]

/-! ## Non-vacuity -/

section examples
/-- toy crypto: a signature is the pair (key, hash it was made for) -/
def toy : Crypto Nat (Nat × Nat) (Nat × Nat) Nat :=
  { recover := fun h s => if s.2 = h then some s.1 else none, verify := fun h k s => s.1 == k && s.2 == h }

def cfgL : Cfg := { maxPerIntent := 16, maxTotal := 64, v1AllowNotaryDup := true }

-- a V2 transaction with two signers, a signatory notary and one subintent with one signer: accepted
example : (validateAll toy cfgL false (.txIntent true 9 (9, 200) 200 [(1, 100), (2, 100)] 100) 1
    [.subintent [(3, 300)] 300]).map (fun r => (r.rootKeys, r.nonRootKeys, r.total)) = .ok ([1, 2, 9], [[3]], 4) := by
  rfl
-- the same with the subintent signature made for another hash: rejected at that subintent
example : (validateAll toy cfgL false (.txIntent true 9 (9, 200) 200 [(1, 100), (2, 100)] 100) 1
    [.subintent [(3, 301)] 300]).map (fun r => r.total) = .error (.nonRoot 0, .invalidIntentSignature) := by
  rfl
-- notary also signed: V2 rejects, V1 accepts without adding it twice
example : (validateAll toy cfgL false (.txIntent true 1 (1, 200) 200 [(1, 100)] 100) 0 []).map (fun r => r.rootKeys)
    = .error (.root, .notaryIsSignatorySoShouldNotAlsoBeASigner) := by rfl
example : (validateAll toy cfgL true (.txIntent true 1 (1, 200) 200 [(1, 100)] 100) 0 []).map (fun r => r.rootKeys)
    = .ok [1] := by rfl
end examples

end Radix.SigVal
