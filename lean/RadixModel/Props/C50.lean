/-
C50 — Objects are encapsulated by their blueprint (PARTIAL).

Full statement (properties.jsonl): only code of an object's own blueprint (or, for an inner object, of
its outer object) can create, drop or globalize that object or read and write its state; proofs may
be dropped by whoever holds them; no component can drop, globalize or modify another blueprint's
buckets, vaults, address reservations or components, whatever node references it obtains.

Theorems (about `Model/Encapsulation.lean`, the transcription of the checks of system.rs/actor.rs),
for ALL actors, nodes, reservations, scripts and call nestings:

* `drop_iff` / `drop_only_own_or_outer` — `drop_object` succeeds exactly when (proof blueprint and the
  actor IS the proof blueprint) or (the object has an outer object and it is the actor's instance
  context) or (no outer object and the actor's blueprint is the object's blueprint).
* `proofs_droppable_by_holder` — `Proof::drop` (a function of the proof blueprint, callable by
  whoever holds the proof) always passes the check; `foreign_cannot_drop_bucket_or_proof`.
* `globalize_iff` / `globalize_only_own` — `globalize` succeeds exactly when the reservation (given or
  freshly allocated) is for the object's blueprint and that blueprint's PACKAGE is the actor's
  package.  NOTE: the code compares packages, not blueprints (`InvalidGlobalizeAccess` is raised on
  `reserved_blueprint_id.package_address != actor.package_address()`), so the property's "own
  blueprint" holds only at package granularity for globalize and create:
  `globalize_by_sibling_blueprint_possible` is the machine-checked witness.
* `create_only_own_package` — a new object always gets the actor's package; an inner object is created
  under the actor's instance context, whose blueprint name is the declared outer blueprint.
* `state_handles_self_or_outer` — an actor state handle opens only the receiver's own field or its
  outer object's field, and only for method actors.
* `frame` — in every execution of every script (any nesting of method/function calls, any register
  passing) every create / drop / globalize effect was authorised for the actor that performed it;
  `frame_drop`, `frame_globalize` spell out the consequence for foreign objects.

NOT proved / not modelled: the kernel's visibility and reference rules underneath (which nodes an
actor can name at all), module methods / direct access / hooks, key-value entries
(`actor_open_key_value_entry` resolves its node by the same `get_actor_object_id`), the fuel bound of
`exec` (`exec 0` is the explicit outcome `refused`).  The correspondence run compares every result
class of the real system calls with the model on generated scripts.
-/
import RadixModel.Model.Encapsulation

namespace Radix.Encap

/-! ### drop -/

theorem drop_iff (a : Actor) (bp : Bp) (outer : Option Nat) :
    dropObject a (.obj bp outer) = .ok ↔
      (bp = proofBp ∧ a.bp = proofBp) ∨
      (bp ≠ proofBp ∧ ∃ o, outer = some o ∧ a.ctx = some o) ∨
      (bp ≠ proofBp ∧ outer = none ∧ a.bp = bp) := by
  by_cases hp : bp = proofBp
  · subst hp
    by_cases ha : proofBp = a.bp
    · simp [dropObject, ← ha]
    · have ha' : ¬ a.bp = proofBp := fun e => ha e.symm
      simp [dropObject, ha, ha']
  · cases outer with
    | none =>
      by_cases ha : bp = a.bp
      · simp [dropObject, hp, ← ha]
      · have ha' : ¬ a.bp = bp := fun e => ha e.symm
        simp [dropObject, hp, ha, ha']
    | some o =>
      by_cases ha : a.ctx = some o
      · simp [dropObject, hp, ha]
      · simp [dropObject, hp, ha]

/-- Only the object's own blueprint — or, for an inner object, code running for its outer object —
passes the `drop_object` check; address reservations are never droppable through it. -/
theorem drop_only_own_or_outer (a : Actor) (k : Kind) (h : dropObject a k = .ok) :
    ∃ bp outer, k = .obj bp outer ∧
      ((bp = proofBp ∧ a.bp = proofBp) ∨
       (∃ o, outer = some o ∧ a.ctx = some o) ∨
       (outer = none ∧ a.bp = bp)) := by
  cases k with
  | resv b => simp [dropObject] at h
  | obj bp outer =>
    refine ⟨bp, outer, rfl, ?_⟩
    rcases (drop_iff a bp outer).mp h with h1 | ⟨_, h2⟩ | ⟨_, h3⟩
    · exact Or.inl h1
    · exact Or.inr (Or.inl h2)
    · exact Or.inr (Or.inr h3)

example : dropObject (.meth ⟨0, 0⟩ (some 0) none) (.obj ⟨0, 2⟩ (some 0)) = .ok := by decide
example : dropObject (.meth ⟨0, 0⟩ (some 0) none) (.obj ⟨0, 1⟩ none) = .invalidDropAccess := by decide

/-- Whoever holds a proof can drop it by calling `Proof::drop`: the actor is then the proof
blueprint's function and the check passes whatever the proof's outer object is. -/
theorem proofs_droppable_by_holder (outer : Option Nat) :
    dropObject (.func proofBp) (.obj proofBp outer) = .ok := by
  simp [dropObject, Actor.bp]

/-- No actor of another package can drop a bucket or a proof directly. -/
theorem foreign_cannot_drop_bucket_or_proof (a : Actor) (hp : a.bp.pkg ≠ resPkg)
    (hc : a.ctx ≠ some resOuter) :
    dropObject a (.obj bucketBp (some resOuter)) = .invalidDropAccess ∧
    dropObject a (.obj proofBp (some resOuter)) = .invalidDropAccess := by
  constructor
  · have : bucketBp ≠ proofBp := by decide
    simp [dropObject, this, hc]
  · have : proofBp ≠ a.bp := by
      intro e; apply hp; rw [← e]; rfl
    simp [dropObject, this]

/-! ### globalize -/

theorem globalize_iff (a : Actor) (k : Kind) (res : Option Kind) :
    globalize a k res = .ok ↔
      ∃ b outer, k = .obj b outer ∧ b.pkg = a.bp.pkg ∧ b.pkg ≠ resPkg ∧
        (res = none ∨ res = some (.resv b)) := by
  unfold globalize
  constructor
  · intro h
    cases res with
    | none =>
      cases k with
      | resv b => simp at h
      | obj b outer =>
        simp only at h
        split at h
        · cases h
        next hpk =>
          simp only [ne_eq, not_true_eq_false, if_false] at h
          split at h
          · cases h
          next hr => exact ⟨b, outer, rfl, by simpa using hpk, hr, Or.inl rfl⟩
    | some r =>
      cases r with
      | obj b' o' => simp at h
      | resv rb =>
        simp only at h
        split at h
        · cases h
        next hpk =>
          cases k with
          | resv b => simp at h
          | obj b outer =>
            simp only at h
            split at h
            · cases h
            next hb =>
              split at h
              · cases h
              next hr =>
                have hb' : b = rb := by simpa using hb
                subst hb'
                exact ⟨b, outer, rfl, by simpa using hpk, hr, Or.inr rfl⟩
  · rintro ⟨b, outer, rfl, hpk, hr, hres | hres⟩
    · subst hres
      simp [hpk, hr]
      exact hpk ▸ hr
    · subst hres
      simp [hpk, hr]
      exact hpk ▸ hr

/-- Only code of the object's own PACKAGE can globalize it, and only with a reservation made for
exactly the object's blueprint (so a reservation of another blueprint cannot be spent on it, and
buckets, proofs and reservations can never be globalized by a foreign package). -/
theorem globalize_only_own (a : Actor) (k : Kind) (res : Option Kind) (h : globalize a k res = .ok) :
    ∃ b outer, k = .obj b outer ∧ b.pkg = a.bp.pkg ∧ (res = none ∨ res = some (.resv b)) := by
  obtain ⟨b, outer, h1, h2, _, h4⟩ := (globalize_iff a k res).mp h
  exact ⟨b, outer, h1, h2, h4⟩

/-- Witness that the check is per package, not per blueprint: code of blueprint "B" globalizes an
object of its sibling blueprint "A". -/
theorem globalize_by_sibling_blueprint_possible :
    globalize (.func ⟨0, 1⟩) (.obj ⟨0, 0⟩ none) none = .ok := by decide

example : globalize (.func ⟨1, 0⟩) (.obj ⟨0, 0⟩ none) none = .invalidGlobalizeAccess := by decide
example : globalize (.func ⟨0, 0⟩) (.obj ⟨0, 0⟩ none) (some (.resv ⟨0, 1⟩)) = .invalidBlueprintId := by
  decide

/-! ### create -/

/-- A new object always belongs to the actor's own package; an inner object is placed under the
actor's instance context, which must be an object of the declared outer blueprint. -/
theorem create_only_own_package (gs : List Bp) (a : Actor) (name : Nat) (k : Kind)
    (h : newObject gs a name = (.ok, some k)) :
    ∃ outer, k = .obj ⟨a.bp.pkg, name⟩ outer ∧
      (innerOf name = none → outer = none) ∧
      (∀ on, innerOf name = some on →
        ∃ g b, a.ctx = some g ∧ outer = some g ∧ globalBp gs g = some b ∧ b.name = on) := by
  unfold newObject at h
  split at h
  · cases h
  · cases hin : innerOf name with
    | none =>
      rw [hin] at h
      simp only [Prod.mk.injEq, Option.some.injEq, true_and] at h
      exact ⟨none, h.symm, fun _ => rfl, fun on hon => by cases hon⟩
    | some on =>
      rw [hin] at h
      simp only at h
      split at h
      · cases h
      next g hg =>
        split at h
        next b hb =>
          split at h
          next hn =>
            simp only [Prod.mk.injEq, Option.some.injEq, true_and] at h
            refine ⟨some g, h.symm, (fun e => by cases e), ?_⟩
            intro on' hon'
            cases hon'
            exact ⟨g, b, hg, rfl, hb, hn⟩
          · cases h
        · cases h

example : newObject initGlobals (.meth ⟨0, 0⟩ (some 0) none) 2 = (.ok, some (.obj ⟨0, 2⟩ (some 0))) := by
  decide
example : (newObject initGlobals (.func ⟨0, 0⟩) 2).1 = .invalidChildObjectCreation := by decide

/-! ### actor state handles -/

/-- `actor_open_field` / `actor_open_key_value_entry` resolve their node through
`get_actor_object_id`: it is the receiver itself (SELF) or the receiver's outer object
(OUTER_OBJECT), never any other node, and never for a function actor. -/
theorem state_handles_self_or_outer (a : Actor) (handle : Nat) (t : Unit ⊕ Nat)
    (h : actorOpenField a handle = (.ok, some t)) :
    ∃ bp sg outer, a = .meth bp sg outer ∧
      ((handle = 0 ∧ t = .inl ()) ∨ (handle = 1 ∧ ∃ g, outer = some g ∧ t = .inr g)) := by
  unfold actorOpenField at h
  split at h
  · cases h
  next hh =>
    cases a with
    | func b => simp at h
    | meth bp sg outer =>
      refine ⟨bp, sg, outer, rfl, ?_⟩
      simp only at h
      split at h
      next h0 =>
        simp only [Prod.mk.injEq, Option.some.injEq, true_and] at h
        exact Or.inl ⟨h0, h.symm⟩
      next h0 =>
        have h1 : handle = 1 := by
          by_cases e : handle = 1
          · exact e
          · exact absurd ⟨h0, e⟩ hh
        cases outer with
        | none => simp at h
        | some g =>
          simp only [Prod.mk.injEq, Option.some.injEq, true_and] at h
          exact Or.inr ⟨h1, g, rfl, h.symm⟩

example : actorOpenField (.meth ⟨0, 2⟩ none (some 0)) 1 = (.ok, some (.inr 0)) := by decide

/-! ### frame: whole executions -/

theorem newObject_snd_some (gs : List Bp) (a : Actor) (name : Nat) (k : Kind)
    (h : (newObject gs a name).2 = some k) : (newObject gs a name).1 = .ok := by
  revert h
  unfold newObject
  repeat' split
  all_goals simp

/-- an entry of the effect log was authorised for the actor that performed it -/
def Authorized (e : Actor × Eff × Kind) : Prop :=
  (e.2.1 = Eff.drop ∧ dropObject e.1 e.2.2 = .ok) ∨
  (e.2.1 = Eff.globalize ∧ ∃ res, globalize e.1 e.2.2 res = .ok) ∨
  (e.2.1 = Eff.new ∧ ∃ gs name, newObject gs e.1 name = (.ok, some e.2.2))

def LogOK (st : St) : Prop := ∀ e ∈ st.log, Authorized e

theorem LogOK_snoc (st : St) (e : Actor × Eff × Kind) (h : LogOK st) (he : Authorized e)
    (gs : List Bp) (fu : Bool) : LogOK { globals := gs, faucetUsed := fu, log := st.log ++ [e] } := by
  intro x hx
  rcases List.mem_append.mp hx with h1 | h1
  · exact h x h1
  · simp only [List.mem_singleton] at h1
    subst h1
    exact he

theorem LogOK_same (st : St) (h : LogOK st) (gs : List Bp) (fu : Bool) :
    LogOK { globals := gs, faucetUsed := fu, log := st.log } := h

set_option hygiene false in
/-- close a branch of `frame`: the state is unchanged, or one / two recursive calls on an OK log -/
macro "fin" : tactic => `(tactic| (
  (try dsimp only)
  first
    | exact h
    | exact ih _ _ _ _ h
    | (apply ih; exact ih _ _ _ _ h)
    | exact ih _ _ _ _ (LogOK_same _ h _ _)))

/-- Frame property: whatever script runs — any nesting of method and function calls, any passing of
nodes between frames — every object creation, drop and globalization that happens was authorised by
the system-layer check for the actor that performed it. -/
theorem frame (fuel : Nat) : ∀ (a : Actor) (regs : Regs) (script : List Nat) (st : St),
    LogOK st → LogOK (exec fuel a regs script st).st := by
  induction fuel with
  | zero => intro a regs script st h; simpa [exec] using h
  | succ f ih =>
    intro a regs script st h
    unfold exec
    split
    · fin
    · -- NEW
      rename_i name rest
      dsimp only
      apply ih
      cases hk : (newObject st.globals a name).2 with
      | none => simpa [hk] using h
      | some k =>
        dsimp only
        apply LogOK_snoc st _ h
        right; right
        exact ⟨rfl, st.globals, name, Prod.ext (newObject_snd_some st.globals a name k hk) hk⟩
    · -- DROP
      split
      · fin
      next k hk =>
        dsimp only
        split
        next hr =>
          dsimp only
          apply ih
          exact LogOK_snoc st _ h (Or.inl ⟨rfl, hr⟩) _ _
        · fin
    · -- ALLOC
      fin
    · -- GLOBALIZE
      split
      next k res hk hres =>
        split
        · fin
        · dsimp only
          split
          next hr =>
            split
            next b o =>
              dsimp only
              apply ih
              exact LogOK_snoc st _ h (Or.inr (Or.inl ⟨rfl, res, hr⟩)) _ _
            · fin
          · fin
      · fin
    · -- FIELD
      fin
    · -- CALL METHOD
      try dsimp only
      split
      · fin
      · try dsimp only
        split
        · fin
        · split
          · fin
          · split
            · fin
            · try dsimp only
              split
              · fin
              · fin
    · -- CALL FUNCTION
      try dsimp only
      split
      · fin
      · try dsimp only
        split
        · fin
        · split
          · fin
          · try dsimp only
            split
            · fin
            · fin
    · -- BUCKET
      split
      · fin
      · fin
    · -- PROOF
      split
      · split
        · fin
        · fin
      · fin
    · -- Proof::drop
      split
      next bp outer hk =>
        split
        next hp =>
          dsimp only
          apply ih
          subst hp
          exact LogOK_snoc st _ h (Or.inl ⟨rfl, proofs_droppable_by_holder outer⟩) _ _
        · fin
      · fin
    · fin

/-- Every drop that happens in any execution of any script was performed by the object's own
blueprint, by code running for its outer object, or (proofs) by the proof blueprint. -/
theorem frame_drop (pkg name : Nat) (script : List Nat) (a : Actor) (k : Kind)
    (h : (a, Eff.drop, k) ∈ (runScript pkg name script).st.log) :
    ∃ bp outer, k = .obj bp outer ∧
      ((bp = proofBp ∧ a.bp = proofBp) ∨ (∃ o, outer = some o ∧ a.ctx = some o) ∨
       (outer = none ∧ a.bp = bp)) := by
  have hl := frame (script.length + 1) (.func ⟨pkg, name⟩) [] script
    { globals := initGlobals, faucetUsed := false, log := [] } (by intro e he; cases he)
  rcases hl _ h with ⟨_, h1⟩ | ⟨h1, _⟩ | ⟨h1, _⟩
  · exact drop_only_own_or_outer a k h1
  · cases h1
  · cases h1

/-- Every globalization that happens in any execution was performed by code of the object's package. -/
theorem frame_globalize (pkg name : Nat) (script : List Nat) (a : Actor) (k : Kind)
    (h : (a, Eff.globalize, k) ∈ (runScript pkg name script).st.log) :
    ∃ b outer, k = .obj b outer ∧ b.pkg = a.bp.pkg := by
  have hl := frame (script.length + 1) (.func ⟨pkg, name⟩) [] script
    { globals := initGlobals, faucetUsed := false, log := [] } (by intro e he; cases he)
  rcases hl _ h with ⟨h1, _⟩ | ⟨_, res, h1⟩ | ⟨h1, _⟩
  · cases h1
  · obtain ⟨b, outer, e, hp, _⟩ := globalize_only_own a k res h1
    exact ⟨b, outer, e, hp⟩
  · cases h1

/-- non-vacuity: a script in which package 1 receives an object of package 0 and fails to drop it,
after which package 0 drops it. -/
example : ((runScript 0 0 [1, 0, 7, 1, 0, 1, 0, 2, 2, 0, 2, 1]).trace =
    [.ok, .invalidDropAccess, .ok, .ok]) := by decide

end Radix.Encap
