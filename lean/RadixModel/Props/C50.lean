import RadixModel.Model.Encapsulation
namespace Radix.Encap
theorem placeholder_c50 : initGlobals.length = 3 := rfl
end Radix.Encap
