/-
C11 — No transaction can crash the engine  (PARTIAL: the property itself — absence of Rust panics in
~77 kLoC of native blueprint and system code — is decided by search on the implementation, area `c11n`.)

Full statement (not a theorem here): for every manifest and every SBOR argument payload, executing
the transaction on any reachable state ends in a receipt and never panics; native blueprints never
trap.

Proved (the logic between "whatever execution returned" and "a receipt"):
 * `classification_total` — `create_receipt` maps EVERY combination of interpretation result, loan
   repayment result and repaid flag to exactly one of commit-success / commit-failure / reject / abort,
   the only exception being the documented re-panic on `SystemError::SystemPanic`; with the exact
   condition of each class (`commit_success_iff`, `commit_failure_iff`, `abort_iff`, `reject_iff`).
 * `abort_only_from_fee_reserve` — an error is an abort request iff it is
   `FeeReserveError::Abort` reached through the costing module or the WASM runtime.
 * `trap_becomes_a_receipt` — a caught native panic (`NativeRuntimeError::Trap`) is always turned into a
   commit-failure or a rejection, never into an abort or a host panic.
 * `validated_before_dispatch` — in `invoke_upstream`, whatever reaches the VM for a method/function
   actor passed the input-schema validation of exactly that function, under the export registered for
   it; `no_expect_panic` — the two `expect`s cannot fire for a package whose declared functions all have
   exports; `hook_dispatch_unvalidated` records that hooks are dispatched without input validation.
 * `native_exports_total` — side condition on the current tree (regenerated table of every native
   function): every declared function has an export, every export has a declared function.
-/
import RadixModel.Model.EngineResult
import RadixModel.Generated.C11
namespace Radix.C11.Props
open Radix.C11 Radix.Generated

/-! ## abortion -/

theorem abort_only_from_fee_reserve (e : RuntimeError) :
    e.abortion = some () ↔
      e = .systemModuleError (.costingError .abort) := by
  constructor
  · intro h
    cases e with
    | systemModuleError m =>
      cases m with
      | costingError f => cases f <;> simp_all [RuntimeError.abortion, SystemModuleError.abortion, FeeReserveError.abortion]
      | _ => simp [RuntimeError.abortion, SystemModuleError.abortion] at h
    | _ => simp [RuntimeError.abortion] at h
  · intro h; subst h; rfl

/-- `VmError::abortion` exists (WASM fee-reserve aborts) but `RuntimeError::abortion` does not consult
it: a `RuntimeError::VmError(_)` is never an abort request. -/
theorem vm_error_never_aborts (v : VmError) : (RuntimeError.vmError v).abortion = none := rfl

/-- …although the VM-level impl would say "abort" for this one: -/
example : (VmError.wasm (.feeReserveError .abort)).abortion = some () ∧
    (RuntimeError.vmError (.wasm (.feeReserveError .abort))).abortion = none := ⟨rfl, rfl⟩

/-! ## classification -/

/-- Every input is classified; the host panic happens exactly for `SystemPanic`. -/
theorem classification_total (interp : Except TransactionExecutionError Unit)
    (repay : Except FeeReserveError Unit) (fullyRepaid : Bool) :
    (createReceipt interp repay fullyRepaid = .hostPanic ↔
        interp = .error (.runtimeError (.systemError true))) ∧
    (interp ≠ .error (.runtimeError (.systemError true)) →
        ∃ r, createReceipt interp repay fullyRepaid = .receipt r ∧
             r = determineResultType interp repay fullyRepaid) := by
  constructor
  · constructor
    · intro h
      unfold createReceipt at h
      split at h
      · rfl
      · cases h
    · intro h; subst h; rfl
  · intro h
    refine ⟨determineResultType interp repay fullyRepaid, ?_, rfl⟩
    unfold createReceipt
    split
    · exact absurd rfl h
    · rfl

theorem commit_success_iff (interp : Except TransactionExecutionError Unit)
    (repay : Except FeeReserveError Unit) (fullyRepaid : Bool) :
    determineResultType interp repay fullyRepaid = .commitSuccess ↔ interp = .ok () ∧ repay = .ok () := by
  unfold determineResultType
  constructor
  · intro h
    split at h
    · split at h
      · exact ⟨rfl, rfl⟩
      · split at h <;> cases h
    · split at h
      · cases h
      · split at h
        · cases h
        · split at h <;> cases h
  · rintro ⟨h1, h2⟩; subst h1; subst h2; rfl

theorem commit_failure_iff (interp : Except TransactionExecutionError Unit)
    (repay : Except FeeReserveError Unit) (fullyRepaid : Bool) (e : RuntimeError) :
    determineResultType interp repay fullyRepaid = .commitFailure e ↔
      interp = .error (.runtimeError e) ∧ e.abortion = none ∧ fullyRepaid = true := by
  unfold determineResultType
  constructor
  · intro h
    split at h
    · split at h
      · cases h
      · split at h <;> cases h
    · split at h
      · cases h
      · rename_i e'
        split at h
        · cases h
        · rename_i hab
          split at h
          · rename_i hr
            injection h with h
            subst h
            exact ⟨rfl, hab, hr⟩
          · cases h
  · rintro ⟨h1, h2, h3⟩
    subst h1; subst h3
    simp [h2]

theorem abort_iff (interp : Except TransactionExecutionError Unit)
    (repay : Except FeeReserveError Unit) (fullyRepaid : Bool) :
    determineResultType interp repay fullyRepaid = .abort ↔
      (interp = .ok () ∧ repay = .error .abort) ∨
      (∃ e, interp = .error (.runtimeError e) ∧ e.abortion = some ()) := by
  unfold determineResultType
  constructor
  · intro h
    split at h
    · split at h
      · cases h
      · rename_i fe
        split at h
        · rename_i hab
          left
          refine ⟨rfl, ?_⟩
          cases fe <;> simp_all [FeeReserveError.abortion]
        · cases h
    · split at h
      · cases h
      · rename_i e'
        split at h
        · rename_i hab; right; exact ⟨e', rfl, hab⟩
        · split at h <;> cases h
  · rintro (⟨h1, h2⟩ | ⟨e, h1, h2⟩)
    · subst h1; subst h2; rfl
    · subst h1; simp [h2]

theorem reject_iff (interp : Except TransactionExecutionError Unit)
    (repay : Except FeeReserveError Unit) (fullyRepaid : Bool) :
    (∃ r, determineResultType interp repay fullyRepaid = .reject r) ↔
      (interp = .ok () ∧ ∃ fe, repay = .error fe ∧ fe ≠ .abort) ∨
      interp = .error .bootloadingError ∨
      (∃ e, interp = .error (.runtimeError e) ∧ e.abortion = none ∧ fullyRepaid = false) := by
  unfold determineResultType
  constructor
  · rintro ⟨r, h⟩
    split at h
    · split at h
      · cases h
      · rename_i fe
        split at h
        · cases h
        · rename_i hab
          left
          refine ⟨rfl, fe, rfl, ?_⟩
          intro hfe; subst hfe; simp [FeeReserveError.abortion] at hab
    · split at h
      · right; left; rfl
      · rename_i e'
        split at h
        · cases h
        · rename_i hab
          split at h
          · cases h
          · rename_i hr
            right; right
            exact ⟨e', rfl, hab, by simpa using hr⟩
  · rintro (⟨h1, fe, h2, h3⟩ | h | ⟨e, h1, h2, h3⟩)
    · subst h1; subst h2
      cases fe <;> simp_all [FeeReserveError.abortion]
    · subst h; exact ⟨_, rfl⟩
    · subst h1; subst h3; simp [h2]

/-- A caught native panic is always reported in a receipt: a committed failure when the loan is repaid,
a rejection otherwise — never an abort, never a host panic. -/
theorem trap_becomes_a_receipt (repay : Except FeeReserveError Unit) (fullyRepaid : Bool) :
    createReceipt (.error (.runtimeError (.vmError (.native .trap)))) repay fullyRepaid =
      .receipt (if fullyRepaid then .commitFailure (.vmError (.native .trap))
                else .reject (.errorBeforeLoanAndDeferredCostsRepaid (.vmError (.native .trap)))) := by
  cases fullyRepaid <;> rfl

/-- The loan-repayment tail: with the loan covered and no configured abort everything proceeds; an
uncovered loan can never produce a commit. -/
theorem uncovered_loan_never_commits (interp : Except TransactionExecutionError Unit) (ab : Bool) :
    let rr := repayAllTail false ab
    ∀ r, createReceipt interp rr.1 rr.2 = .receipt r → (r ≠ .commitSuccess ∧ ∀ e, r ≠ .commitFailure e) := by
  intro rr r h
  have hs := (commit_success_iff interp rr.1 rr.2)
  constructor
  · intro hr
    subst hr
    have : createReceipt interp rr.1 rr.2 = .receipt (determineResultType interp rr.1 rr.2) := by
      unfold createReceipt at h ⊢
      split at h
      · cases h
      · rfl
    rw [this] at h
    injection h with h
    have := hs.mp h
    simp [rr, repayAllTail] at this
  · intro e hr
    subst hr
    have : createReceipt interp rr.1 rr.2 = .receipt (determineResultType interp rr.1 rr.2) := by
      unfold createReceipt at h ⊢
      split at h
      · cases h
      · rfl
    rw [this] at h
    injection h with h
    have := (commit_failure_iff interp rr.1 rr.2 e).mp h
    simp [rr, repayAllTail] at this

/-! ## invoke_upstream -/

/-- Whatever is dispatched to the VM for a method/function actor has passed input validation for that
very function, the function is declared, and the export is the one registered for it. -/
theorem validated_before_dispatch (validIn validOut : String → Nat → Bool) (vm : String → Nat → Except Nat Nat)
    (defn : BlueprintDefinition) (ident : String) (hasNode directAccess : Bool) (input : Nat)
    (ex : String) (payload : Nat)
    (h : (invokeFn validIn validOut vm defn ident hasNode directAccess input).2 = some (ex, payload)) :
    validIn ident input = true ∧ payload = input ∧
    (lookupS defn.functions ident).isSome = true ∧ lookupS defn.functionExports ident = some ex := by
  unfold invokeFn at h
  split at h
  · simp at h
  · rename_i fs hfs
    split at h
    · simp at h
    · rename_i hv
      have hvi : validIn ident input = true := by simpa using hv
      simp only [hfs] at h
      split at h
      · simp at h
      · split at h
        · simp at h
        · rename_i ex' hex
          split at h
          · simp at h; obtain ⟨h1, h2⟩ := h; subst h1; subst h2; exact ⟨hvi, rfl, by simp [hfs], hex⟩
          · split at h <;>
            · simp at h; obtain ⟨h1, h2⟩ := h; subst h1; subst h2; exact ⟨hvi, rfl, by simp [hfs], hex⟩

/-- non-vacuity: a definition with one method; a valid call is dispatched, an invalid one is not -/
example :
    let d : BlueprintDefinition := { functions := [("withdraw", ⟨some false⟩)], functionExports := [("withdraw", "withdraw_export")], hookExports := [] }
    (invokeFn (fun _ p => p == 7) (fun _ _ => true) (fun _ p => .ok (p + 1)) d "withdraw" true false 7).2 = some ("withdraw_export", 7) ∧
    (invokeFn (fun _ p => p == 7) (fun _ _ => true) (fun _ p => .ok (p + 1)) d "withdraw" true false 8).2 = none := by decide

/-- The two `expect`s (and nothing else in the method/function branch) cannot fire when every declared
function has an export. -/
theorem no_expect_panic (validIn validOut : String → Nat → Bool) (vm : String → Nat → Except Nat Nat)
    (defn : BlueprintDefinition) (hdef : exportsTotal defn = true)
    (ident : String) (hasNode directAccess : Bool) (input : Nat) :
    ∀ msg, (invokeFn validIn validOut vm defn ident hasNode directAccess input).1 ≠ .panic msg := by
  intro msg h
  unfold invokeFn at h
  split at h
  · simp at h
  · rename_i fs hfs
    split at h
    · simp at h
    · simp only [hfs] at h
      split at h
      · simp at h
      · split at h
        · rename_i hnone
          -- the function is declared, so exportsTotal gives an export
          obtain ⟨v, hv⟩ := lookupS_mem defn.functions ident fs hfs
          unfold exportsTotal at hdef
          have := (List.all_eq_true.mp hdef) (ident, v) hv
          simp [hnone] at this
        · split at h
          · simp at h
          · split at h <;> simp at h
where
  lookupS_mem {V : Type} (l : List (String × V)) (k : String) (v : V) (h : lookupS l k = some v) :
      ∃ v', (k, v') ∈ l := by
    induction l with
    | nil => simp [lookupS] at h
    | cons kv t ih =>
      obtain ⟨k', v'⟩ := kv
      simp only [lookupS] at h
      by_cases hk : k = k'
      · subst hk; exact ⟨v', by simp⟩
      · simp [hk] at h
        obtain ⟨w, hw⟩ := ih h
        exact ⟨w, by simp [hw]⟩

/-- Only the root actor panics in `invoke_upstream` for well-formed packages. -/
theorem invoke_upstream_panics_only_for_root (validIn validOut : String → Nat → Bool) (hookOutOk : Nat → Nat → Bool)
    (vm : String → Nat → Except Nat Nat) (defn : Option BlueprintDefinition)
    (hdef : ∀ d, defn = some d → exportsTotal d = true) (actor : Actor) (input : Nat) (msg : String)
    (h : (invokeUpstream validIn validOut hookOutOk vm defn actor input).1 = .panic msg) : actor = .root := by
  cases actor with
  | root => rfl
  | method ident da =>
    unfold invokeUpstream at h
    cases defn with
    | none => cases h
    | some d => exact absurd h (no_expect_panic validIn validOut vm d (hdef d rfl) ident true da input msg)
  | function ident =>
    unfold invokeUpstream at h
    cases defn with
    | none => cases h
    | some d => exact absurd h (no_expect_panic validIn validOut vm d (hdef d rfl) ident false false input msg)
  | hook hk =>
    unfold invokeUpstream at h
    cases defn with
    | none => cases h
    | some d =>
      simp only at h
      split at h
      · cases h
      · split at h
        · cases h
        · split at h <;> cases h

/-- Hooks reach the VM without input validation (inputs are built by the system). -/
theorem hook_dispatch_unvalidated (validOut : String → Nat → Bool) (hookOutOk : Nat → Nat → Bool)
    (vm : String → Nat → Except Nat Nat) (d : BlueprintDefinition) (hk : Nat) (ex : String) (input : Nat)
    (hex : lookupN d.hookExports hk = some ex) :
    (invokeUpstream (fun _ _ => false) validOut hookOutOk vm (some d) (.hook hk) input).2 = some (ex, input) := by
  unfold invokeUpstream
  simp only [hex]
  split
  · rfl
  · split <;> rfl

/-! ## the native dispatch surface of the current tree -/

/-- Every declared native function has an export entry and static input/output schemas, and there is
no export without a declared function (rows of that kind are emitted as `(false, false, false)`). -/
theorem native_exports_total :
    C11.nativeFunctions.all (fun r => r.1 && r.2.2) = true ∧
    C11.nativeFunctions.length = C11.NATIVE_FUNCTION_COUNT ∧ 0 < C11.NATIVE_FUNCTION_COUNT := by
  decide +kernel

end Radix.C11.Props
