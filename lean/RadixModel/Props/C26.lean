/-
C26 — Roots and powers are correctly truncated.

  "Square, cube and n-th roots of Decimal and PreciseDecimal return the exact root truncated toward
   zero to the type's precision, and fail only for even roots of negative values or a zero degree.
   Integer powers return the exact result whenever it is representable, never exceed the exact result
   in magnitude otherwise, and fail rather than panic on overflow."
   (every value, every exponent, every root degree)

Model: RadixModel/Model/DecimalPow.lean on top of Model/Decimal.lean (`Ty`, `checkedMul`, `narrow`).
A value `x` of the type stands for the rational `x / one` (`one = 10^scale`). In these units
  * the exact `n`-th root of `x/one`, scaled, is the real number whose `n`-th power is `x · one^(n-1)`;
    "truncated toward zero" is `|r|^n ≤ |x|·one^(n-1) < (|r|+1)^n` with the sign of `x`;
  * the exact power `(x/one)^e`, scaled, is `x^e / one^(e-1)`; "does not exceed it in magnitude" is
    `|r| · one^(e-1) ≤ |x|^e`; for a negative exponent `-m` it is `one^(m+1) / x^m`.

The integer root routines of bnum / num-bigint are represented by the exact floor root `iroot` (proved
correct here); that the libraries agree with it is checked by the correspondence run (trusted base).
-/
import RadixModel.Lemmas.DecimalPow
import RadixModel.Generated.DecimalPow

namespace Radix.DecimalPow
open Radix.Dec

/-! ## the constants of the model are those of the compiled tree -/

/-- `BITS` / `SCALE` of `Decimal` and `PreciseDecimal` as dumped from the compiled /repo tree on this run
(`Generated/DecimalPow.lean`) are the ones the model and all theorems below are about. -/
theorem consts_match_compiled_tree :
    Ty.bits .dec = Radix.Generated.DecimalPow.DEC_BITS ∧
    Ty.scale .dec = Radix.Generated.DecimalPow.DEC_SCALE ∧
    Ty.bits .pdec = Radix.Generated.DecimalPow.PDEC_BITS ∧
    Ty.scale .pdec = Radix.Generated.DecimalPow.PDEC_SCALE := by decide

/-! ## the integer root used by the model is the exact floor root -/

theorem iroot_is_floor_root (n x : Nat) (hn : 0 < n) :
    (iroot n x) ^ n ≤ x ∧ x < (iroot n x + 1) ^ n :=
  iroot_spec n x hn

/-! ## roots -/

/-- **sqrt_spec**: fails exactly on negative values; otherwise returns the exact square root truncated
to the type's precision (`r² ≤ x·one < (r+1)²`, `r ≥ 0`), always in range. -/
theorem sqrt_truncated (t : Ty) (x : Int) (hx : t.InRange x) :
    (x < 0 → checkedSqrt t x = .none) ∧
    (0 ≤ x → ∃ r : Int, checkedSqrt t x = .val r ∧ t.InRange r ∧ 0 ≤ r ∧
      r ^ 2 ≤ x * t.one ∧ x * t.one < (r + 1) ^ 2) :=
  sqrt_spec t x hx

/-- **cbrt_spec**: never fails; the result is the exact cube root truncated toward zero (also for negative
values: magnitude is truncated, sign is kept), always in range. -/
theorem cbrt_truncated (t : Ty) (x : Int) (hx : t.InRange x) :
    ∃ r : Int, checkedCbrt t x = .val r ∧ t.InRange r ∧
      |r| ^ 3 ≤ |x| * t.one ^ 2 ∧ |x| * t.one ^ 2 < (|r| + 1) ^ 3 ∧
      (0 ≤ x → 0 ≤ r) ∧ (x ≤ 0 → r ≤ 0) :=
  cbrt_spec t x hx

/-- **nth_root_spec**: fails iff the degree is zero or the value is negative and the degree even;
otherwise returns the exact `n`-th root truncated toward zero, in range (so the `unwrap` in the code
cannot panic). -/
theorem nth_root_truncated (t : Ty) (x : Int) (n : Nat) (hx : t.InRange x) :
    ((x < 0 ∧ n % 2 = 0) ∨ n = 0 → checkedNthRoot t x n = .none) ∧
    (¬ ((x < 0 ∧ n % 2 = 0) ∨ n = 0) → ∃ r : Int, checkedNthRoot t x n = .val r ∧ t.InRange r ∧
      |r| ^ n ≤ |x| * t.one ^ (n - 1) ∧ |x| * t.one ^ (n - 1) < (|r| + 1) ^ n ∧
      (0 ≤ x → 0 ≤ r) ∧ (x ≤ 0 → r ≤ 0)) :=
  nthRoot_spec t x n hx

/-- the root functions fail only in the stated cases and never panic -/
theorem roots_fail_only_when_stated (t : Ty) (x : Int) (n : Nat) (hx : t.InRange x) :
    (checkedSqrt t x = .none ↔ x < 0) ∧ checkedSqrt t x ≠ .panic ∧
    checkedCbrt t x ≠ .none ∧ checkedCbrt t x ≠ .panic ∧
    (checkedNthRoot t x n = .none ↔ (x < 0 ∧ n % 2 = 0) ∨ n = 0) ∧ checkedNthRoot t x n ≠ .panic := by
  obtain ⟨s1, s2⟩ := sqrt_spec t x hx
  obtain ⟨rc, c1, _⟩ := cbrt_spec t x hx
  obtain ⟨n1, n2⟩ := nthRoot_spec t x n hx
  refine ⟨⟨fun h => ?_, s1⟩, ?_, by rw [c1]; simp, by rw [c1]; simp, ⟨fun h => ?_, n1⟩, ?_⟩
  · by_contra hc
    obtain ⟨r, hr, _⟩ := s2 (by omega)
    rw [hr] at h; cases h
  · by_cases hc : x < 0
    · rw [s1 hc]; simp
    · obtain ⟨r, hr, _⟩ := s2 (by omega)
      rw [hr]; simp
  · by_contra hc
    obtain ⟨r, hr, _⟩ := n2 hc
    rw [hr] at h; cases h
  · by_cases hc : (x < 0 ∧ n % 2 = 0) ∨ n = 0
    · rw [n1 hc]; simp
    · obtain ⟨r, hr, _⟩ := n2 hc
      rw [hr]; simp

/-- the truncated root is unique: the bracketing determines the result -/
theorem truncated_root_unique (n : Nat) (hn : 0 < n) (c a b : Nat)
    (ha : a ^ n ≤ c ∧ c < (a + 1) ^ n) (hb : b ^ n ≤ c ∧ c < (b + 1) ^ n) : a = b := by
  rw [← iroot_unique n c a hn ha.1 ha.2, ← iroot_unique n c b hn hb.1 hb.2]

/-! ## powers -/

/-- **powi_total**: `checked_powi` returns a value or `None`, it never panics. -/
theorem powi_total (t : Ty) (x e : Int) : checkedPowi t x e ≠ .panic :=
  checkedPowi_no_panic t x e

/-- exponents 0 and 1 -/
theorem powi_zero_one (t : Ty) (x : Int) :
    checkedPowi t x 0 = .val t.one ∧ checkedPowi t x 1 = .val x := by
  constructor
  · rw [checkedPowi_nonneg t x 0 (le_refl _)]
    simp [powiNat]
  · rw [checkedPowi_nonneg t x 1 (by norm_num)]
    have : (1 : Int).toNat = 1 := rfl
    rw [this]; unfold powiNat; simp

/-- **powi_le_exact**, non-negative exponent `e ≥ 1`: the result never exceeds the exact power
`x^e / one^(e-1)` in magnitude, has its sign, and is in range. -/
theorem powi_le_exact (t : Ty) (x r : Int) (e : Nat) (he : 1 ≤ e) (hx : t.InRange x)
    (h : checkedPowi t x (e : Int) = .val r) :
    t.InRange r ∧ |r| * t.one ^ (e - 1) ≤ |x| ^ e ∧ 0 ≤ r * x ^ e := by
  rw [checkedPowi_nonneg t x e (Int.natCast_nonneg _), Int.toNat_natCast] at h
  cases hp : powiNat t x e with
  | none => rw [hp] at h; cases h
  | some v =>
    rw [hp] at h
    cases h
    obtain ⟨a, _, c⟩ := powiNat_spec t e x r hx hp
    obtain ⟨c1, c2, _⟩ := c he
    exact ⟨a, c1, c2⟩

/-- **powi_le_exact**, negative exponent `-m` (`m ≥ 1`): the result never exceeds the exact value
`one^(m+1) / x^m` in magnitude (`|r|·|x|^m ≤ one^(m+1)`), has its sign, and is in range; and the base
is non-zero (`0^(-m)` fails). -/
theorem powi_le_exact_neg (t : Ty) (x r : Int) (m : Nat) (hm : 1 ≤ m) (_hx : t.InRange x)
    (h : checkedPowi t x (-(m : Int)) = .val r) :
    x ≠ 0 ∧ t.InRange r ∧ |r| * |x| ^ m ≤ t.one ^ (m + 1) ∧ 0 ≤ r * x ^ m := by
  obtain ⟨_, _, h1, _, _⟩ := ty_facts t
  obtain ⟨r0, hx0, hr0, hr0r, hp⟩ := checkedPowi_neg_val t x _ r (by omega) h
  have hm' : (-(-(m : Int))).toNat = m := by simp
  rw [hm'] at hp
  obtain ⟨a, _, c⟩ := powiNat_spec t m r0 r hr0r hp
  obtain ⟨c1, c2, _⟩ := c hm
  obtain ⟨d1, d2⟩ := tdiv_mag_any (t.one * t.one) x (by positivity) hx0
  rw [← hr0] at d1 d2
  refine ⟨hx0, a, ?_, ?_⟩
  · -- |r| one^(m-1) |x|^m ≤ |r0|^m |x|^m = (|r0||x|)^m ≤ (one²)^m = one^(m+1) one^(m-1)
    have p0 : 0 < t.one ^ (m - 1) := by positivity
    have q : (|r| * |x| ^ m) * t.one ^ (m - 1) ≤ t.one ^ (m + 1) * t.one ^ (m - 1) := by
      calc (|r| * |x| ^ m) * t.one ^ (m - 1) = (|r| * t.one ^ (m - 1)) * |x| ^ m := by ring
        _ ≤ |r0| ^ m * |x| ^ m := mul_le_mul_of_nonneg_right c1 (by positivity)
        _ = (|r0| * |x|) ^ m := by rw [mul_pow]
        _ ≤ (t.one * t.one) ^ m := pow_le_pow_left₀ (by positivity) d1 m
        _ = t.one ^ (m + 1) * t.one ^ (m - 1) := by
            rw [← pow_two, ← pow_mul, ← pow_add]; congr 1; omega
    exact le_of_mul_le_mul_right q p0
  · -- sign
    by_cases hz : r0 = 0
    · have : |r| * t.one ^ (m - 1) ≤ 0 := by
        rw [hz] at c1; simpa [zero_pow (by omega : m ≠ 0)] using c1
      have p0 : 0 < t.one ^ (m - 1) := by positivity
      have : |r| ≤ 0 := by
        by_contra hc
        have : 0 < |r| * t.one ^ (m - 1) := mul_pos (by omega) p0
        omega
      have : r = 0 := abs_nonpos_iff.mp this
      rw [this]; simp
    · have hpos : 0 < r0 * x := lt_of_le_of_ne d2 (Ne.symm (mul_ne_zero hz hx0))
      have hpm : 0 < (r0 * x) ^ m := by positivity
      have hsq : 0 < (r0 ^ m) ^ 2 := by positivity
      have e1 : (r * r0 ^ m) * (r0 * x) ^ m = (r * x ^ m) * (r0 ^ m) ^ 2 := by
        rw [mul_pow]; ring
      have : 0 ≤ (r * x ^ m) * (r0 ^ m) ^ 2 := by
        rw [← e1]; exact mul_nonneg c2 (le_of_lt hpm)
      exact nonneg_of_mul_nonneg_left this hsq

/-
**powi_exact_when_representable** — full statement (NOT fully proved, see checks/C26.json `partial`):

  for `e ≥ 1`, if `one^(e-1) ∣ x^e` and `q = x^e / one^(e-1)` satisfies `t.min < q ≤ t.max`, then
  `checkedPowi t x e = .val q`   (and similarly for negative exponents with `one^(m+1) / x^m`).

The exclusion of `q = t.min` is necessary for the CURRENT code: the narrowing conversion
`I384 → I256` / `I256 → I192` of bnum_integer/convert.rs rejects exactly the target minimum
(known finding of C24/C26); `powi_exact_fails_at_min` below refutes the statement without the exclusion.

Proved: `powi_exact_when_representable_partial` — the same conclusion under the explicit hypothesis
that EVERY intermediate power `x^k`, `1 ≤ k ≤ e`, is representable strictly inside the range
(`x^k = q_k · one^(k-1)`, `|q_k| < 2^(bits-1)`). Missing for the full statement: the number-theoretic
step "if `x^e` is representable (and in range) then so is every `x^k`, `k ≤ e`" (2-adic / 5-adic
valuations of `x`; magnitudes are monotone in `k`), and negative exponents. The oracle of
harness/src/bin/c26.rs checks the full statement on the implementation for every generated case with
|e| ≤ 700 (keys `powi-inexact-when-representable`, `powi-none-when-representable`).
-/

/-- **powi_exact_when_representable_partial**: if every intermediate power `x^k` (`1 ≤ k ≤ e`) is
representable at the scale strictly inside the range, `checked_powi` returns exactly
`x^e / one^(e-1)` — no truncation error accumulates in square-and-multiply. -/
theorem powi_exact_when_representable_partial (t : Ty) (x : Int) (e : Nat) (he : 1 ≤ e)
    (H : ∀ k, 1 ≤ k → k ≤ e → ∃ q : Int, x ^ k = q * t.one ^ (k - 1) ∧ |q| < half t.bits) :
    ∃ q : Int, x ^ e = q * t.one ^ (e - 1) ∧ checkedPowi t x (e : Int) = .val q := by
  obtain ⟨q, hq, hp⟩ := powiNat_exact t e x he H
  refine ⟨q, hq.1, ?_⟩
  rw [checkedPowi_nonneg t x e (Int.natCast_nonneg _), Int.toNat_natCast, hp]

-- the hypothesis is satisfiable: 2.0^3 (whole-number base)
example : ∀ k, 1 ≤ k → k ≤ 3 →
    ∃ q : Int, (2 * Ty.one .dec) ^ k = q * (Ty.one .dec) ^ (k - 1) ∧ |q| < half (Ty.bits .dec) := by
  intro k h1 h3
  have : k = 1 ∨ k = 2 ∨ k = 3 := by omega
  rcases this with rfl | rfl | rfl
  · exact ⟨2 * Ty.one .dec, by ring, by norm_num [Ty.one, Ty.scale, Ty.bits, half]⟩
  · exact ⟨4 * Ty.one .dec, by ring, by norm_num [Ty.one, Ty.scale, Ty.bits, half]⟩
  · exact ⟨8 * Ty.one .dec, by ring, by norm_num [Ty.one, Ty.scale, Ty.bits, half]⟩

/-- refutation witness for the statement without the `MIN` exclusion: for `PreciseDecimal`
`x = -(2^109 · 5^24)` subunits, `x^3 / one^2 = -2^255 = MIN` exactly, yet the result is `None`. -/
theorem powi_exact_fails_at_min :
    (-(2 ^ 109 * 5 ^ 24 : Int)) ^ 3 = Ty.min .pdec * (Ty.one .pdec) ^ 2 ∧
    Ty.InRange .pdec (-(2 ^ 109 * 5 ^ 24 : Int)) ∧
    checkedPowi .pdec (-(2 ^ 109 * 5 ^ 24 : Int)) 3 = .none := by
  refine ⟨by norm_num [Ty.min, Ty.one, Ty.scale, Ty.bits, minOf, half], by decide +kernel, ?_⟩
  decide +kernel

/-! ## non-vacuity -/

example : Ty.InRange .dec 2000000000000000000 := by decide
example : checkedSqrt .dec 2000000000000000000 = .val 1414213562373095048 := by decide +kernel
example : checkedNthRoot .dec (-8000000000000000000) 3 = .val (-2000000000000000000) := by decide +kernel
example : checkedNthRoot .dec (-8000000000000000000) 2 = .none := by decide +kernel
example : checkedPowi .dec 1500000000000000000 2 = .val 2250000000000000000 := by decide +kernel
example : checkedPowi .dec 2000000000000000000 (-1) = .val 500000000000000000 := by decide +kernel

end Radix.DecimalPow
