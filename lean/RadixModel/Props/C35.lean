/-
C35 — Subintent structure validation accepts exactly well-formed trees.

Property theorems only. Model: `RadixModel/Model/IntentTree.lean` (transcription of
`validate_intents_and_structure` / `validate_intent_relationships`); helper lemmas and the
invariants of steps 1–3 are in `RadixModel/Lemmas/IntentTree.lean`.

The well-formedness notions below speak only about the INPUT (hashes and declared children of
the intents, results of `validate_intent`), not about the validator's data structures.

Proved (all inputs, no bounds):
* `accept_implies_wf` — the property as stated ("accepted ONLY IF distinct, exactly one parent,
  reachable within the maximum depth, children present, yield counts match");
* `relationships_accept_implies_wf` — the same for `validate_intent_relationships` alone, for any
  fuel, plus: recorded depth = length of a path from the root, recorded parent declares the child;
* `worklist_terminates` — the step-3 loop needs at most #subintents iterations and its
  `get_index(..).unwrap()`s never fail; `walk_fuel_mono`;
* `placeholder_root_accepts_two_parents` — why `root ≠ PLACEHOLDER_PARENT` is a hypothesis;
* `latest_config_no_underflow` — side condition on the compiled configuration (Generated/C35).

NOT proved (the converse half of the design's `accept_iff_wf`):
    theorem accept_iff_wf (t) (md) (rootY) (subYs) (hroot : t.root ≠ PLACEHOLDER)
        (hlen : subYs.length = t.subs.length) (hmd : maxDepthFor t.root md = some maxDepth) :
      (∃ r, validate t md rootY subYs = .ok r) ↔
        (WellFormed t maxDepth ∧ (∃ ry, rootY = some ry ∧ (∀ y ∈ subYs, y ≠ none)
           ∧ every subintent's parent summary has its key and the counts match))
  Only `→` is a theorem (`accept_implies_wf`, restated as `accept_iff_wf_partial`). Missing for `←`:
  uniqueness of the path length under `atMostOneParent` (so that no work-list item exceeds the
  depth limit) and completeness of the marking loop (every reachable entry gets a depth). That a
  well-formed tree is not rejected is explored on the implementation by the oracle key
  `rejected-well-formed` and on the model by the correspondence run.
-/
import RadixModel.Model.IntentTree
import RadixModel.Lemmas.IntentTree
import RadixModel.Generated.C35

namespace Radix.IntentTree

/-- There is a chain root → … → `h` of `d` parent/child declarations. -/
inductive Path (t : Tree) : Nat → Nat → Prop where
  | root {h : Nat} : h ∈ t.rootChildren → Path t 1 h
  | step {d p h : Nat} {s : Sub} : Path t d p → s ∈ t.subs → s.hash = p → h ∈ s.children →
      Path t (d + 1) h

/-- Structural well-formedness of the subintent tree for a depth limit. -/
structure WellFormed (t : Tree) (maxDepth : Nat) : Prop where
  /-- the non-root subintents are pairwise distinct -/
  distinct : (t.subs.map (·.hash)).Nodup
  /-- every declared child is present -/
  childrenPresent : ∀ c ∈ allClaims t, c ∈ t.subs.map (·.hash)
  /-- no subintent is declared as a child twice (by the same or by different intents) -/
  atMostOneParent : (allClaims t).Nodup
  /-- every subintent is declared as a child by some intent -/
  atLeastOneParent : ∀ s ∈ t.subs, s.hash ∈ allClaims t
  /-- every subintent is reachable from the root within the depth limit -/
  reachable : ∀ s ∈ t.subs, ∃ d, 1 ≤ d ∧ d ≤ maxDepth ∧ Path t d s.hash

theorem path_mem_claims {t : Tree} {d h : Nat} (p : Path t d h) : h ∈ allClaims t := by
  cases p with
  | root hr => exact List.mem_append_left _ hr
  | step _ hs _ hc =>
    apply List.mem_append_right
    exact List.mem_flatMap.mpr ⟨_, hs, hc⟩

theorem path_pos {t : Tree} {d h : Nat} (p : Path t d h) : 1 ≤ d := by
  cases p <;> omega

/-- index-level paths of the validator's structure are hash-level paths of the input -/
theorem ipath_path {t : Tree} {m : List Details} {rootCs : List Nat}
    (g : Good t.subs m) (hco : ChildrenOK t m t.subs.length)
    (hroot : rootCs.map (hashAt m) = t.rootChildren.map some) {d i : Nat}
    (p : IPath m rootCs d i) : ∃ (hi : i < m.length), Path t d m[i].hash := by
  induction p with
  | root hi =>
    rename_i i
    have : hashAt m i ∈ rootCs.map (hashAt m) := List.mem_map.mpr ⟨i, hi, rfl⟩
    rw [hroot] at this
    obtain ⟨h, hh, heq⟩ := List.mem_map.mp this
    unfold hashAt at heq
    cases hmi : m[i]? with
    | none => rw [hmi] at heq; cases heq
    | some e =>
      obtain ⟨hlt, hei⟩ := List.getElem?_eq_some_iff.mp hmi
      rw [hmi] at heq
      simp only [Option.map_some, Option.some.injEq] at heq
      refine ⟨hlt, ?_⟩
      rw [hei, ← heq]; exact Path.root hh
  | step pp hmp hic ih =>
    rename_i d p i e
    obtain ⟨hp, hpath⟩ := ih
    obtain ⟨_, hep⟩ := List.getElem?_eq_some_iff.mp hmp
    have hps : p < t.subs.length := by rw [← g.length]; exact hp
    have hc := hco p hp hps hps
    rw [hep] at hc
    have : hashAt m i ∈ e.children.map (hashAt m) := List.mem_map.mpr ⟨i, hic, rfl⟩
    rw [hc] at this
    obtain ⟨h, hh, heq⟩ := List.mem_map.mp this
    unfold hashAt at heq
    cases hmi : m[i]? with
    | none => rw [hmi] at heq; cases heq
    | some e' =>
      obtain ⟨hlt, hei⟩ := List.getElem?_eq_some_iff.mp hmi
      rw [hmi] at heq
      simp only [Option.map_some, Option.some.injEq] at heq
      refine ⟨hlt, ?_⟩
      rw [hei, ← heq]
      exact Path.step hpath (List.getElem_mem hps) (g.hash_get p hp hps).symm hh

/-- **Soundness of `validate_intent_relationships` (steps 1–4).** If the relationship check
accepts — with ANY amount of fuel for the work list — and the root hash is not the all-zero
placeholder, the subintents form a well-formed tree: pairwise distinct, every declared child
present, every subintent declared by exactly one intent, every subintent reachable from the root
within the depth limit. Moreover the recorded depth of a subintent is the length of a path from
the root to it and its recorded parent is an intent that declares it. -/
theorem relationships_accept_implies_wf (t : Tree) (fuel maxSubintentDepth : Nat)
    (hroot : t.root ≠ PLACEHOLDER) (rootCs : List Nat) (m : List Details)
    (h : validateRelationshipsFuel fuel t maxSubintentDepth = .ok (rootCs, m)) :
    ∃ maxDepth, maxDepthFor t.root maxSubintentDepth = some maxDepth
      ∧ WellFormed t maxDepth
      ∧ Good t.subs m
      ∧ (∀ e ∈ m, 1 ≤ e.depth ∧ e.depth ≤ maxDepth ∧ Path t e.depth e.hash ∧ Declares t e.parent e.hash) := by
  unfold validateRelationshipsFuel at h
  cases h1 : step1 t.subs [] with
  | error e => simp [h1] at h
  | ok m1 =>
    simp only [h1] at h
    cases h2a : claimAll m1 t.root t.rootChildren [] with
    | error e => simp [h2a] at h
    | ok r =>
      obtain ⟨m2a, rcs⟩ := r
      simp only [h2a] at h
      cases h2b : step2b m2a t.subs with
      | error e => simp [h2b] at h
      | ok m2 =>
        simp only [h2b] at h
        cases hmd : maxDepthFor t.root maxSubintentDepth with
        | none => simp [hmd] at h
        | some maxDepth =>
          simp only [hmd] at h
          cases h3 : walk maxDepth fuel m2 (pushChildren rcs 1 []) with
          | error e => simp [h3] at h
          | ok m3 =>
            simp only [h3] at h
            cases h4 : step4 m3 with
            | error e => simp [h4] at h
            | ok u =>
              simp only [h4, Except.ok.injEq, Prod.mk.injEq] at h
              obtain ⟨rfl, rfl⟩ := h
              obtain ⟨s2, hco, hrc, _⟩ := steps12_spec hroot h1 h2a h2b
              -- step 3
              have hsame0 : SameButDepth m2 m2 := ⟨rfl, fun _ _ _ => ⟨rfl, rfl, rfl, rfl⟩⟩
              have hwl0 : ∀ x ∈ pushChildren rcs 1 [], IPath m2 rcs x.2 x.1 := by
                intro x hx
                rcases mem_pushChildren hx with ⟨hx2, hx1⟩ | hx
                · rw [hx2]; exact IPath.root hx1
                · cases hx
              have hd0 : DepthOK m2 rcs maxDepth m2 := by
                intro j hj hne
                exact absurd (s2.depth0 _ (List.getElem_mem hj)) hne
              obtain ⟨hsame, hdok⟩ := walk_sound m2 rcs maxDepth fuel m2 _ m3 hsame0 hwl0 hd0 h3
              have hnz := step4_ok h4
              -- facts about every final entry
              have hentry : ∀ j (hj : j < m3.length), 1 ≤ m3[j].depth ∧ m3[j].depth ≤ maxDepth
                  ∧ Path t m3[j].depth m3[j].hash ∧ Declares t m3[j].parent m3[j].hash := by
                intro j hj
                have hj2 : j < m2.length := by rw [← hsame.1]; exact hj
                have hne := hnz _ (List.getElem_mem hj)
                obtain ⟨hip, hle⟩ := hdok j hj hne
                obtain ⟨_, hpath⟩ := ipath_path s2.good hco hrc hip
                have hs := hsame.2 j hj2 hj
                refine ⟨by omega, hle, by rw [hs.1]; exact hpath, ?_⟩
                rw [hs.1, hs.2.2.1]
                apply s2.parentOK _ (List.getElem_mem hj2)
                -- reachable ⇒ claimed ⇒ parent set
                rw [s2.claimed _ (List.getElem_mem hj2)]
                exact path_mem_claims hpath
              have g3 : Good t.subs m3 := by
                refine ⟨?_, s2.good.nodup, ?_⟩
                · rw [← s2.good.hashes]
                  apply List.ext_getElem
                  · simp [hsame.1]
                  · intro j h1 h2
                    simp only [List.getElem_map]
                    exact (hsame.2 j (by simpa using h2) (by simpa using h1)).1
                · intro j hj
                  have hj2 : j < m2.length := by rw [← hsame.1]; exact hj
                  rw [(hsame.2 j hj2 hj).2.2.2]; exact s2.good.index j hj2
              refine ⟨maxDepth, rfl, ⟨s2.good.nodup, s2.clSub, s2.clNodup, ?_, ?_⟩, g3, ?_⟩
              · intro s hs
                obtain ⟨j, hj, rfl⟩ := List.getElem_of_mem hs
                have hj3 : j < m3.length := by rw [g3.length]; exact hj
                have := (hentry j hj3).2.2.1
                rw [g3.hash_get j hj3 hj] at this
                exact path_mem_claims this
              · intro s hs
                obtain ⟨j, hj, rfl⟩ := List.getElem_of_mem hs
                have hj3 : j < m3.length := by rw [g3.length]; exact hj
                have := hentry j hj3
                rw [g3.hash_get j hj3 hj] at this
                exact ⟨_, this.1, this.2.1, this.2.2.1⟩
              · intro e he
                obtain ⟨j, hj, rfl⟩ := List.getElem_of_mem he
                exact hentry j hj

/-! ### Yield counts and the whole of `validate_intents_and_structure` -/

/-- the `yield_summaries` map built by `validate_intents_and_structure` -/
def summariesOf (t : Tree) (ry : Yields) (subYs : List (Option Yields)) : List (IHash × Yields) :=
  (t.root, ry) :: (t.subs.zip subYs).filterMap (fun sy => sy.2.map (fun y => ((true, sy.1.hash), y)))

/-- `d`'s recorded parent yields to `d` exactly as often as `d` yields to its parent -/
def YieldsMatch (summaries : List (IHash × Yields)) (d : Details) : Prop :=
  ∃ ps pc cs, lastLookup summaries d.parent = some ps ∧ lastLookup ps.childYields d.hash = some pc
    ∧ lastLookup summaries (true, d.hash) = some cs ∧ pc = cs.parentYields

theorem checkYields_ok {summaries : List (IHash × Yields)} :
    ∀ {m : List Details}, checkYields summaries m = .ok () → ∀ d ∈ m, YieldsMatch summaries d := by
  intro m
  induction m with
  | nil => intro _ d hd; cases hd
  | cons e rest ih =>
    intro h d hd
    simp only [checkYields] at h
    cases h1 : lastLookup summaries e.parent with
    | none => simp [h1] at h
    | some ps =>
      simp only [h1] at h
      cases h2 : lastLookup ps.childYields e.hash with
      | none => simp [h2] at h
      | some pc =>
        simp only [h2] at h
        cases h3 : lastLookup summaries (true, e.hash) with
        | none => simp [h3] at h
        | some cs =>
          simp only [h3] at h
          by_cases hne : (pc != cs.parentYields) = true
          · simp [hne] at h
          · simp only [hne, Bool.false_eq_true, if_false] at h
            rcases List.mem_cons.mp hd with rfl | hd
            · exact ⟨ps, pc, cs, h1, h2, h3, by simpa using hne⟩
            · exact ih h d hd

theorem firstFailed_none : ∀ {ys : List (Option Yields)} {i : Nat}, firstFailed ys i = none →
    ∀ y ∈ ys, y ≠ none := by
  intro ys
  induction ys with
  | nil => intro _ _ y hy; cases hy
  | cons a rest ih =>
    intro i h y hy
    cases a with
    | none => simp [firstFailed] at h
    | some v =>
      simp only [firstFailed] at h
      rcases List.mem_cons.mp hy with rfl | hy
      · simp
      · exact ih h y hy

/-- **accept_implies_wf (the property, "accepted only if").** If
`validate_intents_and_structure` accepts and the root hash is not the all-zero placeholder, then
* the subintents are pairwise distinct, every declared child is present, every subintent is
  the child of exactly one intent, and all are reachable from the root within the maximum depth
  (`WellFormed`; acyclicity follows: each subintent has one parent and a finite path from the root);
* every `validate_intent` succeeded;
* each subintent yields to its parent exactly as many times as the parent yields to it, where the
  parent is an intent that declares it as a child. -/
theorem accept_implies_wf (t : Tree) (maxSubintentDepth : Nat) (rootY : Option Yields)
    (subYs : List (Option Yields)) (hroot : t.root ≠ PLACEHOLDER) (rootCs : List Nat) (m : List Details)
    (h : validate t maxSubintentDepth rootY subYs = .ok (rootCs, m)) :
    ∃ maxDepth ry, maxDepthFor t.root maxSubintentDepth = some maxDepth
      ∧ WellFormed t maxDepth
      ∧ rootY = some ry ∧ (∀ y ∈ subYs, y ≠ none)
      ∧ Good t.subs m
      ∧ ∀ d ∈ m, Declares t d.parent d.hash ∧ YieldsMatch (summariesOf t ry subYs) d := by
  unfold validate at h
  cases hr : validateRelationships t maxSubintentDepth with
  | error e => simp [hr] at h
  | ok r =>
    obtain ⟨rcs, m'⟩ := r
    simp only [hr] at h
    cases rootY with
    | none => simp at h
    | some ry =>
      simp only at h
      cases hf : firstFailed subYs 0 with
      | some i => simp [hf] at h
      | none =>
        simp only [hf] at h
        cases hy : checkYields ((t.root, ry) :: (t.subs.zip subYs).filterMap
            (fun sy => sy.2.map (fun y => ((true, sy.1.hash), y)))) m' with
        | error e => simp [hy] at h
        | ok u =>
          simp only [hy, Except.ok.injEq, Prod.mk.injEq] at h
          obtain ⟨rfl, rfl⟩ := h
          obtain ⟨maxDepth, hmd, hwf, hg, hent⟩ :=
            relationships_accept_implies_wf t (defaultFuel t) maxSubintentDepth hroot rcs m' hr
          refine ⟨maxDepth, ry, hmd, hwf, rfl, firstFailed_none hf, hg, ?_⟩
          intro d hd
          exact ⟨(hent d hd).2.2.2, checkYields_ok hy d hd⟩

-- non-vacuity: a three-level tree (root → 1 → 2, root → 3) that the validator accepts
example : validate ⟨(false, 7), [1, 3], [⟨2, []⟩, ⟨1, [2]⟩, ⟨3, []⟩]⟩ 3
    (some ⟨0, [(1, 1), (3, 0)]⟩) [some ⟨2, []⟩, some ⟨1, [(2, 2)]⟩, some ⟨0, []⟩]
    = .ok ([1, 2], [⟨2, 0, (true, 1), 2, []⟩, ⟨1, 1, (false, 7), 1, [0]⟩, ⟨3, 2, (false, 7), 1, []⟩]) := by
  decide

/-- **Why `root ≠ PLACEHOLDER` is needed.** With the all-zero transaction-intent hash as root the
validator accepts a subintent that is declared as a child twice (by the root and by another
subintent) — `PLACEHOLDER_PARENT` doubles as "no parent yet". A real intent hash of 32 zero
bytes would need a BLAKE2b preimage; the hypothesis is part of the trusted hash abstraction. -/
theorem placeholder_root_accepts_two_parents :
    ∃ (t : Tree) (r : List Nat × List Details), t.root = PLACEHOLDER
      ∧ validateRelationships t 3 = .ok r ∧ ¬ (allClaims t).Nodup :=
  ⟨⟨(false, 0), [1, 2], [⟨1, [2]⟩, ⟨2, []⟩]⟩,
    ([0, 1], [⟨1, 0, (false, 0), 1, [1]⟩, ⟨2, 1, (true, 1), 2, []⟩]), rfl, by decide, by decide⟩

/-! ### Termination of the work list (step 3) -/

/-- errors of steps 1, 2 and 4 are structure errors, never `outOfFuel`/`panic` -/
def Structural (e : Err) : Prop := e ≠ .outOfFuel ∧ e ≠ .panic

theorem step1_err : ∀ (subs : List Sub) (acc : List Details) (e : Err), step1 subs acc = .error e → Structural e := by
  intro subs
  induction subs with
  | nil => intro acc e h; simp [step1] at h
  | cons s rest ih =>
    intro acc e h
    simp only [step1] at h
    split at h
    · cases h; exact ⟨by simp, by simp⟩
    · exact ih _ e h

theorem claim_err {m : List Details} {p : IHash} {h : Nat} {e : Err} (hc : claim m p h = .error e) : Structural e := by
  unfold claim at hc
  split at hc
  · cases hc; exact ⟨by simp, by simp⟩
  · split at hc
    · cases hc
    · cases hc; exact ⟨by simp, by simp⟩

theorem claimAll_err {p : IHash} : ∀ (hs : List Nat) (m : List Details) (acc : List Nat) (e : Err),
    claimAll m p hs acc = .error e → Structural e := by
  intro hs
  induction hs with
  | nil => intro m acc e h; simp [claimAll] at h
  | cons x rest ih =>
    intro m acc e h
    simp only [claimAll] at h
    cases hc : claim m p x with
    | error e' => rw [hc] at h; cases h; exact claim_err hc
    | ok r => obtain ⟨m', i⟩ := r; rw [hc] at h; exact ih _ _ e h

theorem step2b_err : ∀ (subs : List Sub) (m : List Details) (e : Err), step2b m subs = .error e → Structural e := by
  intro subs
  induction subs with
  | nil => intro m e h; simp [step2b] at h
  | cons s rest ih =>
    intro m e h
    simp only [step2b] at h
    cases hc : claimAll m (true, s.hash) s.children [] with
    | error e' => rw [hc] at h; cases h; exact claimAll_err _ _ _ _ hc
    | ok r => obtain ⟨m', cs⟩ := r; rw [hc] at h; exact ih _ e h

theorem step4_err {m : List Details} {e : Err} (h : step4 m = .error e) : Structural e := by
  unfold step4 at h
  split at h
  · cases h; exact ⟨by simp, by simp⟩
  · cases h

/-- **worklist_terminates.** If the root hash is not the placeholder, the depth-marking loop of
step 3 finishes within `#subintents` iterations: with fuel `> #subintents` the model never runs
out of fuel, and the only way `validate_intent_relationships` can panic is the `usize` underflow
of `max_subintent_depth - 1` (the `get_index(..).unwrap()`s of the loop never fail). -/
theorem worklist_terminates (t : Tree) (maxSubintentDepth fuel : Nat) (hroot : t.root ≠ PLACEHOLDER)
    (hf : t.subs.length < fuel) :
    validateRelationshipsFuel fuel t maxSubintentDepth ≠ .error .outOfFuel
    ∧ (validateRelationshipsFuel fuel t maxSubintentDepth = .error .panic →
        maxDepthFor t.root maxSubintentDepth = none) := by
  unfold validateRelationshipsFuel
  cases h1 : step1 t.subs [] with
  | error e => have := step1_err _ _ _ h1; exact ⟨by simp [this.1], by intro h; cases h; exact absurd rfl this.2⟩
  | ok m1 =>
    simp only
    cases h2a : claimAll m1 t.root t.rootChildren [] with
    | error e => have := claimAll_err _ _ _ _ h2a; exact ⟨by simp [this.1], by intro h; cases h; exact absurd rfl this.2⟩
    | ok r =>
      obtain ⟨m2a, rcs⟩ := r
      simp only
      cases h2b : step2b m2a t.subs with
      | error e => have := step2b_err _ _ _ h2b; exact ⟨by simp [this.1], by intro h; cases h; exact absurd rfl this.2⟩
      | ok m2 =>
        simp only
        cases hmd : maxDepthFor t.root maxSubintentDepth with
        | none => exact ⟨by simp, fun _ => rfl⟩
        | some maxDepth =>
          simp only
          obtain ⟨s2, hco, hrc, _⟩ := steps12_spec hroot h1 h2a h2b
          obtain ⟨inv, hlen⟩ := tinv_init s2 hco hrc
          obtain ⟨hw1, hw2⟩ := walk_terminates maxDepth fuel m2 _ inv (by omega)
          cases h3 : walk maxDepth fuel m2 (pushChildren rcs 1 []) with
          | error e =>
            rw [h3] at hw1 hw2
            refine ⟨by intro h; cases h; exact hw1 rfl, by intro h; cases h; exact absurd rfl hw2⟩
          | ok m3 =>
            simp only
            cases h4 : step4 m3 with
            | error e => have := step4_err h4; exact ⟨by simp [this.1], by intro h; cases h; exact absurd rfl this.2⟩
            | ok u => exact ⟨by simp, by intro h; cases h⟩

/-- More fuel never changes a result that was reached without running out. -/
theorem walk_fuel_mono (maxDepth : Nat) : ∀ (fuel : Nat) (m : List Details) (wl : List (Nat × Nat)),
    walk maxDepth fuel m wl ≠ .error .outOfFuel →
    walk maxDepth (fuel + 1) m wl = walk maxDepth fuel m wl := by
  intro fuel
  induction fuel with
  | zero => intro m wl h; simp [walk] at h
  | succ fuel ih =>
    intro m wl h
    cases wl with
    | nil => simp [walk]
    | cons x wl =>
      obtain ⟨i, d⟩ := x
      simp only [walk] at h ⊢
      cases hmi : m[i]? with
      | none => simp
      | some e =>
        simp only [hmi] at h ⊢
        by_cases hgt : d > maxDepth
        · simp [hgt]
        · simp only [hgt, if_false] at h ⊢
          exact ih _ _ h

/-- The configured depth of the current protocol version does not underflow for a subintent root
(re-checked against the compiled tree through `Generated/C35.lean`). -/
theorem latest_config_no_underflow (root : IHash) :
    maxDepthFor root Radix.Generated.C35.MAX_SUBINTENT_DEPTH_LATEST ≠ none := by
  unfold maxDepthFor
  have : Radix.Generated.C35.MAX_SUBINTENT_DEPTH_LATEST ≠ 0 := by decide
  by_cases h : root.1 = true
  · simp [h, this]
  · simp [h]

/-- The proved half of the design's `accept_iff_wf` (see the header for the full statement). -/
theorem accept_iff_wf_partial (t : Tree) (maxSubintentDepth : Nat) (rootY : Option Yields)
    (subYs : List (Option Yields)) (hroot : t.root ≠ PLACEHOLDER) :
    (∃ r, validate t maxSubintentDepth rootY subYs = .ok r) →
      ∃ maxDepth, maxDepthFor t.root maxSubintentDepth = some maxDepth ∧ WellFormed t maxDepth
        ∧ (∃ ry, rootY = some ry) ∧ (∀ y ∈ subYs, y ≠ none) := by
  rintro ⟨⟨rootCs, m⟩, h⟩
  obtain ⟨maxDepth, ry, h1, h2, h3, h4, _⟩ := accept_implies_wf t maxSubintentDepth rootY subYs hroot rootCs m h
  exact ⟨maxDepth, h1, h2, ⟨ry, h3⟩, h4⟩

end Radix.IntentTree
