/-
C03 — Every committed transaction conserves resources.

Property theorems only. Model: `RadixModel/Model/Ledger.lean`; lemmas: `Lemmas/Ledger*.lean`.

Full statement: for every committed transaction `t` (any op list, success or failure) on every
committed state `s` with `Inv s`, and every resource `r`:
  Σ vault balances of `r` after − before = minted(r) − burned(r)   (burned includes the fee burn for XRD),
  and for `r` tracking its supply the recorded supply moves by the same amount; for non-fungibles
  the same over id sets.
Proved below: the per-operation and per-op-list statements for ALL operations (fungible and
non-fungible, by amount/count), and the whole-transaction statement for the SUCCESS path
(`tx_conserves`, `supply_tracks`, `xrd_only_by_mint_burn`).
Partial: the FAILURE path (`tx_conserves_failure_partial`) assumes the vault-sum effect of
`revert` (only the force-written lock-fee takes survive, all on XRD vaults that existed before the
transaction) instead of deriving it from the `dirty` discipline of `lock_fee`; the id-set version for
non-fungibles is not proved (counts are) — both are evaluated on the implementation by the oracle
of harness/src/bin/c03.rs (`conservation:*`, `nf-ids:*`, `failure-moved-resources:*`).
-/
import RadixModel.Lemmas.LedgerTx
import RadixModel.Generated.Ledger

namespace Radix.Ledger

/-- One operation of the resource package conserves every resource: what exists of `r` (vaults +
buckets + fee reserve) changes exactly by what the operation minted minus what it burned, and
the accounting invariant (recorded supply = what exists) is preserved. -/
theorem step_conserves {s s' : St} {op : Op} (h : Good s) (hs : step s op = .ok s') :
    Good s' ∧ ∀ r, total s' r - total s r = (s'.minted r - s'.burned r) - (s.minted r - s.burned r) := by
  obtain ⟨g, a, _⟩ := step_good h hs
  refine ⟨g, fun r => ?_⟩
  have := a r
  rw [acct_eq, acct_eq] at this
  omega

/-- Any instruction list (the application phase of a transaction, up to its first failure). -/
theorem ops_conserve {s s1 : St} {ops : List Op} {e : Option Err} (h : Good s) (hr : runOps s ops = (s1, e)) :
    Good s1 ∧ ∀ r, total s1 r - total s r = (s1.minted r - s1.burned r) - (s.minted r - s.burned r) := by
  obtain ⟨g, a, _⟩ := runOps_good h hr
  refine ⟨g, fun r => ?_⟩
  have := a r
  rw [acct_eq, acct_eq] at this
  omega

/-- The recorded total supply follows mint − burn over any instruction list (tracked resources). -/
theorem supply_tracks_ops {s s1 : St} {ops : List Op} {e : Option Err} (h : Good s) (hr : runOps s ops = (s1, e))
    (r : Nat) (info : ResInfo) (hres : s.res r = some info) (ht : info.tracks = true) :
    s1.supply r - s.supply r = (s1.minted r - s1.burned r) - (s.minted r - s.burned r) := by
  obtain ⟨g, a, m⟩ := runOps_good h hr
  have h0 := h.acc r info hres ht
  have h1 := g.acc r info (m r info hres) ht
  have := a r
  unfold acct at this
  omega

/-- **tx_conserves** (success path). A successfully committed transaction: for every resource the
net change of all vault balances equals minted − burned of that transaction (the ghost counters
start at 0 in `beginTx`; `burned XRD` includes the burnt share of the fee). -/
theorem tx_conserves {s s1 s' : St} {t : Tx} (hi : Inv s)
    (hr : runOps (beginTx s) t.ops = (s1, none)) (hn : noBuckets s1 = true)
    (hf : FinOk s1 t.fin) (hfin : finalize s1 t.fin true = .ok s') :
    ∀ r, vsum s' r - vsum s r = s'.minted r - s'.burned r := by
  intro r
  obtain ⟨g, a, _⟩ := runOps_good (good_beginTx hi) hr
  have hb := bsum_of_noBuckets hn r
  have hl : XrdVaults s1 (s1.locks.map (·.vault)) := by
    intro v hv
    simp only [List.mem_map] at hv
    obtain ⟨l, hl, rfl⟩ := hv
    exact g.lockXrd l hl
  obtain ⟨fr, _, hv, hbn⟩ := finalize_eff ⟨g.vnodup, g.vdom⟩ hl hf hfin
  have h1 := a r
  unfold acct at h1
  have h0 : vsum (beginTx s) r = vsum s r := rfl
  have h2 : bsum (beginTx s) r = 0 := rfl
  have h3 : fsum (beginTx s) r = 0 := by simp [fsum, beginTx, sumLocks]
  have h4 : (beginTx s).minted r = 0 := rfl
  have h5 : (beginTx s).burned r = 0 := rfl
  rw [h0, h2, h3, h4, h5, hb] at h1
  rw [hv r, hbn r, fr.minted]
  by_cases e : r = XRD
  · subst e; simp [fsum] at h1 ⊢; omega
  · simp [fsum, e] at h1 ⊢; omega

/-- **supply_tracks** (success path): the recorded supply of every resource that existed before the
transaction and tracks its supply moves by exactly minted − burned; for any resource but XRD this
is also the net vault change of `tx_conserves`. -/
theorem supply_tracks {s s1 s' : St} {t : Tx} (hi : Inv s)
    (hr : runOps (beginTx s) t.ops = (s1, none)) (hn : noBuckets s1 = true)
    (hf : FinOk s1 t.fin) (hfin : finalize s1 t.fin true = .ok s')
    (r : Nat) (info : ResInfo) (hres : s.res r = some info) (ht : info.tracks = true) :
    s'.supply r - s.supply r = s'.minted r - s'.burned r := by
  have hx : r ≠ XRD := by
    intro e; subst e
    obtain ⟨i0, h0, h1⟩ := hi.xrd
    rw [hres] at h0; injection h0 with h0; subst h0
    rw [h1] at ht; cases ht
  have g0 := good_beginTx hi
  have h1 := supply_tracks_ops g0 hr r info hres ht
  obtain ⟨g, _, _⟩ := runOps_good g0 hr
  have hl : XrdVaults s1 (s1.locks.map (·.vault)) := by
    intro v hv
    simp only [List.mem_map] at hv
    obtain ⟨l, hl, rfl⟩ := hv
    exact g.lockXrd l hl
  obtain ⟨fr, _, _, hbn⟩ := finalize_eff ⟨g.vnodup, g.vdom⟩ hl hf hfin
  rw [fr.supply, fr.minted, hbn r]
  have e1 : (beginTx s).supply r = s.supply r := rfl
  have e2 : (beginTx s).minted r = 0 := rfl
  have e3 : (beginTx s).burned r = 0 := rfl
  simp [hx]
  omega

/-- **xrd_only_by_mint_burn** (success path): XRD in vaults changes only by Mint events (faucet,
emissions) and Burn events, where the burnt part of the fee is one of them; all other XRD that
left vaults for the fee reserve came back to XRD vaults (refunds, rewards, royalties). -/
theorem xrd_only_by_mint_burn {s s1 s' : St} {t : Tx} (hi : Inv s)
    (hr : runOps (beginTx s) t.ops = (s1, none)) (hn : noBuckets s1 = true)
    (hf : FinOk s1 t.fin) (hfin : finalize s1 t.fin true = .ok s') :
    vsum s' XRD - vsum s XRD = s1.minted XRD - (s1.burned XRD + t.fin.toBurn) := by
  have h := tx_conserves hi hr hn hf hfin XRD
  obtain ⟨g, _, _⟩ := runOps_good (good_beginTx hi) hr
  have hl : XrdVaults s1 (s1.locks.map (·.vault)) := by
    intro v hv
    simp only [List.mem_map] at hv
    obtain ⟨l, hl, rfl⟩ := hv
    exact g.lockXrd l hl
  obtain ⟨fr, _, _, hbn⟩ := finalize_eff ⟨g.vnodup, g.vdom⟩ hl hf hfin
  rw [h, fr.minted, hbn XRD]; simp

/-- Failure path, PARTIAL: assumes `hrev` (the effect of `revert` on the vault sums: only the
force-written lock-fee takes survive). Then a failed transaction moves nothing but XRD, and XRD
only by the burnt share of the fee. -/
theorem tx_conserves_failure_partial {s pre s' : St} {f : Fin} (hv : VWF pre)
    (hl : XrdVaults pre (pre.locks.map (·.vault))) (hf : FinOk pre f)
    (hrev : ∀ r, vsum pre r = vsum s r - (if r = XRD then sumLocks pre.locks else 0))
    (hb0 : ∀ r, pre.burned r = 0)
    (hfin : finalize pre f false = .ok s') :
    ∀ r, vsum s' r - vsum s r = - s'.burned r := by
  intro r
  obtain ⟨_, _, hvs, hbn⟩ := finalize_eff hv hl hf hfin
  rw [hvs r, hbn r, hrev r, hb0 r]
  by_cases e : r = XRD
  · simp [e]; omega
  · simp [e]

/-! ### The revert assumption `hrev` is a theorem for the model's own `revert`

whenever every fee lock was taken on an XRD vault that already existed at the start of the
transaction (a lock on a vault created by the failed transaction makes the real
`revert_non_force_write_changes` panic: C02 `revert:panic`). -/

theorem revert_sum_aux (vaults : List Nat) (vres : Nat → Option Nat) (hn : vaults.Nodup) (r : Nat)
    (ls : List Lock) (hl : ∀ l ∈ ls, l.vault ∈ vaults ∧ vres l.vault = some XRD) (bal : Nat → Int) :
    sumOn vaults (fun v => if vres v = some r then bal v - lockedOn ls v else 0)
      = sumOn vaults (fun v => if vres v = some r then bal v else 0)
        - (if r = XRD then sumLocks ls else 0) := by
  induction ls with
  | nil => simp [lockedOn, sumLocks]
  | cons l rest ih =>
    have hl0 := hl l (List.mem_cons_self ..)
    have ih' := ih (fun x hx => hl x (List.mem_cons_of_mem _ hx))
    rw [sumOn_update hn hl0.1
      (g := fun v => if vres v = some r then bal v - lockedOn rest v else 0)
      (g' := fun v => if vres v = some r then bal v - lockedOn (l :: rest) v else 0)
      (by intro x hx
          have : ¬ l.vault = x := fun e => hx e.symm
          simp [lockedOn, this]), ih']
    simp only [lockedOn, sumLocks, hl0.2, Option.some.injEq, if_true]
    by_cases hr : r = XRD
    · subst hr; simp; omega
    · have : ¬ XRD = r := fun e => hr e.symm
      simp [hr, this]

/-- `revert_vsum`: the `hrev` hypothesis, proved for the model's `revert` -/
theorem revert_vsum (s s1 : St) (hn : s.vaults.Nodup)
    (hl : ∀ l ∈ s1.locks, l.vault ∈ s.vaults ∧ s.vres l.vault = some XRD) (r : Nat) :
    vsum (revert (beginTx s) s1) r
      = vsum s r - (if r = XRD then sumLocks (revert (beginTx s) s1).locks else 0) :=
  revert_sum_aux s.vaults s.vres hn r s1.locks hl s.bal

/-- Failure path with `hrev` discharged: a failed transaction (state `s1` at the point of failure,
reverted to the state `s` before it, fee locks kept) moves nothing but XRD, and XRD only by the
burnt share of the fee. -/
theorem tx_conserves_failure {s s1 s' : St} {f : Fin} (hv : VWF s)
    (hlk : ∀ l ∈ s1.locks, l.vault ∈ s.vaults ∧ s.vres l.vault = some XRD)
    (hf : FinOk (revert (beginTx s) s1) f)
    (hfin : finalize (revert (beginTx s) s1) f false = .ok s') :
    ∀ r, vsum s' r - vsum s r = - s'.burned r :=
  tx_conserves_failure_partial (pre := revert (beginTx s) s1) ⟨hv.vnodup, hv.vdom⟩
    (by intro v hvm
        simp only [List.mem_map] at hvm
        obtain ⟨l, hl, rfl⟩ := hvm
        exact (hlk l hl).2)
    hf (revert_vsum s s1 hv.vnodup hlk) (fun _ => rfl) hfin

/-- The compiled tree creates XRD without the `TrackTotalSupply` feature (regenerated on every run
from the genesis of the current working tree); `Inv.xrd` is this fact about the model state. -/
theorem xrd_untracked_in_tree : Radix.Generated.Ledger.xrdTracksSupply = false := by decide

/-! ### Non-vacuity -/

def r1 : ResInfo := { nf := false, tracks := true, div := 18, mintable := true, burnable := true, recallable := true }
def xrdInfo : ResInfo := { nf := false, tracks := false, div := 18, mintable := true, burnable := true, recallable := false }

/-- a committed state: XRD (untracked) with two vaults, resource 1 (tracked, supply 70) with two vaults -/
def demo : St :=
  { empty with
    res := fun r => if r = 0 then some xrdInfo else if r = 1 then some r1 else none,
    supply := fun r => if r = 1 then 70 else 0,
    vaults := [10, 11, 12, 13],
    vres := fun v => if v = 10 ∨ v = 11 then some 0 else if v = 12 ∨ v = 13 then some 1 else none,
    bal := fun v => if v = 10 then 1000 else if v = 11 then 5 else if v = 12 then 30 else if v = 13 then 40 else 0 }

def demoTx : Tx :=
  { ops := [.lockFee 10 100 false, .take 12 20 1, .mint 1 7 2, .bput 1 2, .btake 1 3 3, .burn 3, .put 13 1],
    fin := { required := 60, royalties := [], rewardsVault := 11, toProposer := 15, toValidators := 15, toBurn := 30 } }

/-- a FAILING transaction on the demo state: fee locked on XRD vault 10, a take, then the bucket is
left dangling (the transaction fails); the executable model reverts: resource 1 untouched, XRD down
by exactly the burnt fee share, and the lock hypothesis of `tx_conserves_failure` holds -/
def demoFailTx : Tx :=
  { ops := [.lockFee 10 100 false, .take 12 20 1],
    fin := { required := 60, royalties := [], rewardsVault := 11, toProposer := 15, toValidators := 15, toBurn := 30 } }

example : (match commitTx demo demoFailTx with
    | .ok (s', ok) => (ok, vsum s' 1 - vsum demo 1, vsum s' 0 - vsum demo 0, s'.burned 0)
    | .error _ => (true, 0, 0, 0)) = (false, 0, -30, 30) := by decide

example : ∀ l ∈ (runOps (beginTx demo) demoFailTx.ops).1.locks,
    l.vault ∈ demo.vaults ∧ demo.vres l.vault = some XRD := by decide

example : (match commitTx demo demoTx with
    | .ok (s', ok) => (ok, vsum s' 1, s'.supply 1, s'.minted 1, s'.burned 1, vsum s' 0, s'.burned 0)
    | .error _ => (false, 0, 0, 0, 0, 0, 0)) = (true, 74, 74, 7, 3, 975, 30) := by decide

example : (match step demo (.take 12 31 1) with | .error e => some e | .ok _ => none) = some .insufficient := by decide

end Radix.Ledger
