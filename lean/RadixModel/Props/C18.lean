/-
C18 — Pruning never removes nodes of the current state tree.

Property theorems only. Model: `Model/Jmt.lean`, `Model/JmtStore.lean` (the puts / stale reports the
algorithm emits and the store `TypedInMemoryTreeStore` that receives them, pruning on or off).

Structure of the argument (DESIGN §4 C18):
* kernel (this file, fully general — any number of commits, any sets): if every commit satisfies the
  four per-commit facts `StepOK`
    (fresh)  every inserted key carries the commit's new version, versions increase,
    (old)    every node reported stale has an older version,
    (prune)  pruning deletes only nodes reported stale by this commit,
    (mono)   Reach(new root) ⊆ (Reach(old root) \ stale) ∪ inserted,
  then by induction over the history `current_tree_present` (every node reachable from the current
  root is stored — the current state can be read) and `stale_unreachable_later` (a node reported stale
  by a commit is unreachable from the root of that commit and of every later commit; this covers
  partition reset, deletion of whole entities and re-creation, because those only matter through the
  four facts);
* model: `fresh_keys` proves (fresh) for every `put_node` that the transcribed `put_at_next_version`
  emits in any of the three tiers, and that the version strictly increases.

Partial: (old), (prune) and (mono) are NOT proved for the model (`Lemmas/JmtFresh.lean` has (fresh)); they are evaluated on the real
implementation by the harness oracle after every commit (keys `stale-not-older`, `pruned-not-stale`,
`reach-not-mono`, plus the direct statements `reachable-node-missing`, `stale-node-reachable-*`), and
the model's store content is compared with the real store after every commit.
-/
import RadixModel.Lemmas.JmtHist
import RadixModel.Lemmas.JmtFresh

namespace Radix.Jmt

/-- **current_tree_present.** After any history, every node reachable from the current root is in
the store (with pruning enabled or not). -/
theorem current_tree_present : ∀ (h : List Step), WF h →
    ∀ k, (stateOf h).2.1 k → (stateOf h).2.2 k := by
  intro h
  induction h with
  | nil => intro _ k hk; exact hk.elim
  | cons s older ih =>
    intro hwf k hk
    obtain ⟨hold, _, hnew, hstale, hpr, hmono⟩ := hwf
    simp only [stateOf] at hk ⊢
    rcases hmono k hk with ⟨hprev, hns⟩ | hn
    · exact ⟨Or.inl (ih hold k hprev), fun hp => hns (hpr k hp)⟩
    · refine ⟨Or.inr hn, fun hp => ?_⟩
      have := hstale k (hpr k hp); have := hnew k hn; omega

/-- **stale_unreachable_later.** A node reported stale by a commit is unreachable from the root
produced by that commit and from the root produced by every later commit. -/
theorem stale_unreachable_later : ∀ (newer : List Step) (s : Step) (older : List Step),
    WF (newer ++ s :: older) → ∀ k, s.stale k → ¬ (stateOf (newer ++ s :: older)).2.1 k := by
  intro newer
  induction newer with
  | nil =>
    intro s older hwf k hst hk
    obtain ⟨_, _, hnew, hstale, _, hmono⟩ := wf_tail s older hwf
    rcases hmono k hk with ⟨_, hns⟩ | hn
    · exact hns hst
    · have := hstale k hst; have := hnew k hn; omega
  | cons s' newer ih =>
    intro s older hwf k hst hk
    obtain ⟨hwf', hlt, hnew, _, _, hmono⟩ := wf_tail s' (newer ++ s :: older) hwf
    rcases hmono k hk with ⟨hprev, _⟩ | hn
    · exact ih s older hwf' k hst hprev
    · have h1 := version_mono newer s older hwf'
      have h2 := stale_old newer s older hwf' k hst
      have := hnew k hn
      omega

/-- **fresh_keys.** Every node inserted by a commit of the transcribed `put_at_next_version`
(in the entity, partition and substate tiers, including re-inserted leaves and `Null` roots) is keyed
with the commit's new version, which is strictly larger than the previous root version — hence an
insert never overwrites a node of an older tree. -/
theorem fresh_keys (H : List UInt8 → Hash) (st st' : State) (ups : DbUpdates) (h : Hash) (evs : List Ev)
    (hr : putAtNextVersion H st ups = .ok (st', h, evs)) :
    (∀ k n, Ev.put k n ∈ evs → k.1 = st.rootVersion.getD 0 + 1) ∧
    st'.rootVersion = some (st.rootVersion.getD 0 + 1) ∧
    (∀ pv, st.rootVersion = some pv → pv < st.rootVersion.getD 0 + 1) := by
  unfold putAtNextVersion at hr
  simp only at hr
  split at hr
  · cases hr
  · rename_i kvs evs1 hl
    split at hr
    · cases hr
    · rename_i root evs2 hp
      injection hr with hr; injection hr with h1 h2; injection h2 with h2 h3
      subst h1; subst h3
      refine ⟨?_, rfl, ?_⟩
      · exact freshE_append _ _ _ (entityLeafUpdates_fresh H _ _ _ ups kvs evs1 hl)
          (putTier_fresh H _ _ _ _ _ root evs2 hp)
      · intro pv hpv; rw [hpv]; simp

/-! Non-vacuity: a two-commit history (insert a root, replace it) satisfying `WF`. -/
example : WF
    [ { version := 2, new := fun k => k = (2, []), stale := fun k => k = (1, []),
        pruned := fun k => k = (1, []), reach := fun k => k = (2, []) },
      { version := 1, new := fun k => k = (1, []), stale := fun _ => False,
        pruned := fun _ => False, reach := fun k => k = (1, []) } ] := by
  refine ⟨⟨trivial, by decide, ?_, ?_, ?_, ?_⟩, by decide, ?_, ?_, ?_, ?_⟩
  all_goals intro k hk
  all_goals first
    | exact hk.elim
    | (subst hk; simp [stateOf])
    | skip
  all_goals simp_all [stateOf]

end Radix.Jmt
