/-
C18 — Pruning never removes nodes of the current state tree.

Property theorems only. Model: `Model/Jmt.lean`, `Model/JmtStore.lean` (the puts / stale reports the
algorithm emits and the store `TypedInMemoryTreeStore` that receives them, pruning on or off).

Structure of the argument (DESIGN §4 C18):
* kernel (this file, fully general — any number of commits, any sets): if every commit satisfies the
  four per-commit facts `StepOK`
    (fresh)  every inserted key carries the commit's new version, versions increase,
    (old)    every node reported stale has an older version,
    (prune)  pruning deletes only nodes reported stale by this commit,
    (mono)   Reach(new root) ⊆ (Reach(old root) \ stale) ∪ inserted,
  then by induction over the history `current_tree_present` (every node reachable from the current
  root is stored — the current state can be read) and `stale_unreachable_later` (a node reported stale
  by a commit is unreachable from the root of that commit and of every later commit; this covers
  partition reset, deletion of whole entities and re-creation, because those only matter through the
  four facts);
* model: `puts_fresh_*` prove (fresh) for every `put_node` the transcribed algorithm emits.

Partial: (old), (prune) and (mono) are NOT proved for the model; they are evaluated on the real
implementation by the harness oracle after every commit (keys `stale-not-older`, `pruned-not-stale`,
`reach-not-mono`, plus the direct statements `reachable-node-missing`, `stale-node-reachable-*`), and
the model's store content is compared with the real store after every commit.
-/
import RadixModel.Model.JmtStore

namespace Radix.Jmt

/-- What one commit does, abstractly (sets of node keys). -/
structure Step where
  version : Nat
  new : NodeKey → Prop      -- inserted by the commit
  stale : NodeKey → Prop    -- covered by the stale parts the commit reports
  pruned : NodeKey → Prop   -- actually deleted from the store during the commit
  reach : NodeKey → Prop    -- reachable from the root the commit produces

/-- State after a history (latest commit first): current version, reachable set, store content. -/
def stateOf : List Step → Nat × (NodeKey → Prop) × (NodeKey → Prop)
  | [] => (0, (fun _ => False), (fun _ => False))
  | s :: older => (s.version, s.reach, fun k => ((stateOf older).2.2 k ∨ s.new k) ∧ ¬ s.pruned k)

/-- The per-commit facts. -/
def StepOK (prevVersion : Nat) (prevReach : NodeKey → Prop) (s : Step) : Prop :=
  prevVersion < s.version ∧
  (∀ k, s.new k → k.1 = s.version) ∧
  (∀ k, s.stale k → k.1 < s.version) ∧
  (∀ k, s.pruned k → s.stale k) ∧
  (∀ k, s.reach k → (prevReach k ∧ ¬ s.stale k) ∨ s.new k)

def WF : List Step → Prop
  | [] => True
  | s :: older => WF older ∧ StepOK (stateOf older).1 (stateOf older).2.1 s

/-- **current_tree_present.** After any history, every node reachable from the current root is in
the store (with pruning enabled or not). -/
theorem current_tree_present : ∀ (h : List Step), WF h →
    ∀ k, (stateOf h).2.1 k → (stateOf h).2.2 k := by
  intro h
  induction h with
  | nil => intro _ k hk; exact hk.elim
  | cons s older ih =>
    intro hwf k hk
    obtain ⟨hold, _, hnew, hstale, hpr, hmono⟩ := hwf
    simp only [stateOf] at hk ⊢
    rcases hmono k hk with ⟨hprev, hns⟩ | hn
    · exact ⟨Or.inl (ih hold k hprev), fun hp => hns (hpr k hp)⟩
    · refine ⟨Or.inr hn, fun hp => ?_⟩
      have := hstale k (hpr k hp); have := hnew k hn; omega

theorem wf_tail (s' : Step) (l : List Step) (h : WF (s' :: l)) :
    WF l ∧ StepOK (stateOf l).1 (stateOf l).2.1 s' := h

theorem version_mono : ∀ (newer : List Step) (s : Step) (older : List Step),
    WF (newer ++ s :: older) → s.version ≤ (stateOf (newer ++ s :: older)).1 := by
  intro newer
  induction newer with
  | nil => intro s older _; exact Nat.le_refl _
  | cons s' newer ih =>
    intro s older hwf
    obtain ⟨hwf', hok⟩ := wf_tail s' (newer ++ s :: older) hwf
    have := ih s older hwf'
    have hlt := hok.1
    show s.version ≤ s'.version
    omega

theorem stale_old : ∀ (newer : List Step) (s : Step) (older : List Step),
    WF (newer ++ s :: older) → ∀ k, s.stale k → k.1 < s.version := by
  intro newer
  induction newer with
  | nil => intro s older hwf k hst; exact (wf_tail s older hwf).2.2.2.1 k hst
  | cons s' newer ih =>
    intro s older hwf k hst
    exact ih s older (wf_tail s' (newer ++ s :: older) hwf).1 k hst

/-- **stale_unreachable_later.** A node reported stale by a commit is unreachable from the root
produced by that commit and from the root produced by every later commit. -/
theorem stale_unreachable_later : ∀ (newer : List Step) (s : Step) (older : List Step),
    WF (newer ++ s :: older) → ∀ k, s.stale k → ¬ (stateOf (newer ++ s :: older)).2.1 k := by
  intro newer
  induction newer with
  | nil =>
    intro s older hwf k hst hk
    obtain ⟨_, _, hnew, hstale, _, hmono⟩ := wf_tail s older hwf
    rcases hmono k hk with ⟨_, hns⟩ | hn
    · exact hns hst
    · have := hstale k hst; have := hnew k hn; omega
  | cons s' newer ih =>
    intro s older hwf k hst hk
    obtain ⟨hwf', hlt, hnew, _, _, hmono⟩ := wf_tail s' (newer ++ s :: older) hwf
    rcases hmono k hk with ⟨hprev, _⟩ | hn
    · exact ih s older hwf' k hst hprev
    · have h1 := version_mono newer s older hwf'
      have h2 := stale_old newer s older hwf' k hst
      have := hnew k hn
      omega

/-! Non-vacuity: a two-commit history (insert a root, replace it) satisfying `WF`. -/
example : WF
    [ { version := 2, new := fun k => k = (2, []), stale := fun k => k = (1, []),
        pruned := fun k => k = (1, []), reach := fun k => k = (2, []) },
      { version := 1, new := fun k => k = (1, []), stale := fun _ => False,
        pruned := fun _ => False, reach := fun k => k = (1, []) } ] := by
  refine ⟨⟨trivial, by decide, ?_, ?_, ?_, ?_⟩, by decide, ?_, ?_, ?_, ?_⟩
  all_goals intro k hk
  all_goals first
    | exact hk.elim
    | (subst hk; simp [stateOf])
    | skip
  all_goals simp_all [stateOf]

end Radix.Jmt
