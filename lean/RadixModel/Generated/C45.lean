/- GENERATED on every run by /verif/check from `harness c45 consts` (values as the compiled
   /repo working tree sees them). Do not edit. -/
namespace Radix.Generated.C45

def MAX_MEMORY_SIZE_IN_PAGES : Nat := 64
def MAX_INITIAL_TABLE_SIZE : Nat := 1024
def MAX_NUMBER_OF_BR_TABLE_TARGETS : Nat := 256
def MAX_NUMBER_OF_FUNCTIONS : Nat := 8192
def MAX_NUMBER_OF_FUNCTION_PARAMS : Nat := 32
def MAX_NUMBER_OF_FUNCTION_LOCALS : Nat := 256
def MAX_NUMBER_OF_GLOBALS : Nat := 512
def CONST_MAX_MEMORY_SIZE_IN_PAGES : Nat := 64
def MAX_STACK_SIZE : Nat := 1024
def LATEST_VERSION : Nat := 2
def HOST_IMPORTS : List (String × List Nat × List Nat × Nat) := [("actor_emit_event", [0, 0, 0, 0, 0], [], 0), ("actor_get_blueprint_name", [], [1], 0), ("actor_get_object_id", [0], [1], 0), ("actor_get_package_address", [], [1], 0), ("actor_open_field", [0, 0, 0], [0], 0), ("address_allocate", [0, 0, 0, 0], [1], 0), ("address_get_reservation_address", [0, 0], [1], 0), ("blueprint_call", [0, 0, 0, 0, 0, 0, 0, 0], [1], 0), ("buffer_consume", [0, 0], [], 0), ("costing_get_execution_cost_unit_limit", [], [0], 0), ("costing_get_execution_cost_unit_price", [], [1], 0), ("costing_get_fee_balance", [], [1], 0), ("costing_get_finalization_cost_unit_limit", [], [0], 0), ("costing_get_finalization_cost_unit_price", [], [1], 0), ("costing_get_tip_percentage", [], [0], 0), ("costing_get_usd_price", [], [1], 0), ("crypto_utils_blake2b_256_hash", [0, 0], [1], 2), ("crypto_utils_bls12381_g2_signature_aggregate", [0, 0], [1], 1), ("crypto_utils_bls12381_v1_aggregate_verify", [0, 0, 0, 0], [0], 1), ("crypto_utils_bls12381_v1_fast_aggregate_verify", [0, 0, 0, 0, 0, 0], [0], 1), ("crypto_utils_bls12381_v1_verify", [0, 0, 0, 0, 0, 0], [0], 1), ("crypto_utils_ed25519_verify", [0, 0, 0, 0, 0, 0], [0], 2), ("crypto_utils_keccak256_hash", [0, 0], [1], 1), ("crypto_utils_secp256k1_ecdsa_verify", [0, 0, 0, 0, 0, 0], [0], 2), ("crypto_utils_secp256k1_ecdsa_verify_and_key_recover", [0, 0, 0, 0], [1], 2), ("crypto_utils_secp256k1_ecdsa_verify_and_key_recover_uncompressed", [0, 0, 0, 0], [1], 2), ("field_entry_close", [0], [], 0), ("field_entry_read", [0], [1], 0), ("field_entry_write", [0, 0, 0], [], 0), ("kv_entry_close", [0], [], 0), ("kv_entry_read", [0], [1], 0), ("kv_entry_remove", [0], [1], 0), ("kv_entry_write", [0, 0, 0], [], 0), ("kv_store_new", [0, 0], [1], 0), ("kv_store_open_entry", [0, 0, 0, 0, 0], [0], 0), ("kv_store_remove_entry", [0, 0, 0, 0], [1], 0), ("object_call", [0, 0, 0, 0, 0, 0], [1], 0), ("object_call_direct", [0, 0, 0, 0, 0, 0], [1], 0), ("object_call_module", [0, 0, 0, 0, 0, 0, 0], [1], 0), ("object_get_blueprint_id", [0, 0], [1], 0), ("object_get_outer_object", [0, 0], [1], 0), ("object_globalize", [0, 0, 0, 0, 0, 0], [1], 0), ("object_instance_of", [0, 0, 0, 0, 0, 0], [0], 0), ("object_new", [0, 0, 0, 0], [1], 0), ("sys_bech32_encode_address", [0, 0], [1], 0), ("sys_generate_ruid", [], [1], 0), ("sys_get_transaction_hash", [], [1], 0), ("sys_log", [0, 0, 0, 0], [], 0), ("sys_panic", [0, 0], [], 0)]
def NOT_IMPORTABLE : List String := ["gas", "memory", "test_host_check_memory_is_clean", "test_host_read_memory", "test_host_write_memory"]

end Radix.Generated.C45
