/- GENERATED on every run by /verif/check from `harness c45 consts` (values as the compiled
   /repo working tree sees them). Do not edit. -/
namespace Radix.Generated.C45

def MAX_MEMORY_SIZE_IN_PAGES : Nat := 64
def MAX_INITIAL_TABLE_SIZE : Nat := 1024
def MAX_NUMBER_OF_BR_TABLE_TARGETS : Nat := 256
def MAX_NUMBER_OF_FUNCTIONS : Nat := 8192
def MAX_NUMBER_OF_FUNCTION_PARAMS : Nat := 32
def MAX_NUMBER_OF_FUNCTION_LOCALS : Nat := 256
def MAX_NUMBER_OF_GLOBALS : Nat := 512
def CONST_MAX_MEMORY_SIZE_IN_PAGES : Nat := 64
def MAX_STACK_SIZE : Nat := 1024
def LATEST_VERSION : Nat := 2
def HOST_IMPORTS : List (String × String × Nat) := [("actor_emit_event", "iiiii.", 0), ("actor_get_blueprint_name", ".I", 0), ("actor_get_object_id", "i.I", 0), ("actor_get_package_address", ".I", 0), ("actor_open_field", "iii.i", 0), ("address_allocate", "iiii.I", 0), ("address_get_reservation_address", "ii.I", 0), ("blueprint_call", "iiiiiiii.I", 0), ("buffer_consume", "ii.", 0), ("costing_get_execution_cost_unit_limit", ".i", 0), ("costing_get_execution_cost_unit_price", ".I", 0), ("costing_get_fee_balance", ".I", 0), ("costing_get_finalization_cost_unit_limit", ".i", 0), ("costing_get_finalization_cost_unit_price", ".I", 0), ("costing_get_tip_percentage", ".i", 0), ("costing_get_usd_price", ".I", 0), ("crypto_utils_blake2b_256_hash", "ii.I", 2), ("crypto_utils_bls12381_g2_signature_aggregate", "ii.I", 1), ("crypto_utils_bls12381_v1_aggregate_verify", "iiii.i", 1), ("crypto_utils_bls12381_v1_fast_aggregate_verify", "iiiiii.i", 1), ("crypto_utils_bls12381_v1_verify", "iiiiii.i", 1), ("crypto_utils_ed25519_verify", "iiiiii.i", 2), ("crypto_utils_keccak256_hash", "ii.I", 1), ("crypto_utils_secp256k1_ecdsa_verify", "iiiiii.i", 2), ("crypto_utils_secp256k1_ecdsa_verify_and_key_recover", "iiii.I", 2), ("crypto_utils_secp256k1_ecdsa_verify_and_key_recover_uncompressed", "iiii.I", 2), ("field_entry_close", "i.", 0), ("field_entry_read", "i.I", 0), ("field_entry_write", "iii.", 0), ("kv_entry_close", "i.", 0), ("kv_entry_read", "i.I", 0), ("kv_entry_remove", "i.I", 0), ("kv_entry_write", "iii.", 0), ("kv_store_new", "ii.I", 0), ("kv_store_open_entry", "iiiii.i", 0), ("kv_store_remove_entry", "iiii.I", 0), ("object_call", "iiiiii.I", 0), ("object_call_direct", "iiiiii.I", 0), ("object_call_module", "iiiiiii.I", 0), ("object_get_blueprint_id", "ii.I", 0), ("object_get_outer_object", "ii.I", 0), ("object_globalize", "iiiiii.I", 0), ("object_instance_of", "iiiiii.i", 0), ("object_new", "iiii.I", 0), ("sys_bech32_encode_address", "ii.I", 0), ("sys_generate_ruid", ".I", 0), ("sys_get_transaction_hash", ".I", 0), ("sys_log", "iiii.", 0), ("sys_panic", "ii.", 0)]
def NOT_IMPORTABLE : List String := ["gas", "memory", "test_host_check_memory_is_clean", "test_host_read_memory", "test_host_write_memory"]

end Radix.Generated.C45
