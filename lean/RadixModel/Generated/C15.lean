/- GENERATED on every run by /verif/check from `harness c15 consts` (values as the compiled
   /repo working tree sees them). Do not edit. -/
namespace Radix.Generated.C15

def MAX_SUBSTATE_KEY_SIZE : Nat := 1024
def HASHED_PREFIX_LENGTH : Nat := 20

end Radix.Generated.C15
