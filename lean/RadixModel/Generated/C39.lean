/- GENERATED on every run by /verif/check from `harness c39 consts` (values as the compiled
   /repo working tree sees them). Do not edit. -/
namespace Radix.Generated.C39

def methodNames : List String := ["try_deposit_or_refund", "try_deposit_batch_or_refund", "try_deposit_or_abort", "try_deposit_batch_or_abort", "deposit", "deposit_batch", "set_default_deposit_rule", "set_resource_preference", "remove_resource_preference", "add_authorized_depositor", "remove_authorized_depositor", "withdraw", "withdraw_non_fungibles", "lock_fee", "lock_contingent_fee", "lock_fee_and_withdraw", "lock_fee_and_withdraw_non_fungibles", "create_proof_of_amount", "create_proof_of_non_fungibles", "burn", "burn_non_fungibles", "securify", "balance", "non_fungible_local_ids", "has_non_fungible"]
def methodAuth : List (Nat × Nat) := [(0, 0), (1, 0), (2, 0), (3, 0), (4, 1), (5, 1), (6, 1), (7, 1), (8, 1), (9, 1), (10, 1), (11, 1), (12, 1), (13, 1), (14, 1), (15, 1), (16, 1), (17, 1), (18, 1), (19, 1), (20, 1), (21, 2), (22, 0), (23, 0), (24, 0)]
def exportCode : List (Nat × Nat) := [(0, 20), (1, 20), (2, 5), (3, 5), (4, 5), (5, 5)]
def accountCode1 : Nat := 5
def accountCode2 : Nat := 20

end Radix.Generated.C39
