/- GENERATED on every run by /verif/check from `harness c35 consts` (values as the compiled
   /repo working tree sees them). Do not edit. -/
namespace Radix.Generated.C35

def MAX_SUBINTENT_DEPTH_LATEST : Nat := 3
def MAX_SUBINTENT_DEPTH_BABYLON : Nat := 0
def V2_ALLOWED_BABYLON : Nat := 1
def V2_ALLOWED_LATEST : Nat := 1

end Radix.Generated.C35
