/- GENERATED on every run by /verif/check from `harness c07 consts` (values as the compiled
   /repo working tree sees them). Do not edit. -/
namespace Radix.Generated.C07

def PARTITION_RANGE_START : Nat := 65
def PARTITION_RANGE_END : Nat := 255
def EPOCHS_PER_PARTITION : Nat := 100
def MAX_EPOCH_RANGE_BABYLON : Nat := 8640
def MAX_EPOCH_RANGE_CUTTLEFISH : Nat := 8640
def MAX_EPOCH_RANGE_LATEST : Nat := 8640

end Radix.Generated.C07
