/- GENERATED on every run by /verif/check from `harness ec07 consts` (values as the compiled
   /repo working tree sees them). Do not edit. -/
namespace Radix.Generated.C07

def PARTITION_RANGE_START : Nat := 65
def PARTITION_RANGE_END : Nat := 255
def EPOCHS_PER_PARTITION : Nat := 100
def MAX_EPOCH_RANGE_BABYLON : Nat := 8640
def MAX_EPOCH_RANGE_CUTTLEFISH : Nat := 8640
def MAX_EPOCH_RANGE_LATEST : Nat := 8640
def GENESIS_START_EPOCH : Nat := 1
def GENESIS_START_PARTITION : Nat := 65
def GENESIS_RANGE_START : Nat := 65
def GENESIS_RANGE_END : Nat := 255
def GENESIS_EPOCHS_PER_PARTITION : Nat := 100
def GENESIS_EPOCH : Nat := 2

end Radix.Generated.C07
