/- GENERATED on every run by /verif/check from `harness c26 consts` (values as the compiled
   /repo working tree sees them). Do not edit. -/
namespace Radix.Generated.DecimalPow

def DEC_BITS : Nat := 192
def DEC_SCALE : Nat := 18
def PDEC_BITS : Nat := 256
def PDEC_SCALE : Nat := 36

end Radix.Generated.DecimalPow
