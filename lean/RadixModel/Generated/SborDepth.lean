/- GENERATED on every run by /verif/check from `harness c21 consts` (values as the compiled
   /repo working tree sees them). Do not edit. -/
namespace Radix.Generated.SborDepth

def BASIC_SBOR_V1_MAX_DEPTH : Nat := 64
def SCRYPTO_SBOR_V1_MAX_DEPTH : Nat := 64
def MANIFEST_SBOR_V1_MAX_DEPTH : Nat := 24

end Radix.Generated.SborDepth
