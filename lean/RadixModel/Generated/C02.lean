/- GENERATED on every run by /verif/check from `harness c02 consts` (values as the compiled
   /repo working tree sees them). Do not edit. -/
namespace Radix.Generated.C02

def LOCKFLAG_MUTABLE : Nat := 1
def LOCKFLAG_UNMODIFIED_BASE : Nat := 2
def LOCKFLAG_FORCE_WRITE : Nat := 4
def EVENTFLAG_FORCE_WRITE : Nat := 1
def fwLockPassSites : Nat := 1
def fwLockPassSitesInFungibleVault : Nat := 1
def fwEventPassSites : Nat := 2
def fwEventPassSitesInSystem : Nat := 2
def deletePartitionCalls : Nat := 1
def deletePartitionCallsInSystemCallback : Nat := 1
def revertCalls : Nat := 1
def revertCallsInSystemCallback : Nat := 1
def forceWriteCalls : Nat := 1
def forceWriteCallsInSubstateIo : Nat := 1
def lockFlagGuards : Nat := 3
def fieldGuardPresent : Nat := 1
def kvGuardsPresent : Nat := 2
def eventGuardPresent : Nat := 1
def unmodifiedBaseRefusals : Nat := 3
def closeForceWritePresent : Nat := 1
def revertOnFailurePresent : Nat := 1
def commitReceiptOrderOk : Nat := 1
def eventFilterPresent : Nat := 1

end Radix.Generated.C02
