/- GENERATED on every run by /verif/check from `harness c03 consts` (values as the compiled
   /repo working tree sees them). Do not edit. -/
namespace Radix.Generated.Ledger

def xrdTracksSupply : Bool := false

end Radix.Generated.Ledger
