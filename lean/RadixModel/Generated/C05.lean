namespace Radix.Generated.C05
end Radix.Generated.C05
