/- GENERATED on every run by /verif/check from `harness c11a consts` (values as the compiled
   /repo working tree sees them). Do not edit. -/
namespace Radix.Generated.C11

def nativeFunctionNames : List String := []
def nativeFunctions : List (Bool × Bool × Bool) := [(true, true, true)]
def NATIVE_FUNCTION_COUNT : Nat := 1

end Radix.Generated.C11
