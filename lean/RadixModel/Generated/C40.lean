/- GENERATED on every run by /verif/check from `harness c40 consts` (values as the compiled
   /repo working tree sees them). Do not edit. -/
namespace Radix.Generated.C40

def methodNames : List String := ["create_proof", "initiate_recovery_as_primary", "initiate_recovery_as_recovery", "initiate_badge_withdraw_attempt_as_primary", "initiate_badge_withdraw_attempt_as_recovery", "quick_confirm_primary_role_recovery_proposal", "quick_confirm_recovery_role_recovery_proposal", "quick_confirm_primary_role_badge_withdraw_attempt", "quick_confirm_recovery_role_badge_withdraw_attempt", "timed_confirm_recovery", "cancel_primary_role_recovery_proposal", "cancel_recovery_role_recovery_proposal", "cancel_primary_role_badge_withdraw_attempt", "cancel_recovery_role_badge_withdraw_attempt", "lock_primary_role", "unlock_primary_role", "stop_timed_recovery", "mint_recovery_badges", "lock_recovery_fee", "withdraw_recovery_fee", "contribute_recovery_fee"]
def methodTable : List (Nat × Option (List Nat)) := [(9, none), (0, some [0]), (1, some [0]), (10, some [0]), (3, some [0]), (12, some [0]), (2, some [1]), (11, some [1]), (4, some [1]), (13, some [1]), (14, some [1]), (15, some [1]), (5, some [1, 2]), (7, some [1, 2]), (6, some [0, 2]), (8, some [0, 2]), (17, some [0, 1]), (16, some [0, 2, 1]), (18, some [0, 2, 1]), (19, some [0]), (20, none)]
def compiledTable : List (Nat × Option (List Nat)) := [(9, none), (0, some [0]), (1, some [0]), (10, some [0]), (3, some [0]), (12, some [0]), (2, some [1]), (11, some [1]), (4, some [1]), (13, some [1]), (14, some [1]), (15, some [1]), (5, some [1, 2]), (7, some [1, 2]), (6, some [0, 2]), (8, some [0, 2]), (17, some [0, 1]), (16, some [0, 2, 1]), (18, some [0, 2, 1]), (19, some [0]), (20, none)]

end Radix.Generated.C40
