/- GENERATED on every run by /verif/check from `harness c44 consts` (values as the compiled
   /repo working tree sees them). Do not edit. -/
namespace Radix.Generated.C44

def TEST_MIN_ROUND : Nat := 1
def TEST_MAX_ROUND : Nat := 1
def TEST_TARGET : Nat := 0
def MAINNET_MIN_ROUND : Nat := 500
def MAINNET_MAX_ROUND : Nat := 3000
def MAINNET_TARGET : Nat := 300000
def MILLIS_IN_SECOND : Int := 1000
def SECONDS_IN_MINUTE : Int := 60
def MILLIS_IN_MINUTE : Int := 60000

end Radix.Generated.C44
