/- GENERATED on every run by /verif/check from `harness c22 consts` (values as the compiled
   /repo working tree sees them). Do not edit. -/
namespace Radix.Generated.SborSchema

def ANY_TYPE : Nat := 64
def WELL_KNOWN : List (Nat × List Nat) := [(64, [0, 0, 0, 0])]
def ENT_GLOBAL : List Nat := []
def ENT_GLOBAL_PACKAGE : List Nat := []
def ENT_GLOBAL_COMPONENT : List Nat := []
def ENT_GLOBAL_RESOURCE_MANAGER : List Nat := []
def ENT_INTERNAL : List Nat := []
def ENT_INTERNAL_VAULT : List Nat := []
def ENT_INTERNAL_KV_STORE : List Nat := []

end Radix.Generated.SborSchema
