/- GENERATED on every run by /verif/check from `harness c47 consts` (values as the compiled
   /repo working tree sees them). Do not edit. -/
namespace Radix.Generated.WasmMem

def SLICE_PTR_SHIFT : Nat := 32
def SLICE_LEN_MASK : Nat := 4294967295
def USIZE_BITS : Nat := 64
def WASM_PAGE_SIZE : Nat := 65536

end Radix.Generated.WasmMem
