/- GENERATED on every run by /verif/check from `harness c29 consts` (values as the compiled
   /repo working tree sees them). Do not edit. -/
namespace Radix.Generated.Utc

def MIN_SUPPORTED_TIMESTAMP : Int := (-62135596800)
def MAX_SUPPORTED_TIMESTAMP : Int := 135536014634284799
def SRC_UNIX_EPOCH_YEAR : Nat := 1970
def SRC_SECONDS_IN_A_NON_LEAP_YEAR : Int := 365 * 24 * 60 * 60
def SRC_SECONDS_IN_A_LEAP_YEAR : Int := 366 * 24 * 60 * 60
def SRC_DAYS_PER_4Y : Int := 365 * 4 + 1
def SRC_DAYS_PER_100Y : Int := 365 * 100 + 24
def SRC_DAYS_PER_400Y : Int := 365 * 400 + 97
def SRC_SHIFT_FROM_UNIX_TIME_TO_MARCH_Y2K : Int := 946684800 + 86400 * (31 + 29)
def SRC_SECONDS_IN_A_MINUTE : Int := 60
def SRC_SECONDS_IN_AN_HOUR : Int := 3600
def SRC_SECONDS_IN_A_DAY : Int := 86400
def SRC_MIN_SUPPORTED_TIMESTAMP : Int := (-62135596800)
def SRC_MAX_SUPPORTED_TIMESTAMP : Int := 135536014634284799
def SRC_LEAP_YEAR_DAYS_IN_MONTHS : List Nat := [31, 29, 31, 30, 31, 30, 31, 31, 30, 31, 30, 31]
def SRC_DISPLAY_FORMAT : String := "{:04}-{:02}-{:02}T{:02}:{:02}:{:02}Z"
def SRC_MONTH_ROTATE_LEFT : Nat := 2

end Radix.Generated.Utc
