/- GENERATED on every run by /verif/check from `harness c01a consts` (values as the compiled
   /repo working tree sees them). Do not edit. -/
namespace Radix.Generated.C01

def KERNEL_TRACE : Nat := 1
def LIMITS : Nat := 2
def COSTING : Nat := 4
def AUTH : Nat := 8
def TRANSACTION_RUNTIME : Nat := 32
def EXECUTION_TRACE : Nat := 64
def HASH_LENGTH : Nat := 32
def NODE_ID_LENGTH : Nat := 30
def ID_COUNTER_MAX : Nat := 4294967295
def entityTypeBytes : List Nat := [13, 81, 82, 88, 93, 104, 130, 131, 134, 152, 154, 176, 192, 193, 194, 195, 196, 197, 198, 209, 210, 248]
def executionConfigFieldNames : List String := ["enable_kernel_trace", "enable_cost_breakdown", "execution_trace", "enable_debug_information", "system_overrides"]
def executionConfigFields : List Nat := [0, 1, 2, 3, 4]
def systemOverridesFieldNames : List String := ["disable_costing", "disable_limits", "disable_auth", "abort_when_loan_repaid", "network_definition", "costing_parameters", "limit_parameters"]
def systemOverridesFields : List Nat := [0, 1, 2, 3, 4, 5, 6]
def systemSelfInitFieldNames : List String := ["enable_kernel_trace", "enable_cost_breakdown", "execution_trace", "enable_debug_information", "system_parameters", "system_logic_version", "system_overrides"]
def systemSelfInitFields : List Nat := [0, 1, 2, 3, 4, 5, 6]
def resolveReadsInitNames : List String := ["enable_kernel_trace", "enable_cost_breakdown", "execution_trace", "enable_debug_information", "system_parameters", "system_logic_version", "system_overrides"]
def resolveReadsInit : List Nat := [0, 1, 2, 3, 4, 5, 6]
def resolveReadsOverridesNames : List String := ["disable_costing", "disable_limits", "disable_auth", "abort_when_loan_repaid", "network_definition", "costing_parameters", "limit_parameters"]
def resolveReadsOverrides : List Nat := [0, 1, 2, 3, 4, 5, 6]
def selfInitFromConfig : List (Nat × Nat) := [(0, 0), (1, 1), (2, 2), (3, 3), (6, 4)]

end Radix.Generated.C01
