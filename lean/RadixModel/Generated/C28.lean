/- GENERATED on every run by /verif/check from `harness c28 consts` (values as the compiled
   /repo working tree sees them). Do not edit. -/
namespace Radix.Generated.C28

def ENTITY_TABLE : List (Nat × List Char) := [(13, ['p', 'a', 'c', 'k', 'a', 'g', 'e', '_']), (81, ['a', 'c', 'c', 'o', 'u', 'n', 't', '_']), (82, ['i', 'd', 'e', 'n', 't', 'i', 't', 'y', '_']), (88, ['i', 'n', 't', 'e', 'r', 'n', 'a', 'l', '_', 'v', 'a', 'u', 'l', 't', '_']), (93, ['r', 'e', 's', 'o', 'u', 'r', 'c', 'e', '_']), (104, ['l', 'o', 'c', 'k', 'e', 'r', '_']), (130, ['t', 'r', 'a', 'n', 's', 'a', 'c', 't', 'i', 'o', 'n', 't', 'r', 'a', 'c', 'k', 'e', 'r', '_']), (131, ['v', 'a', 'l', 'i', 'd', 'a', 't', 'o', 'r', '_']), (134, ['c', 'o', 'n', 's', 'e', 'n', 's', 'u', 's', 'm', 'a', 'n', 'a', 'g', 'e', 'r', '_']), (152, ['i', 'n', 't', 'e', 'r', 'n', 'a', 'l', '_', 'v', 'a', 'u', 'l', 't', '_']), (154, ['r', 'e', 's', 'o', 'u', 'r', 'c', 'e', '_']), (176, ['i', 'n', 't', 'e', 'r', 'n', 'a', 'l', '_', 'k', 'e', 'y', 'v', 'a', 'l', 'u', 'e', 's', 't', 'o', 'r', 'e', '_']), (192, ['c', 'o', 'm', 'p', 'o', 'n', 'e', 'n', 't', '_']), (193, ['a', 'c', 'c', 'o', 'u', 'n', 't', '_']), (194, ['i', 'd', 'e', 'n', 't', 'i', 't', 'y', '_']), (195, ['a', 'c', 'c', 'e', 's', 's', 'c', 'o', 'n', 't', 'r', 'o', 'l', 'l', 'e', 'r', '_']), (196, ['p', 'o', 'o', 'l', '_']), (197, ['p', 'o', 'o', 'l', '_']), (198, ['p', 'o', 'o', 'l', '_']), (209, ['a', 'c', 'c', 'o', 'u', 'n', 't', '_']), (210, ['i', 'd', 'e', 'n', 't', 'i', 't', 'y', '_']), (248, ['i', 'n', 't', 'e', 'r', 'n', 'a', 'l', '_', 'c', 'o', 'm', 'p', 'o', 'n', 'e', 'n', 't', '_'])]
def HRP_IS_PREFIX_PLUS_SUFFIX : Nat := 1
def TYPED_LENGTH_IS_NODE_ID_LENGTH : Nat := 1
def PACKAGE_BYTES : List Nat := [13]
def RESOURCE_BYTES : List Nat := [93, 154]
def COMPONENT_BYTES : List Nat := [81, 82, 104, 130, 131, 134, 192, 193, 194, 195, 196, 197, 198, 209, 210]
def GLOBAL_BYTES : List Nat := [13, 81, 82, 93, 104, 130, 131, 134, 154, 192, 193, 194, 195, 196, 197, 198, 209, 210]
def INTERNAL_BYTES : List Nat := [88, 152, 176, 248]
def NODE_ID_LENGTH : Nat := 30
def NON_FUNGIBLE_LOCAL_ID_MAX_LENGTH : Nat := 64

end Radix.Generated.C28
