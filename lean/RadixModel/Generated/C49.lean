/- GENERATED on every run by /verif/check from `harness c49 consts` (values as the compiled
   /repo working tree sees them). Do not edit. -/
namespace Radix.Generated.C49

def P_MAX_CALL_DEPTH : Nat := 8
def P_MAX_HEAP_SUBSTATE_TOTAL_BYTES : Nat := 67108864
def P_MAX_TRACK_SUBSTATE_TOTAL_BYTES : Nat := 67108864
def P_MAX_SUBSTATE_KEY_SIZE : Nat := 1024
def P_MAX_SUBSTATE_VALUE_SIZE : Nat := 2097152
def P_MAX_INVOKE_INPUT_SIZE : Nat := 1048576
def P_MAX_EVENT_SIZE : Nat := 32768
def P_MAX_LOG_SIZE : Nat := 32768
def P_MAX_PANIC_MESSAGE_SIZE : Nat := 32768
def P_MAX_NUMBER_OF_LOGS : Nat := 256
def P_MAX_NUMBER_OF_EVENTS : Nat := 256
def C_MAX_CALL_DEPTH : Nat := 8
def C_MAX_HEAP : Nat := 67108864
def C_MAX_TRACK : Nat := 67108864
def C_MAX_KEY : Nat := 1024
def C_MAX_VALUE : Nat := 2097152
def C_MAX_INVOKE : Nat := 1048576
def C_MAX_EVENT : Nat := 32768
def C_MAX_LOG : Nat := 32768
def C_MAX_PANIC : Nat := 32768
def C_MAX_LOGS : Nat := 256
def C_MAX_EVENTS : Nat := 256
def NODE_ID_LENGTH : Nat := 30
def CANON_FIELD_KEY_LEN : Nat := 32

end Radix.Generated.C49
