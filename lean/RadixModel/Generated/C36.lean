/- GENERATED on every run by /verif/check from `harness c36 consts` (values as the compiled
   /repo working tree sees them). Do not edit. -/
namespace Radix.Generated.C36

def MANIFEST_SBOR_V1_MAX_DEPTH : Nat := 24
def RULESET_ALL : List Bool := [true, true, true, true, true, true]
def RULESET_CUTTLEFISH : List Bool := [true, true, true, true, true, true]
def RULESET_BABYLON_EQUIVALENT : List Bool := [false, false, true, false, false, false]

end Radix.Generated.C36
