/- GENERATED on every run by /verif/check from `harness c08 consts` (values as the compiled
   /repo working tree sees them). Do not edit. -/
namespace Radix.Generated.C08

def MAX_ACCESS_RULE_DEPTH : Nat := 8
def MAX_COMPOSITE_REQUIREMENTS : Nat := 64

end Radix.Generated.C08
