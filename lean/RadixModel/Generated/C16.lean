/- GENERATED on every run by /verif/check from `harness c16 consts` (values as the compiled
   /repo working tree sees them). Do not edit. -/
namespace Radix.Generated.C16

def HASHED_PREFIX_LENGTH : Nat := 20
def HASHED_PREFIX_LENGTH_MAP : Nat := 20
def SORTED_OVERHEAD : Nat := 22
def NODE_ID_LENGTH : Nat := 30
def HASH_LENGTH : Nat := 32
def FIELD_SORT_KEY_LENGTH : Nat := 1

end Radix.Generated.C16
