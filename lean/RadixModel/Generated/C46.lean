/- GENERATED on every run by /verif/check from `harness c46 consts` (values as the compiled
   /repo working tree sees them). Do not edit. -/
namespace Radix.Generated.C46

def W_CONST : Nat := 1372
def W_DROP : Nat := 1372
def W_EQZ : Nat := 1889
def W_ADD : Nat := 1623
def W_SUB : Nat := 2212
def W_MUL : Nat := 1640
def W_DIVU : Nat := 1751
def W_REMU : Nat := 1681
def W_AND : Nat := 2045
def W_OR : Nat := 1641
def W_XOR : Nat := 2196
def W_SHL : Nat := 1662
def W_SHRU : Nat := 1646
def W_EQ : Nat := 2149
def W_NE : Nat := 1628
def W_LTU : Nat := 2088
def W_GTU : Nat := 1661
def W_EXTEND : Nat := 1939
def W_LOCAL_GET : Nat := 2816
def W_LOCAL_SET : Nat := 2822
def W_LOCAL_TEE : Nat := 2087
def W_SELECT : Nat := 3434
def W_NOP : Nat := 1372
def W_BLOCK : Nat := 1372
def W_LOOP : Nat := 1372
def W_IF : Nat := 8054
def W_BR : Nat := 3529
def W_BR_IF : Nat := 4706
def W_RETURN : Nat := 0
def W_UNREACHABLE : Nat := 0
def W_CALL : Nat := 14340
def W_PER_LOCAL : Nat := 1651
def MAX_STACK_SIZE : Nat := 1024

end Radix.Generated.C46
