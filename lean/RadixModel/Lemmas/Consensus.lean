/-
Helper lemmas for C44 (consensus clock / round / epoch model).
-/
import RadixModel.Model.Consensus

namespace Radix.Consensus

/-! ## Truncating division -/

theorem tdiv_of_nonneg (a k : Int) (ha : 0 ≤ a) : a.tdiv k = a / k :=
  Int.tdiv_eq_ediv_of_nonneg ha

theorem tdiv_of_neg (a k : Int) (ha : a < 0) : a.tdiv k = -((-a) / k) := by
  have h1 : a.tdiv k = -((-a).tdiv k) := by
    rw [Int.neg_tdiv]; simp
  rw [h1, Int.tdiv_eq_ediv_of_nonneg (by omega)]

/-- Rust's `/` on signed integers (truncation toward zero) is monotone in the dividend for a
    positive divisor — on the whole line, i.e. also across and below zero. -/
theorem tdiv_mono (a b k : Int) (hk : 0 < k) (hab : a ≤ b) : a.tdiv k ≤ b.tdiv k := by
  by_cases ha : 0 ≤ a
  · rw [tdiv_of_nonneg a k ha, tdiv_of_nonneg b k (by omega)]
    exact Int.ediv_le_ediv hk hab
  · have ha' : a < 0 := by omega
    rw [tdiv_of_neg a k ha']
    by_cases hb : 0 ≤ b
    · rw [tdiv_of_nonneg b k hb]
      have h1 : 0 ≤ (-a) / k := Int.ediv_nonneg (by omega) (by omega)
      have h2 : 0 ≤ b / k := Int.ediv_nonneg hb (by omega)
      omega
    · have hb' : b < 0 := by omega
      rw [tdiv_of_neg b k hb']
      have : (-b) / k ≤ (-a) / k := Int.ediv_le_ediv hk (by omega)
      omega

/-- literal forms usable by `omega` -/
theorem tdiv_lit_nonneg (a : Int) (k : Int) (ha : 0 ≤ a) : a.tdiv k = a / k := tdiv_of_nonneg a k ha

/-! ## `milliToMinute` -/

theorem milliToMinute_some {ms m : Int} (h : milliToMinute ms = some m) :
    m = ms.tdiv 60000 ∧ i32Min ≤ m ∧ m ≤ i32Max := by
  unfold milliToMinute at h
  simp only at h
  split at h
  · rename_i hr
    simp only [inI32, decide_eq_true_eq] at hr
    simp only [Option.some.injEq] at h
    subst h
    exact ⟨rfl, hr.1, hr.2⟩
  · cases h

theorem milliToMinute_of_range {ms : Int} (h1 : i32Min ≤ ms.tdiv 60000) (h2 : ms.tdiv 60000 ≤ i32Max) :
    milliToMinute ms = some (ms.tdiv 60000) := by
  unfold milliToMinute
  simp only
  have hr : inI32 (ms.tdiv 60000) = true := by
    simp only [inI32, decide_eq_true_eq]; exact ⟨h1, h2⟩
  rw [if_pos hr]

/-! ## `calculateProgress` -/

theorem calculateProgress_some {a b p : Nat} (h : calculateProgress a b = some p) :
    a < b ∧ p = b - a := by
  unfold calculateProgress at h
  simp only at h
  split at h
  · cases h
  · simp only [Option.some.injEq] at h
    omega

theorem calculateProgress_none {a b : Nat} (h : b ≤ a) : calculateProgress a b = none := by
  unfold calculateProgress
  simp only
  rw [if_pos (by omega)]

/-! ## `checkTimestamps` -/

theorem checkTimestamps_ok {s : St} {ts mi mn : Int} (h : checkTimestamps s ts = .ok (mi, mn)) :
    s.milli ≤ ts ∧ mi = ts ∧
      ∃ m, milliToMinute ts = some m ∧ mn = (if m > s.minute then m else s.minute) := by
  unfold checkTimestamps at h
  split at h
  · cases h
  · rename_i hlt
    simp only at h
    split at h
    · cases h
    · rename_i m hm
      simp only [Except.ok.injEq, Prod.mk.injEq] at h
      refine ⟨by omega, ?_, m, hm, h.2.symm⟩
      rw [← h.1]
      split <;> omega

theorem checkTimestamps_smaller {s : St} {ts : Int} (h : ts < s.milli) :
    checkTimestamps s ts = .error .invalidProposerTimestampUpdate := by
  unfold checkTimestamps
  rw [if_pos h]

/-! ## `shouldEpochChange` -/

theorem shouldEpochChange_noChange {cfg : Config} {eff cur : Int} {r : Nat}
    (h : shouldEpochChange cfg eff cur r = some .noChange) :
    criterionMet cfg (epochDuration eff cur) r = false := by
  unfold shouldEpochChange at h
  simp only at h
  split at h
  · split at h <;> simp at h
  · rename_i hc
    simpa using hc

theorem shouldEpochChange_change {cfg : Config} {eff cur : Int} {r : Nat} {ne : Int}
    (h : shouldEpochChange cfg eff cur r = some (.change ne)) :
    criterionMet cfg (epochDuration eff cur) r = true ∧
      (ne = cur ∨ ne = satAddUnsigned eff cfg.target) := by
  unfold shouldEpochChange at h
  simp only at h
  split at h
  · rename_i hc
    refine ⟨hc, ?_⟩
    split at h
    · cases h
    · simp only [Option.some.injEq, Outcome.change.injEq] at h
      exact Or.inr h.symm
    · simp only [Option.some.injEq, Outcome.change.injEq] at h
      exact Or.inl h.symm
  · cases h

/-! ## The step characterisation -/

/-- everything `next_round` guarantees about an accepted round change -/
structure Accepted (cfg : Config) (s : St) (op : Op) (s' : St) : Prop where
  ts_ge : s.milli ≤ op.ts
  milli : s'.milli = op.ts
  minute : ∃ m, milliToMinute op.ts = some m ∧ s'.minute = (if m > s.minute then m else s.minute)
  round_gt : s.round < op.round
  gaps : op.gaps.length + 1 = op.round - s.round
  leader : s'.leader = some op.leader
  outcome :
    (criterionMet cfg (epochDuration s.effStart op.ts) op.round = false ∧
      s'.epoch = s.epoch ∧ s'.round = op.round ∧ s'.effStart = s.effStart ∧ s'.actStart = s.actStart) ∨
    (criterionMet cfg (epochDuration s.effStart op.ts) op.round = true ∧
      s.epoch < u64Max ∧ s'.epoch = s.epoch + 1 ∧ s'.round = 0 ∧ s'.actStart = op.ts ∧
      (s'.effStart = op.ts ∨ s'.effStart = satAddUnsigned s.effStart cfg.target) ∧
      s'.stats = List.replicate cfg.nVal (0, 0))

theorem updateStats_ok {stats : List (Nat × Nat)} {p : Nat} {gaps : List Nat} {l : Nat} {fb : Bool}
    {st' : List (Nat × Nat)} (h : updateStats stats p gaps l fb = .ok st') : gaps.length + 1 = p := by
  unfold updateStats at h
  split at h
  · cases h
  · rename_i hne
    simpa using hne

theorem epochNext_some {e e' : Nat} (h : epochNext e = some e') : e < u64Max ∧ e' = e + 1 := by
  unfold epochNext at h
  split at h
  · simp only [Option.some.injEq] at h
    exact ⟨by assumption, h.symm⟩
  · cases h

theorem nextRound_ok {cfg : Config} {s s' : St} {op : Op} (h : nextRound cfg s op = .ok s') :
    Accepted cfg s op s' := by
  unfold nextRound at h
  split at h
  · cases h
  · rename_i mi mn hct
    obtain ⟨hts, hmi, m, hm, hmn⟩ := checkTimestamps_ok hct
    split at h
    · cases h
    · rename_i prog hprog
      obtain ⟨hlt, hp⟩ := calculateProgress_some hprog
      split at h
      · cases h
      · rename_i stats' hst
        have hg := updateStats_ok hst
        split at h
        · cases h
        · rename_i hsec
          have hc := shouldEpochChange_noChange hsec
          simp only [Except.ok.injEq] at h
          subst h
          exact ⟨hts, hmi, ⟨m, hm, hmn⟩, hlt, by omega, rfl, Or.inl ⟨hc, rfl, rfl, rfl, rfl⟩⟩
        · rename_i ne hsec
          obtain ⟨hc, hne⟩ := shouldEpochChange_change hsec
          split at h
          · cases h
          · rename_i e' he
            obtain ⟨hmax, he'⟩ := epochNext_some he
            simp only [Except.ok.injEq] at h
            subst h
            exact ⟨hts, hmi, ⟨m, hm, hmn⟩, hlt, by omega, rfl,
              Or.inr ⟨hc, hmax, he', rfl, rfl, hne, rfl⟩⟩

/-- `apply` either keeps the state (failed transaction) or is an accepted step -/
theorem apply_cases (cfg : Config) (s : St) (op : Op) :
    apply cfg s op = s ∨ Accepted cfg s op (apply cfg s op) := by
  unfold apply
  split
  · rename_i s' h
    exact Or.inr (nextRound_ok h)
  · exact Or.inl rfl

theorem run_nil (cfg : Config) (s : St) : run cfg s [] = s := rfl

theorem run_cons (cfg : Config) (s : St) (op : Op) (ops : List Op) :
    run cfg s (op :: ops) = run cfg (apply cfg s op) ops := rfl

theorem run_append (cfg : Config) (s : St) (a b : List Op) :
    run cfg s (a ++ b) = run cfg (run cfg s a) b := by
  unfold run; rw [List.foldl_append]

/-- an invariant-style induction principle for histories: a relation that is reflexive, transitive
    and holds across every accepted step holds from any state to any later state. -/
theorem run_rel {cfg : Config} (R : St → St → Prop) (hrefl : ∀ s, R s s)
    (htrans : ∀ a b c, R a b → R b c → R a c)
    (hstep : ∀ s op s', Accepted cfg s op s' → R s s') :
    ∀ (ops : List Op) (s : St), R s (run cfg s ops) := by
  intro ops
  induction ops with
  | nil => intro s; exact hrefl s
  | cons op ops ih =>
    intro s
    rw [run_cons]
    rcases apply_cases cfg s op with h | h
    · rw [h]; exact ih s
    · exact htrans _ _ _ (hstep _ _ _ h) (ih _)

/-- invariants preserved by accepted steps hold in every later state -/
theorem run_inv {cfg : Config} (P : St → Prop)
    (hstep : ∀ s op s', P s → Accepted cfg s op s' → P s') :
    ∀ (ops : List Op) (s : St), P s → P (run cfg s ops) := by
  intro ops
  induction ops with
  | nil => intro s h; exact h
  | cons op ops ih =>
    intro s hs
    rw [run_cons]
    rcases apply_cases cfg s op with h | h
    · rw [h]; exact ih s hs
    · exact ih _ (hstep _ _ _ hs h)

end Radix.Consensus
