/-
C49 — helper definitions and lemmas: the ghost table of live substates and its byte total.
-/
import RadixModel.Model.Limits

namespace Radix.Limits

/-- Ghost table of the live substates of one store (heap or track):
`(substate id, canonical key length, value size)`. -/
abbrev Live := List (Nat × Nat × Nat)

/-- Σ (key length + value size) over the live substates. -/
def Live.total : Live → Nat
  | [] => 0
  | e :: l => e.2.1 + e.2.2 + Live.total l

/-- first entry of substate `id` -/
def Live.find : Live → Nat → Option (Nat × Nat)
  | [], _ => none
  | e :: l, id => if e.1 = id then some e.2 else Live.find l id

/-- remove the first entry of substate `id` -/
def Live.erase : Live → Nat → Live
  | [], _ => []
  | e :: l, id => if e.1 = id then l else e :: Live.erase l id

theorem Live.total_erase_none (l : Live) (id : Nat) (h : l.find id = none) : l.erase id = l := by
  induction l with
  | nil => rfl
  | cons e l ih =>
    simp only [Live.find] at h
    split at h
    · cases h
    · rename_i hne
      simp only [Live.erase, hne, if_false, ih h]

theorem Live.total_erase_some (l : Live) (id kl s : Nat) (h : l.find id = some (kl, s)) :
    (l.erase id).total + (kl + s) = l.total := by
  induction l with
  | nil => simp [Live.find] at h
  | cons e l ih =>
    simp only [Live.find] at h
    split at h
    · rename_i he
      simp only [Option.some.injEq] at h
      simp only [Live.erase, he, if_true, Live.total, h]
      omega
    · rename_i hne
      have := ih h
      simp only [Live.erase, hne, if_false, Live.total]
      omega

/-- ids of a table -/
def Live.ids (l : Live) : List Nat := l.map (·.1)

theorem Live.find_none_iff (l : Live) (id : Nat) : l.find id = none ↔ id ∉ l.ids := by
  induction l with
  | nil => simp [Live.find, Live.ids]
  | cons e l ih =>
    simp only [Live.find, Live.ids, List.map_cons, List.mem_cons, not_or]
    split
    · rename_i he; simp [he]
    · rename_i hne
      rw [ih]
      constructor
      · intro h; exact ⟨fun e' => hne e'.symm, h⟩
      · intro h; exact h.2

theorem Live.ids_erase_sub (l : Live) (id x : Nat) (h : x ∈ (l.erase id).ids) : x ∈ l.ids := by
  induction l with
  | nil => simp [Live.erase, Live.ids] at h
  | cons e l ih =>
    simp only [Live.erase] at h
    split at h
    · simp only [Live.ids, List.map_cons, List.mem_cons]; right; exact h
    · simp only [Live.ids, List.map_cons, List.mem_cons] at h ⊢
      rcases h with h | h
      · left; exact h
      · right; exact ih h

theorem Live.erase_nodup (l : Live) (id : Nat) (h : l.ids.Nodup) :
    (l.erase id).ids.Nodup ∧ id ∉ (l.erase id).ids := by
  induction l with
  | nil => simp [Live.erase, Live.ids]
  | cons e l ih =>
    simp only [Live.ids, List.map_cons, List.nodup_cons] at h
    simp only [Live.erase]
    split
    · rename_i he
      subst he
      exact ⟨h.2, h.1⟩
    · rename_i hne
      have ih' := ih h.2
      refine ⟨?_, ?_⟩
      · simp only [Live.ids, List.map_cons, List.nodup_cons]
        refine ⟨?_, ih'.1⟩
        intro hm
        exact h.1 (Live.ids_erase_sub l id _ hm)
      · simp only [Live.ids, List.map_cons, List.mem_cons, not_or]
        exact ⟨fun e' => hne e'.symm, ih'.2⟩

/-! arithmetic of the four counter statements, by shape of (old, new) -/
theorem bump_none_none (x k : Nat) (h : x + k < 2 ^ 64) : bump x k none none = (x, true) := by
  have h2 : x < 2 ^ 64 := by omega
  simp [bump, uadd, usub, USIZE, h, h2]
theorem bump_none_some (x k n : Nat) (h : x + k + n < 2 ^ 64) : bump x k none (some n) = (x + k + n, true) := by
  have h2 : x + k < 2 ^ 64 := by omega
  simp [bump, uadd, usub, USIZE, h, h2]
theorem bump_some_none (x k s : Nat) (h1 : k + s ≤ x) (hx : x < 2 ^ 64) : bump x k (some s) none = (x - k - s, true) := by
  have h2 : k ≤ x := by omega
  have h3 : x - k < 2 ^ 64 := by omega
  have h4 : s ≤ x - k := by omega
  simp [bump, uadd, usub, USIZE, h2, h3, h4]
theorem bump_some_some (x k s n : Nat) (h1 : s ≤ x) (h : x + n < 2 ^ 64) : bump x k (some s) (some n) = (x + n - s, true) := by
  have h2 : s ≤ x + n := by omega
  simp [bump, uadd, usub, USIZE, h, h2]

end Radix.Limits
