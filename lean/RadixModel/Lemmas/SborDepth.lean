/-
C21 — nesting depth: the encoder and the decoder accept a value exactly when its depth is within
the limit, reject with `MaxDepthExceeded` otherwise, and their results do not depend on the limit.
-/
import RadixModel.Lemmas.Sbor

set_option linter.unusedSimpArgs false
set_option linter.unusedVariables false

namespace Radix.Sbor
open Radix.Generated

/-! ### nesting depth -/

theorem Value.depth_pos {X Y : Type} (v : Value X Y) : 1 ≤ v.depth := by
  cases v <;> simp [Value.depth] <;> omega

theorem depthList_le {X Y : Type} (vs : List (Value X Y)) (n : Nat) :
    depthList vs ≤ n ↔ ∀ v ∈ vs, v.depth ≤ n := by
  induction vs with
  | nil => simp [depthList]
  | cons v vs ih => simp [depthList, Nat.max_le, ih]

theorem depthEntries_le {X Y : Type} (es : List (Value X Y × Value X Y)) (n : Nat) :
    depthEntries es ≤ n ↔ ∀ e ∈ es, e.1.depth ≤ n ∧ e.2.depth ≤ n := by
  induction es with
  | nil => simp [depthEntries]
  | cons e es ih =>
    obtain ⟨k, v⟩ := e
    simp [depthEntries, Nat.max_le, ih, and_assoc]

theorem encMany_ok_elem {α : Type} (g : α → Except EErr Bytes) (as : List α) (bs : Bytes)
    (h : encMany g as = .ok bs) : ∀ a ∈ as, ∃ b, g a = .ok b := by
  induction as generalizing bs with
  | nil => simp
  | cons a as ih =>
    obtain ⟨b, t, hb, ht, rfl⟩ := (encMany_cons_ok g a as bs).1 h
    intro x hx
    simp at hx
    rcases hx with rfl | hx
    · exact ⟨b, hb⟩
    · exact ih t ht x hx

theorem encMany_congr_ok {α : Type} (g g' : α → Except EErr Bytes) (as : List α) (bs : Bytes)
    (hg : ∀ a ∈ as, ∀ b, g a = .ok b → g' a = .ok b) (h : encMany g as = .ok bs) :
    encMany g' as = .ok bs := by
  induction as generalizing bs with
  | nil => simpa [encMany] using h
  | cons a as ih =>
    obtain ⟨b, t, hb, ht, rfl⟩ := (encMany_cons_ok g a as _).1 h
    exact (encMany_cons_ok g' a as _).2 ⟨b, t, hg a (by simp) b hb,
      ih t (fun x hx => hg x (by simp [hx])) ht, rfl⟩

/-- If every element either encodes or fails with `E`, and some element fails, the sequence fails
with `E` (the first failure is reported). -/
theorem encMany_error_of {α : Type} (g : α → Except EErr Bytes) (E : EErr) (as : List α)
    (hall : ∀ a ∈ as, (∃ b, g a = .ok b) ∨ g a = .error E) (hex : ∃ a ∈ as, g a = .error E) :
    encMany g as = .error E := by
  induction as with
  | nil => simp at hex
  | cons a as ih =>
    simp only [encMany]
    rcases hall a (by simp) with ⟨b, hb⟩ | he
    · rw [hb]
      have : ∃ x ∈ as, g x = .error E := by
        obtain ⟨x, hx, hxe⟩ := hex
        simp at hx
        rcases hx with rfl | hx
        · rw [hb] at hxe; simp at hxe
        · exact ⟨x, hx, hxe⟩
      rw [ih (fun x hx => hall x (by simp [hx])) this]
    · rw [he]

/-- The encoder accepts only values within the depth allowance. -/
theorem encBody_depth {X Y : Type} [DecidableEq X] (F : Flavour X Y) (max rem : Nat) :
    ∀ (v : Value X Y) (b : Bytes), encBody F max rem v = .ok b → v.depth ≤ rem := by
  induction rem with
  | zero => intro v b h; simp [encBody] at h
  | succ rem ih =>
    intro v b h
    have hfield : ∀ fs : List (Value X Y), ∀ body, encMany (encField F (encBody F max rem)) fs = .ok body →
        depthList fs ≤ rem := by
      intro fs body hb
      rw [depthList_le]
      intro a ha
      obtain ⟨b', hb'⟩ := encMany_ok_elem _ _ _ hb a ha
      simp only [encField] at hb'
      split at hb'
      · simp at hb'
      · rename_i b'' hb''; exact ih a b'' hb''
    cases v with
    | bool _ => simp [Value.depth]
    | int _ _ => simp [Value.depth]
    | string _ => simp [Value.depth]
    | custom _ => simp [Value.depth]
    | enum d fs =>
      simp only [encBody] at h
      split at h
      · simp at h
      · split at h
        · simp at h
        · rename_i body hb
          have := hfield fs body hb
          simp [Value.depth]; omega
    | tuple fs =>
      simp only [encBody] at h
      split at h
      · simp at h
      · split at h
        · simp at h
        · rename_i body hb
          have := hfield fs body hb
          simp [Value.depth]; omega
    | array ek es =>
      simp only [encBody] at h
      split at h
      · simp at h
      · split at h
        · simp at h
        · rename_i body hb
          have : depthList es ≤ rem := by
            rw [depthList_le]
            intro a ha
            obtain ⟨b', hb'⟩ := encMany_ok_elem _ _ _ hb a ha
            simp only [encElem] at hb'
            split at hb'
            · simp at hb'
            · exact ih a b' hb'
          simp [Value.depth]; omega
    | map kk vk es =>
      simp only [encBody] at h
      split at h
      · simp at h
      · split at h
        · simp at h
        · rename_i body hb
          have : depthEntries es ≤ rem := by
            rw [depthEntries_le]
            intro e he
            obtain ⟨b', hb'⟩ := encMany_ok_elem _ _ _ hb e he
            simp only [encEntry] at hb'
            split at hb'
            · simp at hb'
            · split at hb'
              · simp at hb'
              · rename_i kb hkb
                split at hb'
                · simp at hb'
                · split at hb'
                  · simp at hb'
                  · rename_i vb hvb
                    exact ⟨ih _ _ hkb, ih _ _ hvb⟩
          simp [Value.depth]; omega

/-- The encoder's result does not depend on the limit as long as it covers the value's depth. -/
theorem encBody_of_depth {X Y : Type} [DecidableEq X] (F : Flavour X Y) (max max' rem : Nat) :
    ∀ (v : Value X Y) (b : Bytes) (rem' : Nat), encBody F max rem v = .ok b → v.depth ≤ rem' →
      encBody F max' rem' v = .ok b := by
  induction rem with
  | zero => intro v b rem' h; simp [encBody] at h
  | succ rem ih =>
    intro v b rem' h hd
    have hpos := v.depth_pos
    obtain ⟨r', rfl⟩ : ∃ r', rem' = r' + 1 := ⟨rem' - 1, by omega⟩
    cases v with
    | bool _ => simpa [encBody] using h
    | int _ _ => simpa [encBody] using h
    | string _ => simpa [encBody] using h
    | custom _ => simpa [encBody] using h
    | enum d fs =>
      simp only [Value.depth] at hd
      simp only [encBody] at h ⊢
      split at h
      · simp at h
      · rename_i sz hsz
        split at h
        · simp at h
        · rename_i body hb
          have : encMany (encField F (encBody F max' r')) fs = .ok body := by
            refine encMany_congr_ok _ _ fs body ?_ hb
            intro a ha b' hb'
            have hda : a.depth ≤ r' := (depthList_le fs r').1 (by omega) a ha
            simp only [encField] at hb' ⊢
            split at hb'
            · simp at hb'
            · rename_i b'' hb''
              rw [ih a b'' r' hb'' hda]
              exact hb'
          simp [this]
          simpa using h
    | tuple fs =>
      simp only [Value.depth] at hd
      simp only [encBody] at h ⊢
      split at h
      · simp at h
      · rename_i sz hsz
        split at h
        · simp at h
        · rename_i body hb
          have : encMany (encField F (encBody F max' r')) fs = .ok body := by
            refine encMany_congr_ok _ _ fs body ?_ hb
            intro a ha b' hb'
            have hda : a.depth ≤ r' := (depthList_le fs r').1 (by omega) a ha
            simp only [encField] at hb' ⊢
            split at hb'
            · simp at hb'
            · rename_i b'' hb''
              rw [ih a b'' r' hb'' hda]
              exact hb'
          simp [this]
          simpa using h
    | array ek es =>
      simp only [Value.depth] at hd
      simp only [encBody] at h ⊢
      split at h
      · simp at h
      · rename_i sz hsz
        split at h
        · simp at h
        · rename_i body hb
          have : encMany (encElem F ek (encBody F max' r')) es = .ok body := by
            refine encMany_congr_ok _ _ es body ?_ hb
            intro a ha b' hb'
            have hda : a.depth ≤ r' := (depthList_le es r').1 (by omega) a ha
            simp only [encElem] at hb' ⊢
            split at hb'
            · simp at hb'
            · rename_i hkind
              simp [hkind]
              exact ih a b' r' hb' hda
          simp [this]
          simpa using h
    | map kk vk es =>
      simp only [Value.depth] at hd
      simp only [encBody] at h ⊢
      split at h
      · simp at h
      · rename_i sz hsz
        split at h
        · simp at h
        · rename_i body hb
          have : encMany (encEntry F kk vk (encBody F max' r')) es = .ok body := by
            refine encMany_congr_ok _ _ es body ?_ hb
            intro e he b' hb'
            have hde := (depthEntries_le es r').1 (by omega) e he
            simp only [encEntry] at hb' ⊢
            split at hb'
            · simp at hb'
            · rename_i hk1
              split at hb'
              · simp at hb'
              · rename_i kb hkb
                split at hb'
                · simp at hb'
                · rename_i hk2
                  split at hb'
                  · simp at hb'
                  · rename_i vb hvb
                    simp [hk1, hk2, ih _ _ r' hkb hde.1, ih _ _ r' hvb hde.2]
                    simpa using hb'
          simp [this]
          simpa using h
end Radix.Sbor
