/-
C21 — nesting depth: the encoder and the decoder accept a value exactly when its depth is within
the limit, reject with `MaxDepthExceeded` otherwise, and their results do not depend on the limit.
-/
import RadixModel.Lemmas.Sbor

set_option linter.unusedSimpArgs false
set_option linter.unusedVariables false

namespace Radix.Sbor
open Radix.Generated

/-! ### nesting depth -/

theorem Value.depth_pos {X Y : Type} (v : Value X Y) : 1 ≤ v.depth := by
  cases v <;> simp [Value.depth] <;> omega

theorem depthList_le {X Y : Type} (vs : List (Value X Y)) (n : Nat) :
    depthList vs ≤ n ↔ ∀ v ∈ vs, v.depth ≤ n := by
  induction vs with
  | nil => simp [depthList]
  | cons v vs ih => simp [depthList, Nat.max_le, ih]

theorem depthEntries_le {X Y : Type} (es : List (Value X Y × Value X Y)) (n : Nat) :
    depthEntries es ≤ n ↔ ∀ e ∈ es, e.1.depth ≤ n ∧ e.2.depth ≤ n := by
  induction es with
  | nil => simp [depthEntries]
  | cons e es ih =>
    obtain ⟨k, v⟩ := e
    simp [depthEntries, Nat.max_le, ih, and_assoc]

theorem encMany_ok_elem {α : Type} (g : α → Except EErr Bytes) (as : List α) (bs : Bytes)
    (h : encMany g as = .ok bs) : ∀ a ∈ as, ∃ b, g a = .ok b := by
  induction as generalizing bs with
  | nil => simp
  | cons a as ih =>
    obtain ⟨b, t, hb, ht, rfl⟩ := (encMany_cons_ok g a as bs).1 h
    intro x hx
    simp at hx
    rcases hx with rfl | hx
    · exact ⟨b, hb⟩
    · exact ih t ht x hx

theorem encMany_congr_ok {α : Type} (g g' : α → Except EErr Bytes) (as : List α) (bs : Bytes)
    (hg : ∀ a ∈ as, ∀ b, g a = .ok b → g' a = .ok b) (h : encMany g as = .ok bs) :
    encMany g' as = .ok bs := by
  induction as generalizing bs with
  | nil => simpa [encMany] using h
  | cons a as ih =>
    obtain ⟨b, t, hb, ht, rfl⟩ := (encMany_cons_ok g a as _).1 h
    exact (encMany_cons_ok g' a as _).2 ⟨b, t, hg a (by simp) b hb,
      ih t (fun x hx => hg x (by simp [hx])) ht, rfl⟩

/-- If every element either encodes or fails with `E`, and some element fails, the sequence fails
with `E` (the first failure is reported). -/
theorem encMany_error_of {α : Type} (g : α → Except EErr Bytes) (E : EErr) (as : List α)
    (hall : ∀ a ∈ as, (∃ b, g a = .ok b) ∨ g a = .error E) (hex : ∃ a ∈ as, g a = .error E) :
    encMany g as = .error E := by
  induction as with
  | nil => simp at hex
  | cons a as ih =>
    simp only [encMany]
    rcases hall a (by simp) with ⟨b, hb⟩ | he
    · rw [hb]
      have : ∃ x ∈ as, g x = .error E := by
        obtain ⟨x, hx, hxe⟩ := hex
        simp at hx
        rcases hx with rfl | hx
        · rw [hb] at hxe; simp at hxe
        · exact ⟨x, hx, hxe⟩
      rw [ih (fun x hx => hall x (by simp [hx])) this]
    · rw [he]

/-- The encoder accepts only values within the depth allowance. -/
theorem encBody_depth {X Y : Type} [DecidableEq X] (F : Flavour X Y) (max rem : Nat) :
    ∀ (v : Value X Y) (b : Bytes), encBody F max rem v = .ok b → v.depth ≤ rem := by
  induction rem with
  | zero => intro v b h; simp [encBody] at h
  | succ rem ih =>
    intro v b h
    have hfield : ∀ fs : List (Value X Y), ∀ body, encMany (encField F (encBody F max rem)) fs = .ok body →
        depthList fs ≤ rem := by
      intro fs body hb
      rw [depthList_le]
      intro a ha
      obtain ⟨b', hb'⟩ := encMany_ok_elem _ _ _ hb a ha
      simp only [encField] at hb'
      split at hb'
      · simp at hb'
      · rename_i b'' hb''; exact ih a b'' hb''
    cases v with
    | bool _ => simp [Value.depth]
    | int _ _ => simp [Value.depth]
    | string _ => simp [Value.depth]
    | custom _ => simp [Value.depth]
    | enum d fs =>
      simp only [encBody] at h
      split at h
      · simp at h
      · split at h
        · simp at h
        · rename_i body hb
          have := hfield fs body hb
          simp [Value.depth]; omega
    | tuple fs =>
      simp only [encBody] at h
      split at h
      · simp at h
      · split at h
        · simp at h
        · rename_i body hb
          have := hfield fs body hb
          simp [Value.depth]; omega
    | array ek es =>
      simp only [encBody] at h
      split at h
      · simp at h
      · split at h
        · simp at h
        · rename_i body hb
          have : depthList es ≤ rem := by
            rw [depthList_le]
            intro a ha
            obtain ⟨b', hb'⟩ := encMany_ok_elem _ _ _ hb a ha
            simp only [encElem] at hb'
            split at hb'
            · simp at hb'
            · exact ih a b' hb'
          simp [Value.depth]; omega
    | map kk vk es =>
      simp only [encBody] at h
      split at h
      · simp at h
      · split at h
        · simp at h
        · rename_i body hb
          have : depthEntries es ≤ rem := by
            rw [depthEntries_le]
            intro e he
            obtain ⟨b', hb'⟩ := encMany_ok_elem _ _ _ hb e he
            simp only [encEntry] at hb'
            split at hb'
            · simp at hb'
            · split at hb'
              · simp at hb'
              · rename_i kb hkb
                split at hb'
                · simp at hb'
                · split at hb'
                  · simp at hb'
                  · rename_i vb hvb
                    exact ⟨ih _ _ hkb, ih _ _ hvb⟩
          simp [Value.depth]; omega

/-- The encoder's result does not depend on the limit as long as it covers the value's depth. -/
theorem encBody_of_depth {X Y : Type} [DecidableEq X] (F : Flavour X Y) (max max' rem : Nat) :
    ∀ (v : Value X Y) (b : Bytes) (rem' : Nat), encBody F max rem v = .ok b → v.depth ≤ rem' →
      encBody F max' rem' v = .ok b := by
  induction rem with
  | zero => intro v b rem' h; simp [encBody] at h
  | succ rem ih =>
    intro v b rem' h hd
    have hpos := v.depth_pos
    obtain ⟨r', rfl⟩ : ∃ r', rem' = r' + 1 := ⟨rem' - 1, by omega⟩
    cases v with
    | bool _ => simpa [encBody] using h
    | int _ _ => simpa [encBody] using h
    | string _ => simpa [encBody] using h
    | custom _ => simpa [encBody] using h
    | enum d fs =>
      simp only [Value.depth] at hd
      simp only [encBody] at h ⊢
      split at h
      · simp at h
      · rename_i sz hsz
        split at h
        · simp at h
        · rename_i body hb
          have : encMany (encField F (encBody F max' r')) fs = .ok body := by
            refine encMany_congr_ok _ _ fs body ?_ hb
            intro a ha b' hb'
            have hda : a.depth ≤ r' := (depthList_le fs r').1 (by omega) a ha
            simp only [encField] at hb' ⊢
            split at hb'
            · simp at hb'
            · rename_i b'' hb''
              rw [ih a b'' r' hb'' hda]
              exact hb'
          simp [this]
          simpa using h
    | tuple fs =>
      simp only [Value.depth] at hd
      simp only [encBody] at h ⊢
      split at h
      · simp at h
      · rename_i sz hsz
        split at h
        · simp at h
        · rename_i body hb
          have : encMany (encField F (encBody F max' r')) fs = .ok body := by
            refine encMany_congr_ok _ _ fs body ?_ hb
            intro a ha b' hb'
            have hda : a.depth ≤ r' := (depthList_le fs r').1 (by omega) a ha
            simp only [encField] at hb' ⊢
            split at hb'
            · simp at hb'
            · rename_i b'' hb''
              rw [ih a b'' r' hb'' hda]
              exact hb'
          simp [this]
          simpa using h
    | array ek es =>
      simp only [Value.depth] at hd
      simp only [encBody] at h ⊢
      split at h
      · simp at h
      · rename_i sz hsz
        split at h
        · simp at h
        · rename_i body hb
          have : encMany (encElem F ek (encBody F max' r')) es = .ok body := by
            refine encMany_congr_ok _ _ es body ?_ hb
            intro a ha b' hb'
            have hda : a.depth ≤ r' := (depthList_le es r').1 (by omega) a ha
            simp only [encElem] at hb' ⊢
            split at hb'
            · simp at hb'
            · rename_i hkind
              simp [hkind]
              exact ih a b' r' hb' hda
          simp [this]
          simpa using h
    | map kk vk es =>
      simp only [Value.depth] at hd
      simp only [encBody] at h ⊢
      split at h
      · simp at h
      · rename_i sz hsz
        split at h
        · simp at h
        · rename_i body hb
          have : encMany (encEntry F kk vk (encBody F max' r')) es = .ok body := by
            refine encMany_congr_ok _ _ es body ?_ hb
            intro e he b' hb'
            have hde := (depthEntries_le es r').1 (by omega) e he
            simp only [encEntry] at hb' ⊢
            split at hb'
            · simp at hb'
            · rename_i hk1
              split at hb'
              · simp at hb'
              · rename_i kb hkb
                split at hb'
                · simp at hb'
                · rename_i hk2
                  split at hb'
                  · simp at hb'
                  · rename_i vb hvb
                    simp [hk1, hk2, ih _ _ r' hkb hde.1, ih _ _ r' hvb hde.2]
                    simpa using hb'
          simp [this]
          simpa using h
theorem exists_deep_list {X Y : Type} (vs : List (Value X Y)) (n : Nat) (h : n < depthList vs) :
    ∃ v ∈ vs, n < v.depth := by
  apply Classical.byContradiction
  intro hc
  have : depthList vs ≤ n := (depthList_le vs n).2 (fun v hv => by
    have : ¬ (n < v.depth) := fun hlt => hc ⟨v, hv, hlt⟩
    omega)
  omega

theorem exists_deep_entries {X Y : Type} (es : List (Value X Y × Value X Y)) (n : Nat) (h : n < depthEntries es) :
    ∃ e ∈ es, n < e.1.depth ∨ n < e.2.depth := by
  apply Classical.byContradiction
  intro hc
  have : depthEntries es ≤ n := (depthEntries_le es n).2 (fun e he => by
    have : ¬ (n < e.1.depth ∨ n < e.2.depth) := fun hlt => hc ⟨e, he, hlt⟩
    omega)
  omega

/-- A value that is encodable at all is rejected with `MaxDepthExceeded` (and nothing else) when the
limit is below its depth. -/
theorem encBody_depth_fail {X Y : Type} [DecidableEq X] (F : Flavour X Y) (max max' rem : Nat) :
    ∀ (v : Value X Y) (b : Bytes) (rem' : Nat), encBody F max rem v = .ok b → rem' < v.depth →
      encBody F max' rem' v = .error (.maxDepthExceeded max') := by
  induction rem with
  | zero => intro v b rem' h; simp [encBody] at h
  | succ rem ih =>
    intro v b rem' h hd
    cases rem' with
    | zero => simp [encBody]
    | succ r' =>
      -- element-wise: each element either encodes (shallow) or fails with MaxDepthExceeded (deep)
      have hel : ∀ (a : Value X Y) (b' : Bytes), encBody F max rem a = .ok b' →
          (∃ b'', encBody F max' r' a = .ok b'') ∨ encBody F max' r' a = .error (.maxDepthExceeded max') := by
        intro a b' hb'
        by_cases hda : a.depth ≤ r'
        · exact .inl ⟨b', encBody_of_depth F max max' rem a b' r' hb' hda⟩
        · exact .inr (ih a b' r' hb' (by omega))
      cases v with
      | bool _ => simp [Value.depth] at hd
      | int _ _ => simp [Value.depth] at hd
      | string _ => simp [Value.depth] at hd
      | custom _ => simp [Value.depth] at hd
      | enum d fs =>
        simp only [Value.depth] at hd
        simp only [encBody] at h ⊢
        split at h
        · simp at h
        · rename_i sz hsz
          split at h
          · simp at h
          · rename_i body hb
            have : encMany (encField F (encBody F max' r')) fs = .error (.maxDepthExceeded max') := by
              apply encMany_error_of
              · intro a ha
                obtain ⟨b', hb'⟩ := encMany_ok_elem _ _ _ hb a ha
                simp only [encField] at hb' ⊢
                split at hb'
                · simp at hb'
                · rename_i b'' hb''
                  rcases hel a b'' hb'' with ⟨c, hc⟩ | he
                  · left; simp [hc]
                  · right; simp [he]
              · obtain ⟨a, ha, hda⟩ := exists_deep_list fs r' (by omega)
                obtain ⟨b', hb'⟩ := encMany_ok_elem _ _ _ hb a ha
                simp only [encField] at hb'
                split at hb'
                · simp at hb'
                · rename_i b'' hb''
                  exact ⟨a, ha, by simp [encField, ih a b'' r' hb'' hda]⟩
            simp [this]
      | tuple fs =>
        simp only [Value.depth] at hd
        simp only [encBody] at h ⊢
        split at h
        · simp at h
        · rename_i sz hsz
          split at h
          · simp at h
          · rename_i body hb
            have : encMany (encField F (encBody F max' r')) fs = .error (.maxDepthExceeded max') := by
              apply encMany_error_of
              · intro a ha
                obtain ⟨b', hb'⟩ := encMany_ok_elem _ _ _ hb a ha
                simp only [encField] at hb' ⊢
                split at hb'
                · simp at hb'
                · rename_i b'' hb''
                  rcases hel a b'' hb'' with ⟨c, hc⟩ | he
                  · left; simp [hc]
                  · right; simp [he]
              · obtain ⟨a, ha, hda⟩ := exists_deep_list fs r' (by omega)
                obtain ⟨b', hb'⟩ := encMany_ok_elem _ _ _ hb a ha
                simp only [encField] at hb'
                split at hb'
                · simp at hb'
                · rename_i b'' hb''
                  exact ⟨a, ha, by simp [encField, ih a b'' r' hb'' hda]⟩
            simp [this]
      | array ek es =>
        simp only [Value.depth] at hd
        simp only [encBody] at h ⊢
        split at h
        · simp at h
        · rename_i sz hsz
          split at h
          · simp at h
          · rename_i body hb
            have : encMany (encElem F ek (encBody F max' r')) es = .error (.maxDepthExceeded max') := by
              apply encMany_error_of
              · intro a ha
                obtain ⟨b', hb'⟩ := encMany_ok_elem _ _ _ hb a ha
                simp only [encElem] at hb' ⊢
                split at hb'
                · simp at hb'
                · rename_i hkind
                  simp only [hkind, if_false]
                  exact hel a b' hb'
              · obtain ⟨a, ha, hda⟩ := exists_deep_list es r' (by omega)
                obtain ⟨b', hb'⟩ := encMany_ok_elem _ _ _ hb a ha
                simp only [encElem] at hb'
                split at hb'
                · simp at hb'
                · rename_i hkind
                  exact ⟨a, ha, by simp only [encElem, hkind, if_false]; exact ih a b' r' hb' hda⟩
            simp [this]
      | map kk vk es =>
        simp only [Value.depth] at hd
        simp only [encBody] at h ⊢
        split at h
        · simp at h
        · rename_i sz hsz
          split at h
          · simp at h
          · rename_i body hb
            -- facts about one entry that encodes at `rem`
            have hentry : ∀ e ∈ es, e.1.kind F = kk ∧ e.2.kind F = vk ∧
                (∃ kb, encBody F max rem e.1 = .ok kb) ∧ (∃ vb, encBody F max rem e.2 = .ok vb) := by
              intro e he
              obtain ⟨b', hb'⟩ := encMany_ok_elem _ _ _ hb e he
              simp only [encEntry] at hb'
              split at hb'
              · simp at hb'
              · rename_i hk1
                split at hb'
                · simp at hb'
                · rename_i kb hkb
                  split at hb'
                  · simp at hb'
                  · rename_i hk2
                    split at hb'
                    · simp at hb'
                    · rename_i vb hvb
                      simp at hk1 hk2
                      exact ⟨hk1, hk2, ⟨kb, hkb⟩, ⟨vb, hvb⟩⟩
            have : encMany (encEntry F kk vk (encBody F max' r')) es = .error (.maxDepthExceeded max') := by
              apply encMany_error_of
              · intro e he
                obtain ⟨hk1, hk2, ⟨kb, hkb⟩, ⟨vb, hvb⟩⟩ := hentry e he
                simp only [encEntry, hk1, hk2, ne_eq, not_true_eq_false, if_false]
                rcases hel _ _ hkb with ⟨c, hc⟩ | he1
                · rcases hel _ _ hvb with ⟨c2, hc2⟩ | he2
                  · left; simp [hc, hc2]
                  · right; simp [hc, he2]
                · right; simp [he1]
              · obtain ⟨e, he, hde⟩ := exists_deep_entries es r' (by omega)
                obtain ⟨hk1, hk2, ⟨kb, hkb⟩, ⟨vb, hvb⟩⟩ := hentry e he
                refine ⟨e, he, ?_⟩
                simp only [encEntry, hk1, hk2, ne_eq, not_true_eq_false, if_false]
                rcases hel _ _ hkb with ⟨c, hc⟩ | he1
                · rcases hde with h1 | h2
                  · have := ih _ _ r' hkb h1
                    rw [hc] at this; simp at this
                  · simp [hc, ih _ _ r' hvb h2]
                · simp [he1]
            simp [this]
/-- The decoder accepts only values within the depth allowance. -/
theorem decBody_depth {X Y : Type} [DecidableEq X] (F : Flavour X Y) (wfc : Y → Prop) (hF : F.Lawful wfc)
    (max rem : Nat) (vk : VK X) (bs : Bytes) (v : Value X Y) (rest : Bytes)
    (h : decBody F max rem vk bs = .ok (v, rest)) : v.depth ≤ rem := by
  obtain ⟨_, _, body, hbody, _⟩ := encBody_decBody F wfc hF max max rem vk bs v rest h
  exact encBody_depth F max rem v body hbody

/-- If every element (given by its own encoding) either decodes or fails with `E`, and some element
fails, decoding the sequence fails with `E`. -/
theorem decMany_error_of {α : Type} (g : α → Except EErr Bytes) (f : Bytes → R α) (E : DErr) (as : List α)
    (hall : ∀ a ∈ as, ∀ b rest, g a = .ok b → f (b ++ rest) = .ok (a, rest) ∨ ∃ k, f (b ++ rest) = .error (E, k))
    (hex : ∃ a ∈ as, ∀ b rest, g a = .ok b → ∃ k, f (b ++ rest) = .error (E, k))
    (bs rest : Bytes) (h : encMany g as = .ok bs) :
    ∃ k, decMany f as.length (bs ++ rest) = .error (E, k) := by
  induction as generalizing bs with
  | nil => simp at hex
  | cons a as ih =>
    obtain ⟨b, t, hb, ht, rfl⟩ := (encMany_cons_ok g a as bs).1 h
    simp only [List.length_cons, decMany, List.append_assoc]
    rcases hall a (by simp) b (t ++ rest) hb with hok | ⟨k, hk⟩
    · rw [hok]
      have hex' : ∃ x ∈ as, ∀ b rest, g x = .ok b → ∃ k, f (b ++ rest) = .error (E, k) := by
        obtain ⟨x, hx, hxe⟩ := hex
        simp at hx
        rcases hx with rfl | hx
        · obtain ⟨k, hk⟩ := hxe b (t ++ rest) hb
          rw [hok] at hk; simp at hk
        · exact ⟨x, hx, hxe⟩
      obtain ⟨k, hk⟩ := ih (fun x hx => hall x (by simp [hx])) hex' t ht
      exact ⟨k, by simp [hk]⟩
    · exact ⟨k, by simp [hk]⟩

/-- The encoding of a value is rejected by the decoder with `MaxDepthExceeded` (and nothing else)
when the limit is below the value's depth. -/
theorem decBody_depth_fail {X Y : Type} [DecidableEq X] (F : Flavour X Y) (wfc : Y → Prop) (hF : F.Lawful wfc)
    (max max' rem : Nat) :
    ∀ (v : Value X Y) (body rest : Bytes) (rem' : Nat), v.WF F.utf8 wfc → encBody F max rem v = .ok body →
      rem' < v.depth → ∃ k, decBody F max' rem' (v.kind F) (body ++ rest) = .error (.maxDepthExceeded max', k) := by
  induction rem with
  | zero => intro v body rest rem' _ h; simp [encBody] at h
  | succ rem ih =>
    intro v body rest rem' hwf h hd
    have hk := hF.kinds
    cases rem' with
    | zero => exact ⟨(body ++ rest).length, by simp [decBody]⟩
    | succ r' =>
      -- one element, given its encoding at `rem`: decodes at `r'` if shallow, MaxDepthExceeded if deep
      have hel : ∀ (a : Value X Y) (b' rest' : Bytes), a.WF F.utf8 wfc → encBody F max rem a = .ok b' →
          decBody F max' r' (a.kind F) (b' ++ rest') = .ok (a, rest') ∨
          ∃ k, decBody F max' r' (a.kind F) (b' ++ rest') = .error (.maxDepthExceeded max', k) := by
        intro a b' rest' hwa hb'
        by_cases hda : a.depth ≤ r'
        · left
          exact decBody_encBody F wfc hF max' max' r' a b' rest' hwa (encBody_of_depth F max max' rem a b' r' hb' hda)
        · right
          exact ih a b' rest' r' hwa hb' (by omega)
      have hfield : ∀ fs : List (Value X Y), WFList F.utf8 wfc fs → r' < depthList fs → ∀ b rest',
          encMany (encField F (encBody F max rem)) fs = .ok b →
          ∃ k, decMany (decField F (decBody F max' r')) fs.length (b ++ rest') = .error (.maxDepthExceeded max', k) := by
        intro fs hwfs hdl b rest' hb
        have hw := (WFList_iff _ _ _).1 hwfs
        refine decMany_error_of _ _ _ fs ?_ ?_ b rest' hb
        · intro a ha b' rest'' hb'
          simp only [encField] at hb'
          split at hb'
          · simp at hb'
          · rename_i b'' hb''
            simp at hb'; subst hb'
            simp only [decField, List.cons_append, readValueKind_toU8 F.kc hk]
            exact hel a b'' rest'' (hw a ha) hb''
        · obtain ⟨a, ha, hda⟩ := exists_deep_list fs r' hdl
          refine ⟨a, ha, ?_⟩
          intro b' rest'' hb'
          simp only [encField] at hb'
          split at hb'
          · simp at hb'
          · rename_i b'' hb''
            simp at hb'; subst hb'
            simp only [decField, List.cons_append, readValueKind_toU8 F.kc hk]
            exact ih a b'' rest'' r' (hw a ha) hb'' hda
      cases v with
      | bool _ => simp [Value.depth] at hd
      | int _ _ => simp [Value.depth] at hd
      | string _ => simp [Value.depth] at hd
      | custom _ => simp [Value.depth] at hd
      | enum d fs =>
        simp only [Value.depth] at hd
        simp only [Value.WF] at hwf
        simp only [encBody] at h
        split at h
        · simp at h
        · rename_i sz hsz
          split at h
          · simp at h
          · rename_i b hb
            simp at h; subst h
            obtain ⟨hmax, rfl⟩ := (writeSize_ok_iff _ _).1 hsz
            obtain ⟨k, hk'⟩ := hfield fs hwf (by omega) b rest hb
            exact ⟨k, by simp [decBody, Value.kind, readByte, readSize_sizeBytes _ _ hmax, hk']⟩
      | tuple fs =>
        simp only [Value.depth] at hd
        simp only [Value.WF] at hwf
        simp only [encBody] at h
        split at h
        · simp at h
        · rename_i sz hsz
          split at h
          · simp at h
          · rename_i b hb
            simp at h; subst h
            obtain ⟨hmax, rfl⟩ := (writeSize_ok_iff _ _).1 hsz
            obtain ⟨k, hk'⟩ := hfield fs hwf (by omega) b rest hb
            exact ⟨k, by simp [decBody, Value.kind, readSize_sizeBytes _ _ hmax, hk']⟩
      | array ek es =>
        simp only [Value.depth] at hd
        simp only [Value.WF] at hwf
        simp only [encBody] at h
        split at h
        · simp at h
        · rename_i sz hsz
          split at h
          · simp at h
          · rename_i b hb
            simp at h; subst h
            obtain ⟨hmax, rfl⟩ := (writeSize_ok_iff _ _).1 hsz
            have hw := (WFList_iff _ _ _).1 hwf
            obtain ⟨k, hk'⟩ : ∃ k, decMany (decBody F max' r' ek) es.length (b ++ rest) = .error (.maxDepthExceeded max', k) := by
              refine decMany_error_of _ _ _ es ?_ ?_ b rest hb
              · intro a ha b' rest'' hb'
                simp only [encElem] at hb'
                split at hb'
                · simp at hb'
                · rename_i hkind
                  simp at hkind
                  rw [← hkind]
                  exact hel a b' rest'' (hw a ha) hb'
              · obtain ⟨a, ha, hda⟩ := exists_deep_list es r' (by omega)
                refine ⟨a, ha, ?_⟩
                intro b' rest'' hb'
                simp only [encElem] at hb'
                split at hb'
                · simp at hb'
                · rename_i hkind
                  simp at hkind
                  rw [← hkind]
                  exact ih a b' rest'' r' (hw a ha) hb' hda
            exact ⟨k, by simp [decBody, Value.kind, readValueKind_toU8 F.kc hk, readSize_sizeBytes _ _ hmax, hk']⟩
      | map kk vk es =>
        simp only [Value.depth] at hd
        simp only [Value.WF] at hwf
        simp only [encBody] at h
        split at h
        · simp at h
        · rename_i sz hsz
          split at h
          · simp at h
          · rename_i b hb
            simp at h; subst h
            obtain ⟨hmax, rfl⟩ := (writeSize_ok_iff _ _).1 hsz
            have hw := (WFEntries_iff _ _ _).1 hwf
            -- what `encEntry e = ok b'` says
            have hsplit : ∀ (e : Value X Y × Value X Y) (b' : Bytes), encEntry F kk vk (encBody F max rem) e = .ok b' →
                e.1.kind F = kk ∧ e.2.kind F = vk ∧ ∃ kb vb, encBody F max rem e.1 = .ok kb ∧
                  encBody F max rem e.2 = .ok vb ∧ b' = kb ++ vb := by
              intro e b' hb'
              simp only [encEntry] at hb'
              split at hb'
              · simp at hb'
              · rename_i hk1
                split at hb'
                · simp at hb'
                · rename_i kb hkb
                  split at hb'
                  · simp at hb'
                  · rename_i hk2
                    split at hb'
                    · simp at hb'
                    · rename_i vb hvb
                      simp at hk1 hk2 hb'
                      exact ⟨hk1, hk2, kb, vb, hkb, hvb, hb'.symm⟩
            obtain ⟨k, hk'⟩ : ∃ k, decMany (decEntry kk vk (decBody F max' r')) es.length (b ++ rest) =
                .error (.maxDepthExceeded max', k) := by
              refine decMany_error_of _ _ _ es ?_ ?_ b rest hb
              · intro e he b' rest'' hb'
                obtain ⟨hk1, hk2, kb, vb, hkb, hvb, rfl⟩ := hsplit e b' hb'
                have hwe := hw e he
                simp only [decEntry, List.append_assoc]
                rcases hel e.1 kb (vb ++ rest'') hwe.1 hkb with h1 | ⟨k, h1⟩
                · rw [hk1] at h1
                  rw [h1]
                  rcases hel e.2 vb rest'' hwe.2 hvb with h2 | ⟨k, h2⟩
                  · rw [hk2] at h2
                    left; simp [h2]
                  · rw [hk2] at h2
                    right; exact ⟨k, by simp [h2]⟩
                · rw [hk1] at h1
                  right; exact ⟨k, by simp [h1]⟩
              · obtain ⟨e, he, hde⟩ := exists_deep_entries es r' (by omega)
                refine ⟨e, he, ?_⟩
                intro b' rest'' hb'
                obtain ⟨hk1, hk2, kb, vb, hkb, hvb, rfl⟩ := hsplit e b' hb'
                have hwe := hw e he
                simp only [decEntry, List.append_assoc]
                rcases hel e.1 kb (vb ++ rest'') hwe.1 hkb with h1 | ⟨k, h1⟩
                · rw [hk1] at h1
                  rw [h1]
                  rcases hde with hd1 | hd2
                  · have hle := decBody_depth F wfc hF max' r' _ _ _ _ h1
                    omega
                  · obtain ⟨k, h2⟩ := ih e.2 vb rest'' r' hwe.2 hvb hd2
                    rw [hk2] at h2
                    exact ⟨k, by simp [h2]⟩
                · rw [hk1] at h1
                  exact ⟨k, by simp [h1]⟩
            exact ⟨k, by simp [decBody, Value.kind, readValueKind_toU8 F.kc hk, readSize_sizeBytes _ _ hmax, hk']⟩
end Radix.Sbor
