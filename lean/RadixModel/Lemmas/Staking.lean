/-
Helper lemmas for the staking model: floor specifications of Decimal mul/div on non-negative
operands, monotonicity of the sort prefix, membership facts of the stable insertion sort.
-/
import RadixModel.Model.Staking
import Mathlib.Tactic.Linarith
import Mathlib.Tactic.Ring
import Mathlib.Tactic.Positivity

namespace Radix.Staking

theorem ONE_pos : (0 : Int) < ONE := by unfold ONE; decide

theorem chk_eq {x y : Int} (h : chk x = some y) : y = x := by
  unfold chk at h; split at h
  · cases h; rfl
  · cases h

theorem tdiv_spec {a b : Int} (ha : 0 ≤ a) (hb : 0 < b) :
    a.tdiv b * b ≤ a ∧ a < (a.tdiv b + 1) * b ∧ 0 ≤ a.tdiv b := by
  rw [Int.tdiv_eq_ediv_of_nonneg ha]
  exact ⟨Int.ediv_mul_le a (ne_of_gt hb), Int.lt_ediv_add_one_mul_self a hb, Int.ediv_nonneg ha (le_of_lt hb)⟩

theorem dMul_spec {a b c : Int} (h : dMul a b = some c) (ha : 0 ≤ a) (hb : 0 ≤ b) :
    c * ONE ≤ a * b ∧ a * b < (c + 1) * ONE ∧ 0 ≤ c := by
  unfold dMul at h
  rw [chk_eq h]
  exact tdiv_spec (mul_nonneg ha hb) ONE_pos

theorem dDiv_spec {a b c : Int} (h : dDiv a b = some c) (ha : 0 ≤ a) (hb : 0 < b) :
    c * b ≤ a * ONE ∧ a * ONE < (c + 1) * b ∧ 0 ≤ c := by
  unfold dDiv at h
  split at h
  · cases h
  · rw [chk_eq h]
    exact tdiv_spec (mul_nonneg ha (le_of_lt ONE_pos)) hb

/-- units minted for `x` XRD at `S` units / `T` XRD (T > 0) are at most proportional -/
theorem stakeUnits_spec {x T S u : Int} (h : stakeUnits x T S = some u) (hx : 0 ≤ x) (hT : 0 < T) (hS : 0 ≤ S) :
    0 ≤ u ∧ u * T ≤ x * S := by
  have h1 := ONE_pos
  unfold stakeUnits at h
  simp only [ne_of_gt hT, ite_false] at h
  cases hq : dDiv S T with
  | none => rw [hq] at h; cases h
  | some q =>
    rw [hq] at h
    simp only [Option.bind] at h
    have d := dDiv_spec hq hS hT
    have m := dMul_spec h hx d.2.2
    refine ⟨m.2.2, ?_⟩
    have e1 : u * ONE * T ≤ x * q * T := mul_le_mul_of_nonneg_right m.1 (le_of_lt hT)
    have e2 : q * T * x ≤ S * ONE * x := mul_le_mul_of_nonneg_right d.1 hx
    have key : (u * T) * ONE ≤ (x * S) * ONE := by nlinarith
    exact le_of_mul_le_mul_right key h1

/-- the redemption value of `u` units is at most the proportional share of the stake vault -/
theorem redemption_spec {u T S y : Int} (h : redemption u T S = some y) (hu : 0 ≤ u) (hT : 0 ≤ T) (hS : 0 < S) :
    0 ≤ y ∧ y * S ≤ u * T := by
  have h1 := ONE_pos
  unfold redemption at h
  simp only [ne_of_gt hS, ite_false] at h
  cases hq : dDiv T S with
  | none => rw [hq] at h; cases h
  | some q =>
    rw [hq] at h
    simp only [Option.bind] at h
    have d := dDiv_spec hq hT hS
    have m := dMul_spec h hu d.2.2
    refine ⟨m.2.2, ?_⟩
    have e1 : y * ONE * S ≤ u * q * S := mul_le_mul_of_nonneg_right m.1 (le_of_lt hS)
    have e2 : q * S * u ≤ T * ONE * u := mul_le_mul_of_nonneg_right d.1 hu
    have key : (y * S) * ONE ≤ (u * T) * ONE := by nlinarith
    exact le_of_mul_le_mul_right key h1

theorem redemption_zero_supply {u T y : Int} (h : redemption u T 0 = some y) : y = 0 := by
  unfold redemption at h
  simp only [ite_true] at h
  cases h; rfl

/-! ### sorting -/

theorem mem_insertBy {α : Type} (le : α → α → Bool) (x y : α) : ∀ (l : List α), y ∈ insertBy le x l ↔ y = x ∨ y ∈ l
  | [] => by simp [insertBy]
  | z :: zs => by
    simp only [insertBy]
    split
    · simp
    · simp only [List.mem_cons, mem_insertBy le x y zs]
      constructor
      · rintro (h | h | h)
        · exact Or.inr (Or.inl h)
        · exact Or.inl h
        · exact Or.inr (Or.inr h)
      · rintro (h | h | h)
        · exact Or.inr (Or.inl h)
        · exact Or.inl h
        · exact Or.inr (Or.inr h)

theorem mem_sortBy {α : Type} (le : α → α → Bool) (y : α) : ∀ (l : List α), y ∈ sortBy le l ↔ y ∈ l
  | [] => by simp [sortBy]
  | x :: xs => by
    simp only [sortBy, mem_insertBy, mem_sortBy le y xs, List.mem_cons]

theorem length_insertBy {α : Type} (le : α → α → Bool) (x : α) : ∀ (l : List α), (insertBy le x l).length = l.length + 1
  | [] => rfl
  | z :: zs => by
    simp only [insertBy]
    split
    · simp
    · simp [length_insertBy le x zs]

theorem length_sortBy {α : Type} (le : α → α → Bool) : ∀ (l : List α), (sortBy le l).length = l.length
  | [] => rfl
  | x :: xs => by simp [sortBy, length_insertBy, length_sortBy le xs]

/-- sortedness w.r.t. a total, transitive `le` -/
def Sorted {α : Type} (le : α → α → Bool) : List α → Prop
  | [] => True
  | x :: xs => (∀ y ∈ xs, le x y = true) ∧ Sorted le xs

theorem sorted_insertBy {α : Type} (le : α → α → Bool) (total : ∀ a b, le a b = true ∨ le b a = true)
    (trans : ∀ a b c, le a b = true → le b c = true → le a c = true) (x : α) :
    ∀ (l : List α), Sorted le l → Sorted le (insertBy le x l)
  | [], _ => by simp [insertBy, Sorted]
  | z :: zs, h => by
    simp only [insertBy]
    split
    · rename_i hxz
      refine ⟨?_, h⟩
      intro y hy
      rcases List.mem_cons.mp hy with rfl | hy
      · exact hxz
      · exact trans _ _ _ hxz (h.1 y hy)
    · rename_i hxz
      have hzx : le z x = true := by
        rcases total x z with h' | h'
        · exact absurd h' hxz
        · exact h'
      refine ⟨?_, sorted_insertBy le total trans x zs h.2⟩
      intro y hy
      rcases (mem_insertBy le x y zs).mp hy with rfl | hy
      · exact hzx
      · exact h.1 y hy

theorem sorted_sortBy {α : Type} (le : α → α → Bool) (total : ∀ a b, le a b = true ∨ le b a = true)
    (trans : ∀ a b c, le a b = true → le b c = true → le a c = true) :
    ∀ (l : List α), Sorted le (sortBy le l)
  | [] => trivial
  | x :: xs => sorted_insertBy le total trans x _ (sorted_sortBy le total trans xs)

theorem sorted_take {α : Type} (le : α → α → Bool) : ∀ (n : Nat) (l : List α), Sorted le l → Sorted le (l.take n)
  | 0, _, _ => by simp [Sorted]
  | _ + 1, [], _ => by simp [Sorted]
  | n + 1, x :: xs, h => by
    simp only [List.take_succ_cons]
    exact ⟨fun y hy => h.1 y (List.mem_of_mem_take hy), sorted_take le n xs h.2⟩

/-- sortedness by stake only depends on the stakes -/
theorem sorted_map_stake : ∀ (l : List Entry), Sorted (fun a b => decide (a.stake ≥ b.stake)) l →
    Sorted (fun a b => decide (a.stake ≥ b.stake))
      (l.map ((fun (m : Member) => ({ pfx := 0, label := m.label, stake := m.stake } : Entry)) ∘
        (fun (e : Entry) => ({ label := e.label, stake := e.stake, made := 0, missed := 0 } : Member))))
  | [], _ => trivial
  | x :: xs, h => by
    refine ⟨?_, sorted_map_stake xs h.2⟩
    intro y hy
    simp only [List.mem_map, Function.comp] at hy
    obtain ⟨e, he, rfl⟩ := hy
    exact h.1 e he

end Radix.Staking
