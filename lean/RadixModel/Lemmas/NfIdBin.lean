/-
C28 — binary form of non-fungible local ids (`encode_body_common` / `decode_body_common`).
-/
import RadixModel.Model.AddrText
import RadixModel.Lemmas.NfIdText
import RadixModel.Lemmas.NfIdParse
namespace Radix.AddrText
open Radix.Bech32 (Str Bytes utf8Len u8len)

theorem writeSize_small : ∀ n, n ≤ MAXLEN → writeSize n = some [UInt8.ofNat n] := by decide

theorem small_facts : ∀ n, n ≤ MAXLEN →
    (UInt8.ofNat n).toNat = n ∧ (n &&& 0x7f) = n ∧ n < 0x80 := by decide

theorem readSize_small (n : Nat) (hn : n ≤ MAXLEN) (rest : Bytes) :
    readSize (UInt8.ofNat n :: rest) = .ok (n, rest) := by
  obtain ⟨h1, h2, h3⟩ := small_facts n hn
  simp [readSize, readSizeGo, h1, h2, h3]

theorem readSlice_append (a rest : Bytes) : readSlice (a ++ rest) a.length = .ok (a, rest) := by
  simp [readSlice]

theorem readSlice_append' (a rest : Bytes) (n : Nat) (h : a.length = n) :
    readSlice (a ++ rest) n = .ok (a, rest) := by
  subst h; exact readSlice_append a rest

theorem ascii_roundtrip (c : Char) (h : c.toNat < 128) :
    Char.ofNat (UInt8.ofNat c.toNat).toNat = c := by
  rw [UInt8.toNat_ofNat', Nat.mod_eq_of_lt (by omega), Char.ofNat_toNat]

theorem asciiChars_asciiBytes (cs : Str) (h : ∀ c ∈ cs, c.toNat < 128) : asciiChars (asciiBytes cs) = cs := by
  induction cs with
  | nil => rfl
  | cons x xs ih =>
    simp only [asciiBytes, asciiChars, List.map_cons, List.map_map] at ih ⊢
    rw [ascii_roundtrip x (h x (by simp))]
    congr 1
    exact ih (fun c hc => h c (by simp [hc]))

theorem asciiBytes_all (cs : Str) (h : ∀ c ∈ cs, c.toNat < 128) :
    (asciiBytes cs).all isIdByte = cs.all isIdChar := by
  induction cs with
  | nil => rfl
  | cons x xs ih =>
    simp only [asciiBytes, List.map_cons, List.all_cons, isIdByte] at ih ⊢
    rw [ascii_roundtrip x (h x (by simp)), ih (fun c hc => h c (by simp [hc]))]

theorem asciiBytes_length (cs : Str) : (asciiBytes cs).length = cs.length := by simp [asciiBytes]

theorem beNat_beBytes8 (n : Nat) (h : n < 2 ^ 64) : beNat (beBytes8 n) = n := by
  have hr : List.range 8 = [0, 1, 2, 3, 4, 5, 6, 7] := by decide
  simp only [beBytes8, beNat, hr, List.map_cons, List.map_nil, List.foldl_cons, List.foldl_nil,
    UInt8.toNat_ofNat', Nat.shiftRight_eq_div_pow]
  omega

theorem beBytes8_length (n : Nat) : (beBytes8 n).length = 8 := by simp [beBytes8]

/-- decode ∘ encode on every valid id, with arbitrary trailing bytes left untouched -/
theorem decodeBody_encodeBody (id : LocalId) (hv : id.Valid) :
    ∃ bs, encodeBody id = some bs ∧ ∀ rest, decodeBody (bs ++ rest) = .ok (id, rest) := by
  cases id with
  | str cs =>
    obtain ⟨h1, h2, h3⟩ := hv
    have hasc : ∀ c ∈ cs, c.toNat < 128 := fun c hc => (isIdChar_ascii (List.all_eq_true.1 h3 c hc)).1
    have hlen := utf8Len_ascii cs hasc
    refine ⟨0 :: ([UInt8.ofNat cs.length] ++ asciiBytes cs), by simp [encodeBody, hlen, writeSize_small _ h2], ?_⟩
    intro rest
    have hl := asciiBytes_length cs
    have e : (0 :: ([UInt8.ofNat cs.length] ++ asciiBytes cs)) ++ rest
        = 0 :: UInt8.ofNat cs.length :: (asciiBytes cs ++ rest) := by simp
    rw [e]
    simp only [decodeBody, if_true, readSize_small _ h2, readSlice_append' _ _ _ hl]
    have hne : ¬ cs.length = 0 := by omega
    have hle : ¬ cs.length > MAXLEN := by omega
    simp [hl, hne, hle, asciiBytes_all cs hasc, h3, asciiChars_asciiBytes cs hasc]
  | int n =>
    have hv' : n < 2 ^ 64 := hv
    refine ⟨1 :: beBytes8 n, rfl, ?_⟩
    intro rest
    have e : (1 :: beBytes8 n) ++ rest = 1 :: (beBytes8 n ++ rest) := rfl
    rw [e]
    have h10 : ¬ ((1 : UInt8) = 0) := by decide
    simp only [decodeBody, h10, if_false, if_true, readSlice_append' _ _ _ (beBytes8_length n), beNat_beBytes8 n hv']
  | bytes b =>
    obtain ⟨h1, h2⟩ := hv
    refine ⟨2 :: ([UInt8.ofNat b.length] ++ b), by simp [encodeBody, writeSize_small _ h2], ?_⟩
    intro rest
    have e : (2 :: ([UInt8.ofNat b.length] ++ b)) ++ rest = 2 :: UInt8.ofNat b.length :: (b ++ rest) := by simp
    rw [e]
    have h20 : ¬ ((2 : UInt8) = 0) := by decide
    have h21 : ¬ ((2 : UInt8) = 1) := by decide
    have hne : ¬ b.length = 0 := by omega
    have hle : ¬ b.length > MAXLEN := by omega
    simp only [decodeBody, h20, h21, if_false, if_true, readSize_small _ h2, readSlice_append]
    simp [validateBytes, hne, hle]
  | ruid b =>
    have hv' : b.length = 32 := hv
    refine ⟨3 :: b, rfl, ?_⟩
    intro rest
    have e : (3 :: b) ++ rest = 3 :: (b ++ rest) := rfl
    rw [e]
    have h30 : ¬ ((3 : UInt8) = 0) := by decide
    have h31 : ¬ ((3 : UInt8) = 1) := by decide
    have h32 : ¬ ((3 : UInt8) = 2) := by decide
    simp only [decodeBody, h30, h31, h32, if_false, if_true, readSlice_append' _ _ _ hv']

end Radix.AddrText
