/-
Helper lemmas for C03 / C04: sums over id lists under point updates, id-set removal.
-/
import RadixModel.Model.Ledger

namespace Radix.Ledger

theorem sumOn_congr {l : List Nat} {g g' : Nat → Int} (h : ∀ x ∈ l, g' x = g x) :
    sumOn l g' = sumOn l g := by
  induction l with
  | nil => rfl
  | cons a t ih =>
    simp only [sumOn]
    rw [h a (by simp), ih (fun x hx => h x (by simp [hx]))]

theorem sumOn_append (l1 l2 : List Nat) (g : Nat → Int) :
    sumOn (l1 ++ l2) g = sumOn l1 g + sumOn l2 g := by
  induction l1 with
  | nil => simp [sumOn]
  | cons a t ih => simp only [List.cons_append, sumOn, ih]; omega

theorem sumOn_single (k : Nat) (g : Nat → Int) : sumOn [k] g = g k := by simp [sumOn]

/-- `g'` differs from `g` at most at `k`, which is not in the list. -/
theorem sumOn_update_notMem {l : List Nat} {k : Nat} {g g' : Nat → Int} (hk : k ∉ l)
    (h : ∀ x, x ≠ k → g' x = g x) : sumOn l g' = sumOn l g :=
  sumOn_congr (fun x hx => h x (fun e => hk (e ▸ hx)))

/-- `g'` differs from `g` at most at `k`, which occurs exactly once. -/
theorem sumOn_update {l : List Nat} (hn : l.Nodup) {k : Nat} (hk : k ∈ l) {g g' : Nat → Int}
    (h : ∀ x, x ≠ k → g' x = g x) : sumOn l g' = sumOn l g + (g' k - g k) := by
  induction l with
  | nil => cases hk
  | cons a t ih =>
    simp only [sumOn]
    rw [List.nodup_cons] at hn
    by_cases hak : a = k
    · subst hak
      rw [sumOn_update_notMem hn.1 h]; omega
    · have hkt : k ∈ t := by
        rcases List.mem_cons.mp hk with e | e
        · exact absurd e.symm hak
        · exact e
      rw [ih hn.2 hkt, h a hak]; omega

theorem sumOn_zero {l : List Nat} {g : Nat → Int} (h : ∀ x ∈ l, g x = 0) : sumOn l g = 0 := by
  induction l with
  | nil => rfl
  | cons a t ih =>
    simp only [sumOn]
    rw [h a (by simp), ih (fun x hx => h x (by simp [hx]))]; rfl

theorem upd_same {β : Type} (f : Nat → β) (k : Nat) (v : β) : upd f k v k = v := by simp [upd]
theorem upd_other {β : Type} (f : Nat → β) {k x : Nat} (v : β) (h : x ≠ k) : upd f k v x = f x := by
  simp [upd, h]

/-- a successful `takeIds` removes exactly `ids.length` elements -/
theorem takeIds_length {l ids l' : List Nat} (h : takeIds l ids = some l') :
    (l'.length : Int) + ids.length = l.length := by
  induction ids generalizing l with
  | nil => simp [takeIds] at h; subst h; simp
  | cons i rest ih =>
    simp only [takeIds] at h
    split at h
    · rename_i hc
      have hm : i ∈ l := by simpa using hc
      have := ih h
      have hl : (l.erase i).length = l.length - 1 := List.length_erase_of_mem hm
      have hpos : 0 < l.length := List.length_pos_of_mem hm
      simp only [List.length_cons]
      omega
    · cases h

theorem sumLocks_append (l1 l2 : List Lock) : sumLocks (l1 ++ l2) = sumLocks l1 + sumLocks l2 := by
  induction l1 with
  | nil => simp [sumLocks]
  | cons a t ih => simp only [List.cons_append, sumLocks, ih]; omega

theorem sumLocks_reverse (l : List Lock) : sumLocks l.reverse = sumLocks l := by
  induction l with
  | nil => rfl
  | cons a t ih => simp only [List.reverse_cons, sumLocks_append, sumLocks, ih]; omega

end Radix.Ledger
