/-
C36 — helper lemmas about `RadixModel/Model/StaticInterp.lean`:
frame/characterisation lemmas of every interpreter operation, the simulation relation between the
interpreter state and the run-time id tables, and the proof-lock counting invariant.
-/
import RadixModel.Model.StaticInterp

namespace Radix.StaticInterp

@[simp] theorem upd_same {β : Type} (f : Nat → β) (a : Nat) (b : β) : upd f a b a = b := by simp [upd]
theorem upd_ne {β : Type} (f : Nat → β) {a x : Nat} (b : β) (h : x ≠ a) : upd f a b x = f x := by
  simp [upd, h]

/-! ### `get*` -/

theorem getBucket_ok {s : St} {b : Nat} : getBucket s b = .ok () ↔ b < s.nB ∧ s.bCons b = false := by
  unfold getBucket; by_cases h1 : b < s.nB <;> by_cases h2 : s.bCons b = true <;> simp [h1, h2]

theorem getProof_ok {s : St} {p : Nat} : getProof s p = .ok () ↔ p < s.nP ∧ s.pCons p = false := by
  unfold getProof; by_cases h1 : p < s.nP <;> by_cases h2 : s.pCons p = true <;> simp [h1, h2]

theorem getReservation_ok {s : St} {x : Nat} :
    getReservation s x = .ok () ↔ x < s.nR ∧ s.rCons x = false := by
  unfold getReservation; by_cases h1 : x < s.nR <;> by_cases h2 : s.rCons x = true <;> simp [h1, h2]

theorem getNamed_ok {s : St} {a : Nat} : getNamed s a = .ok () ↔ a < s.nA := by
  unfold getNamed; by_cases h1 : a < s.nA <;> simp [h1]

/-! ### characterisation of successful operations -/

theorem consumeBucket_ok {r : Rules} {s s' : St} {b : Nat} (h : consumeBucket r s b = .ok s') :
    b < s.nB ∧ s.bCons b = false ∧ (r.proofLock = true → s.bLocks b = 0) ∧
    s' = { s with bCons := upd s.bCons b true } := by
  unfold consumeBucket at h
  split at h
  · cases h
  · rename_i hg
    have := getBucket_ok.mp hg
    split at h
    · cases h
    · rename_i hl
      injection h with h
      refine ⟨this.1, this.2, ?_, h.symm⟩
      intro hp; simp [hp] at hl; omega

theorem newProof_ok {s s' : St} {src : Option Nat} (h : newProof s src = .ok s') :
    (∀ b, src = some b → b < s.nB ∧ s.bCons b = false) ∧
    s'.nB = s.nB ∧ s'.bCons = s.bCons ∧ s'.bFung = s.bFung ∧
    s'.bLocks = (match src with | some b => upd s.bLocks b (s.bLocks b + 1) | none => s.bLocks) ∧
    s'.nP = s.nP + 1 ∧ s'.pSrc = upd s.pSrc s.nP src ∧ s'.pCons = upd s.pCons s.nP false ∧
    s'.nR = s.nR ∧ s'.rCons = s.rCons ∧ s'.nA = s.nA ∧ s'.nI = s.nI ∧ s'.blobs = s.blobs ∧
    s'.pending = s.pending := by
  unfold newProof at h
  cases src with
  | none => injection h with h; subst h; simp
  | some b =>
    simp only at h
    split at h
    · cases h
    · rename_i hg
      have := getBucket_ok.mp hg
      injection h with h; subst h; simp [this]

theorem consumeProof_ok {s s' : St} {p : Nat} (h : consumeProof s p = .ok s') :
    p < s.nP ∧ s.pCons p = false ∧
    s'.nB = s.nB ∧ s'.bCons = s.bCons ∧ s'.bFung = s.bFung ∧
    (match s.pSrc p with
     | some b => b < s.nB ∧ s.bCons b = false ∧ s.bLocks b ≠ 0 ∧ s'.bLocks = upd s.bLocks b (s.bLocks b - 1)
     | none => s'.bLocks = s.bLocks) ∧
    s'.nP = s.nP ∧ s'.pSrc = s.pSrc ∧ s'.pCons = upd s.pCons p true ∧
    s'.nR = s.nR ∧ s'.rCons = s.rCons ∧ s'.nA = s.nA ∧ s'.nI = s.nI ∧ s'.blobs = s.blobs ∧
    s'.pending = s.pending := by
  unfold consumeProof at h
  split at h
  · cases h
  · rename_i hg
    have hp := getProof_ok.mp hg
    simp only at h
    cases hsrc : s.pSrc p with
    | none => rw [hsrc] at h; injection h with h; subst h; simp [hp]
    | some b =>
      rw [hsrc] at h
      simp only at h
      split at h
      · cases h
      · rename_i hgb
        have hb := getBucket_ok.mp hgb
        simp only at hb
        split at h
        · cases h
        · rename_i hz
          injection h with h; subst h
          simp [hp, hb, hz]

theorem consumeReservation_ok {s s' : St} {x : Nat} (h : consumeReservation s x = .ok s') :
    x < s.nR ∧ s.rCons x = false ∧ s' = { s with rCons := upd s.rCons x true } := by
  unfold consumeReservation at h
  split at h
  · cases h
  · rename_i hg
    have := getReservation_ok.mp hg
    injection h with h
    exact ⟨this.1, this.2, h.symm⟩


/-! ### simulation relation: interpreter state ↔ run-time id tables -/

structure Rel (s : St) (t : RT) : Prop where
  nB : t.nB = s.nB
  liveB : ∀ i, t.liveB i = (decide (i < s.nB) && !s.bCons i)
  nP : t.nP = s.nP
  liveP : ∀ i, t.liveP i = (decide (i < s.nP) && !s.pCons i)
  nR : t.nR = s.nR
  liveR : ∀ i, t.liveR i = (decide (i < s.nR) && !s.rCons i)
  nA : t.nA = s.nA
  blobs : ∀ h, s.blobs.contains h = true → t.blobs.contains h = true

theorem Rel.getBucket {s : St} {t : RT} (h : Rel s t) {b : Nat} (hb : b < s.nB) (hc : s.bCons b = false) :
    t.liveB b = true := by
  rw [h.liveB]; simp [hb, hc]

theorem rel_newBucket {s : St} {t : RT} (h : Rel s t) (f : Bool) : Rel (newBucket s f) t.newBucket := by
  refine ⟨?_, ?_, h.nP, h.liveP, h.nR, h.liveR, h.nA, h.blobs⟩
  · simp [newBucket, RT.newBucket, h.nB]
  · intro i
    simp only [newBucket, RT.newBucket, h.nB, upd]
    by_cases hi : i = s.nB
    · subst hi; simp
    · simp only [hi, if_false, h.liveB]
      by_cases h2 : i < s.nB
      · have : i < s.nB + 1 := by omega
        simp [h2, this]
      · have : ¬ i < s.nB + 1 := by omega
        simp [h2, this]

theorem rel_consumeBucket {r : Rules} {s s' : St} {t : RT} {b : Nat} (h : Rel s t)
    (hc : consumeBucket r s b = .ok s') : ∃ t', t.takeBucket b = .ok t' ∧ Rel s' t' := by
  obtain ⟨hb, hcons, _, rfl⟩ := consumeBucket_ok hc
  have hl := h.getBucket hb hcons
  refine ⟨{ t with liveB := upd t.liveB b false }, by simp [RT.takeBucket, hl], ?_⟩
  refine ⟨h.nB, ?_, h.nP, h.liveP, h.nR, h.liveR, h.nA, h.blobs⟩
  intro i
  simp only [upd]
  by_cases hi : i = b
  · subst hi; simp
  · simp [hi, h.liveB]

theorem rel_newProof {s s' : St} {t : RT} {src : Option Nat} (h : Rel s t)
    (hc : newProof s src = .ok s') :
    (∀ b, src = some b → t.liveB b = true) ∧ Rel s' t.newProof := by
  have k := newProof_ok hc
  obtain ⟨k1, k2, k3, _, _, k6, _, k8, k9, k10, k11, _, k13, _⟩ := k
  refine ⟨fun b hb => h.getBucket (k1 b hb).1 (k1 b hb).2, ?_⟩
  refine ⟨by simp [RT.newProof, h.nB, k2], ?_, by simp [RT.newProof, h.nP, k6], ?_,
          by simp [RT.newProof, h.nR, k9], ?_, by simp [RT.newProof, h.nA, k11], ?_⟩
  · intro i; simp [RT.newProof, h.liveB, k2, k3]
  · intro i
    simp only [RT.newProof, h.nP, k6, k8, upd]
    by_cases hi : i = s.nP
    · subst hi; simp
    · simp only [hi, if_false, h.liveP]
      by_cases h2 : i < s.nP
      · have : i < s.nP + 1 := by omega
        simp [h2, this]
      · have : ¬ i < s.nP + 1 := by omega
        simp [h2, this]
  · intro i; simp [RT.newProof, h.liveR, k9, k10]
  · intro x hx; rw [k13] at hx; simpa [RT.newProof] using h.blobs x hx

theorem rel_consumeProof {s s' : St} {t : RT} {p : Nat} (h : Rel s t)
    (hc : consumeProof s p = .ok s') : ∃ t', t.takeProof p = .ok t' ∧ Rel s' t' := by
  obtain ⟨hp, hcons, k2, k3, _, _, k6, _, k8, k9, k10, k11, _, k13, _⟩ := consumeProof_ok hc
  have hl : t.liveP p = true := by rw [h.liveP]; simp [hp, hcons]
  refine ⟨{ t with liveP := upd t.liveP p false }, by simp [RT.takeProof, hl], ?_⟩
  refine ⟨by simp [h.nB, k2], ?_, by simp [h.nP, k6], ?_, by simp [h.nR, k9], ?_, by simp [h.nA, k11], ?_⟩
  · intro i; simp [h.liveB, k2, k3]
  · intro i
    simp only [upd, k6, k8]
    by_cases hi : i = p
    · subst hi; simp
    · simp [hi, h.liveP]
  · intro i; simp [h.liveR, k9, k10]
  · intro x hx; rw [k13] at hx; exact h.blobs x hx

theorem rel_cloneProof {s s' : St} {t : RT} {p : Nat} (h : Rel s t)
    (hc : cloneProof s p = .ok s') : t.liveP p = true ∧ Rel s' t.newProof := by
  unfold cloneProof at hc
  split at hc
  · cases hc
  · rename_i hg
    have hp := getProof_ok.mp hg
    refine ⟨by rw [h.liveP]; simp [hp], (rel_newProof h hc).2⟩

theorem rel_consumeReservation {s s' : St} {t : RT} {x : Nat} (h : Rel s t)
    (hc : consumeReservation s x = .ok s') :
    t.liveR x = true ∧ Rel s' { t with liveR := upd t.liveR x false } := by
  obtain ⟨hx, hcons, rfl⟩ := consumeReservation_ok hc
  refine ⟨by rw [h.liveR]; simp [hx, hcons], ?_⟩
  refine ⟨h.nB, h.liveB, h.nP, h.liveP, h.nR, ?_, h.nA, h.blobs⟩
  intro i
  simp only [upd]
  by_cases hi : i = x
  · subst hi; simp
  · simp [hi, h.liveR]

/-- frame of `dropRange`: only `pCons` (on the range) and `bLocks` change -/
theorem dropRange_ok : ∀ (n i : Nat) {s s' : St}, dropRange n i s = .ok s' →
    s'.nB = s.nB ∧ s'.bCons = s.bCons ∧ s'.bFung = s.bFung ∧ s'.nP = s.nP ∧ s'.pSrc = s.pSrc ∧
    (∀ j, s'.pCons j = (s.pCons j || (decide (i ≤ j) && decide (j < i + n)))) ∧
    s'.nR = s.nR ∧ s'.rCons = s.rCons ∧ s'.nA = s.nA ∧ s'.nI = s.nI ∧ s'.blobs = s.blobs ∧
    s'.pending = s.pending := by
  intro n
  induction n with
  | zero =>
    intro i s s' h
    simp only [dropRange] at h
    injection h with h; subst h
    simp only [true_and, Nat.add_zero, and_true]
    intro j
    have : (decide (i ≤ j) && decide (j < i)) = false := by
      rw [Bool.eq_false_iff]; simp only [ne_eq, Bool.and_eq_true, decide_eq_true_eq]; omega
    simp [this]
  | succ n ih =>
    intro i s s' h
    simp only [dropRange] at h
    split at h
    · rename_i hci
      obtain ⟨a1, a2, a3, a4, a5, a6, a7, a8, a9, a10, a11, a12⟩ := ih (i + 1) h
      refine ⟨a1, a2, a3, a4, a5, ?_, a7, a8, a9, a10, a11, a12⟩
      intro j
      rw [a6 j]
      by_cases hj : j = i
      · subst hj; simp [hci]
      · have e : (decide (i + 1 ≤ j) && decide (j < i + 1 + n)) = (decide (i ≤ j) && decide (j < i + (n + 1))) := by
          rw [Bool.eq_iff_iff]; simp only [Bool.and_eq_true, decide_eq_true_eq]; omega
        rw [e]
    · rename_i hci
      split at h
      · cases h
      · rename_i s1 hcp
        obtain ⟨_, _, k2, k3, k4, _, k6, k7, k8, k9, k10, k11, k12, k13, k14⟩ := consumeProof_ok hcp
        obtain ⟨a1, a2, a3, a4, a5, a6, a7, a8, a9, a10, a11, a12⟩ := ih (i + 1) h
        refine ⟨by rw [a1, k2], by rw [a2, k3], by rw [a3, k4], by rw [a4, k6], by rw [a5, k7], ?_,
                by rw [a7, k9], by rw [a8, k10], by rw [a9, k11], by rw [a10, k12], by rw [a11, k13],
                by rw [a12, k14]⟩
        intro j
        rw [a6 j, k8]
        simp only [upd]
        by_cases hj : j = i
        · subst hj; simp
        · have e : (decide (i + 1 ≤ j) && decide (j < i + 1 + n)) = (decide (i ≤ j) && decide (j < i + (n + 1))) := by
            rw [Bool.eq_iff_iff]; simp only [Bool.and_eq_true, decide_eq_true_eq]; omega
          rw [e]; simp [hj]

theorem rel_dropAll {s s' : St} {t : RT} (h : Rel s t) (hc : dropRange s.nP 0 s = .ok s') :
    Rel s' { t with liveP := fun _ => false } := by
  obtain ⟨a1, a2, _, a4, _, a6, a7, a8, a9, _, a11, _⟩ := dropRange_ok _ _ hc
  refine ⟨by simp [h.nB, a1], ?_, by simp [h.nP, a4], ?_, by simp [h.nR, a7], ?_, by simp [h.nA, a9], ?_⟩
  · intro i; simp [h.liveB, a1, a2]
  · intro i
    rw [a6 i, a4]
    by_cases hi : i < s.nP <;> simp [hi]
  · intro i; simp [h.liveR, a7, a8]
  · intro x hx; rw [a11] at hx; exact h.blobs x hx


/-! ### simulation of one instruction and of the whole run -/

def Effect.isBucketAssertion : Effect → Bool
  | .assertion (.bucketContents _ _ _) => true
  | _ => false

/-- the only run-time id errors an accepted manifest can meet, and the (non-default) rule that lets
them through: a named address used as call target without `validate_dynamic_address_in_command_part`,
a blob reference without `validate_blob_refs`, the bucket of `ASSERT_BUCKET_CONTENTS` without
`validate_resource_assertions`. -/
def AllowedAt (r : Rules) (e : Effect) : RtErr → Prop
  | .addressNotFound _ => r.dynAddr = false ∧ e.isInvocation = true
  | .blobNotFound _ => r.blobRefs = false ∧ e.isInvocation = true
  | .bucketNotFound _ => r.resAssert = false ∧ e.isBucketAssertion = true
  | _ => False

theorem args_sim (r : Rules) (y : Bool) : ∀ (args : List ArgRef) {s s' : St} {t : RT}, Rel s t →
    handleArgs r y s args = .ok s' →
    (∃ t', t.args args = .ok t' ∧ Rel s' t') ∨
    (∃ h, t.args args = .error (.blobNotFound h) ∧ r.blobRefs = false) := by
  intro args
  induction args with
  | nil => intro s s' t h hc; simp only [handleArgs] at hc; injection hc with hc; subst hc; exact .inl ⟨t, rfl, h⟩
  | cons a rest ih =>
    intro s s' t h hc
    simp only [handleArgs] at hc
    split at hc
    · cases hc
    · rename_i s1 ha
      -- one argument
      have step1 : (∃ t1, t.arg a = .ok t1 ∧ Rel s1 t1) ∨
          (∃ x, t.arg a = .error (.blobNotFound x) ∧ r.blobRefs = false) := by
        cases a with
        | bucket b =>
          obtain ⟨t1, h1, h2⟩ := rel_consumeBucket h ha
          exact .inl ⟨t1, by simpa [RT.arg] using h1, h2⟩
        | proof p =>
          simp only [handleArg] at ha
          split at ha
          · cases ha
          · obtain ⟨t1, h1, h2⟩ := rel_consumeProof h ha
            exact .inl ⟨t1, by simpa [RT.arg] using h1, h2⟩
        | reservation x =>
          obtain ⟨h1, h2⟩ := rel_consumeReservation h ha
          exact .inl ⟨_, by simp [RT.arg, h1], h2⟩
        | named n =>
          simp only [handleArg] at ha
          split at ha
          · cases ha
          · rename_i hg
            injection ha with ha; subst ha
            have := getNamed_ok.mp hg
            exact .inl ⟨t, by simp [RT.arg, h.nA, this], h⟩
        | «static» => simp only [handleArg] at ha; injection ha with ha; subst ha; exact .inl ⟨t, rfl, h⟩
        | expr => simp only [handleArg] at ha; injection ha with ha; subst ha; exact .inl ⟨t, rfl, h⟩
        | other => simp only [handleArg] at ha; injection ha with ha; subst ha; exact .inl ⟨t, rfl, h⟩
        | blob x =>
          simp only [handleArg] at ha
          split at ha
          · cases ha
          · rename_i hb
            injection ha with ha; subst ha
            by_cases hx : t.blobs.contains x = true
            · exact .inl ⟨t, by simp only [RT.arg, hx, if_true], h⟩
            · refine .inr ⟨x, by simp only [RT.arg, hx]; rfl, ?_⟩
              by_cases hr : r.blobRefs = true
              · exfalso
                cases hsb : s.blobs.contains x with
                | true => exact hx (h.blobs x hsb)
                | false =>
                  simp [hr] at hb
                  simp only [List.contains_eq_mem, decide_eq_false_iff_not] at hsb
                  exact hsb hb
              · simpa using hr
      rcases step1 with ⟨t1, h1, h2⟩ | ⟨x, h1, h2⟩
      · rcases ih h2 hc with ⟨t', k1, k2⟩ | ⟨x, k1, k2⟩
        · exact .inl ⟨t', by simp [RT.args, h1, k1], k2⟩
        · exact .inr ⟨x, by simp [RT.args, h1, k1], k2⟩
      · exact .inr ⟨x, by simp [RT.args, h1], h2⟩

theorem step_sim {r : Rules} {c : Ctx} {s s' : St} {t : RT} {e : Effect} (h : Rel s t)
    (hc : step r c s e = .ok s') :
    (∃ t', t.step e = .ok t' ∧ Rel s' t') ∨ (∃ err, t.step e = .error err ∧ AllowedAt r e err) := by
  unfold step at hc
  cases hn : nextReq s e with
  | error er => rw [hn] at hc; cases hc
  | ok s0 =>
    rw [hn] at hc
    simp only at hc
    -- `nextReq` only touches `pending`
    have h0 : Rel s0 t := by
      unfold nextReq at hn
      split at hn
      · split at hn
        · injection hn with hn; subst hn; exact ⟨h.nB, h.liveB, h.nP, h.liveP, h.nR, h.liveR, h.nA, h.blobs⟩
        · cases hn
      · injection hn with hn; subst hn; exact h
    cases e with
    | createBucket f =>
      injection hc with hc; subst hc
      exact .inl ⟨_, rfl, rel_newBucket h0 f⟩
    | createProof src =>
      obtain ⟨k1, k2⟩ := rel_newProof h0 hc
      cases src with
      | none => exact .inl ⟨_, rfl, k2⟩
      | some b => exact .inl ⟨_, by simp [RT.step, RT.getBucket, k1 b rfl], k2⟩
    | consumeBucket b =>
      obtain ⟨t', k1, k2⟩ := rel_consumeBucket h0 hc
      exact .inl ⟨t', by simpa [RT.step] using k1, k2⟩
    | consumeProof p =>
      obtain ⟨t', k1, k2⟩ := rel_consumeProof h0 hc
      exact .inl ⟨t', by simpa [RT.step] using k1, k2⟩
    | cloneProof p =>
      obtain ⟨k1, k2⟩ := rel_cloneProof h0 hc
      exact .inl ⟨_, by simp [RT.step, k1], k2⟩
    | dropManyProofs named =>
      cases named with
      | false => simp only [Bool.false_eq_true, if_false] at hc; injection hc with hc; subst hc; exact .inl ⟨t, rfl, h0⟩
      | true => simp only [if_true] at hc; exact .inl ⟨_, rfl, rel_dropAll h0 hc⟩
    | createAddressAndReservation =>
      injection hc with hc; subst hc
      refine .inl ⟨_, rfl, ?_⟩
      refine ⟨h0.nB, h0.liveB, h0.nP, h0.liveP, by simp [newReservation, h0.nR], ?_, by simp [newReservation, h0.nA], h0.blobs⟩
      intro i
      simp only [newReservation, upd, h0.nR]
      by_cases hi : i = s0.nR
      · subst hi; simp
      · simp only [hi, if_false, h0.liveR]
        by_cases h2 : i < s0.nR
        · have : i < s0.nR + 1 := by omega
          simp [h2, this]
        · have : ¬ i < s0.nR + 1 := by omega
          simp [h2, this]
    | verification =>
      dsimp only at hc
      split at hc
      · cases hc
      · injection hc with hc; subst hc; exact .inl ⟨t, rfl, h0⟩
    | assertion a =>
      unfold handleAssertion at hc
      by_cases hr : r.resAssert = true
      · simp only [hr, if_true] at hc
        cases a with
        | worktopNonZero => injection hc with hc; subst hc; exact .inl ⟨t, rfl, h0⟩
        | worktopAtLeast n =>
          dsimp only at hc
          split at hc
          · cases hc
          · injection hc with hc; subst hc; exact .inl ⟨t, rfl, h0⟩
        | worktopAtLeastNF n =>
          dsimp only at hc
          split at hc
          · cases hc
          · injection hc with hc; subst hc; exact .inl ⟨t, rfl, h0⟩
        | worktopSet n =>
          dsimp only at hc
          split at hc
          · cases hc
          · injection hc with hc; subst hc; exact .inl ⟨t, rfl, h0⟩
        | nextCall n =>
          dsimp only at hc
          split at hc
          · cases hc
          · injection hc with hc; subst hc
            exact .inl ⟨t, rfl, ⟨h0.nB, h0.liveB, h0.nP, h0.liveP, h0.nR, h0.liveR, h0.nA, h0.blobs⟩⟩
        | bucketContents b vf vnf =>
          dsimp only at hc
          cases hg : getBucket s0 b with
          | error er => rw [hg] at hc; cases hc
          | ok u =>
            rw [hg] at hc
            dsimp only at hc
            have hb := getBucket_ok.mp hg
            by_cases hv : (!(if s0.bFung b = true then vf else vnf)) = true
            · rw [if_pos hv] at hc; cases hc
            · rw [if_neg hv] at hc
              injection hc with hc; subst hc
              exact .inl ⟨t, by simp [RT.step, RT.getBucket, h0.getBucket hb.1 hb.2], h0⟩
      · simp only [hr, if_false] at hc
        injection hc with hc; subst hc
        have hr' : r.resAssert = false := by simpa using hr
        cases a with
        | bucketContents b vf vnf =>
          by_cases hl : t.liveB b = true
          · exact .inl ⟨t, by simp [RT.step, RT.getBucket, hl], h0⟩
          · exact .inr ⟨.bucketNotFound b, by simp [RT.step, RT.getBucket, hl], hr', rfl⟩
        | _ => exact .inl ⟨t, rfl, h0⟩
    | invocation k d args =>
      dsimp only at hc
      unfold handleInvocation at hc
      split at hc
      · cases hc
      · rename_i y hy
        split at hc
        · cases hc
        · -- target
          have htgt : t.target k = .ok () ∨ (∃ a, t.target k = .error (.addressNotFound a) ∧ r.dynAddr = false) := by
            cases k with
            | method n =>
              cases n with
              | none => exact .inl rfl
              | some a =>
                by_cases ha : a < t.nA
                · exact .inl (by simp [RT.target, ha])
                · refine .inr ⟨a, by simp [RT.target, ha], ?_⟩
                  by_cases hd : r.dynAddr = true
                  · exfalso
                    simp only [invTarget, hd, if_true] at hy
                    split at hy
                    · cases hy
                    · rename_i hg; exact ha (by rw [h0.nA]; exact getNamed_ok.mp hg)
                  · simpa using hd
            | function n =>
              cases n with
              | none => exact .inl rfl
              | some a =>
                by_cases ha : a < t.nA
                · exact .inl (by simp [RT.target, ha])
                · refine .inr ⟨a, by simp [RT.target, ha], ?_⟩
                  by_cases hd : r.dynAddr = true
                  · exfalso
                    simp only [invTarget, hd, if_true] at hy
                    split at hy
                    · cases hy
                    · rename_i hg; exact ha (by rw [h0.nA]; exact getNamed_ok.mp hg)
                  · simpa using hd
            | direct => exact .inl rfl
            | yieldParent => exact .inl rfl
            | yieldChild i => exact .inl rfl
          rcases htgt with ht | ⟨a, ht, hd⟩
          · rcases args_sim r y args h0 hc with ⟨t', k1, k2⟩ | ⟨x, k1, k2⟩
            · exact .inl ⟨t', by simp [RT.step, ht, k1], k2⟩
            · exact .inr ⟨.blobNotFound x, by simp [RT.step, ht, k1], ⟨k2, rfl⟩⟩
          · exact .inr ⟨.addressNotFound a, by simp [RT.step, ht], ⟨hd, rfl⟩⟩

theorem run_sim {r : Rules} {c : Ctx} : ∀ (effects : List Effect) (i : Nat) {s s' : St} {t : RT}, Rel s t →
    runFrom r c i s effects = .ok s' →
    (∃ t', t.run effects = .ok t' ∧ Rel s' t') ∨
    (∃ err e, t.run effects = .error err ∧ e ∈ effects ∧ AllowedAt r e err) := by
  intro effects
  induction effects with
  | nil => intro i s s' t h hc; simp only [runFrom] at hc; injection hc with hc; subst hc; exact .inl ⟨t, rfl, h⟩
  | cons e rest ih =>
    intro i s s' t h hc
    simp only [runFrom] at hc
    split at hc
    · cases hc
    · rename_i s1 hs
      rcases step_sim h hs with ⟨t1, k1, k2⟩ | ⟨err, k1, k2⟩
      · rcases ih (i + 1) k2 hc with ⟨t', j1, j2⟩ | ⟨err, e', j1, j2, j3⟩
        · exact .inl ⟨t', by simp [RT.run, k1, j1], j2⟩
        · exact .inr ⟨err, e', by simp [RT.run, k1, j1], List.mem_cons_of_mem _ j2, j3⟩
      · exact .inr ⟨err, e, by simp [RT.run, k1], List.mem_cons_self, k2⟩

/-! ### the preamble establishes the relation -/

theorem addReservations_spec : ∀ (n : Nat) (s : St),
    (addReservations n s).nR = s.nR + n ∧
    (∀ i, (addReservations n s).rCons i = (if s.nR ≤ i ∧ i < s.nR + n then false else s.rCons i)) ∧
    (addReservations n s).nB = s.nB ∧ (addReservations n s).bCons = s.bCons ∧
    (addReservations n s).nP = s.nP ∧ (addReservations n s).pCons = s.pCons ∧
    (addReservations n s).nA = s.nA ∧ (addReservations n s).blobs = s.blobs ∧
    (addReservations n s).bLocks = s.bLocks ∧ (addReservations n s).pSrc = s.pSrc ∧
    (addReservations n s).pending = s.pending := by
  intro n
  induction n with
  | zero =>
    intro s
    simp only [addReservations, Nat.add_zero, true_and, and_true]
    intro i
    have : ¬ (s.nR ≤ i ∧ i < s.nR) := by omega
    simp [this]
  | succ n ih =>
    intro s
    obtain ⟨a1, a2, a3, a4, a5, a6, a7, a8, a9, a10, a11⟩ := ih (newReservation s)
    simp only [addReservations]
    refine ⟨by rw [a1]; simp [newReservation]; omega, ?_, by rw [a3]; rfl, by rw [a4]; rfl, by rw [a5]; rfl,
            by rw [a6]; rfl, by rw [a7]; rfl, by rw [a8]; rfl, by rw [a9]; rfl, by rw [a10]; rfl, by rw [a11]; rfl⟩
    intro i
    rw [a2 i]
    simp only [newReservation, upd]
    by_cases h1 : s.nR + 1 ≤ i ∧ i < s.nR + 1 + n
    · have : s.nR ≤ i ∧ i < s.nR + (n + 1) := by omega
      simp [h1, this]
    · by_cases hi : i = s.nR
      · have : s.nR ≤ i ∧ i < s.nR + (n + 1) := by omega
        simp [h1, hi, this]
      · have : ¬ (s.nR ≤ i ∧ i < s.nR + (n + 1)) := by omega
        simp [h1, hi, this]

theorem registerBlobs_spec (r : Rules) : ∀ (l : List Nat) {s s' : St}, registerBlobs r s l = .ok s' →
    s'.nB = s.nB ∧ s'.bCons = s.bCons ∧ s'.nP = s.nP ∧ s'.pCons = s.pCons ∧ s'.nR = s.nR ∧
    s'.rCons = s.rCons ∧ s'.nA = s.nA ∧ s'.bLocks = s.bLocks ∧ s'.pSrc = s.pSrc ∧ s'.pending = s.pending ∧
    (∀ h, s'.blobs.contains h = true → s.blobs.contains h = true ∨ l.contains h = true) := by
  intro l
  induction l with
  | nil => intro s s' h; simp only [registerBlobs] at h; injection h with h; subst h; simp
  | cons x rest ih =>
    intro s s' h
    simp only [registerBlobs] at h
    split at h
    · split at h
      · cases h
      · obtain ⟨a1, a2, a3, a4, a5, a6, a7, a8, a9, a10, a11⟩ := ih h
        refine ⟨a1, a2, a3, a4, a5, a6, a7, a8, a9, a10, ?_⟩
        intro y hy
        rcases a11 y hy with k | k
        · exact .inl k
        · exact .inr (by simp only [List.contains_cons, Bool.or_eq_true]; exact .inr k)
    · obtain ⟨a1, a2, a3, a4, a5, a6, a7, a8, a9, a10, a11⟩ := ih h
      refine ⟨a1, a2, a3, a4, a5, a6, a7, a8, a9, a10, ?_⟩
      intro y hy
      rcases a11 y hy with k | k
      · simp only [List.contains_eq_mem, List.mem_append, List.mem_singleton, decide_eq_true_eq] at k
        rcases k with k | k
        · exact .inl (by simpa using k)
        · exact .inr (by simp [k])
      · exact .inr (by simp only [List.contains_cons, Bool.or_eq_true]; exact .inr k)

theorem preamble_rel {r : Rules} {c : Ctx} {s : St} (h : preamble r c = .ok s) : Rel s (RT.init c) := by
  unfold preamble at h
  obtain ⟨a1, a2, a3, a4, a5, a6, a7, a8, a9, a10, a11⟩ := registerBlobs_spec r c.blobs h
  obtain ⟨b1, b2, b3, b4, b5, b6, b7, b8, _, _, _⟩ := addReservations_spec c.nPrealloc St.init
  simp only at a1 a2 a3 a4 a5 a6 a7 a11
  refine ⟨by rw [a1, b3]; rfl, ?_, by rw [a3, b5]; rfl, ?_, by rw [a5, b1]; simp [RT.init, St.init], ?_,
          by rw [a7, b7]; rfl, ?_⟩
  · intro i; rw [a1, b3]; simp [RT.init, St.init]
  · intro i; rw [a3, b5]; simp [RT.init, St.init]
  · intro i
    rw [a5, a6, b1, b2 i]
    simp only [RT.init, St.init, Nat.zero_add, Nat.zero_le, true_and]
    by_cases hi : i < c.nPrealloc <;> simp [hi]
  · intro x hx
    rcases a11 x hx with k | k
    · rw [b8] at k; simp [St.init] at k
    · simpa [RT.init] using k


/-! ### how an accepted manifest ends -/

theorem firstLive_none : ∀ (n i : Nat) {cons : Nat → Bool}, firstLive cons n i = none →
    ∀ j, i ≤ j → j < i + n → cons j = true := by
  intro n
  induction n with
  | zero => intro i cons _ j h1 h2; omega
  | succ n ih =>
    intro i cons h j h1 h2
    simp only [firstLive] at h
    split at h
    · rename_i hc
      by_cases hj : j = i
      · subst hj; exact hc
      · exact ih (i + 1) h j (by omega) (by omega)
    · cases h

theorem runFrom_steps {r : Rules} {c : Ctx} : ∀ (effects : List Effect) (i : Nat) {s s' : St},
    runFrom r c i s effects = .ok s' → ∀ e ∈ effects, ∃ s1 s2, step r c s1 e = .ok s2 := by
  intro effects
  induction effects with
  | nil => intro i s s' _ e he; cases he
  | cons x rest ih =>
    intro i s s' h e he
    simp only [runFrom] at h
    split at h
    · cases h
    · rename_i s1 hs
      rcases List.mem_cons.mp he with rfl | he
      · exact ⟨s, s1, hs⟩
      · exact ih (i + 1) h e he

theorem step_ok_not_sub {r : Rules} {c : Ctx} {s s' : St} {e : Effect} (hsub : c.isSub = false)
    (h : step r c s e = .ok s') : e.isYieldToParent = false ∧ e ≠ .verification := by
  unfold step at h
  cases hn : nextReq s e with
  | error er => rw [hn] at h; cases h
  | ok s0 =>
    rw [hn] at h
    cases e with
    | verification => simp [hsub] at h
    | invocation k d args =>
      cases k with
      | yieldParent => simp [handleInvocation, invTarget, hsub] at h
      | _ => simp [Effect.isYieldToParent]
    | _ => simp [Effect.isYieldToParent]

theorem runFrom_pending_step {r : Rules} {c : Ctx} {s s' : St} {e : Effect}
    (h : step r c s e = .ok s') (hp : s.pending = true) : e.isInvocation = true := by
  unfold step nextReq at h
  simp only [hp, if_true] at h
  by_cases hi : e.isInvocation = true
  · exact hi
  · simp [hi] at h

end Radix.StaticInterp
