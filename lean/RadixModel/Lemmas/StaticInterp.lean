/-
C36 — helper lemmas about `RadixModel/Model/StaticInterp.lean`:
frame/characterisation lemmas of every interpreter operation, the simulation relation between the
interpreter state and the run-time id tables, and the proof-lock counting invariant.
-/
import RadixModel.Model.StaticInterp

namespace Radix.StaticInterp

@[simp] theorem upd_same {β : Type} (f : Nat → β) (a : Nat) (b : β) : upd f a b a = b := by simp [upd]
theorem upd_ne {β : Type} (f : Nat → β) {a x : Nat} (b : β) (h : x ≠ a) : upd f a b x = f x := by
  simp [upd, h]

/-! ### `get*` -/

theorem getBucket_ok {s : St} {b : Nat} : getBucket s b = .ok () ↔ b < s.nB ∧ s.bCons b = false := by
  unfold getBucket; by_cases h1 : b < s.nB <;> by_cases h2 : s.bCons b = true <;> simp [h1, h2]

theorem getProof_ok {s : St} {p : Nat} : getProof s p = .ok () ↔ p < s.nP ∧ s.pCons p = false := by
  unfold getProof; by_cases h1 : p < s.nP <;> by_cases h2 : s.pCons p = true <;> simp [h1, h2]

theorem getReservation_ok {s : St} {x : Nat} :
    getReservation s x = .ok () ↔ x < s.nR ∧ s.rCons x = false := by
  unfold getReservation; by_cases h1 : x < s.nR <;> by_cases h2 : s.rCons x = true <;> simp [h1, h2]

theorem getNamed_ok {s : St} {a : Nat} : getNamed s a = .ok () ↔ a < s.nA := by
  unfold getNamed; by_cases h1 : a < s.nA <;> simp [h1]

/-! ### characterisation of successful operations -/

theorem consumeBucket_ok {r : Rules} {s s' : St} {b : Nat} (h : consumeBucket r s b = .ok s') :
    b < s.nB ∧ s.bCons b = false ∧ (r.proofLock = true → s.bLocks b = 0) ∧
    s' = { s with bCons := upd s.bCons b true } := by
  unfold consumeBucket at h
  split at h
  · cases h
  · rename_i hg
    have := getBucket_ok.mp hg
    split at h
    · cases h
    · rename_i hl
      injection h with h
      refine ⟨this.1, this.2, ?_, h.symm⟩
      intro hp; simp [hp] at hl; omega

theorem newProof_ok {s s' : St} {src : Option Nat} (h : newProof s src = .ok s') :
    (∀ b, src = some b → b < s.nB ∧ s.bCons b = false) ∧
    s'.nB = s.nB ∧ s'.bCons = s.bCons ∧ s'.bFung = s.bFung ∧
    s'.bLocks = (match src with | some b => upd s.bLocks b (s.bLocks b + 1) | none => s.bLocks) ∧
    s'.nP = s.nP + 1 ∧ s'.pSrc = upd s.pSrc s.nP src ∧ s'.pCons = upd s.pCons s.nP false ∧
    s'.nR = s.nR ∧ s'.rCons = s.rCons ∧ s'.nA = s.nA ∧ s'.nI = s.nI ∧ s'.blobs = s.blobs ∧
    s'.pending = s.pending := by
  unfold newProof at h
  cases src with
  | none => injection h with h; subst h; simp
  | some b =>
    simp only at h
    split at h
    · cases h
    · rename_i hg
      have := getBucket_ok.mp hg
      injection h with h; subst h; simp [this]

theorem consumeProof_ok {s s' : St} {p : Nat} (h : consumeProof s p = .ok s') :
    p < s.nP ∧ s.pCons p = false ∧
    s'.nB = s.nB ∧ s'.bCons = s.bCons ∧ s'.bFung = s.bFung ∧
    (match s.pSrc p with
     | some b => b < s.nB ∧ s.bCons b = false ∧ s.bLocks b ≠ 0 ∧ s'.bLocks = upd s.bLocks b (s.bLocks b - 1)
     | none => s'.bLocks = s.bLocks) ∧
    s'.nP = s.nP ∧ s'.pSrc = s.pSrc ∧ s'.pCons = upd s.pCons p true ∧
    s'.nR = s.nR ∧ s'.rCons = s.rCons ∧ s'.nA = s.nA ∧ s'.nI = s.nI ∧ s'.blobs = s.blobs ∧
    s'.pending = s.pending := by
  unfold consumeProof at h
  split at h
  · cases h
  · rename_i hg
    have hp := getProof_ok.mp hg
    simp only at h
    cases hsrc : s.pSrc p with
    | none => rw [hsrc] at h; injection h with h; subst h; simp [hp]
    | some b =>
      rw [hsrc] at h
      simp only at h
      split at h
      · cases h
      · rename_i hgb
        have hb := getBucket_ok.mp hgb
        simp only at hb
        split at h
        · cases h
        · rename_i hz
          injection h with h; subst h
    simp only [] at h
          simp [hp, hb, hz]

theorem consumeReservation_ok {s s' : St} {x : Nat} (h : consumeReservation s x = .ok s') :
    x < s.nR ∧ s.rCons x = false ∧ s' = { s with rCons := upd s.rCons x true } := by
  unfold consumeReservation at h
  split at h
  · cases h
  · rename_i hg
    have := getReservation_ok.mp hg
    injection h with h
    exact ⟨this.1, this.2, h.symm⟩

end Radix.StaticInterp
